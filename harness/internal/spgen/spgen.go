// Package spgen is the harness shared by the slow-path properties C09 (SCMP
// errors) and C08 (robustness): decoration of rtgen scenarios (every SCMP type as
// upper layer, HBH/E2E extension headers, packet sizes up to the buffer size,
// long paths, EPIC wrapping), an independent decoder of the replies the real slow
// path emits, an independent AES-CMAC (RFC 4493) for the expected authenticator,
// and the printers of the Gallina terms of coq/theories/Model/RouterScmp.v.
package spgen

import (
	"bytes"
	"crypto/aes"
	"encoding/binary"
	"fmt"
	"strings"

	"github.com/gopacket/gopacket"

	"github.com/scionproto/scion/pkg/slayers"
	"github.com/scionproto/scion/pkg/slayers/path/epic"
	"github.com/scionproto/scion/pkg/slayers/path/scion"
	"github.com/scionproto/scion/pkg/spao"
	"github.com/scionproto/scion/router"

	"verifharness/internal/rtgen"
	"verifharness/internal/vgen"
)

// MaxPacket is the largest packet the packet pool can hold behind its headroom.
const MaxPacket = router.VerifBufSize - router.VerifMinHeadroom

// ---------------------------------------------------------------- bytes as primitive ints

// BytesInts prints b as `(RouterScmp.bytesI len [[w;..];..])`: seven bytes per
// 63-bit integer, first byte in the low bits, lists of at most 32 integers.
func BytesInts(b []byte) string {
	var chunks, ws []string
	for i := 0; i < len(b); i += 7 {
		var w uint64
		for k := 0; k < 7 && i+k < len(b); k++ {
			w |= uint64(b[i+k]) << (8 * k)
		}
		ws = append(ws, fmt.Sprintf("%d%%uint63", w))
		if len(ws) == 32 {
			chunks = append(chunks, vgen.List(ws))
			ws = nil
		}
	}
	if len(ws) > 0 {
		chunks = append(chunks, vgen.List(ws))
	}
	return fmt.Sprintf("(RouterScmp.bytesI %d %s)", len(b), vgen.List(chunks))
}

// ---------------------------------------------------------------- EPIC wrapping

// Epicize turns a serialized packet with a SCION-type path into one with an EPIC
// path around the same SCION path (16 bytes of PktID / PHVF / LHVF in front).
func Epicize(raw []byte, meta [16]byte) []byte {
	if len(raw) < 12 || raw[8] != 1 || int(raw[5])+4 > 255 {
		return nil
	}
	al := 16 + 4*(1+int(raw[9]>>4&3)) + 4*(1+int(raw[9]&3))
	off := 12 + al
	if len(raw) < off {
		return nil
	}
	out := make([]byte, 0, len(raw)+16)
	out = append(out, raw[:off]...)
	out = append(out, meta[:]...)
	out = append(out, raw[off:]...)
	out[8] = 3
	out[5] += 4
	return out
}

// DeEpic is the inverse of Epicize (ok=false if raw has no EPIC path).
func DeEpic(raw []byte) ([]byte, bool) {
	if len(raw) < 12 || raw[8] != 3 || raw[5] < 4 {
		return nil, false
	}
	al := 16 + 4*(1+int(raw[9]>>4&3)) + 4*(1+int(raw[9]&3))
	off := 12 + al
	if len(raw) < off+16 {
		return nil, false
	}
	out := make([]byte, 0, len(raw)-16)
	out = append(out, raw[:off]...)
	out = append(out, raw[off+16:]...)
	out[8] = 1
	out[5] -= 4
	return out, true
}

// Left is the decoded view of a packet as the fast path left it.
type Left struct {
	Rec  *rtgen.Rec
	Epic bool
	TC   uint8
	Flow uint32
	Next uint8
	Raw  []byte
}

// ParseLeft decodes raw (SCION or EPIC path) by fixed offsets.
func ParseLeft(raw []byte) (*Left, error) {
	l := &Left{Raw: raw}
	b := raw
	if len(raw) >= 12 && raw[8] == 3 {
		d, ok := DeEpic(raw)
		if !ok {
			return nil, fmt.Errorf("short EPIC packet")
		}
		b, l.Epic = d, true
	}
	rec, err := rtgen.Parse(b)
	if err != nil {
		return nil, err
	}
	l.Rec = rec
	line := binary.BigEndian.Uint32(raw[:4])
	l.TC = uint8(line >> 20)
	l.Flow = line & 0xfffff
	l.Next = raw[4]
	return l, nil
}

func ints(ws []uint64) string {
	out := make([]string, len(ws))
	for i, w := range ws {
		out[i] = fmt.Sprintf("%d%%uint63", w)
	}
	return vgen.List(out)
}

func b2u(b bool) uint64 {
	if b {
		return 1
	}
	return 0
}

func mac48(m [6]byte) uint64 {
	return uint64(m[0])<<40 | uint64(m[1])<<32 | uint64(m[2])<<24 | uint64(m[3])<<16 | uint64(m[4])<<8 | uint64(m[5])
}

// RecTerm prints a decoded header as `RouterScmp.pktI ..` (hop and info fields packed into
// primitive integers).
func RecTerm(r *rtgen.Rec) string {
	var infos, hops []uint64
	for _, i := range r.Infos {
		infos = append(infos, b2u(i.Peer)<<33|b2u(i.ConsDir)<<32|uint64(i.Rsv)<<16|uint64(i.SegID), uint64(i.Timestamp))
	}
	for _, h := range r.Hops {
		hops = append(hops, b2u(h.IngressAlert)<<49|b2u(h.EgressAlert)<<48|uint64(h.ExpTime)<<40|
			uint64(h.ConsIngress)<<24|uint64(h.ConsEgress)<<8|uint64(h.Rsv), mac48(h.Mac))
	}
	meta := uint64(r.CurrINF)<<40 | uint64(r.CurrHF)<<32 | uint64(r.Seg[0])<<24 | uint64(r.Seg[1])<<16 |
		uint64(r.Seg[2])<<8 | uint64(r.MetaRsv)
	return vgen.App("RouterScmp.pktI", vgen.N(r.DstIA), vgen.N(r.SrcIA), vgen.N(uint64(r.DstType)),
		vgen.N(uint64(r.SrcType)), vgen.Bytes(r.DstRaw), vgen.Bytes(r.SrcRaw), vgen.N(uint64(r.PayLen)),
		vgen.N(uint64(r.PayActual)), fmt.Sprintf("%d%%uint63", meta), ints(infos), ints(hops))
}

// Term prints the RouterScmp.spin term.
func (l *Left) Term() string {
	return vgen.App("RouterScmp.mkSpin", RecTerm(l.Rec), vgen.B(l.Epic),
		vgen.N(uint64(l.TC)), vgen.N(uint64(l.Flow)), vgen.N(uint64(l.Next)), BytesInts(l.Raw))
}

// ---------------------------------------------------------------- AES-CMAC (RFC 4493), independent of pkg/spao

func cmacShift(b []byte) []byte {
	out := make([]byte, 16)
	var carry byte
	for i := 15; i >= 0; i-- {
		out[i] = b[i]<<1 | carry
		carry = b[i] >> 7
	}
	if carry != 0 {
		out[15] ^= 0x87
	}
	return out
}

// CMAC computes AES-CMAC of msg under key.
func CMAC(key, msg []byte) []byte {
	c, err := aes.NewCipher(key)
	if err != nil {
		panic(err)
	}
	l := make([]byte, 16)
	c.Encrypt(l, l)
	k1 := cmacShift(l)
	k2 := cmacShift(k1)
	n := (len(msg) + 15) / 16
	complete := n > 0 && len(msg)%16 == 0
	if n == 0 {
		n = 1
	}
	last := make([]byte, 16)
	copy(last, msg[(n-1)*16:])
	if complete {
		for i := range last {
			last[i] ^= k1[i]
		}
	} else {
		last[len(msg)-(n-1)*16] = 0x80
		for i := range last {
			last[i] ^= k2[i]
		}
	}
	x := make([]byte, 16)
	for i := 0; i < n-1; i++ {
		for j := 0; j < 16; j++ {
			x[j] ^= msg[i*16+j]
		}
		c.Encrypt(x, x)
	}
	for j := 0; j < 16; j++ {
		x[j] ^= last[j]
	}
	c.Encrypt(x, x)
	return x
}

// ---------------------------------------------------------------- reply decoding

// Reply is an emitted SCMP packet, decoded.
type Reply struct {
	Rec      *rtgen.Rec
	TC       uint8
	Flow     uint32
	Next     uint8
	HdrLen   uint8
	PathType uint8
	HasAuth  bool
	ExtLen   int
	ExtNext  uint8
	SPI      uint32
	Alg      uint8
	TS       uint64
	Mac      []byte
	L4       []byte
	// MacInput is the authenticated data a receiver computes for this packet with the real
	// pkg/spao serializer, followed by the upper layer (nil without authenticator).
	MacInput []byte
	Tag      []byte // AES-CMAC of MacInput under the all-zero key of drkeyutil.FakeProvider
}

// DecodeReply decodes the bytes the slow path emitted. err != nil: not a SCION packet with a
// SCION-type path, an optional E2E header holding exactly one authenticator option, and an upper layer.
func DecodeReply(out []byte) (*Reply, error) {
	rec, err := rtgen.Parse(out)
	if err != nil {
		return nil, err
	}
	line := binary.BigEndian.Uint32(out[:4])
	if line>>28 != 0 {
		return nil, fmt.Errorf("version %d", line>>28)
	}
	rp := &Reply{Rec: rec, TC: uint8(line >> 20), Flow: line & 0xfffff, Next: out[4], HdrLen: out[5],
		PathType: out[8]}
	rest := out[int(rp.HdrLen)*4:]
	if rp.Next == uint8(slayers.End2EndClass) {
		var e2e slayers.EndToEndExtn
		if err := e2e.DecodeFromBytes(rest, gopacket.NilDecodeFeedback); err != nil {
			return nil, fmt.Errorf("e2e: %v", err)
		}
		if len(e2e.Options) != 1 {
			return nil, fmt.Errorf("e2e: %d options", len(e2e.Options))
		}
		opt, err := slayers.ParsePacketAuthOption(e2e.Options[0])
		if err != nil {
			return nil, fmt.Errorf("e2e: %v", err)
		}
		rp.HasAuth = true
		rp.ExtLen = len(e2e.Contents)
		rp.ExtNext = uint8(e2e.NextHdr)
		rp.SPI = uint32(opt.SPI())
		rp.Alg = uint8(opt.Algorithm())
		rp.TS = opt.TimestampSN()
		rp.Mac = append([]byte(nil), opt.Authenticator()...)
		rp.L4 = e2e.Payload
		// what a receiver authenticates: the real serializer of pkg/spao on the decoded packet
		var s slayers.SCION
		s.RecyclePaths()
		if err := s.DecodeFromBytes(out, gopacket.NilDecodeFeedback); err != nil {
			return nil, fmt.Errorf("slayers: %v", err)
		}
		ad, err := spao.VerifAuthenticatedData(spao.MACInput{Header: opt, ScionLayer: &s,
			PldType: slayers.L4SCMP, Pld: rp.L4})
		if err != nil {
			return nil, fmt.Errorf("spao: %v", err)
		}
		rp.MacInput = append(ad, rp.L4...)
		rp.Tag = CMAC(make([]byte, 16), rp.MacInput)
	} else {
		rp.L4 = rest
	}
	return rp, nil
}

// SlayersDecodes reports whether the real slayers decode out as SCION [+E2E] + SCMP
// without an error layer, with HdrLen / PayloadLen consistent with the byte count.
func SlayersDecodes(out []byte) error {
	p := gopacket.NewPacket(out, slayers.LayerTypeSCION, gopacket.DecodeOptions{NoCopy: true})
	if e := p.ErrorLayer(); e != nil {
		return fmt.Errorf("error layer: %v", e.Error())
	}
	sl, _ := p.Layer(slayers.LayerTypeSCION).(*slayers.SCION)
	if sl == nil {
		return fmt.Errorf("no SCION layer")
	}
	if int(sl.HdrLen)*4+int(sl.PayloadLen) != len(out) {
		return fmt.Errorf("HdrLen*4 + PayloadLen = %d, packet has %d bytes", int(sl.HdrLen)*4+int(sl.PayloadLen), len(out))
	}
	if sl.Path.Type() == scion.PathType {
		raw, ok := sl.Path.(*scion.Raw)
		if ok {
			if int(raw.PathMeta.CurrHF) >= raw.NumHops || int(raw.PathMeta.CurrINF) >= raw.NumINF {
				return fmt.Errorf("path pointers outside the path")
			}
			if 12+sl.AddrHdrLen()+raw.Len() != int(sl.HdrLen)*4 {
				return fmt.Errorf("HdrLen does not match common+address+path header")
			}
		}
	}
	if p.Layer(slayers.LayerTypeSCMP) == nil {
		return fmt.Errorf("no SCMP layer")
	}
	return nil
}

func bytes16(b []byte) string {
	if len(b) > 16 {
		return BytesInts(b)
	}
	var v []string
	for _, x := range b {
		v = append(v, fmt.Sprint(x))
	}
	return "[" + strings.Join(v, ";") + "]"
}

// Term prints the RouterScmp.reply term.
func (rp *Reply) Term() string {
	auth := "None"
	if rp.HasAuth {
		auth = vgen.Opt(vgen.App("RouterScmp.mkAuth", vgen.N(uint64(rp.ExtLen)), vgen.N(uint64(rp.ExtNext)),
			vgen.N(uint64(rp.SPI)), vgen.N(uint64(rp.Alg)), vgen.N(rp.TS), bytes16(rp.Mac)), true)
	}
	return vgen.App("RouterScmp.mkReply", RecTerm(rp.Rec), vgen.N(uint64(rp.TC)), vgen.N(uint64(rp.Flow)),
		vgen.N(uint64(rp.Next)), vgen.N(uint64(rp.HdrLen)), vgen.N(uint64(rp.PathType)), auth, "l4v")
}

// L4Term prints the upper layer of the reply; the case term binds it to `l4v`, which Term
// and MacTable refer to.
func (rp *Reply) L4Term() string {
	if rp == nil {
		return "(@nil N)"
	}
	return BytesInts(rp.L4)
}

// MacTable prints the list of (input, tag) pairs of the case: the authenticated data of
// the observed packet followed by its upper layer (`l4v`).
func (rp *Reply) MacTable() string {
	if rp == nil || !rp.HasAuth {
		return "[]"
	}
	return "[(pair (app " + BytesInts(rp.MacInput[:len(rp.MacInput)-len(rp.L4)]) + " l4v) " + bytes16(rp.Tag) + ")]"
}

// ReqTerm prints the Router.spreq of a fast-path result.
func ReqTerm(res *router.VerifResult) (string, bool) {
	switch {
	case res.Req.Type == router.VerifSPRouterAlertIngress:
		return "Router.SpAlertIngress", true
	case res.Req.Type == router.VerifSPRouterAlertEgress:
		return "Router.SpAlertEgress", true
	case res.Req.Type >= 0:
		return vgen.App("Router.SpScmp", vgen.N(uint64(res.Req.Type)), vgen.N(uint64(res.Req.Code)),
			vgen.N(uint64(res.Req.Pointer))), true
	}
	return "", false
}

// SlowObs is the observation of one slow-path run.
type SlowObs struct {
	Slow  router.VerifSlowResult
	Left  *Left
	Reply *Reply
	Kind  string // "panic", "drop", "echo", "reply", "unparsable"
	Err   error  // why the reply is unparsable / what slayers say
}

// RunSlow runs the real slow path on the packet the fast path left in res.
func RunSlow(rt *rtgen.Router, res router.VerifResult) *SlowObs {
	o := &SlowObs{}
	left := append([]byte(nil), res.Out...)
	o.Left, _ = ParseLeft(left)
	o.Slow = rt.DP.VerifSlowPath(res)
	switch {
	case o.Slow.PanicMsg != "":
		o.Kind = "panic"
	case o.Slow.Dropped:
		o.Kind = "drop"
	case bytes.Equal(o.Slow.Out, left):
		o.Kind = "echo"
	default:
		rp, err := DecodeReply(o.Slow.Out)
		if err != nil {
			o.Kind, o.Err = "unparsable", err
			return o
		}
		o.Reply = rp
		o.Kind = "reply"
		o.Err = SlayersDecodes(o.Slow.Out)
	}
	return o
}

// ImplTerm prints the RouterScmp.sresult observed.
func (o *SlowObs) ImplTerm() string {
	switch o.Kind {
	case "panic":
		return "RouterScmp.SPanic"
	case "drop":
		return "RouterScmp.SDrop"
	case "echo":
		return "RouterScmp.SEcho"
	case "reply":
		return vgen.App("RouterScmp.SReply", o.Reply.Term())
	}
	return "RouterScmp.SUnparsable"
}

// SlowCaseTerm prints the RouterScmp.CSlow case of one slow-path run (ok=false if the request
// or the packet the fast path left cannot be expressed).
func SlowCaseTerm(cfgName string, ing rtgen.Ingress, res *router.VerifResult, o *SlowObs) (string, bool) {
	req, ok := ReqTerm(res)
	if !ok || o.Left == nil {
		return "", false
	}
	ats := uint64(0)
	if o.Reply != nil {
		ats = o.Reply.TS
	}
	return "(let l4v := " + o.Reply.L4Term() + " in " + vgen.App("RouterScmp.CSlow", cfgName, ing.Gallina(), req,
		vgen.N(uint64(res.Egress)), o.Left.Term(), "false", vgen.N(ats), o.Reply.MacTable(), o.ImplTerm()) + ")", true
}

// Geo is the geometry of an emitted packet as the real slayers decode it.
type Geo struct {
	Total, HdrLen, PayLen, PathType, DstType, SrcType int
	CurrINF, CurrHF                                   int
	Seg                                               [3]int
}

// Term prints the RouterTotal.geo term.
func (g *Geo) Term() string {
	n := func(v int) string { return vgen.N(uint64(v)) }
	return vgen.App("RouterTotal.mkGeo", n(g.Total), n(g.HdrLen), n(g.PayLen), n(g.PathType), n(g.DstType),
		n(g.SrcType), n(g.CurrINF), n(g.CurrHF), n(g.Seg[0]), n(g.Seg[1]), n(g.Seg[2]))
}

// DecodeGeo decodes out with the real slayers SCION decoder and reports its geometry; err != nil
// if it does not decode as a SCION packet at all.
func DecodeGeo(out []byte) (*Geo, error) {
	var s slayers.SCION
	s.RecyclePaths()
	if err := s.DecodeFromBytes(out, gopacket.NilDecodeFeedback); err != nil {
		return nil, err
	}
	g := &Geo{Total: len(out), HdrLen: int(s.HdrLen), PayLen: int(s.PayloadLen), PathType: int(s.PathType),
		DstType: int(s.DstAddrType), SrcType: int(s.SrcAddrType)}
	var raw *scion.Raw
	switch p := s.Path.(type) {
	case *scion.Raw:
		raw = p
	case *epic.Path:
		raw = p.ScionPath
	}
	if raw != nil {
		g.CurrINF, g.CurrHF = int(raw.PathMeta.CurrINF), int(raw.PathMeta.CurrHF)
		g.Seg = [3]int{int(raw.PathMeta.SegLen[0]), int(raw.PathMeta.SegLen[1]), int(raw.PathMeta.SegLen[2])}
	}
	return g, nil
}

// Consistent is the Go-side copy of RouterTotal.geo_ok (used to report a violation directly,
// with the input as replay, also for inputs that are not shipped to Coq).
func (g *Geo) Consistent() error {
	ni, nh := 0, g.Seg[0]+g.Seg[1]+g.Seg[2]
	switch {
	case g.Seg[2] > 0:
		ni = 3
	case g.Seg[1] > 0:
		ni = 2
	case g.Seg[0] > 0:
		ni = 1
	}
	sc := 4 + 8*ni + 12*nh
	var pl int
	switch g.PathType {
	case 0:
		pl = 0
	case 1:
		pl = sc
	case 2:
		pl = 32
	case 3:
		pl = 16 + sc
	default:
		return fmt.Errorf("path type %d", g.PathType)
	}
	need := 12 + 16 + 4*(1+g.DstType&3) + 4*(1+g.SrcType&3) + pl
	if need > 4*g.HdrLen {
		return fmt.Errorf("HdrLen %d (x4) does not cover the %d header bytes", g.HdrLen, need)
	}
	if 4*g.HdrLen+g.PayLen != g.Total {
		return fmt.Errorf("4*HdrLen + PayloadLen = %d, packet has %d bytes", 4*g.HdrLen+g.PayLen, g.Total)
	}
	if g.PathType == 1 || g.PathType == 3 {
		if g.Seg[2] > 0 && (g.Seg[1] == 0 || g.Seg[0] == 0) || g.Seg[2] == 0 && g.Seg[1] > 0 && g.Seg[0] == 0 {
			return fmt.Errorf("segment lengths %v", g.Seg)
		}
		if nh > 64 {
			return fmt.Errorf("%d hop fields", nh)
		}
		if g.CurrHF >= nh {
			return fmt.Errorf("CurrHF %d outside the path of %d hops", g.CurrHF, nh)
		}
		want := 2
		if g.CurrHF < g.Seg[0] {
			want = 0
		} else if g.CurrHF < g.Seg[0]+g.Seg[1] {
			want = 1
		}
		if g.CurrINF != want {
			return fmt.Errorf("CurrINF %d does not match CurrHF %d (segments %v)", g.CurrINF, g.CurrHF, g.Seg)
		}
	}
	return nil
}
