package spgen

import (
	"encoding/binary"

	"github.com/scionproto/scion/pkg/slayers"

	"verifharness/internal/rtgen"
	"verifharness/internal/vgen"
)

// SCMPTypes is every SCMP type used as upper layer of offending packets: the defined error
// types, undefined error types (3, 7, 100, 127, 0), the defined informational types and
// undefined informational ones (132, 200, 255).
var SCMPTypes = []uint8{1, 2, 4, 5, 6, 0, 3, 7, 100, 127, 128, 129, 130, 131, 132, 200, 255}

// SCMPMsg builds an SCMP message of type t with the body that type has (random content),
// followed by extra bytes (the quote of an error message / echo data). cut >= 0 truncates
// the message to cut bytes.
func SCMPMsg(r *vgen.Rand, t uint8, extra []byte, cut int) rtgen.L4 {
	body := 4
	switch slayers.SCMPType(t) {
	case slayers.SCMPTypeExternalInterfaceDown:
		body = 16
	case slayers.SCMPTypeInternalConnectivityDown:
		body = 24
	case slayers.SCMPTypeTracerouteRequest, slayers.SCMPTypeTracerouteReply:
		body = 20
	}
	b := make([]byte, 4+body+len(extra))
	b[0] = t
	b[1] = uint8(r.Intn(3)) * uint8(r.Intn(60))
	if t == 130 || t == 131 {
		b[1] = 0
		if r.Chance(1, 10) {
			b[1] = 1
		}
	}
	binary.BigEndian.PutUint16(b[2:], uint16(r.U64()))
	copy(b[4:], r.Bytes(body))
	copy(b[4+body:], extra)
	if cut >= 0 && cut < len(b) {
		b = b[:cut]
	}
	return rtgen.L4{Proto: uint8(slayers.L4SCMP), Bytes: b, Name: "scmp"}
}

// InnerQuote is a plausible quote of an SCMP error message: a small SCION packet, possibly
// truncated inside its headers.
func InnerQuote(r *vgen.Rand) []byte {
	d := &rtgen.Desc{
		Infos:  []rtgen.Info{{ConsDir: r.Bool(), SegID: uint16(r.U64()), Timestamp: uint32(r.U64())}},
		SegLen: [3]uint8{2, 0, 0},
		Hops:   []rtgen.Hop{{ConsEgress: 1, ExpTime: 63}, {ConsIngress: 2, ExpTime: 63}},
		SrcIA:  1<<48 | 0xff0000000110, DstIA: 2<<48 | 0xff0000000220,
		Src: rtgen.HostIP4(10, 0, 0, 1), Dst: rtgen.HostIP4(10, 0, 0, 2),
	}
	switch r.Intn(4) {
	case 0:
		d.L4 = rtgen.UDP(uint16(r.Range(0, 65535)), 53, r.Bytes(r.Intn(8)))
	case 1:
		d.L4 = rtgen.SCMPEcho(r.Bool(), uint16(r.U64()), 1, nil)
	case 2:
		d.L4 = SCMPMsg(r, vgen.Pick(r, SCMPTypes...), nil, -1)
	default:
		d.L4 = rtgen.SCMPTraceroute(r.Bool(), uint16(r.U64()), 2, 0, 0)
	}
	if r.Chance(1, 4) {
		d.E2E = []rtgen.Opt{{Type: 7, Data: r.Bytes(3)}}
	}
	raw, err := d.Serialize()
	if err != nil {
		return r.Bytes(r.Intn(60))
	}
	if r.Chance(1, 2) {
		raw = raw[:r.Intn(len(raw)+1)]
	}
	return raw
}

// Opts describes how Decorate changed a scenario (for tallies).
type Opts struct {
	L4      string
	Ext     string
	Size    string
	LongPth bool
}

func extOpts(r *vgen.Rand, big bool) []rtgen.Opt {
	opts := []rtgen.Opt{}
	switch r.Intn(5) {
	case 0: // padding only
	case 1:
		opts = append(opts, rtgen.Opt{Type: uint8(r.Range(3, 250)), Data: r.Bytes(r.Intn(12))})
	case 2: // something shaped like an authenticator option
		d := make([]byte, 12+16)
		binary.BigEndian.PutUint32(d, 1)
		copy(d[6:], r.Bytes(22))
		opts = append(opts, rtgen.Opt{Type: 2, Data: d})
	default:
		for i := r.Range(1, 4); i > 0; i-- {
			opts = append(opts, rtgen.Opt{Type: uint8(r.Range(2, 250)), Data: r.Bytes(r.Intn(30))})
		}
	}
	if big {
		// fill up towards the 1024-byte maximum of an extension header
		total := 2
		for _, o := range opts {
			total += 2 + len(o.Data)
		}
		for total < 1000 {
			n := min(250, 1020-total-2)
			opts = append(opts, rtgen.Opt{Type: uint8(r.Range(3, 250)), Data: r.Bytes(n)})
			total += 2 + n
		}
	}
	return opts
}

// ExtendPath inserts n hop fields of other ASes where they do not change what the router
// under test looks at: behind the last hop if the current hop is not the last one, else in
// front of the first hop. It returns false if the path cannot take them.
func ExtendPath(r *vgen.Rand, sc *rtgen.Scenario, n int) bool {
	d := sc.Desc
	num := len(d.Hops)
	if n <= 0 || num+n > 64 || len(d.Infos) == 0 {
		return false
	}
	mk := func() rtgen.Hop {
		h := rtgen.Hop{ConsIngress: uint16(r.Range(1, 3000)), ConsEgress: uint16(r.Range(1, 3000)),
			ExpTime: uint8(r.Range(40, 255))}
		copy(h.Mac[:], r.Bytes(6))
		return h
	}
	extra := make([]rtgen.Hop, n)
	for i := range extra {
		extra[i] = mk()
	}
	last := len(d.Infos) - 1
	if int(d.CurrHF)+2 < num || (int(d.CurrHF)+1 < num && d.InfIndexForHF(d.CurrHF) == d.InfIndexForHF(d.CurrHF+1)) {
		if int(d.SegLen[last])+n > 63 {
			return false
		}
		d.Hops = append(d.Hops, extra...)
		d.SegLen[last] += uint8(n)
		return true
	}
	if d.CurrHF == 0 || int(d.SegLen[0])+n > 63 || int(d.CurrHF)+n > 63 {
		return false
	}
	d.Hops = append(extra, d.Hops...)
	d.SegLen[0] += uint8(n)
	d.CurrHF += uint8(n)
	for i := range sc.Local {
		sc.Local[i].Idx += n
	}
	return true
}

// Decorate replaces upper layer, extension headers, size and path length of a scenario.
// what selects the upper layer: "" = random.
func Decorate(r *vgen.Rand, sc *rtgen.Scenario, sizeClass int) Opts {
	d := sc.Desc
	var o Opts
	// path length: short (as generated), medium, or near the 64-hop maximum
	switch r.Intn(6) {
	case 0:
		o.LongPth = ExtendPath(r, sc, 64-len(d.Hops)-r.Intn(3))
	case 1:
		o.LongPth = ExtendPath(r, sc, r.Range(30, 45))
	case 2:
		ExtendPath(r, sc, r.Range(1, 12))
	}
	// extension headers
	big := r.Chance(1, 12)
	switch r.Intn(6) {
	case 0:
		d.HBH, d.E2E = extOpts(r, big), nil
		o.Ext = "hbh"
	case 1:
		d.HBH, d.E2E = nil, extOpts(r, big)
		o.Ext = "e2e"
	case 2:
		d.HBH, d.E2E = extOpts(r, big), extOpts(r, r.Chance(1, 12))
		o.Ext = "hbh+e2e"
	default:
		d.HBH, d.E2E = nil, nil
		o.Ext = "none"
	}
	if big {
		o.Ext += "-big"
	}
	// target size of the upper layer
	fill := 0
	switch sizeClass {
	case 0:
		fill = r.Intn(40)
		o.Size = "small"
	case 1:
		fill = r.Range(100, 700)
		o.Size = "medium"
	case 2: // around the quote limit: the whole packet is 1232 - (reply headers) +- a few bytes
		fill = -1
		o.Size = "quote-limit"
	case 3:
		fill = r.Range(1300, 4000)
		o.Size = "large"
	default:
		fill = -2
		o.Size = "buffer"
	}
	hdr := 12 + 16 + len(d.Src.Raw) + len(d.Dst.Raw) + 4 + 8*len(d.Infos) + 12*len(d.Hops)
	_, ext := (&rtgen.Desc{HBH: d.HBH, E2E: d.E2E}).Payload()
	room := MaxPacket - hdr - len(ext)
	switch fill {
	case -1:
		// reply header = 12 + 16 + |src| + |local (4 or 16)| + path + 8..28 (+32)
		base := 1232 - (hdr - len(d.Dst.Raw) + 4) - hdr - len(ext)
		fill = base - vgen.Pick(r, 8, 20, 28, 40, 52, 60) + r.Range(-3, 3)
	case -2:
		fill = room - 28 - r.Intn(3)*r.Intn(40)
	}
	fill = max(0, min(fill, room-28))
	pl := r.Bytes(fill)
	// upper layer
	switch k := r.Intn(10); {
	case k < 5:
		t := vgen.Pick(r, SCMPTypes...)
		cut := -1
		extra := pl
		if t < 128 && r.Chance(1, 2) {
			extra = append(InnerQuote(r), pl...)
		}
		if r.Chance(1, 8) {
			cut = r.Intn(9) // truncated SCMP: 0..8 bytes
		}
		d.L4 = SCMPMsg(r, t, extra, cut)
		o.L4 = "scmp"
		if t < 128 {
			o.L4 = "scmp-error"
		} else {
			o.L4 = "scmp-info"
		}
		if cut >= 0 && cut < 4 {
			o.L4 = "scmp-truncated"
		}
	case k < 7:
		d.L4 = rtgen.UDP(uint16(r.Range(0, 65535)), uint16(r.Range(0, 65535)), pl)
		o.L4 = "udp"
	case k == 7:
		d.L4 = rtgen.TCP(uint16(r.Range(0, 65535)), uint16(r.Range(0, 65535)), pl)
		o.L4 = "tcp"
	case k == 8:
		d.L4 = rtgen.RawL4(uint8(vgen.Pick(r, 253, 254, 99, 41, 0, 203)), pl)
		o.L4 = "other"
	default:
		d.L4 = rtgen.SCMPTraceroute(false, uint16(r.U64()), uint16(r.U64()), 0, 0)
		o.L4 = "traceroute-request"
	}
	return o
}
