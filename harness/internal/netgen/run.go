package netgen

import (
	"fmt"
	"sort"
	"strings"
	"time"

	"github.com/scionproto/scion/pkg/addr"
	seg "github.com/scionproto/scion/pkg/segment"
	"github.com/scionproto/scion/private/path/combinator"

	"verifharness/internal/rtgen"
	"verifharness/internal/topogen"
	"verifharness/internal/vgen"
)

// World is one generated network with its beaconed segments.
type World struct {
	Net  *Net
	Segs *topogen.Segments
	Now  int64
}

// NewWorld draws a topology (3-10 ASes), runs the mini beaconing with the real
// extender (timestamps shortly before now, so that nearly all hop fields are
// unexpired) and builds the routers.
func NewWorld(r *vgen.Rand, idx int, now int64) *World {
	topo := topogen.Generate(r, topogen.Options{SparseIfIDs: r.Chance(1, 4), ParallelChance: 30})
	segs := topo.Segments(r, topogen.BeaconOptions{
		BaseTime: now - 2600, RandomExp: r.Chance(1, 3), AnnouncePct: vgen.Pick(r, 100, 100, 70),
		MaxLen: vgen.Pick(r, 3, 4, 5),
	})
	n, err := Build(r, topo, fmt.Sprintf("topo_%d", idx))
	if err != nil {
		panic(err)
	}
	return &World{Net: n, Segs: segs, Now: now}
}

// Pairs returns all ordered pairs of distinct ASes in random order.
func (w *World) Pairs(r *vgen.Rand) [][2]addr.IA {
	var out [][2]addr.IA
	for _, a := range w.Net.ASes {
		for _, b := range w.Net.ASes {
			if a != b {
				out = append(out, [2]addr.IA{a.AS.IA, b.AS.IA})
			}
		}
	}
	vgen.Shuffle(r, out)
	// pairs of non-core ASes first: their paths have several segments, shortcuts, peering links
	sort.SliceStable(out, func(i, j int) bool {
		ci := w.Net.AS(out[i][0]).AS.Core || w.Net.AS(out[i][1]).AS.Core
		cj := w.Net.AS(out[j][0]).AS.Core || w.Net.AS(out[j][1]).AS.Core
		return !ci && cj
	})
	return out
}

func capSegs(r *vgen.Rand, l []*seg.PathSegment, n int) []*seg.PathSegment {
	l = append([]*seg.PathSegment(nil), l...)
	vgen.Shuffle(r, l)
	if len(l) > n {
		l = l[:n]
	}
	return l
}

// Paths runs the real combinator for (src, dst) and reconstructs provenance.
func (w *World) Paths(r *vgen.Rand, src, dst addr.IA, max int) ([]*Path, error) {
	ups := capSegs(r, w.Segs.Ups(src), 4)
	downs := capSegs(r, w.Segs.Downs(dst), 4)
	var rel []*seg.PathSegment
	starts, ends := map[addr.IA]bool{src: true}, map[addr.IA]bool{dst: true}
	for _, u := range ups {
		starts[u.FirstIA()] = true
	}
	for _, x := range downs {
		ends[x.FirstIA()] = true
	}
	for _, x := range w.Segs.Cores() {
		if starts[x.LastIA()] && ends[x.FirstIA()] {
			rel = append(rel, x)
		}
	}
	cores := capSegs(r, rel, 6)
	var cps []combinator.Path
	if panicked, msg := vgen.Recover(func() {
		cps = combinator.Combine(src, dst, ups, cores, downs, r.Chance(1, 4))
	}); panicked {
		return nil, fmt.Errorf("combinator panicked: %s", msg)
	}
	// prefer variety: one path of every kind first
	vgen.Shuffle(r, cps)
	var out []*Path
	for _, cp := range cps {
		p, err := NewPath(cp, src, dst, ups, cores, downs)
		if err != nil {
			return nil, err
		}
		out = append(out, p)
	}
	sort.SliceStable(out, func(i, j int) bool { return rank(out[i]) < rank(out[j]) })
	seen := map[string]int{}
	var sel []*Path
	for _, p := range out {
		if seen[p.Kind()] < 2 && len(sel) < max {
			seen[p.Kind()]++
			sel = append(sel, p)
		}
	}
	return sel, nil
}

func rank(p *Path) int {
	switch {
	case p.Peering:
		return 0
	case p.Shortcut:
		return 1
	case len(p.Slices) == 3:
		return 2
	case len(p.Slices) == 2:
		return 3
	}
	return 4
}

// Sent is a packet sent by the source host and walked through the routers.
type Sent struct {
	Path    *Path
	Desc    *rtgen.Desc
	Raw     []byte
	Rec     *rtgen.Rec
	StartRt int
	Walk    *Walk
	Perturb string
}

// Send serializes the packet of p (after applying perturb, if any) and walks it.
func (w *World) Send(p *Path, perturb func(d *rtgen.Desc) string) (*Sent, error) {
	d := p.Desc()
	s := &Sent{Path: p, Desc: d}
	a := w.Net.AS(p.SrcIA)
	f := a.If(FirstEgress(d))
	if f == nil {
		return nil, fmt.Errorf("first egress interface %d unknown in %s", FirstEgress(d), p.SrcIA)
	}
	s.StartRt = f.Owner
	if perturb != nil {
		s.Perturb = perturb(d)
	}
	raw, err := d.Serialize()
	if err != nil {
		return nil, err
	}
	s.Raw = raw
	if s.Rec, err = rtgen.Parse(raw); err != nil {
		return nil, err
	}
	s.Walk = w.Net.Walk(raw, p.SrcIA, s.StartRt, nil)
	return s, nil
}

// Tallies records the distribution buckets of one walked path.
func (w *World) Tallies(run *vgen.Run, p *Path, wk *Walk) {
	run.Tally(fmt.Sprintf("topology:%d-ASes", len(w.Net.ASes)))
	run.Tally(fmt.Sprintf("topology:max-%d-routers-per-AS", w.Net.MaxRt))
	run.Tally("path:" + p.Kind())
	run.Tally(fmt.Sprintf("path:%02d-hops", p.NumHops()))
	run.Tally(fmt.Sprintf("walk:%02d-routers", len(wk.Steps)))
	sib := false
	for _, s := range wk.Steps {
		if s.Ing.Kind == rtgen.IngSib {
			sib = true
		}
	}
	if sib {
		run.Tally("walk:crosses-a-sibling-link")
	}
	if p.DstSVC {
		run.Tally("dst:svc")
	}
	if wk.Delivered() {
		run.Tally("final:delivered")
	} else {
		run.Tally("final:" + wk.Final.Kind + ":" + wk.Final.StopDesc)
	}
}

// Ctx is the state shared by the runners of C02, C03 and C04.
type Ctx struct {
	Run    *vgen.Run
	Rng    *vgen.Rand
	Now    int64
	Worlds []*World
	defs   []string
}

// Main is the runner pattern of the end-to-end properties.
func Main(prop, checkFn, rule string, body func(x *Ctx)) {
	run := vgen.Flags(prop)
	run.Imports = []string{"Model.Router", "Model.Network", "Model.Prov"}
	run.CheckFn = checkFn
	run.DiagFn = "Prov.diag"
	run.CaseType = "Prov.case"
	run.Rule = rule
	// small shards in the quick tier: bin/check compiles up to 16 shards in parallel
	run.ShardSize = 12
	if run.Tier == "thorough" {
		run.ShardSize = 60
	}
	x := &Ctx{Run: run, Rng: vgen.NewRand(run.Seed), Now: time.Now().Unix()}
	body(x)
	run.Prelude = IADefs() + strings.Join(x.defs, "\n")
	run.Finish()
}

// World returns the i-th network of the run (generated on first use).
func (x *Ctx) World(i int) *World {
	for len(x.Worlds) <= i {
		k := len(x.Worlds)
		w := NewWorld(x.Rng.Fork(uint64(1_000_000+k)), k, x.Now)
		x.Worlds = append(x.Worlds, w)
		x.defs = append(x.defs, fmt.Sprintf("Definition %s : Network.topology := %s.", w.Net.Name, w.Net.Gallina()))
	}
	return x.Worlds[i]
}

// PathTerms are the pieces of a case shared by the three case kinds.
func PathTerms(w *World, s *Sent) (topo, now, prov, pp string) {
	port, ok, _ := s.Desc.L4.DstPort()
	return w.Net.Name, vgen.N(uint64(s.Walk.NowNs)), s.Path.ProvTermFor(s.Desc), ParamsTerm(s.Rec, port, ok)
}

// ProvTermFor prints the provenance with the hop fields as they are in d
// (a perturbed packet carries perturbed hop fields; the recorded betas stay).
func (p *Path) ProvTermFor(d *rtgen.Desc) string {
	q := *p
	q.Slices = append([]PSlice(nil), p.Slices...)
	k := 0
	for i := range q.Slices {
		hs := append([]PHop(nil), q.Slices[i].Hops...)
		for j := range hs {
			hs[j].Hop = d.Hops[k]
			k++
		}
		q.Slices[i].Hops = hs
		q.Slices[i].TS = d.Infos[i].Timestamp
	}
	return q.ProvTerm()
}

// EachPath enumerates walked paths: nWorlds networks, up to perWorld packets each.
func (x *Ctx) EachPath(nWorlds, perWorld int, f func(i int, w *World, p *Path, r *vgen.Rand)) {
	for wi := 0; wi < nWorlds; wi++ {
		w := x.World(wi)
		r := x.Rng.Fork(uint64(2_000_000 + wi))
		count, plain := 0, 0
		for _, pr := range w.Pairs(r) {
			if count >= perWorld {
				break
			}
			ps, err := w.Paths(r, pr[0], pr[1], 3)
			if err != nil {
				x.Run.Violate(-1, "path construction failed: "+err.Error(), map[string]any{
					"src": pr[0].String(), "dst": pr[1].String(), "topology": w.Net.Describe()})
				continue
			}
			for _, p := range ps {
				if count >= perWorld {
					break
				}
				if p.Kind() == "1seg" {
					// a single full segment: keep a few per network only
					if plain >= 2 {
						continue
					}
					plain++
				}
				_, _, borderline := p.ExpiryMargin(x.Now)
				if borderline {
					x.Run.Tally("skipped:hop-expiry-within-margin")
					continue
				}
				p.SetHosts(r, w.Net)
				f(count, w, p, r)
				count++
			}
		}
	}
}

// Desc is the readable description of a sent packet.
func (s *Sent) Describe(w *World) map[string]any {
	var ifs []string
	for _, x := range s.Path.Comb.Metadata.Interfaces {
		ifs = append(ifs, fmt.Sprintf("%s#%d", x.IA, x.ID))
	}
	d := map[string]any{
		"topology": w.Net.Name, "src": s.Path.SrcIA.String(), "dst": s.Path.DstIA.String(), "kind": s.Path.Kind(),
		"meta_ifs": ifs, "raw": fmt.Sprintf("%x", s.Raw), "start_router": s.StartRt, "walk": s.Walk.Describe(),
		"crossed": s.Walk.Crossed(),
	}
	if s.Perturb != "" {
		d["perturbation"] = s.Perturb
	}
	return d
}
