// Package netgen builds a whole network of REAL border-router dataplanes over a
// topogen topology (1-3 routers per AS joined by sibling links, parallel links
// between AS pairs as topogen draws them), walks serialized packets hop by hop
// through router.VerifProcess, and prints topology, provenance and walks as
// Gallina terms for Model/Network.v and Model/Prov.v (properties C02, C03, C04;
// the SegID observations of the same walks feed the walk cases of C22).
//
// topogen and rtgen are used read-only.
package netgen

import (
	"encoding/binary"
	"fmt"
	"net/netip"
	"sort"
	"strings"

	"github.com/scionproto/scion/pkg/addr"
	"github.com/scionproto/scion/router"
	rcontrol "github.com/scionproto/scion/router/control"

	"verifharness/internal/rtgen"
	"verifharness/internal/topogen"
	"verifharness/internal/vgen"
)

// IfInfo is one interface of an AS.
type IfInfo struct {
	ID     uint16
	LT     int // rtgen.LT*
	Nbr    addr.IA
	Remote uint16
	Owner  int // router index (0-based)
}

// ASNet is one AS with its routers.
type ASNet struct {
	AS    *topogen.AS
	Key   []byte // forwarding key of the routers: derived from the AS master key as router/control does
	KeyID int
	NRtr  int
	Ifs   []IfInfo
	Cfgs  []*rtgen.Config
	Rtrs  []*rtgen.Router
	SvcCS netip.AddrPort
	Hosts []netip.Addr
	byID  map[uint16]*IfInfo
}

// Net is a topology with one real dataplane per border router.
type Net struct {
	Topo  *topogen.Topology
	ASes  []*ASNet
	byIA  map[addr.IA]*ASNet
	Name  string
	MaxRt int
}

func (n *Net) AS(ia addr.IA) *ASNet { return n.byIA[ia] }

func (a *ASNet) If(id uint16) *IfInfo { return a.byID[id] }

const (
	PortLo = 31000
	PortHi = 32767
)

// Build draws the router layout of every AS of t and builds the dataplanes.
func Build(r *vgen.Rand, t *topogen.Topology, name string) (*Net, error) {
	n := &Net{Topo: t, byIA: map[addr.IA]*ASNet{}, Name: name}
	for idx, as := range t.ASes {
		a := &ASNet{AS: as, KeyID: idx + 1, byID: map[uint16]*IfInfo{}, Key: rcontrol.DeriveHFMacKey(as.Key)}
		for id, info := range as.Interfaces() {
			a.Ifs = append(a.Ifs, IfInfo{ID: id, LT: int(info.LinkType), Nbr: info.IA, Remote: info.RemoteID})
		}
		sort.Slice(a.Ifs, func(i, j int) bool { return a.Ifs[i].ID < a.Ifs[j].ID })
		a.NRtr = r.Range(1, 3)
		if a.NRtr > len(a.Ifs) {
			a.NRtr = len(a.Ifs)
		}
		if a.NRtr < 1 {
			a.NRtr = 1
		}
		perm := make([]int, len(a.Ifs))
		for i := range perm {
			perm[i] = i
		}
		vgen.Shuffle(r, perm)
		for k, i := range perm {
			if k < a.NRtr {
				a.Ifs[i].Owner = k
			} else {
				a.Ifs[i].Owner = r.Intn(a.NRtr)
			}
		}
		for i := range a.Ifs {
			a.byID[a.Ifs[i].ID] = &a.Ifs[i]
		}
		if a.NRtr > n.MaxRt {
			n.MaxRt = a.NRtr
		}
		a.SvcCS = netip.AddrPortFrom(netip.AddrFrom4([4]byte{10, byte(idx + 1), 250, 1}), uint16(30252+idx))
		a.Hosts = []netip.Addr{
			netip.AddrFrom4([4]byte{10, byte(idx + 1), 1, byte(r.Range(2, 250))}),
			netip.AddrFrom16([16]byte{0xfd, 0, 0, byte(idx + 1), 0, 0, 0, 0, 0, 0, 0, 0, 0, 0, 1, byte(r.Range(2, 250))}),
		}
		for rt := 0; rt < a.NRtr; rt++ {
			c := &rtgen.Config{
				IA: as.IA, Key: a.Key, LocalHost: netip.AddrFrom4([4]byte{10, byte(idx + 1), 0, byte(rt + 1)}),
				PortLo: PortLo, PortHi: PortHi,
				Svcs: []rtgen.Svc{{SVC: addr.SvcCS, Addr: a.SvcCS}},
			}
			for _, f := range a.Ifs {
				sib := 0
				if f.Owner != rt {
					sib = f.Owner + 1
				}
				c.Ifaces = append(c.Ifaces, rtgen.Iface{ID: f.ID, LT: f.LT, Nbr: f.Nbr, Sibling: sib, Up: true})
			}
			dp, err := c.Build()
			if err != nil {
				return nil, err
			}
			a.Cfgs = append(a.Cfgs, c)
			a.Rtrs = append(a.Rtrs, dp)
		}
		n.ASes = append(n.ASes, a)
		n.byIA[as.IA] = a
	}
	return n, nil
}

// Gallina prints the Network.topology term.
func (n *Net) Gallina() string {
	var as []string
	for _, a := range n.ASes {
		var ifs []string
		for _, f := range a.Ifs {
			ifs = append(ifs, vgen.App("Network.mkNif", vgen.N(uint64(f.ID)), "Router."+rtgen.LTNames[f.LT],
				IATerm(f.Nbr), vgen.N(uint64(f.Remote)), vgen.N(uint64(f.Owner)), "true"))
		}
		svc := vgen.Pair(vgen.N(uint64(addr.SvcCS.Base())),
			vgen.Pair(vgen.Bytes(a.SvcCS.Addr().AsSlice()), vgen.N(uint64(a.SvcCS.Port()))))
		as = append(as, vgen.App("Network.mkAs", IATerm(a.AS.IA), vgen.N(uint64(a.KeyID)),
			vgen.N(uint64(a.NRtr)), vgen.List(ifs), vgen.List([]string{svc}), vgen.N(PortLo), vgen.N(PortHi)))
	}
	return vgen.List(as)
}

// Describe is the readable form for cases.jsonl.
func (n *Net) Describe() string {
	var sb strings.Builder
	for _, a := range n.ASes {
		core := ""
		if a.AS.Core {
			core = "*"
		}
		fmt.Fprintf(&sb, "%s%s[r=%d:", a.AS.IA, core, a.NRtr)
		for _, f := range a.Ifs {
			fmt.Fprintf(&sb, " %d>%s#%d/%s@%d", f.ID, f.Nbr, f.Remote, rtgen.LTNames[f.LT], f.Owner)
		}
		sb.WriteString("] ")
	}
	return sb.String()
}

// ---------------------------------------------------------------- walks

// Step is what one router did.
type Step struct {
	IA      addr.IA
	Rtr     int
	Ing     rtgen.Ingress
	Egress  uint16
	Ext     bool
	CI, CH  uint8
	SegIDs  []uint16 // of the packet the router sent
	In      *rtgen.Rec
	Out     *rtgen.Rec
	ConsDir bool // of the info field current on arrival
}

// Final is how a walk ended.
type Final struct {
	Kind     string // delivered | stopped | noroute
	IA       addr.IA
	Rtr      int
	IP       []byte
	Port     uint16
	Stop     string // Gallina Network.stopk
	StopDesc string
}

// Walk is a hop-by-hop walk through the real routers.
type Walk struct {
	Steps []Step
	Final Final
	Macs  map[int]map[string]string // key id -> dedup key -> Router.macc term
	Last  []byte                    // bytes of the packet as delivered
	NowNs int64                     // time sampled before the first router
	Panic string
}

func (w *Walk) Delivered() bool { return w.Final.Kind == "delivered" }

// macEntries adds every MAC the model may query at this router for this packet.
func (w *Walk) macEntries(a *ASNet, in *rtgen.Rec) {
	if in == nil {
		return
	}
	m := w.Macs[a.KeyID]
	if m == nil {
		m = map[string]string{}
		w.Macs[a.KeyID] = m
	}
	// the current hop with the SegID as carried and with its MAC prefix folded in; the
	// next hop (looked at only at a segment change) with the SegID of its own info field
	add := func(k, j int, fold bool) {
		if k >= len(in.Hops) || j >= len(in.Infos) {
			return
		}
		h, inf := in.Hops[k], in.Infos[j]
		sids := []uint16{inf.SegID}
		if fold {
			sids = append(sids, inf.SegID^binary.BigEndian.Uint16(h.Mac[:2]))
		}
		for _, sid := range sids {
			key := fmt.Sprint(sid, inf.Timestamp, h.ExpTime, h.ConsIngress, h.ConsEgress)
			if _, ok := m[key]; ok {
				continue
			}
			m[key] = MacEntryTerm(sid, inf.Timestamp, h.ExpTime, h.ConsIngress, h.ConsEgress,
				rtgen.MAC(a.Key, sid, inf.Timestamp, h.ExpTime, h.ConsIngress, h.ConsEgress))
		}
	}
	add(int(in.CurrHF), int(in.CurrINF), true)
	add(int(in.CurrHF)+1, in.InfIndexForHF(int(in.CurrHF)+1), false)
}

// AddMac adds the MAC of one explicit input under the key of a (used for the
// hop-validity part of wf_prov: the model recomputes every hop's MAC).
func (w *Walk) AddMac(a *ASNet, sid uint16, ts uint32, exp uint8, in, eg uint16) {
	m := w.Macs[a.KeyID]
	if m == nil {
		m = map[string]string{}
		w.Macs[a.KeyID] = m
	}
	key := fmt.Sprint(sid, ts, exp, in, eg)
	if _, ok := m[key]; ok {
		return
	}
	m[key] = MacEntryTerm(sid, ts, exp, in, eg, rtgen.MAC(a.Key, sid, ts, exp, in, eg))
}

func mac48(m []byte) uint64 {
	var v uint64
	for _, b := range m {
		v = v<<8 | uint64(b)
	}
	return v
}

// MacsTerm prints the Prov.mactab.
func (w *Walk) MacsTerm() string {
	ids := make([]int, 0, len(w.Macs))
	for k := range w.Macs {
		ids = append(ids, k)
	}
	sort.Ints(ids)
	var out []string
	for _, k := range ids {
		keys := make([]string, 0, len(w.Macs[k]))
		for s := range w.Macs[k] {
			keys = append(keys, s)
		}
		sort.Strings(keys)
		es := make([]string, len(keys))
		for i, s := range keys {
			es[i] = w.Macs[k][s]
		}
		out = append(out, vgen.Pair(vgen.N(uint64(k)), vgen.List(es)))
	}
	return vgen.List(out)
}

// Walk sends raw from the internal network of AS start into router rtr and
// follows it until it is delivered or no longer forwarded.
func (n *Net) Walk(raw []byte, start addr.IA, rtr int, macs *Walk) *Walk {
	w := macs
	if w == nil {
		w = &Walk{Macs: map[int]map[string]string{}}
	}
	w.Steps, w.Final, w.Last = nil, Final{}, nil
	a := n.byIA[start]
	ing := rtgen.Ingress{Kind: rtgen.IngInt}
	limit := 2*70 + 4
	for i := 0; ; i++ {
		if a == nil || rtr >= len(a.Rtrs) || i > limit {
			w.Final = Final{Kind: "noroute", IA: start, Rtr: rtr}
			return w
		}
		o, err := a.Rtrs[rtr].Run(raw, ing)
		if i == 0 {
			w.NowNs = o.NowNs
		}
		if err != nil {
			w.Final = Final{Kind: "noroute", IA: a.AS.IA, Rtr: rtr, StopDesc: err.Error()}
			return w
		}
		if o.In == nil {
			o.In = parseAny(raw) // EPIC: the embedded SCION path
		}
		if o.Out == nil && len(o.Res.Out) > 0 {
			o.Out = parseAny(o.Res.Out)
		}
		w.macEntries(a, o.In)
		res := o.Res
		stop := func(k, d string) *Walk {
			w.Final = Final{Kind: "stopped", IA: a.AS.IA, Rtr: rtr, Stop: k, StopDesc: d}
			return w
		}
		switch res.Disp {
		case router.VerifDiscard:
			return stop("Network.KDiscard", "discard")
		case router.VerifPanic:
			w.Panic = res.PanicMsg
			return stop("Network.KPanic", "panic: "+res.PanicMsg)
		case router.VerifDone:
			return stop("Network.KDone", "done")
		case router.VerifSlowPath:
			if res.Req.Type >= 0 {
				return stop(fmt.Sprintf("(Network.KScmp %d %d)", res.Req.Type, res.Req.Code),
					fmt.Sprintf("scmp-%d-%d", res.Req.Type, res.Req.Code))
			}
			return stop("Network.KAlert", "router-alert")
		case router.VerifForward:
		default:
			return stop("Network.KDone", "other")
		}
		if !res.Sent || o.Out == nil {
			return stop("Network.KDiscard", "forward-without-link")
		}
		st := Step{IA: a.AS.IA, Rtr: rtr, Ing: ing, Egress: res.Egress, CI: o.Out.CurrINF, CH: o.Out.CurrHF,
			In: o.In, Out: o.Out}
		if o.In != nil && int(o.In.CurrINF) < len(o.In.Infos) {
			st.ConsDir = o.In.Infos[o.In.CurrINF].ConsDir
		}
		for _, inf := range o.Out.Infos {
			st.SegIDs = append(st.SegIDs, inf.SegID)
		}
		switch {
		case res.EgressLink == rtgen.LinkInternal:
			w.Steps = append(w.Steps, st)
			if res.Dst == nil {
				w.Final = Final{Kind: "noroute", IA: a.AS.IA, Rtr: rtr, StopDesc: "internal link without destination"}
				return w
			}
			ip := res.Dst.IP
			if v4 := ip.To4(); v4 != nil {
				ip = v4
			}
			w.Final = Final{Kind: "delivered", IA: a.AS.IA, Rtr: rtr, IP: append([]byte(nil), ip...), Port: uint16(res.Dst.Port)}
			w.Last = res.Out
			return w
		case res.EgressLink >= router.VerifSiblingBase:
			w.Steps = append(w.Steps, st)
			next := res.EgressLink - router.VerifSiblingBase - 1
			ing = rtgen.Ingress{Kind: rtgen.IngSib, ID: rtr + 1}
			rtr = next
		default:
			st.Ext = true
			w.Steps = append(w.Steps, st)
			f := a.If(uint16(res.EgressLink))
			if f == nil {
				w.Final = Final{Kind: "noroute", IA: a.AS.IA, Rtr: rtr}
				return w
			}
			b := n.byIA[f.Nbr]
			if b == nil || b.If(f.Remote) == nil {
				w.Final = Final{Kind: "noroute", IA: a.AS.IA, Rtr: rtr}
				return w
			}
			a, rtr = b, b.If(f.Remote).Owner
			ing = rtgen.Ingress{Kind: rtgen.IngExt, ID: int(f.Remote)}
		}
		raw = res.Out
	}
}

// TraceTerm prints the walk as `(list Network.tstep * Network.final)`.
func (w *Walk) TraceTerm() string {
	var ss []string
	for _, s := range w.Steps {
		sids := make([]uint64, len(s.SegIDs))
		for i, x := range s.SegIDs {
			sids[i] = uint64(x)
		}
		ss = append(ss, vgen.App("Prov.ts", IATerm(s.IA), vgen.N(uint64(s.Rtr)), s.Ing.Gallina(),
			vgen.N(uint64(s.Egress)), vgen.B(s.Ext), vgen.N(uint64(s.CI)), vgen.N(uint64(s.CH)), vgen.NList(sids)))
	}
	var fin string
	switch w.Final.Kind {
	case "delivered":
		fin = vgen.App("Network.Delivered", IATerm(w.Final.IA), vgen.N(uint64(w.Final.Rtr)),
			vgen.Bytes(w.Final.IP), vgen.N(uint64(w.Final.Port)))
	case "stopped":
		fin = vgen.App("Network.Stopped", IATerm(w.Final.IA), vgen.N(uint64(w.Final.Rtr)), w.Final.Stop)
	default:
		fin = vgen.App("Network.NoRoute", IATerm(w.Final.IA), vgen.N(uint64(w.Final.Rtr)))
	}
	return vgen.Pair(vgen.List(ss), fin)
}

// Crossed lists the inter-AS interfaces the walk crossed.
func (w *Walk) Crossed() []string {
	var out []string
	for _, s := range w.Steps {
		if s.Ing.Kind == rtgen.IngExt {
			out = append(out, fmt.Sprintf("%s#%d", s.IA, s.Ing.ID))
		}
		if s.Ext {
			out = append(out, fmt.Sprintf("%s#%d", s.IA, s.Egress))
		}
	}
	return out
}

// Describe is the readable form of a walk.
func (w *Walk) Describe() map[string]any {
	var ss []string
	for _, s := range w.Steps {
		ss = append(ss, fmt.Sprintf("%s/r%d %s->%d hf=%d segids=%v", s.IA, s.Rtr, s.Ing, s.Egress, s.CH, s.SegIDs))
	}
	f := w.Final
	fin := f.Kind
	switch f.Kind {
	case "delivered":
		fin = fmt.Sprintf("delivered at %s/r%d to %v:%d", f.IA, f.Rtr, f.IP, f.Port)
	case "stopped":
		fin = fmt.Sprintf("stopped at %s/r%d: %s", f.IA, f.Rtr, f.StopDesc)
	}
	return map[string]any{"steps": ss, "final": fin}
}
