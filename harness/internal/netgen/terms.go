package netgen

import (
	"fmt"
	"math/big"
	"sort"
	"strings"

	"github.com/scionproto/scion/pkg/addr"

	"verifharness/internal/rtgen"
	"verifharness/internal/vgen"
)

// Parsing number literals dominates the cost of checking a case in Coq, so the
// printers below (a) name every ISD-AS number once in the prelude and (b) pack
// the fields of hop fields, info fields and MAC table entries into one number
// each (unpacked by Prov.php / Prov.rhp / Prov.rif / Prov.mce).

var iaNames = map[addr.IA]string{}

// IATerm returns the Gallina name of an ISD-AS number.
func IATerm(ia addr.IA) string {
	if n, ok := iaNames[ia]; ok {
		return n
	}
	n := fmt.Sprintf("ia_%d_%x", ia.ISD(), uint64(ia.AS()))
	iaNames[ia] = n
	return n
}

// IADefs returns the prelude definitions of all names handed out so far.
func IADefs() string {
	var names []string
	byName := map[string]addr.IA{}
	for ia, n := range iaNames {
		names = append(names, n)
		byName[n] = ia
	}
	sort.Strings(names)
	var sb strings.Builder
	for _, n := range names {
		fmt.Fprintf(&sb, "Definition %s : N := %d.\n", n, uint64(byName[n]))
	}
	return sb.String()
}

func packed(fields ...[2]uint64) string {
	// fields from most to least significant: (value, width)
	x := new(big.Int)
	for _, f := range fields {
		x.Lsh(x, uint(f[1]))
		x.Or(x, new(big.Int).SetUint64(f[0]))
	}
	return x.String()
}

func b2u(b bool) uint64 {
	if b {
		return 1
	}
	return 0
}

// ProvHopTerm prints Prov.php ia x.
func ProvHopTerm(ia addr.IA, h rtgen.Hop, beta uint16) string {
	return vgen.App("Prov.php", IATerm(ia), packed([2]uint64{uint64(h.ExpTime), 8}, [2]uint64{uint64(h.ConsIngress), 16},
		[2]uint64{uint64(h.ConsEgress), 16}, [2]uint64{mac48(h.Mac[:]), 48}, [2]uint64{uint64(beta), 16}))
}

// MacEntryTerm prints Prov.mce x.
func MacEntryTerm(sid uint16, ts uint32, exp uint8, in, eg uint16, mac [6]byte) string {
	return vgen.App("Prov.mce", packed([2]uint64{uint64(sid), 16}, [2]uint64{uint64(ts), 32}, [2]uint64{uint64(exp), 8},
		[2]uint64{uint64(in), 16}, [2]uint64{uint64(eg), 16}, [2]uint64{mac48(mac[:]), 48}))
}

// PktHopTerm prints Prov.rhp x.
func PktHopTerm(h rtgen.Hop) string {
	return vgen.App("Prov.rhp", packed([2]uint64{b2u(h.IngressAlert), 1}, [2]uint64{b2u(h.EgressAlert), 1},
		[2]uint64{uint64(h.Rsv), 8}, [2]uint64{uint64(h.ExpTime), 8}, [2]uint64{uint64(h.ConsIngress), 16},
		[2]uint64{uint64(h.ConsEgress), 16}, [2]uint64{mac48(h.Mac[:]), 48}))
}

// PktInfoTerm prints Prov.rif x.
func PktInfoTerm(i rtgen.Info) string {
	return vgen.App("Prov.rif", packed([2]uint64{b2u(i.Peer), 1}, [2]uint64{b2u(i.ConsDir), 1},
		[2]uint64{uint64(i.Rsv), 16}, [2]uint64{uint64(i.SegID), 16}, [2]uint64{uint64(i.Timestamp), 32}))
}

// RecTerm prints the Router.pkt record parsed from real bytes.
func RecTerm(r *rtgen.Rec, l4port uint16, l4ok bool) string {
	return vgen.App("Router.mkPkt",
		IATerm(addr.IA(r.DstIA)), IATerm(addr.IA(r.SrcIA)), vgen.N(uint64(r.DstType)), vgen.N(uint64(r.SrcType)),
		vgen.Bytes(r.DstRaw), vgen.Bytes(r.SrcRaw),
		vgen.N(uint64(r.PayLen)), vgen.N(uint64(r.PayActual)),
		vgen.Opt(vgen.N(uint64(l4port)), l4ok),
		vgen.N(uint64(r.CurrINF)), vgen.N(uint64(r.CurrHF)),
		vgen.N(uint64(r.Seg[0])), vgen.N(uint64(r.Seg[1])), vgen.N(uint64(r.Seg[2])),
		vgen.N(uint64(r.MetaRsv)),
		vgen.ListOf(r.Infos, PktInfoTerm), vgen.ListOf(r.Hops, PktHopTerm))
}
