package netgen

import (
	"fmt"
	"time"

	"verifharness/internal/rtgen"
	"verifharness/internal/rtgen2"
)

// epicUnit is the resolution of the EPIC packet timestamp (ns).
const epicUnit = int64(21000)

// SendEpic sends the packet of p on the EPIC path type: the SCION-type packet of p with the
// EPIC header in front of its path. PHVF / LHVF are the real libepic.CalcMac over the real
// full MACs (path.FullMAC under the AS's forwarding key, with the SegID that AS verifies
// with) of the penultimate / last hop field; the packet timestamp is half a second ahead of
// the clock, so the packet is fresh for about 3.5 s. Only for paths with >= 3 hop fields and
// no peering slice (the penultimate hop field is then the current one at the router that
// checks PHVF).
func (w *World) SendEpic(p *Path, counter uint32) (*Sent, rtgen2.Epic, error) {
	var e rtgen2.Epic
	d := p.Desc()
	s := &Sent{Path: p, Desc: d}
	a := w.Net.AS(p.SrcIA)
	f := a.If(FirstEgress(d))
	if f == nil {
		return nil, e, fmt.Errorf("first egress interface %d unknown in %s", FirstEgress(d), p.SrcIA)
	}
	s.StartRt = f.Owner
	raw, err := d.Serialize()
	if err != nil {
		return nil, e, err
	}
	if s.Rec, err = rtgen.Parse(raw); err != nil {
		return nil, e, err
	}
	type fh struct {
		h  PHop
		ts uint32
	}
	var hs []fh
	for _, sl := range p.Slices {
		for _, h := range sl.Hops {
			hs = append(hs, fh{h, sl.TS})
		}
	}
	if len(hs) < 3 || p.Peering {
		return nil, e, fmt.Errorf("path not eligible for the EPIC stream")
	}
	infoTS := p.Slices[0].TS
	target := time.Now().UnixNano() + 500_000_000
	v := (target-int64(infoTS)*1_000_000_000)/epicUnit - 1
	if v < 0 || v >= 1<<32 {
		return nil, e, fmt.Errorf("EPIC timestamp offset not representable (segment too old)")
	}
	e.PktTS, e.Counter = uint32(v), counter
	hvf := func(x fh) ([4]byte, error) {
		as := w.Net.AS(x.h.IA)
		if as == nil {
			return [4]byte{}, fmt.Errorf("unknown AS %s", x.h.IA)
		}
		auth := rtgen2.FullMAC(as.Key, x.h.Beta, x.ts, x.h.Hop.ExpTime, x.h.Hop.ConsIngress, x.h.Hop.ConsEgress)
		return rtgen2.CalcMacDecoded(auth[:], raw, e, infoTS)
	}
	if e.PHVF, err = hvf(hs[len(hs)-2]); err != nil {
		return nil, e, err
	}
	if e.LHVF, err = hvf(hs[len(hs)-1]); err != nil {
		return nil, e, err
	}
	s.Raw = rtgen2.ToEpic(raw, e)
	s.Walk = w.Net.Walk(s.Raw, p.SrcIA, s.StartRt, nil)
	return s, e, nil
}

// parseAny is rtgen.Parse, falling back to the parser that also reads the SCION path embedded
// in an EPIC packet.
func parseAny(raw []byte) *rtgen.Rec {
	if r, err := rtgen.Parse(raw); err == nil {
		return r
	}
	if r, _, err := rtgen2.Parse(raw); err == nil {
		return r
	}
	return nil
}

// ParseEmbedded parses a packet with a SCION-type or EPIC path (the embedded SCION path).
func ParseEmbedded(raw []byte) (*rtgen.Rec, error) {
	if r := parseAny(raw); r != nil {
		return r, nil
	}
	return nil, fmt.Errorf("neither a SCION-type nor an EPIC packet")
}
