package netgen

import (
	"encoding/binary"
	"fmt"

	"github.com/gopacket/gopacket"

	"github.com/scionproto/scion/pkg/addr"
	seg "github.com/scionproto/scion/pkg/segment"
	"github.com/scionproto/scion/pkg/slayers"
	"github.com/scionproto/scion/pkg/slayers/path"
	"github.com/scionproto/scion/pkg/slayers/path/scion"
	"github.com/scionproto/scion/pkg/snet"
	"github.com/scionproto/scion/private/path/combinator"

	"verifharness/internal/rtgen"
	"verifharness/internal/vgen"
)

// PHop is the provenance of one hop field of a path.
type PHop struct {
	IA    addr.IA
	Hop   rtgen.Hop
	Beta  uint16 // SegID accumulator the AS used as MAC input
	Idx   int    // index of the AS entry in the source segment (construction order)
	Peer  bool   // the hop field is a peer entry's
	Sigma uint16
}

// PSlice is one segment slice of a path in traversal order.
type PSlice struct {
	Core    bool
	ConsDir bool
	Peer    bool
	TS      uint32
	Hops    []PHop
	Src     *seg.PathSegment // the beaconed segment the slice was cut from
	Sigmas  []uint16         // MAC prefixes of all AS entries of Src (construction order)
	B0      uint16           // Src.Info.SegmentID
	SegID0  uint16           // SegID the combinator wrote into the info field
}

// Path is a combinator path together with its provenance and end hosts.
type Path struct {
	Comb     combinator.Path
	Dec      scion.Decoded
	Slices   []PSlice
	SrcIA    addr.IA
	DstIA    addr.IA
	Src, Dst rtgen.Host
	SrcPort  uint16
	DstPort  uint16
	Payload  []byte
	DstSVC   bool
	// ReplyFrom is the address the destination answers from (the backend for an SVC destination).
	ReplyFrom rtgen.Host
	Shortcut  bool
	Peering   bool
}

func sigmaOf(m [6]byte) uint16 { return binary.BigEndian.Uint16(m[:2]) }

// match finds the segment the hop fields hs (traversal order) with timestamp ts
// were cut from and returns the provenance of each hop.
func matchSegment(cands []*seg.PathSegment, inf path.InfoField, hs []path.HopField) (*seg.PathSegment, []PHop) {
	n := len(hs)
	for _, s := range cands {
		if uint32(s.Info.Timestamp.Unix()) != inf.Timestamp || len(s.ASEntries) < n {
			continue
		}
		betas := []uint16{s.Info.SegmentID}
		for _, e := range s.ASEntries {
			betas = append(betas, betas[len(betas)-1]^sigmaOf(e.HopEntry.HopField.MAC))
		}
		// construction-order view of the slice
		cons := make([]path.HopField, n)
		for i := range hs {
			if inf.ConsDir {
				cons[i] = hs[i]
			} else {
				cons[i] = hs[n-1-i]
			}
		}
		for from := 0; from+n <= len(s.ASEntries); from++ {
			out := make([]PHop, n)
			ok := true
			for i := 0; i < n && ok; i++ {
				e := s.ASEntries[from+i]
				h := cons[i]
				ph := PHop{IA: e.Local, Idx: from + i, Sigma: sigmaOf(h.Mac),
					Hop: rtgen.Hop{ConsIngress: h.ConsIngress, ConsEgress: h.ConsEgress, ExpTime: h.ExpTime, Mac: h.Mac}}
				switch {
				case e.HopEntry.HopField.MAC == h.Mac && e.HopEntry.HopField.ConsIngress == h.ConsIngress:
					ph.Beta = betas[from+i]
				default:
					ok = false
					if i == 0 && inf.Peer {
						for _, pe := range e.PeerEntries {
							if pe.HopField.MAC == h.Mac && pe.HopField.ConsIngress == h.ConsIngress {
								ph.Beta, ph.Peer, ok = betas[from+i+1], true, true
							}
						}
					}
				}
				out[i] = ph
			}
			if !ok {
				continue
			}
			if !inf.ConsDir {
				for l, r := 0, n-1; l < r; l, r = l+1, r-1 {
					out[l], out[r] = out[r], out[l]
				}
			}
			return s, out
		}
	}
	return nil, nil
}

// NewPath decodes a combinator path and reconstructs its provenance from the
// segment pools it was combined from.
func NewPath(p combinator.Path, src, dst addr.IA, ups, cores, downs []*seg.PathSegment) (*Path, error) {
	out := &Path{Comb: p, SrcIA: src, DstIA: dst}
	if err := out.Dec.DecodeFromBytes(p.SCIONPath.Raw); err != nil {
		return nil, err
	}
	d := &out.Dec
	k := 0
	for j, inf := range d.InfoFields {
		n := int(d.PathMeta.SegLen[j])
		hs := d.HopFields[k : k+n]
		k += n
		var s *seg.PathSegment
		var ph []PHop
		core := false
		// up and down segments are traversed against / in construction direction; core against
		if s, ph = matchSegment(cores, inf, hs); s != nil && !inf.Peer {
			core = true
		} else if inf.ConsDir {
			s, ph = matchSegment(downs, inf, hs)
		} else {
			s, ph = matchSegment(ups, inf, hs)
		}
		if s == nil {
			return nil, fmt.Errorf("no source segment for info field %d", j)
		}
		sl := PSlice{Core: core, ConsDir: inf.ConsDir, Peer: inf.Peer, TS: inf.Timestamp, Hops: ph, Src: s,
			B0: s.Info.SegmentID, SegID0: inf.SegID}
		for _, e := range s.ASEntries {
			sl.Sigmas = append(sl.Sigmas, sigmaOf(e.HopEntry.HopField.MAC))
		}
		if inf.Peer {
			out.Peering = true
		} else {
			first, last := ph[0], ph[len(ph)-1]
			if inf.ConsDir && first.Hop.ConsIngress != 0 || !inf.ConsDir && last.Hop.ConsIngress != 0 {
				out.Shortcut = true
			}
		}
		out.Slices = append(out.Slices, sl)
	}
	return out, nil
}

// NumHops is the number of hop fields.
func (p *Path) NumHops() int { return len(p.Dec.HopFields) }

// Kind classifies the path for the distribution.
func (p *Path) Kind() string {
	k := fmt.Sprintf("%dseg", len(p.Slices))
	switch {
	case p.Peering:
		k += "-peering"
	case p.Shortcut:
		k += "-shortcut"
	}
	return k
}

// SetHosts draws end hosts: IPv4 / IPv6 hosts, sometimes the control service of
// the destination AS (SVC address with a registered backend).
func (p *Path) SetHosts(r *vgen.Rand, n *Net) {
	s, d := n.AS(p.SrcIA), n.AS(p.DstIA)
	p.Src = rtgen.HostIP(vgen.Pick(r, s.Hosts...))
	dh := vgen.Pick(r, d.Hosts...)
	p.Dst = rtgen.HostIP(dh)
	p.ReplyFrom = p.Dst
	p.SrcPort = uint16(r.Range(1024, 65535))
	p.DstPort = uint16(r.Range(1024, 65535))
	if r.Chance(1, 6) {
		svc := addr.SvcCS
		if r.Bool() {
			svc = svc.Multicast()
		}
		p.Dst = rtgen.HostSVC(svc)
		p.DstSVC = true
		p.ReplyFrom = rtgen.HostIP(d.SvcCS.Addr())
	}
	p.Payload = r.Bytes(r.Range(0, 12))
}

// Desc is the wire-level description of the packet at the source.
func (p *Path) Desc() *rtgen.Desc {
	d := &rtgen.Desc{SegLen: p.Dec.PathMeta.SegLen, SrcIA: p.SrcIA, DstIA: p.DstIA, Src: p.Src, Dst: p.Dst,
		L4: rtgen.UDP(p.SrcPort, p.DstPort, p.Payload)}
	for _, i := range p.Dec.InfoFields {
		d.Infos = append(d.Infos, rtgen.Info{Peer: i.Peer, ConsDir: i.ConsDir, SegID: i.SegID, Timestamp: i.Timestamp})
	}
	for _, h := range p.Dec.HopFields {
		d.Hops = append(d.Hops, rtgen.Hop{ConsIngress: h.ConsIngress, ConsEgress: h.ConsEgress, ExpTime: h.ExpTime, Mac: h.Mac})
	}
	return d
}

// FirstEgress is the interface over which the first hop leaves the source AS.
func FirstEgress(d *rtgen.Desc) uint16 {
	h, i := d.Hops[d.CurrHF], d.Infos[d.CurrINF]
	if i.ConsDir {
		return h.ConsEgress
	}
	return h.ConsIngress
}

// ExpiryMarginSec: paths with a hop field expiring sooner than this after the start of the
// run are not used (neither as valid nor as expired).
const ExpiryMarginSec = 900

// ExpiryMargin returns the smallest distance in seconds between now and the
// expiry of any hop (negative: some hop is expired by that much).
func (p *Path) ExpiryMargin(nowSec int64) (minValid float64, expired bool, borderline bool) {
	minValid = 1e18
	for _, sl := range p.Slices {
		for _, h := range sl.Hops {
			exp := float64(sl.TS) + float64(int(h.Hop.ExpTime)+1)*337.5
			d := exp - float64(nowSec)
			// nowSec is sampled when the runner starts; the routers read the clock when a packet is
			// walked (seconds to minutes later on a loaded machine): keep well away from the boundary
			if d < ExpiryMarginSec && d > -float64(rtgen.MarginSec) {
				borderline = true
			}
			if d < 0 {
				expired = true
			}
			if d < minValid {
				minValid = d
			}
		}
	}
	return
}

// ProvTerm prints the Prov.prov term.
func (p *Path) ProvTerm() string {
	var sls []string
	for _, sl := range p.Slices {
		kind := "Prov.KIntra"
		if sl.Core {
			kind = "Prov.KCore"
		}
		hs := vgen.ListOf(sl.Hops, func(h PHop) string { return ProvHopTerm(h.IA, h.Hop, h.Beta) })
		sls = append(sls, vgen.App("Prov.mkSl", kind, vgen.B(sl.ConsDir), vgen.B(sl.Peer), vgen.N(uint64(sl.TS)), hs))
	}
	return vgen.App("Prov.of_slices", vgen.List(sls))
}

func bytesN(b []byte) string { return vgen.Bytes(b) }

// ParamsTerm prints the Prov.pparams term for the packet described by rec.
func ParamsTerm(rec *rtgen.Rec, port uint16, portOK bool) string {
	return vgen.App("Prov.mkPP", IATerm(addr.IA(rec.SrcIA)), IATerm(addr.IA(rec.DstIA)), vgen.N(uint64(rec.DstType)),
		vgen.N(uint64(rec.SrcType)), bytesN(rec.DstRaw), bytesN(rec.SrcRaw), vgen.N(uint64(rec.PayLen)),
		vgen.Opt(vgen.N(uint64(port)), portOK))
}

// MetaTerm prints the interface list of the path metadata.
func (p *Path) MetaTerm() string {
	return vgen.ListOf(p.Comb.Metadata.Interfaces, func(x snet.PathInterface) string {
		return vgen.Pair(IATerm(x.IA), vgen.N(uint64(x.ID)))
	})
}

// HopMacs adds to w the MAC of every hop of the path under the key of its AS
// with the recorded beta (what wf_prov recomputes).
func (p *Path) HopMacs(n *Net, w *Walk) {
	for _, sl := range p.Slices {
		for _, h := range sl.Hops {
			if a := n.AS(h.IA); a != nil {
				w.AddMac(a, h.Beta, sl.TS, h.Hop.ExpTime, h.Hop.ConsIngress, h.Hop.ConsEgress)
			}
		}
	}
}

// ---------------------------------------------------------------- replies

// ReplyHow names the reversal entry points.
var ReplyHow = []string{"DefaultReplyPather", "Raw.Reverse", "Decoded.Reverse"}

// Reply builds the packet the destination host sends back: the path of the
// delivered packet reversed with the real code (how selects the entry point),
// addresses swapped, ports swapped.
func Reply(delivered []byte, from rtgen.Host, payload []byte, how int) (raw []byte, dstPort uint16, err error) {
	var sc slayers.SCION
	if err = sc.DecodeFromBytes(delivered, gopacket.NilDecodeFeedback); err != nil {
		return nil, 0, err
	}
	rp, ok := sc.Path.(*scion.Raw)
	if !ok && how != 0 {
		return nil, 0, fmt.Errorf("delivered packet has no SCION-type path")
	}
	var rev path.Path
	switch how {
	case 0:
		// what a host hands to the reply pather: the path type and the raw path bytes of the
		// received packet, whatever the type (EPIC requests included)
		rawPath := make([]byte, sc.Path.Len())
		if err := sc.Path.SerializeTo(rawPath); err != nil {
			return nil, 0, err
		}
		dp, err := snet.DefaultReplyPather{}.ReplyPath(snet.RawPath{PathType: sc.PathType, Raw: rawPath})
		if err != nil {
			return nil, 0, err
		}
		r := slayers.SCION{}
		if err := dp.SetPath(&r); err != nil {
			return nil, 0, err
		}
		rev = r.Path
	case 1:
		cp := &scion.Raw{}
		if err := cp.DecodeFromBytes(append([]byte(nil), rp.Raw...)); err != nil {
			return nil, 0, err
		}
		if rev, err = cp.Reverse(); err != nil {
			return nil, 0, err
		}
	default:
		dec, err := rp.ToDecoded()
		if err != nil {
			return nil, 0, err
		}
		if rev, err = dec.Reverse(); err != nil {
			return nil, 0, err
		}
	}
	udp := sc.Payload
	if len(udp) < 8 {
		return nil, 0, fmt.Errorf("no UDP header in the delivered packet")
	}
	sport, dport := binary.BigEndian.Uint16(udp[0:]), binary.BigEndian.Uint16(udp[2:])
	l4 := rtgen.UDP(dport, sport, payload)
	out := &slayers.SCION{
		Version: 0, TrafficClass: sc.TrafficClass, FlowID: sc.FlowID, NextHdr: slayers.L4UDP,
		PathType: rev.Type(), Path: rev,
		DstIA: sc.SrcIA, SrcIA: sc.DstIA,
		DstAddrType: sc.SrcAddrType, RawDstAddr: append([]byte(nil), sc.RawSrcAddr...),
		SrcAddrType: slayers.AddrType(from.Type), RawSrcAddr: from.Raw,
	}
	buf := gopacket.NewSerializeBuffer()
	if err := gopacket.SerializeLayers(buf, gopacket.SerializeOptions{FixLengths: true}, out,
		gopacket.Payload(l4.Bytes)); err != nil {
		return nil, 0, err
	}
	return append([]byte(nil), buf.Bytes()...), sport, nil
}

// ---------------------------------------------------------------- tampering

// Fields are the MAC-protected values (names of Prov.field constructors).
var Fields = []string{"FHopIn", "FHopEg", "FHopExp", "FHopMac", "FInfoTs", "FInfoSegID"}

// FieldBits is the width of each protected value.
var FieldBits = map[string]int{"FHopIn": 16, "FHopEg": 16, "FHopExp": 8, "FHopMac": 48, "FInfoTs": 32, "FInfoSegID": 16}

// Tamper flips bit `bit` of the named field at index idx of d (hop index or
// info index) and returns the new value.
func Tamper(d *rtgen.Desc, field string, idx, bit int) uint64 {
	switch field {
	case "FHopIn":
		d.Hops[idx].ConsIngress ^= 1 << bit
		return uint64(d.Hops[idx].ConsIngress)
	case "FHopEg":
		d.Hops[idx].ConsEgress ^= 1 << bit
		return uint64(d.Hops[idx].ConsEgress)
	case "FHopExp":
		d.Hops[idx].ExpTime ^= 1 << bit
		return uint64(d.Hops[idx].ExpTime)
	case "FHopMac":
		d.Hops[idx].Mac[5-bit/8] ^= 1 << (bit % 8)
		return mac48(d.Hops[idx].Mac[:])
	case "FInfoTs":
		d.Infos[idx].Timestamp ^= 1 << bit
		return uint64(d.Infos[idx].Timestamp)
	case "FInfoSegID":
		d.Infos[idx].SegID ^= 1 << bit
		return uint64(d.Infos[idx].SegID)
	}
	panic("netgen: unknown field " + field)
}
