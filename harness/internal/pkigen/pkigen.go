// Package pkigen builds real SCION control-plane PKI objects in-process (ECDSA
// keys, x509 certificates of every class, correct and mis-issued, signed TRCs
// and TRC successions with grace periods, certificate chains) and turns the
// *parsed* objects back into the abstract descriptions used by the Gallina
// model Model/PKIChain.v (C34-C37).
//
// The abstract description of a certificate is read from the parsed
// x509.Certificate (usages, constraints, names, validity, who signed it), not
// from the intention of the generator, so the model sees what the
// implementation sees.
package pkigen

import (
	"bytes"
	"crypto"
	"crypto/ecdsa"
	"crypto/ed25519"
	"crypto/elliptic"
	"crypto/rand"
	"crypto/x509"
	"crypto/x509/pkix"
	"encoding/asn1"
	"fmt"
	"math/big"
	"strings"
	"time"

	"github.com/scionproto/scion/pkg/addr"
	"github.com/scionproto/scion/pkg/scrypto"
	"github.com/scionproto/scion/pkg/scrypto/cms/protocol"
	"github.com/scionproto/scion/pkg/scrypto/cppki"
)

// Key is a key pair known to the generator.
type Key struct {
	Priv crypto.Signer
	Pub  crypto.PublicKey
}

// Cert is a parsed certificate together with its subject key (if known).
type Cert struct {
	X   *x509.Certificate
	Key *Key
}

// Gen owns the keys created for one case (or one run); it is needed to find
// out which key signed a certificate.
type Gen struct {
	Keys   []*Key
	serial int64
}

func NewGen() *Gen { return &Gen{serial: 1000} }

// NewKey creates a P-256 key.
func (g *Gen) NewKey() *Key {
	p, err := ecdsa.GenerateKey(elliptic.P256(), rand.Reader)
	if err != nil {
		panic(err)
	}
	k := &Key{Priv: p, Pub: p.Public()}
	g.Keys = append(g.Keys, k)
	return k
}

// NewEdKey creates an ed25519 key (certificates signed with it carry a
// signature algorithm that SCION does not allow).
func (g *Gen) NewEdKey() *Key {
	pub, priv, err := ed25519.GenerateKey(rand.Reader)
	if err != nil {
		panic(err)
	}
	k := &Key{Priv: priv, Pub: pub}
	g.Keys = append(g.Keys, k)
	return k
}

// Class of a certificate template.
type Class int

const (
	Root Class = iota
	CA
	AS
	Sensitive
	Regular
)

// Name builds a distinguished name; ia == "" leaves the ISD-AS attribute out.
func Name(cn string, ia string) pkix.Name {
	n := pkix.Name{CommonName: cn, Organization: []string{"verif"}}
	if ia != "" {
		n.ExtraNames = []pkix.AttributeTypeAndValue{
			{Type: asn1.ObjectIdentifier{2, 5, 4, 3}, Value: cn},
			{Type: asn1.ObjectIdentifier{2, 5, 4, 10}, Value: "verif"},
			{Type: cppki.OIDNameIA, Value: ia},
		}
	}
	return n
}

// Tmpl returns a correct template of the class. The caller may modify it
// before Issue to obtain a mis-issued certificate.
func (g *Gen) Tmpl(cl Class, ia string, cn string, nb, na time.Time) *x509.Certificate {
	g.serial++
	t := &x509.Certificate{
		SerialNumber: big.NewInt(g.serial),
		Subject:      Name(cn, ia),
		NotBefore:    nb,
		NotAfter:     na,
	}
	switch cl {
	case Root:
		t.KeyUsage = x509.KeyUsageCertSign | x509.KeyUsageCRLSign
		t.BasicConstraintsValid, t.IsCA, t.MaxPathLen = true, true, 1
		t.ExtKeyUsage = []x509.ExtKeyUsage{x509.ExtKeyUsageTimeStamping}
		t.UnknownExtKeyUsage = []asn1.ObjectIdentifier{cppki.OIDExtKeyUsageRoot}
	case CA:
		t.KeyUsage = x509.KeyUsageCertSign | x509.KeyUsageCRLSign
		t.BasicConstraintsValid, t.IsCA, t.MaxPathLen, t.MaxPathLenZero = true, true, 0, true
	case AS:
		t.KeyUsage = x509.KeyUsageDigitalSignature
		t.ExtKeyUsage = []x509.ExtKeyUsage{x509.ExtKeyUsageServerAuth,
			x509.ExtKeyUsageClientAuth, x509.ExtKeyUsageTimeStamping}
	case Sensitive:
		t.ExtKeyUsage = []x509.ExtKeyUsage{x509.ExtKeyUsageTimeStamping}
		t.UnknownExtKeyUsage = []asn1.ObjectIdentifier{cppki.OIDExtKeyUsageSensitive}
	case Regular:
		t.ExtKeyUsage = []x509.ExtKeyUsage{x509.ExtKeyUsageTimeStamping}
		t.UnknownExtKeyUsage = []asn1.ObjectIdentifier{cppki.OIDExtKeyUsageRegular}
	}
	return t
}

// SKID computes the subject key id the way scion does (falls back to a hash of
// the marshalled key for non-ECDSA keys).
func SKID(pub crypto.PublicKey) []byte {
	if id, err := cppki.SubjectKeyID(pub); err == nil {
		return id
	}
	b, _ := x509.MarshalPKIXPublicKey(pub)
	if len(b) > 20 {
		b = b[len(b)-20:]
	}
	return b
}

// Issue signs tmpl for the subject key sub. parent == nil means self-signed.
// signKey overrides the signing key (default: the parent's / the subject's key).
// A nil tmpl.SubjectKeyId is filled in unless noSKID.
func (g *Gen) Issue(tmpl *x509.Certificate, sub *Key, parent *Cert, signKey *Key,
	noSKID bool) (*Cert, error) {

	if !noSKID && tmpl.SubjectKeyId == nil {
		tmpl.SubjectKeyId = SKID(sub.Pub)
	}
	par := tmpl
	sk := sub
	if parent != nil {
		par = parent.X
		sk = parent.Key
	}
	if signKey != nil {
		sk = signKey
	}
	raw, err := x509.CreateCertificate(rand.Reader, tmpl, par, sub.Pub, sk.Priv)
	if err != nil {
		return nil, err
	}
	x, err := x509.ParseCertificate(raw)
	if err != nil {
		return nil, err
	}
	return &Cert{X: x, Key: sub}, nil
}

// MustIssue is Issue that panics (generator bug).
func (g *Gen) MustIssue(tmpl *x509.Certificate, sub *Key, parent *Cert, signKey *Key) *Cert {
	c, err := g.Issue(tmpl, sub, parent, signKey, false)
	if err != nil {
		panic(fmt.Sprintf("pkigen: issue %q: %v", tmpl.Subject.CommonName, err))
	}
	return c
}

// Corrupt returns a copy of c whose signature value has one bit flipped inside
// the second ECDSA integer (the DER structure stays parsable).
func Corrupt(c *Cert) *Cert {
	raw := append([]byte(nil), c.X.Raw...)
	sig := c.X.Signature
	i := bytes.LastIndex(raw, sig)
	if i < 0 || len(sig) < 6 {
		panic("pkigen: signature not found")
	}
	raw[i+len(sig)-2] ^= 0x01
	x, err := x509.ParseCertificate(raw)
	if err != nil {
		panic("pkigen: corrupt: " + err.Error())
	}
	return &Cert{X: x, Key: c.Key}
}

// ---------------------------------------------------------------- TRCs

// TRCSpec describes a TRC to be built and signed.
type TRCSpec struct {
	ISD            addr.ISD
	Base, Serial   uint64
	NB, NA         time.Time
	Grace          time.Duration
	Votes          []int
	Quorum         int
	Certs          []*Cert // payload certificates (sensitive, regular, root ...)
	Signers        []*Cert // certificates (with keys) that sign the payload
	BadSignature   bool    // corrupt every signature value
	Description    string
	NoTrustReset   bool
	Core, Auth     []addr.AS
}

// MakeTRC encodes, signs and re-decodes a TRC.
func MakeTRC(s TRCSpec) (cppki.SignedTRC, error) {
	core, auth := s.Core, s.Auth
	if core == nil {
		core = []addr.AS{0xff0000000110}
	}
	if auth == nil {
		auth = core
	}
	q := s.Quorum
	if q == 0 {
		q = 1
	}
	t := cppki.TRC{
		Version:           1,
		ID:                cppki.TRCID{ISD: s.ISD, Base: scrypto.Version(s.Base), Serial: scrypto.Version(s.Serial)},
		Validity:          cppki.Validity{NotBefore: s.NB.UTC().Truncate(time.Second), NotAfter: s.NA.UTC().Truncate(time.Second)},
		GracePeriod:       s.Grace,
		NoTrustReset:      s.NoTrustReset,
		Votes:             s.Votes,
		Quorum:            q,
		CoreASes:          core,
		AuthoritativeASes: auth,
		Description:       s.Description,
	}
	for _, c := range s.Certs {
		t.Certificates = append(t.Certificates, c.X)
	}
	pld, err := t.Encode()
	if err != nil {
		return cppki.SignedTRC{}, fmt.Errorf("encode payload: %w", err)
	}
	eci, err := protocol.NewDataEncapsulatedContentInfo(pld)
	if err != nil {
		return cppki.SignedTRC{}, err
	}
	sd, err := protocol.NewSignedData(eci)
	if err != nil {
		return cppki.SignedTRC{}, err
	}
	for _, c := range s.Signers {
		if err := sd.AddSignerInfo([]*x509.Certificate{c.X}, c.Key.Priv); err != nil {
			return cppki.SignedTRC{}, err
		}
	}
	sd.Certificates = []asn1.RawValue{}
	if s.BadSignature {
		for i := range sd.SignerInfos {
			sig := append([]byte(nil), sd.SignerInfos[i].Signature...)
			sig[len(sig)-2] ^= 0x01
			sd.SignerInfos[i].Signature = sig
		}
	}
	raw, err := sd.ContentInfoDER()
	if err != nil {
		return cppki.SignedTRC{}, err
	}
	return cppki.DecodeSignedTRC(raw)
}

// ---------------------------------------------------------------- abstraction

// Abs interns byte strings into small handles and prints abstract
// certificates / TRCs as Gallina terms of Model/PKIChain.v.
type Abs struct {
	g      *Gen
	tab    map[string]uint64 // one table per kind prefix
	cnt    map[byte]uint64
	Origin time.Time // model time = seconds since Origin
}

func NewAbs(g *Gen, origin time.Time) *Abs {
	return &Abs{g: g, tab: map[string]uint64{}, cnt: map[byte]uint64{}, Origin: origin}
}

// H interns b under the kind k; empty b gives 0.
func (a *Abs) H(k byte, b []byte) uint64 {
	if len(b) == 0 {
		return 0
	}
	key := string(k) + string(b)
	if v, ok := a.tab[key]; ok {
		return v
	}
	a.cnt[k]++
	a.tab[key] = a.cnt[k]
	return a.cnt[k]
}

// T converts a time to model seconds.
func (a *Abs) T(t time.Time) int64 { return t.Unix() - a.Origin.Unix() }

func pubBytes(pub crypto.PublicKey) []byte {
	b, err := x509.MarshalPKIXPublicKey(pub)
	if err != nil {
		panic(err)
	}
	return b
}

// KeyH returns the handle of a public key.
func (a *Abs) KeyH(pub crypto.PublicKey) uint64 { return a.H('k', pubBytes(pub)) }

// signerOf finds the generator key whose public part verifies c's signature
// (0 if none does).
func (a *Abs) signerOf(c *x509.Certificate) uint64 {
	for _, k := range a.g.Keys {
		p := &x509.Certificate{PublicKey: k.Pub}
		switch k.Pub.(type) {
		case *ecdsa.PublicKey:
			p.PublicKeyAlgorithm = x509.ECDSA
		case ed25519.PublicKey:
			p.PublicKeyAlgorithm = x509.Ed25519
		}
		if err := p.CheckSignature(c.SignatureAlgorithm, c.RawTBSCertificate, c.Signature); err == nil {
			return a.KeyH(k.Pub)
		}
	}
	return 0
}

// iaRes prints the result of cppki's findIA on a name: found and canonical,
// absent, or present but unusable.
func iaRes(n pkix.Name) string {
	var raw *string
	for _, at := range n.Names {
		if at.Type.Equal(cppki.OIDNameIA) {
			s, ok := at.Value.(string)
			if !ok {
				return "PKIChain.IAErr"
			}
			raw = &s
			break
		}
	}
	if raw == nil {
		return "PKIChain.IANone"
	}
	ia, err := addr.ParseIA(*raw)
	if err != nil || ia.IsWildcard() || ia.String() != *raw {
		return "PKIChain.IAErr"
	}
	return fmt.Sprintf("(PKIChain.IAOk %d %d)", uint64(ia.ISD()), uint64(ia.AS()))
}

func oidExt(c *x509.Certificate, oid asn1.ObjectIdentifier) (present, critical bool) {
	for _, e := range c.Extensions {
		if e.Id.Equal(oid) {
			return true, e.Critical
		}
	}
	return false, false
}

func okAlg(c *x509.Certificate) bool {
	for _, alg := range cppki.ValidSCIONSignatureAlgs {
		if c.SignatureAlgorithm == alg {
			return true
		}
	}
	return false
}

func bi(b bool) string {
	if b {
		return "true"
	}
	return "false"
}

// Cert prints the abstract certificate:
//
//	PKIChain.mkc id key signer subject issuer version serial_set sigalg_ok skid akid
//	  skid_crit akid_crit ku_certsign ku_digsig eku ueku bc_valid is_ca maxpath
//	  bc_noncrit subject_ia issuer_ia nb na
func (a *Abs) Cert(c *x509.Certificate) string {
	if c == nil {
		panic("pkigen: nil certificate")
	}
	var eku []string
	for _, u := range c.ExtKeyUsage {
		eku = append(eku, fmt.Sprint(int(u)))
	}
	var ueku []string
	for _, o := range c.UnknownExtKeyUsage {
		switch {
		case o.Equal(cppki.OIDExtKeyUsageSensitive):
			ueku = append(ueku, "1")
		case o.Equal(cppki.OIDExtKeyUsageRegular):
			ueku = append(ueku, "2")
		case o.Equal(cppki.OIDExtKeyUsageRoot):
			ueku = append(ueku, "3")
		default:
			ueku = append(ueku, "9")
		}
	}
	_, skidCrit := oidExt(c, cppki.OIDExtensionSubjectKeyID)
	_, akidCrit := oidExt(c, cppki.OIDExtensionAuthorityKeyID)
	bcPresent, bcCrit := oidExt(c, cppki.OIDExtensionBasicConstraints)
	f := []string{
		fmt.Sprint(a.H('c', c.Raw)),
		fmt.Sprint(a.H('k', c.RawSubjectPublicKeyInfo)),
		fmt.Sprint(a.signerOf(c)),
		fmt.Sprint(a.H('n', c.RawSubject)),
		fmt.Sprint(a.H('n', c.RawIssuer)),
		fmt.Sprint(c.Version),
		bi(c.SerialNumber != nil),
		bi(okAlg(c)),
		fmt.Sprint(a.H('i', c.SubjectKeyId)),
		fmt.Sprint(a.H('i', c.AuthorityKeyId)),
		bi(skidCrit), bi(akidCrit),
		bi(c.KeyUsage&x509.KeyUsageCertSign != 0),
		bi(c.KeyUsage&x509.KeyUsageDigitalSignature != 0),
		"[" + strings.Join(eku, ";") + "]",
		"[" + strings.Join(ueku, ";") + "]",
		bi(c.BasicConstraintsValid), bi(c.IsCA),
		fmt.Sprintf("(%d)%%Z", c.MaxPathLen),
		bi(bcPresent && !bcCrit),
		iaRes(c.Subject), iaRes(c.Issuer),
		fmt.Sprintf("(%d)%%Z", a.T(c.NotBefore)),
		fmt.Sprintf("(%d)%%Z", a.T(c.NotAfter)),
	}
	return "(PKIChain.mkc " + strings.Join(f, " ") + ")"
}

// CertID is the handle of a certificate's raw bytes.
func (a *Abs) CertID(c *x509.Certificate) uint64 { return a.H('c', c.Raw) }

// Certs prints a list of abstract certificates.
func (a *Abs) Certs(cs []*x509.Certificate) string {
	out := make([]string, len(cs))
	for i, c := range cs {
		out[i] = a.Cert(c)
	}
	return "[" + strings.Join(out, "; ") + "]"
}

// TRC prints the abstract TRC:
//
//	PKIChain.mkt handle isd base serial nb na grace_seconds certs vset sigset
//
// vset / sigset are the C35 verification-oracle data (0 when not used).
func (a *Abs) TRC(t *cppki.TRC, vset, sigset uint64) string {
	return fmt.Sprintf("(PKIChain.mkt %d %d %d %d (%d)%%Z (%d)%%Z (%d)%%Z %s %d %d)",
		a.H('t', t.Raw), uint64(t.ID.ISD), uint64(t.ID.Base), uint64(t.ID.Serial),
		a.T(t.Validity.NotBefore), a.T(t.Validity.NotAfter), int64(t.GracePeriod/time.Second),
		a.Certs(t.Certificates), vset, sigset)
}

// TRCH is the handle of a TRC payload.
func (a *Abs) TRCH(t *cppki.TRC) uint64 { return a.H('t', t.Raw) }

// IARes prints the result of cppki's findIA on a name (Model/PKIChain.v ia_res).
func IARes(n pkix.Name) string { return iaRes(n) }
