// Package segbuild builds real pkg/segment path segments and beacons for the
// C27 runner from a list of hops. AS entries are signed by a fake signer: a
// well-formed SignedMessage (header carrying the chosen signing time, the real
// AS-entry body) with a dummy signature. The storage layer never verifies
// signatures; it reads the header timestamp (ExtractLastHopVersion) and
// re-parses the body (UnpackSegment / UnpackBeacon).
package segbuild

import (
	"context"
	"time"

	"google.golang.org/protobuf/proto"
	"google.golang.org/protobuf/types/known/timestamppb"

	"github.com/scionproto/scion/pkg/addr"
	cryptopb "github.com/scionproto/scion/pkg/proto/crypto"
	seg "github.com/scionproto/scion/pkg/segment"
)

// Peer is a peer entry: hop field (ConsIngress = In, ConsEgress = the hop's egress).
type Peer struct {
	IA     addr.IA
	In     uint16
	Remote uint16
	Exp    uint8
}

// Hop is one AS entry in construction direction.
type Hop struct {
	IA     addr.IA
	In, Eg uint16
	Exp    uint8
	Peers  []Peer
}

type signer struct{ ts time.Time }

func (s signer) Sign(_ context.Context, msg []byte, ad ...[]byte) (*cryptopb.SignedMessage, error) {
	n := 0
	for _, d := range ad {
		n += len(d)
	}
	hdr, err := proto.Marshal(&cryptopb.Header{
		SignatureAlgorithm:   cryptopb.SignatureAlgorithm_SIGNATURE_ALGORITHM_ECDSA_WITH_SHA256,
		Timestamp:            timestamppb.New(s.ts),
		AssociatedDataLength: int32(n),
	})
	if err != nil {
		return nil, err
	}
	hb, err := proto.Marshal(&cryptopb.HeaderAndBody{Header: hdr, Body: msg})
	if err != nil {
		return nil, err
	}
	return &cryptopb.SignedMessage{HeaderAndBody: hb, Signature: []byte("verif-fake-signature")}, nil
}

// Build creates a segment with the given info timestamp and data-plane segment
// id. Every AS entry is signed at signTime. next is the Next ISD-AS of the last
// AS entry: zero for a terminated path segment, the receiving AS for a beacon
// (whose last hop also has a non-zero egress).
func Build(info time.Time, segID uint16, hops []Hop, signTime time.Time, next addr.IA) (*seg.PathSegment, error) {
	ps, err := seg.CreateSegment(info, segID)
	if err != nil {
		return nil, err
	}
	for i, h := range hops {
		e := seg.ASEntry{
			Local: h.IA,
			MTU:   1472,
			HopEntry: seg.HopEntry{
				IngressMTU: 1472,
				HopField: seg.HopField{ExpTime: h.Exp, ConsIngress: h.In, ConsEgress: h.Eg,
					MAC: [6]byte{byte(i), 1, 2, 3, 4, 5}},
			},
		}
		if i+1 < len(hops) {
			e.Next = hops[i+1].IA
		} else {
			e.Next = next
		}
		for j, p := range h.Peers {
			e.PeerEntries = append(e.PeerEntries, seg.PeerEntry{
				Peer: p.IA, PeerInterface: p.Remote, PeerMTU: 1472,
				HopField: seg.HopField{ExpTime: p.Exp, ConsIngress: p.In, ConsEgress: h.Eg,
					MAC: [6]byte{byte(i), byte(j), 9, 9, 9, 9}},
			})
		}
		if err := ps.AddASEntry(context.Background(), e, signer{ts: signTime}); err != nil {
			return nil, err
		}
	}
	return ps, nil
}
