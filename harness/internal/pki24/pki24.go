// Package pki24 is the small in-process control-plane PKI used by the C24 runner:
// per ISD a root and a CA certificate, voting certificates and a signed base TRC,
// AS certificates with chosen key, subject key id and validity window, an in-memory
// SQLite trust database and a trust.FetchingProvider over it that never goes to
// the network.  Everything is built with crypto/x509 and the public scion packages;
// nothing here is specific to one runner, but no other runner depends on it.
package pki24

import (
	"context"
	"crypto/ecdsa"
	"crypto/elliptic"
	"crypto/rand"
	"crypto/x509"
	"crypto/x509/pkix"
	"encoding/asn1"
	"errors"
	"fmt"
	"math/big"
	"net"
	"time"

	"github.com/scionproto/scion/pkg/addr"
	"github.com/scionproto/scion/pkg/scrypto"
	"github.com/scionproto/scion/pkg/scrypto/cppki"
	"github.com/scionproto/scion/private/storage/db"
	"github.com/scionproto/scion/private/storage/trust/sqlite"
	"github.com/scionproto/scion/private/trust"
	"github.com/scionproto/scion/scion-pki/trcs"
)

var serial = big.NewInt(1000)

func nextSerial() *big.Int {
	serial = new(big.Int).Add(serial, big.NewInt(1))
	return new(big.Int).Set(serial)
}

func name(ia addr.IA, cn string) pkix.Name {
	return pkix.Name{
		CommonName: cn,
		ExtraNames: []pkix.AttributeTypeAndValue{{Type: cppki.OIDNameIA, Value: ia.String()}},
	}
}

func skidOf(k *ecdsa.PrivateKey) []byte {
	id, err := cppki.SubjectKeyID(k.Public())
	if err != nil {
		panic(err)
	}
	return id
}

// ISD holds the trust anchors of one isolation domain.
type ISD struct {
	ID      addr.ISD
	CoreIA  addr.IA
	RootKey *ecdsa.PrivateKey
	Root    *x509.Certificate
	CAKey   *ecdsa.PrivateKey
	CA      *x509.Certificate
	TRC     cppki.SignedTRC
}

func mustKey(c elliptic.Curve) *ecdsa.PrivateKey {
	k, err := ecdsa.GenerateKey(c, rand.Reader)
	if err != nil {
		panic(err)
	}
	return k
}

func create(tmpl, parent *x509.Certificate, pub *ecdsa.PublicKey, signer *ecdsa.PrivateKey) (*x509.Certificate, error) {
	raw, err := x509.CreateCertificate(rand.Reader, tmpl, parent, pub, signer)
	if err != nil {
		return nil, err
	}
	return x509.ParseCertificate(raw)
}

// NewISD creates root, CA and voting certificates valid in [nb, na] and a signed
// base TRC (base 1, serial `serial`) for the ISD with core AS coreIA.
func NewISD(id addr.ISD, coreIA addr.IA, nb, na time.Time, trcSerial uint64) (*ISD, error) {
	i := &ISD{ID: id, CoreIA: coreIA, RootKey: mustKey(elliptic.P256()), CAKey: mustKey(elliptic.P256())}
	rootT := &x509.Certificate{
		SerialNumber: nextSerial(), Subject: name(coreIA, "root"), NotBefore: nb, NotAfter: na,
		KeyUsage: x509.KeyUsageCertSign, BasicConstraintsValid: true, IsCA: true, MaxPathLen: 1,
		SubjectKeyId:       skidOf(i.RootKey),
		ExtKeyUsage:        []x509.ExtKeyUsage{x509.ExtKeyUsageTimeStamping},
		UnknownExtKeyUsage: []asn1.ObjectIdentifier{cppki.OIDExtKeyUsageRoot},
	}
	var err error
	if i.Root, err = create(rootT, rootT, &i.RootKey.PublicKey, i.RootKey); err != nil {
		return nil, fmt.Errorf("root: %w", err)
	}
	caT := &x509.Certificate{
		SerialNumber: nextSerial(), Subject: name(coreIA, "ca"), NotBefore: nb, NotAfter: na,
		KeyUsage: x509.KeyUsageCertSign, BasicConstraintsValid: true, IsCA: true, MaxPathLen: 0,
		MaxPathLenZero: true, SubjectKeyId: skidOf(i.CAKey), AuthorityKeyId: i.Root.SubjectKeyId,
	}
	if i.CA, err = create(caT, i.Root, &i.CAKey.PublicKey, i.RootKey); err != nil {
		return nil, fmt.Errorf("ca: %w", err)
	}
	voting := func(cn string, oid asn1.ObjectIdentifier) (*ecdsa.PrivateKey, *x509.Certificate, error) {
		k := mustKey(elliptic.P256())
		t := &x509.Certificate{
			SerialNumber: nextSerial(), Subject: name(coreIA, cn), NotBefore: nb, NotAfter: na,
			SubjectKeyId:       skidOf(k),
			ExtKeyUsage:        []x509.ExtKeyUsage{x509.ExtKeyUsageTimeStamping},
			UnknownExtKeyUsage: []asn1.ObjectIdentifier{oid},
		}
		c, err := create(t, t, &k.PublicKey, k)
		return k, c, err
	}
	sensK, sens, err := voting("sensitive", cppki.OIDExtKeyUsageSensitive)
	if err != nil {
		return nil, fmt.Errorf("sensitive: %w", err)
	}
	_, reg, err := voting("regular", cppki.OIDExtKeyUsageRegular)
	if err != nil {
		return nil, fmt.Errorf("regular: %w", err)
	}
	for _, c := range []*x509.Certificate{i.Root, i.CA, sens, reg} {
		if _, err := cppki.ValidateCert(c); err != nil {
			return nil, fmt.Errorf("profile of %s: %w", c.Subject.CommonName, err)
		}
	}
	trc := cppki.TRC{
		Version: 1, ID: cppki.TRCID{ISD: id, Base: 1, Serial: scrypto.Version(trcSerial)},
		Validity:    cppki.Validity{NotBefore: nb.Add(time.Second), NotAfter: na.Add(-time.Second)},
		Quorum:      1,
		CoreASes:    []addr.AS{coreIA.AS()},
		Description: "pki24", AuthoritativeASes: []addr.AS{coreIA.AS()},
		Certificates: []*x509.Certificate{sens, reg, i.Root},
	}
	if trcSerial != 1 {
		// a non-base TRC needs votes; the verifier only looks at ID, validity and roots, so the
		// harness uses base TRCs only
		return nil, errors.New("pki24 creates base TRCs only (serial = base = 1)")
	}
	raw, err := trc.Encode()
	if err != nil {
		return nil, fmt.Errorf("encoding TRC: %w", err)
	}
	signedRaw, err := trcs.SignPayload(raw, sensK, sens)
	if err != nil {
		return nil, fmt.Errorf("signing TRC: %w", err)
	}
	if i.TRC, err = cppki.DecodeSignedTRC(signedRaw); err != nil {
		return nil, fmt.Errorf("decoding signed TRC: %w", err)
	}
	return i, nil
}

// ASCert is an AS certificate issued by the ISD's CA.
type ASCert struct {
	IA    addr.IA
	Key   *ecdsa.PrivateKey
	SKID  []byte
	Cert  *x509.Certificate
	Chain []*x509.Certificate
}

// IssueAS issues an AS certificate for ia and key with the given subject key id and
// validity.  caKey/ca default to the ISD's CA (pass another pair for a chain that
// does not verify against the TRC).
func (i *ISD) IssueAS(ia addr.IA, key *ecdsa.PrivateKey, skid []byte, nb, na time.Time,
	caKey *ecdsa.PrivateKey, ca *x509.Certificate) (*ASCert, error) {

	if caKey == nil {
		caKey, ca = i.CAKey, i.CA
	}
	t := &x509.Certificate{
		SerialNumber: nextSerial(), Subject: name(ia, "as"), NotBefore: nb, NotAfter: na,
		KeyUsage: x509.KeyUsageDigitalSignature, SubjectKeyId: skid, AuthorityKeyId: ca.SubjectKeyId,
		ExtKeyUsage: []x509.ExtKeyUsage{x509.ExtKeyUsageServerAuth, x509.ExtKeyUsageClientAuth,
			x509.ExtKeyUsageTimeStamping},
	}
	c, err := create(t, ca, &key.PublicKey, caKey)
	if err != nil {
		return nil, err
	}
	chain := []*x509.Certificate{c, ca}
	if err := cppki.ValidateChain(chain); err != nil {
		return nil, fmt.Errorf("chain profile: %w", err)
	}
	return &ASCert{IA: ia, Key: key, SKID: skid, Cert: c, Chain: chain}, nil
}

// RogueCA returns a CA certificate (and key) for the ISD that is signed by a root
// that is NOT in the TRC.
func (i *ISD) RogueCA(nb, na time.Time) (*ecdsa.PrivateKey, *x509.Certificate, error) {
	rk, ck := mustKey(elliptic.P256()), mustKey(elliptic.P256())
	rootT := &x509.Certificate{
		SerialNumber: nextSerial(), Subject: name(i.CoreIA, "rogue root"), NotBefore: nb, NotAfter: na,
		KeyUsage: x509.KeyUsageCertSign, BasicConstraintsValid: true, IsCA: true, MaxPathLen: 1,
		SubjectKeyId:       skidOf(rk),
		ExtKeyUsage:        []x509.ExtKeyUsage{x509.ExtKeyUsageTimeStamping},
		UnknownExtKeyUsage: []asn1.ObjectIdentifier{cppki.OIDExtKeyUsageRoot},
	}
	root, err := create(rootT, rootT, &rk.PublicKey, rk)
	if err != nil {
		return nil, nil, err
	}
	caT := &x509.Certificate{
		SerialNumber: nextSerial(), Subject: name(i.CoreIA, "rogue ca"), NotBefore: nb, NotAfter: na,
		KeyUsage: x509.KeyUsageCertSign, BasicConstraintsValid: true, IsCA: true, MaxPathLen: 0,
		MaxPathLenZero: true, SubjectKeyId: skidOf(ck), AuthorityKeyId: root.SubjectKeyId,
	}
	ca, err := create(caT, root, &ck.PublicKey, rk)
	return ck, ca, err
}

var dbCount int

// NewDB opens a fresh in-memory SQLite trust database.
func NewDB() (sqlite.DB, error) {
	dbCount++
	return sqlite.New(fmt.Sprintf("pki24-%d-%d", time.Now().UnixNano(), dbCount), &db.SqliteConfig{InMemory: true})
}

type noRecursion struct{}

func (noRecursion) AllowRecursion(net.Addr) error { return errors.New("pki24: no network") }

// Provider returns the real fetching provider over d; it never recurses.
func Provider(d trust.DB) trust.FetchingProvider {
	return trust.FetchingProvider{DB: d, Recurser: noRecursion{}}
}

// Load inserts the ISD's TRC and the given chains.
func Load(ctx context.Context, d trust.DB, isds []*ISD, certs []*ASCert) error {
	for _, i := range isds {
		if _, err := d.InsertTRC(ctx, i.TRC); err != nil {
			return err
		}
	}
	for _, c := range certs {
		if _, err := d.InsertChain(ctx, c.Chain); err != nil {
			return err
		}
	}
	return nil
}
