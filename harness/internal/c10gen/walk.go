// Package c10gen is the harness of property C10 (SCMP replies and traceroute
// answers travel back to the sender).  It walks packets through the REAL
// border routers of a netgen network like netgen.Walk does, but (a) from any
// location (AS, router, ingress link), (b) with the configuration of ONE router
// replaced by a faulty one (egress interface down, egress interface unknown),
// and (c) when a router answers on its slow path it runs the real slow path
// (router.VerifSlowPath), keeps the reply and tells over which link it left.
//
// netgen, rtgen, spgen and topogen are used read-only.
package c10gen

import (
	"encoding/binary"
	"fmt"

	"github.com/scionproto/scion/router"

	"verifharness/internal/netgen"
	"verifharness/internal/rtgen"
	"verifharness/internal/spgen"
)

// Loc is a router and the link a packet reaches it on.
type Loc struct {
	AS  *netgen.ASNet
	Rtr int
	Ing rtgen.Ingress
}

func (l Loc) String() string { return fmt.Sprintf("%s/r%d<-%s", l.AS.AS.IA, l.Rtr, l.Ing) }

// Answer is what the router that stopped a walk did on its slow path.
type Answer struct {
	Loc  Loc
	Obs  rtgen.Obs      // the fast-path observation (In = packet as received, Res.Out = packet as left)
	Slow *spgen.SlowObs // the real slow path on that packet
}

// XWalk is a walk: the forwarding steps, how it ended and, if it ended with a
// slow-path disposition, the answer.
type XWalk struct {
	W      *netgen.Walk // Steps, Final, Macs (MAC tables for the model), NowNs
	Answer *Answer
}

// Override replaces the dataplane of one router.
type Override struct {
	AS  *netgen.ASNet
	Rtr int
	RT  *rtgen.Router
}

func addMacs(w *netgen.Walk, a *netgen.ASNet, in *rtgen.Rec) {
	if in == nil {
		return
	}
	add := func(k, j int, fold bool) {
		if k >= len(in.Hops) || j >= len(in.Infos) {
			return
		}
		h, inf := in.Hops[k], in.Infos[j]
		w.AddMac(a, inf.SegID, inf.Timestamp, h.ExpTime, h.ConsIngress, h.ConsEgress)
		if fold {
			w.AddMac(a, inf.SegID^binary.BigEndian.Uint16(h.Mac[:2]), inf.Timestamp, h.ExpTime, h.ConsIngress, h.ConsEgress)
		}
	}
	add(int(in.CurrHF), int(in.CurrINF), true)
	add(int(in.CurrHF)+1, in.InfIndexForHF(int(in.CurrHF)+1), false)
}

// Walk sends raw into the router at start and follows it until it is
// delivered or no longer forwarded.  ov (may be nil) replaces one router.
// macs (may be nil) accumulates the MAC tables of several walks.
func Walk(n *netgen.Net, raw []byte, start Loc, ov *Override, macs *netgen.Walk) *XWalk {
	w := &netgen.Walk{Macs: map[int]map[string]string{}}
	if macs != nil {
		w.Macs = macs.Macs
	}
	x := &XWalk{W: w}
	a, rtr, ing := start.AS, start.Rtr, start.Ing
	limit := 2*70 + 4
	for i := 0; ; i++ {
		if a == nil || rtr >= len(a.Rtrs) || i > limit {
			ia := start.AS.AS.IA
			if a != nil {
				ia = a.AS.IA
			}
			w.Final = netgen.Final{Kind: "noroute", IA: ia, Rtr: rtr}
			return x
		}
		rt := a.Rtrs[rtr]
		if ov != nil && ov.AS == a && ov.Rtr == rtr {
			rt = ov.RT
		}
		o, err := rt.Run(raw, ing)
		if i == 0 {
			w.NowNs = o.NowNs
		}
		if err != nil {
			w.Final = netgen.Final{Kind: "noroute", IA: a.AS.IA, Rtr: rtr, StopDesc: err.Error()}
			return x
		}
		addMacs(w, a, o.In)
		res := o.Res
		stop := func(k, d string) *XWalk {
			w.Final = netgen.Final{Kind: "stopped", IA: a.AS.IA, Rtr: rtr, Stop: k, StopDesc: d}
			return x
		}
		switch res.Disp {
		case router.VerifDiscard:
			return stop("Network.KDiscard", "discard")
		case router.VerifPanic:
			w.Panic = res.PanicMsg
			return stop("Network.KPanic", "panic: "+res.PanicMsg)
		case router.VerifDone:
			return stop("Network.KDone", "done")
		case router.VerifSlowPath:
			x.Answer = &Answer{Loc: Loc{AS: a, Rtr: rtr, Ing: ing}, Obs: o}
			x.Answer.Slow = spgen.RunSlow(rt, res)
			if res.Req.Type >= 0 {
				return stop(fmt.Sprintf("(Network.KScmp %d %d)", res.Req.Type, res.Req.Code),
					fmt.Sprintf("scmp-%d-%d", res.Req.Type, res.Req.Code))
			}
			return stop("Network.KAlert", "router-alert")
		case router.VerifForward:
		default:
			return stop("Network.KDone", "other")
		}
		if !res.Sent || o.Out == nil {
			return stop("Network.KDiscard", "forward-without-link")
		}
		st := netgen.Step{IA: a.AS.IA, Rtr: rtr, Ing: ing, Egress: res.Egress, CI: o.Out.CurrINF, CH: o.Out.CurrHF,
			In: o.In, Out: o.Out}
		if o.In != nil && int(o.In.CurrINF) < len(o.In.Infos) {
			st.ConsDir = o.In.Infos[o.In.CurrINF].ConsDir
		}
		for _, inf := range o.Out.Infos {
			st.SegIDs = append(st.SegIDs, inf.SegID)
		}
		switch {
		case res.EgressLink == rtgen.LinkInternal:
			w.Steps = append(w.Steps, st)
			if res.Dst == nil {
				w.Final = netgen.Final{Kind: "noroute", IA: a.AS.IA, Rtr: rtr, StopDesc: "internal link without destination"}
				return x
			}
			ip := res.Dst.IP
			if v4 := ip.To4(); v4 != nil {
				ip = v4
			}
			w.Final = netgen.Final{Kind: "delivered", IA: a.AS.IA, Rtr: rtr, IP: append([]byte(nil), ip...), Port: uint16(res.Dst.Port)}
			w.Last = res.Out
			return x
		case res.EgressLink >= router.VerifSiblingBase:
			w.Steps = append(w.Steps, st)
			next := res.EgressLink - router.VerifSiblingBase - 1
			ing = rtgen.Ingress{Kind: rtgen.IngSib, ID: rtr + 1}
			rtr = next
		default:
			st.Ext = true
			w.Steps = append(w.Steps, st)
			f := a.If(uint16(res.EgressLink))
			if f == nil {
				w.Final = netgen.Final{Kind: "noroute", IA: a.AS.IA, Rtr: rtr}
				return x
			}
			b := n.AS(f.Nbr)
			if b == nil || b.If(f.Remote) == nil {
				w.Final = netgen.Final{Kind: "noroute", IA: a.AS.IA, Rtr: rtr}
				return x
			}
			a, rtr = b, b.If(f.Remote).Owner
			ing = rtgen.Ingress{Kind: rtgen.IngExt, ID: int(f.Remote)}
		}
		raw = res.Out
	}
}

// Next tells where a reply sent by the router at l over link id `link` arrives:
// direct = over the internal link to the underlay source (no further router).
func Next(n *netgen.Net, l Loc, link int) (next Loc, direct bool, err error) {
	switch {
	case link == rtgen.LinkInternal:
		return Loc{}, true, nil
	case link >= router.VerifSiblingBase:
		k := link - router.VerifSiblingBase - 1
		if k < 0 || k >= len(l.AS.Rtrs) {
			return Loc{}, false, fmt.Errorf("no sibling router %d in %s", k, l.AS.AS.IA)
		}
		return Loc{AS: l.AS, Rtr: k, Ing: rtgen.Ingress{Kind: rtgen.IngSib, ID: l.Rtr + 1}}, false, nil
	case link > 0:
		f := l.AS.If(uint16(link))
		if f == nil || f.Owner != l.Rtr {
			return Loc{}, false, fmt.Errorf("link %d is not an external interface of %s/r%d", link, l.AS.AS.IA, l.Rtr)
		}
		b := n.AS(f.Nbr)
		if b == nil || b.If(f.Remote) == nil {
			return Loc{}, false, fmt.Errorf("link %d of %s leads nowhere", link, l.AS.AS.IA)
		}
		return Loc{AS: b, Rtr: b.If(f.Remote).Owner, Ing: rtgen.Ingress{Kind: rtgen.IngExt, ID: int(f.Remote)}}, false, nil
	}
	return Loc{}, false, fmt.Errorf("reply not sent (link %d)", link)
}

// Faulty builds the dataplane of router rtr of a with one fault:
// "down": the link behind interface e reports down (own external link, or the
// sibling link to the router that owns e); "unknown": interface e is not configured.
func Faulty(a *netgen.ASNet, rtr int, kind string, e uint16) (*rtgen.Router, error) {
	c := *a.Cfgs[rtr]
	c.Ifaces = append([]rtgen.Iface(nil), c.Ifaces...)
	c.SiblingDown = map[int]bool{}
	for k, v := range a.Cfgs[rtr].SiblingDown {
		c.SiblingDown[k] = v
	}
	idx := -1
	for i := range c.Ifaces {
		if c.Ifaces[i].ID == e {
			idx = i
		}
	}
	if idx < 0 {
		return nil, fmt.Errorf("interface %d not configured", e)
	}
	switch kind {
	case "down":
		if c.Ifaces[idx].Sibling == 0 {
			c.Ifaces[idx].Up = false
		} else {
			c.SiblingDown[c.Ifaces[idx].Sibling] = true
		}
	case "unknown":
		c.Ifaces = append(c.Ifaces[:idx], c.Ifaces[idx+1:]...)
	default:
		return nil, fmt.Errorf("unknown fault %q", kind)
	}
	return c.Build()
}
