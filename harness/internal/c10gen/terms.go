package c10gen

import (
	"fmt"

	"verifharness/internal/netgen"
	"verifharness/internal/rtgen"
	"verifharness/internal/vgen"
)

// Nat prints a nat literal.
func Nat(v int) string { return fmt.Sprintf("%d%%nat", v) }

// LocTerm prints a Network.loc.
func LocTerm(l Loc) string {
	return vgen.App("ScmpReturn.lc", netgen.IATerm(l.AS.AS.IA), vgen.N(uint64(l.Rtr)), l.Ing.Gallina())
}

// HostsTerm prints the local host address of every router of the network:
// list (ISD-AS * (router * address bytes)).
func HostsTerm(n *netgen.Net) string {
	var out []string
	for _, a := range n.ASes {
		for rt, c := range a.Cfgs {
			out = append(out, "(pair "+netgen.IATerm(a.AS.IA)+" (pair "+vgen.N(uint64(rt))+" "+
				vgen.Bytes(c.LocalHost.AsSlice())+"))")
		}
	}
	return vgen.List(out)
}

// PFault is a fault the sender puts into the packet.
type PFault struct {
	Kind   string // "", "exp", "mac", "alert"
	Idx    int
	Val    uint64 // new ExpTime / new MAC (48 bits)
	IA, EA bool   // alert flag bits as on the wire
}

func (f PFault) Term() string {
	switch f.Kind {
	case "exp":
		return vgen.App("ScmpReturn.PHop", "Prov.FHopExp", Nat(f.Idx), vgen.N(f.Val))
	case "mac":
		return vgen.App("ScmpReturn.PHop", "Prov.FHopMac", Nat(f.Idx), vgen.N(f.Val))
	case "alert":
		return vgen.App("ScmpReturn.PAlert", Nat(f.Idx), vgen.B(f.IA), vgen.B(f.EA))
	}
	return "ScmpReturn.PNone"
}

func (f PFault) String() string {
	switch f.Kind {
	case "exp", "mac":
		return fmt.Sprintf("%s@hop%d", f.Kind, f.Idx)
	case "alert":
		return fmt.Sprintf("alert@hop%d(ingressbit=%v,egressbit=%v)", f.Idx, f.IA, f.EA)
	}
	return "none"
}

// Apply changes d.
func (f PFault) Apply(d *rtgen.Desc) {
	switch f.Kind {
	case "exp":
		d.Hops[f.Idx].ExpTime = uint8(f.Val)
	case "mac":
		for i := 0; i < 6; i++ {
			d.Hops[f.Idx].Mac[i] = byte(f.Val >> (8 * (5 - i)))
		}
	case "alert":
		d.Hops[f.Idx].IngressAlert = f.IA
		d.Hops[f.Idx].EgressAlert = f.EA
	}
}

// CFault is a fault of one router's configuration.
type CFault struct {
	Kind string // "", "down", "unknown"
	AS   *netgen.ASNet
	Rtr  int
	E    uint16
}

func (f CFault) Term() string {
	if f.Kind == "" {
		return "None"
	}
	c := "ScmpReturn.CDown"
	if f.Kind == "unknown" {
		c = "ScmpReturn.CUnknown"
	}
	return "(Some (pair " + netgen.IATerm(f.AS.AS.IA) + " (pair " + vgen.N(uint64(f.Rtr)) + " " +
		vgen.App(c, vgen.N(uint64(f.E))) + ")))"
}

func (f CFault) String() string {
	if f.Kind == "" {
		return "none"
	}
	return fmt.Sprintf("%s:%s/r%d#%d", f.Kind, f.AS.AS.IA, f.Rtr, f.E)
}

// HowTerm names the arrival kind of an ingress link.
func HowTerm(i rtgen.Ingress) string {
	switch i.Kind {
	case rtgen.IngExt:
		return "ScmpReturn.AExt"
	case rtgen.IngSib:
		return "ScmpReturn.ASib"
	}
	return "ScmpReturn.AHost"
}
