// Package hpseg builds real pkg/segment path segments from an abstract hop list
// for the C45 and C30 runners. AS entries are "signed" by a fake signer that
// produces a well-formed SignedMessage (header with a chosen timestamp + the
// real body) and a dummy signature, so that segments survive
// PackSegment/UnpackSegment and ExtractLastHopVersion yields the chosen version.
package hpseg

import (
	"context"
	"encoding/hex"
	"time"

	"google.golang.org/protobuf/proto"
	"google.golang.org/protobuf/types/known/timestamppb"

	"github.com/scionproto/scion/pkg/addr"
	cryptopb "github.com/scionproto/scion/pkg/proto/crypto"
	seg "github.com/scionproto/scion/pkg/segment"
)

// Peer is one peer entry of a hop.
type Peer struct {
	IA     addr.IA // remote AS
	Local  uint16  // local peering interface (ConsIngress of the peer hop field)
	Remote uint16  // interface id in the remote AS
	Exp    uint8
}

// Hop is one AS entry, in construction direction.
type Hop struct {
	IA    addr.IA
	In    uint16 // ConsIngress (0 at the first hop)
	Eg    uint16 // ConsEgress (0 at the last hop)
	Exp   uint8  // ExpTime of the hop field
	Peers []Peer
}

// FakeSigner produces SignedMessages carrying Timestamp in the header.
type FakeSigner struct{ Timestamp time.Time }

func (s FakeSigner) Sign(_ context.Context, msg []byte,
	associatedData ...[]byte) (*cryptopb.SignedMessage, error) {

	var l int
	for _, d := range associatedData {
		l += len(d)
	}
	hdr, err := proto.Marshal(&cryptopb.Header{
		SignatureAlgorithm:   cryptopb.SignatureAlgorithm_SIGNATURE_ALGORITHM_ECDSA_WITH_SHA256,
		Timestamp:            timestamppb.New(s.Timestamp),
		AssociatedDataLength: int32(l),
	})
	if err != nil {
		return nil, err
	}
	hb, err := proto.Marshal(&cryptopb.HeaderAndBody{Header: hdr, Body: msg})
	if err != nil {
		return nil, err
	}
	return &cryptopb.SignedMessage{HeaderAndBody: hb, Signature: []byte{0xfa, 0x4e}}, nil
}

// Build creates a segment with the given hops. infoTS is the info-field
// timestamp, version the signature timestamp of every AS entry (the "last hop
// version" the path DB orders updates by), beta the initial SegID.
func Build(hops []Hop, infoTS, version time.Time, beta uint16) (*seg.PathSegment, error) {
	ps, err := seg.CreateSegment(infoTS, beta)
	if err != nil {
		return nil, err
	}
	for i, h := range hops {
		var next addr.IA
		if i+1 < len(hops) {
			next = hops[i+1].IA
		}
		mac := [6]byte{byte(i), byte(h.In), byte(h.Eg), 4, 5, 6}
		ase := seg.ASEntry{
			Local: h.IA, Next: next, MTU: 1400,
			HopEntry: seg.HopEntry{
				IngressMTU: 1400,
				HopField: seg.HopField{ConsIngress: h.In, ConsEgress: h.Eg,
					ExpTime: h.Exp, MAC: mac},
			},
		}
		for _, p := range h.Peers {
			ase.PeerEntries = append(ase.PeerEntries, seg.PeerEntry{
				Peer: p.IA, PeerInterface: p.Remote, PeerMTU: 1400,
				HopField: seg.HopField{ConsIngress: p.Local, ConsEgress: h.Eg,
					ExpTime: p.Exp, MAC: mac},
			})
		}
		if err := ps.AddASEntry(context.Background(), ase, FakeSigner{Timestamp: version}); err != nil {
			return nil, err
		}
	}
	return ps, nil
}

// Key is the hex segment ID (hash over the hops), used to map real segments
// back to generated shapes.
func Key(ps *seg.PathSegment) string { return hex.EncodeToString(ps.ID()) }
