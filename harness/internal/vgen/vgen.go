// Package vgen holds what every correspondence runner shares: one seeded PRNG
// (splitmix64), printers for Gallina terms, and the writer for the per-run
// files consumed by bin/check:
//
//	<out>/cases_NNN.v   shards of `(id, case)` pairs evaluated by coqc (vm_compute)
//	<out>/cases.jsonl   one human-readable record per case id (desc, tags, impl obs)
//	<out>/stats.json    evaluations, distinct_nontrivial, distribution, samples,
//	                    violations seen directly on the Go side (panics, ...)
package vgen

import (
	"bufio"
	"crypto/sha256"
	"encoding/hex"
	"encoding/json"
	"flag"
	"fmt"
	"os"
	"path/filepath"
	"sort"
	"strconv"
	"strings"
)

// ---------------------------------------------------------------- PRNG

// Rand is splitmix64. Every random choice of a runner derives from one Rand
// (or from Fork()s of it), so a seed replays a run exactly.
type Rand struct{ s uint64 }

func NewRand(seed uint64) *Rand { return &Rand{s: seed*0x9E3779B97F4A7C15 + 0x1234567} }

func (r *Rand) U64() uint64 {
	r.s += 0x9E3779B97F4A7C15
	z := r.s
	z = (z ^ (z >> 30)) * 0xBF58476D1CE4E5B9
	z = (z ^ (z >> 27)) * 0x94D049BB133111EB
	return z ^ (z >> 31)
}

// Fork returns an independent stream labelled by k (case index etc).
func (r *Rand) Fork(k uint64) *Rand {
	return &Rand{s: r.U64() ^ (k * 0xD6E8FEB86659FD93)}
}

// Intn returns a value in [0,n).
func (r *Rand) Intn(n int) int {
	if n <= 0 {
		return 0
	}
	return int(r.U64() % uint64(n))
}

// Range returns a value in [lo,hi].
func (r *Rand) Range(lo, hi int) int { return lo + r.Intn(hi-lo+1) }

func (r *Rand) Bool() bool { return r.U64()&1 == 1 }

// Chance is true with probability num/den.
func (r *Rand) Chance(num, den int) bool { return r.Intn(den) < num }

func (r *Rand) Bytes(n int) []byte {
	b := make([]byte, n)
	for i := range b {
		b[i] = byte(r.U64())
	}
	return b
}

// Pick returns one of xs.
func Pick[T any](r *Rand, xs ...T) T { return xs[r.Intn(len(xs))] }

// Shuffle permutes xs in place.
func Shuffle[T any](r *Rand, xs []T) {
	for i := len(xs) - 1; i > 0; i-- {
		j := r.Intn(i + 1)
		xs[i], xs[j] = xs[j], xs[i]
	}
}

// ---------------------------------------------------------------- Gallina printers

// N prints an N literal (scope given by the enclosing %N / Open Scope).
func N(v uint64) string { return strconv.FormatUint(v, 10) }

// Z prints a Z literal.
func Z(v int64) string {
	if v < 0 {
		return "(" + strconv.FormatInt(v, 10) + ")"
	}
	return strconv.FormatInt(v, 10)
}

func B(b bool) string {
	if b {
		return "true"
	}
	return "false"
}

// Bytes prints a `list N`.
func Bytes(b []byte) string {
	var sb strings.Builder
	sb.WriteByte('[')
	for i, x := range b {
		if i > 0 {
			sb.WriteByte(';')
		}
		sb.WriteString(strconv.Itoa(int(x)))
	}
	sb.WriteByte(']')
	return sb.String()
}

// Str prints a string as `list N` of its bytes.
func Str(s string) string { return Bytes([]byte(s)) }

// List prints a Gallina list from already printed elements.
func List(xs []string) string { return "[" + strings.Join(xs, "; ") + "]" }

func ListOf[T any](xs []T, f func(T) string) string {
	out := make([]string, len(xs))
	for i, x := range xs {
		out[i] = f(x)
	}
	return List(out)
}

func NList(xs []uint64) string { return ListOf(xs, N) }

// Opt prints an option.
func Opt(s string, ok bool) string {
	if !ok {
		return "None"
	}
	return "(Some " + s + ")"
}

func Pair(a, b string) string { return "(" + a + ", " + b + ")" }

// App prints a constructor application.
func App(c string, args ...string) string {
	if len(args) == 0 {
		return c
	}
	return "(" + c + " " + strings.Join(args, " ") + ")"
}

// ---------------------------------------------------------------- run writer

type caseRec struct {
	ID   int      `json:"id"`
	Kind string   `json:"kind,omitempty"`
	Desc any      `json:"desc"`
	Tags []string `json:"tags,omitempty"`
}

// Violation is a property failure seen directly by the runner (e.g. a panic).
type Violation struct {
	Case int      `json:"case"`
	What string   `json:"what"`
	Tags []string `json:"tags,omitempty"`
	Desc any      `json:"desc,omitempty"`
}

// Run collects the cases of one runner invocation.
type Run struct {
	Prop       string
	Seed       uint64
	N          int
	Tier       string
	Out        string
	Replay     string
	Imports    []string // e.g. "Scion.Model.BFD"
	CheckFn    string   // Gallina: case -> N   (0 = agree & holds)
	DiagFn     string   // Gallina: case -> T   (model observation, printed for failing cases)
	CaseType   string
	Scope      string // e.g. "N" -> cases closed with %N
	ShardSize  int
	Exhaustive bool
	Rule       string
	Prelude    string // extra Gallina text placed after the imports of every shard

	only       map[int]bool
	nextID     int
	ids        []int
	terms      []string
	recs       []caseRec
	nontrivial map[string]bool
	dist       map[string]int
	samples    []any
	viol       []Violation
	extra      map[string]any
}

// Flags parses the standard runner flags.
func Flags(prop string) *Run {
	r := &Run{Prop: prop, ShardSize: 400, Scope: "N"}
	seed := flag.Uint64("seed", 1, "seed")
	flag.IntVar(&r.N, "n", 0, "number of generated cases (0 = tier default)")
	flag.StringVar(&r.Tier, "tier", "quick", "quick|thorough")
	flag.StringVar(&r.Out, "out", "", "output directory")
	flag.StringVar(&r.Replay, "replay", "", "replay file (json) – informational")
	only := flag.String("only", "", "comma separated case ids: execute and emit only these")
	flag.Parse()
	if *only != "" {
		r.only = map[int]bool{}
		for _, f := range strings.Split(*only, ",") {
			if v, err := strconv.Atoi(strings.TrimSpace(f)); err == nil {
				r.only[v] = true
			}
		}
	}
	r.Seed = *seed
	if r.Out == "" {
		fmt.Fprintln(os.Stderr, "missing -out")
		os.Exit(2)
	}
	r.nontrivial = map[string]bool{}
	r.dist = map[string]int{}
	r.extra = map[string]any{}
	return r
}

// Count picks the case count for the tier unless -n was given.
func (r *Run) Count(quick, thorough int) int {
	if r.N > 0 {
		return r.N
	}
	if r.Tier == "thorough" {
		// the thorough tier is meant to finish in minutes per property: at most 4x the quick volume per stream (streams that also widen per-item work reach about 10x)
		// (all of it is evaluated inside Coq by vm_compute); VERIF_THOROUGH_FULL=1 lifts the cap (soak run)
		if os.Getenv("VERIF_THOROUGH_FULL") == "" && thorough > 4*quick {
			return 4 * quick
		}
		return thorough
	}
	return quick
}

// Add registers one case. term is the Gallina value of type CaseType; key is the
// canonical input (hashed for distinctness); nontrivial says whether the case
// reached the decision the property is about; desc is the readable form.
func (r *Run) Add(kind string, term string, key string, nontrivial bool, desc any, tags ...string) int {
	id := r.nextID
	r.nextID++
	if r.only != nil && !r.only[id] {
		return id
	}
	r.ids = append(r.ids, id)
	r.terms = append(r.terms, term)
	r.recs = append(r.recs, caseRec{ID: id, Kind: kind, Desc: desc, Tags: tags})
	r.dist["kind:"+kind]++
	if nontrivial {
		h := sha256.Sum256([]byte(kind + "|" + key))
		r.nontrivial[hex.EncodeToString(h[:8])] = true
	}
	if len(r.samples) < 6 && (id%97 == 0 || len(r.samples) < 2) {
		r.samples = append(r.samples, map[string]any{"id": id, "kind": kind, "case": desc})
	}
	return id
}

// Want reports whether the case that the next Add will register has to be
// executed (false when -only selects other cases). A runner must still draw the
// same random numbers for a skipped case and call Skip() instead of Add().
func (r *Run) Want() bool { return r.only == nil || r.only[r.nextID] }

// WantID is Want for an arbitrary future id.
func (r *Run) WantID(id int) bool { return r.only == nil || r.only[id] }

// Skip consumes the id of a case that was generated but not executed.
func (r *Run) Skip() { r.nextID++ }

// Tally counts a distribution bucket.
func (r *Run) Tally(bucket string) { r.dist[bucket]++ }

// Violate records a violation found directly on the Go side.
func (r *Run) Violate(caseID int, what string, desc any, tags ...string) {
	r.viol = append(r.viol, Violation{Case: caseID, What: what, Tags: tags, Desc: desc})
}

// Extra attaches a key to stats.json.
func (r *Run) Extra(k string, v any) { r.extra[k] = v }

// Finish writes all files.
func (r *Run) Finish() {
	must(os.MkdirAll(r.Out, 0o755))
	shard := 0
	for lo := 0; lo < len(r.terms) || (lo == 0 && shard == 0); lo += r.ShardSize {
		hi := lo + r.ShardSize
		if hi > len(r.terms) {
			hi = len(r.terms)
		}
		f, err := os.Create(filepath.Join(r.Out, fmt.Sprintf("cases_%03d.v", shard)))
		must(err)
		w := bufio.NewWriter(f)
		fmt.Fprintf(w, "From Coq Require Import List NArith ZArith Bool.\nImport ListNotations.\n")
		fmt.Fprintf(w, "From Scion Require Import Lib.Check.\n")
		for _, im := range r.Imports {
			fmt.Fprintf(w, "From Scion Require Import %s.\n", strings.TrimPrefix(im, "Scion."))
		}
		if r.Scope != "" {
			fmt.Fprintf(w, "Local Open Scope %s_scope.\n", r.Scope)
		}
		if r.Prelude != "" {
			fmt.Fprintln(w, r.Prelude)
		}
		fmt.Fprintf(w, "Definition cases : list (N * (%s)) := [\n", r.CaseType)
		for i := lo; i < hi; i++ {
			sep := ";"
			if i == hi-1 {
				sep = ""
			}
			fmt.Fprintf(w, " (%d%%N, %s)%s\n", r.ids[i], r.terms[i], sep)
		}
		fmt.Fprintf(w, "].\n")
		fmt.Fprintf(w, "Definition verdicts := Eval vm_compute in Check.run (%s) cases.\n", r.CheckFn)
		fmt.Fprintf(w, "Print verdicts.\n")
		if r.DiagFn != "" {
			fmt.Fprintf(w, "Definition diag := Eval vm_compute in Check.diag (%s) (%s) cases.\n",
				r.CheckFn, r.DiagFn)
			fmt.Fprintf(w, "Print diag.\n")
		}
		if r.Exhaustive {
			// For an exhaustively enumerated finite domain the agreement of model and
			// implementation is itself a kernel-checked lemma of this run.
			fmt.Fprintf(w, "Lemma corr_exhaustive : Check.run (%s) cases = [].\n", r.CheckFn)
			fmt.Fprintf(w, "Proof. vm_compute. reflexivity. Qed.\n")
		}
		must(w.Flush())
		must(f.Close())
		shard++
		if hi >= len(r.terms) {
			break
		}
	}
	f, err := os.Create(filepath.Join(r.Out, "cases.jsonl"))
	must(err)
	w := bufio.NewWriter(f)
	enc := json.NewEncoder(w)
	for _, c := range r.recs {
		must(enc.Encode(c))
	}
	must(w.Flush())
	must(f.Close())

	keys := make([]string, 0, len(r.dist))
	for k := range r.dist {
		keys = append(keys, k)
	}
	sort.Strings(keys)
	dist := map[string]int{}
	for _, k := range keys {
		dist[k] = r.dist[k]
	}
	st := map[string]any{
		"property":            r.Prop,
		"seed":                r.Seed,
		"tier":                r.Tier,
		"evaluations":         len(r.terms),
		"distinct_nontrivial": len(r.nontrivial),
		"distribution":        dist,
		"samples":             r.samples,
		"violations":          r.viol,
		"exhaustive":          r.Exhaustive,
		"rule":                r.Rule,
		"shards":              shard,
	}
	for k, v := range r.extra {
		st[k] = v
	}
	b, err := json.MarshalIndent(st, "", " ")
	must(err)
	must(os.WriteFile(filepath.Join(r.Out, "stats.json"), b, 0o644))
}

func must(err error) {
	if err != nil {
		fmt.Fprintln(os.Stderr, "runner error:", err)
		os.Exit(3)
	}
}

// Recover runs f and reports a panic as (true, message).
func Recover(f func()) (panicked bool, msg string) {
	defer func() {
		if e := recover(); e != nil {
			panicked = true
			msg = fmt.Sprint(e)
		}
	}()
	f()
	return
}
