package rtgen2

import (
	"crypto/aes"
	"crypto/cipher"
	"encoding/binary"
	"fmt"
	"math/big"
	"strings"

	"github.com/gopacket/gopacket"

	"github.com/scionproto/scion/pkg/addr"
	libepic "github.com/scionproto/scion/pkg/experimental/epic"
	"github.com/scionproto/scion/pkg/scrypto"
	"github.com/scionproto/scion/pkg/slayers"
	"github.com/scionproto/scion/pkg/slayers/path"
	"github.com/scionproto/scion/pkg/slayers/path/epic"

	"verifharness/internal/rtgen"
	"verifharness/internal/vgen"
)

// Epic is the EPIC path header that precedes the embedded SCION path.
type Epic struct {
	PktTS   uint32
	Counter uint32
	PHVF    [4]byte
	LHVF    [4]byte
}

// ToEpic turns a packet with a SCION-type path (as produced by rtgen.Desc.Serialize) into
// the EPIC packet with the same embedded path: path type 3, the 16-byte EPIC header
// inserted after the address header, HdrLen four lines longer.
func ToEpic(raw []byte, e Epic) []byte {
	dl, sl := 4*(1+int(raw[9]>>4&3)), 4*(1+int(raw[9]&3))
	o := rtgen.CmnHdrLen + 16 + dl + sl
	out := append([]byte(nil), raw[:o]...)
	var m [EpicMetaLen]byte
	binary.BigEndian.PutUint32(m[0:], e.PktTS)
	binary.BigEndian.PutUint32(m[4:], e.Counter)
	copy(m[8:12], e.PHVF[:])
	copy(m[12:16], e.LHVF[:])
	out = append(out, m[:]...)
	out = append(out, raw[o:]...)
	out[8] = PathTypeEPIC
	out[5] = raw[5] + EpicMetaLen/4
	return out
}

// FullMAC is the real path.FullMAC (16 bytes) under key.
func FullMAC(key []byte, sid uint16, ts uint32, exp uint8, in, eg uint16) [16]byte {
	h, err := scrypto.InitMac(key)
	if err != nil {
		panic(err)
	}
	m := path.FullMAC(h, path.InfoField{SegID: sid, Timestamp: ts},
		path.HopField{ExpTime: exp, ConsIngress: in, ConsEgress: eg}, nil)
	var r [16]byte
	copy(r[:], m)
	return r
}

// HVFields are the inputs of the EPIC MAC besides the authenticator.
type HVFields struct {
	SrcType uint8
	InfoTS  uint32
	PktTS   uint32
	Counter uint32
	SrcIA   uint64
	SrcRaw  []byte
	PayLen  uint16
}

// FieldsOf reads the EPIC MAC inputs from a parsed packet (info field 0's timestamp).
func FieldsOf(rec *rtgen.Rec, e Epic) HVFields {
	f := HVFields{SrcType: rec.SrcType, PktTS: e.PktTS, Counter: e.Counter, SrcIA: rec.SrcIA,
		SrcRaw: rec.SrcRaw, PayLen: uint16(rec.PayLen)}
	if len(rec.Infos) > 0 {
		f.InfoTS = rec.Infos[0].Timestamp
	}
	return f
}

// CalcMac is the real libepic.CalcMac on a SCION layer carrying these fields.
func CalcMac(auth []byte, f HVFields) ([4]byte, error) {
	s := &slayers.SCION{SrcIA: addr.IA(f.SrcIA), SrcAddrType: slayers.AddrType(f.SrcType), RawSrcAddr: f.SrcRaw,
		PayloadLen: f.PayLen}
	m, err := libepic.CalcMac(auth, epic.PktID{Timestamp: f.PktTS, Counter: f.Counter}, s, f.InfoTS, nil)
	var r [4]byte
	if err != nil {
		return r, err
	}
	copy(r[:], m)
	return r, nil
}

// CalcMacDecoded is libepic.CalcMac on the SCION layer decoded (real slayers decoder) from
// the packet raw (SCION-type or EPIC path).
func CalcMacDecoded(auth []byte, raw []byte, e Epic, infoTS uint32) ([4]byte, error) {
	var r [4]byte
	s := &slayers.SCION{}
	if err := s.DecodeFromBytes(raw, gopacket.NilDecodeFeedback); err != nil {
		return r, err
	}
	m, err := libepic.CalcMac(auth, epic.PktID{Timestamp: e.PktTS, Counter: e.Counter}, s, infoTS, nil)
	if err != nil {
		return r, err
	}
	copy(r[:], m)
	return r, nil
}

// MacInput is the harness's own layout of the EPIC MAC input block.
func MacInput(f HVFields) []byte {
	b := []byte{f.SrcType & 3}
	b = binary.BigEndian.AppendUint32(b, f.InfoTS)
	b = binary.BigEndian.AppendUint32(b, f.PktTS)
	b = binary.BigEndian.AppendUint32(b, f.Counter)
	b = binary.BigEndian.AppendUint64(b, f.SrcIA)
	b = append(b, f.SrcRaw...)
	b = binary.BigEndian.AppendUint16(b, f.PayLen)
	for len(b)%16 != 0 {
		b = append(b, 0)
	}
	return b
}

// CBCMac is AES-CBC with a zero IV over input (a multiple of 16 bytes); the tag is the
// first 4 bytes of the last block.
func CBCMac(auth []byte, input []byte) ([4]byte, error) {
	var r [4]byte
	blk, err := aes.NewCipher(auth)
	if err != nil {
		return r, err
	}
	out := make([]byte, len(input))
	cipher.NewCBCEncrypter(blk, make([]byte, 16)).CryptBlocks(out, input)
	copy(r[:], out[len(out)-16:])
	return r, nil
}

func big16(b []byte) string { return new(big.Int).SetBytes(b).String() }

// BytesTerm prints a byte string as concatenation of Router.bytesc blocks of <= 16 bytes.
func BytesTerm(b []byte) string {
	if len(b) == 0 {
		return "[]"
	}
	var parts []string
	for o := 0; o < len(b); o += 16 {
		e := min(o+16, len(b))
		parts = append(parts, fmt.Sprintf("Router.bytesc %d %s", e-o, big16(b[o:e])))
	}
	return "(" + strings.Join(parts, " ++ ") + ")"
}

// EpicTerm prints RouterEpic.mkEpic.
func (e Epic) Gallina() string {
	return vgen.App("RouterEpic.mkEpic", vgen.N(uint64(e.PktTS)), vgen.N(uint64(e.Counter)),
		BytesTerm(e.PHVF[:]), BytesTerm(e.LHVF[:]))
}

// Candidate is one (SegID, timestamp, ExpTime, ConsIngress, ConsEgress) the model may ask
// the full MAC of.
type Candidate struct {
	SegID uint16
	TS    uint32
	Exp   uint8
	In    uint16
	Eg    uint16
	Full  [16]byte
}

// Candidates enumerates every MAC query the model can make for this packet: current and
// next hop, each with the info field of its segment and the current one, SegID as carried
// and with the carried MAC folded in.
func Candidates(c *rtgen.Config, in *rtgen.Rec) []Candidate {
	var cs []Candidate
	seen := map[string]bool{}
	for _, k := range []int{int(in.CurrHF), int(in.CurrHF) + 1} {
		if k >= len(in.Hops) {
			continue
		}
		h := in.Hops[k]
		for _, j := range []int{in.InfIndexForHF(k), int(in.CurrINF)} {
			if j >= len(in.Infos) {
				continue
			}
			inf := in.Infos[j]
			for _, sid := range []uint16{inf.SegID, inf.SegID ^ binary.BigEndian.Uint16(h.Mac[:2])} {
				key := fmt.Sprint(sid, inf.Timestamp, h.ExpTime, h.ConsIngress, h.ConsEgress)
				if seen[key] {
					continue
				}
				seen[key] = true
				cs = append(cs, Candidate{sid, inf.Timestamp, h.ExpTime, h.ConsIngress, h.ConsEgress,
					FullMAC(c.Key, sid, inf.Timestamp, h.ExpTime, h.ConsIngress, h.ConsEgress)})
			}
		}
	}
	return cs
}

// FullTable prints the candidates as a list of RouterEpic.fullc entries.
func FullTable(cs []Candidate) string {
	var es []string
	for _, c := range cs {
		es = append(es, fmt.Sprintf("(RouterEpic.fullc %d %d %d %d %d %d %d)", c.SegID, c.TS, c.Exp, c.In, c.Eg,
			binary.BigEndian.Uint64(c.Full[:8]), binary.BigEndian.Uint64(c.Full[8:])))
	}
	return vgen.List(es)
}

// EmacTable computes, for every distinct candidate authenticator, the EPIC MAC of the
// packet's fields with the real libepic.CalcMac. The input block of each entry is laid out
// by MacInput; drift reports whether its AES-CBC-MAC ever differed from the real result.
func EmacTable(cs []Candidate, f HVFields) (term string, drift []string) {
	var es []string
	seen := map[[16]byte]bool{}
	in := MacInput(f)
	for _, c := range cs {
		if seen[c.Full] {
			continue
		}
		seen[c.Full] = true
		m, err := CalcMac(c.Full[:], f)
		if err != nil {
			continue
		}
		own, err := CBCMac(c.Full[:], in)
		if err != nil || own != m {
			drift = append(drift, fmt.Sprintf("auth=%x input=%x CalcMac=%x AES-CBC over the harness layout=%x", c.Full, in, m, own))
		}
		es = append(es, "("+BytesTerm(c.Full[:])+", "+BytesTerm(in)+", "+BytesTerm(m[:])+")")
	}
	return vgen.List(es), drift
}

// sameButPath reports whether two records agree in everything except the path meta header
// and the info fields.
func sameButPath(a, b *rtgen.Rec) bool {
	if a.DstIA != b.DstIA || a.SrcIA != b.SrcIA || a.DstType != b.DstType || a.SrcType != b.SrcType ||
		string(a.DstRaw) != string(b.DstRaw) || string(a.SrcRaw) != string(b.SrcRaw) || a.PayLen != b.PayLen ||
		a.PayActual != b.PayActual || a.Seg != b.Seg || len(a.Hops) != len(b.Hops) {
		return false
	}
	for i := range a.Hops {
		if a.Hops[i] != b.Hops[i] {
			return false
		}
	}
	return true
}

// OutTerm prints the output record, as `Router.patch p ...` (p = the input record bound by
// the case term) when only the mutable path state differs.
func (o *Obs) OutTerm(l4 rtgen.L4) string {
	if o.Out == nil {
		return ""
	}
	if o.In != nil && sameButPath(o.In, o.Out) {
		return vgen.App("Router.patch", "p", vgen.N(uint64(o.Out.CurrINF)), vgen.N(uint64(o.Out.CurrHF)),
			vgen.N(uint64(o.Out.MetaRsv)), vgen.ListOf(o.Out.Infos, rtgen.Info.Gallina))
	}
	return RecTerm(o.Out, l4)
}

// ChangedTerm prints the changed byte offsets.
func (o *Obs) ChangedTerm() string { return changedList(o.Changed) }
