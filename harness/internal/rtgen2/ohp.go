// Package rtgen2 extends rtgen (which it wraps, read-only) with what the one-hop
// (C12) and EPIC (C13) properties need: packet descriptions and an independent
// fixed-offset parser for path types 2 (one-hop) and 3 (EPIC), execution on the
// real router through router.VerifProcess, and Gallina printers for
// Model/RouterOHP.v and Model/RouterEpic.v.
package rtgen2

import (
	"encoding/binary"
	"fmt"
	"net"
	"time"

	"github.com/gopacket/gopacket"

	"github.com/scionproto/scion/pkg/addr"
	"github.com/scionproto/scion/pkg/slayers"
	"github.com/scionproto/scion/pkg/slayers/path"
	"github.com/scionproto/scion/pkg/slayers/path/onehop"
	"github.com/scionproto/scion/router"

	"verifharness/internal/rtgen"
	"verifharness/internal/vgen"
)

const (
	PathTypeSCION = 1
	PathTypeOHP   = 2
	PathTypeEPIC  = 3
	L4BFD         = 203
	EpicMetaLen   = 16
)

// OHP is the wire-level description of a packet with a one-hop path.
type OHP struct {
	Info          rtgen.Info
	First, Second rtgen.Hop

	SrcIA, DstIA addr.IA
	Src, Dst     rtgen.Host
	TC           uint8
	FlowID       uint32
	HBH, E2E     []rtgen.Opt
	L4           rtgen.L4

	PayloadLenDelta int
	CmnRsv          uint16 // the two reserved bytes of the common header
}

func (d *OHP) Clone() *OHP {
	c := *d
	c.Src.Raw = append([]byte(nil), d.Src.Raw...)
	c.Dst.Raw = append([]byte(nil), d.Dst.Raw...)
	c.L4.Bytes = append([]byte(nil), d.L4.Bytes...)
	return &c
}

func pathHop(h rtgen.Hop) path.HopField {
	return path.HopField{IngressRouterAlert: h.IngressAlert, EgressRouterAlert: h.EgressAlert,
		ExpTime: h.ExpTime, ConsIngress: h.ConsIngress, ConsEgress: h.ConsEgress, Mac: h.Mac}
}

// Payload returns the first next-header value and everything after the SCION header.
func (d *OHP) Payload() (uint8, []byte) {
	t := &rtgen.Desc{HBH: d.HBH, E2E: d.E2E, L4: d.L4}
	return t.Payload()
}

// Serialize uses the real slayers / onehop serializers; reserved bits and an
// inconsistent PayloadLen are patched into the bytes.
func (d *OHP) Serialize() ([]byte, error) {
	op := &onehop.Path{
		Info: path.InfoField{Peer: d.Info.Peer, ConsDir: d.Info.ConsDir, SegID: d.Info.SegID,
			Timestamp: d.Info.Timestamp},
		FirstHop:  pathHop(d.First),
		SecondHop: pathHop(d.Second),
	}
	next, pld := d.Payload()
	s := &slayers.SCION{
		Version: 0, TrafficClass: d.TC, FlowID: d.FlowID & 0xfffff,
		NextHdr: slayers.L4ProtocolType(next), PathType: onehop.PathType,
		DstIA: d.DstIA, SrcIA: d.SrcIA,
		DstAddrType: slayers.AddrType(d.Dst.Type), SrcAddrType: slayers.AddrType(d.Src.Type),
		RawDstAddr: d.Dst.Raw, RawSrcAddr: d.Src.Raw,
		Path: op,
	}
	if len(d.Dst.Raw) != s.DstAddrType.Length() || len(d.Src.Raw) != s.SrcAddrType.Length() {
		return nil, fmt.Errorf("rtgen2: host address length does not match its type code")
	}
	buf := gopacket.NewSerializeBuffer()
	if err := gopacket.SerializeLayers(buf, gopacket.SerializeOptions{FixLengths: true},
		s, gopacket.Payload(pld)); err != nil {
		return nil, err
	}
	raw := append([]byte(nil), buf.Bytes()...)
	if d.PayloadLenDelta != 0 {
		pl := int(binary.BigEndian.Uint16(raw[6:8])) + d.PayloadLenDelta
		binary.BigEndian.PutUint16(raw[6:8], uint16(pl))
	}
	binary.BigEndian.PutUint16(raw[10:12], d.CmnRsv)
	o := rtgen.CmnHdrLen + s.AddrHdrLen()
	raw[o] |= uint8(d.Info.Rsv>>8) & 0xfc
	raw[o+1] = uint8(d.Info.Rsv)
	raw[o+rtgen.InfoLen] |= d.First.Rsv & 0xfc
	raw[o+rtgen.InfoLen+rtgen.HopLen] |= d.Second.Rsv & 0xfc
	return raw, nil
}

// AddSlack inserts n zero lines (4 bytes each) between the path and the payload
// and announces them in HdrLen.
func AddSlack(raw []byte, lines int) []byte {
	hl := int(raw[5]) * 4
	out := append([]byte(nil), raw[:hl]...)
	out = append(out, make([]byte, 4*lines)...)
	out = append(out, raw[hl:]...)
	out[5] = uint8(int(raw[5]) + lines)
	return out
}

// Extra is what Parse finds outside the rtgen.Rec record.
type Extra struct {
	PathType  uint8
	CmnRsv    uint16
	Slack     int // header bytes announced by HdrLen beyond what the path needs
	HdrLen    int
	PathOff   int // offset of the path header (after the address header)
	PktTS     uint32
	PktCtr    uint32
	PHVF      [4]byte
	LHVF      [4]byte
	ScionOff  int // offset of the SCION-type path (meta header) inside the packet (EPIC: +16)
	FirstLine uint32
}

func parseInfo(b []byte) rtgen.Info {
	return rtgen.Info{ConsDir: b[0]&1 != 0, Peer: b[0]&2 != 0,
		Rsv:   uint16(b[0]&0xfc)<<8 | uint16(b[1]),
		SegID: binary.BigEndian.Uint16(b[2:]), Timestamp: binary.BigEndian.Uint32(b[4:])}
}

func parseHop(b []byte) rtgen.Hop {
	h := rtgen.Hop{EgressAlert: b[0]&1 != 0, IngressAlert: b[0]&2 != 0, Rsv: b[0] & 0xfc, ExpTime: b[1],
		ConsIngress: binary.BigEndian.Uint16(b[2:]), ConsEgress: binary.BigEndian.Uint16(b[4:])}
	copy(h.Mac[:], b[6:12])
	return h
}

// Parse reads the SCION common and address headers and a path of type 1, 2 or 3
// by fixed offsets only (no slayers).
func Parse(raw []byte) (*rtgen.Rec, *Extra, error) {
	if len(raw) < rtgen.CmnHdrLen {
		return nil, nil, fmt.Errorf("shorter than the common header")
	}
	x := &Extra{PathType: raw[8], CmnRsv: binary.BigEndian.Uint16(raw[10:12]),
		FirstLine: binary.BigEndian.Uint32(raw[0:4])}
	r := &rtgen.Rec{}
	x.HdrLen = int(raw[5]) * 4
	r.PayLen = int(binary.BigEndian.Uint16(raw[6:8]))
	r.DstType = raw[9] >> 4
	r.SrcType = raw[9] & 0xf
	dl, sl := 4*(1+int(r.DstType&3)), 4*(1+int(r.SrcType&3))
	r.AddrLen = 16 + dl + sl
	o := rtgen.CmnHdrLen
	if len(raw) < o+r.AddrLen || x.HdrLen < o+r.AddrLen || len(raw) < x.HdrLen {
		return nil, nil, fmt.Errorf("header too short")
	}
	r.DstIA = binary.BigEndian.Uint64(raw[o:])
	r.SrcIA = binary.BigEndian.Uint64(raw[o+8:])
	r.DstRaw = append([]byte(nil), raw[o+16:o+16+dl]...)
	r.SrcRaw = append([]byte(nil), raw[o+16+dl:o+16+dl+sl]...)
	o += r.AddrLen
	x.PathOff = o
	r.PayActual = len(raw) - x.HdrLen
	switch x.PathType {
	case PathTypeOHP:
		if x.HdrLen < o+32 {
			return nil, nil, fmt.Errorf("HdrLen does not cover the one-hop path")
		}
		r.Infos = []rtgen.Info{parseInfo(raw[o:])}
		r.Hops = []rtgen.Hop{parseHop(raw[o+8:]), parseHop(raw[o+20:])}
		x.Slack = x.HdrLen - (o + 32)
		return r, x, nil
	case PathTypeEPIC:
		if x.HdrLen < o+EpicMetaLen+rtgen.MetaLen {
			return nil, nil, fmt.Errorf("HdrLen does not cover the EPIC header")
		}
		x.PktTS = binary.BigEndian.Uint32(raw[o:])
		x.PktCtr = binary.BigEndian.Uint32(raw[o+4:])
		copy(x.PHVF[:], raw[o+8:o+12])
		copy(x.LHVF[:], raw[o+12:o+16])
		o += EpicMetaLen
	case PathTypeSCION:
		if x.HdrLen < o+rtgen.MetaLen {
			return nil, nil, fmt.Errorf("HdrLen does not cover the path meta header")
		}
	default:
		return nil, nil, fmt.Errorf("path type %d", x.PathType)
	}
	x.ScionOff = o
	line := binary.BigEndian.Uint32(raw[o:])
	r.CurrINF = uint8(line >> 30)
	r.CurrHF = uint8(line>>24) & 0x3f
	r.MetaRsv = uint8(line>>18) & 0x3f
	r.Seg = [3]uint8{uint8(line>>12) & 0x3f, uint8(line>>6) & 0x3f, uint8(line) & 0x3f}
	switch {
	case r.Seg[2] > 0:
		r.NumINF = 3
	case r.Seg[1] > 0:
		r.NumINF = 2
	case r.Seg[0] > 0:
		r.NumINF = 1
	}
	r.NumHops = int(r.Seg[0]) + int(r.Seg[1]) + int(r.Seg[2])
	o += rtgen.MetaLen
	need := o + rtgen.InfoLen*r.NumINF + rtgen.HopLen*r.NumHops
	if x.HdrLen < need {
		return nil, nil, fmt.Errorf("HdrLen does not cover the path")
	}
	x.Slack = x.HdrLen - need
	for k := 0; k < r.NumINF; k++ {
		r.Infos = append(r.Infos, parseInfo(raw[o:]))
		o += rtgen.InfoLen
	}
	for k := 0; k < r.NumHops; k++ {
		r.Hops = append(r.Hops, parseHop(raw[o:]))
		o += rtgen.HopLen
	}
	return r, x, nil
}

// Obs is what the real router did with one packet (any path type).
type Obs struct {
	NowNs   int64 // time.Now() just before the call
	AfterNs int64 // time.Now() just after the call
	Res     router.VerifResult
	In      *rtgen.Rec
	InX     *Extra
	Out     *rtgen.Rec
	OutX    *Extra
	Changed []int
	InLen   int
	OutLen  int
}

var srcUnderlay = &net.UDPAddr{IP: net.IP{10, 0, 200, 1}, Port: 40123}

// Run sends raw through the fast path of the real dataplane as if it had arrived over ing
// (fresh packet processor).
func Run(rt *rtgen.Router, raw []byte, ing rtgen.Ingress) (Obs, error) {
	return RunOn(nil, rt, raw, ing)
}

// RunOn is Run on the given reused packet processor (nil: a fresh one): consecutive calls
// with the same processor are what one processing queue of the router sees.
func RunOn(proc *router.VerifProcessor, rt *rtgen.Router, raw []byte, ing rtgen.Ingress) (Obs, error) {
	o := Obs{InLen: len(raw)}
	var src *net.UDPAddr
	if ing.Kind == rtgen.IngInt {
		src = srcUnderlay
	}
	rt.DP.ClearRecords()
	o.NowNs = time.Now().UnixNano()
	var res router.VerifResult
	var err error
	if proc != nil {
		res, err = proc.Process(raw, ing.Link(), src)
	} else {
		res, err = rt.DP.VerifProcess(raw, ing.Link(), src)
	}
	o.AfterNs = time.Now().UnixNano()
	if err != nil {
		return o, err
	}
	o.Res = res
	o.In, o.InX, _ = Parse(raw)
	o.Out, o.OutX, _ = Parse(res.Out)
	o.OutLen = len(res.Out)
	n := min(len(raw), len(res.Out))
	for i := 0; i < n; i++ {
		if raw[i] != res.Out[i] {
			o.Changed = append(o.Changed, i)
		}
	}
	return o, nil
}

// Class is a coarse label of the outcome.
func (o *Obs) Class() string {
	t := rtgen.Obs{Res: o.Res}
	return t.Class()
}

// RecTerm prints a record with the destination port the upper layer implies.
func RecTerm(r *rtgen.Rec, l4 rtgen.L4) string {
	if r == nil {
		return ""
	}
	p, ok, _ := l4.DstPort()
	return r.Gallina(p, ok)
}

func bytesTerm(b []byte) string {
	v := uint64(0)
	if len(b) > 8 {
		return vgen.Bytes(b)
	}
	for _, x := range b {
		v = v<<8 | uint64(x)
	}
	return fmt.Sprintf("(Router.bytesc %d %d)", len(b), v)
}

// ResultTerm prints the observation as a Router.result; out is the term of the
// output packet record ("" if it does not parse).
func (o *Obs) ResultTerm(out string) string {
	switch o.Res.Disp {
	case router.VerifDiscard:
		return "Router.Discard"
	case router.VerifPanic:
		return "Router.Panic"
	case router.VerifDone:
		return "Router.Done"
	case router.VerifForward:
		if !o.Res.Sent {
			return "Router.Discard" // runProcessor drops a packet whose egress has no link
		}
		if out == "" {
			return "Router.BadInput"
		}
		dst := "None"
		if o.Res.Dst != nil {
			ip := o.Res.Dst.IP
			if v4 := ip.To4(); v4 != nil && len(ip) == 4 {
				ip = v4
			}
			dst = vgen.Opt("(pair "+vgen.Bytes(ip)+" "+vgen.N(uint64(o.Res.Dst.Port))+")", true)
		}
		return vgen.App("Router.Forward", vgen.N(uint64(o.Res.Egress)), out, dst)
	case router.VerifSlowPath:
		if out == "" {
			return "Router.BadInput"
		}
		var req string
		switch {
		case o.Res.Req.Type == router.VerifSPRouterAlertIngress:
			req = "Router.SpAlertIngress"
		case o.Res.Req.Type == router.VerifSPRouterAlertEgress:
			req = "Router.SpAlertEgress"
		case o.Res.Req.Type >= 0:
			req = vgen.App("Router.SpScmp", vgen.N(uint64(o.Res.Req.Type)), vgen.N(uint64(o.Res.Req.Code)),
				vgen.N(uint64(o.Res.Req.Pointer)))
		default:
			return "Router.BadInput"
		}
		return vgen.App("Router.SlowPath", req, vgen.N(uint64(o.Res.Egress)), out)
	}
	return "Router.BadInput"
}

// MacEntry prints one entry of a Router.mac_entry table computed with the real key.
func MacEntry(key []byte, sid uint16, ts uint32, exp uint8, in, eg uint16) string {
	m := rtgen.MAC(key, sid, ts, exp, in, eg)
	v := uint64(0)
	for _, x := range m {
		v = v<<8 | uint64(x)
	}
	return fmt.Sprintf("(Router.macc %d %d %d %d %d %d)", sid, ts, exp, in, eg, v)
}

// OHPMacTable lists the MACs the one-hop model may query for the packet rec
// received over ingress interface id ifid: the first hop as carried, and the
// second hop this router would issue.
func OHPMacTable(c *rtgen.Config, rec *rtgen.Rec, ifid uint16) string {
	if rec == nil || len(rec.Infos) != 1 || len(rec.Hops) != 2 {
		return "[]"
	}
	i, h := rec.Infos[0], rec.Hops[0]
	es := []string{MacEntry(c.Key, i.SegID, i.Timestamp, h.ExpTime, h.ConsIngress, h.ConsEgress)}
	if ifid != h.ConsIngress || h.ConsEgress != 0 {
		es = append(es, MacEntry(c.Key, i.SegID, i.Timestamp, h.ExpTime, ifid, 0))
	}
	return vgen.List(es)
}

func changedList(ch []int) string {
	u := make([]uint64, len(ch))
	for i, x := range ch {
		u[i] = uint64(x)
	}
	return vgen.NList(u)
}
