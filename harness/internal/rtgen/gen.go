package rtgen

import (
	"encoding/binary"
	"fmt"
	"net/netip"

	"github.com/scionproto/scion/pkg/addr"

	"verifharness/internal/vgen"
)

// MarginSec is the minimal distance kept between `now` and any hop expiry.
const MarginSec = 30

// expUnitMs is path.MaxTTL/256 in milliseconds.
const expUnitMs = 337500

var (
	isds     = []addr.ISD{1, 2, 7}
	ases     = []addr.AS{0xff0000000110, 0xff0000000111, 0xff0000000120, 0x2_0000_0001, 64512, 1}
	localIAs = []addr.IA{addr.MustIAFrom(1, 0xff0000000110), addr.MustIAFrom(2, 0xff0000000220),
		addr.MustIAFrom(7, 64512)}
)

func randIA(r *vgen.Rand, not addr.IA) addr.IA {
	for {
		ia := addr.MustIAFrom(vgen.Pick(r, isds...), vgen.Pick(r, ases...))
		if ia != not {
			return ia
		}
	}
}

// GenConfig draws a router configuration: two own external interfaces per link
// type, interfaces owned by two sibling routers, one interface without link
// type; a few interfaces / one sibling link may be down.
func GenConfig(r *vgen.Rand) *Config {
	c := &Config{
		IA:        vgen.Pick(r, localIAs...),
		Key:       r.Bytes(16),
		LocalHost: netip.AddrFrom4([4]byte{10, 0, byte(r.Intn(250)), byte(1 + r.Intn(250))}),
		PortLo:    1024, PortHi: 65535,
		SiblingDown: map[int]bool{},
	}
	// Interface ids cover the whole uint16 range: small ids, large ids, 0xFFFF, and ids that differ
	// from an already configured one only in the high byte (so that a check or a MAC that ignores
	// one of the two bytes confuses two configured interfaces).
	used := map[uint16]bool{0: true}
	var ids []uint16
	newID := func() uint16 {
		for try := 0; ; try++ {
			var id uint16
			switch k := r.Intn(8); {
			case k <= 1:
				id = uint16(r.Range(1, 255))
			case k == 2:
				id = uint16(r.Range(256, 65535))
			case k == 3 && !used[0xFFFF]:
				id = 0xFFFF
			case len(ids) > 0:
				id = ids[r.Intn(len(ids))] ^ uint16(r.Range(1, 255))<<8 // same low byte
			default:
				id = uint16(r.Range(1, 400))
			}
			if !used[id] {
				used[id] = true
				ids = append(ids, id)
				return id
			}
		}
	}
	add := func(lt, sib int) {
		c.Ifaces = append(c.Ifaces, Iface{ID: newID(), LT: lt, Nbr: randIA(r, c.IA), Sibling: sib, Up: true})
	}
	for lt := LTCore; lt <= LTPeer; lt++ {
		add(lt, 0)
		// the second own interface of the type often shares the low byte with the first
		if first := c.Ifaces[len(c.Ifaces)-1].ID; r.Bool() {
			twin := first ^ uint16(r.Range(1, 255))<<8
			if !used[twin] {
				used[twin] = true
				ids = append(ids, twin)
				c.Ifaces = append(c.Ifaces, Iface{ID: twin, LT: lt, Nbr: randIA(r, c.IA), Up: true})
			} else {
				add(lt, 0)
			}
		} else {
			add(lt, 0)
		}
		add(lt, 1)
		if lt == LTCore || lt == LTChild || r.Bool() {
			add(lt, 2)
		}
	}
	add(LTUnset, 0)
	vgen.Shuffle(r, c.Ifaces)
	if r.Chance(1, 3) {
		c.Ifaces[r.Intn(len(c.Ifaces))].Up = false
	}
	if r.Chance(1, 8) {
		c.SiblingDown[2] = true
	}
	c.Svcs = append(c.Svcs, Svc{SVC: addr.SvcCS,
		Addr: netip.AddrPortFrom(netip.AddrFrom4([4]byte{10, 0, 9, byte(1 + r.Intn(200))}), uint16(r.Range(1025, 60000)))})
	if r.Bool() {
		c.Svcs = append(c.Svcs, Svc{SVC: addr.SvcDS,
			Addr: netip.AddrPortFrom(netip.MustParseAddr("fd00::9"), uint16(r.Range(1025, 60000)))})
	}
	return c
}

// Up reports the state the link behind an interface is in.
func (c *Config) Up(i *Iface) bool {
	if i.Sibling != 0 {
		return !c.SiblingDown[i.Sibling]
	}
	return i.Up
}

// Pick returns a random interface of link type lt; own: 0 = own external,
// 1 = owned by a sibling, -1 = any; interfaces that are up are preferred unless
// anyState. nil if there is none.
func (c *Config) Pick(r *vgen.Rand, lt int, own int, anyState bool, not uint16) *Iface {
	var ok, rest []*Iface
	for i := range c.Ifaces {
		f := &c.Ifaces[i]
		if f.LT != lt || f.ID == not {
			continue
		}
		if own == 0 && f.Sibling != 0 || own == 1 && f.Sibling == 0 {
			continue
		}
		if c.Up(f) {
			ok = append(ok, f)
		} else {
			rest = append(rest, f)
		}
	}
	if anyState {
		ok = append(ok, rest...)
	}
	if len(ok) == 0 {
		ok = rest
	}
	if len(ok) == 0 {
		return nil
	}
	return ok[r.Intn(len(ok))]
}

// LocalHop says which hop fields of a scenario belong to the router's AS and
// how they are verified.
type LocalHop struct {
	Idx  int    // hop index in the path
	Beta uint16 // SegID the MAC is computed over
	Fold bool   // the router folds the MAC into the SegID before verifying (wire = Beta xor MAC[0:2])
}

// Scenario is one generated packet with the link it arrives on.
type Scenario struct {
	Desc  *Desc
	Ing   Ingress
	Kind  string
	Local []LocalHop
	Mut   string
	Cell  *TableCell // set for cells of the exhaustive link-type table
}

func (s *Scenario) Clone() *Scenario {
	c := *s
	c.Desc = s.Desc.Clone()
	c.Local = append([]LocalHop(nil), s.Local...)
	return &c
}

// Remac recomputes MAC and wire SegID of the local hop fields from the
// description's current timestamp / expiry / interface fields.
func (s *Scenario) Remac(c *Config) {
	d := s.Desc
	for _, l := range s.Local {
		if l.Idx >= len(d.Hops) {
			continue
		}
		k := int(d.InfIndexForHF(uint8(l.Idx)))
		if k >= len(d.Infos) {
			continue
		}
		h := &d.Hops[l.Idx]
		h.Mac = MAC(c.Key, l.Beta, d.Infos[k].Timestamp, h.ExpTime, h.ConsIngress, h.ConsEgress)
		if int(d.CurrHF) == l.Idx || !l.Fold {
			d.Infos[k].SegID = l.Beta
			if l.Fold {
				d.Infos[k].SegID = l.Beta ^ binary.BigEndian.Uint16(h.Mac[:2])
			}
		}
	}
}

type segw struct {
	inf  Info
	hops []Hop
}

func randKey(r *vgen.Rand) []byte { return r.Bytes(16) }

func randIf(r *vgen.Rand) uint16 {
	switch r.Intn(4) {
	case 0:
		return uint16(r.Range(1, 255))
	case 1:
		return uint16(r.Range(256, 65535))
	}
	return uint16(r.Range(1, 2000))
}

func randTS(r *vgen.Rand, nowSec int64) uint32 {
	return uint32(nowSec - int64(r.Range(MarginSec, 4000)))
}

func randExp(r *vgen.Rand) uint8 { return uint8(r.Range(40, 255)) }

// chainAround builds a chain of n ASes in construction order whose AS li is
// the given local one; the others get random keys and interfaces.
func chainAround(r *vgen.Rand, ts uint32, n, li int, local ASHop) *Chain {
	hops := make([]ASHop, n)
	for i := range hops {
		if i == li {
			hops[i] = local
			continue
		}
		hops[i] = ASHop{Key: randKey(r), In: randIf(r), Eg: randIf(r), Exp: randExp(r)}
		if i == 0 {
			hops[i].In = 0
		}
		if i == n-1 {
			hops[i].Eg = 0
		}
	}
	return NewChain(ts, uint16(r.U64()), hops)
}

// randSeg is a segment that does not involve the local AS.
func randSeg(r *vgen.Rand, nowSec int64) segw {
	n := r.Range(2, 4)
	c := chainAround(r, randTS(r, nowSec), n, -1, ASHop{})
	inf, hops := c.Wire(0, n-1, r.Bool(), 0)
	return segw{inf, hops}
}

func randPayload(r *vgen.Rand) L4 {
	pl := r.Bytes(r.Intn(40))
	switch r.Intn(8) {
	case 0, 1, 2:
		return UDP(uint16(r.Range(1, 65535)), uint16(r.Range(1, 65535)), pl)
	case 3:
		return TCP(uint16(r.Range(1, 65535)), uint16(r.Range(1, 65535)), pl)
	case 4:
		return SCMPEcho(r.Bool(), uint16(r.Range(1, 65535)), uint16(r.Intn(100)), pl)
	case 5:
		return SCMPTraceroute(r.Bool(), uint16(r.Range(1, 65535)), uint16(r.Intn(100)), 0, 0)
	case 6:
		return RawL4(uint8(vgen.Pick(r, 253, 254, 99, 41)), pl)
	}
	return UDP(uint16(r.Range(1, 65535)), EndhostPort, pl)
}

func randHost(r *vgen.Rand) Host {
	switch r.Intn(3) {
	case 0:
		b := r.Bytes(16)
		b[0] = 0xfd
		return Host{Type: 3, Raw: b}
	default:
		return HostIP4(byte(r.Range(1, 223)), byte(r.Intn(256)), byte(r.Intn(256)), byte(r.Range(1, 254)))
	}
}

func randOpts(r *vgen.Rand) []Opt {
	if !r.Chance(1, 4) {
		return nil
	}
	opts := []Opt{}
	for i := r.Intn(3); i > 0; i-- {
		opts = append(opts, Opt{Type: uint8(r.Range(3, 250)), Data: r.Bytes(r.Intn(10))})
	}
	return opts
}

func assemble(r *vgen.Rand, segs []segw, cur int, curHop int, c *Config, srcLocal, dstLocal bool) *Desc {
	d := &Desc{TC: uint8(r.U64()), FlowID: uint32(r.U64()) & 0xfffff}
	hf := 0
	for i, s := range segs {
		d.Infos = append(d.Infos, s.inf)
		d.Hops = append(d.Hops, s.hops...)
		d.SegLen[i] = uint8(len(s.hops))
		if i < cur {
			hf += len(s.hops)
		}
	}
	d.CurrINF = uint8(cur)
	d.CurrHF = uint8(hf + curHop)
	d.SrcIA, d.DstIA = randIA(r, c.IA), randIA(r, c.IA)
	if srcLocal {
		d.SrcIA = c.IA
	}
	if dstLocal {
		d.DstIA = c.IA
	}
	d.Src, d.Dst = randHost(r), randHost(r)
	if dstLocal && r.Chance(1, 5) {
		d.Dst = HostSVC(addr.SvcCS)
		if r.Bool() {
			d.Dst = HostSVC(addr.SvcCS.Multicast())
		}
	}
	d.HBH, d.E2E = randOpts(r), randOpts(r)
	d.L4 = randPayload(r)
	return d
}

// AttackKinds are packets that must NOT be accepted (transit spoofing from inside the AS).
var AttackKinds = []string{"spoof-sameseg", "spoof-afterxover"}

// Kinds of positions GenValid produces.
var Kinds = []string{"first-hop", "transit", "xover", "peer-out", "peer-in", "inbound"}

// GenValid draws a packet that the router must accept, at a random position
// kind, in a random construction direction, on a random admissible ingress.
// kind = "" picks one at random.
func GenValid(r *vgen.Rand, c *Config, nowSec int64, kind string) *Scenario {
	for try := 0; try < 50; try++ {
		k := kind
		if k == "" {
			k = vgen.Pick(r, Kinds...)
		}
		if s := genKind(r, c, nowSec, k); s != nil {
			return s
		}
	}
	panic("rtgen: configuration admits no valid packet of kind " + kind)
}

func genKind(r *vgen.Rand, c *Config, nowSec int64, kind string) *Scenario {
	ts := randTS(r, nowSec)
	exp := randExp(r)
	consDir := r.Bool()
	sc := &Scenario{Kind: kind}
	switch kind {
	case "first-hop":
		var eg *Iface
		variant := r.Intn(5)
		if variant == 0 { // the local AS peers directly: single peer entry against construction direction
			eg = c.Pick(r, LTPeer, 0, false, 0)
			if eg == nil {
				return nil
			}
			ch := chainAround(r, ts, 1, 0, ASHop{Key: c.Key, In: randIf(r), Eg: 0, Exp: exp})
			inf, hops := ch.Wire(0, 0, false, eg.ID)
			other := randSeg(r, nowSec)
			other.inf.Peer, other.inf.ConsDir = true, true
			sc.Desc = assemble(r, []segw{{inf, hops}, other}, 0, 0, c, true, false)
			sc.Local = []LocalHop{{Idx: 0, Beta: ch.Beta[1]}}
			sc.Kind = "first-hop/peer"
		} else {
			n := r.Range(2, 4)
			lt := vgen.Pick(r, LTCore, LTChild)
			li := 0
			if !consDir {
				lt = vgen.Pick(r, LTCore, LTParent)
				li = n - 1
			}
			eg = c.Pick(r, lt, 0, false, 0)
			if eg == nil {
				return nil
			}
			local := ASHop{Key: c.Key, In: 0, Eg: eg.ID, Exp: exp}
			if !consDir {
				local = ASHop{Key: c.Key, In: eg.ID, Eg: 0, Exp: exp}
			}
			ch := chainAround(r, ts, n, li, local)
			inf, hops := ch.Wire(0, n-1, consDir, 0)
			segs := []segw{{inf, hops}}
			for i := r.Intn(3); i > 0; i-- {
				segs = append(segs, randSeg(r, nowSec))
			}
			sc.Desc = assemble(r, segs, 0, 0, c, true, false)
			sc.Local = []LocalHop{{Idx: 0, Beta: ch.Beta[li]}}
		}
		sc.Ing = Ingress{Kind: IngInt}
	case "transit":
		ltIn, ltEg := LTParent, LTChild
		if !consDir {
			ltIn, ltEg = LTChild, LTParent
		}
		if r.Chance(1, 3) {
			ltIn, ltEg = LTCore, LTCore
		}
		fromSib := r.Chance(2, 5)
		var in, eg *Iface
		if fromSib {
			in, eg = c.Pick(r, ltIn, 1, true, 0), c.Pick(r, ltEg, 0, false, 0)
		} else {
			in = c.Pick(r, ltIn, 0, true, 0)
			if in != nil {
				eg = c.Pick(r, ltEg, -1, false, in.ID)
			}
		}
		if in == nil || eg == nil {
			return nil
		}
		n := r.Range(3, 5)
		li := r.Range(1, n-2)
		local := ASHop{Key: c.Key, In: in.ID, Eg: eg.ID, Exp: exp}
		if !consDir {
			local = ASHop{Key: c.Key, In: eg.ID, Eg: in.ID, Exp: exp}
		}
		ch := chainAround(r, ts, n, li, local)
		inf, hops := ch.Wire(0, n-1, consDir, 0)
		pos := li
		if !consDir {
			pos = n - 1 - li
		}
		var segs []segw
		cur := 0
		if r.Chance(1, 3) {
			segs = append(segs, randSeg(r, nowSec))
			cur = 1
		}
		segs = append(segs, segw{inf, hops})
		if len(segs) < 3 && r.Chance(1, 3) {
			segs = append(segs, randSeg(r, nowSec))
		}
		sc.Desc = assemble(r, segs, cur, pos, c, false, false)
		sc.Local = []LocalHop{{Idx: int(sc.Desc.CurrHF), Beta: ch.Beta[li], Fold: !consDir && !fromSib}}
		sc.Ing = Ingress{Kind: IngExt, ID: int(in.ID)}
		if fromSib {
			sc.Ing = Ingress{Kind: IngSib, ID: in.Sibling}
		}
	case "xover":
		// segment A ends at the local AS, segment B starts there
		type shape struct{ ltIn, ltEg int }
		sh := vgen.Pick(r, shape{LTChild, LTCore}, shape{LTCore, LTChild}, shape{LTChild, LTChild})
		fromSib := r.Chance(2, 5)
		var in, eg *Iface
		if fromSib {
			in, eg = c.Pick(r, sh.ltIn, 1, true, 0), c.Pick(r, sh.ltEg, 0, false, 0)
		} else {
			in = c.Pick(r, sh.ltIn, 0, true, 0)
			if in != nil {
				eg = c.Pick(r, sh.ltEg, -1, false, in.ID)
			}
		}
		if in == nil || eg == nil {
			return nil
		}
		// A: against construction direction unless it is a core segment drawn the other way
		aCons := sh.ltIn == LTCore && r.Bool()
		nA := r.Range(2, 4)
		var chA *Chain
		var liA int
		if aCons { // local is the last AS in construction order
			liA = nA - 1
			chA = chainAround(r, ts, nA, liA, ASHop{Key: c.Key, In: in.ID, Eg: 0, Exp: exp})
		} else { // local is the first AS in construction order (or the cut point of a shortcut)
			liA = 0
			cin := uint16(0)
			if sh.ltIn == LTChild && sh.ltEg == LTChild {
				cin = randIf(r)
			}
			chA = chainAround(r, ts, nA, liA, ASHop{Key: c.Key, In: cin, Eg: in.ID, Exp: exp})
		}
		infA, hopsA := chA.Wire(0, nA-1, aCons, 0)
		// B
		bCons := !(sh.ltEg == LTCore && r.Bool())
		nB := r.Range(2, 4)
		tsB, expB := randTS(r, nowSec), randExp(r)
		var chB *Chain
		var liB int
		if bCons {
			liB = 0
			cin := uint16(0)
			if sh.ltIn == LTChild && sh.ltEg == LTChild {
				cin = randIf(r)
			}
			chB = chainAround(r, tsB, nB, liB, ASHop{Key: c.Key, In: cin, Eg: eg.ID, Exp: expB})
		} else {
			liB = nB - 1
			chB = chainAround(r, tsB, nB, liB, ASHop{Key: c.Key, In: eg.ID, Eg: 0, Exp: expB})
		}
		infB, hopsB := chB.Wire(0, nB-1, bCons, 0)
		var segs []segw
		cur := 0
		third := r.Intn(3)
		if third == 1 {
			segs = append(segs, randSeg(r, nowSec))
			cur = 1
		}
		segs = append(segs, segw{infA, hopsA}, segw{infB, hopsB})
		if third == 2 {
			segs = append(segs, randSeg(r, nowSec))
		}
		if fromSib {
			// the ingress router already crossed over: the packet sits on B's first hop
			sc.Desc = assemble(r, segs, cur+1, 0, c, false, false)
			hf := int(sc.Desc.CurrHF)
			sc.Local = []LocalHop{{Idx: hf, Beta: chB.Beta[liB]}}
			sc.Desc.Infos[cur].SegID = chA.Beta[liA] // as left by the ingress router
			sc.Ing = Ingress{Kind: IngSib, ID: in.Sibling}
			sc.Kind = "xover/egress-router"
		} else {
			sc.Desc = assemble(r, segs, cur, nA-1, c, false, false)
			hf := int(sc.Desc.CurrHF)
			sc.Local = []LocalHop{{Idx: hf, Beta: chA.Beta[liA], Fold: !aCons}, {Idx: hf + 1, Beta: chB.Beta[liB]}}
			sc.Ing = Ingress{Kind: IngExt, ID: int(in.ID)}
		}
	case "peer-out":
		// up segment against construction direction ending with the local peer entry
		fromSib := r.Chance(1, 3)
		var in, peer *Iface
		if fromSib {
			in, peer = c.Pick(r, LTChild, 1, true, 0), c.Pick(r, LTPeer, 0, false, 0)
		} else {
			in, peer = c.Pick(r, LTChild, 0, true, 0), c.Pick(r, LTPeer, -1, false, 0)
		}
		if in == nil || peer == nil {
			return nil
		}
		n := r.Range(2, 4)
		ch := chainAround(r, ts, n, 0, ASHop{Key: c.Key, In: randIf(r), Eg: in.ID, Exp: exp})
		inf, hops := ch.Wire(0, n-1, false, peer.ID)
		other := randSeg(r, nowSec)
		other.inf.Peer, other.inf.ConsDir = true, true
		sc.Desc = assemble(r, []segw{{inf, hops}, other}, 0, n-1, c, false, false)
		sc.Local = []LocalHop{{Idx: n - 1, Beta: ch.Beta[1]}}
		sc.Ing = Ingress{Kind: IngExt, ID: int(in.ID)}
		if fromSib {
			sc.Ing = Ingress{Kind: IngSib, ID: in.Sibling}
		}
	case "peer-in":
		fromSib := r.Chance(1, 3)
		var peer, eg *Iface
		if fromSib {
			peer, eg = c.Pick(r, LTPeer, 1, true, 0), c.Pick(r, LTChild, 0, false, 0)
		} else {
			peer, eg = c.Pick(r, LTPeer, 0, true, 0), c.Pick(r, LTChild, -1, false, 0)
		}
		if peer == nil || eg == nil {
			return nil
		}
		n := r.Range(2, 4)
		ch := chainAround(r, ts, n, 0, ASHop{Key: c.Key, In: randIf(r), Eg: eg.ID, Exp: exp})
		inf, hops := ch.Wire(0, n-1, true, peer.ID)
		other := randSeg(r, nowSec)
		other.inf.Peer, other.inf.ConsDir = true, false
		sc.Desc = assemble(r, []segw{other, {inf, hops}}, 1, 0, c, false, false)
		sc.Local = []LocalHop{{Idx: int(sc.Desc.CurrHF), Beta: ch.Beta[1]}}
		sc.Ing = Ingress{Kind: IngExt, ID: int(peer.ID)}
		if fromSib {
			sc.Ing = Ingress{Kind: IngSib, ID: peer.Sibling}
		}
	case "inbound":
		variant := r.Intn(5)
		if variant == 0 { // directly peered destination AS: single peer entry
			peer := c.Pick(r, LTPeer, 0, true, 0)
			if peer == nil {
				return nil
			}
			ch := chainAround(r, ts, 1, 0, ASHop{Key: c.Key, In: randIf(r), Eg: 0, Exp: exp})
			inf, hops := ch.Wire(0, 0, true, peer.ID)
			other := randSeg(r, nowSec)
			other.inf.Peer, other.inf.ConsDir = true, false
			sc.Desc = assemble(r, []segw{other, {inf, hops}}, 1, 0, c, false, true)
			sc.Local = []LocalHop{{Idx: int(sc.Desc.CurrHF), Beta: ch.Beta[1]}}
			sc.Ing = Ingress{Kind: IngExt, ID: int(peer.ID)}
			sc.Kind = "inbound/peer"
			break
		}
		lt := vgen.Pick(r, LTParent, LTCore)
		if !consDir {
			lt = vgen.Pick(r, LTChild, LTCore)
		}
		in := c.Pick(r, lt, 0, true, 0)
		if in == nil {
			return nil
		}
		n := r.Range(2, 4)
		li := n - 1
		local := ASHop{Key: c.Key, In: in.ID, Eg: 0, Exp: exp}
		if !consDir {
			li = 0
			local = ASHop{Key: c.Key, In: 0, Eg: in.ID, Exp: exp}
		}
		ch := chainAround(r, ts, n, li, local)
		inf, hops := ch.Wire(0, n-1, consDir, 0)
		var segs []segw
		for i := r.Intn(3); i > 0; i-- {
			segs = append(segs, randSeg(r, nowSec))
		}
		segs = append(segs, segw{inf, hops})
		sc.Desc = assemble(r, segs, len(segs)-1, n-1, c, false, true)
		sc.Local = []LocalHop{{Idx: int(sc.Desc.CurrHF), Beta: ch.Beta[li], Fold: !consDir}}
		sc.Ing = Ingress{Kind: IngExt, ID: int(in.ID)}
	case "spoof-sameseg", "spoof-afterxover":
		// Transit spoofing from inside the AS: a genuine hop field of the local AS that starts
		// (or, against construction direction, ends) a segment, i.e. whose ingress-side
		// interface is 0, placed at a position that is NOT the first hop of the path, sent over
		// the internal network (or a sibling link) with a foreign SrcIA.
		lt := vgen.Pick(r, LTCore, LTChild)
		if !consDir {
			lt = vgen.Pick(r, LTCore, LTParent)
		}
		eg := c.Pick(r, lt, 0, false, 0)
		if eg == nil {
			return nil
		}
		n := r.Range(2, 4)
		li := 0
		local := ASHop{Key: c.Key, In: 0, Eg: eg.ID, Exp: exp}
		if !consDir {
			li = n - 1
			local = ASHop{Key: c.Key, In: eg.ID, Eg: 0, Exp: exp}
		}
		ch := chainAround(r, ts, n, li, local)
		inf, hops := ch.Wire(0, n-1, consDir, 0)
		garbage := func(zero bool) Hop {
			h := Hop{ConsIngress: randIf(r), ConsEgress: randIf(r), ExpTime: randExp(r)}
			if zero {
				h.ConsIngress, h.ConsEgress = 0, 0
			}
			copy(h.Mac[:], r.Bytes(6))
			return h
		}
		if kind == "spoof-sameseg" {
			hops = append([]Hop{garbage(false)}, hops...)
			sc.Desc = assemble(r, []segw{{inf, hops}}, 0, 1, c, false, false)
		} else {
			pre := segw{Info{ConsDir: r.Bool(), SegID: uint16(r.U64()), Timestamp: ts}, []Hop{garbage(false), garbage(true)}}
			sc.Desc = assemble(r, []segw{pre, {inf, hops}}, 1, 0, c, false, false)
		}
		sc.Local = []LocalHop{{Idx: int(sc.Desc.CurrHF), Beta: ch.Beta[li]}}
		sc.Ing = Ingress{Kind: IngInt}
		if r.Chance(1, 3) {
			sc.Ing = Ingress{Kind: IngSib, ID: r.Range(1, 2)}
		}
	default:
		panic("rtgen: unknown kind " + kind)
	}
	if consDirOf(sc) {
		sc.Kind += "/cons"
	} else {
		sc.Kind += "/noncons"
	}
	sc.Remac(c)
	return sc
}

func consDirOf(sc *Scenario) bool {
	d := sc.Desc
	return d.Infos[d.CurrINF].ConsDir
}

// expireTS is a timestamp for which a hop with ExpTime exp expired at least
// MarginSec (+ up to spread) seconds ago.
func expireTS(r *vgen.Rand, nowSec int64, exp uint8, spread int) uint32 {
	life := (int64(exp) + 1) * expUnitMs / 1000
	return uint32(nowSec - life - MarginSec - 1 - int64(r.Intn(spread+1)))
}

// Mutations lists the mutation names Mutate understands.
var Mutations = []string{
	"segid", "timestamp", "exptime", "consingress", "consegress", "mac", "mac-next", "key",
	"expired", "expired-next", "barely-valid", "currhf", "currinf", "srcia", "dstia", "srchost",
	"dsthost", "ingress", "paylen", "rsv", "alert", "peerflag", "consdir", "l4",
}

// Mutate applies one mutation (random if what == "") to the scenario in place
// and returns its name. Mutations that keep the local MACs valid re-MAC them.
func Mutate(r *vgen.Rand, sc *Scenario, c *Config, nowSec int64, what string) string {
	if what == "" {
		what = vgen.Pick(r, Mutations...)
	}
	d := sc.Desc
	ci, ch := int(d.CurrINF), int(d.CurrHF)
	if ci >= len(d.Infos) {
		ci = len(d.Infos) - 1
	}
	if ch >= len(d.Hops) {
		ch = len(d.Hops) - 1
	}
	inf := &d.Infos[ci]
	hop := &d.Hops[ch]
	// another interface id: preferably one that differs from the current value only in the high
	// byte (configured if there is one), else any configured id, 0, 0xFFFF or a random one
	otherIf := func(not uint16) uint16 {
		for {
			var id uint16
			switch r.Intn(8) {
			case 0:
				id = randIf(r)
			case 1:
				id = 0
			case 2:
				id = 0xFFFF
			case 3, 4:
				var cands []uint16
				for _, f := range c.Ifaces {
					if f.ID != not && f.ID&0xff == not&0xff {
						cands = append(cands, f.ID)
					}
				}
				if len(cands) > 0 {
					id = cands[r.Intn(len(cands))]
				} else {
					id = not ^ uint16(r.Range(1, 255))<<8
				}
			case 5:
				id = not ^ uint16(r.Range(1, 255))<<8 // same low byte, other high byte
			default:
				id = c.Ifaces[r.Intn(len(c.Ifaces))].ID
			}
			if id != not {
				return id
			}
		}
	}
	switch what {
	case "segid":
		inf.SegID ^= uint16(1 + r.Intn(65535))
	case "timestamp":
		inf.Timestamp += uint32(1 + r.Intn(20))
	case "exptime":
		hop.ExpTime = uint8(int(hop.ExpTime) + 1 + r.Intn(40)) // wraps; stays far from expiry unless it wraps low
		if int64(inf.Timestamp)+(int64(hop.ExpTime)+1)*expUnitMs/1000 < nowSec+MarginSec {
			hop.ExpTime = 255
		}
	case "consingress":
		hop.ConsIngress = otherIf(hop.ConsIngress)
	case "consegress":
		hop.ConsEgress = otherIf(hop.ConsEgress)
	case "mac":
		hop.Mac[r.Intn(6)] ^= byte(1 + r.Intn(255))
	case "mac-next":
		if ch+1 < len(d.Hops) {
			d.Hops[ch+1].Mac[r.Intn(6)] ^= byte(1 + r.Intn(255))
		} else {
			hop.Mac[5] ^= 1
		}
	case "key":
		k := int(d.InfIndexForHF(uint8(ch)))
		*hop = withMac(*hop, MAC(randKey(r), d.Infos[k].SegID, d.Infos[k].Timestamp, hop.ExpTime,
			hop.ConsIngress, hop.ConsEgress))
	case "expired":
		inf.Timestamp = expireTS(r, nowSec, hop.ExpTime, 5000)
		sc.Remac(c)
	case "expired-next":
		if ch+1 < len(d.Hops) {
			k := int(d.InfIndexForHF(uint8(ch + 1)))
			d.Infos[k].Timestamp = expireTS(r, nowSec, d.Hops[ch+1].ExpTime, 5000)
		} else {
			inf.Timestamp = expireTS(r, nowSec, hop.ExpTime, 5000)
		}
		sc.Remac(c)
	case "barely-valid":
		// expiry MarginSec..MarginSec+60 s in the future
		life := (int64(hop.ExpTime) + 1) * expUnitMs / 1000
		inf.Timestamp = uint32(nowSec - life + MarginSec + 1 + int64(r.Intn(60)))
		sc.Remac(c)
	case "currhf":
		d.CurrHF = uint8(r.Intn(len(d.Hops) + 2))
		if r.Chance(1, 6) {
			d.CurrHF = 63
		}
		if r.Bool() {
			d.CurrINF = d.InfIndexForHF(d.CurrHF)
		}
	case "currinf":
		d.CurrINF = uint8((ci + 1 + r.Intn(3)) % 4)
	case "srcia":
		d.SrcIA = vgen.Pick(r, c.IA, randIA(r, 0), c.Ifaces[0].Nbr)
	case "dstia":
		d.DstIA = vgen.Pick(r, c.IA, randIA(r, 0), c.Ifaces[0].Nbr)
	case "srchost", "dsthost":
		var h Host
		switch r.Intn(6) {
		case 0:
			h = HostSVC(vgen.Pick(r, addr.SvcCS, addr.SvcDS, addr.SvcWildcard, addr.SvcCS.Multicast(), addr.SVC(0x7777)))
		case 1:
			h = Host{Type: 3, Raw: append(append(make([]byte, 10), 0xff, 0xff), r.Bytes(4)...)} // v4-in-v6
		case 2:
			h = Host{Type: 0, Raw: make([]byte, 4)} // unspecified
			if r.Bool() {
				h = Host{Type: 3, Raw: make([]byte, 16)}
			}
		case 3:
			h = HostRaw(uint8(vgen.Pick(r, 1, 2, 5, 6, 7, 8, 11, 12, 15)), r.Bytes(16)) // unsupported type/length
		default:
			h = randHost(r)
		}
		if what == "srchost" {
			d.Src = h
			if r.Bool() {
				d.SrcIA = c.IA
			}
		} else {
			d.Dst = h
			if r.Bool() {
				d.DstIA = c.IA
			}
		}
	case "ingress":
		for {
			var n Ingress
			switch r.Intn(4) {
			case 0:
				n = Ingress{Kind: IngInt}
			case 1:
				n = Ingress{Kind: IngSib, ID: r.Range(1, 2)}
			default:
				f := c.Ifaces[r.Intn(len(c.Ifaces))]
				if f.Sibling != 0 {
					continue
				}
				n = Ingress{Kind: IngExt, ID: int(f.ID)}
			}
			if n != sc.Ing {
				sc.Ing = n
				break
			}
		}
	case "paylen":
		d.PayloadLenDelta = vgen.Pick(r, -1, 1, 4, -4, 100)
		_, pl := d.Payload()
		if len(pl)+d.PayloadLenDelta < 0 {
			d.PayloadLenDelta = 1
		}
	case "rsv":
		switch r.Intn(4) {
		case 0:
			d.MetaRsv = uint8(1 + r.Intn(63))
		case 1:
			inf.Rsv = uint16(r.Intn(64))<<10 | uint16(r.Intn(256))
			if inf.Rsv == 0 {
				inf.Rsv = 1
			}
		case 2:
			hop.Rsv = uint8(1+r.Intn(63)) << 2
		default:
			d.MetaRsv = uint8(1 + r.Intn(63))
			for i := range d.Infos {
				d.Infos[i].Rsv = uint16(1 + r.Intn(255))
			}
		}
	case "alert":
		h := hop
		if r.Chance(1, 4) && ch+1 < len(d.Hops) {
			h = &d.Hops[ch+1]
		}
		switch r.Intn(3) {
		case 0:
			h.IngressAlert = true
		case 1:
			h.EgressAlert = true
		default:
			h.IngressAlert, h.EgressAlert = true, true
		}
	case "peerflag":
		inf.Peer = !inf.Peer
	case "consdir":
		inf.ConsDir = !inf.ConsDir
	case "l4":
		switch r.Intn(4) {
		case 0:
			d.L4 = L4{Proto: 17, Bytes: r.Bytes(r.Intn(8)), Name: "udp-short"}
		case 1:
			d.L4 = L4{Proto: 6, Bytes: r.Bytes(r.Intn(20)), Name: "tcp-short"}
		case 2:
			d.L4 = L4{Proto: 202, Bytes: append([]byte{vgen.Pick(r, byte(129), byte(131)), 0}, r.Bytes(r.Intn(6))...), Name: "scmp-short"}
		default:
			d.L4 = L4{Proto: 202, Bytes: r.Bytes(r.Intn(4)), Name: "scmp-trunc"}
		}
	default:
		panic("rtgen: unknown mutation " + what)
	}
	sc.Mut = what
	return what
}

func withMac(h Hop, m [6]byte) Hop { h.Mac = m; return h }

func (s *Scenario) String() string {
	return fmt.Sprintf("%s ing=%s mut=%s", s.Kind, s.Ing, s.Mut)
}
