// Package rtgen is the shared harness of the border-router properties
// (C01, C05, C06, C07 now; meant to be reused for C02-C04, C08-C13, C15).
// It drives the REAL router (package router, build tag verif, hooks in
// /repo/router/export_verif.go) on single packets and prints the cases as
// Gallina terms for coq/theories/Model/Router.v.
//
// # API overview
//
// Configuration (config.go)
//
//	Config{IA, Key, LocalHost, Ifaces []Iface, SiblingDown, Svcs, PortLo, PortHi, SCMPAuth}
//	Iface{ID, LT (0 unset,1 core,2 parent,3 child,4 peer), Nbr, Sibling (0 = own external
//	      interface, k>0 = owned by sibling router k), Up}
//	(*Config).Build() (*Router, error)      real dataPlane with fake links (no sockets)
//	(*Config).Gallina() string              Router.mkCfg term
//	(*Config).MAC(info, hop) [6]byte        hop-field MAC under the AS key
//	MAC(key, segid, ts, exp, in, eg)        same for any key. These are the REFERENCE MAC (refmac.go:
//	                                        documented input block + own AES-CMAC), not path.MAC;
//	                                        RefMACInput/RefFullMAC/RefCMAC, ImplMACInput/ImplFullMAC (code under test)
//	Link ids: LinkInternal (0), external link = interface id, LinkSibling(k) = 0x10000+k.
//	Ingress{Kind: IngExt|IngSib|IngInt, ID}  + (Ingress).Link() / .Gallina()
//
// Packet description (packet.go): a wire-level abstract packet
//
//	Desc{Infos []Info, SegLen [3]uint8, Hops []Hop, CurrINF, CurrHF, MetaRsv,
//	     SrcIA, DstIA, Src, Dst Host, TC, FlowID, HBH, E2E []Opt (nil = header absent),
//	     L4 L4, PayloadLenDelta}
//	Info{Peer, ConsDir, SegID, Timestamp, Rsv}; Hop{ConsIngress, ConsEgress, ExpTime,
//	     IngressAlert, EgressAlert, Mac, Rsv}
//	Host{Type (slayers 4-bit type/len code), Raw}; HostIP4/HostIP/HostSVC/HostRaw helpers
//	L4{Proto, Bytes} with UDP/TCP/SCMPEcho/SCMPTraceroute/RawL4 constructors;
//	     (L4).DstPort() = what dataPlane.dstScionPort must return (ok=false: error)
//	(*Desc).Serialize() ([]byte, error)      real slayers serializer (+ patches for reserved
//	                                         bits / inconsistent meta headers / PayloadLen)
//	Parse(raw) (*Rec, error)                 independent minimal parser of the SCION header
//	                                         (fixed offsets only; no slayers) -> the record
//	                                         handed to the Coq model
//	(*Rec).Gallina(port, ok) string           Router.mkPkt term
//
// Beta chains (chain.go): segments in construction order with per-AS keys
//
//	NewChain(ts, beta0, []ASHop{Key, In, Eg, Exp}) *Chain ; c.Beta[i], c.Mac[i]
//	c.PeerMac(i, peerIf)                     MAC of AS i's peer entry (chained on Beta[i+1])
//	c.Wire(from, to, consDir, peerIf)        info + hop fields in traversal order with the
//	                                         SegID the segment has before it is traversed
//	WireSegID(...)                           SegID on the wire when the packet is at AS i
//
// Single-router generator (gen.go)
//
//	GenConfig(r) *Config                     random consistent link-type configuration (own external
//	                                         interfaces of every link type, two sibling routers,
//	                                         some links down, service backends)
//	GenValid(r, cfg, nowSec, kind) *Scenario valid-by-construction packet; kind in Kinds ("first-hop",
//	                                         "transit", "xover" (as ingress or as egress router),
//	                                         "peer-out", "peer-in", "inbound") or AttackKinds
//	                                         ("spoof-sameseg", "spoof-afterxover": transit spoofing
//	                                         from inside the AS, must NOT be accepted); "" = random.
//	                                         Scenario{Desc, Ing, Kind, Local []LocalHop, Mut, Cell}
//	(*Scenario).Remac(cfg)                   recompute MAC + wire SegID of the local hop fields
//	Mutate(r, sc, cfg, nowSec, what) string  one mutation (Mutations lists the names): SegID,
//	                                         timestamp, ExpTime, ConsIngress/ConsEgress, MAC bytes of the
//	                                         current / next hop, foreign key, expired / barely valid hop
//	                                         with a correct MAC, CurrINF/CurrHF, SrcIA/DstIA, hosts,
//	                                         ingress link, payload length, reserved bits, alert flags,
//	                                         peer / cons-dir flag, truncated L4
//	All expiry times are kept >= MarginSec seconds away from `now` on either side because
//	the router reads time.Now() itself.
//
// Exhaustive link-type table (table.go): TableConfig, TableCase, Table(x, stream), TableCell.
//
// Execution (exec.go, runner.go)
//
//	(*Router).Run(raw, ingress) (Obs, error) VerifProcess on the real dataplane; Obs{NowNs, Res, In,
//	                                         Out (parsed records), Changed (byte diff), InLen, OutLen}
//	(*Router).RunOn(proc, raw, ingress)      same on a REUSED processor (router.VerifNewProcessor)
//	(*Ctx).EmitSeq(stream, name, rt, scs)    a sequence back to back on one reused processor, each packet an
//	                                         ordinary case; TamperMAC(sc, bit); (*Ctx).Pairs(stream, nCfg, n, kinds)
//	(*Obs).Class()                           coarse outcome label ("forward-external", "scmp-4-51", ...)
//	CaseTerm(cfgName, cfg, ing, l4, obs)     Gallina `let p := <pkt> in Router.CPkt ...` incl. the MAC
//	                                         table (every MAC the model may query, real key)
//	Consts()                                 Go constants in the order of Router.const_value
//	Main(prop, checkFn, rule, body)          the runner pattern (cases of type Router.case);
//	MainX(...)                               same with Router.xcase: each packet case is followed by a
//	                                         mac-layout case (used by cmd/c01,c05,c06,c07):
//	                                         Ctx{Run, Rng, Now, Tagger, NonTrivial, After},
//	                                         x.AddConfig(cfg) (name, *Router), x.Emit(stream, name, rt, sc),
//	                                         x.RandomStreams(nCfg, nValid, nMut, kinds, muts), x.ConstCases()
//
// A later builder adds a property by writing cmd/cNN/main.go that calls Main with its own
// check function (Router.check_with <oracle>) and streams, and extends Model/Router.v.
package rtgen
