// Package rtgen is the shared harness of the border-router properties
// (C01, C05, C06, C07 now; meant to be reused for C02-C04, C08-C13, C15).
// It drives the REAL router (package router, build tag verif, hooks in
// /repo/router/export_verif.go) on single packets and prints the cases as
// Gallina terms for coq/theories/Model/Router.v.
//
// # API overview
//
// Configuration (config.go)
//
//	Config{IA, Key, LocalHost, Ifaces []Iface, SiblingDown, Svcs, PortLo, PortHi, SCMPAuth}
//	Iface{ID, LT (0 unset,1 core,2 parent,3 child,4 peer), Nbr, Sibling (0 = own external
//	      interface, k>0 = owned by sibling router k), Up}
//	(*Config).Build() (*Router, error)      real dataPlane with fake links (no sockets)
//	(*Config).Gallina() string              Router.mkCfg term
//	(*Config).MAC(info, hop) [6]byte        hop-field MAC under the AS key (real path.MAC)
//	MAC(key, segid, ts, exp, in, eg)        same for any key
//	Link ids: LinkInternal (0), external link = interface id, LinkSibling(k) = 0x10000+k.
//	Ingress{Kind: IngExt|IngSib|IngInt, ID}  + (Ingress).Link() / .Gallina()
//
// Packet description (packet.go): a wire-level abstract packet
//
//	Desc{Infos []Info, SegLen [3]uint8, Hops []Hop, CurrINF, CurrHF, MetaRsv,
//	     SrcIA, DstIA, Src, Dst Host, TC, FlowID, HBH, E2E []Opt (nil = header absent),
//	     L4 L4, PayloadLenDelta}
//	Info{Peer, ConsDir, SegID, Timestamp, Rsv}; Hop{ConsIngress, ConsEgress, ExpTime,
//	     IngressAlert, EgressAlert, Mac, Rsv}
//	Host{Type (slayers 4-bit type/len code), Raw}; HostIP4/HostIP6/HostSVC/HostRaw helpers
//	L4{Proto, Bytes} with UDP/TCP/SCMPEcho/SCMPTraceroute/RawL4 constructors;
//	     (L4).DstPort() = what dataPlane.dstScionPort must return (ok=false: error)
//	(*Desc).Serialize() ([]byte, error)      real slayers serializer (+ patches for reserved
//	                                         bits / inconsistent meta headers / PayloadLen)
//	Parse(raw) (*Rec, error)                 independent minimal parser of the SCION header
//	                                         (fixed offsets only; no slayers) -> the record
//	                                         handed to the Coq model
//	(*Rec).Gallina(l4port) string            Router.mkPkt term
//
// Beta chains (chain.go): segments in construction order with per-AS keys
//
//	NewChain(ts, beta0, []ASHop{Key, In, Eg, Exp}) *Chain ; c.Beta[i], c.Mac[i]
//	c.PeerMac(i, peerIf)                     MAC of AS i's peer entry (chained on Beta[i+1])
//	c.Wire(from, to, consDir, peerIf)        info + hop fields in traversal order with the
//	                                         SegID the segment has before it is traversed
//	WireSegID(...)                           SegID on the wire when the packet is at AS i
//
// Single-router generator (gen.go)
//
//	GenConfig(r, opts) *Config               random consistent link-type configuration
//	GenValid(r, cfg, now) *Scenario          valid-by-construction packet at a random position
//	                                         kind (first hop from inside, transit, cross-over,
//	                                         peering, last hop inbound; both directions; every
//	                                         ingress kind), Scenario{Desc, Ingress, Kind, ...}
//	Mutate(r, sc, cfg) (what string)         one mutation of SegID, timestamp, ExpTime,
//	                                         ConsIngress/ConsEgress, MAC bytes, CurrINF/CurrHF,
//	                                         SrcIA/DstIA, hosts, ingress link, expiry vs now,
//	                                         reserved bits, payload length, alerts, BFD state
//	All expiry times are kept >= MarginSec seconds away from `now` on either side because
//	the router reads time.Now() itself.
//
// Execution (exec.go)
//
//	(*Router).Run(raw, ingress) Obs          VerifProcess on the real dataplane + time.Now()
//	                                         bracket, byte diff, parsed output record
//	CaseTerm(cfgName, cfg, sc/desc, obs)     Gallina `Router.CPkt ...` incl. the MAC table
//	                                         (every MAC the model may query, real key)
//	ConstCases()                             `Router.CConst k v` for the Go constants
//	Main(prop, checkFn, streams)             the runner pattern shared by cmd/c01,c05,c06,c07
package rtgen
