package rtgen

import "encoding/binary"

// ASHop is one AS of a segment, in construction order.
type ASHop struct {
	Key    []byte
	In, Eg uint16 // ConsIngress / ConsEgress of the regular hop entry
	Exp    uint8
}

// Chain is a path segment in construction order with its beta chain:
// Beta[0] = initial SegID, Mac[i] = MAC_{Key_i}(Beta[i], TS, Exp_i, In_i, Eg_i),
// Beta[i+1] = Beta[i] xor Mac[i][0:2].
type Chain struct {
	TS   uint32
	Hops []ASHop
	Beta []uint16
	Mac  [][6]byte
}

func NewChain(ts uint32, beta0 uint16, hops []ASHop) *Chain {
	c := &Chain{TS: ts, Hops: hops, Beta: []uint16{beta0}}
	for i, h := range hops {
		m := MAC(h.Key, c.Beta[i], ts, h.Exp, h.In, h.Eg)
		c.Mac = append(c.Mac, m)
		c.Beta = append(c.Beta, c.Beta[i]^binary.BigEndian.Uint16(m[:2]))
	}
	return c
}

// PeerMac is the MAC of AS i's peer entry with peering interface peerIf: it is
// chained on Beta[i+1] (the accumulator after the AS's regular entry) and keeps
// the regular entry's egress.
func (c *Chain) PeerMac(i int, peerIf uint16) [6]byte {
	h := c.Hops[i]
	return MAC(h.Key, c.Beta[i+1], c.TS, h.Exp, peerIf, h.Eg)
}

// Wire returns the info field and the hop fields (in traversal order) of the
// part of the chain between construction-order indices from..to (inclusive,
// from <= to), traversed in construction direction or against it, with the
// SegID the segment carries BEFORE it is traversed. peerIf != 0 makes the hop at
// index `from` the peer entry (peering segment; Peer flag set).
func (c *Chain) Wire(from, to int, consDir bool, peerIf uint16) (Info, []Hop) {
	var hops []Hop
	for i := from; i <= to; i++ {
		h := c.Hops[i]
		w := Hop{ConsIngress: h.In, ConsEgress: h.Eg, ExpTime: h.Exp, Mac: c.Mac[i]}
		if i == from && peerIf != 0 {
			w.ConsIngress = peerIf
			w.Mac = c.PeerMac(i, peerIf)
		}
		hops = append(hops, w)
	}
	inf := Info{ConsDir: consDir, Peer: peerIf != 0, Timestamp: c.TS}
	if consDir {
		inf.SegID = c.Beta[from]
		if peerIf != 0 {
			inf.SegID = c.Beta[from+1]
		}
	} else {
		// reversed: the first AS traversed is `to`; a router that receives the packet
		// from inside the AS verifies with the SegID as is
		for l, r := 0, len(hops)-1; l < r; l, r = l+1, r-1 {
			hops[l], hops[r] = hops[r], hops[l]
		}
		inf.SegID = c.Beta[to]
		if peerIf != 0 && from == to {
			inf.SegID = c.Beta[from+1]
		}
	}
	return inf, hops
}

// WireSegID is the SegID the info field carries when the packet ARRIVES at the
// router of AS i (construction-order index) that processes it:
// fromExternal says whether it arrives over an external link (then, against
// construction direction, the router itself folds Mac[i] in), peerHop whether
// the hop in question is the peer entry of a peering segment.
func (c *Chain) WireSegID(i int, consDir, fromExternal, peerHop bool) uint16 {
	switch {
	case peerHop:
		return c.Beta[i+1]
	case consDir:
		return c.Beta[i]
	case fromExternal:
		return c.Beta[i+1]
	}
	return c.Beta[i]
}
