package rtgen

import (
	"fmt"
	"net/netip"
	"sort"
	"strings"

	"github.com/scionproto/scion/pkg/addr"
	"github.com/scionproto/scion/private/topology"
	"github.com/scionproto/scion/router"

	"verifharness/internal/vgen"
)

// Link types (topology.LinkType numbering).
const (
	LTUnset  = 0
	LTCore   = 1
	LTParent = 2
	LTChild  = 3
	LTPeer   = 4
)

var LTNames = []string{"Unset", "Core", "Parent", "Child", "Peer"}

// Iface is one interface id of the AS as seen by the router under test.
type Iface struct {
	ID      uint16
	LT      int
	Nbr     addr.IA
	Sibling int // 0: own external interface; k>0: owned by sibling router k
	Up      bool
}

// Svc is one service backend (at most one per service in generated configs).
type Svc struct {
	SVC  addr.SVC
	Addr netip.AddrPort
}

// Config is a router configuration.
type Config struct {
	IA          addr.IA
	Key         []byte
	LocalHost   netip.Addr
	Ifaces      []Iface
	SiblingDown map[int]bool
	Svcs        []Svc
	PortLo      uint16
	PortHi      uint16
	SCMPAuth    bool
}

// Link ids.
const LinkInternal = 0

func LinkSibling(k int) int { return router.VerifSiblingBase + k }

// Ingress kinds.
const (
	IngExt = iota
	IngSib
	IngInt
)

// Ingress names the link a packet arrives on.
type Ingress struct {
	Kind int
	ID   int // interface id (IngExt) or sibling number (IngSib)
}

func (i Ingress) Link() int {
	switch i.Kind {
	case IngExt:
		return i.ID
	case IngSib:
		return LinkSibling(i.ID)
	}
	return LinkInternal
}

func (i Ingress) Gallina() string {
	switch i.Kind {
	case IngExt:
		return vgen.App("Router.InExt", vgen.N(uint64(i.ID)))
	case IngSib:
		return vgen.App("Router.InSib", vgen.N(uint64(i.ID)))
	}
	return "Router.InInt"
}

func (i Ingress) String() string {
	switch i.Kind {
	case IngExt:
		return fmt.Sprintf("ext%d", i.ID)
	case IngSib:
		return fmt.Sprintf("sib%d", i.ID)
	}
	return "int"
}

// Iface returns the configured interface with the given id.
func (c *Config) Iface(id uint16) *Iface {
	for i := range c.Ifaces {
		if c.Ifaces[i].ID == id {
			return &c.Ifaces[i]
		}
	}
	return nil
}

// Router is a built dataplane.
type Router struct {
	Cfg *Config
	DP  *router.VerifDataPlane
}

// Build creates the real dataPlane (fake links, no sockets).
func (c *Config) Build() (*Router, error) {
	vc := router.VerifConfig{
		LocalIA: c.IA, Key: c.Key, LocalHost: c.LocalHost, SiblingDown: c.SiblingDown,
		PortStart: c.PortLo, PortEnd: c.PortHi, SCMPAuth: c.SCMPAuth,
	}
	for _, i := range c.Ifaces {
		vc.Ifaces = append(vc.Ifaces, router.VerifIface{IfID: i.ID, LinkTo: topology.LinkType(i.LT),
			Neighbor: i.Nbr, Sibling: i.Sibling, Up: i.Up})
	}
	for _, s := range c.Svcs {
		vc.Svcs = append(vc.Svcs, router.VerifSvc{SVC: s.SVC, Addr: s.Addr})
	}
	dp, err := router.VerifNewDataPlane(vc)
	if err != nil {
		return nil, err
	}
	return &Router{Cfg: c, DP: dp}, nil
}

// MAC computes the MAC of hop under this AS's key for the SegID/timestamp of info.
func (c *Config) MAC(info Info, hop Hop) [6]byte {
	return MAC(c.Key, info.SegID, info.Timestamp, hop.ExpTime, hop.ConsIngress, hop.ConsEgress)
}

func ipBytes(a netip.Addr) []byte { return a.AsSlice() }

// Gallina prints the Router.cfg term.
func (c *Config) Gallina() string {
	ifs := make([]Iface, len(c.Ifaces))
	copy(ifs, c.Ifaces)
	var fs []string
	for _, i := range ifs {
		scope, link, up := "Router.External", uint64(i.ID), i.Up
		if i.Sibling != 0 {
			scope, link, up = "Router.Sibling", uint64(LinkSibling(i.Sibling)), !c.SiblingDown[i.Sibling]
		}
		fs = append(fs, vgen.App("Router.mkIf", vgen.N(uint64(i.ID)), scope, "Router."+LTNames[i.LT],
			vgen.N(uint64(i.Nbr)), vgen.B(up), vgen.N(link)))
	}
	svcs := make([]Svc, len(c.Svcs))
	copy(svcs, c.Svcs)
	sort.Slice(svcs, func(a, b int) bool { return svcs[a].SVC < svcs[b].SVC })
	var ss []string
	for _, s := range svcs {
		ss = append(ss, vgen.Pair(vgen.N(uint64(s.SVC.Base())),
			vgen.Pair(vgen.Bytes(ipBytes(s.Addr.Addr())), vgen.N(uint64(s.Addr.Port())))))
	}
	return vgen.App("Router.mkCfg", vgen.N(uint64(c.IA)), vgen.List(fs), vgen.List(ss),
		vgen.Bytes(ipBytes(c.LocalHost)), vgen.N(uint64(c.PortLo)), vgen.N(uint64(c.PortHi)),
		vgen.B(c.SCMPAuth))
}

// Describe is the readable form used in cases.jsonl.
func (c *Config) Describe() string {
	var sb strings.Builder
	fmt.Fprintf(&sb, "ia=%s", c.IA)
	for _, i := range c.Ifaces {
		own := "ext"
		if i.Sibling != 0 {
			own = fmt.Sprintf("sib%d", i.Sibling)
		}
		fmt.Fprintf(&sb, " %d:%s/%s/up=%v", i.ID, LTNames[i.LT], own, i.Up)
	}
	return sb.String()
}
