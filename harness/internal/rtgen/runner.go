package rtgen

import (
	"fmt"
	"os"
	"strings"
	"time"

	"verifharness/internal/vgen"
)

// Ctx is the state of one runner invocation shared by the streams.
type Ctx struct {
	Run  *vgen.Run
	Rng  *vgen.Rand
	Now  int64 // seconds, sampled once at start (timestamps are generated relative to it)
	cfgs []string
	// X: cases are wrapped in Router.xcase and every packet case is followed by a mac-layout
	// case (set by MainX).
	X bool
	// Tagger computes known-finding tags from the input of a case (may be nil).
	Tagger func(c *Config, sc *Scenario, in *Rec) []string
	// NonTrivial decides whether a case reached the decision the property is about.
	NonTrivial func(sc *Scenario, o *Obs) bool
	// After is called with the id of every executed case (Go-side oracles, extra tallies).
	After func(id int, sc *Scenario, o *Obs, desc map[string]any)
}

// AddConfig registers a configuration; cases refer to it by the returned name
// (the definitions go into the prelude of every shard).
func (x *Ctx) AddConfig(c *Config) (string, *Router) {
	name := fmt.Sprintf("cfg_%d", len(x.cfgs))
	x.cfgs = append(x.cfgs, fmt.Sprintf("Definition %s : Router.cfg := %s.", name, c.Gallina()))
	rt, err := c.Build()
	if err != nil {
		fmt.Fprintln(os.Stderr, "rtgen: cannot build dataplane:", err)
		os.Exit(3)
	}
	return name, rt
}

// Emit serializes the scenario, runs it through the real router (unless -only
// deselects the case) and registers the case; in X mode a mac-layout case for the current hop
// field of the scenario follows (it compares path.MACInput / path.FullMAC, the code under test,
// with the documented layout and the independent reference MAC).
func (x *Ctx) Emit(stream string, cfgName string, rt *Router, sc *Scenario) {
	x.emitPkt(stream, cfgName, rt, sc)
	if x.X {
		x.emitLayout(rt.Cfg, sc)
	}
}

func (x *Ctx) wrap(term string) string {
	if x.X {
		return "(Router.XCase " + term + ")"
	}
	return term
}

func w64(b []byte) uint64 {
	var v uint64
	for _, c := range b {
		v = v<<8 | uint64(c)
	}
	return v
}

// emitLayout registers the mac-layout case of the scenario's current hop field.
func (x *Ctx) emitLayout(c *Config, sc *Scenario) {
	run := x.Run
	if !run.Want() {
		run.Skip()
		return
	}
	d := sc.Desc
	hf := int(d.CurrHF)
	if hf >= len(d.Hops) {
		hf = len(d.Hops) - 1
	}
	ci := int(d.InfIndexForHF(uint8(hf)))
	if ci >= len(d.Infos) {
		ci = len(d.Infos) - 1
	}
	h, inf := d.Hops[hf], d.Infos[ci]
	blk := ImplMACInput(inf.SegID, inf.Timestamp, h.ExpTime, h.ConsIngress, h.ConsEgress)
	ref := RefFullMAC(c.Key, inf.SegID, inf.Timestamp, h.ExpTime, h.ConsIngress, h.ConsEgress)
	impl := ImplFullMAC(c.Key, inf.SegID, inf.Timestamp, h.ExpTime, h.ConsIngress, h.ConsEgress)
	term := vgen.App("Router.XMacLayout", vgen.N(uint64(inf.SegID)), vgen.N(uint64(inf.Timestamp)),
		vgen.N(uint64(h.ExpTime)), vgen.N(uint64(h.ConsIngress)), vgen.N(uint64(h.ConsEgress)),
		vgen.N(w64(blk[:8])), vgen.N(w64(blk[8:])), vgen.N(w64(ref[:8])), vgen.N(w64(ref[8:])),
		vgen.N(w64(impl[:8])), vgen.N(w64(impl[8:])))
	same := blk == RefMACInput(inf.SegID, inf.Timestamp, h.ExpTime, h.ConsIngress, h.ConsEgress) && ref == impl
	if !same {
		run.Tally("mac-layout:DIFFERS")
	}
	if h.ConsIngress>>8 != h.ConsEgress>>8 {
		run.Tally("mac-layout:interface ids with different high bytes")
	}
	run.Add("mac-layout", term, fmt.Sprintf("%x|%d|%d|%d|%d|%d", c.Key, inf.SegID, inf.Timestamp, h.ExpTime,
		h.ConsIngress, h.ConsEgress), false,
		map[string]any{"segid": inf.SegID, "timestamp": inf.Timestamp, "exptime": h.ExpTime,
			"cons_ingress": h.ConsIngress, "cons_egress": h.ConsEgress,
			"path.MACInput": fmt.Sprintf("%x", blk), "reference_mac": fmt.Sprintf("%x", ref),
			"path.FullMAC": fmt.Sprintf("%x", impl), "same": same})
}

func (x *Ctx) emitPkt(stream string, cfgName string, rt *Router, sc *Scenario) {
	if !x.Run.Want() {
		x.Run.Skip()
		return
	}
	raw, err := sc.Desc.Serialize()
	if err != nil {
		// not expressible: count it, keep the id stable
		x.Run.Tally("unserializable")
		x.Run.Skip()
		return
	}
	o, err := rt.Run(raw, sc.Ing)
	x.emitObs(stream, cfgName, rt, sc, raw, o, err)
}

// EmitSeq processes the scenarios back to back on ONE reused packet processor (as
// runProcessor does with the packets of a queue) and registers each of them as an ordinary
// packet case: the model is stateless, so the result for a packet must be the single-packet
// verdict whatever the processor saw before. The whole sequence is always executed (a case
// selected with -only needs its predecessors).
func (x *Ctx) EmitSeq(stream string, cfgName string, rt *Router, scs []*Scenario) {
	proc := rt.DP.VerifNewProcessor()
	for _, sc := range scs {
		raw, err := sc.Desc.Serialize()
		var o Obs
		if err == nil {
			o, err = rt.RunOn(proc, raw, sc.Ing)
		} else {
			raw = nil
		}
		if !x.Run.Want() {
			x.Run.Skip()
		} else if raw == nil {
			x.Run.Tally("unserializable")
			x.Run.Skip()
		} else {
			x.emitObs(stream, cfgName, rt, sc, raw, o, err)
		}
		if x.X {
			x.emitLayout(rt.Cfg, sc)
		}
	}
}

// TamperMAC returns a copy of the scenario whose current hop field has MAC bit `bit` (0 = most
// significant bit of the first byte .. 47) flipped; nothing else changes.
func TamperMAC(sc *Scenario, bit int) *Scenario {
	t := sc.Clone()
	hf := int(t.Desc.CurrHF)
	if hf >= len(t.Desc.Hops) {
		hf = len(t.Desc.Hops) - 1
	}
	t.Desc.Hops[hf].Mac[(bit/8)%6] ^= 0x80 >> (bit % 8)
	t.Mut = fmt.Sprintf("mac-bit-%d", bit%48)
	return t
}

// Pairs emits, for n valid-by-construction packets, the sequences [valid; tampered],
// [valid; valid; tampered] and [tampered; valid] (tampered = one MAC bit of the current hop
// field flipped, bits 0..47 in rotation), each sequence on one reused processor.
func (x *Ctx) Pairs(stream string, nCfg, n int, kinds []string) {
	if len(kinds) == 0 {
		kinds = Kinds
	}
	type cf struct {
		name string
		rt   *Router
	}
	var cfgs []cf
	for i := 0; i < nCfg; i++ {
		c := GenConfig(x.Rng.Fork(uint64(5000 + i)))
		name, rt := x.AddConfig(c)
		cfgs = append(cfgs, cf{name, rt})
	}
	for i := 0; i < n; i++ {
		r := x.Rng.Fork(uint64(i))
		c := cfgs[i%nCfg]
		sc := GenValid(r, c.rt.Cfg, x.Now, kinds[i%len(kinds)])
		sc.Mut = "pair:valid"
		t := TamperMAC(sc, i%48)
		t.Mut = "pair:" + t.Mut
		switch i % 3 {
		case 0:
			x.EmitSeq(stream, c.name, c.rt, []*Scenario{sc, t})
		case 1:
			x.EmitSeq(stream, c.name, c.rt, []*Scenario{sc, sc.Clone(), t})
		default:
			x.EmitSeq(stream, c.name, c.rt, []*Scenario{t, sc})
		}
	}
}

func (x *Ctx) emitObs(stream string, cfgName string, rt *Router, sc *Scenario, raw []byte, o Obs, err error) {
	run := x.Run
	if err != nil {
		run.Tally("unrunnable")
		run.Skip()
		return
	}
	if o.In == nil {
		run.Tally("unparsable-input")
		run.Skip()
		return
	}
	cls := o.Class()
	run.Tally("outcome:" + cls)
	run.Tally("kind:" + strings.SplitN(sc.Kind, "/", 2)[0] + ":" + cls)
	run.Tally("ingress:" + []string{"external", "sibling", "internal"}[sc.Ing.Kind])
	if sc.Mut != "" {
		run.Tally("mutation:" + sc.Mut + ":" + cls)
	}
	if sc.Desc.HBH != nil || sc.Desc.E2E != nil {
		run.Tally("with-extension-headers")
	}
	var tags []string
	if x.Tagger != nil {
		tags = x.Tagger(rt.Cfg, sc, o.In)
	}
	nt := true
	if x.NonTrivial != nil {
		nt = x.NonTrivial(sc, &o)
	}
	desc := map[string]any{
		"cfg": cfgName, "ingress": sc.Ing.String(), "kind": sc.Kind, "mutation": sc.Mut,
		"raw": fmt.Sprintf("%x", raw), "impl": cls, "egress": o.Res.Egress,
		"changed": o.Changed, "cfg_desc": rt.Cfg.Describe(),
	}
	if o.Res.Disp == 255 {
		desc["panic"] = o.Res.PanicMsg
		run.Tally("PANIC:" + firstWords(o.Res.PanicMsg))
	}
	id := run.Add(stream, x.wrap(CaseTerm(cfgName, rt.Cfg, sc.Ing, sc.Desc.L4, &o)), Key(cfgName, sc.Ing, raw), nt, desc, tags...)
	if x.After != nil {
		x.After(id, sc, &o, desc)
	}
}

func firstWords(s string) string {
	if len(s) > 40 {
		s = s[:40]
	}
	return s
}

// ConstCases emits the constant comparison cases.
func (x *Ctx) ConstCases() {
	for k, v := range Consts() {
		if !x.Run.Want() {
			x.Run.Skip()
			continue
		}
		x.Run.Add("const", x.wrap(vgen.App("Router.CConst", vgen.N(uint64(k)), vgen.N(v))),
			fmt.Sprintf("const%d", k), false, map[string]uint64{"const": uint64(k), "value": v})
	}
}

// Main is the runner pattern shared by the router properties.
func Main(prop, checkFn, rule string, body func(x *Ctx)) { mainWith(false, prop, checkFn, rule, body) }

// MainX is Main with cases of type Router.xcase: every packet case is followed by a
// mac-layout case (checkFn still is a function on Router.case).
func MainX(prop, checkFn, rule string, body func(x *Ctx)) { mainWith(true, prop, checkFn, rule, body) }

func mainWith(xmode bool, prop, checkFn, rule string, body func(x *Ctx)) {
	run := vgen.Flags(prop)
	run.Imports = []string{"Model.Router"}
	run.CheckFn = checkFn
	run.DiagFn = "Router.diag"
	run.CaseType = "Router.case"
	if xmode {
		run.CheckFn = "Router.xcheck " + checkFn
		run.DiagFn = "Router.xdiag"
		run.CaseType = "Router.xcase"
		rule += "; every packet case is followed by a mac-layout case: path.MACInput / path.FullMAC on the hop " +
			"field's (SegID, timestamp, ExpTime, ConsIngress, ConsEgress) against the documented input block and an " +
			"independent AES-CMAC (the MAC tables of the packet cases and the generated MACs come from that reference)"
	}
	run.Rule = rule
	run.ShardSize = 250
	x := &Ctx{Run: run, Rng: vgen.NewRand(run.Seed), Now: time.Now().Unix(), X: xmode}
	x.ConstCases()
	body(x)
	run.Prelude = strings.Join(x.cfgs, "\n")
	run.Finish()
}

// RandomStreams emits nValid valid-by-construction packets (position kinds in
// rotation, or only `kinds`) and nMut mutated ones (mutations in rotation over
// muts, or all of Mutations; every fifth case gets a second, random mutation)
// over nCfg random configurations.
func (x *Ctx) RandomStreams(nCfg, nValid, nMut int, kinds, muts []string) {
	if len(kinds) == 0 {
		kinds = Kinds
	}
	if len(muts) == 0 {
		muts = Mutations
	}
	type cf struct {
		name string
		rt   *Router
	}
	var cfgs []cf
	for i := 0; i < nCfg; i++ {
		c := GenConfig(x.Rng.Fork(uint64(1000 + i)))
		name, rt := x.AddConfig(c)
		cfgs = append(cfgs, cf{name, rt})
	}
	for i := 0; i < nValid; i++ {
		r := x.Rng.Fork(uint64(i))
		c := cfgs[i%nCfg]
		sc := GenValid(r, c.rt.Cfg, x.Now, kinds[i%len(kinds)])
		x.Emit("valid", c.name, c.rt, sc)
	}
	for i := 0; i < nMut; i++ {
		r := x.Rng.Fork(uint64(i))
		c := cfgs[i%nCfg]
		sc := GenValid(r, c.rt.Cfg, x.Now, kinds[(i/len(muts))%len(kinds)])
		m := Mutate(r, sc, c.rt.Cfg, x.Now, muts[i%len(muts)])
		if i%5 == 4 {
			m += "+" + Mutate(r, sc, c.rt.Cfg, x.Now, "")
			sc.Mut = m
		}
		x.Emit("mutated", c.name, c.rt, sc)
	}
}
