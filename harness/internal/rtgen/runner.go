package rtgen

import (
	"fmt"
	"os"
	"strings"
	"time"

	"verifharness/internal/vgen"
)

// Ctx is the state of one runner invocation shared by the streams.
type Ctx struct {
	Run  *vgen.Run
	Rng  *vgen.Rand
	Now  int64 // seconds, sampled once at start (timestamps are generated relative to it)
	cfgs []string
	// Tagger computes known-finding tags from the input of a case (may be nil).
	Tagger func(c *Config, sc *Scenario, in *Rec) []string
	// NonTrivial decides whether a case reached the decision the property is about.
	NonTrivial func(sc *Scenario, o *Obs) bool
	// After is called with the id of every executed case (Go-side oracles, extra tallies).
	After func(id int, sc *Scenario, o *Obs, desc map[string]any)
}

// AddConfig registers a configuration; cases refer to it by the returned name
// (the definitions go into the prelude of every shard).
func (x *Ctx) AddConfig(c *Config) (string, *Router) {
	name := fmt.Sprintf("cfg_%d", len(x.cfgs))
	x.cfgs = append(x.cfgs, fmt.Sprintf("Definition %s : Router.cfg := %s.", name, c.Gallina()))
	rt, err := c.Build()
	if err != nil {
		fmt.Fprintln(os.Stderr, "rtgen: cannot build dataplane:", err)
		os.Exit(3)
	}
	return name, rt
}

// Emit serializes the scenario, runs it through the real router (unless -only
// deselects the case) and registers the case.
func (x *Ctx) Emit(stream string, cfgName string, rt *Router, sc *Scenario) {
	run := x.Run
	if !run.Want() {
		run.Skip()
		return
	}
	raw, err := sc.Desc.Serialize()
	if err != nil {
		// not expressible: count it, keep the id stable
		run.Tally("unserializable")
		run.Skip()
		return
	}
	o, err := rt.Run(raw, sc.Ing)
	if err != nil {
		run.Tally("unrunnable")
		run.Skip()
		return
	}
	if o.In == nil {
		run.Tally("unparsable-input")
		run.Skip()
		return
	}
	cls := o.Class()
	run.Tally("outcome:" + cls)
	run.Tally("kind:" + strings.SplitN(sc.Kind, "/", 2)[0] + ":" + cls)
	run.Tally("ingress:" + []string{"external", "sibling", "internal"}[sc.Ing.Kind])
	if sc.Mut != "" {
		run.Tally("mutation:" + sc.Mut + ":" + cls)
	}
	if sc.Desc.HBH != nil || sc.Desc.E2E != nil {
		run.Tally("with-extension-headers")
	}
	var tags []string
	if x.Tagger != nil {
		tags = x.Tagger(rt.Cfg, sc, o.In)
	}
	nt := true
	if x.NonTrivial != nil {
		nt = x.NonTrivial(sc, &o)
	}
	desc := map[string]any{
		"cfg": cfgName, "ingress": sc.Ing.String(), "kind": sc.Kind, "mutation": sc.Mut,
		"raw": fmt.Sprintf("%x", raw), "impl": cls, "egress": o.Res.Egress,
		"changed": o.Changed, "cfg_desc": rt.Cfg.Describe(),
	}
	if o.Res.Disp == 255 {
		desc["panic"] = o.Res.PanicMsg
		run.Tally("PANIC:" + firstWords(o.Res.PanicMsg))
	}
	id := run.Add(stream, CaseTerm(cfgName, rt.Cfg, sc.Ing, sc.Desc.L4, &o), Key(cfgName, sc.Ing, raw), nt, desc, tags...)
	if x.After != nil {
		x.After(id, sc, &o, desc)
	}
}

func firstWords(s string) string {
	if len(s) > 40 {
		s = s[:40]
	}
	return s
}

// ConstCases emits the constant comparison cases.
func (x *Ctx) ConstCases() {
	for k, v := range Consts() {
		if !x.Run.Want() {
			x.Run.Skip()
			continue
		}
		x.Run.Add("const", vgen.App("Router.CConst", vgen.N(uint64(k)), vgen.N(v)),
			fmt.Sprintf("const%d", k), false, map[string]uint64{"const": uint64(k), "value": v})
	}
}

// Main is the runner pattern shared by the router properties.
func Main(prop, checkFn, rule string, body func(x *Ctx)) {
	run := vgen.Flags(prop)
	run.Imports = []string{"Model.Router"}
	run.CheckFn = checkFn
	run.DiagFn = "Router.diag"
	run.CaseType = "Router.case"
	run.Rule = rule
	run.ShardSize = 250
	x := &Ctx{Run: run, Rng: vgen.NewRand(run.Seed), Now: time.Now().Unix()}
	x.ConstCases()
	body(x)
	run.Prelude = strings.Join(x.cfgs, "\n")
	run.Finish()
}

// RandomStreams emits nValid valid-by-construction packets (position kinds in
// rotation, or only `kinds`) and nMut mutated ones (mutations in rotation over
// muts, or all of Mutations; every fifth case gets a second, random mutation)
// over nCfg random configurations.
func (x *Ctx) RandomStreams(nCfg, nValid, nMut int, kinds, muts []string) {
	if len(kinds) == 0 {
		kinds = Kinds
	}
	if len(muts) == 0 {
		muts = Mutations
	}
	type cf struct {
		name string
		rt   *Router
	}
	var cfgs []cf
	for i := 0; i < nCfg; i++ {
		c := GenConfig(x.Rng.Fork(uint64(1000 + i)))
		name, rt := x.AddConfig(c)
		cfgs = append(cfgs, cf{name, rt})
	}
	for i := 0; i < nValid; i++ {
		r := x.Rng.Fork(uint64(i))
		c := cfgs[i%nCfg]
		sc := GenValid(r, c.rt.Cfg, x.Now, kinds[i%len(kinds)])
		x.Emit("valid", c.name, c.rt, sc)
	}
	for i := 0; i < nMut; i++ {
		r := x.Rng.Fork(uint64(i))
		c := cfgs[i%nCfg]
		sc := GenValid(r, c.rt.Cfg, x.Now, kinds[(i/len(muts))%len(kinds)])
		m := Mutate(r, sc, c.rt.Cfg, x.Now, muts[i%len(muts)])
		if i%5 == 4 {
			m += "+" + Mutate(r, sc, c.rt.Cfg, x.Now, "")
			sc.Mut = m
		}
		x.Emit("mutated", c.name, c.rt, sc)
	}
}
