package rtgen

import (
	"fmt"
	"net/netip"

	"github.com/scionproto/scion/pkg/addr"

	"verifharness/internal/vgen"
)

// TableConfig is the fixed configuration of the exhaustive link-type table:
// for every link type lt (0..4) an own external interface 100+lt (ingress) and
// 200+lt (egress), an interface 300+lt owned by sibling 1 (ingress side) and an
// interface 400+lt owned by sibling 2 (egress side). 999 is not configured.
func TableConfig(r *vgen.Rand) *Config {
	c := &Config{
		IA: addr.MustIAFrom(1, 0xff0000000110), Key: r.Bytes(16),
		LocalHost: netip.MustParseAddr("10.0.0.1"), PortLo: 1024, PortHi: 65535,
		SiblingDown: map[int]bool{},
	}
	for lt := 0; lt <= 4; lt++ {
		nbr := addr.MustIAFrom(1, addr.AS(0xff0000000200+uint64(lt)))
		c.Ifaces = append(c.Ifaces,
			Iface{ID: uint16(100 + lt), LT: lt, Nbr: nbr, Up: true},
			Iface{ID: uint16(200 + lt), LT: lt, Nbr: nbr, Up: true},
			Iface{ID: uint16(300 + lt), LT: lt, Nbr: nbr, Sibling: 1, Up: true},
			Iface{ID: uint16(400 + lt), LT: lt, Nbr: nbr, Sibling: 2, Up: true})
	}
	return c
}

var (
	TableChanges = []string{"none", "xover", "peer-out", "peer-in"}
	TableIngress = []string{"ext", "sib", "int"}
	TableEgress  = []string{"ext", "sib", "unknown", "internal"}
)

// TableCase builds the validly MACed packet for one cell of the table.
func TableCase(r *vgen.Rand, c *Config, nowSec int64, ilt, elt int, change, ing, egk string, consDir bool) *Scenario {
	var inID, egID uint16
	sc := &Scenario{Kind: fmt.Sprintf("table/%s->%s/%s/in=%s/eg=%s/cons=%v", LTNames[ilt], LTNames[elt], change, ing, egk, consDir)}
	switch ing {
	case "ext":
		inID = uint16(100 + ilt)
		sc.Ing = Ingress{Kind: IngExt, ID: int(inID)}
	case "sib":
		inID = uint16(300 + ilt)
		sc.Ing = Ingress{Kind: IngSib, ID: 1}
	default:
		inID = uint16(100 + ilt)
		sc.Ing = Ingress{Kind: IngInt}
	}
	switch egk {
	case "ext":
		egID = uint16(200 + elt)
	case "sib":
		egID = uint16(400 + elt)
	case "unknown":
		egID = 999
	default:
		egID = 0
	}
	ts := uint32(nowSec - 100)
	other := func() Hop {
		h := Hop{ConsIngress: randIf(r), ConsEgress: randIf(r), ExpTime: 200}
		copy(h.Mac[:], r.Bytes(6))
		return h
	}
	localHop := func(in, eg uint16) Hop {
		if consDir {
			return Hop{ConsIngress: in, ConsEgress: eg, ExpTime: 200}
		}
		return Hop{ConsIngress: eg, ConsEgress: in, ExpTime: 200}
	}
	inf := func(peer bool) Info { return Info{ConsDir: consDir, Peer: peer, Timestamp: ts, SegID: uint16(r.U64())} }
	d := &Desc{TC: 0, FlowID: 1, SrcIA: addr.MustIAFrom(1, 0xff0000000300), DstIA: addr.MustIAFrom(2, 0xff0000000400),
		Src: HostIP4(192, 0, 2, 1), Dst: HostIP4(192, 0, 2, 2), L4: UDP(1000, 2000, []byte{1, 2, 3})}
	if ing == "int" {
		d.SrcIA = c.IA
	}
	fold := !consDir && ing == "ext"
	beta := uint16(r.U64())
	switch change {
	case "none":
		d.Infos = []Info{inf(false)}
		d.SegLen = [3]uint8{3, 0, 0}
		if ing == "int" {
			d.Hops = []Hop{localHop(inID, egID), other(), other()}
			d.CurrHF = 0
		} else {
			d.Hops = []Hop{other(), localHop(inID, egID), other()}
			d.CurrHF = 1
		}
		sc.Local = []LocalHop{{Idx: int(d.CurrHF), Beta: beta, Fold: fold}}
	case "xover":
		d.Infos = []Info{inf(false), inf(false)}
		d.SegLen = [3]uint8{2, 2, 0}
		d.Hops = []Hop{other(), localHop(inID, 0), localHop(0, egID), other()}
		d.CurrHF = 1
		sc.Local = []LocalHop{{Idx: 1, Beta: beta, Fold: fold}, {Idx: 2, Beta: uint16(r.U64())}}
	case "peer-out":
		d.Infos = []Info{inf(true), inf(true)}
		if ing == "int" {
			d.SegLen = [3]uint8{1, 2, 0}
			d.Hops = []Hop{localHop(inID, egID), other(), other()}
			d.CurrHF = 0
		} else {
			d.SegLen = [3]uint8{2, 2, 0}
			d.Hops = []Hop{other(), localHop(inID, egID), other(), other()}
			d.CurrHF = 1
		}
		sc.Local = []LocalHop{{Idx: int(d.CurrHF), Beta: beta}}
	case "peer-in":
		d.Infos = []Info{inf(true), inf(true)}
		d.SegLen = [3]uint8{2, 2, 0}
		d.Hops = []Hop{other(), other(), localHop(inID, egID), other()}
		d.CurrHF, d.CurrINF = 2, 1
		sc.Local = []LocalHop{{Idx: 2, Beta: beta}}
	}
	sc.Desc = d
	sc.Remac(c)
	return sc
}

// TableCell describes one cell of the table (kept in Scenario.Cell).
type TableCell struct {
	ILT, ELT            int
	Change, Ing, Egress string
	ConsDir             bool
}

// Admissible is the property's table, transcribed a second time in Go. It is only used to
// report a concrete failing cell from the Go side (the Coq oracle is the authority).
func (t TableCell) Admissible() bool {
	if t.Ing != "ext" {
		return t.Egress == "ext" && t.Change != "xover"
	}
	if t.Egress != "ext" && t.Egress != "sib" {
		return false
	}
	type pr struct{ a, b int }
	if t.Change == "xover" {
		switch (pr{t.ILT, t.ELT}) {
		case pr{LTCore, LTChild}, pr{LTChild, LTCore}, pr{LTChild, LTChild}:
			return true
		}
		return false
	}
	switch (pr{t.ILT, t.ELT}) {
	case pr{LTCore, LTCore}, pr{LTChild, LTParent}, pr{LTParent, LTChild}, pr{LTChild, LTPeer}, pr{LTPeer, LTChild}:
		return true
	}
	return false
}

// Table enumerates the complete table: 5x5 link types x segment change x
// ingress kind x egress kind x construction direction (link types of egress
// kinds without one are enumerated once).
func Table(x *Ctx, stream string) int {
	c := TableConfig(x.Rng.Fork(7))
	name, rt := x.AddConfig(c)
	n := 0
	for ilt := 0; ilt <= 4; ilt++ {
		for elt := 0; elt <= 4; elt++ {
			for _, change := range TableChanges {
				for _, ing := range TableIngress {
					for _, egk := range TableEgress {
						if (egk == "unknown" || egk == "internal") && elt != 0 {
							continue
						}
						for _, cons := range []bool{true, false} {
							r := x.Rng.Fork(uint64(n))
							sc := TableCase(r, c, x.Now, ilt, elt, change, ing, egk, cons)
							sc.Cell = &TableCell{ilt, elt, change, ing, egk, cons}
							x.Emit(stream, name, rt, sc)
							n++
						}
					}
				}
			}
		}
	}
	return n
}
