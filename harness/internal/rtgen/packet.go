package rtgen

import (
	"encoding/binary"
	"fmt"
	"math/big"
	"net/netip"
	"strconv"

	"github.com/gopacket/gopacket"

	"github.com/scionproto/scion/pkg/addr"
	"github.com/scionproto/scion/pkg/slayers"
	"github.com/scionproto/scion/pkg/slayers/path"
	"github.com/scionproto/scion/pkg/slayers/path/scion"

	"verifharness/internal/vgen"
)

// Header geometry (compared with the Coq constants through ConstCases).
const (
	CmnHdrLen = 12
	MetaLen   = 4
	InfoLen   = 8
	HopLen    = 12
)

// Info is an info field as on the wire.
type Info struct {
	Peer, ConsDir bool
	SegID         uint16
	Timestamp     uint32
	Rsv           uint16 // (flags byte & 0xfc) << 8 | second byte
}

// Hop is a hop field as on the wire.
type Hop struct {
	ConsIngress, ConsEgress   uint16
	ExpTime                   uint8
	IngressAlert, EgressAlert bool
	Mac                       [6]byte
	Rsv                       uint8 // flags byte & 0xfc
}

// Host is a host address as on the wire: 4-bit type/length code and raw bytes.
type Host struct {
	Type uint8
	Raw  []byte
}

func HostIP4(a, b, c, d byte) Host { return Host{Type: uint8(slayers.T4Ip), Raw: []byte{a, b, c, d}} }
func HostIP(a netip.Addr) Host {
	if a.Is4() {
		return Host{Type: uint8(slayers.T4Ip), Raw: a.AsSlice()}
	}
	return Host{Type: uint8(slayers.T16Ip), Raw: a.AsSlice()}
}
func HostSVC(s addr.SVC) Host {
	return Host{Type: uint8(slayers.T4Svc), Raw: []byte{byte(s >> 8), byte(s), 0, 0}}
}

// HostRaw builds an address with an arbitrary type code; raw is padded / cut to
// the length the code announces.
func HostRaw(t uint8, raw []byte) Host {
	n := 4 * (1 + int(t&3))
	b := make([]byte, n)
	copy(b, raw)
	return Host{Type: t & 0xf, Raw: b}
}

// Opt is one TLV option of an extension header.
type Opt struct {
	Type uint8
	Data []byte
}

// L4 is the upper-layer part of a packet.
type L4 struct {
	Proto uint8
	Bytes []byte
	Name  string
}

func UDP(src, dst uint16, payload []byte) L4 {
	b := make([]byte, 8+len(payload))
	binary.BigEndian.PutUint16(b[0:], src)
	binary.BigEndian.PutUint16(b[2:], dst)
	binary.BigEndian.PutUint16(b[4:], uint16(8+len(payload)))
	copy(b[8:], payload)
	return L4{Proto: uint8(slayers.L4UDP), Bytes: b, Name: "udp"}
}

func TCP(src, dst uint16, payload []byte) L4 {
	b := make([]byte, 20+len(payload))
	binary.BigEndian.PutUint16(b[0:], src)
	binary.BigEndian.PutUint16(b[2:], dst)
	b[12] = 5 << 4
	copy(b[20:], payload)
	return L4{Proto: uint8(slayers.L4TCP), Bytes: b, Name: "tcp"}
}

// SCMPEcho builds an echo request (reply=false) or reply.
func SCMPEcho(reply bool, id, seq uint16, payload []byte) L4 {
	b := make([]byte, 8+len(payload))
	b[0] = uint8(slayers.SCMPTypeEchoRequest)
	if reply {
		b[0] = uint8(slayers.SCMPTypeEchoReply)
	}
	binary.BigEndian.PutUint16(b[4:], id)
	binary.BigEndian.PutUint16(b[6:], seq)
	copy(b[8:], payload)
	return L4{Proto: uint8(slayers.L4SCMP), Bytes: b, Name: "scmp-echo"}
}

// SCMPTraceroute builds a traceroute request (reply=false) or reply.
func SCMPTraceroute(reply bool, id, seq uint16, ia addr.IA, ifID uint64) L4 {
	b := make([]byte, 4+20)
	b[0] = uint8(slayers.SCMPTypeTracerouteRequest)
	if reply {
		b[0] = uint8(slayers.SCMPTypeTracerouteReply)
	}
	binary.BigEndian.PutUint16(b[4:], id)
	binary.BigEndian.PutUint16(b[6:], seq)
	binary.BigEndian.PutUint64(b[8:], uint64(ia))
	binary.BigEndian.PutUint64(b[16:], ifID)
	return L4{Proto: uint8(slayers.L4SCMP), Bytes: b, Name: "scmp-traceroute"}
}

// RawL4 is any other upper layer.
func RawL4(proto uint8, b []byte) L4 { return L4{Proto: proto, Bytes: b, Name: "raw"} }

// DstPort is what dataPlane.dstScionPort has to return for this upper layer.
// known=false: this helper does not know (SCMP error messages etc.); ok=false:
// the router must fail to determine a port.
func (l L4) DstPort() (port uint16, ok bool, known bool) {
	b := l.Bytes
	switch l.Proto {
	case uint8(slayers.L4UDP):
		if len(b) < 8 {
			return 0, false, true
		}
		return binary.BigEndian.Uint16(b[2:]), true, true
	case uint8(slayers.L4TCP):
		if len(b) < 20 {
			return 0, false, true
		}
		return binary.BigEndian.Uint16(b[2:]), true, true
	case uint8(slayers.L4SCMP):
		if len(b) < 4 {
			return 0, false, true
		}
		switch slayers.SCMPType(b[0]) {
		case slayers.SCMPTypeEchoRequest, slayers.SCMPTypeTracerouteRequest:
			return EndhostPort, true, true
		case slayers.SCMPTypeEchoReply:
			if len(b) < 8 {
				return 0, false, true
			}
			return binary.BigEndian.Uint16(b[4:]), true, true
		case slayers.SCMPTypeTracerouteReply:
			if len(b) < 24 {
				return 0, false, true
			}
			return binary.BigEndian.Uint16(b[4:]), true, true
		}
		return 0, false, false
	case uint8(slayers.HopByHopClass), uint8(slayers.End2EndClass), uint8(slayers.L4BFD):
		return 0, false, false
	}
	return EndhostPort, true, true
}

const EndhostPort = 30041

// Desc is the abstract (wire-level) description of a packet.
type Desc struct {
	Infos   []Info
	SegLen  [3]uint8
	Hops    []Hop
	CurrINF uint8
	CurrHF  uint8
	MetaRsv uint8 // 6 reserved bits of the path meta header

	SrcIA, DstIA addr.IA
	Src, Dst     Host
	TC           uint8
	FlowID       uint32

	HBH, E2E        []Opt // nil: header absent; empty non-nil: header with padding only
	L4              L4
	PayloadLenDelta int // added to the PayloadLen field (0 = consistent)
}

// Clone returns a deep copy.
func (d *Desc) Clone() *Desc {
	c := *d
	c.Infos = append([]Info(nil), d.Infos...)
	c.Hops = append([]Hop(nil), d.Hops...)
	c.Src.Raw = append([]byte(nil), d.Src.Raw...)
	c.Dst.Raw = append([]byte(nil), d.Dst.Raw...)
	c.L4.Bytes = append([]byte(nil), d.L4.Bytes...)
	if d.HBH != nil {
		c.HBH = append([]Opt{}, d.HBH...)
	}
	if d.E2E != nil {
		c.E2E = append([]Opt{}, d.E2E...)
	}
	return &c
}

// InfIndexForHF mirrors scion.Base.infIndexForHF on the description.
func (d *Desc) InfIndexForHF(hf uint8) uint8 {
	switch {
	case hf < d.SegLen[0]:
		return 0
	case hf < d.SegLen[0]+d.SegLen[1]:
		return 1
	}
	return 2
}

func extHeader(next uint8, opts []Opt) []byte {
	var body []byte
	for _, o := range opts {
		body = append(body, o.Type, uint8(len(o.Data)))
		body = append(body, o.Data...)
	}
	// pad to 4n-2 with Pad1 / PadN
	for (len(body)+2)%4 != 0 {
		rem := 4 - (len(body)+2)%4
		if rem == 1 {
			body = append(body, 0) // Pad1
		} else {
			body = append(body, 1, uint8(rem-2))
			body = append(body, make([]byte, rem-2)...)
		}
	}
	hdr := []byte{next, uint8((len(body)+2)/4 - 1)}
	return append(hdr, body...)
}

// Payload returns everything that follows the SCION header.
func (d *Desc) Payload() (first uint8, b []byte) {
	first = d.L4.Proto
	b = d.L4.Bytes
	if d.E2E != nil {
		b = append(extHeader(first, d.E2E), b...)
		first = uint8(slayers.End2EndClass)
	}
	if d.HBH != nil {
		b = append(extHeader(first, d.HBH), b...)
		first = uint8(slayers.HopByHopClass)
	}
	return first, b
}

// Serialize produces the packet with the real slayers serializer; fields the
// serializer cannot express (reserved bits, out-of-range pointers, address
// type codes, inconsistent PayloadLen) are patched into the bytes afterwards.
func (d *Desc) Serialize() ([]byte, error) {
	numInf := 0
	numHops := 0
	for i := 0; i < 3; i++ {
		if d.SegLen[i] > 0 {
			numInf = i + 1
		}
		numHops += int(d.SegLen[i])
	}
	if numInf != len(d.Infos) || numHops != len(d.Hops) {
		return nil, fmt.Errorf("rtgen: SegLen %v does not match %d infos / %d hops",
			d.SegLen, len(d.Infos), len(d.Hops))
	}
	dp := &scion.Decoded{
		Base: scion.Base{
			PathMeta: scion.MetaHdr{CurrINF: d.CurrINF & 3, CurrHF: d.CurrHF & 0x3f, SegLen: d.SegLen},
			NumINF:   numInf, NumHops: numHops,
		},
	}
	for _, i := range d.Infos {
		dp.InfoFields = append(dp.InfoFields, path.InfoField{Peer: i.Peer, ConsDir: i.ConsDir,
			SegID: i.SegID, Timestamp: i.Timestamp})
	}
	for _, h := range d.Hops {
		dp.HopFields = append(dp.HopFields, path.HopField{IngressRouterAlert: h.IngressAlert,
			EgressRouterAlert: h.EgressAlert, ExpTime: h.ExpTime, ConsIngress: h.ConsIngress,
			ConsEgress: h.ConsEgress, Mac: h.Mac})
	}
	next, pld := d.Payload()
	s := &slayers.SCION{
		Version: 0, TrafficClass: d.TC, FlowID: d.FlowID & 0xfffff,
		NextHdr: slayers.L4ProtocolType(next), PathType: scion.PathType,
		DstIA: d.DstIA, SrcIA: d.SrcIA,
		DstAddrType: slayers.AddrType(d.Dst.Type), SrcAddrType: slayers.AddrType(d.Src.Type),
		RawDstAddr: d.Dst.Raw, RawSrcAddr: d.Src.Raw,
		Path: dp,
	}
	if len(d.Dst.Raw) != s.DstAddrType.Length() || len(d.Src.Raw) != s.SrcAddrType.Length() {
		return nil, fmt.Errorf("rtgen: host address length does not match its type code")
	}
	buf := gopacket.NewSerializeBuffer()
	if err := gopacket.SerializeLayers(buf, gopacket.SerializeOptions{FixLengths: true},
		s, gopacket.Payload(pld)); err != nil {
		return nil, err
	}
	raw := append([]byte(nil), buf.Bytes()...)
	// patches
	if d.PayloadLenDelta != 0 {
		pl := int(binary.BigEndian.Uint16(raw[6:8])) + d.PayloadLenDelta
		binary.BigEndian.PutUint16(raw[6:8], uint16(pl))
	}
	mo := CmnHdrLen + s.AddrHdrLen()
	raw[mo+1] |= (d.MetaRsv & 0x3f) << 2
	for k, i := range d.Infos {
		o := mo + MetaLen + InfoLen*k
		raw[o] |= uint8(i.Rsv>>8) & 0xfc
		raw[o+1] = uint8(i.Rsv)
	}
	for k, h := range d.Hops {
		o := mo + MetaLen + InfoLen*numInf + HopLen*k
		raw[o] |= h.Rsv & 0xfc
	}
	return raw, nil
}

// Rec is the decoded packet record handed to the Coq model (Router.pkt),
// obtained from raw bytes by fixed-offset parsing only.
type Rec struct {
	DstIA, SrcIA     uint64
	DstType, SrcType uint8
	DstRaw, SrcRaw   []byte
	PayLen           int
	PayActual        int
	CurrINF, CurrHF  uint8
	Seg              [3]uint8
	MetaRsv          uint8
	Infos            []Info
	Hops             []Hop
	AddrLen          int
	NumINF, NumHops  int
}

// Parse reads the SCION common, address and path headers of a packet with a
// SCION-type path. It fails where the record would not be well defined.
func Parse(raw []byte) (*Rec, error) {
	if len(raw) < CmnHdrLen {
		return nil, fmt.Errorf("shorter than the common header")
	}
	r := &Rec{}
	hdrLen := int(raw[5]) * 4
	r.PayLen = int(binary.BigEndian.Uint16(raw[6:8]))
	if raw[8] != 1 {
		return nil, fmt.Errorf("not a SCION-type path")
	}
	r.DstType = raw[9] >> 4
	r.SrcType = raw[9] & 0xf
	dl, sl := 4*(1+int(r.DstType&3)), 4*(1+int(r.SrcType&3))
	r.AddrLen = 16 + dl + sl
	if len(raw) < CmnHdrLen+r.AddrLen+MetaLen || hdrLen < CmnHdrLen+r.AddrLen+MetaLen || len(raw) < hdrLen {
		return nil, fmt.Errorf("header too short")
	}
	o := CmnHdrLen
	r.DstIA = binary.BigEndian.Uint64(raw[o:])
	r.SrcIA = binary.BigEndian.Uint64(raw[o+8:])
	r.DstRaw = append([]byte(nil), raw[o+16:o+16+dl]...)
	r.SrcRaw = append([]byte(nil), raw[o+16+dl:o+16+dl+sl]...)
	o += r.AddrLen
	line := binary.BigEndian.Uint32(raw[o:])
	r.CurrINF = uint8(line >> 30)
	r.CurrHF = uint8(line>>24) & 0x3f
	r.MetaRsv = uint8(line>>18) & 0x3f
	r.Seg = [3]uint8{uint8(line>>12) & 0x3f, uint8(line>>6) & 0x3f, uint8(line) & 0x3f}
	switch {
	case r.Seg[2] > 0:
		r.NumINF = 3
	case r.Seg[1] > 0:
		r.NumINF = 2
	case r.Seg[0] > 0:
		r.NumINF = 1
	}
	r.NumHops = int(r.Seg[0]) + int(r.Seg[1]) + int(r.Seg[2])
	o += MetaLen
	if hdrLen < o+InfoLen*r.NumINF+HopLen*r.NumHops {
		return nil, fmt.Errorf("HdrLen does not cover the path")
	}
	for k := 0; k < r.NumINF; k++ {
		b := raw[o : o+InfoLen]
		r.Infos = append(r.Infos, Info{ConsDir: b[0]&1 != 0, Peer: b[0]&2 != 0,
			Rsv:   uint16(b[0]&0xfc)<<8 | uint16(b[1]),
			SegID: binary.BigEndian.Uint16(b[2:]), Timestamp: binary.BigEndian.Uint32(b[4:])})
		o += InfoLen
	}
	for k := 0; k < r.NumHops; k++ {
		b := raw[o : o+HopLen]
		h := Hop{EgressAlert: b[0]&1 != 0, IngressAlert: b[0]&2 != 0, Rsv: b[0] & 0xfc, ExpTime: b[1],
			ConsIngress: binary.BigEndian.Uint16(b[2:]), ConsEgress: binary.BigEndian.Uint16(b[4:])}
		copy(h.Mac[:], b[6:12])
		r.Hops = append(r.Hops, h)
		o += HopLen
	}
	r.PayActual = len(raw) - hdrLen
	return r, nil
}

// bytesTerm prints a byte string of at most 16 bytes as `Router.bytesc len value`.
func bytesTerm(b []byte) string {
	if len(b) > 16 {
		return vgen.Bytes(b)
	}
	v := new(big.Int).SetBytes(b)
	return "(Router.bytesc " + strconv.Itoa(len(b)) + " " + v.String() + ")"
}

func (i Info) Gallina() string {
	return vgen.App("Router.mkInfo", vgen.B(i.Peer), vgen.B(i.ConsDir), vgen.N(uint64(i.SegID)),
		vgen.N(uint64(i.Timestamp)), vgen.N(uint64(i.Rsv)))
}

func mac48(m [6]byte) uint64 {
	return uint64(m[0])<<40 | uint64(m[1])<<32 | uint64(m[2])<<24 | uint64(m[3])<<16 | uint64(m[4])<<8 | uint64(m[5])
}

func (h Hop) Gallina() string {
	f := uint64(h.ExpTime)<<40 | uint64(h.ConsIngress)<<24 | uint64(h.ConsEgress)<<8 | uint64(h.Rsv)
	return vgen.App("Router.hopc", vgen.B(h.IngressAlert), vgen.B(h.EgressAlert), vgen.N(f), vgen.N(mac48(h.Mac)))
}

// Gallina prints the Router.pkt term; l4 is the expected result of dstScionPort.
func (r *Rec) Gallina(l4port uint16, l4ok bool) string {
	return vgen.App("Router.mkPkt",
		vgen.N(r.DstIA), vgen.N(r.SrcIA), vgen.N(uint64(r.DstType)), vgen.N(uint64(r.SrcType)),
		bytesTerm(r.DstRaw), bytesTerm(r.SrcRaw),
		vgen.N(uint64(r.PayLen)), vgen.N(uint64(r.PayActual)),
		vgen.Opt(vgen.N(uint64(l4port)), l4ok),
		vgen.N(uint64(r.CurrINF)), vgen.N(uint64(r.CurrHF)),
		vgen.N(uint64(r.Seg[0])), vgen.N(uint64(r.Seg[1])), vgen.N(uint64(r.Seg[2])),
		vgen.N(uint64(r.MetaRsv)),
		vgen.ListOf(r.Infos, Info.Gallina), vgen.ListOf(r.Hops, Hop.Gallina))
}

// InfIndexForHF on a parsed record.
func (r *Rec) InfIndexForHF(hf int) int {
	switch {
	case hf < int(r.Seg[0]):
		return 0
	case hf < int(r.Seg[0])+int(r.Seg[1]):
		return 1
	}
	return 2
}
