package rtgen

import (
	"bytes"
	"encoding/binary"
	"encoding/hex"
	"fmt"
	"net"
	"time"

	"github.com/scionproto/scion/pkg/slayers"
	"github.com/scionproto/scion/pkg/slayers/path"
	"github.com/scionproto/scion/pkg/slayers/path/scion"
	"github.com/scionproto/scion/private/topology"
	"github.com/scionproto/scion/router"

	"verifharness/internal/vgen"
)

// Obs is what the real router did with one packet.
type Obs struct {
	NowNs   int64 // time.Now() sampled just before the call
	Res     router.VerifResult
	In      *Rec
	Out     *Rec // parsed output (nil if it does not parse)
	Changed []int
	InLen   int
	OutLen  int
}

var srcUnderlay = &net.UDPAddr{IP: net.IP{10, 0, 200, 1}, Port: 40123}

// Run sends raw through the fast path of the real dataplane as if it had
// arrived over ing.
func (rt *Router) Run(raw []byte, ing Ingress) (Obs, error) { return rt.RunOn(nil, raw, ing) }

// RunOn is Run on a processor that is REUSED across packets (router.VerifNewProcessor, the way
// runProcessor keeps one scionPacketProcessor per queue); proc == nil: a fresh processor.
func (rt *Router) RunOn(proc *router.VerifProcessor, raw []byte, ing Ingress) (Obs, error) {
	o := Obs{InLen: len(raw)}
	var src *net.UDPAddr
	if ing.Kind == IngInt {
		src = srcUnderlay
	}
	rt.DP.ClearRecords()
	o.NowNs = time.Now().UnixNano()
	var res router.VerifResult
	var err error
	if proc != nil {
		res, err = proc.Process(raw, ing.Link(), src)
	} else {
		res, err = rt.DP.VerifProcess(raw, ing.Link(), src)
	}
	if err != nil {
		return o, err
	}
	o.Res = res
	o.In, _ = Parse(raw)
	o.Out, _ = Parse(res.Out)
	o.OutLen = len(res.Out)
	n := min(len(raw), len(res.Out))
	for i := 0; i < n; i++ {
		if raw[i] != res.Out[i] {
			o.Changed = append(o.Changed, i)
		}
	}
	return o, nil
}

// Class is a coarse label of the outcome (for tallies and non-triviality).
func (o *Obs) Class() string {
	switch o.Res.Disp {
	case router.VerifDiscard:
		return "discard"
	case router.VerifPanic:
		return "panic"
	case router.VerifDone:
		return "done"
	case router.VerifForward:
		if !o.Res.Sent {
			return "forward-nolink"
		}
		if o.Res.EgressLink == LinkInternal {
			return "deliver"
		}
		if o.Res.EgressLink >= router.VerifSiblingBase {
			return "forward-sibling"
		}
		return "forward-external"
	case router.VerifSlowPath:
		switch o.Res.Req.Type {
		case router.VerifSPRouterAlertIngress:
			return "alert-ingress"
		case router.VerifSPRouterAlertEgress:
			return "alert-egress"
		}
		return fmt.Sprintf("scmp-%d-%d", o.Res.Req.Type, o.Res.Req.Code)
	}
	return "other"
}

func recTerm(r *Rec, l4 L4) string {
	if r == nil {
		return ""
	}
	p, ok, _ := l4.DstPort()
	return r.Gallina(p, ok)
}

// sameButPath reports whether two records agree in everything except the path
// meta header (pointers, reserved bits) and the info fields.
func sameButPath(a, b *Rec) bool {
	if a.DstIA != b.DstIA || a.SrcIA != b.SrcIA || a.DstType != b.DstType || a.SrcType != b.SrcType ||
		!bytes.Equal(a.DstRaw, b.DstRaw) || !bytes.Equal(a.SrcRaw, b.SrcRaw) || a.PayLen != b.PayLen ||
		a.PayActual != b.PayActual || a.Seg != b.Seg || len(a.Hops) != len(b.Hops) {
		return false
	}
	for i := range a.Hops {
		if a.Hops[i] != b.Hops[i] {
			return false
		}
	}
	return true
}

// outTerm prints the output record, as `Router.patch p ...` (p = the input
// record bound by the case term) when only the mutable path state differs.
func (o *Obs) outTerm(l4 L4) string {
	if o.Out == nil {
		return ""
	}
	if o.In != nil && sameButPath(o.In, o.Out) {
		return vgen.App("Router.patch", "p", vgen.N(uint64(o.Out.CurrINF)), vgen.N(uint64(o.Out.CurrHF)),
			vgen.N(uint64(o.Out.MetaRsv)), vgen.ListOf(o.Out.Infos, Info.Gallina))
	}
	return recTerm(o.Out, l4)
}

// ResultTerm prints the observation as a Router.result.
func (o *Obs) ResultTerm(l4 L4) string {
	out := o.outTerm(l4)
	switch o.Res.Disp {
	case router.VerifDiscard:
		return "Router.Discard"
	case router.VerifPanic:
		return "Router.Panic"
	case router.VerifDone:
		return "Router.Done"
	case router.VerifForward:
		if !o.Res.Sent {
			return "Router.Discard" // runProcessor drops a packet whose egress has no link
		}
		if out == "" {
			return "Router.BadInput"
		}
		dst := "None"
		if o.Res.Dst != nil {
			ip := o.Res.Dst.IP
			if v4 := ip.To4(); v4 != nil && len(ip) == 4 {
				ip = v4
			}
			dst = vgen.Opt("(pair "+bytesTerm(ip)+" "+vgen.N(uint64(o.Res.Dst.Port))+")", true)
		}
		return vgen.App("Router.Forward", vgen.N(uint64(o.Res.Egress)), out, dst)
	case router.VerifSlowPath:
		if out == "" {
			return "Router.BadInput"
		}
		var req string
		switch {
		case o.Res.Req.Type == router.VerifSPRouterAlertIngress:
			req = "Router.SpAlertIngress"
		case o.Res.Req.Type == router.VerifSPRouterAlertEgress:
			req = "Router.SpAlertEgress"
		case o.Res.Req.Type >= 0:
			req = vgen.App("Router.SpScmp", vgen.N(uint64(o.Res.Req.Type)), vgen.N(uint64(o.Res.Req.Code)),
				vgen.N(uint64(o.Res.Req.Pointer)))
		default:
			return "Router.BadInput"
		}
		return vgen.App("Router.SlowPath", req, vgen.N(uint64(o.Res.Egress)), out)
	}
	return "Router.BadInput"
}

// MacTable lists every MAC the model may query for this packet, computed with
// the real path.MAC under the configuration's key: current and next hop, each
// with the SegID as carried and with the carried MAC folded in.
func MacTable(c *Config, in *Rec) string {
	if in == nil {
		return "[]"
	}
	seen := map[string]bool{}
	var es []string
	for _, k := range []int{int(in.CurrHF), int(in.CurrHF) + 1} {
		if k >= len(in.Hops) {
			continue
		}
		h := in.Hops[k]
		for _, j := range []int{in.InfIndexForHF(k), int(in.CurrINF)} {
			if j >= len(in.Infos) {
				continue
			}
			inf := in.Infos[j]
			for _, sid := range []uint16{inf.SegID, inf.SegID ^ binary.BigEndian.Uint16(h.Mac[:2])} {
				key := fmt.Sprint(sid, inf.Timestamp, h.ExpTime, h.ConsIngress, h.ConsEgress)
				if seen[key] {
					continue
				}
				seen[key] = true
				m := MAC(c.Key, sid, inf.Timestamp, h.ExpTime, h.ConsIngress, h.ConsEgress)
				es = append(es, fmt.Sprintf("(Router.macc %d %d %d %d %d %d)", sid, inf.Timestamp, h.ExpTime,
					h.ConsIngress, h.ConsEgress, mac48(m)))
			}
		}
	}
	return vgen.List(es)
}

// CaseTerm prints `Router.CPkt cfg now ing macs pkt impl changed inlen outlen`.
func CaseTerm(cfgName string, c *Config, ing Ingress, l4 L4, o *Obs) string {
	ch := make([]uint64, len(o.Changed))
	for i, x := range o.Changed {
		ch[i] = uint64(x)
	}
	return "(let p := " + recTerm(o.In, l4) + " in " +
		vgen.App("Router.CPkt", cfgName, vgen.N(uint64(o.NowNs)), ing.Gallina(), MacTable(c, o.In),
			"p", o.ResultTerm(l4), vgen.NList(ch), vgen.N(uint64(o.InLen)), vgen.N(uint64(o.OutLen))) + ")"
}

// Key is the canonical input of a case (for distinctness).
func Key(cfgName string, ing Ingress, raw []byte) string {
	return cfgName + "|" + ing.String() + "|" + hex.EncodeToString(raw)
}

// Consts returns the Go constants in the order of Router.const_value.
func Consts() []uint64 {
	return []uint64{
		slayers.CmnHdrLen, 8 /* addr.IABytes */, scion.MetaLen, path.InfoLen, path.HopLen, path.MacLen,
		scion.MaxHops, slayers.LineLen, topology.EndhostPort, router.VerifSiblingBase,
		uint64(path.MaxTTL / 256), 0x8000, /* addr.SVCMcast */
		uint64(slayers.T4Ip), uint64(slayers.T4Svc), uint64(slayers.T16Ip),
		uint64(slayers.SCMPTypeDestinationUnreachable), uint64(slayers.SCMPTypeParameterProblem),
		uint64(slayers.SCMPTypeExternalInterfaceDown), uint64(slayers.SCMPTypeInternalConnectivityDown),
		uint64(slayers.SCMPCodeNoRoute), uint64(slayers.SCMPCodeInvalidPacketSize),
		uint64(slayers.SCMPCodeInvalidSourceAddress), uint64(slayers.SCMPCodeInvalidDestinationAddress),
		uint64(slayers.SCMPCodeInvalidPath), uint64(slayers.SCMPCodeUnknownHopFieldIngress),
		uint64(slayers.SCMPCodeUnknownHopFieldEgress), uint64(slayers.SCMPCodeInvalidHopFieldMAC),
		uint64(slayers.SCMPCodePathExpired), uint64(slayers.SCMPCodeInvalidSegmentChange),
		uint64(topology.Unset), uint64(topology.Core), uint64(topology.Parent), uint64(topology.Child),
		uint64(topology.Peer),
		uint64(router.Internal), uint64(router.Sibling), uint64(router.External),
		uint64(router.VerifDiscard), uint64(router.VerifForward), uint64(router.VerifSlowPath),
		uint64(router.VerifDone),
	}
}
