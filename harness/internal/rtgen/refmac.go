package rtgen

import (
	"crypto/aes"
	"crypto/subtle"
	"encoding/hex"

	"github.com/scionproto/scion/pkg/scrypto"
	"github.com/scionproto/scion/pkg/slayers/path"
)

// Reference implementation of the hop-field MAC, independent of pkg/slayers/path and of the
// CMAC library the router uses. The input block is transcribed from the documentation
// (/repo/doc/protocols/scion-header.rst, "Hop Field MAC Computation"):
//
//	 0                   1                   2                   3
//	 0 1 2 3 4 5 6 7 8 9 0 1 2 3 4 5 6 7 8 9 0 1 2 3 4 5 6 7 8 9 0 1
//	|               0               |            Beta_i             |
//	|                           Timestamp                           |
//	|       0       |    ExpTime    |          ConsIngress          |
//	|          ConsEgress           |               0               |
//
// sigma_i = MAC_{K_i}(InputData), MAC = AES-CMAC (RFC 4493), truncated to 6 bytes in the hop field.
// Generated packets and the MAC table handed to the Coq model use THIS function, so that "valid
// MAC" means the documented MAC; path.MAC / path.MACInput (the code under test) are compared with
// it on every case (`mac-layout` cases).

// RefMACInput is the documented 16-byte input block.
func RefMACInput(segID uint16, ts uint32, exp uint8, in, eg uint16) [16]byte {
	var b [16]byte
	// bytes 0,1: zero
	b[2] = byte(segID >> 8)
	b[3] = byte(segID & 0xff)
	b[4] = byte(ts >> 24)
	b[5] = byte((ts >> 16) & 0xff)
	b[6] = byte((ts >> 8) & 0xff)
	b[7] = byte(ts & 0xff)
	// byte 8: zero
	b[9] = exp
	b[10] = byte(in >> 8)
	b[11] = byte(in & 0xff)
	b[12] = byte(eg >> 8)
	b[13] = byte(eg & 0xff)
	// bytes 14,15: zero
	return b
}

func dbl(b [16]byte) [16]byte {
	var r [16]byte
	carry := b[0] >> 7
	for i := 0; i < 15; i++ {
		r[i] = b[i]<<1 | b[i+1]>>7
	}
	r[15] = b[15] << 1
	if carry == 1 {
		r[15] ^= 0x87
	}
	return r
}

// RefCMAC is AES-CMAC per RFC 4493 written directly over crypto/aes.
func RefCMAC(key, msg []byte) [16]byte {
	c, err := aes.NewCipher(key)
	if err != nil {
		panic(err)
	}
	var zero, l [16]byte
	c.Encrypt(l[:], zero[:])
	k1 := dbl(l)
	k2 := dbl(k1)
	n := (len(msg) + 15) / 16
	complete := n > 0 && len(msg)%16 == 0
	if n == 0 {
		n = 1
	}
	var x, last [16]byte
	for i := 0; i < n-1; i++ {
		subtle.XORBytes(x[:], x[:], msg[16*i:16*i+16])
		c.Encrypt(x[:], x[:])
	}
	rest := msg[16*(n-1):]
	if complete {
		subtle.XORBytes(last[:], rest, k1[:])
	} else {
		copy(last[:], rest)
		last[len(rest)] = 0x80
		subtle.XORBytes(last[:], last[:], k2[:])
	}
	subtle.XORBytes(x[:], x[:], last[:])
	c.Encrypt(x[:], x[:])
	return x
}

func init() {
	// RFC 4493 section 4, examples 1-3.
	key, _ := hex.DecodeString("2b7e151628aed2a6abf7158809cf4f3c")
	msg, _ := hex.DecodeString("6bc1bee22e409f96e93d7e117393172aae2d8a571e03ac9c9eb76fac45af8e5130c81c46a35ce411")
	for _, v := range []struct {
		n   int
		tag string
	}{{0, "bb1d6929e95937287fa37d129b756746"}, {16, "070a16b46b4d4144f79bdd9dd04a287c"},
		{40, "dfa66747de9ae63030ca32611497c827"}} {
		t := RefCMAC(key, msg[:v.n])
		if hex.EncodeToString(t[:]) != v.tag {
			panic("rtgen: reference AES-CMAC fails the RFC 4493 vectors")
		}
	}
}

// RefFullMAC is the documented 16-byte hop-field MAC under key.
func RefFullMAC(key []byte, segID uint16, ts uint32, exp uint8, in, eg uint16) [16]byte {
	b := RefMACInput(segID, ts, exp, in, eg)
	return RefCMAC(key, b[:])
}

// MAC is the documented (reference) hop-field MAC truncated to 6 bytes.
func MAC(key []byte, segID uint16, ts uint32, exp uint8, in, eg uint16) [6]byte {
	f := RefFullMAC(key, segID, ts, exp, in, eg)
	var m [6]byte
	copy(m[:], f[:6])
	return m
}

// ImplMACInput / ImplFullMAC are the code under test (pkg/slayers/path).
func ImplMACInput(segID uint16, ts uint32, exp uint8, in, eg uint16) [16]byte {
	var b [16]byte
	path.MACInput(segID, ts, exp, in, eg, b[:])
	return b
}

func ImplFullMAC(key []byte, segID uint16, ts uint32, exp uint8, in, eg uint16) [16]byte {
	h, err := scrypto.InitMac(key)
	if err != nil {
		panic(err)
	}
	f := path.FullMAC(h, path.InfoField{SegID: segID, Timestamp: ts},
		path.HopField{ExpTime: exp, ConsIngress: in, ConsEgress: eg}, nil)
	var r [16]byte
	copy(r[:], f)
	return r
}
