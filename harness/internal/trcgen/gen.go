package trcgen

import (
	"fmt"
	"sort"

	"verifharness/internal/vgen"
)

// ---------------------------------------------------------------- well-formed certificates

// Voter is a well-formed voting certificate (kind 1 sensitive, 2 regular).
func Voter(kind int, name Name, serial int64, key int, nb, na int64) Cert {
	return Cert{EKUs: []int{kind}, TS: true, PathLen: -1, SigAlgOK: true, SKID: key, AKID: 0,
		Subject: name, Issuer: name, Serial: serial, NB: nb, NA: na, Key: key}
}

// RootCert is a well-formed CP root certificate.
func RootCert(name Name, serial int64, key int, nb, na int64) Cert {
	return Cert{EKUs: []int{3}, CertSign: true, TS: true, BC: true, CA: true, PathLen: 1,
		SigAlgOK: true, SKID: key, AKID: key, Subject: name, Issuer: name, Serial: serial,
		NB: nb, NA: na, Key: key}
}

// CACert / ASCert: well-formed certificates of the classes that do not belong in a TRC.
func CACert(name, issuer Name, serial int64, key int, nb, na int64) Cert {
	return Cert{CertSign: true, BC: true, CA: true, PathLen: 0, SigAlgOK: true, SKID: key,
		AKID: 900, Subject: name, Issuer: issuer, Serial: serial, NB: nb, NA: na, Key: key}
}

func ASCert(name, issuer Name, serial int64, key int, nb, na int64) Cert {
	return Cert{DigSig: true, TS: true, PathLen: -1, SigAlgOK: true, SKID: key, AKID: 901,
		Subject: name, Issuer: issuer, Serial: serial, NB: nb, NA: na, Key: key}
}

// Normalize makes the abstract description one that crypto/x509 can produce
// and that it parses back to the same values.
func Normalize(c Cert) Cert {
	if !c.BC {
		c.CA, c.BCNonCrit = false, false
	}
	if !c.CA {
		c.PathLen = -1
	}
	if c.CA && c.SKID == 0 {
		c.SKID = 77 // crypto/x509 generates a subject key id for CA templates
	}
	if len(c.EKUs) == 0 {
		c.EKUs = nil
	}
	return c
}

// CertMutations is the number of single mutations MutateCert knows.
const CertMutations = 27

// MutateCert applies mutation k (0 <= k < CertMutations) and says what it did.
func MutateCert(r *vgen.Rand, c Cert, k int) (Cert, string) {
	c.EKUs = append([]int{}, c.EKUs...)
	what := ""
	switch k {
	case 0:
		c.EKUs = append(c.EKUs, vgen.Pick(r, 1, 2, 3))
		what = "eku-appended"
	case 1:
		c.EKUs = append([]int{vgen.Pick(r, 1, 2, 3)}, c.EKUs...)
		what = "eku-prepended"
	case 2:
		c.EKUs = nil
		what = "no-scion-eku"
	case 3:
		c.EKUs = append([]int{9}, c.EKUs...)
		what = "unrelated-eku-first"
	case 4:
		c.CertSign = !c.CertSign
		what = "certsign-flipped"
	case 5:
		c.DigSig = !c.DigSig
		what = "digsig-flipped"
	case 6:
		c.TS = !c.TS
		what = "timestamping-flipped"
	case 7:
		c.Client = true
		what = "client-auth"
	case 8:
		c.Server = true
		what = "server-auth"
	case 9:
		c.BC, c.CA = true, !c.CA
		what = "is-ca-flipped"
	case 10:
		c.BC = !c.BC
		what = "basic-constraints-flipped"
	case 11:
		if c.CA {
			c.PathLen = vgen.Pick(r, -1, 0, 1, 2)
		} else {
			c.BC, c.CA, c.PathLen = true, true, vgen.Pick(r, 0, 1)
		}
		what = "pathlen"
	case 12:
		c.BC, c.BCNonCrit = true, true
		what = "basic-constraints-not-critical"
	case 13:
		c.SigAlgOK = false
		what = "signature-algorithm"
	case 14:
		c.SKID = 0
		what = "no-subject-key-id"
	case 15:
		c.AKID = 0
		what = "no-authority-key-id"
	case 16:
		c.AKID = c.SKID
		what = "authority-key-id-own"
	case 17:
		c.AKID = c.SKID + 500
		what = "authority-key-id-other"
	case 18:
		c.Subject.IA = IA{}
		what = "subject-without-ia"
	case 19:
		c.Subject.IA = IA{Kind: 1}
		what = "subject-ia-bad"
	case 20:
		c.Subject.IA = vgen.Pick(r, IA{Kind: 2, ISD: 0, AS: 5}, IA{Kind: 2, ISD: 1, AS: 0})
		what = "subject-ia-wildcard"
	case 21:
		c.Issuer.IA = IA{}
		what = "issuer-without-ia"
	case 22:
		c.Issuer.IA = IA{Kind: 1}
		what = "issuer-ia-bad"
	case 23:
		c.Issuer.IA = vgen.Pick(r, IA{Kind: 2, ISD: 0, AS: 5}, IA{Kind: 2, ISD: 1, AS: 0})
		what = "issuer-ia-wildcard"
	case 24:
		c.Issuer = Name{ID: c.Issuer.ID + 100, IA: c.Issuer.IA}
		what = "other-issuer"
	case 25:
		c.EKUs = []int{vgen.Pick(r, 1, 2, 3)}
		what = "other-scion-eku"
	case 26:
		c.CertSign, c.DigSig = true, true
		what = "certsign-and-digsig"
	}
	return Normalize(c), what
}

// ---------------------------------------------------------------- well-formed TRCs

// ASes used for core / authoritative lists and ISD-AS attributes.
func asNum(i int) uint64 { return 0x100 + uint64(i) }

// Shape describes the certificate population of a generated TRC.
type Shape struct {
	Sens, Reg, Root int
}

// GenTRC draws a valid TRC for the ISD: base or update (serial > base).
// Names get ids from nameBase on, keys likewise, so that two calls with
// different bases produce disjoint certificates.
func GenTRC(r *vgen.Rand, isd uint64, baseTRC bool, sh Shape, nameBase int) TRC {
	nb := int64(r.Intn(1000)) * 60
	na := nb + int64(r.Range(1, 500))*360
	t := TRC{Version: 1, ISD: isd, NB: nb, NA: na, NoTrustReset: r.Bool(),
		Description: vgen.Pick(r, "", "ISD description", "Beschreibung äöü 中文", "x")}
	t.Base = uint64(r.Range(1, 3))
	if r.Chance(1, 20) {
		t.Base = uint64(1) << uint(r.Range(20, 62))
	}
	t.Serial = t.Base
	if !baseTRC {
		t.Serial = t.Base + uint64(r.Range(1, 4))
		t.Grace = int64(r.Intn(4)) * 1800
	}
	nc := r.Range(1, 3)
	for i := 0; i < nc; i++ {
		t.Core = append(t.Core, asNum(i+r.Intn(2)*10))
	}
	t.Core = dedup(t.Core)
	vgen.Shuffle(r, t.Core)
	for _, a := range t.Core {
		if len(t.Auth) == 0 || r.Bool() {
			t.Auth = append(t.Auth, a)
		}
	}
	id := nameBase
	mk := func(kind int) Cert {
		id++
		ia := IA{Kind: 2, ISD: isd, AS: asNum(id % 7)}
		if kind != 3 && r.Chance(1, 4) {
			ia = IA{}
		}
		n := Name{ID: id, IA: ia}
		cnb := nb - int64(r.Intn(3))*360
		cna := na + int64(r.Intn(3))*360
		if kind == 3 {
			return RootCert(n, int64(1000+id), id, cnb, cna)
		}
		c := Voter(kind, n, int64(1000+id), id, cnb, cna)
		if r.Chance(1, 3) {
			c.AKID = c.SKID
		}
		return c
	}
	for i := 0; i < sh.Sens; i++ {
		t.Certs = append(t.Certs, mk(1))
	}
	for i := 0; i < sh.Reg; i++ {
		t.Certs = append(t.Certs, mk(2))
	}
	for i := 0; i < sh.Root; i++ {
		t.Certs = append(t.Certs, mk(3))
	}
	vgen.Shuffle(r, t.Certs)
	m := sh.Sens
	if sh.Reg < m {
		m = sh.Reg
	}
	t.Quorum = int64(r.Range(1, m))
	if !baseTRC {
		// some votes (validity of the payload does not depend on them)
		nv := r.Range(0, 3)
		for i := 0; i < nv; i++ {
			t.Votes = append(t.Votes, int64(r.Intn(len(t.Certs)+1)))
		}
	}
	return t
}

func RandShape(r *vgen.Rand) Shape {
	return Shape{Sens: r.Range(1, 3), Reg: r.Range(1, 3), Root: r.Range(1, 2)}
}

func dedup(xs []uint64) []uint64 {
	seen := map[uint64]bool{}
	var out []uint64
	for _, x := range xs {
		if !seen[x] {
			seen[x] = true
			out = append(out, x)
		}
	}
	return out
}

// CloneTRC copies the slices.
func CloneTRC(t TRC) TRC {
	t.Votes = append([]int64{}, t.Votes...)
	t.Core = append([]uint64{}, t.Core...)
	t.Auth = append([]uint64{}, t.Auth...)
	cs := make([]Cert, len(t.Certs))
	for i, c := range t.Certs {
		c.EKUs = append([]int{}, c.EKUs...)
		cs[i] = c
	}
	t.Certs = cs
	return t
}

// TRCMutations is the number of single payload mutations MutateTRC knows.
const TRCMutations = 33

func classOf(c Cert) int {
	if len(c.EKUs) > 0 {
		return c.EKUs[0]
	}
	return 0
}

func pickClass(r *vgen.Rand, t TRC, kind int) int {
	var idx []int
	for i, c := range t.Certs {
		if kind == 0 || classOf(c) == kind {
			idx = append(idx, i)
		}
	}
	if len(idx) == 0 {
		return 0
	}
	return idx[r.Intn(len(idx))]
}

// MutateTRC applies payload mutation k; each aims at one rule of TRC.Validate.
func MutateTRC(r *vgen.Rand, t TRC, k int) (TRC, string) {
	t = CloneTRC(t)
	what := ""
	switch k {
	case 0:
		t.Version = vgen.Pick(r, int64(0), 2, -1, 3)
		what = "version"
	case 1:
		t.ISD = 0
		what = "isd-wildcard"
	case 2:
		t.Base, t.Serial = 0, uint64(r.Intn(2))
		what = "base-zero"
	case 3:
		t.Base = t.Serial + uint64(r.Range(1, 2))
		what = "base-after-serial"
	case 4:
		t.NA = t.NB - int64(r.Intn(2))*360
		what = "validity-empty"
	case 5:
		t.Serial, t.Grace, t.Votes = t.Base, int64(r.Range(1, 3))*600*int64(vgen.Pick(r, 1, 1, -1)), nil
		what = "base-with-grace"
	case 6:
		t.Serial, t.Grace, t.Votes = t.Base, 0, []int64{int64(r.Intn(3))}
		what = "base-with-votes"
	case 7:
		t.Quorum = vgen.Pick(r, int64(0), -1, -2, 256, 1000)
		what = "quorum-out-of-range"
	case 8:
		n := 0
		for _, c := range t.Certs {
			if classOf(c) == 1 {
				n++
			}
		}
		t.Quorum = int64(n + 1)
		what = "quorum-above-sensitive"
	case 9:
		n := 0
		for _, c := range t.Certs {
			if classOf(c) == 2 {
				n++
			}
		}
		t.Quorum = int64(n + 1)
		what = "quorum-above-regular"
	case 10:
		t.Core = nil
		what = "core-empty"
	case 11:
		if len(t.Core) == 0 {
			t.Core = []uint64{1}
		}
		t.Core[r.Intn(len(t.Core))] = 0
		what = "core-wildcard"
	case 12:
		if len(t.Core) == 0 {
			t.Core = []uint64{1}
		}
		t.Core = append(t.Core, t.Core[r.Intn(len(t.Core))])
		vgen.Shuffle(r, t.Core)
		what = "core-duplicate"
	case 13:
		t.Auth = nil
		what = "auth-empty"
	case 14:
		if len(t.Auth) == 0 {
			t.Auth = []uint64{1}
		}
		t.Auth[r.Intn(len(t.Auth))] = 0
		what = "auth-wildcard"
	case 15:
		if len(t.Auth) == 0 {
			t.Auth = []uint64{1}
		}
		t.Auth = append(t.Auth, t.Auth[r.Intn(len(t.Auth))])
		what = "auth-duplicate"
	case 16:
		i := pickClass(r, t, 0)
		var w string
		t.Certs[i], w = MutateCert(r, t.Certs[i], r.Intn(CertMutations))
		what = "cert-" + w
	case 17:
		n := Name{ID: 900 + r.Intn(5), IA: IA{Kind: 2, ISD: t.ISD, AS: asNum(1)}}
		iss := Name{ID: 950, IA: IA{Kind: 2, ISD: t.ISD, AS: asNum(2)}}
		c := CACert(n, iss, 4242, 60, t.NB-10, t.NA+10)
		if r.Bool() {
			c = ASCert(n, iss, 4243, 61, t.NB-10, t.NA+10)
		}
		t.Certs = insertAt(t.Certs, r.Intn(len(t.Certs)+1), c)
		what = "ca-or-as-certificate"
	case 18:
		i := pickClass(r, t, 0)
		if t.Certs[i].Subject.IA.Kind != 2 {
			i = pickClass(r, t, 3)
		}
		self := t.Certs[i].Subject == t.Certs[i].Issuer
		t.Certs[i].Subject.IA.ISD = t.ISD + 1
		if t.ISD >= 65535 {
			t.Certs[i].Subject.IA.ISD = t.ISD - 1
		}
		if self {
			t.Certs[i].Issuer = t.Certs[i].Subject
		}
		what = "cert-other-isd"
	case 19:
		i := pickClass(r, t, 0)
		t.Certs[i].NB = t.NB + int64(r.Range(1, 3))
		what = "cert-starts-late"
	case 20:
		i := pickClass(r, t, 0)
		t.Certs[i].NA = t.NA - int64(r.Range(1, 3))
		what = "cert-ends-early"
	case 21:
		i := pickClass(r, t, 0)
		j := pickClass(r, t, 0)
		if i == j {
			j = (i + 1) % len(t.Certs)
		}
		t.Certs[j].Issuer, t.Certs[j].Serial = t.Certs[i].Issuer, t.Certs[i].Serial
		what = "duplicate-issuer-serial"
	case 22:
		kind := r.Range(1, 3)
		i := pickClass(r, t, kind)
		c := t.Certs[i]
		c.Serial += 5000
		c.Key += 300
		c.SKID = c.Key
		if c.AKID != 0 {
			c.AKID = c.SKID
		}
		t.Certs = insertAt(t.Certs, r.Intn(len(t.Certs)+1), c)
		what = fmt.Sprintf("duplicate-subject-class-%d", kind)
	// the remaining mutations keep the payload valid (boundaries of the rules)
	case 23:
		i := pickClass(r, t, 0)
		t.Certs[i].NB, t.Certs[i].NA = t.NB, t.NA
		what = "ok-cert-validity-equal"
	case 24:
		// same subject in another class is allowed
		i := pickClass(r, t, 1)
		c := t.Certs[i]
		c.EKUs = []int{2}
		c.Serial += 7000
		c.Key += 400
		c.SKID = c.Key
		if c.AKID != 0 {
			c.AKID = c.SKID
		}
		t.Certs = insertAt(t.Certs, r.Intn(len(t.Certs)+1), c)
		what = "ok-same-subject-other-class"
	case 25:
		// same ordinary attributes, other ISD-AS: a different distinguished name
		i := pickClass(r, t, r.Range(1, 3))
		c := t.Certs[i]
		self := c.Subject == c.Issuer
		c.Subject.IA = IA{Kind: 2, ISD: t.ISD, AS: asNum(40 + r.Intn(3))}
		if self {
			c.Issuer = c.Subject
		}
		c.Key += 450
		c.SKID = c.Key
		if c.AKID != 0 {
			c.AKID = c.SKID
		}
		t.Certs = insertAt(t.Certs, r.Intn(len(t.Certs)+1), c)
		what = "ok-same-name-other-ia"
	case 26:
		// same serial, other issuer
		i := pickClass(r, t, 0)
		j := (i + 1) % len(t.Certs)
		t.Certs[j].Serial = t.Certs[i].Serial
		what = "ok-same-serial-other-issuer"
	case 27:
		t.NA = t.NB + 1
		what = "ok-validity-one-second"
	case 28:
		if t.Serial != t.Base {
			t.Grace = vgen.Pick(r, int64(0), -600, 1<<30)
			t.Votes = nil
		}
		what = "ok-update-grace-and-no-votes"
	case 29:
		t.Auth = append(t.Auth, asNum(90))
		what = "ok-authoritative-not-core"
	case 30, 31:
		// issuer+serial collision among three or four certificates that all share the serial
		// number: two with the same issuer, the other(s) with different issuers, in every
		// relative order (30: the different issuer between the two equal ones)
		n := 3
		if k == 31 && len(t.Certs) >= 4 && r.Bool() {
			n = 4
		}
		perm := make([]int, len(t.Certs))
		for i := range perm {
			perm[i] = i
		}
		vgen.Shuffle(r, perm)
		idx := append([]int{}, perm[:n]...)
		sort.Ints(idx)
		donor := t.Certs[pickClass(r, t, 3)] // a root: its issuer name carries an ISD-AS
		first, second := 0, n-1              // positions (within idx) of the two colliding certificates
		if k == 31 {
			first = r.Intn(n)
			second = (first + 1 + r.Intn(n-1)) % n
		}
		for x, i := range idx {
			t.Certs[i].Serial = 4711
			if x == first || x == second {
				t.Certs[i].Issuer = donor.Issuer
			} else {
				t.Certs[i].Issuer = Name{ID: 600 + x, IA: donor.Issuer.IA}
			}
		}
		what = fmt.Sprintf("duplicate-issuer-serial-among-%d-at-%d-%d", n, first, second)
	case 32:
		// a second certificate for a subject of the same class whose distinguished name is
		// DER-encoded differently (UTF8String instead of PrintableString values): same name
		kind := r.Range(1, 3)
		c := OtherEncoding(t.Certs[pickClass(r, t, kind)])
		t.Certs = insertAt(t.Certs, r.Intn(len(t.Certs)+1), c)
		what = fmt.Sprintf("duplicate-subject-other-encoding-class-%d", kind)
	}
	return t, what
}

func insertAt(cs []Cert, i int, c Cert) []Cert {
	out := append([]Cert{}, cs[:i]...)
	out = append(out, c)
	return append(out, cs[i:]...)
}

// Boundaries is the number of boundary payloads Boundary knows.
const Boundaries = 30

const (
	MaxISD   = 65535
	MaxAS    = 1<<48 - 1
	maxInt63 = 1<<63 - 1
	// last second of year 9999 / first second of year 1 relative to T0 (GeneralizedTime range)
	endOfTime = 253402300799 - T0
)

// Boundary returns a VALID payload sitting on boundary k of a documented
// range (ISD 1..65535, base/serial 1..2^63-1, quorum, grace period, validity,
// AS numbers 1..2^48-1, description length, vote indices).
func Boundary(r *vgen.Rand, k int) (TRC, string) {
	isd := uint64(1)
	switch k {
	case 0, 4, 8, 12, 16, 20, 24:
		isd = 1
	case 1, 5, 9, 13, 17, 21, 25:
		isd = 2
	case 2, 6, 10, 14, 18, 22, 26:
		isd = MaxISD - 1
	default:
		isd = MaxISD
	}
	base := k%8 < 4
	t := GenTRC(r, isd, base, RandShape(r), 0)
	what := fmt.Sprintf("isd-%d", isd)
	setSerial := func(b, s uint64) {
		t.Base, t.Serial = b, s
		if b == s {
			t.Grace, t.Votes = 0, nil
		}
	}
	widen := func() {
		for i := range t.Certs {
			t.Certs[i].NB, t.Certs[i].NA = t.NB, t.NA
		}
	}
	switch k {
	case 0, 1, 2, 3:
		setSerial(1, 1)
		what += "+base-serial-1"
	case 4, 5, 6, 7:
		setSerial(1, 2)
		t.Grace = 0
		what += "+serial-2-grace-0"
	case 8, 9:
		setSerial(maxInt63, maxInt63)
		what += "+base-serial-max"
	case 10, 11:
		setSerial(1<<31, 1<<31)
		what += "+base-serial-2^31"
	case 12, 13:
		setSerial(1, maxInt63)
		t.Grace = 9000000000
		what += "+serial-max-grace-large"
	case 14, 15:
		setSerial(maxInt63-1, maxInt63)
		t.Grace = 1
		t.Votes = []int64{0, maxInt63, -1 << 63}
		what += "+base-max-1-vote-indices-extreme"
	case 16, 17, 18, 19:
		t.Quorum = 1
		t.NB, t.NA = -T0, endOfTime
		widen()
		what += "+quorum-1-validity-epoch-to-9999"
	case 20, 21, 22, 23:
		m := 0
		n := 0
		for _, c := range t.Certs {
			switch classOf(c) {
			case 1:
				m++
			case 2:
				n++
			}
		}
		if n < m {
			m = n
		}
		t.Quorum = int64(m)
		t.NA = t.NB + 1
		widen()
		t.Core = []uint64{1, MaxAS, 1<<32 - 1, 1 << 32}
		t.Auth = []uint64{MaxAS}
		what += "+quorum-max-validity-1s-as-boundaries"
	default:
		t.Description = string(make([]rune, 0))
		for len(t.Description) < 1024 {
			t.Description += "0123456789abcdef"
		}
		t.Core = []uint64{MaxAS, 1}
		t.Auth = []uint64{1}
		for i := range t.Certs {
			if t.Certs[i].Subject.IA.Kind == 2 {
				self := t.Certs[i].Subject == t.Certs[i].Issuer
				t.Certs[i].Subject.IA.AS = vgen.Pick(r, uint64(1), MaxAS, 1<<32-1, 1<<32)
				if self {
					t.Certs[i].Issuer = t.Certs[i].Subject
				}
			}
		}
		what += "+description-1024-cert-as-boundaries"
	}
	return t, what
}

// OtherEncoding returns a certificate for the same subject (as a name) with a new key and
// serial whose subject is encoded with the other ASN.1 string type.
func OtherEncoding(c Cert) Cert {
	c.EKUs = append([]int{}, c.EKUs...)
	c.UTF8 = !c.UTF8
	c.Serial += 9000
	c.Key += 470
	c.SKID = c.Key
	if c.AKID != 0 {
		c.AKID = c.SKID
	}
	return c
}
