// Package trcgen (C32, C33) compiles abstract descriptions of SCION
// control-plane PKI objects (the records of coq/theories/Model/PKI.v) into the
// real things: ECDSA P-256 keys, x509 certificates of every class (well-formed
// and mis-issued), TRC payloads and CMS signer infos. The abstract description
// is what the Gallina model receives; the real object is what the
// implementation receives. Keys and signatures are random; nothing that is
// compared depends on them.
package trcgen

import (
	"crypto"
	"crypto/ecdsa"
	"crypto/ed25519"
	"crypto/elliptic"
	"crypto/rand"
	"crypto/x509"
	"crypto/x509/pkix"
	"encoding/asn1"
	"fmt"
	"math/big"
	"time"

	"github.com/scionproto/scion/pkg/addr"
	"github.com/scionproto/scion/pkg/scrypto"
	"github.com/scionproto/scion/pkg/scrypto/cms/protocol"
	"github.com/scionproto/scion/pkg/scrypto/cppki"
	"verifharness/internal/vgen"
)

// ---------------------------------------------------------------- abstract objects

// IA is the ISD-AS attribute of a distinguished name.
// Kind 0 = absent, 1 = present but rejected by findIA (unparsable / not
// canonical), 2 = present with the given numbers (0 parts = wildcard).
type IA struct {
	Kind    int
	ISD, AS uint64
}

// Name is a distinguished name: the ordinary attributes (country,
// organisation, common name) are determined by ID, the ISD-AS attribute by IA.
type Name struct {
	ID int
	IA IA
}

// Cert is the abstract certificate (PKI.acert). Raw is assigned by the factory.
type Cert struct {
	EKUs               []int // unknown ext key usages in order: 1 sensitive, 2 regular, 3 root, other = unrelated OID
	CertSign, DigSig   bool
	TS, Client, Server bool
	BC, CA             bool
	PathLen            int // -1 = absent
	BCNonCrit          bool
	SigAlgOK           bool
	SKID               int // 0 = absent
	AKID               int // 0 = absent
	Subject, Issuer    Name
	Serial             int64
	NB, NA             int64 // unix seconds
	Key                int   // id of the certified public key (>= 1)
	Nonce              int   // distinguishes re-issued certificates with identical content
	UTF8               bool  // the subject is DER-encoded with UTF8String values (as openssl writes them)
	// instead of PrintableString: same parsed name, other bytes; not part of the model
	Raw int // identity of the DER bytes (assigned by Factory.Build)
}

func (c Cert) memoKey() string {
	c.Raw = 0
	return fmt.Sprintf("%+v", c)
}

// TRC is the abstract payload (PKI.trc).
type TRC struct {
	Version           int64
	ISD, Base, Serial uint64
	NB, NA            int64 // unix seconds
	Grace             int64 // seconds
	NoTrustReset      bool
	Votes             []int64
	Quorum            int64
	Core, Auth        []uint64
	Description       string
	Certs             []Cert
}

// SI is the abstract signer info (PKI.sinfo).
// Kind 1: issuer and serial number (claims Issuer/Serial); Kind 3: subject key
// identifier (claims SKI, the id of a byte string; ids >= 1000 never equal a
// certificate's extension value); any other Kind: unsupported version.
type SI struct {
	Kind     int
	Issuer   Name
	Serial   int64
	SKI      int
	DigestOK bool
	Key      int // id of the key that produced the signature, 0 = garbage signature
}

// ---------------------------------------------------------------- Gallina printers

func gb(b bool) string { return vgen.B(b) }

func (ia IA) Gallina() string {
	switch ia.Kind {
	case 0:
		return "PKI.IANone"
	case 1:
		return "PKI.IABad"
	default:
		return fmt.Sprintf("(PKI.IASome %d %d)", ia.ISD, ia.AS)
	}
}

func (n Name) Gallina() string {
	return fmt.Sprintf("(PKI.mkname %d %s)", n.ID, n.IA.Gallina())
}

func zlist(xs []int) string {
	return vgen.ListOf(xs, func(v int) string { return vgen.Z(int64(v)) })
}

func (c Cert) Gallina() string {
	return vgen.App("PKI.mkcert", zlist(c.EKUs), gb(c.CertSign), gb(c.DigSig), gb(c.TS), gb(c.Client),
		gb(c.Server), gb(c.BC), gb(c.CA), vgen.Z(int64(c.PathLen)), gb(c.BCNonCrit), gb(c.SigAlgOK),
		vgen.Z(int64(c.SKID)), vgen.Z(int64(c.AKID)),
		c.Subject.Gallina(), c.Issuer.Gallina(), vgen.Z(c.Serial), vgen.Z(c.NB), vgen.Z(c.NA),
		vgen.Z(int64(c.Raw)), vgen.Z(int64(c.Key)))
}

func u64(v uint64) string { return fmt.Sprint(v) }

func (t TRC) Gallina() string {
	return vgen.App("PKI.mktrc", vgen.Z(t.Version), u64(t.ISD), u64(t.Base), u64(t.Serial),
		vgen.Z(t.NB), vgen.Z(t.NA), vgen.Z(t.Grace), gb(t.NoTrustReset),
		vgen.ListOf(t.Votes, vgen.Z), vgen.Z(t.Quorum),
		vgen.ListOf(t.Core, u64), vgen.ListOf(t.Auth, u64),
		vgen.ListOf(t.Certs, Cert.Gallina))
}

func (s SI) Gallina() string {
	return vgen.App("PKI.mksi", vgen.Z(int64(s.Kind)), s.Issuer.Gallina(), vgen.Z(s.Serial),
		vgen.Z(int64(s.SKI)), gb(s.DigestOK), vgen.Z(int64(s.Key)))
}

// ---------------------------------------------------------------- factory

// Factory owns the keys and memoises certificates: the same abstract content
// always yields the same DER bytes (and the same Raw id), different content
// different bytes.
type Factory struct {
	keys   map[int]*ecdsa.PrivateKey
	edKey  ed25519.PrivateKey
	certs  map[string]*built
	own    map[int]*x509.Certificate
	byDER  map[string]int
	nextID int
}

// RawID returns the Raw id of a certificate built by this factory (0 if unknown).
func (f *Factory) RawID(x *x509.Certificate) int { return f.byDER[string(x.Raw)] }

type built struct {
	raw  int
	cert *x509.Certificate
}

func NewFactory() *Factory {
	_, ed, err := ed25519.GenerateKey(rand.Reader)
	must(err)
	return &Factory{keys: map[int]*ecdsa.PrivateKey{}, edKey: ed, certs: map[string]*built{},
		own: map[int]*x509.Certificate{}, byDER: map[string]int{}}
}

// NumCerts is the number of distinct certificates built so far.
func (f *Factory) NumCerts() int { return len(f.certs) }

// Key returns the private key with the given id (>= 1).
func (f *Factory) Key(id int) *ecdsa.PrivateKey {
	if k, ok := f.keys[id]; ok {
		return k
	}
	k, err := ecdsa.GenerateKey(elliptic.P256(), rand.Reader)
	must(err)
	f.keys[id] = k
	return k
}

// KeyID maps an abstract key identifier id to bytes (nil for 0).
func KeyID(id int) []byte {
	if id == 0 {
		return nil
	}
	b := make([]byte, 20)
	for i := range b {
		b[i] = byte(id + 7*i)
	}
	b[0], b[1] = byte(id>>8), byte(id)
	return b
}

var oidUnrelated = asn1.ObjectIdentifier{1, 3, 6, 1, 4, 1, 55324, 1, 3, 77}

func (n Name) iaString() string {
	if n.IA.Kind == 1 {
		switch n.ID % 3 {
		case 0:
			return "1-0:0:1" // not canonical
		case 1:
			return "1-ff00:0:zzz" // unparsable
		default:
			return "garbage"
		}
	}
	return fmt.Sprintf("%d-%s", n.IA.ISD, RealAS(n.IA.AS))
}

// RealAS maps the abstract AS number to the AS number used in the real objects.
// Abstract numbers are kept small because coqc spends its time parsing
// literals: 0 = wildcard, 1..255 = themselves (BGP range, lower boundary),
// 256..65535 = ff00:0:0 + a, anything larger = itself (2^32-1, 2^32, 2^48-1 ...).
func RealAS(a uint64) addr.AS {
	switch {
	case a < 0x100 || a >= 0x10000:
		return addr.AS(a)
	default:
		return addr.AS(0xff0000000000 + a)
	}
}

// T0 is the origin of the abstract time axis (whole seconds).
const T0 = int64(1700000000)

// PKIX builds the distinguished name.
func (n Name) PKIX() pkix.Name {
	p := pkix.Name{
		Country:      []string{"CH"},
		Organization: []string{fmt.Sprintf("org %d", n.ID/4)},
		CommonName:   fmt.Sprintf("subject %d", n.ID),
	}
	if n.IA.Kind != 0 {
		p.ExtraNames = []pkix.AttributeTypeAndValue{{Type: cppki.OIDNameIA, Value: n.iaString()}}
	}
	return p
}

// RawUTF8 encodes the same distinguished name as PKIX, attribute values as UTF8String.
func (n Name) RawUTF8() []byte {
	str := func(v string) asn1.RawValue {
		return asn1.RawValue{Class: asn1.ClassUniversal, Tag: asn1.TagUTF8String, Bytes: []byte(v)}
	}
	seq := pkix.RDNSequence{
		{{Type: asn1.ObjectIdentifier{2, 5, 4, 6}, Value: str("CH")}},
		{{Type: asn1.ObjectIdentifier{2, 5, 4, 10}, Value: str(fmt.Sprintf("org %d", n.ID/4))}},
		{{Type: asn1.ObjectIdentifier{2, 5, 4, 3}, Value: str(fmt.Sprintf("subject %d", n.ID))}},
	}
	if n.IA.Kind != 0 {
		seq = append(seq, pkix.RelativeDistinguishedNameSET{{Type: cppki.OIDNameIA, Value: str(n.iaString())}})
	}
	raw, err := asn1.Marshal(seq)
	must(err)
	return raw
}

func ts(sec int64) time.Time { return time.Unix(T0+sec, 0).UTC() }

type basicConstraints struct {
	IsCA       bool `asn1:"optional"`
	MaxPathLen int  `asn1:"optional,default:-1"`
}

// Build returns the real certificate for c and c with Raw filled in.
func (f *Factory) Build(c Cert) (*x509.Certificate, Cert) {
	k := c.memoKey()
	if b, ok := f.certs[k]; ok {
		c.Raw = b.raw
		return b.cert, c
	}
	tmpl := &x509.Certificate{
		SerialNumber:          big.NewInt(c.Serial),
		Subject:               c.Subject.PKIX(),
		NotBefore:             ts(c.NB),
		NotAfter:              ts(c.NA),
		BasicConstraintsValid: c.BC && !c.BCNonCrit,
		IsCA:                  c.CA,
		MaxPathLen:            c.PathLen,
		MaxPathLenZero:        c.PathLen == 0,
		SubjectKeyId:          KeyID(c.SKID),
		AuthorityKeyId:        KeyID(c.AKID),
	}
	if c.UTF8 {
		tmpl.RawSubject = c.Subject.RawUTF8()
	}
	if c.BC && !c.CA && c.PathLen >= 0 {
		panic("trcgen: crypto/x509 cannot encode a path length on a non-CA certificate")
	}
	if c.CertSign {
		tmpl.KeyUsage |= x509.KeyUsageCertSign
	}
	if c.DigSig {
		tmpl.KeyUsage |= x509.KeyUsageDigitalSignature
	}
	if c.TS {
		tmpl.ExtKeyUsage = append(tmpl.ExtKeyUsage, x509.ExtKeyUsageTimeStamping)
	}
	if c.Client {
		tmpl.ExtKeyUsage = append(tmpl.ExtKeyUsage, x509.ExtKeyUsageClientAuth)
	}
	if c.Server {
		tmpl.ExtKeyUsage = append(tmpl.ExtKeyUsage, x509.ExtKeyUsageServerAuth)
	}
	for _, e := range c.EKUs {
		switch e {
		case 1:
			tmpl.UnknownExtKeyUsage = append(tmpl.UnknownExtKeyUsage, cppki.OIDExtKeyUsageSensitive)
		case 2:
			tmpl.UnknownExtKeyUsage = append(tmpl.UnknownExtKeyUsage, cppki.OIDExtKeyUsageRegular)
		case 3:
			tmpl.UnknownExtKeyUsage = append(tmpl.UnknownExtKeyUsage, cppki.OIDExtKeyUsageRoot)
		default:
			tmpl.UnknownExtKeyUsage = append(tmpl.UnknownExtKeyUsage, oidUnrelated)
		}
	}
	if c.BC && c.BCNonCrit {
		v, err := asn1.Marshal(basicConstraints{IsCA: c.CA, MaxPathLen: c.PathLen})
		must(err)
		tmpl.ExtraExtensions = append(tmpl.ExtraExtensions,
			pkix.Extension{Id: cppki.OIDExtensionBasicConstraints, Critical: false, Value: v})
	}
	// The issuer: a synthetic parent carrying the wanted issuer name and key id.
	// TRC validation never checks certificate signatures, so the issuing key is
	// arbitrary: an ECDSA key (allowed algorithm) or an Ed25519 key (not allowed).
	parent := &x509.Certificate{Subject: c.Issuer.PKIX(), SubjectKeyId: KeyID(c.AKID)}
	var signer crypto.Signer = f.Key(9000)
	if !c.SigAlgOK {
		signer = f.edKey
	}
	der, err := x509.CreateCertificate(rand.Reader, tmpl, parent, f.Key(c.Key).Public(), signer)
	must(err)
	cert, err := x509.ParseCertificate(der)
	must(err)
	if c.UTF8 {
		// the generator's premise: other bytes, same name
		plain := c.Subject.PKIX()
		if cert.Subject.String() != plain.String() && cert.Subject.CommonName != plain.CommonName {
			panic("trcgen: UTF8String subject does not parse to the same name")
		}
	}
	f.nextID++
	f.certs[k] = &built{raw: f.nextID, cert: cert}
	f.byDER[string(cert.Raw)] = f.nextID
	c.Raw = f.nextID
	return cert, c
}

// BuildTRC compiles the payload. Certificates get their Raw ids; the returned
// abstract TRC is the one to print. Raw is left empty.
func (f *Factory) BuildTRC(t TRC) (cppki.TRC, TRC) {
	out := cppki.TRC{
		Version: int(t.Version),
		ID: cppki.TRCID{ISD: addr.ISD(t.ISD), Base: scrypto.Version(t.Base),
			Serial: scrypto.Version(t.Serial)},
		Validity:          cppki.Validity{NotBefore: ts(t.NB), NotAfter: ts(t.NA)},
		GracePeriod:       time.Duration(t.Grace) * time.Second,
		NoTrustReset:      t.NoTrustReset,
		Quorum:            int(t.Quorum),
		Description:       t.Description,
		Votes:             []int{},
		CoreASes:          []addr.AS{},
		AuthoritativeASes: []addr.AS{},
	}
	for _, v := range t.Votes {
		out.Votes = append(out.Votes, int(v))
	}
	for _, a := range t.Core {
		out.CoreASes = append(out.CoreASes, RealAS(a))
	}
	for _, a := range t.Auth {
		out.AuthoritativeASes = append(out.AuthoritativeASes, RealAS(a))
	}
	cs := make([]Cert, len(t.Certs))
	for i, c := range t.Certs {
		x, c2 := f.Build(c)
		cp := *x // every position gets its own *x509.Certificate, as after decoding
		out.Certificates = append(out.Certificates, &cp)
		cs[i] = c2
	}
	t.Certs = cs
	return out, t
}

// ---------------------------------------------------------------- signer infos

func (f *Factory) ownCert(keyID int) *x509.Certificate {
	if x, ok := f.own[keyID]; ok {
		return x
	}
	key := f.Key(keyID)
	tmpl := &x509.Certificate{SerialNumber: big.NewInt(1), Subject: pkix.Name{CommonName: "signer"},
		NotBefore: ts(-1000000), NotAfter: ts(1000000000)}
	der, err := x509.CreateCertificate(rand.Reader, tmpl, tmpl, key.Public(), key)
	must(err)
	x, err := x509.ParseCertificate(der)
	must(err)
	f.own[keyID] = x
	return x
}

// BuildSI makes the real signer info over payload. The SID of kind 1 is taken
// from a made-up certificate carrying the claimed issuer name and serial
// number (the encoding of a name is a function of the abstract name).
func (f *Factory) BuildSI(s SI, payload []byte) protocol.SignerInfo {
	keyID := s.Key
	if keyID == 0 {
		keyID = 8999
	}
	key := f.Key(keyID)
	pld := payload
	if !s.DigestOK {
		pld = append(append([]byte{}, payload...), 0x00)
	}
	eci, err := protocol.NewDataEncapsulatedContentInfo(pld)
	must(err)
	sd, err := protocol.NewSignedData(eci)
	must(err)
	must(sd.AddSignerInfo([]*x509.Certificate{f.ownCert(keyID)}, key))
	si := sd.SignerInfos[0]
	if s.Key == 0 {
		si.Signature = append([]byte{}, si.Signature...)
		si.Signature[len(si.Signature)-3] ^= 0x5a
	}
	switch s.Kind {
	case 3:
		si.Version = 3
		var content []byte
		if s.SKI >= 1000 {
			content = KeyID(s.SKI - 1000) // the bare key identifier (what RFC 5652 prescribes)
		} else {
			content, err = asn1.Marshal(KeyID(s.SKI)) // the extension value (what FindCertificate compares)
			must(err)
		}
		si.SID = reparse(asn1.RawValue{Class: asn1.ClassContextSpecific, Tag: 0, Bytes: content})
	default:
		si.Version = s.Kind
		x, _ := f.Build(Cert{EKUs: []int{1}, TS: true, PathLen: -1, SigAlgOK: true, SKID: 1,
			Subject: s.Issuer, Issuer: s.Issuer, Serial: s.Serial, NB: -1000000, NA: 1000000000, Key: 8998})
		si.SID, err = protocol.NewIssuerAndSerialNumber(x)
		must(err)
	}
	return si
}

func reparse(rv asn1.RawValue) asn1.RawValue {
	der, err := asn1.Marshal(rv)
	must(err)
	var out asn1.RawValue
	_, err = asn1.Unmarshal(der, &out)
	must(err)
	return out
}

func must(err error) {
	if err != nil {
		panic(err)
	}
}
