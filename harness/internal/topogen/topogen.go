// Package topogen generates small random SCION topologies and runs a miniature
// beaconing over them with the REAL control/beaconing.DefaultExtender (real
// hop-field MACs under per-AS keys, real beta chaining, real peer entries, real
// seg.Validate), producing the up/core/down segment pools an endhost would get
// from its path service.
//
// Everything random comes from the *vgen.Rand handed in, so a seed replays.
//
//	t := topogen.Generate(r, topogen.Options{})
//	s := t.Segments(r, topogen.BeaconOptions{})
//	ups, cores, downs := s.Ups(src), s.Cores(), s.Downs(dst)
//
// The package knows nothing about the combinator or the router; it is meant to
// be reused (end-to-end router walks need Topology/AS/Link/keys as well).
package topogen

import (
	"context"
	"fmt"
	"hash"
	"sort"
	"time"

	"github.com/scionproto/scion/control/beaconing"
	"github.com/scionproto/scion/control/ifstate"
	"github.com/scionproto/scion/pkg/addr"
	cryptopb "github.com/scionproto/scion/pkg/proto/crypto"
	"github.com/scionproto/scion/pkg/scrypto"
	"github.com/scionproto/scion/pkg/scrypto/cppki"
	seg "github.com/scionproto/scion/pkg/segment"
	"github.com/scionproto/scion/pkg/segment/extensions/discovery"
	"github.com/scionproto/scion/private/topology"

	"verifharness/internal/vgen"
)

// LinkType is the relation of Link.A to Link.B.
type LinkType int

const (
	// Core links join two core ASes.
	Core LinkType = iota
	// Parent links go from the parent (A) to the child (B).
	Parent
	// Peer links join two non-core ASes.
	Peer
)

func (t LinkType) String() string {
	return [...]string{"core", "parent", "peer"}[t]
}

// Link is one inter-AS link. Interface ids are unique per AS and non-zero.
type Link struct {
	A, B     *AS
	IfA, IfB uint16
	Type     LinkType
	MTU      uint16
}

// Other returns the far end of l seen from a, with the local and remote interface.
func (l *Link) Other(a *AS) (far *AS, local, remote uint16) {
	if l.A == a {
		return l.B, l.IfA, l.IfB
	}
	return l.A, l.IfB, l.IfA
}

// AS is one autonomous system.
type AS struct {
	IA    addr.IA
	Core  bool
	Key   []byte // 16-byte hop-field MAC key (forwarding key) of this AS
	MTU   uint16 // AS-internal MTU
	Level int    // 0 = core, children have a larger level than all their parents
	Links []*Link

	mac   func() hash.Hash
	intfs *ifstate.Interfaces
}

// Topology is a set of ASes and links.
type Topology struct {
	ASes  []*AS
	Links []*Link
	byIA  map[addr.IA]*AS
}

// Options bounds the generated topology. Zero values pick the defaults.
type Options struct {
	MinAS, MaxAS   int // default 3..10
	MaxISD         int // default 3
	ParallelChance int // percent chance to double a link (default 20)
	PeerChance     int // percent chance per candidate pair of non-core ASes (default 25)
	SparseIfIDs    bool
	// ReuseASNumbers numbers the ASes per ISD (the k-th AS of every ISD gets the
	// same AS number), so that different ISD-ASes share an AS number, as SCION
	// allows. Default (false): AS numbers are globally unique. Draws no random numbers.
	ReuseASNumbers bool
}

func (o *Options) defaults() {
	if o.MinAS == 0 {
		o.MinAS = 3
	}
	if o.MaxAS == 0 {
		o.MaxAS = 10
	}
	if o.MaxISD == 0 {
		o.MaxISD = 3
	}
	if o.ParallelChance == 0 {
		o.ParallelChance = 20
	}
	if o.PeerChance == 0 {
		o.PeerChance = 25
	}
}

// AS returns the AS with the given ISD-AS or nil.
func (t *Topology) AS(ia addr.IA) *AS { return t.byIA[ia] }

// CoreASes returns the core ASes in generation order.
func (t *Topology) CoreASes() []*AS {
	var out []*AS
	for _, a := range t.ASes {
		if a.Core {
			out = append(out, a)
		}
	}
	return out
}

var mtuChoices = []uint16{1280, 1400, 1472, 1500, 2000, 4000, 9000, 65535}

// Generate draws a topology: 1..MaxISD ISDs, each with 1..2 core ASes, core
// links making the core connected (plus random extra ones), every non-core AS
// with 1..2 parents of a smaller level inside its ISD, peering links between
// non-core ASes (also across ISDs), and parallel links.
func Generate(r *vgen.Rand, o Options) *Topology {
	o.defaults()
	n := r.Range(o.MinAS, o.MaxAS)
	nISD := r.Range(1, o.MaxISD)
	if nISD > n {
		nISD = n
	}
	t := &Topology{byIA: map[addr.IA]*AS{}}
	nextIf := map[*AS]uint16{}
	inISD := map[int]int{}
	newAS := func(isd int, idx int, core bool, level int) *AS {
		if o.ReuseASNumbers {
			idx = inISD[isd]
		}
		inISD[isd]++
		ia := addr.MustIAFrom(addr.ISD(isd), addr.AS(0xff00_0000_0100+uint64(idx)))
		a := &AS{IA: ia, Core: core, Key: r.Bytes(16), MTU: vgen.Pick(r, mtuChoices...), Level: level}
		f, err := scrypto.HFMacFactory(a.Key)
		if err != nil {
			panic(err)
		}
		a.mac = f
		t.ASes = append(t.ASes, a)
		t.byIA[ia] = a
		return a
	}
	link := func(a, b *AS, ty LinkType) {
		k := 1
		if r.Chance(o.ParallelChance, 100) {
			k = 2
		}
		for i := 0; i < k; i++ {
			step := func(x *AS) uint16 {
				d := uint16(1)
				if o.SparseIfIDs {
					d = uint16(r.Range(1, 40))
				}
				nextIf[x] += d
				return nextIf[x]
			}
			l := &Link{A: a, B: b, IfA: step(a), IfB: step(b), Type: ty, MTU: vgen.Pick(r, mtuChoices...)}
			t.Links = append(t.Links, l)
			a.Links = append(a.Links, l)
			b.Links = append(b.Links, l)
		}
	}
	// distribute ASes over ISDs: one core each first
	perISD := make([][]*AS, nISD)
	idx := 0
	for i := 0; i < nISD; i++ {
		perISD[i] = append(perISD[i], newAS(i+1, idx, true, 0))
		idx++
	}
	for idx < n {
		i := r.Intn(nISD)
		members := perISD[i]
		nCore := 0
		for _, m := range members {
			if m.Core {
				nCore++
			}
		}
		if nCore < 2 && r.Chance(1, 5) {
			perISD[i] = append(perISD[i], newAS(i+1, idx, true, 0))
		} else {
			// 1..2 parents among the existing members of the ISD
			a := newAS(i+1, idx, false, 0)
			np := 1
			if len(members) > 1 && r.Chance(2, 5) {
				np = 2
			}
			cand := append([]*AS(nil), members...)
			vgen.Shuffle(r, cand)
			for _, p := range cand[:np] {
				if p.Level+1 > a.Level {
					a.Level = p.Level + 1
				}
			}
			for _, p := range cand[:np] {
				link(p, a, Parent)
			}
			perISD[i] = append(perISD[i], a)
		}
		idx++
	}
	// core mesh: chain to be connected + extras
	cores := t.CoreASes()
	for i := 1; i < len(cores); i++ {
		link(cores[r.Intn(i)], cores[i], Core)
	}
	for i := 0; i < len(cores); i++ {
		for j := i + 1; j < len(cores); j++ {
			if r.Chance(1, 4) {
				link(cores[i], cores[j], Core)
			}
		}
	}
	// peering between non-core ASes
	var leaves []*AS
	for _, a := range t.ASes {
		if !a.Core {
			leaves = append(leaves, a)
		}
	}
	for i := 0; i < len(leaves); i++ {
		for j := i + 1; j < len(leaves); j++ {
			if r.Chance(o.PeerChance, 100) {
				link(leaves[i], leaves[j], Peer)
			}
		}
	}
	for _, a := range t.ASes {
		a.intfs = ifstate.NewInterfaces(a.Interfaces(), ifstate.Config{})
	}
	return t
}

// Interfaces returns the interface table of the AS as the control service sees it.
func (a *AS) Interfaces() map[uint16]ifstate.InterfaceInfo {
	m := map[uint16]ifstate.InterfaceInfo{}
	for _, l := range a.Links {
		far, loc, rem := l.Other(a)
		var lt topology.LinkType
		switch {
		case l.Type == Core:
			lt = topology.Core
		case l.Type == Peer:
			lt = topology.Peer
		case l.A == a:
			lt = topology.Child
		default:
			lt = topology.Parent
		}
		m[loc] = ifstate.InterfaceInfo{ID: loc, IA: far.IA, LinkType: lt, RemoteID: rem, MTU: l.MTU}
	}
	return m
}

// PeerInterfaces returns the local ids of the AS's peering interfaces (sorted).
func (a *AS) PeerInterfaces() []uint16 {
	var out []uint16
	for _, l := range a.Links {
		if l.Type == Peer {
			_, loc, _ := l.Other(a)
			out = append(out, loc)
		}
	}
	sort.Slice(out, func(i, j int) bool { return out[i] < out[j] })
	return out
}

type fakeSigner struct{}

func (fakeSigner) Sign(_ context.Context, msg []byte, _ ...[]byte) (*cryptopb.SignedMessage, error) {
	return &cryptopb.SignedMessage{HeaderAndBody: msg, Signature: []byte{0}}, nil
}

func (fakeSigner) Validity() cppki.Validity {
	return cppki.Validity{NotBefore: time.Unix(0, 0), NotAfter: time.Unix(1<<40, 0)}
}

// Extender returns the real beacon extender of this AS (signatures are fake,
// hop-field MACs are real). maxExp is the relative expiry given to new hop fields.
func (a *AS) Extender(maxExp uint8) *beaconing.DefaultExtender {
	return &beaconing.DefaultExtender{
		IA: a.IA,
		SignerGen: beaconing.SignerGenFunc(func(context.Context) ([]beaconing.Signer, error) {
			return []beaconing.Signer{fakeSigner{}}, nil
		}),
		MAC:                  a.mac,
		Intfs:                a.intfs,
		MTU:                  a.MTU,
		MaxExpTime:           func() uint8 { return maxExp },
		Task:                 "topogen",
		StaticInfo:           func() *beaconing.StaticInfoCfg { return nil },
		DiscoveryInformation: func() *discovery.Extension { return nil },
	}
}

// BeaconOptions bounds the mini beaconing.
type BeaconOptions struct {
	BaseTime    int64 // unix seconds of the oldest beacon (default 1_700_000_000; must be in the past)
	MaxLen      int   // max AS entries per segment (default 5)
	MaxPerPair  int   // max segments kept per (origin, terminus) (default 3)
	RandomExp   bool  // draw the hop expiry per extension instead of per beacon
	AnnouncePct int   // percent of an AS's peering links announced per entry (default 100)
	Rounds      int   // beaconing rounds; later rounds re-originate (same routes, new timestamps) (default 1)
}

func (o *BeaconOptions) defaults() {
	if o.BaseTime == 0 {
		o.BaseTime = 1_700_000_000
	}
	if o.MaxLen == 0 {
		o.MaxLen = 5
	}
	if o.MaxPerPair == 0 {
		o.MaxPerPair = 3
	}
	if o.AnnouncePct == 0 {
		o.AnnouncePct = 100
	}
	if o.Rounds == 0 {
		o.Rounds = 1
	}
}

// Segments is the result of beaconing: terminated, validated segments.
type Segments struct {
	// Intra holds, per non-core AS, the segments core -> ... -> AS. They serve as
	// up segments of that AS and as down segments towards it.
	Intra map[addr.IA][]*seg.PathSegment
	// Core holds all core segments (origin core -> ... -> terminating core).
	Core []*seg.PathSegment
}

// Ups returns the up segments of ia (nil for a core AS).
func (s *Segments) Ups(ia addr.IA) []*seg.PathSegment { return s.Intra[ia] }

// Downs returns the down segments towards ia (nil for a core AS).
func (s *Segments) Downs(ia addr.IA) []*seg.PathSegment { return s.Intra[ia] }

// Cores returns all core segments.
func (s *Segments) Cores() []*seg.PathSegment { return s.Core }

type beacon struct {
	seg     *seg.PathSegment
	at      *AS
	ingress uint16
	visited map[*AS]bool
	exp     uint8
}

// Segments runs the mini beaconing: every core AS originates one beacon per
// egress link; beacons are extended hop by hop with the real extender along
// parent->child links (intra-ISD) respectively core links (core beaconing), never
// through an AS twice, and terminated at every AS they reach.
func (t *Topology) Segments(r *vgen.Rand, o BeaconOptions) *Segments {
	o.defaults()
	out := &Segments{Intra: map[addr.IA][]*seg.PathSegment{}}
	ctx := context.Background()
	count := map[[2]addr.IA]int{}
	var seq int64
	round := 0

	drawExp := func() uint8 { return uint8(r.Range(0, 255)) }
	extend := func(b *beacon, egress uint16) *seg.PathSegment {
		ps := b.seg.ShallowCopy()
		exp := b.exp
		if o.RandomExp {
			exp = drawExp()
		}
		var peers []uint16
		if !b.at.Core {
			for _, p := range b.at.PeerInterfaces() {
				if r.Chance(o.AnnouncePct, 100) {
					peers = append(peers, p)
				}
			}
		}
		if err := b.at.Extender(exp).Extend(ctx, ps, b.ingress, egress, peers); err != nil {
			panic(fmt.Sprintf("topogen: extend at %s (%d,%d): %v", b.at.IA, b.ingress, egress, err))
		}
		return ps
	}
	var walk func(b *beacon, ty LinkType, origin *AS, depth int)
	walk = func(b *beacon, ty LinkType, origin *AS, depth int) {
		if b.at != origin {
			key := [2]addr.IA{origin.IA, b.at.IA}
			if count[key] < o.MaxPerPair {
				count[key]++
				term := extend(b, 0)
				if ty == Core {
					out.Core = append(out.Core, term)
				} else {
					out.Intra[b.at.IA] = append(out.Intra[b.at.IA], term)
				}
			}
		}
		if depth+1 >= o.MaxLen {
			return
		}
		for _, l := range b.at.Links {
			if l.Type != ty {
				continue
			}
			far, loc, rem := l.Other(b.at)
			if ty == Parent && l.A != b.at {
				continue // only downwards
			}
			if b.visited[far] {
				continue
			}
			if depth > 0 && !r.Chance(4, 5) {
				continue
			}
			if depth == 0 {
				// a fresh beacon (own timestamp, SegID, expiry) per origination interface
				seq++
				ts := time.Unix(o.BaseTime+int64(round)*3600+seq*7+int64(r.Intn(5)), 0)
				ps0, err := seg.CreateSegment(ts, uint16(r.U64()))
				if err != nil {
					panic(err)
				}
				b = &beacon{seg: ps0, at: b.at, visited: b.visited, exp: drawExp()}
			}
			ps := extend(b, loc)
			vis := map[*AS]bool{far: true}
			for k := range b.visited {
				vis[k] = true
			}
			walk(&beacon{seg: ps, at: far, ingress: rem, visited: vis, exp: b.exp}, ty, origin, depth+1)
		}
	}
	for round = 0; round < o.Rounds; round++ {
		for k := range count {
			delete(count, k)
		}
		for _, c := range t.CoreASes() {
			for _, ty := range []LinkType{Parent, Core} {
				walk(&beacon{at: c, visited: map[*AS]bool{c: true}}, ty, c, 0)
			}
		}
	}
	return out
}
