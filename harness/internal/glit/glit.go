// Package glit prints natural numbers as Gallina constructor terms of type N.
//
// Coq evaluates every decimal numeral through the Number Notation of N, which
// costs milliseconds per literal (seconds for 15-digit ones); a constructor term
// such as (Npos (xO (xI xH))) is parsed without any evaluation. Rewrite converts
// every stand-alone decimal numeral of an already printed term.
package glit

import (
	"strconv"
	"strings"
)

// N prints x as a closed term of type N.
func N(x uint64) string {
	if x == 0 {
		return "N0"
	}
	return "(Npos " + pos(x) + ")"
}

func pos(x uint64) string {
	// most significant bit is the innermost xH
	var sb strings.Builder
	n := 0
	for y := x; y > 1; y >>= 1 {
		if y&1 == 1 {
			sb.WriteString("(xI ")
		} else {
			sb.WriteString("(xO ")
		}
		n++
	}
	sb.WriteString("xH")
	sb.WriteString(strings.Repeat(")", n))
	return sb.String()
}

func identChar(c byte) bool {
	return c == '_' || c == '\'' || c == '.' || c == '%' ||
		(c >= '0' && c <= '9') || (c >= 'a' && c <= 'z') || (c >= 'A' && c <= 'Z')
}

// Rewrite replaces every decimal numeral of s that is not part of an identifier
// (and fits in 64 bits) by its constructor term.
func Rewrite(s string) string {
	var sb strings.Builder
	sb.Grow(len(s) * 2)
	i := 0
	for i < len(s) {
		c := s[i]
		if c >= '0' && c <= '9' && (i == 0 || !identChar(s[i-1])) {
			j := i
			for j < len(s) && s[j] >= '0' && s[j] <= '9' {
				j++
			}
			if j < len(s) && s[j] != '.' && identChar(s[j]) {
				sb.WriteString(s[i:j])
				i = j
				continue
			}
			v, err := strconv.ParseUint(s[i:j], 10, 64)
			if err != nil {
				sb.WriteString(s[i:j])
			} else {
				sb.WriteString(N(v))
			}
			i = j
			continue
		}
		sb.WriteByte(c)
		i++
	}
	return sb.String()
}
