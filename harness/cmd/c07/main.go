// Runner for C07: byte diff between the received and the forwarded packet on
// the real fast path, over all position kinds, random payloads and extension
// headers.
package main

import (
	"strings"

	"verifharness/internal/rtgen"
)

func main() {
	rtgen.MainX("C07", "Router.check_c07",
		"valid-by-construction packets at every position kind (first hop, transit, cross-over, peering out/in, "+
			"inbound; both construction directions; external, sibling, internal ingress; egress over own external "+
			"links and sibling links), random traffic class / flow id / hosts (IPv4, IPv6, service) / HBH and E2E "+
			"option headers / UDP, TCP, SCMP, other payloads of random length, plus a mutation stream (router alert "+
			"flags, reserved bits of meta header / info fields / hop fields, and the general mutations). The runner "+
			"reports the byte offsets at which the output of the real router differs from its input; the model "+
			"computes the allowed offsets from the header geometry. non-trivial = the packet was forwarded or delivered",
		func(x *rtgen.Ctx) {
			x.NonTrivial = func(sc *rtgen.Scenario, o *rtgen.Obs) bool {
				cls := o.Class()
				return strings.HasPrefix(cls, "forward") || cls == "deliver"
			}
			x.Tagger = func(c *rtgen.Config, sc *rtgen.Scenario, in *rtgen.Rec) []string {
				var tags []string
				if in.MetaRsv != 0 {
					tags = append(tags, "c07-meta-rsv-cleared")
				}
				for _, i := range in.Infos {
					if i.Rsv != 0 {
						tags = append(tags, "c07-info-rsv-cleared")
						break
					}
				}
				return tags
			}
			nv := x.Run.Count(900, 40000)
			nm := x.Run.Count(500, 30000)
			x.RandomStreams(8, nv, nm, nil, []string{
				"alert", "rsv", "rsv", "barely-valid", "l4", "dsthost", "srchost", "ingress", "mac", "segid",
				"peerflag", "consdir", "currhf", "consegress"})
		})
}
