// Runner for C10: on the path space of C02 (real extender, real combinator, one
// real dataplane per border router) a fault is injected at a position of the
// walk — the egress interface of one router is down (BFD) or unknown, a later hop
// field carries an expired ExpTime or a wrong MAC, a router-alert flag is set on
// any hop (SCMP traceroute request as payload) — the packet is walked through the
// real routers until one answers on its slow path, the REAL reply
// (router.VerifSlowPath) is taken and walked back through the real routers hop
// by hop towards the source host.
package main

import (
	"fmt"
	"strings"
	"time"

	"github.com/scionproto/scion/pkg/addr"
	"github.com/scionproto/scion/pkg/slayers"

	"verifharness/internal/c10gen"
	"verifharness/internal/netgen"
	"verifharness/internal/rtgen"
	"verifharness/internal/spgen"
	"verifharness/internal/vgen"
)

const rule = "the path space of C02 (real extender, real combinator, 3-10 ASes, 1-3 routers per AS, sibling and parallel " +
	"links; full, shortcut and peering paths); on every path: (a) for every router of the walk its egress interface down " +
	"(own external link or the sibling link) or removed from its configuration, (b) every hop field from the second on with " +
	"ExpTime 0 (expired) or one MAC bit flipped, (c) every hop field with its ConsIngress or ConsEgress router-alert bit set and " +
	"an SCMP traceroute request (sometimes UDP) as payload; the quick tier samples these per path; a third of the packets carries " +
	"a hop-by-hop and/or end-to-end extension header (the latter with an authenticator-shaped option); in addition further networks " +
	"are searched for peering paths with a segment of >= 3 hop fields and every intermediate (non-peering) hop of such a " +
	"Peer-flagged segment gets both alert flags, a wrong MAC and the egress faults of its routers. The packet goes through " +
	"the real routers until one answers; the real slow path builds the reply, which is walked back through the real routers; " +
	"compared at every router with Network/ScmpReturn; non-trivial = the answering router is not the first router of the walk " +
	"or the path has >= 2 segments"

// KnownTag marks the cases of the open finding: an error raised before the ingress SegID update
// on a hop traversed against construction direction.
const KnownTag = "c10-early-error-segid"

type ctx struct {
	run    *vgen.Run
	rng    *vgen.Rand
	now    int64
	worlds []*netgen.World
	defs   []string
}

func (x *ctx) world(i int) *netgen.World {
	for len(x.worlds) <= i {
		k := len(x.worlds)
		w := netgen.NewWorld(x.rng.Fork(uint64(1_000_000+k)), k, x.now)
		x.worlds = append(x.worlds, w)
		x.defs = append(x.defs,
			fmt.Sprintf("Definition %s : Network.topology := %s.", w.Net.Name, w.Net.Gallina()),
			fmt.Sprintf("Definition hosts_%d : list (N * (N * list N)) := %s.", k, c10gen.HostsTerm(w.Net)))
	}
	return x.worlds[i]
}

// scenario is one fault to inject on a path.
type scenario struct {
	pf   c10gen.PFault
	cf   c10gen.CFault
	tr   bool // SCMP traceroute request as payload
	ext  int  // extension headers in front of the upper layer: 0 none, 1 HBH, 2 E2E (authenticator-shaped option), 3 both
	kind string
}

var extNames = []string{"none", "hbh", "e2e-spao", "hbh+e2e-spao"}

// withExt puts extension headers in front of the upper layer of d.
func withExt(r *vgen.Rand, d *rtgen.Desc, ext int) {
	if ext&1 != 0 {
		d.HBH = []rtgen.Opt{{Type: uint8(r.Range(3, 200)), Data: r.Bytes(r.Range(0, 9))}}
	}
	if ext&2 != 0 {
		// shaped like the packet authenticator option: SPI, algorithm, reserved, timestamp / sequence number, 16-byte tag
		spao := append([]byte{0, 1, 0, 0, 0, 0}, r.Bytes(6+16)...)
		d.E2E = []rtgen.Opt{{Type: uint8(slayers.OptTypeAuthenticator), Data: spao}}
		if r.Bool() {
			d.E2E = append(d.E2E, rtgen.Opt{Type: uint8(r.Range(3, 200)), Data: r.Bytes(r.Range(0, 5))})
		}
	}
}

// sliceOf returns the slice of hop idx, its offset inside it and the slice length.
func sliceOf(p *netgen.Path, idx int) (*netgen.PSlice, int) {
	for i := range p.Slices {
		if idx < len(p.Slices[i].Hops) {
			return &p.Slices[i], idx
		}
		idx -= len(p.Slices[i].Hops)
	}
	return nil, 0
}

// knownEarly: the hop is traversed against construction direction, is not the
// first of its slice (so it is reached from the previous AS inside the slice)
// and is not a peering hop.
func knownEarly(p *netgen.Path, idx int) bool {
	sl, off := sliceOf(p, idx)
	if sl == nil || idx == 0 || sl.ConsDir || off == 0 {
		return false
	}
	if sl.Peer && off == len(sl.Hops)-1 {
		return false
	}
	return true
}

func candidates(p *netgen.Path, plain *netgen.Walk, w *netgen.World, r *vgen.Rand) (cfg, alert, hop []scenario) {
	for i, st := range plain.Steps {
		if i == len(plain.Steps)-1 {
			break // the delivering router has no egress interface
		}
		a := w.Net.AS(st.IA)
		for _, k := range []string{"down", "unknown"} {
			cfg = append(cfg, scenario{cf: c10gen.CFault{Kind: k, AS: a, Rtr: st.Rtr, E: st.Egress}, kind: "egress-" + k})
		}
	}
	n := p.NumHops()
	for k := 0; k < n; k++ {
		for _, ingressBit := range []bool{true, false} {
			alert = append(alert, scenario{pf: c10gen.PFault{Kind: "alert", Idx: k, IA: ingressBit, EA: !ingressBit},
				tr: true, kind: "alert"})
		}
	}
	for k := 1; k < n; k++ {
		hop = append(hop, scenario{pf: c10gen.PFault{Kind: "exp", Idx: k, Val: 0}, kind: "hop-expired"})
		m := p.Dec.HopFields[k].Mac
		m[r.Intn(6)] ^= 1 << r.Intn(8)
		var v uint64
		for _, b := range m {
			v = v<<8 | uint64(b)
		}
		hop = append(hop, scenario{pf: c10gen.PFault{Kind: "mac", Idx: k, Val: v}, kind: "hop-mac"})
	}
	return
}

func take(r *vgen.Rand, l []scenario, n int) []scenario {
	l = append([]scenario(nil), l...)
	vgen.Shuffle(r, l)
	if n >= 0 && len(l) > n {
		l = l[:n]
	}
	return l
}

func (x *ctx) runScenario(w *netgen.World, wi int, p *netgen.Path, sc scenario, r *vgen.Rand, honestExpired bool) {
	run := x.run
	d := p.Desc()
	sc.pf.Apply(d)
	var trID, trSeq uint16
	if sc.tr {
		trID, trSeq = uint16(r.Range(1024, 65535)), uint16(r.U64())
		d.L4 = rtgen.SCMPTraceroute(false, trID, trSeq, 0, 0)
	}
	withExt(r, d, sc.ext)
	raw, err := d.Serialize()
	if err != nil {
		run.Violate(-1, "cannot serialize: "+err.Error(), nil)
		return
	}
	rec, err := rtgen.Parse(raw)
	if err != nil {
		run.Violate(-1, "sent packet does not parse", nil)
		return
	}
	src := w.Net.AS(p.SrcIA)
	f0 := src.If(netgen.FirstEgress(d))
	if f0 == nil {
		run.Violate(-1, "first egress interface unknown", nil)
		return
	}
	start := c10gen.Loc{AS: src, Rtr: f0.Owner, Ing: rtgen.Ingress{Kind: rtgen.IngInt}}
	var ov *c10gen.Override
	if sc.cf.Kind != "" {
		rt, err := c10gen.Faulty(sc.cf.AS, sc.cf.Rtr, sc.cf.Kind, sc.cf.E)
		if err != nil {
			run.Violate(-1, "cannot build the faulty router: "+err.Error(), nil)
			return
		}
		ov = &c10gen.Override{AS: sc.cf.AS, Rtr: sc.cf.Rtr, RT: rt}
	}
	fw := c10gen.Walk(w.Net, raw, start, ov, nil)
	port, portOK, _ := d.L4.DstPort()
	desc := map[string]any{
		"topology": w.Net.Name, "src": p.SrcIA.String(), "dst": p.DstIA.String(), "path": p.Kind(),
		"packet_fault": sc.pf.String(), "router_fault": sc.cf.String(), "l4": d.L4.Name, "ext": extNames[sc.ext],
		"raw": fmt.Sprintf("%x", raw), "start_router": start.Rtr, "walk": fw.W.Describe(), "crossed": fw.W.Crossed(),
	}
	topo := w.Net.Name
	provT := p.ProvTerm()
	ppT := netgen.ParamsTerm(rec, port, portOK)
	sentT := netgen.RecTerm(rec, port, portOK)
	valid := !honestExpired
	if fw.W.Panic != "" {
		run.Violate(-1, "router panicked: "+fw.W.Panic, desc)
	}
	if fw.Answer == nil {
		if fw.W.Delivered() && sc.pf.Kind == "alert" {
			// flag of an interface the path does not cross: nobody answers
			last, err := rtgen.Parse(fw.W.Last)
			if err != nil {
				run.Violate(-1, "delivered packet does not parse", desc)
				return
			}
			p.HopMacs(w.Net, fw.W)
			term := vgen.App("ScmpReturn.CPass", topo, vgen.N(uint64(fw.W.NowNs)), fw.W.MacsTerm(), provT, ppT,
				sc.pf.Term(), vgen.B(valid), sentT, vgen.N(uint64(start.Rtr)), fw.W.TraceTerm(),
				netgen.RecTerm(last, port, portOK))
			run.Tally("answer:none(flag of an interface not on the path; delivered)")
			run.Add("pass", term, fmt.Sprintf("%s|%x|pass", topo, raw), len(p.Slices) >= 2, desc)
			return
		}
		run.Tally("no-answer:" + sc.kind + ":" + fw.W.Final.Kind + ":" + fw.W.Final.StopDesc)
		return
	}
	an := fw.Answer
	if an.Slow.Kind == "panic" {
		run.Violate(-1, "slow path panicked: "+an.Slow.Slow.PanicMsg, desc)
	}
	desc["answered_by"] = an.Loc.String()
	desc["request"] = fw.W.Final.StopDesc
	desc["slow_path"] = an.Slow.Kind
	// the reply travels back (all routers as configured originally)
	backT := "ScmpReturn.BNone"
	var bw *c10gen.XWalk
	returned := false
	if an.Slow.Kind == "reply" {
		desc["reply_raw"] = fmt.Sprintf("%x", an.Slow.Slow.Out)
		nx, direct, err := c10gen.Next(w.Net, an.Loc, an.Slow.Slow.Link)
		switch {
		case err != nil:
			desc["reply_link"] = err.Error()
		case direct:
			backT = vgen.App("ScmpReturn.BDirect", netgen.IATerm(an.Loc.AS.AS.IA), vgen.N(uint64(an.Loc.Rtr)))
			desc["reply_walk"] = "handed to the internal network by the answering router"
			returned = an.Loc.AS.AS.IA == p.SrcIA
		default:
			bw = c10gen.Walk(w.Net, an.Slow.Slow.Out, nx, nil, fw.W)
			backT = vgen.App("ScmpReturn.BWalk", bw.W.TraceTerm())
			desc["reply_walk"] = bw.W.Describe()
			desc["reply_crossed"] = bw.W.Crossed()
			returned = bw.W.Delivered() && bw.W.Final.IA == p.SrcIA && string(bw.W.Final.IP) == string(p.Src.Raw)
			if bw.W.Panic != "" {
				run.Violate(-1, "router panicked on the way back: "+bw.W.Panic, desc)
			}
		}
	}
	p.HopMacs(w.Net, fw.W)
	in := an.Obs.In
	outRec, err := rtgen.Parse(an.Obs.Res.Out)
	if in == nil || err != nil {
		run.Violate(-1, "packet at the answering router does not parse", desc)
		return
	}
	nowBack := fw.W.NowNs
	if bw != nil {
		nowBack = bw.W.NowNs
	}
	trq := "None"
	if sc.tr {
		trq = "(Some (pair " + vgen.N(uint64(trID)) + " " + vgen.N(uint64(trSeq)) + "))"
	}
	// the upper layer starts behind the SCION header and the extension headers
	qoff := len(raw) - len(d.L4.Bytes)
	l4v := "(@nil N)"
	if an.Slow.Reply != nil {
		l4v = an.Slow.Reply.L4Term()
	}
	term := "(let p := " + netgen.RecTerm(in, port, portOK) + " in let l4v := " + l4v + " in " +
		vgen.App("ScmpReturn.CRet", topo, fmt.Sprintf("hosts_%d", wi), vgen.N(uint64(fw.W.NowNs)), vgen.N(uint64(nowBack)),
			fw.W.MacsTerm(), provT, ppT, sc.pf.Term(), sc.cf.Term(),
			vgen.N(uint64(d.TC)), vgen.N(uint64(d.FlowID)), vgen.N(uint64(raw[4])), vgen.N(uint64(d.L4.Proto)), c10gen.Nat(qoff),
			c10gen.Nat(int(in.CurrHF)), c10gen.Nat(int(outRec.CurrHF)), c10gen.HowTerm(an.Loc.Ing), trq, vgen.B(valid),
			sentT, vgen.N(uint64(start.Rtr)), fw.W.TraceTerm(),
			c10gen.LocTerm(an.Loc), "p", an.Obs.ResultTerm(d.L4), spgen.BytesInts(an.Obs.Res.Out),
			an.Slow.ImplTerm(), backT) + ")"
	var tags []string
	known := sc.pf.Kind == "exp" && knownEarly(p, sc.pf.Idx) ||
		honestExpired && an.Obs.Res.Req.Code == int(slayers.SCMPCodePathExpired) && in.CurrHF == outRec.CurrHF &&
			knownEarly(p, int(outRec.CurrHF))
	if known {
		tags = append(tags, KnownTag)
	}
	run.Tally("fault:" + sc.kind)
	run.Tally("ext-headers:" + extNames[sc.ext])
	run.Tally("answer:" + fw.W.Final.StopDesc + ":" + an.Slow.Kind)
	run.Tally("answered-over:" + []string{"external", "sibling", "internal"}[an.Loc.Ing.Kind] + "-link")
	run.Tally(fmt.Sprintf("answer-at-router:%02d-of-walk", len(fw.W.Steps)+1))
	if in.CurrHF != outRec.CurrHF {
		run.Tally("answer:after-segment-change(cross-over reverted)")
	}
	if bw != nil {
		run.Tally(fmt.Sprintf("reply:%02d-routers-back:%s:%s", len(bw.W.Steps), bw.W.Final.Kind, bw.W.Final.StopDesc))
	} else {
		run.Tally("reply:" + strings.TrimPrefix(backT, "ScmpReturn."))
	}
	w.Tallies(run, p, fw.W)
	nontrivial := len(fw.W.Steps) >= 1 || len(p.Slices) >= 2
	kind := sc.kind
	if honestExpired {
		kind = "honest-expired"
	}
	id := run.Add(kind, term, fmt.Sprintf("%s|%x|%s|%s", topo, raw, sc.cf.String(), sc.pf.String()), nontrivial, desc, tags...)
	// Go-side copy of the oracle for paths with an honestly expired hop (the Coq oracle only
	// speaks about unexpired provenance paths)
	if honestExpired && an.Slow.Kind == "reply" && !returned {
		run.Violate(id, "the reply to a packet with an expired later hop does not reach the source host", desc, tags...)
	}
}

// longPeering looks through nScan further networks for peering paths whose up or down segment has
// at least three hop fields (rare: a peering link two levels above the leaf) and injects, at EVERY
// intermediate hop of such a segment — a non-peering hop of a Peer-flagged segment —, both
// router-alert flags, a wrong MAC, and the egress faults of the routers that handle that hop.
func (x *ctx) longPeering(nScan, maxPaths int) {
	run := x.run
	base := vgen.NewRand(x.run.Seed ^ 0x5eed10)
	found, downOnly := 0, 0
	for k := 0; k < nScan && found < maxPaths; k++ {
		idx := 1000 + k
		w := netgen.NewWorld(base.Fork(uint64(k)), idx, x.now)
		r := base.Fork(uint64(1_000_000 + k))
		registered := false
		for _, pr := range w.Pairs(r) {
			if found >= maxPaths {
				break
			}
			ps, err := w.Paths(r, pr[0], pr[1], 8)
			if err != nil {
				continue
			}
			for _, p := range ps {
				if found >= maxPaths {
					break
				}
				if !p.Peering || len(p.Slices) != 2 || (len(p.Slices[0].Hops) < 3 && len(p.Slices[1].Hops) < 3) {
					continue
				}
				// three in four of them with a long UP segment (the reply then runs in construction direction)
				isDown := len(p.Slices[0].Hops) < 3
				if isDown && downOnly >= (maxPaths+3)/4 || !isDown && found-downOnly >= maxPaths-(maxPaths+3)/4 {
					continue
				}
				if _, expired, borderline := p.ExpiryMargin(x.now); expired || borderline {
					continue
				}
				p.SetHosts(r, w.Net)
				p.Dst, p.DstSVC = p.ReplyFrom, false
				s, err := w.Send(p, nil)
				if err != nil || !s.Walk.Delivered() {
					continue
				}
				if !registered {
					registered = true
					x.defs = append(x.defs,
						fmt.Sprintf("Definition %s : Network.topology := %s.", w.Net.Name, w.Net.Gallina()),
						fmt.Sprintf("Definition hosts_%d : list (N * (N * list N)) := %s.", idx, c10gen.HostsTerm(w.Net)))
				}
				found++
				if isDown {
					downOnly++
				}
				run.Tally(fmt.Sprintf("long-peering-path:up=%d,down=%d", len(p.Slices[0].Hops), len(p.Slices[1].Hops)))
				n0 := len(p.Slices[0].Hops)
				var mids []int
				for j := 1; j+1 < n0; j++ {
					mids = append(mids, j)
				}
				for j := 1; j+1 < len(p.Slices[1].Hops); j++ {
					mids = append(mids, n0+j)
				}
				for _, j := range mids {
					var scs []scenario
					for _, ingressBit := range []bool{true, false} {
						scs = append(scs, scenario{pf: c10gen.PFault{Kind: "alert", Idx: j, IA: ingressBit, EA: !ingressBit},
							tr: true, kind: "alert"})
					}
					m := p.Dec.HopFields[j].Mac
					m[r.Intn(6)] ^= 1 << r.Intn(8)
					var v uint64
					for _, b := range m {
						v = v<<8 | uint64(b)
					}
					scs = append(scs, scenario{pf: c10gen.PFault{Kind: "mac", Idx: j, Val: v}, kind: "hop-mac"})
					for i, st := range s.Walk.Steps {
						if i == len(s.Walk.Steps)-1 || st.In == nil || int(st.In.CurrHF) != j {
							continue
						}
						a := w.Net.AS(st.IA)
						for _, kind := range []string{"down", "unknown"} {
							scs = append(scs, scenario{cf: c10gen.CFault{Kind: kind, AS: a, Rtr: st.Rtr, E: st.Egress}, kind: "egress-" + kind})
						}
					}
					for _, sc := range scs {
						if r.Chance(1, 3) {
							sc.ext = r.Range(1, 3)
						}
						sc.kind += "@peering-segment-middle"
						x.runScenario(w, idx, p, sc, r, false)
					}
				}
			}
		}
	}
	run.Tally(fmt.Sprintf("long-peering-paths-found:%d", found))
}

func main() {
	run := vgen.Flags("C10")
	run.Imports = []string{"Model.Router", "Model.Network", "Model.Prov", "Model.RouterScmp", "Model.ScmpReturn"}
	run.CheckFn = "ScmpReturn.check"
	run.DiagFn = "ScmpReturn.diag"
	run.CaseType = "ScmpReturn.case"
	run.Rule = rule
	run.ShardSize = 12
	if run.Tier == "thorough" {
		run.ShardSize = 60
	}
	x := &ctx{run: run, rng: vgen.NewRand(run.Seed), now: time.Now().Unix()}
	nWorlds := run.Count(6, 150)
	perWorld, nCfg, nAlert, nHop := 5, 3, 3, 3
	if run.Tier == "thorough" {
		perWorld, nCfg, nAlert, nHop = 25, -1, -1, -1
	}
	for wi := 0; wi < nWorlds; wi++ {
		w := x.world(wi)
		r := x.rng.Fork(uint64(2_000_000 + wi))
		count, plain, honest := 0, 0, 0
		for _, pr := range w.Pairs(r) {
			if count >= perWorld {
				break
			}
			ps, err := w.Paths(r, pr[0], pr[1], 3)
			if err != nil {
				run.Violate(-1, "path construction failed: "+err.Error(), map[string]any{
					"src": pr[0].String(), "dst": pr[1].String(), "topology": w.Net.Describe()})
				continue
			}
			for _, p := range ps {
				if count >= perWorld {
					break
				}
				if p.Kind() == "1seg" {
					if plain >= 1 {
						continue
					}
					plain++
				}
				_, expired, borderline := p.ExpiryMargin(x.now)
				if borderline {
					run.Tally("skipped:hop-expiry-within-margin")
					continue
				}
				p.SetHosts(r, w.Net)
				if p.DstSVC && r.Bool() {
					// keep most destinations plain hosts
					p.Dst, p.DstSVC = p.ReplyFrom, false
				}
				if expired {
					// a hop field expired on its own: the first router that looks at it answers
					if honest < 2 {
						honest++
						x.runScenario(w, wi, p, scenario{kind: "honest-expired"}, r, true)
					}
					continue
				}
				s, err := w.Send(p, nil)
				if err != nil || !s.Walk.Delivered() {
					run.Tally("skipped:plain-walk-not-delivered")
					continue
				}
				cfg, alert, hop := candidates(p, s.Walk, w, r)
				scs := append(append(take(r, cfg, nCfg), take(r, alert, nAlert)...), take(r, hop, nHop)...)
				if r.Chance(1, 3) && len(alert) > 0 {
					// a router-alert packet that is not a traceroute request
					a := vgen.Pick(r, alert...)
					a.tr, a.kind = false, "alert-udp"
					scs = append(scs, a)
				}
				for _, sc := range scs {
					// a share of the offending packets and traceroute requests carries extension headers
					if r.Chance(1, 3) {
						sc.ext = r.Range(1, 3)
					}
					x.runScenario(w, wi, p, sc, r, false)
				}
				count++
			}
		}
	}
	x.longPeering(run.Count(60, 600), run.Count(4, 80))
	_ = addr.IA(0)
	run.Prelude = "From Coq Require Import PrimInt63.\n" + netgen.IADefs() + strings.Join(x.defs, "\n")
	run.Finish()
}
