// Runner for C11: local delivery uses the documented underlay destination port.
//
// Every case configures a REAL router.Connector (router.NewConnector, then either
// control.ConfigDataplane on a generated topology or the Connector calls in a random order,
// with a socket-less udpip.ConnOpener), then sends probe packets built with slayers through the
// real dataPlane.resolveLocalDst -> dstScionPort -> internalLink.Resolve and records the
// underlay destination that was set on the packet.
package main

import (
	"encoding/json"
	"errors"
	"fmt"
	"net/netip"
	"strconv"

	"github.com/gopacket/gopacket"

	"github.com/scionproto/scion/pkg/addr"
	"github.com/scionproto/scion/pkg/segment/iface"
	"github.com/scionproto/scion/pkg/slayers"
	"github.com/scionproto/scion/pkg/slayers/path"
	"github.com/scionproto/scion/pkg/slayers/path/empty"
	"github.com/scionproto/scion/pkg/slayers/path/scion"
	"github.com/scionproto/scion/private/env"
	"github.com/scionproto/scion/private/topology"
	"github.com/scionproto/scion/private/underlay/conn"
	"github.com/scionproto/scion/router"
	"github.com/scionproto/scion/router/config"
	"github.com/scionproto/scion/router/control"
	"github.com/scionproto/scion/router/underlayproviders/udpip"
	"verifharness/internal/vgen"
)

// ---------------------------------------------------------------- socket-less opener

type fakeConn struct{}

func (fakeConn) ReadBatch(conn.Messages) (int, error)       { select {} }
func (fakeConn) WriteBatch(conn.Messages, int) (int, error) { return 0, nil }
func (fakeConn) Close() error                               { return nil }

type opener struct{}

func (opener) Open(l, r netip.AddrPort, c *conn.Config) (router.BatchConn, error) {
	return fakeConn{}, nil
}
func (opener) UDPCanReuseLocal() bool { return true }

const lazyName = "udpip-lazy-verif-c11"

func init() {
	router.AddUnderlay(lazyName, func(b, r, s int) router.UnderlayProvider {
		p := udpip.VerifNewProvider(b, r, s)
		p.SetConnOpener(opener{})
		return p
	})
}

// ---------------------------------------------------------------- configuration

type rng struct { // topology dispatched_ports
	Kind int // 0 empty, 1 all, 2 span
	A, B int
}

func (r rng) str(alt bool) string {
	switch r.Kind {
	case 0:
		if alt {
			return ""
		}
		return "-"
	case 1:
		if alt {
			return "ALL"
		}
		return "all"
	}
	return fmt.Sprintf("%d-%d", r.A, r.B)
}

func (r rng) pair() (int, int) {
	switch r.Kind {
	case 0:
		return 0, 0
	case 1:
		return 1, 65535
	}
	return r.A, r.B
}

func (r rng) term() string {
	switch r.Kind {
	case 0:
		return "PortDispatch.TEmpty"
	case 1:
		return "PortDispatch.TAll"
	}
	return vgen.App("PortDispatch.TSpan", vgen.N(uint64(r.A)), vgen.N(uint64(r.B)))
}

// viaTopology: the range can be written in a topology file (1 <= a <= b)
func (r rng) viaTopology() bool { return r.Kind != 2 || (r.A >= 1 && r.A <= r.B) }

type opT struct {
	Kind int // 0 SetRange, 1 AddInternal, 2 AddExternal, 3 AddSvc, 4 DelSvc
	R    rng
	Alt  bool
	Lazy bool // AddExternal: on a lazily instantiated provider
	Own  bool // AddExternal: owned (external link) or not (sibling link)
	IfID int
	Svc  int
	IP   string
	Port int
}

func (o opT) term() string {
	switch o.Kind {
	case 0:
		return vgen.App("PortDispatch.OSetRange", o.R.term())
	case 1:
		return "PortDispatch.OAddInternal"
	case 2:
		return "PortDispatch.OAddExternal"
	case 3, 4:
		c := "PortDispatch.OAddSvc"
		if o.Kind == 4 {
			c = "PortDispatch.ODelSvc"
		}
		return vgen.App(c, vgen.N(uint64(o.Svc)), vgen.Bytes(netip.MustParseAddr(o.IP).AsSlice()),
			vgen.N(uint64(o.Port)))
	}
	return "PortDispatch.OOther"
}

type cfgCase struct {
	Ov     *[2]int
	Driver int // 0 ConfigDataplane, 1 Connector calls
	Ops    []opT
}

const (
	localIA  = "1-ff00:0:110"
	remoteIA = "1-ff00:0:120"
	intAddr  = "127.0.0.1:30042"
)

func genRange(r *vgen.Rand) rng {
	switch r.Intn(8) {
	case 0:
		return rng{Kind: 0}
	case 1:
		return rng{Kind: 1}
	case 2: // single port
		a := r.Range(1, 65535)
		return rng{2, a, a}
	case 3: // the recommended transition range
		return rng{2, 31000, 32767}
	case 4: // not expressible in a topology file (direct SetPortRange only)
		return vgen.Pick(r, rng{2, 0, r.Range(0, 65535)}, rng{2, r.Range(2, 65535), 1}, rng{2, 0, 65535})
	default:
		a := r.Range(1, 65535)
		return rng{2, a, r.Range(a, 65535)}
	}
}

var svcIPs = []string{"127.0.0.9", "127.0.0.10", "10.1.2.3", "fd00::9", "2001:db8::1:2"}

func genCfg(r *vgen.Rand, i int) cfgCase {
	c := cfgCase{Driver: r.Intn(2)}
	if r.Chance(1, 4) {
		g := genRange(r)
		a, b := g.pair()
		if a > b {
			a, b = b, a
		}
		c.Ov = &[2]int{a, b}
	}
	if i%7 == 3 {
		c.Ov = nil
	}
	if c.Driver == 0 {
		// order of control.ConfigDataplane: internal, external (sorted by id), services (DS, CS), range
		g := genRange(r)
		for !g.viaTopology() {
			g = genRange(r)
		}
		c.Ops = append(c.Ops, opT{Kind: 1})
		n := r.Intn(3)
		for k := 0; k < n; k++ {
			c.Ops = append(c.Ops, opT{Kind: 2, Lazy: r.Chance(1, 3), Own: r.Bool(), IfID: k + 1})
		}
		for _, svc := range []int{1, 2} {
			m := r.Intn(3)
			seen := map[string]bool{}
			for k := 0; k < m; k++ {
				o := opT{Kind: 3, Svc: svc, IP: vgen.Pick(r, svcIPs...), Port: r.Range(1, 65535)}
				key := fmt.Sprint(o.IP, o.Port)
				if seen[key] {
					continue
				}
				seen[key] = true
				c.Ops = append(c.Ops, o)
			}
		}
		c.Ops = append(c.Ops, opT{Kind: 0, R: g, Alt: r.Bool()})
		return c
	}
	// driver 1: the same calls, any order, the range possibly set more than once
	ops := []opT{{Kind: 1}}
	ns := r.Range(0, 2)
	if i%5 == 0 {
		ns = 1
	}
	for k := 0; k < ns; k++ {
		ops = append(ops, opT{Kind: 0, R: genRange(r), Alt: r.Bool()})
	}
	n := r.Intn(3)
	for k := 0; k < n; k++ {
		ops = append(ops, opT{Kind: 2, Lazy: r.Chance(1, 3), Own: r.Bool(), IfID: k + 1})
	}
	m := r.Intn(5)
	var added []opT
	for k := 0; k < m; k++ {
		if len(added) > 0 && r.Chance(1, 4) {
			d := added[r.Intn(len(added))]
			d.Kind = 4
			ops = append(ops, d)
			continue
		}
		o := opT{Kind: 3, Svc: vgen.Pick(r, 1, 2, 2, 16, 5), IP: vgen.Pick(r, svcIPs...),
			Port: vgen.Pick(r, 30252, 31000, 0, r.Range(1, 65535))}
		added = append(added, o)
		ops = append(ops, o)
	}
	vgen.Shuffle(r, ops)
	c.Ops = ops
	return c
}

func (c cfgCase) lastRange() (rng, bool) {
	var g rng
	ok := false
	for _, o := range c.Ops {
		if o.Kind == 0 {
			g, ok = o.R, true
		}
	}
	return g, ok
}

// effective pair, for choosing boundary ports only
func (c cfgCase) pair() (int, int) {
	if c.Ov != nil {
		return c.Ov[0], c.Ov[1]
	}
	g, _ := c.lastRange()
	return g.pair()
}

// knownProne: empty topology range without override, or no range configured at all: port 0 is
// the known deviation
func (c cfgCase) knownProne() bool {
	g, ok := c.lastRange()
	return !ok || (c.Ov == nil && g.Kind == 0)
}

func topoJSON(c cfgCase, g rng, alt bool, withRange bool) []byte {
	type m = map[string]any
	own, sib := m{}, m{}
	cs, ds := m{}, m{}
	for _, o := range c.Ops {
		switch o.Kind {
		case 2:
			prov := "udpip"
			if o.Lazy && o.Own {
				prov = lazyName
			}
			ifc := m{"isd_as": remoteIA, "link_to": "CORE", "mtu": 1472,
				"underlay": m{"provider": prov, "local": "127.0.0.1:" + strconv.Itoa(31000+o.IfID),
					"remote": fmt.Sprintf("127.0.%d.2:30100", o.IfID)}}
			if o.Own {
				own[strconv.Itoa(o.IfID)] = ifc
			} else {
				sib[strconv.Itoa(o.IfID)] = ifc
			}
		case 3:
			e := m{"addr": netip.AddrPortFrom(netip.MustParseAddr(o.IP), uint16(o.Port)).String()}
			if o.Svc == 2 {
				cs[fmt.Sprintf("cs-%d", len(cs))] = e
			} else {
				ds[fmt.Sprintf("ds-%d", len(ds))] = e
			}
		}
	}
	t := m{"isd_as": localIA, "mtu": 1472, "attributes": []string{"core"},
		"border_routers": m{
			"br1": m{"internal_addr": intAddr, "interfaces": own},
			"br2": m{"internal_addr": "127.0.0.77:30042", "interfaces": sib},
		},
		"control_service": cs, "discovery_service": ds,
	}
	if withRange && !(g.Kind == 0 && alt) { // alt empty = the key is absent
		t["dispatched_ports"] = g.str(alt)
	}
	b, err := json.Marshal(t)
	if err != nil {
		panic(err)
	}
	return b
}

// portRange asks the real topology parser for the pair of a dispatched_ports string.
func portRange(g rng, alt bool) (uint16, uint16, error) {
	topo, err := topology.FromJSONBytes(topoJSON(cfgCase{}, g, alt, true))
	if err != nil {
		return 0, 0, err
	}
	s, e := topo.PortRange()
	return s, e, nil
}

func configure(c cfgCase) (*router.Connector, error) {
	rcfg := config.RouterConfig{BatchSize: 8, NumProcessors: 1, NumSlowPathProcessors: 1,
		BFD: config.BFD{Disable: true}}
	if c.Ov != nil {
		rcfg.DispatchedPortStart, rcfg.DispatchedPortEnd = &c.Ov[0], &c.Ov[1]
	}
	if err := rcfg.Validate(); err != nil {
		return nil, fmt.Errorf("router config: %w", err)
	}
	cn := router.NewConnector(rcfg, env.Features{})
	cn.VerifCfgSetConnOpener(opener{})
	if c.Driver == 0 {
		last := c.Ops[len(c.Ops)-1]
		topo, err := topology.FromJSONBytes(topoJSON(c, last.R, last.Alt, true))
		if err != nil {
			return nil, fmt.Errorf("topology: %w", err)
		}
		br, _ := topo.BR("br1")
		return cn, control.ConfigDataplane(cn, &control.Config{Topo: topo, IA: topo.IA(), BR: &br})
	}
	ia := addr.MustParseIA(localIA)
	if err := cn.CreateIACtx(ia); err != nil {
		return nil, err
	}
	for _, o := range c.Ops {
		switch o.Kind {
		case 0:
			var s, e uint16
			if o.R.viaTopology() {
				var err error
				if s, e, err = portRange(o.R, o.Alt); err != nil {
					return nil, fmt.Errorf("topology range %q: %w", o.R.str(o.Alt), err)
				}
			} else {
				a, b := o.R.pair()
				s, e = uint16(a), uint16(b)
			}
			cn.SetPortRange(s, e)
		case 1:
			ih := addr.HostIP(netip.MustParseAddrPort(intAddr).Addr())
			if err := cn.AddInternalInterface(ia, ih, "udpip", intAddr); err != nil {
				return nil, err
			}
		case 2:
			prov := "udpip"
			if o.Lazy {
				prov = lazyName
			}
			local := "127.0.0.1:" + strconv.Itoa(31000+o.IfID)
			if !o.Own {
				local = intAddr
			}
			remote := fmt.Sprintf("127.0.%d.2:30100", o.IfID)
			li := control.LinkInfo{Provider: prov,
				Local:  control.LinkEnd{IA: ia, Addr: local, IfID: iface.ID(o.IfID)},
				Remote: control.LinkEnd{IA: addr.MustParseIA(remoteIA), Addr: remote},
				LinkTo: topology.Core, MTU: 1472}
			lh := addr.HostIP(netip.MustParseAddrPort(local).Addr())
			rh := addr.HostIP(netip.MustParseAddrPort(remote).Addr())
			if err := cn.AddExternalInterface(iface.ID(o.IfID), li, lh, rh, o.Own); err != nil {
				return nil, err
			}
		case 3:
			h := addr.HostIP(netip.MustParseAddr(o.IP))
			if err := cn.AddSvc(ia, addr.SVC(o.Svc), h, uint16(o.Port)); err != nil {
				return nil, err
			}
		case 4:
			h := addr.HostIP(netip.MustParseAddr(o.IP))
			if err := cn.DelSvc(ia, addr.SVC(o.Svc), h, uint16(o.Port)); err != nil {
				return nil, err
			}
		}
	}
	return cn, nil
}

// ---------------------------------------------------------------- probes

type probe struct {
	AddrType int
	Raw      []byte
	L4       int
	Pld      []byte
	Q        []int // nil or {proto, offset}
	Ext      int   // 0 none, 1 HBH, 2 E2E, 3 both (outer packet)
	Kind     string
	Derived  int // port the packet documents (-1: none / not derivable)
	pkt      []byte
}

func be16(v int) []byte { return []byte{byte(v >> 8), byte(v)} }

func extBytes(ext int, next int) []byte {
	// 4-byte extension headers with a PadN option of length 0
	switch ext {
	case 1:
		return []byte{byte(next), 0, 1, 0}
	case 2:
		return []byte{byte(next), 0, 1, 0}
	case 3:
		return append([]byte{201, 0, 1, 0}, byte(next), 0, 1, 0)
	}
	return nil
}

func firstHdr(ext, l4 int) int {
	switch ext {
	case 1, 3:
		return 200
	case 2:
		return 201
	}
	return l4
}

func scionPath(r *vgen.Rand, withPath bool) (path.Path, path.Type) {
	if !withPath {
		return empty.Path{}, empty.PathType
	}
	p := &scion.Decoded{
		Base: scion.Base{PathMeta: scion.MetaHdr{CurrHF: 1, SegLen: [3]uint8{2, 0, 0}}, NumINF: 1, NumHops: 2},
		InfoFields: []path.InfoField{{SegID: uint16(r.Intn(65536)), ConsDir: true, Timestamp: 1000}},
		HopFields: []path.HopField{{ConsIngress: 0, ConsEgress: 3, ExpTime: 63},
			{ConsIngress: 1, ConsEgress: 0, ExpTime: 63}},
	}
	return p, scion.PathType
}

// scionBytes serializes a SCION header followed by rest (extension headers and L4 bytes).
func scionBytes(r *vgen.Rand, dstType int, rawDst []byte, next int, withPath bool, rest []byte) ([]byte, int) {
	p, pt := scionPath(r, withPath)
	s := &slayers.SCION{
		TrafficClass: uint8(r.Intn(256)), FlowID: uint32(r.Intn(1 << 20)),
		NextHdr: slayers.L4ProtocolType(next), PathType: pt, Path: p,
		DstIA: addr.MustParseIA(localIA), SrcIA: addr.MustParseIA(remoteIA),
		DstAddrType: slayers.AddrType(dstType), RawDstAddr: rawDst,
		SrcAddrType: slayers.T4Ip, RawSrcAddr: []byte{10, 0, 0, byte(r.Range(1, 250))},
	}
	buf := gopacket.NewSerializeBuffer()
	if err := gopacket.SerializeLayers(buf, gopacket.SerializeOptions{FixLengths: true},
		s, gopacket.Payload(rest)); err != nil {
		panic(fmt.Sprint("serializing SCION packet: ", err))
	}
	return buf.Bytes(), len(buf.Bytes()) - len(rest)
}

func pickPort(r *vgen.Rand, c cfgCase, avoidZero bool) int {
	a, b := c.pair()
	cand := []int{0, 1, a - 1, a, b, b + 1, 65535, 30041, (a + b) / 2, r.Range(0, 65535), r.Range(1024, 65535)}
	for {
		p := cand[r.Intn(len(cand))]
		if p < 0 || p > 65535 || (avoidZero && p == 0) {
			continue
		}
		return p
	}
}

// quote builds the packet quoted in an SCMP error and the descriptor of its L4 part.
func quote(r *vgen.Rand, c cfgCase, avoidZero bool) (qb []byte, q []int, derived int, kind string) {
	port := pickPort(r, c, avoidZero)
	derived = -1
	var l4 []byte
	proto := 17
	switch r.Intn(10) {
	case 0, 1, 2, 3: // UDP: source port is what counts
		if r.Chance(1, 8) {
			port = 0
		}
		l4 = append(append(be16(port), be16(r.Intn(65536))...), 0, byte(r.Range(0, 20)), 0, 0)
		l4 = append(l4, r.Bytes(r.Intn(6))...)
		kind = "q-udp"
		if port != 0 {
			derived = port
		}
	case 4, 5: // echo request
		proto = 202
		l4 = append([]byte{128, 0, 0, 0}, append(be16(port), be16(r.Intn(65536))...)...)
		l4 = append(l4, r.Bytes(r.Intn(4))...)
		kind, derived = "q-echo-req", port
	case 6: // traceroute request
		proto = 202
		l4 = append([]byte{130, 0, 0, 0}, append(be16(port), be16(r.Intn(65536))...)...)
		l4 = append(l4, make([]byte, 16)...)
		kind, derived = "q-tr-req", port
	case 7: // replies and errors must not be answered
		proto = 202
		ty := vgen.Pick(r, 129, 131, 1, 4, 5, 132, 255)
		l4 = append([]byte{byte(ty), 0, 0, 0}, append(be16(port), make([]byte, 22)...)...)
		kind = "q-scmp-other"
	case 8: // TCP and others
		proto = vgen.Pick(r, 6, 203, 0, 253)
		l4 = append(append(be16(port), be16(port)...), make([]byte, 16)...)
		kind = "q-other-l4"
	default: // truncated L4
		proto = vgen.Pick(r, 17, 202, 202)
		full := append(be16(port), be16(r.Intn(65536))...)
		if proto == 202 {
			full = append([]byte{byte(vgen.Pick(r, 128, 130)), 0, 0, 0}, full...)
			full = append(full, make([]byte, 16)...)
		} else {
			full = append(full, 0, 8, 0, 0)
		}
		l4 = full[:r.Intn(len(full))]
		kind = "q-trunc-l4"
		// derivable only if enough survived
		if proto == 17 && len(l4) >= 8 && port != 0 {
			derived = port
		}
		if proto == 202 && len(l4) >= 4 {
			need := 8
			if l4[0] == 130 {
				need = 24
			}
			if len(l4) >= need {
				derived = port
			}
		}
	}
	ext := 0
	if r.Chance(1, 6) {
		ext = r.Range(1, 3)
	}
	rest := append(extBytes(ext, proto), l4...)
	dst := []byte{10, 0, 0, 1}
	all, hdr := scionBytes(r, 0, dst, firstHdr(ext, proto), r.Chance(1, 4), rest)
	off := hdr + len(extBytes(ext, proto))
	if r.Chance(1, 10) { // cut inside the SCION / extension headers: nothing decodes
		cut := r.Intn(off)
		return all[:cut], nil, -1, "q-trunc-hdr"
	}
	return all, []int{proto, off}, derived, kind
}

var scmpErrHdr = map[int]int{1: 4, 2: 4, 4: 4, 5: 16, 6: 24}

func genProbe(r *vgen.Rand, c cfgCase, avoidZero bool) probe {
	p := probe{Derived: -1}
	// destination
	svcDst := false
	switch r.Intn(12) {
	case 0, 1:
		svcDst = true
		svc := vgen.Pick(r, 1, 2, 2, 16, 5, 7)
		if r.Chance(1, 3) {
			svc |= 0x8000
		}
		p.AddrType, p.Raw = 4, append(be16(svc), 0, 0)
	case 2:
		p.AddrType, p.Raw = 3, netip.MustParseAddr(vgen.Pick(r, "fd00::5", "2001:db8::77")).AsSlice()
	case 3:
		switch r.Intn(4) {
		case 0:
			p.AddrType, p.Raw = 0, []byte{0, 0, 0, 0}
		case 1:
			p.AddrType, p.Raw = 3, make([]byte, 16)
		case 2:
			p.AddrType, p.Raw = 3, netip.MustParseAddr("::ffff:10.1.2.3").AsSlice()
		default:
			p.AddrType, p.Raw = vgen.Pick(r, 1, 2, 5, 7), nil
			p.Raw = r.Bytes(((p.AddrType & 3) + 1) * 4)
		}
	default:
		p.AddrType, p.Raw = 0, []byte{10, 0, byte(r.Intn(256)), byte(r.Range(1, 254))}
	}
	port := pickPort(r, c, avoidZero)
	switch k := r.Intn(20); {
	case k < 6: // UDP
		p.L4, p.Kind, p.Derived = 17, "udp", port
		p.Pld = append(append(be16(r.Intn(65536)), be16(port)...), 0, 8, 0, 0)
		p.Pld = append(p.Pld, r.Bytes(r.Intn(5))...)
	case k < 8: // TCP
		p.L4, p.Kind, p.Derived = 6, "tcp", port
		p.Pld = append(append(be16(r.Intn(65536)), be16(port)...), make([]byte, 16)...)
	case k == 8: // truncated UDP / TCP
		p.L4 = vgen.Pick(r, 17, 6)
		n := 20
		if p.L4 == 17 {
			n = 8
		}
		p.Kind = "l4-trunc"
		p.Pld = append(append(be16(r.Intn(65536)), be16(port)...), make([]byte, 16)...)[:r.Intn(n)]
	case k < 11: // echo reply
		p.L4, p.Kind, p.Derived = 202, "echo-reply", port
		p.Pld = append([]byte{129, 0, 0, 0}, append(be16(port), be16(r.Intn(65536))...)...)
		p.Pld = append(p.Pld, r.Bytes(r.Intn(4))...)
	case k == 11: // traceroute reply
		p.L4, p.Kind, p.Derived = 202, "tr-reply", port
		p.Pld = append([]byte{131, 0, 0, 0}, append(be16(port), make([]byte, 18)...)...)
	case k == 12: // requests go to the end-host port
		p.L4, p.Kind, p.Derived = 202, "scmp-request", 30041
		ty := vgen.Pick(r, 128, 130)
		p.Pld = append([]byte{byte(ty), 0, 0, 0}, append(be16(port), make([]byte, 18)...)...)
	case k == 13: // truncated SCMP
		p.L4, p.Kind = 202, "scmp-trunc"
		ty := vgen.Pick(r, 129, 131, 131, 1, 5)
		full := append([]byte{byte(ty), 0, 0, 0}, append(be16(port), make([]byte, 14)...)...)
		p.Pld = full[:r.Intn(len(full))]
	case k < 19: // SCMP errors
		p.L4 = 202
		ty := vgen.Pick(r, 1, 2, 4, 5, 6, 1, 4, 5)
		if r.Chance(1, 12) {
			ty = vgen.Pick(r, 3, 100, 127, 132, 200, 0) // not interpreted
		}
		qb, q, derived, kind := quote(r, c, avoidZero)
		hl, known := scmpErrHdr[ty]
		if !known {
			hl, derived = 4, -1
		}
		if r.Chance(1, 15) { // no quote at all
			qb, q, derived, kind = nil, nil, -1, "q-none"
		}
		p.Kind, p.Derived, p.Q = fmt.Sprintf("scmp-err%d/%s", ty, kind), derived, q
		p.Pld = append(append([]byte{byte(ty), byte(r.Intn(4)), 0, 0}, r.Bytes(hl)...), qb...)
	default: // other L4
		p.L4, p.Kind, p.Derived = vgen.Pick(r, 203, 0, 1, 253, 255), "other-l4", 30041
		p.Pld = append(append(be16(r.Intn(65536)), be16(port)...), r.Bytes(r.Intn(8))...)
	}
	if svcDst {
		p.Derived = -1
	}
	if r.Chance(1, 6) {
		p.Ext = r.Range(1, 3)
	}
	rest := append(extBytes(p.Ext, p.L4), p.Pld...)
	p.pkt, _ = scionBytes(r, p.AddrType, p.Raw, firstHdr(p.Ext, p.L4), r.Chance(1, 3), rest)
	return p
}

// known-finding probes: derived port 0
func genKnownProbe(r *vgen.Rand, i int) probe {
	p := probe{AddrType: 0, Raw: []byte{10, 0, 0, byte(r.Range(1, 250))}, Derived: 0}
	switch i % 5 {
	case 0:
		p.L4, p.Kind = 17, "udp"
		p.Pld = append(append(be16(r.Range(1, 65535)), 0, 0), 0, 8, 0, 0)
	case 1:
		p.L4, p.Kind = 6, "tcp"
		p.Pld = append(append(be16(r.Range(1, 65535)), 0, 0), make([]byte, 16)...)
	case 2:
		p.L4, p.Kind = 202, "echo-reply"
		p.Pld = []byte{129, 0, 0, 0, 0, 0, 0, 7}
	case 3:
		p.L4, p.Kind = 202, "tr-reply"
		p.Pld = append([]byte{131, 0, 0, 0, 0, 0}, make([]byte, 18)...)
	default:
		p.L4, p.Kind = 202, "scmp-err1/q-echo-req"
		l4 := []byte{128, 0, 0, 0, 0, 0, 0, 9}
		qb, hdr := scionBytes(r, 0, []byte{10, 0, 0, 1}, 202, false, l4)
		p.Q = []int{202, hdr}
		p.Pld = append([]byte{1, 0, 0, 0, 0, 0, 0, 0}, qb...)
	}
	p.pkt, _ = scionBytes(r, p.AddrType, p.Raw, p.L4, false, p.Pld)
	return p
}

type outcome struct {
	Kind int // 0 delivered, 1 no svc, 2 rejected
	IP   []byte
	Port int
}

func (o outcome) term() string {
	switch o.Kind {
	case 0:
		return vgen.App("PortDispatch.Delivered", vgen.Bytes(o.IP), vgen.N(uint64(o.Port)))
	case 1:
		return "PortDispatch.NoSvc"
	}
	return "PortDispatch.Rejected"
}

func runProbe(cn *router.Connector, p probe) outcome {
	ua, err := cn.VerifCfgResolveLocalDst(p.pkt)
	if err != nil {
		if errors.Is(err, router.ErrNoSVCBackend) {
			return outcome{Kind: 1}
		}
		return outcome{Kind: 2}
	}
	ip, _ := netip.AddrFromSlice(ua.IP)
	return outcome{Kind: 0, IP: ip.AsSlice(), Port: ua.Port}
}

func (p probe) term(o outcome) string {
	q := make([]uint64, len(p.Q))
	for i, v := range p.Q {
		q[i] = uint64(v)
	}
	return vgen.App("PortDispatch.P", vgen.N(uint64(p.AddrType)), vgen.Bytes(p.Raw),
		vgen.N(uint64(p.L4)), vgen.Bytes(p.Pld), vgen.NList(q), o.term())
}

func main() {
	run := vgen.Flags("C11")
	run.Imports = []string{"Model.PortDispatch"}
	run.CheckFn = "PortDispatch.check"
	run.DiagFn = "PortDispatch.diag"
	run.CaseType = "PortDispatch.case"
	run.ShardSize = 60
	run.Rule = "res: a real router.Connector configured by control.ConfigDataplane on a generated topology " +
		"(driver 0) or by the Connector calls in a random order with 0-2 SetPortRange (driver 1); ranges '-', " +
		"absent, 'all', [a,a], 31000-32767, random [a,b], pairs a topology cannot express; optional router-config " +
		"override; then 5-9 probe packets built with slayers (IPv4/IPv6/SVC/invalid destinations; UDP, TCP, " +
		"SCMP echo/traceroute request/reply, SCMP errors quoting UDP/SCMP/TCP/truncated packets, other L4, " +
		"truncated L4; optional HBH/E2E extensions; ports 0,1,a-1,a,b,b+1,65535,30041,random) through the real " +
		"resolveLocalDst. topo: dispatched_ports strings through the real topology parser. const: EndhostPort. " +
		"non-trivial = the probe documents a port for an IP destination, or addresses a service"
	rnd := vgen.NewRand(run.Seed)
	id := 0

	// constant
	if run.Want() {
		run.Add("const", vgen.App("PortDispatch.CConst", vgen.N(uint64(topology.EndhostPort))), "endhost", true,
			map[string]int{"EndhostPort": topology.EndhostPort})
	} else {
		run.Skip()
	}
	id++

	// topology strings
	nt := run.Count(24, 400)
	for i := 0; i < nt; i, id = i+1, id+1 {
		r := rnd.Fork(uint64(500000 + i))
		g := genRange(r)
		for !g.viaTopology() {
			g = genRange(r)
		}
		if i < 4 {
			g = []rng{{Kind: 0}, {Kind: 0}, {Kind: 1}, {Kind: 1}}[i]
		}
		alt := i%2 == 1
		if !run.Want() {
			run.Skip()
			continue
		}
		s, e, err := portRange(g, alt)
		if err != nil {
			run.Violate(id, "topology rejects dispatched_ports "+strconv.Quote(g.str(alt))+": "+err.Error(), g)
			run.Skip()
			continue
		}
		run.Tally(fmt.Sprintf("topo:kind%d", g.Kind))
		run.Add("topo", vgen.App("PortDispatch.CTopo", g.term(), vgen.N(uint64(s)), vgen.N(uint64(e))),
			g.str(alt), true, map[string]any{"dispatched_ports": g.str(alt), "impl": []uint16{s, e}})
	}

	emit := func(kind string, c cfgCase, probes []probe, tags ...string) {
		var cn *router.Connector
		var err error
		if p, msg := vgen.Recover(func() { cn, err = configure(c) }); p {
			err = errors.New("panic: " + msg)
		}
		if err != nil {
			run.Violate(id, "configuring the data plane failed: "+err.Error(), c, tags...)
			run.Skip()
			return
		}
		pts := make([]string, len(probes))
		var descs []any
		nontrivial := false
		for j, p := range probes {
			var o outcome
			if pn, msg := vgen.Recover(func() { o = runProbe(cn, p) }); pn {
				run.Violate(id, "panic in resolveLocalDst: "+msg, map[string]any{"cfg": c, "probe": p}, tags...)
				o = outcome{Kind: 2}
			}
			pts[j] = p.term(o)
			run.Tally("probe:" + p.Kind)
			run.Tally(fmt.Sprintf("outcome:%d", o.Kind))
			if p.Derived >= 0 || p.AddrType == 4 {
				nontrivial = true
			}
			if o.Kind == 0 && p.Derived >= 0 {
				if o.Port == 30041 && p.Derived != 30041 {
					run.Tally("port:redirected")
				} else {
					run.Tally("port:kept")
				}
			}
			descs = append(descs, map[string]any{"kind": p.Kind, "addr_type": p.AddrType, "raw": p.Raw,
				"l4": p.L4, "ext": p.Ext, "derived": p.Derived, "impl": o})
		}
		ov := []uint64{}
		if c.Ov != nil {
			ov = []uint64{uint64(c.Ov[0]), uint64(c.Ov[1])}
		}
		run.Tally(fmt.Sprintf("driver:%d", c.Driver))
		g, ok := c.lastRange()
		if !ok {
			run.Tally("range:never-set")
		} else {
			run.Tally(fmt.Sprintf("range:kind%d", g.Kind))
		}
		// position of AddInternal relative to the last SetRange
		pi, ps := -1, -1
		for k, o := range c.Ops {
			if o.Kind == 1 {
				pi = k
			}
			if o.Kind == 0 {
				ps = k
			}
		}
		if ps >= 0 {
			run.Tally(fmt.Sprintf("order:range-after-internal=%v", ps > pi))
		}
		term := vgen.App("PortDispatch.CRes", vgen.NList(ov),
			vgen.ListOf(c.Ops, func(o opT) string { return o.term() }), vgen.List(pts))
		run.Add(kind, term, fmt.Sprint(c, descs), nontrivial, map[string]any{"cfg": c, "probes": descs}, tags...)
	}

	nc := run.Count(120, 6000)
	for i := 0; i < nc; i, id = i+1, id+1 {
		r := rnd.Fork(uint64(i))
		c := genCfg(r, i)
		np := r.Range(5, 9)
		probes := make([]probe, np)
		for j := range probes {
			probes[j] = genProbe(r, c, c.knownProne())
		}
		if !run.Want() {
			run.Skip()
			continue
		}
		emit("res", c, probes)
	}

	// the known deviation: empty topology range, no override, documented port 0
	nk := run.Count(10, 100)
	for i := 0; i < nk; i, id = i+1, id+1 {
		r := rnd.Fork(uint64(900000 + i))
		c := cfgCase{Driver: i % 2, Ops: []opT{{Kind: 1}, {Kind: 0, R: rng{Kind: 0}, Alt: r.Bool()}}}
		if c.Driver == 1 && r.Bool() {
			c.Ops[0], c.Ops[1] = c.Ops[1], c.Ops[0]
		}
		if c.Driver == 1 && i%4 == 3 {
			c.Ops = c.Ops[:1] // range never set
			if c.Ops[0].Kind != 1 {
				c.Ops = []opT{{Kind: 1}}
			}
		}
		p := genKnownProbe(r, i)
		if !run.Want() {
			run.Skip()
			continue
		}
		emit("res-port0", c, []probe{p}, "empty-range-port0")
	}
	run.Finish()
}
