// Runner for C35: FetchingProvider.NotifyTRC histories over the real sqlite
// trust DB with a scripted fetcher (missing TRCs, invalid signatures, foreign
// voters, wrong serials, other base numbers, base TRCs, forks injected at any
// step), and trust.LoadTRCs on a temporary directory. Real signed TRC
// successions are made in-process (pkigen).
package main

import (
	"bytes"
	"context"
	"crypto/x509"
	"encoding/pem"
	"errors"
	"fmt"
	"net"
	"os"
	"path/filepath"
	"sort"
	"time"

	"github.com/scionproto/scion/pkg/addr"
	"github.com/scionproto/scion/pkg/scrypto"
	"github.com/scionproto/scion/pkg/scrypto/cppki"
	"github.com/scionproto/scion/private/storage/db"
	truststorage "github.com/scionproto/scion/private/storage/trust"
	"github.com/scionproto/scion/private/storage/trust/sqlite"
	"github.com/scionproto/scion/private/trust"
	"verifharness/internal/pkigen"
	"verifharness/internal/vgen"
)

const iaCore = "1-ff00:0:110"

type voters struct {
	id              uint64
	sens, reg, root *pkigen.Cert
}

func newVoters(g *pkigen.Gen, id uint64, ia, suffix string, nb, na time.Time) *voters {
	return &voters{id: id,
		sens: g.MustIssue(g.Tmpl(pkigen.Sensitive, ia, "sens"+suffix, nb, na), g.NewKey(), nil, nil),
		reg:  g.MustIssue(g.Tmpl(pkigen.Regular, ia, "reg"+suffix, nb, na), g.NewKey(), nil, nil),
		root: g.MustIssue(g.Tmpl(pkigen.Root, ia, "root"+suffix, nb, na), g.NewKey(), nil, nil)}
}

// universe holds the TRCs of one case and the oracle data of each (by signed raw bytes).
type universe struct {
	g      *pkigen.Gen
	a      *pkigen.Abs
	vset   map[string]uint64
	sigset map[string]uint64
}

func (u *universe) mk(v *voters, isd addr.ISD, base, serial uint64, nb, na time.Time, grace time.Duration,
	desc string, bad bool) cppki.SignedTRC {

	spec := pkigen.TRCSpec{ISD: isd, Base: base, Serial: serial, NB: nb, NA: na, Description: desc,
		Certs: []*pkigen.Cert{v.sens, v.reg, v.root}, BadSignature: bad}
	if base == serial {
		spec.Signers = []*pkigen.Cert{v.sens, v.reg}
	} else {
		spec.Grace = grace
		spec.Votes = []int{1}
		spec.Signers = []*pkigen.Cert{v.reg}
	}
	t, err := pkigen.MakeTRC(spec)
	if err != nil {
		panic(err)
	}
	u.vset[string(t.Raw)] = v.id
	u.sigset[string(t.Raw)] = v.id
	if bad {
		u.sigset[string(t.Raw)] = 0
	}
	return t
}

func (u *universe) term(t cppki.SignedTRC) string {
	vs, ok := u.vset[string(t.Raw)]
	if !ok {
		panic("unknown TRC read back from the DB")
	}
	tt := t.TRC
	tt.Certificates = nil // certificates play no role in C35
	return u.a.TRC(&tt, vs, u.sigset[string(t.Raw)])
}

type fetcher struct {
	script map[cppki.TRCID]cppki.SignedTRC
	calls  []cppki.TRCID
}

func (f *fetcher) Chains(context.Context, trust.ChainQuery, net.Addr) ([][]*x509.Certificate, error) {
	return nil, errors.New("not scripted")
}

func (f *fetcher) TRC(_ context.Context, id cppki.TRCID, _ net.Addr) (cppki.SignedTRC, error) {
	f.calls = append(f.calls, id)
	t, ok := f.script[id]
	if !ok {
		return cppki.SignedTRC{}, errors.New("fetch failed")
	}
	return t, nil
}

type recurser struct{ ok bool }

func (r recurser) AllowRecursion(net.Addr) error {
	if r.ok {
		return nil
	}
	return errors.New("recursion not allowed")
}

type router struct{}

func (router) ChooseServer(context.Context, addr.ISD) (net.Addr, error) {
	return &net.UDPAddr{IP: net.IPv4(127, 0, 0, 1), Port: 30252}, nil
}

var dbSeq int

func newDB() sqlite.DB {
	dbSeq++
	d, err := sqlite.New(fmt.Sprintf("verif_c35_%d_%d", time.Now().UnixNano(), dbSeq),
		&db.SqliteConfig{InMemory: true})
	if err != nil {
		panic(err)
	}
	return d
}

func storeTerm(u *universe, d sqlite.DB) string {
	all, err := d.SignedTRCs(context.Background(), truststorage.TRCsQuery{})
	if err != nil {
		panic(err)
	}
	sort.Sort(all)
	out := make([]string, len(all))
	for i, t := range all {
		out[i] = u.term(t)
	}
	return vgen.List(out)
}

func main() {
	run := vgen.Flags("C35")
	run.Imports = []string{"Model.PKIChain", "Model.TrustStore"}
	run.CheckFn = "TrustStore.check"
	run.DiagFn = "TrustStore.diag"
	run.CaseType = "TrustStore.case"
	run.ShardSize = 120
	run.Rule = "history: initial store (1-3 TRCs of the main succession, sometimes a gap, another base, another ISD, " +
		"or a base TRC of other voters) and 3-6 NotifyTRC calls (stale, current, future serials, other base / ISD, " +
		"recursion refused) on a real FetchingProvider over sqlite; each call has its own fetch script over real signed " +
		"TRC successions of length <= 8 with at most two faults at random steps (missing, corrupted signatures, other " +
		"voters, wrong serial, other base, base TRC, other ISD, valid fork); load: LoadTRCs on a temp dir with valid, " +
		"PEM (current and future-dated, wrong block type), garbage, future, duplicate and conflicting files; non-trivial = history with at least one fetch, every load case"
	rng := vgen.NewRand(run.Seed)

	nh := run.Count(220, 4000)
	for i := 0; i < nh; i++ {
		histCase(run, rng.Fork(uint64(i)))
	}
	nl := run.Count(90, 1500)
	for i := 0; i < nl; i++ {
		loadCase(run, rng.Fork(uint64(700000+i)))
	}
	run.Finish()
}

const maxSerial = 8

func histCase(run *vgen.Run, r *vgen.Rand) {
	// ---- description
	k0 := r.Range(1, 3)
	initShape := r.Intn(10) // 0..5 plain, 6 gap, 7 other base on top, 8 voters B base, 9 plus ISD 2
	nops := r.Range(3, 6)
	type fault struct{ pos, kind int }
	type opd struct {
		isd, base, serial uint64
		rec               bool
		faults            []fault
	}
	ops := make([]opd, nops)
	for j := range ops {
		o := opd{isd: 1, base: 1, serial: uint64(r.Range(0, maxSerial)), rec: !r.Chance(1, 10)}
		switch r.Intn(14) {
		case 0:
			o.isd = 2
		case 1:
			o.isd = 3
		case 2:
			o.base = 5
		case 3:
			o.base = 2
		}
		nf := []int{0, 0, 1, 1, 1, 2}[r.Intn(6)]
		for f := 0; f < nf; f++ {
			o.faults = append(o.faults, fault{pos: r.Range(1, maxSerial), kind: r.Intn(9)})
		}
		ops[j] = o
	}
	if !run.Want() {
		run.Skip()
		return
	}
	// ---- build
	g := pkigen.NewGen()
	t0 := time.Unix(1900000000, 0).UTC()
	u := &universe{g: g, a: pkigen.NewAbs(g, t0), vset: map[string]uint64{}, sigset: map[string]uint64{}}
	wNB, wNA := t0.Add(-1000*time.Hour), t0.Add(1000*time.Hour)
	va := newVoters(g, 1, iaCore, "A", wNB, wNA)
	vb := newVoters(g, 2, iaCore, "B", wNB, wNA)
	v2 := newVoters(g, 3, "2-ff00:0:210", "C", wNB, wNA)
	h := func(n int) time.Time { return t0.Add(time.Duration(n) * time.Hour) }
	main := map[uint64]cppki.SignedTRC{}
	for s := uint64(1); s <= maxSerial; s++ {
		main[s] = u.mk(va, 1, 1, s, h(int(s)), h(500), time.Duration(s)*time.Hour, "main", false)
	}
	variant := func(s uint64, kind int) (cppki.SignedTRC, bool) {
		switch kind {
		case 0: // missing
			return cppki.SignedTRC{}, false
		case 1: // corrupted signatures
			return u.mk(va, 1, 1, s, h(int(s)), h(500), time.Duration(s)*time.Hour, "main", true), true
		case 2: // other voters
			return u.mk(vb, 1, 1, s, h(int(s)), h(500), time.Hour, "B", false), true
		case 3: // serial too high
			if s+1 <= maxSerial {
				return main[s+1], true
			}
			return u.mk(va, 1, 1, s+1, h(int(s)), h(500), time.Hour, "high", false), true
		case 4: // serial too low
			if s > 1 {
				return main[s-1], true
			}
			return main[1], true
		case 5: // other base
			return u.mk(va, 1, 5, s+5, h(int(s)), h(500), time.Hour, "base5", false), true
		case 6: // a base TRC
			return u.mk(va, 1, s, s, h(int(s)), h(500), 0, "rebase", false), true
		case 7: // other ISD
			return u.mk(v2, 2, 1, s, h(int(s)), h(500), time.Hour, "isd2", false), true
		default: // a valid fork: other payload, properly voted
			return u.mk(va, 1, 1, s, h(int(s)), h(400), time.Duration(s)*time.Hour, "fork", false), true
		}
	}
	store := newDB()
	defer store.Close()
	ctx := context.Background()
	ins := func(t cppki.SignedTRC) {
		if _, err := store.InsertTRC(ctx, t); err != nil {
			panic(err)
		}
	}
	switch initShape {
	case 6:
		ins(main[1])
		ins(main[3])
	case 8:
		ins(u.mk(vb, 1, 1, 1, h(1), h(500), 0, "Bbase", false))
	default:
		order := []int{1, 2, 3}[:k0]
		if initShape%2 == 1 {
			vgen.Shuffle(r, order) // direct InsertTRC calls out of order
		}
		for _, s := range order {
			ins(main[uint64(s)])
		}
	}
	if initShape == 7 {
		ins(u.mk(va, 1, 5, 5, h(5), h(500), 0, "base5", false))
	}
	if initShape == 9 {
		ins(u.mk(v2, 2, 1, 1, h(1), h(500), 0, "isd2", false))
	}
	initT := storeTerm(u, store)
	var opT, obsT []string
	var desc []any
	fetches := 0
	for _, o := range ops {
		f := &fetcher{script: map[cppki.TRCID]cppki.SignedTRC{}}
		for s := uint64(1); s <= maxSerial; s++ {
			f.script[cppki.TRCID{ISD: 1, Base: 1, Serial: scrypto.Version(s)}] = main[s]
		}
		if o.isd == 2 {
			for s := uint64(2); s <= 3; s++ {
				f.script[cppki.TRCID{ISD: 2, Base: 1, Serial: scrypto.Version(s)}] =
					u.mk(v2, 2, 1, s, h(int(s)), h(500), time.Hour, "isd2", false)
			}
		}
		if o.base == 5 {
			for s := uint64(6); s <= 8; s++ {
				f.script[cppki.TRCID{ISD: 1, Base: 5, Serial: scrypto.Version(s)}] =
					u.mk(va, 1, 5, s, h(int(s)), h(500), time.Hour, "base5", false)
			}
		}
		for _, fl := range o.faults {
			id := cppki.TRCID{ISD: addr.ISD(o.isd), Base: scrypto.Version(o.base), Serial: scrypto.Version(fl.pos)}
			if t, ok := variant(uint64(fl.pos), fl.kind); ok {
				f.script[id] = t
			} else {
				delete(f.script, id)
			}
		}
		// print the script (sorted by id)
		var ids []cppki.TRCID
		for id := range f.script {
			ids = append(ids, id)
		}
		sort.Slice(ids, func(i, j int) bool {
			a, b := ids[i], ids[j]
			if a.ISD != b.ISD {
				return a.ISD < b.ISD
			}
			if a.Base != b.Base {
				return a.Base < b.Base
			}
			return a.Serial < b.Serial
		})
		var sc []string
		for _, id := range ids {
			sc = append(sc, fmt.Sprintf("((%d, %d, %d), %s)", uint64(id.ISD), uint64(id.Base), uint64(id.Serial),
				u.term(f.script[id])))
		}
		opT = append(opT, fmt.Sprintf("(TrustStore.mkop %d %d %d %s %s)", o.isd, o.base, o.serial, vgen.B(o.rec),
			vgen.List(sc)))
		p := trust.FetchingProvider{DB: store, Recurser: recurser{o.rec}, Fetcher: f, Router: router{}}
		id := cppki.TRCID{ISD: addr.ISD(o.isd), Base: scrypto.Version(o.base), Serial: scrypto.Version(o.serial)}
		var nerr error
		if pn, msg := vgen.Recover(func() { nerr = p.NotifyTRC(ctx, id) }); pn {
			run.Violate(run.Add("history", "(TrustStore.CHist [] [] [])", "panic", true, msg), "panic: "+msg, nil)
			return
		}
		var req []uint64
		for _, c := range f.calls {
			s := uint64(c.Serial)
			if c.ISD != id.ISD || c.Base != id.Base {
				s += 1000000 // a request for another ISD / base never agrees with the model
			}
			req = append(req, s)
		}
		fetches += len(req)
		obsT = append(obsT, fmt.Sprintf("(%s, %s, %s)", vgen.B(nerr == nil), vgen.NList(req), storeTerm(u, store)))
		kind := "ok"
		if nerr != nil {
			kind = "err"
		}
		run.Tally(fmt.Sprintf("notify:%s,fetches=%d", kind, min(len(req), 4)))
		desc = append(desc, map[string]any{"id": fmt.Sprintf("%d-%d-%d", o.isd, o.base, o.serial), "rec": o.rec,
			"faults": fmt.Sprint(o.faults), "ok": nerr == nil, "requested": req})
	}
	run.Tally(fmt.Sprintf("init:%d", initShape))
	term := vgen.App("TrustStore.CHist", initT, vgen.List(opT), vgen.List(obsT))
	run.Add("history", term, term, fetches > 0, map[string]any{"k0": k0, "initShape": initShape, "ops": desc})
}

const maxLoadSerial = 12

func loadCase(run *vgen.Run, r *vgen.Rand) {
	type fd struct {
		kind, serial int
		name         string
	}
	var files []fd
	dirMode := r.Chance(1, 3)
	if dirMode {
		// a directory holding a whole succession: lexical file order differs from serial order
		n := r.Range(10, maxLoadSerial)
		for s := 1; s <= n; s++ {
			files = append(files, fd{kind: []int{0, 0, 0, 1}[r.Intn(4)], serial: s, name: fmt.Sprintf("ISD1-B1-S%d.trc", s)})
		}
		if r.Chance(1, 3) {
			files = append(files, fd{kind: vgen.Pick(r, 3, 6), serial: n + 1, name: fmt.Sprintf("ISD1-B1-S%d.trc", n+1)})
		}
	} else {
		nfiles := r.Range(1, 7)
		for j := 0; j < nfiles; j++ {
			files = append(files, fd{kind: []int{0, 0, 0, 1, 1, 2, 3, 3, 4, 5, 6, 6, 7}[r.Intn(13)],
				serial: r.Range(1, maxLoadSerial), name: fmt.Sprintf("%c%02d.trc", 'a'+rune(r.Intn(26)), j)})
		}
	}
	k0 := r.Range(0, 3)
	initOrder := []int{1, 2, 3}[:k0]
	vgen.Shuffle(r, initOrder)
	if !run.Want() {
		run.Skip()
		return
	}
	sort.Slice(files, func(i, j int) bool { return files[i].name < files[j].name }) // filepath.Glob order
	g := pkigen.NewGen()
	origin := time.Now().UTC().Truncate(time.Second)
	u := &universe{g: g, a: pkigen.NewAbs(g, origin), vset: map[string]uint64{}, sigset: map[string]uint64{}}
	h := func(n int) time.Time { return origin.Add(time.Duration(n) * time.Hour) }
	va := newVoters(g, 1, iaCore, "A", h(-5000), h(5000))
	main := map[int]cppki.SignedTRC{}
	for s := 1; s <= maxLoadSerial+1; s++ {
		main[s] = u.mk(va, 1, 1, uint64(s), h(-100+s), h(500), time.Hour, "main", false)
	}
	store := newDB()
	defer store.Close()
	ctx := context.Background()
	for _, s := range initOrder { // direct InsertTRC calls, in any order
		if _, err := store.InsertTRC(ctx, main[s]); err != nil {
			panic(err)
		}
	}
	initT := storeTerm(u, store)
	dir, err := os.MkdirTemp("", "verif-c35-")
	if err != nil {
		panic(err)
	}
	defer os.RemoveAll(dir)
	var fT []string
	names := map[string]int{}
	for j, f := range files {
		name := filepath.Join(dir, f.name)
		names[name] = j
		var raw []byte
		term := "TrustStore.FBad"
		switch f.kind {
		case 0: // the main TRC, DER
			raw = main[f.serial].Raw
			term = "(TrustStore.FTRC " + u.term(main[f.serial]) + ")"
		case 1: // PEM
			raw = pem.EncodeToMemory(&pem.Block{Type: "TRC", Bytes: main[f.serial].Raw})
			term = "(TrustStore.FTRC " + u.term(main[f.serial]) + ")"
		case 2: // garbage
			raw = bytes.Repeat([]byte{0x30, 0x03, 0x02}, 5)
		case 3: // validity starts in the future
			t := u.mk(va, 1, 1, uint64(f.serial), h(vgen.Pick(r, 2, 24, 100)), h(500), time.Hour, "future", false)
			raw = t.Raw
			term = "(TrustStore.FTRC " + u.term(t) + ")"
		case 6: // validity starts in the future, PEM encoded
			t := u.mk(va, 1, 1, uint64(f.serial), h(vgen.Pick(r, 2, 24, 100)), h(500), time.Hour, "futurepem", false)
			raw = pem.EncodeToMemory(&pem.Block{Type: "TRC", Bytes: t.Raw})
			term = "(TrustStore.FTRC " + u.term(t) + ")"
		case 7: // PEM block of another type: not a TRC file
			raw = pem.EncodeToMemory(&pem.Block{Type: "TRC PAYLOAD", Bytes: main[f.serial].Raw})
		case 4: // other payload under the same id
			t := u.mk(va, 1, 1, uint64(f.serial), h(-50), h(400), time.Hour, "conflict", false)
			raw = t.Raw
			term = "(TrustStore.FTRC " + u.term(t) + ")"
		case 5: // expired long ago (still loaded: only the start matters)
			t := u.mk(va, 1, 2, uint64(f.serial+1), h(-300), h(-200), time.Hour, "expired", false)
			raw = t.Raw
			term = "(TrustStore.FTRC " + u.term(t) + ")"
		}
		if err := os.WriteFile(name, raw, 0o644); err != nil {
			panic(err)
		}
		fT = append(fT, fmt.Sprintf("(%d, %s)", j, term))
		run.Tally(fmt.Sprintf("file:%d", f.kind))
	}
	before := time.Now()
	res, lerr := trust.LoadTRCs(ctx, dir, store)
	var loaded, ignored []uint64
	for _, n := range res.Loaded {
		loaded = append(loaded, uint64(names[n]))
	}
	for n := range res.Ignored {
		ignored = append(ignored, uint64(names[n]))
	}
	sort.Slice(loaded, func(i, j int) bool { return loaded[i] < loaded[j] })
	sort.Slice(ignored, func(i, j int) bool { return ignored[i] < ignored[j] })
	// what a "latest" lookup returns afterwards (used by NotifyTRC, activeTRCs, the renewal verifier)
	latestT := "[]"
	lt, err := store.SignedTRC(ctx, cppki.TRCID{ISD: 1, Base: scrypto.LatestVer, Serial: scrypto.LatestVer})
	if err != nil {
		panic(err)
	}
	if !lt.IsZero() {
		latestT = vgen.NList([]uint64{uint64(lt.TRC.ID.ISD), uint64(lt.TRC.ID.Base), uint64(lt.TRC.ID.Serial),
			u.a.TRCH(&lt.TRC)})
	}
	term := vgen.App("TrustStore.CLoad", fmt.Sprintf("(%d)%%Z", u.a.T(before)), initT, vgen.List(fT),
		vgen.B(lerr != nil), vgen.NList(loaded), vgen.NList(ignored), storeTerm(u, store), latestT)
	run.Tally(fmt.Sprintf("load:err=%v,dir=%v", lerr != nil, dirMode))
	run.Add("load", term, term, true, map[string]any{"files": fmt.Sprint(files), "init": initOrder, "err": lerr != nil,
		"loaded": loaded, "ignored": ignored, "latest": latestT})
}
