// Runner for C06: the complete link-type admission table through the real
// scionPacketProcessor.process (validly MACed packets, every run).
package main

import (
	"strings"

	"verifharness/internal/rtgen"
)

func main() {
	rtgen.MainX("C06", "Router.check_c06",
		"EXHAUSTIVE: all 5x5 (ingress,egress) link types x {no segment change, effective cross-over, "+
			"peering hop out, peering hop in} x ingress {external, sibling, internal} x egress "+
			"{external, sibling, unknown, internal(0)} x construction direction, each as a validly MACed, "+
			"unexpired packet through the real process(); plus the Go constants. "+
			"non-trivial = the packet was not discarded before validateEgressID (forwarded or answered by SCMP)",
		func(x *rtgen.Ctx) {
			x.NonTrivial = func(sc *rtgen.Scenario, o *rtgen.Obs) bool {
				return o.Class() != "discard"
			}
			// Go-side copy of the oracle, so that a violation is reported with its concrete cell even
			// though a failing kernel-checked lemma (exhaustive run) stops the evaluation of a shard.
			x.After = func(id int, sc *rtgen.Scenario, o *rtgen.Obs, desc map[string]any) {
				cls := o.Class()
				if sc.Cell == nil || !(strings.HasPrefix(cls, "forward") || cls == "deliver") {
					return
				}
				if !sc.Cell.Admissible() {
					x.Run.Violate(id, "forwarded along an inadmissible (ingress, egress) link pair: "+sc.Kind+" -> "+cls, desc)
				}
			}
			n := rtgen.Table(x, "table")
			x.Run.Exhaustive = true
			x.Run.Extra("table_cells", n)
		})
}
