// Runner for C39: DRKey derivation. Drives the real derivers (pkg/drkey/specific,
// pkg/drkey/generic), real ServiceEngines of two ASes (in-memory sqlite DRKey DBs,
// level-1 keys fetched through the real gRPC Server.DRKeyLevel1 with a synthetic
// TLS peer), the real DeriveSV, FakeProvider.GetKeyWithinAcceptanceWindow and the
// spao timestamp functions. The PRF/KDF values the model needs are shipped as
// lookup tables taken from the real code.
package main

import (
	"context"
	"crypto/aes"
	"crypto/cipher"
	"crypto/pbkdf2"
	"crypto/sha256"
	"crypto/tls"
	"crypto/x509"
	"crypto/x509/pkix"
	"encoding/binary"
	"errors"
	"fmt"
	"math"
	"math/big"
	"net"
	"net/netip"
	"strings"
	"time"

	"google.golang.org/grpc/credentials"
	"google.golang.org/grpc/peer"

	csdrkey "github.com/scionproto/scion/control/drkey"
	dkgrpc "github.com/scionproto/scion/control/drkey/grpc"
	"github.com/scionproto/scion/pkg/addr"
	"github.com/scionproto/scion/pkg/drkey"
	"github.com/scionproto/scion/pkg/drkey/generic"
	"github.com/scionproto/scion/pkg/drkey/specific"
	"github.com/scionproto/scion/pkg/scrypto/cppki"
	"github.com/scionproto/scion/pkg/slayers"
	"github.com/scionproto/scion/pkg/spao"
	"github.com/scionproto/scion/private/drkey/drkeyutil"
	"github.com/scionproto/scion/private/storage/db"
	level1sql "github.com/scionproto/scion/private/storage/drkey/level1/sqlite"
	secretsql "github.com/scionproto/scion/private/storage/drkey/secret/sqlite"
	"verifharness/internal/vgen"
)

// refMAC is the harness's own statement of "the protocol's documented derivation"
// (doc/cryptography/drkey.rst, PRF derivation specification): AES-128 CBC-MAC with zero IV
// over the zero-padded input; the key is the LAST cipher block. It is deliberately
// independent of pkg/drkey: the model's PRF table is filled from it, so the real
// DeriveKey / derivers / ServiceEngine are compared against model-over-reference.
func refMAC(key []byte, input []byte) []byte {
	blk, err := aes.NewCipher(key)
	must(err)
	if len(input) == 0 || len(input)%aes.BlockSize != 0 {
		panic("refMAC: input is not a whole number of blocks")
	}
	out := make([]byte, len(input))
	cipher.NewCBCEncrypter(blk, make([]byte, aes.BlockSize)).CryptBlocks(out, input)
	return out[len(out)-aes.BlockSize:]
}

// refSV is the harness's own statement of the documented secret-value derivation
// (pkg/drkey DeriveSV): PBKDF2-HMAC-SHA256 (standard library crypto/pbkdf2, not the
// x/crypto one the code uses), salt "Derive DRKey Key", 1000 iterations, 16 bytes, over
// len(secret):8 || secret || protocol:2 || begin:4 || end:4. It returns the KDF input too.
func refSV(ms []byte, proto uint16, beg, end uint32) (in, key []byte) {
	in = binary.BigEndian.AppendUint64(nil, uint64(len(ms)))
	in = append(in, ms...)
	in = binary.BigEndian.AppendUint16(in, proto)
	in = binary.BigEndian.AppendUint32(in, beg)
	in = binary.BigEndian.AppendUint32(in, end)
	key, err := pbkdf2.Key(sha256.New, string(in), []byte("Derive DRKey Key"), 1000, 16)
	must(err)
	return in, key
}

// packed prints a byte string as (DRKey.B len number). Inside a sharing scope
// (see share) equal strings are printed once and referred to by a let-bound name,
// which keeps the generated terms small.
var shareNames map[string]string
var shareDefs []string

func packed(b []byte) string {
	t := fmt.Sprintf("(DRKey.B %d%%nat %s)", len(b), new(big.Int).SetBytes(b).String())
	if shareNames == nil || len(b) < 8 {
		return t
	}
	if n, ok := shareNames[string(b)]; ok {
		return n
	}
	n := fmt.Sprintf("x%d", len(shareNames))
	shareNames[string(b)] = n
	shareDefs = append(shareDefs, fmt.Sprintf("let %s := %s in ", n, t))
	return n
}

// share evaluates f (which prints a term using packed) and wraps the result in
// the let-bindings of the byte strings it used.
func share(f func() string) string {
	shareNames, shareDefs = map[string]string{}, nil
	body := f()
	out := "(" + strings.Join(shareDefs, "") + body + ")"
	shareNames, shareDefs = nil, nil
	return out
}

func must(err error) {
	if err != nil {
		panic(err)
	}
}

// ---------------------------------------------------------------- hosts

// hostTerm prints the model's view of a parsed host.
func hostTerm(h addr.Host, ok bool) string {
	if !ok {
		return "DRKey.HBad"
	}
	switch h.Type() {
	case addr.HostTypeIP:
		ip := h.IP()
		if !ip.IsValid() {
			return vgen.App("DRKey.HIP", "[]")
		}
		return vgen.App("DRKey.HIP", packed(ip.AsSlice()))
	case addr.HostTypeSVC:
		return vgen.App("DRKey.HSVC", vgen.N(uint64(h.SVC())))
	}
	return "DRKey.HBad"
}

func strHostTerm(s string) string {
	h, err := addr.ParseHost(s)
	return hostTerm(h, err == nil)
}

func genHostValue(r *vgen.Rand) addr.Host {
	switch r.Intn(12) {
	case 0, 1, 2:
		return addr.HostIP(netip.AddrFrom4([4]byte(r.Bytes(4))))
	case 3, 4:
		return addr.HostIP(netip.AddrFrom16([16]byte(r.Bytes(16))))
	case 5: // IPv4-in-IPv6
		return addr.HostIP(netip.AddrFrom16(netip.AddrFrom4([4]byte(r.Bytes(4))).As16()))
	case 6:
		return addr.HostIP(netip.AddrFrom16([16]byte(r.Bytes(16))).WithZone("eth0"))
	case 7: // sparse addresses: many zero bytes
		b := make([]byte, 16)
		b[r.Intn(16)] = byte(r.Range(1, 255))
		return addr.HostIP(netip.AddrFrom16([16]byte(b)))
	case 8:
		b := make([]byte, 4)
		b[r.Intn(4)] = byte(r.Range(0, 255))
		return addr.HostIP(netip.AddrFrom4([4]byte(b)))
	case 9:
		return addr.HostSVC(vgen.Pick(r, addr.SvcDS, addr.SvcCS, addr.SvcWildcard,
			addr.SvcDS.Multicast(), addr.SvcCS.Multicast(), addr.SvcNone))
	case 10:
		return addr.HostSVC(addr.SVC(r.Intn(65536)))
	default:
		if r.Bool() {
			return addr.Host{}
		}
		return addr.HostIP(netip.Addr{})
	}
}

var hostStrs = []string{"10.1.2.3", "10.1.2.4", "0.0.0.0", "255.255.255.255", "1.0.0.0",
	"::ffff:10.1.2.3", "::ffff:a01:203", "2001:db8::1", "2001:db8:0:0:0:0:0:1", "2001:DB8::2", "::",
	"::1", "100::", "fe80::1%eth0", "fe80::1", "CS", "DS", "Wildcard", "CS_M", "DS_A", "Wildcard_M",
	"2001:db8::1:1", "2001:db8::1:2", "2001:db8::1:102", "2001:db8::2:1", "2001:db8::100:1",
	"2001:db8:1:2:3:4:5:6", "2001:db8:1:2:3:4:5:7", "2001:db8:1:2:3:4:6:6", "fd00::ff", "fd00::1ff"}
var junkStrs = []string{"", "cs", "10.1.2", "10.1.2.3.4", " 10.1.2.3", "localhost", "CS_", "_M", "1-ff00:0:1"}

func genHostStr(r *vgen.Rand) string {
	switch x := r.Intn(20); {
	case x < 15:
		return vgen.Pick(r, hostStrs...)
	case x < 18:
		if r.Bool() {
			return netip.AddrFrom4([4]byte(r.Bytes(4))).String()
		}
		return netip.AddrFrom16([16]byte(r.Bytes(16))).String()
	default:
		return vgen.Pick(r, junkStrs...)
	}
}

// ---------------------------------------------------------------- a small SCION world

type world struct {
	ias     []addr.IA
	eng     map[addr.IA]*csdrkey.ServiceEngine
	srv     map[addr.IA]*dkgrpc.Server
	cert    map[addr.IA]*x509.Certificate
	closers []func() error
}

type subjectVerifier struct{}

func (subjectVerifier) VerifyParsedClientCertificate(chain []*x509.Certificate) (addr.IA, error) {
	if len(chain) == 0 {
		return 0, errors.New("empty chain")
	}
	return cppki.ExtractIA(chain[0].Subject)
}

// fetcher stands in for grpc.Fetcher: instead of dialling the CS of meta.SrcIA it
// calls that AS's real Server.DRKeyLevel1 with the TLS identity of the local AS
// and decodes the reply with the real GetLevel1KeyFromReply.
type fetcher struct {
	w     *world
	local addr.IA
}

func (f *fetcher) Level1(ctx context.Context, meta drkey.Level1Meta) (drkey.Level1Key, error) {
	srv, ok := f.w.srv[meta.SrcIA]
	if !ok {
		return drkey.Level1Key{}, errors.New("no path to AS")
	}
	pctx := peer.NewContext(ctx, &peer.Peer{
		Addr: &net.TCPAddr{IP: net.IP{192, 0, 2, 1}, Port: 30252},
		AuthInfo: credentials.TLSInfo{State: tls.ConnectionState{
			PeerCertificates: []*x509.Certificate{f.w.cert[f.local]}}},
	})
	rep, err := srv.DRKeyLevel1(pctx, dkgrpc.Level1MetaToProtoRequest(meta))
	if err != nil {
		return drkey.Level1Key{}, err
	}
	return dkgrpc.GetLevel1KeyFromReply(meta, rep)
}

var dbSeq int

func newWorld(ias []addr.IA, masters [][]byte, durs []time.Duration) *world {
	w := &world{ias: ias, eng: map[addr.IA]*csdrkey.ServiceEngine{},
		srv: map[addr.IA]*dkgrpc.Server{}, cert: map[addr.IA]*x509.Certificate{}}
	for i, ia := range ias {
		dbSeq++
		svdb, err := secretsql.NewBackend(fmt.Sprintf("c39_sv_%d", dbSeq),
			&db.SqliteConfig{InMemory: true})
		must(err)
		l1db, err := level1sql.NewBackend(fmt.Sprintf("c39_l1_%d", dbSeq),
			&db.SqliteConfig{InMemory: true})
		must(err)
		w.closers = append(w.closers, svdb.Close, l1db.Close)
		arc, err := csdrkey.NewLevel1ARC(10)
		must(err)
		e := &csdrkey.ServiceEngine{
			SecretBackend:  csdrkey.NewSecretValueBackend(svdb, masters[i], durs[i]),
			LocalIA:        ia,
			DB:             l1db,
			Fetcher:        &fetcher{w: w, local: ia},
			PrefetchKeeper: arc,
		}
		w.eng[ia] = e
		w.srv[ia] = &dkgrpc.Server{LocalIA: ia, ClientCertificateVerifier: subjectVerifier{}, Engine: e}
		// only the subject is looked at by the stand-in verifier
		w.cert[ia] = &x509.Certificate{Subject: pkix.Name{Names: []pkix.AttributeTypeAndValue{
			{Type: cppki.OIDNameIA, Value: ia.String()}}}}
	}
	return w
}

func (w *world) close() {
	for _, c := range w.closers {
		_ = c()
	}
}

// ---------------------------------------------------------------- tables

type prfEntry struct {
	key, in, out []byte
}
type svEntry struct {
	ia       addr.IA
	proto    drkey.Protocol
	beg, end uint32
	key      []byte
}

func prfTerm(es []prfEntry) string {
	return vgen.ListOf(es, func(e prfEntry) string {
		return vgen.Pair(vgen.Pair(packed(e.key), packed(e.in)), packed(e.out))
	})
}

func svTerm(es []svEntry) string {
	return vgen.ListOf(es, func(e svEntry) string {
		return vgen.Pair(fmt.Sprintf("(%d, %d, (%d, %d))", uint64(e.ia), e.proto, e.beg, e.end),
			packed(e.key))
	})
}

func zt(v int64) string { return fmt.Sprintf("(%d)%%Z", v) }

type engOb struct {
	key      drkey.Key
	beg, end uint32
}

func mkOb(k drkey.Key, ep drkey.Epoch, err error) *engOb {
	if err != nil {
		return nil
	}
	return &engOb{k, uint32(ep.NotBefore.Unix()), uint32(ep.NotAfter.Unix())}
}

func (o *engOb) term() string {
	if o == nil {
		return "None"
	}
	return vgen.Opt(vgen.Pair(packed(o.key[:]), vgen.Pair(vgen.N(uint64(o.beg)), vgen.N(uint64(o.end)))), true)
}

func (o *engOb) plain() string {
	if o == nil {
		return "-"
	}
	return fmt.Sprintf("%x@[%d,%d)", o.key[:], o.beg, o.end)
}

func keyPtr(k drkey.Key, err error) *drkey.Key {
	if err != nil {
		return nil
	}
	return &k
}

func keyOpt(k *drkey.Key) string {
	if k == nil {
		return "None"
	}
	return vgen.Opt(packed(k[:]), true)
}

func plainKey(k *drkey.Key) string {
	if k == nil {
		return "-"
	}
	return fmt.Sprintf("%x", k[:])
}

// ---------------------------------------------------------------- main

func main() {
	run := vgen.Flags("C39")
	run.Imports = []string{"Model.DRKey"}
	run.CheckFn = "DRKey.check"
	run.DiagFn = "DRKey.diag"
	run.CaseType = "DRKey.case"
	run.ShardSize = 150
	run.Rule = "constants (key-type bytes, grace period, address types); derivation inputs of the real " +
		"serializers for random key types, protocols, ISD-ASes and hosts (IPv4, IPv6, IPv4-in-IPv6, zone, " +
		"service, invalid) written into a dirty buffer; derivation: two ASes with real ServiceEngines " +
		"(fresh in-memory DBs, own master secrets and epoch lengths), level-1 fetch through the real " +
		"Server.DRKeyLevel1, engine at the source or destination AS (or neither), protocols predefined and " +
		"niche, request times at/around epoch boundaries, host strings in several spellings, against the " +
		"documented derivation (reference AES-CBC-MAC in the runner, last cipher block) from the real secret " +
		"value, for the served keys and for the keys of the real derivers; secret values: real DeriveSV for one " +
		"master secret and two (protocol, epoch) pairs against an independent PBKDF2 over the documented input; pairs of hosts (mostly IPv6, differing in " +
		"the last 1-4 bytes) under one parent key: equal keys only for the same host address; window: epoch lengths, " +
		"acceptance windows, times and timestamps placed at every window/epoch/grace boundary +-1ns; " +
		"non-trivial = a key was served / selected, or refused at a boundary"
	rng := vgen.NewRand(run.Seed)

	// 1. constants
	if run.Want() {
		run.Add("consts", vgen.App("DRKey.CConsts",
			vgen.NList([]uint64{uint64(drkey.AsAs), uint64(drkey.AsHost), uint64(drkey.HostAS),
				uint64(drkey.HostHost)}),
			zt(int64(drkey.GRACE_PERIOD)),
			vgen.NList([]uint64{uint64(slayers.T4Ip), uint64(slayers.T4Svc), uint64(slayers.T16Ip)})),
			"consts", true, "constants")
	} else {
		run.Skip()
	}

	// 2. derivation inputs
	ni := run.Count(300, 50000)
	for i := 0; i < ni; i++ {
		r := rng.Fork(uint64(100000 + i))
		f := r.Intn(4)
		kt := uint8(r.Intn(4))
		if r.Chance(1, 8) {
			kt = uint8(r.Intn(256))
		}
		proto := uint16(vgen.Pick(r, 0, 1, 2, 7, 255, 256, 257, 0x0100, 0x00ff, 65535, r.Intn(65536)))
		ia := addr.IA(vgen.Pick(r, r.U64(), 0, math.MaxUint64, uint64(addr.MustParseIA("1-ff00:0:110")),
			r.U64()&0xffff, r.U64()<<48))
		h := genHostValue(r)
		if !run.Want() {
			run.Skip()
			continue
		}
		buf := make([]byte, 32)
		for j := range buf {
			buf[j] = 0xAA
		}
		var n int
		var err error
		panicked, msg := vgen.Recover(func() {
			switch f {
			case 0:
				n = specific.VerifSerializeLevel1Input(buf, ia)
			case 1:
				n, err = specific.VerifSerializeLevel2Input(buf, drkey.KeyType(kt), h)
			case 2:
				n, err = generic.VerifSerializeLevel2Input(buf, drkey.KeyType(kt), drkey.Protocol(proto), h)
			default:
				n, err = drkey.SerializeHostHostInput(buf, h)
			}
		})
		impl := "None"
		if err == nil && !panicked {
			impl = vgen.Opt(packed(buf[:n]), true)
		}
		desc := map[string]any{"fmt": f, "kt": kt, "proto": proto, "ia": uint64(ia), "host": h.String(),
			"impl": fmt.Sprintf("%x", buf[:n]), "err": err != nil}
		run.Tally(fmt.Sprintf("input:fmt%d-ok:%v", f, err == nil))
		id := run.Add("input", vgen.App("DRKey.CInput", vgen.N(uint64(f)), vgen.N(uint64(kt)),
			vgen.N(uint64(proto)), vgen.N(uint64(ia)), hostTerm(h, true), impl),
			fmt.Sprint(f, kt, proto, ia, h), err == nil, desc)
		if panicked {
			run.Violate(id, "panic: "+msg, desc)
		}
	}

	// 3. derivation through the engines vs. host-side derivation
	A, B, C := addr.MustParseIA("1-ff00:0:110"), addr.MustParseIA("1-ff00:0:111"),
		addr.MustParseIA("2-ff00:0:210")
	durChoices := []time.Duration{time.Second, 7 * time.Second, time.Minute, 6 * time.Minute,
		time.Hour, 24 * time.Hour, 72 * time.Hour, 90*time.Second + 500*time.Millisecond}
	nd := run.Count(240, 20000)
	for i := 0; i < nd; i++ {
		r := rng.Fork(uint64(200000 + i))
		durs := []time.Duration{vgen.Pick(r, durChoices...), vgen.Pick(r, durChoices...)}
		masters := [][]byte{r.Bytes(vgen.Pick(r, 16, 16, 1, 32)), r.Bytes(16)}
		loc := vgen.Pick(r, A, B)
		var src, dst addr.IA
		switch x := r.Intn(20); {
		case x < 8:
			src, dst = A, B
		case x < 16:
			src, dst = B, A
		case x == 16:
			src, dst = loc, loc
		case x == 17:
			src, dst = A, C
		case x == 18:
			src, dst = C, loc
		default:
			src, dst = C, C
		}
		proto := drkey.Protocol(vgen.Pick(r, 0, 1, 1, 1, 2, 7, 7, 200, 256, 257, 65535))
		// request time: realistic, or on an epoch boundary of the source AS, or extreme
		sd := int64(durs[0] / time.Second)
		if src == B {
			sd = int64(durs[1] / time.Second)
		}
		var t int64
		switch x := r.Intn(12); {
		case x < 5:
			t = 1600000000 + int64(r.Intn(300000000))
		case x < 9:
			t = (1600000000+int64(r.Intn(300000000)))/sd*sd + int64(r.Range(-1, 1))
		case x == 9:
			t = int64(r.Intn(3)) * sd
		case x == 10:
			t = vgen.Pick(r, int64(math.MaxUint32)-sd-1, int64(math.MaxUint32), int64(math.MaxUint32)+1+
				int64(r.Intn(100000)), 5000000000+int64(r.Intn(1000000)))
		default:
			t = -int64(r.Intn(100000)) - 1
		}
		nsec := int64(vgen.Pick(r, 0, 0, 1, 999999999, r.Intn(1000000000)))
		srcHost, dstHost := genHostStr(r), genHostStr(r)
		if !run.Want() {
			run.Skip()
			continue
		}
		tt := time.Unix(t, nsec)
		w := newWorld([]addr.IA{A, B}, masters, durs)
		ctx := context.Background()
		pre := proto.IsPredefined()
		lp := proto
		if !pre {
			lp = drkey.Generic
		}

		// host side first: secret values of the source AS, then the real derivers
		var prfs []prfEntry
		var svs []svEntry
		hostKeys := make([]*drkey.Key, 4)
		if se, ok := w.eng[src]; ok {
			svP, err := se.GetSecretValue(ctx, drkey.SecretValueMeta{ProtoId: proto, Validity: tt})
			must(err)
			svL, err := se.GetSecretValue(ctx, drkey.SecretValueMeta{ProtoId: lp, Validity: tt})
			must(err)
			for _, s := range []drkey.SecretValue{svP, svL} {
				// cross-check with DeriveSV called directly
				idx := boolIdx(src == B)
				d, err := drkey.DeriveSV(s.ProtoId, s.Epoch, masters[idx])
				must(err)
				if d.Key != s.Key {
					run.Violate(-1, "GetSecretValue differs from DeriveSV", nil)
				}
				// the model gets the documented secret value (refSV), not the served one
				_, rk := refSV(masters[idx], uint16(s.ProtoId), uint32(s.Epoch.NotBefore.Unix()),
					uint32(s.Epoch.NotAfter.Unix()))
				svs = append(svs, svEntry{src, s.ProtoId, uint32(s.Epoch.NotBefore.Unix()),
					uint32(s.Epoch.NotAfter.Unix()), rk})
			}
			refSVP, refSVL := svs[len(svs)-2].key, svs[len(svs)-1].key
			l1buf := make([]byte, 16)
			specific.VerifSerializeLevel1Input(l1buf, dst)
			k1P, err := specific.Deriver{}.DeriveLevel1(dst, svP.Key)
			must(err)
			k1, err := specific.Deriver{}.DeriveLevel1(dst, svL.Key)
			must(err)
			// the table given to the model is the documented derivation (refMAC), chained on
			// reference keys; the real derivers' outputs are only observations
			refK1 := refMAC(refSVL, l1buf)
			prfs = append(prfs, prfEntry{refSVP, l1buf, refMAC(refSVP, l1buf)},
				prfEntry{refSVL, l1buf, refK1})
			hostKeys[0] = keyPtr(k1P, nil)
			var refHas []byte
			lvl2 := func(kt drkey.KeyType, hs string, parent drkey.Key) (drkey.Key, error) {
				var k drkey.Key
				var err error
				switch {
				case pre && kt == drkey.AsHost:
					k, err = specific.Deriver{}.DeriveASHost(hs, parent)
				case pre:
					k, err = specific.Deriver{}.DeriveHostAS(hs, parent)
				case kt == drkey.AsHost:
					k, err = generic.Deriver{Proto: proto}.DeriveASHost(hs, parent)
				default:
					k, err = generic.Deriver{Proto: proto}.DeriveHostAS(hs, parent)
				}
				if err == nil {
					h, _ := addr.ParseHost(hs)
					buf := make([]byte, 32)
					var n int
					if pre {
						n, _ = specific.VerifSerializeLevel2Input(buf, kt, h)
					} else {
						n, _ = generic.VerifSerializeLevel2Input(buf, kt, proto, h)
					}
					in := append([]byte(nil), buf[:n]...)
					ref := refMAC(refK1, in)
					prfs = append(prfs, prfEntry{refK1, in, ref})
					if kt == drkey.HostAS {
						refHas = ref
					}
				}
				return k, err
			}
			ash, err := lvl2(drkey.AsHost, dstHost, k1)
			hostKeys[1] = keyPtr(ash, err)
			has, err := lvl2(drkey.HostAS, srcHost, k1)
			hostKeys[2] = keyPtr(has, err)
			if err == nil {
				var hh drkey.Key
				if pre {
					hh, err = specific.Deriver{}.DeriveHostHost(dstHost, has)
				} else {
					hh, err = generic.Deriver{Proto: proto}.DeriveHostHost(dstHost, has)
				}
				hostKeys[3] = keyPtr(hh, err)
				if err == nil {
					h, _ := addr.ParseHost(dstHost)
					buf := make([]byte, 32)
					n, _ := drkey.SerializeHostHostInput(buf, h)
					in := append([]byte(nil), buf[:n]...)
					prfs = append(prfs, prfEntry{refHas, in, refMAC(refHas, in)})
				}
			}
		}

		// the control service at loc
		e := w.eng[loc]
		var engObs []*engOb
		served := 0
		panicked, msg := vgen.Recover(func() {
			k0, err := e.GetLevel1Key(ctx, drkey.Level1Meta{Validity: tt, ProtoId: proto, SrcIA: src, DstIA: dst})
			engObs = append(engObs, mkOb(k0.Key, k0.Epoch, err))
			k1, err := e.DeriveASHost(ctx, drkey.ASHostMeta{ProtoId: proto, Validity: tt, SrcIA: src,
				DstIA: dst, DstHost: dstHost})
			engObs = append(engObs, mkOb(k1.Key, k1.Epoch, err))
			if err == nil {
				served++
			}
			k2, err := e.DeriveHostAS(ctx, drkey.HostASMeta{ProtoId: proto, Validity: tt, SrcIA: src,
				DstIA: dst, SrcHost: srcHost})
			engObs = append(engObs, mkOb(k2.Key, k2.Epoch, err))
			if err == nil {
				served++
			}
			k3, err := e.DeriveHostHost(ctx, drkey.HostHostMeta{ProtoId: proto, Validity: tt, SrcIA: src,
				DstIA: dst, SrcHost: srcHost, DstHost: dstHost})
			engObs = append(engObs, mkOb(k3.Key, k3.Epoch, err))
			if err == nil {
				served++
			}
		})
		w.close()
		for len(engObs) < 4 {
			engObs = append(engObs, nil)
		}
		desc := map[string]any{"loc": loc.String(), "src": src.String(), "dst": dst.String(),
			"proto": uint16(proto), "t": t, "nsec": nsec, "durA": durs[0].String(), "durB": durs[1].String(),
			"src_host": srcHost, "dst_host": dstHost,
			"engine": vgen.ListOf(engObs, (*engOb).plain), "host": vgen.ListOf(hostKeys, plainKey)}
		side := "neither"
		if src == loc {
			side = "fast"
		} else if dst == loc {
			side = "slow"
		}
		run.Tally(fmt.Sprintf("derive:%s-pre:%v-served:%d", side, pre, served))
		dursT := vgen.List([]string{vgen.Pair(vgen.N(uint64(A)), zt(int64(durs[0]/time.Second))),
			vgen.Pair(vgen.N(uint64(B)), zt(int64(durs[1]/time.Second)))})
		term := share(func() string {
			return vgen.App("DRKey.CDerive", dursT, svTerm(svs), prfTerm(prfs),
				vgen.N(uint64(loc)), vgen.N(uint64(proto)), zt(t), vgen.N(uint64(src)), vgen.N(uint64(dst)),
				strHostTerm(srcHost), strHostTerm(dstHost), vgen.ListOf(engObs, (*engOb).term),
				vgen.ListOf(hostKeys, keyOpt))
		})
		id := run.Add("derive", term,
			fmt.Sprint(loc, src, dst, proto, t, durs, srcHost, dstHost), served > 0, desc)
		if panicked {
			run.Violate(id, "panic: "+msg, desc)
		}
	}

	// 3a. secret values: the real DeriveSV for one master secret and two (protocol, epoch)
	// pairs against the documented derivation; equal secret values only for the same pair
	nsv := run.Count(150, 20000)
	for i := 0; i < nsv; i++ {
		r := rng.Fork(uint64(230000 + i))
		var ms []byte
		switch x := r.Intn(12); {
		case x < 6:
			ms = r.Bytes(16)
		case x < 8:
			ms = r.Bytes(r.Range(1, 40))
		case x < 9:
			ms = []byte{}
		case x < 10: // secrets made of zero bytes / of bytes that look like the trailing fields
			ms = make([]byte, r.Range(1, 12))
		default:
			ms = append(r.Bytes(r.Range(1, 8)), 0, 1, 0, 0, 0, 60, 0, 0, 0, 120)
		}
		p1 := uint16(vgen.Pick(r, 0, 1, 1, 2, 7, 256, 257, 65535, r.Intn(65536)))
		b1 := uint32(vgen.Pick(r, 0, 60, 1700000040, 1<<31, math.MaxUint32-60, r.Intn(1<<31)))
		e1 := b1 + uint32(vgen.Pick(r, 1, 60, 360, 86400, 259200))
		p2, b2, e2 := p1, b1, e1
		switch r.Intn(8) {
		case 0: // identical
		case 1, 2: // protocol only
			p2 = vgen.Pick(r, p1^1, p1^0x100, p1+1, uint16(r.Intn(65536)))
		case 3:
			b2 = b1 + uint32(vgen.Pick(r, 1, 256, 60))
		case 4:
			e2 = e1 + uint32(vgen.Pick(r, 1, 256, 60))
		case 5: // shifted by one epoch
			b2, e2 = e1, e1+(e1-b1)
		case 6: // begin and end exchanged
			b2, e2 = e1, b1
		default: // protocol and epoch bytes exchanged
			p2, b2 = uint16(b1>>16), uint32(p1)<<16|b1&0xffff
		}
		if !run.Want() {
			run.Skip()
			continue
		}
		type one struct {
			p    uint16
			b, e uint32
		}
		var outs [2]*drkey.Key
		var kdfs []prfEntry
		for j, o := range []one{{p1, b1, e1}, {p2, b2, e2}} {
			sv, err := drkey.DeriveSV(drkey.Protocol(o.p), drkey.NewEpoch(o.b, o.e), ms)
			outs[j] = keyPtr(sv.Key, err)
			if len(ms) > 0 {
				in, k := refSV(ms, o.p, o.b, o.e)
				kdfs = append(kdfs, prfEntry{in: in, out: k})
			}
		}
		same := p1 == p2 && b1 == b2 && e1 == e2
		run.Tally(fmt.Sprintf("sv:len%d-same:%v", len(ms)/8*8, same))
		desc := map[string]any{"secret": fmt.Sprintf("%x", ms), "p1": p1, "b1": b1, "e1": e1, "p2": p2, "b2": b2,
			"e2": e2, "sv1": plainKey(outs[0]), "sv2": plainKey(outs[1])}
		term := share(func() string {
			tab := vgen.ListOf(kdfs, func(e prfEntry) string { return vgen.Pair(packed(e.in), packed(e.out)) })
			ep := func(b, e uint32) string { return vgen.Pair(vgen.N(uint64(b)), vgen.N(uint64(e))) }
			return vgen.App("DRKey.CSV", tab, packed(ms), vgen.N(uint64(p1)), ep(b1, e1), vgen.N(uint64(p2)),
				ep(b2, e2), keyOpt(outs[0]), keyOpt(outs[1]))
		})
		run.Add("sv", term, fmt.Sprint(ms, p1, b1, e1, p2, b2, e2), len(ms) > 0, desc)
	}

	// 3b. pairs of hosts under one parent key: keys of the real derivers against the
	// documented derivation, and "equal keys only for the same host address"
	np := run.Count(300, 30000)
	for i := 0; i < np; i++ {
		r := rng.Fork(uint64(250000 + i))
		f := r.Range(1, 3)
		kt := vgen.Pick(r, drkey.AsHost, drkey.HostAS)
		proto := drkey.Protocol(vgen.Pick(r, 2, 7, 200, 256, 0x8007, 65535, r.Range(2, 65535)))
		var parent drkey.Key
		copy(parent[:], r.Bytes(16))
		// first host; two-block inputs (IPv6) are the majority
		var a1, a2 netip.Addr
		switch x := r.Intn(10); {
		case x < 7:
			b := r.Bytes(16)
			b[0] = 0x20 // not IPv4-in-IPv6
			a1 = netip.AddrFrom16([16]byte(b))
			c := append([]byte(nil), b...)
			switch y := r.Intn(10); {
			case y < 6: // differ only in the last 1-4 bytes
				k := r.Range(1, 4)
				for j := 16 - k; j < 16; j++ {
					c[j] ^= byte(r.Range(1, 255))
				}
			case y < 7: // a single bit of the last byte
				c[15] ^= 1 << r.Intn(8)
			case y < 8: // bytes 12..13 (second block for the generic layout only)
				c[12+r.Intn(2)] ^= byte(r.Range(1, 255))
			case y < 9: // first block
				c[1+r.Intn(11)] ^= byte(r.Range(1, 255))
			}
			a2 = netip.AddrFrom16([16]byte(c))
		case x < 9:
			b := r.Bytes(4)
			a1 = netip.AddrFrom4([4]byte(b))
			c := append([]byte(nil), b...)
			if r.Chance(3, 4) {
				c[r.Intn(4)] ^= byte(r.Range(1, 255))
				a2 = netip.AddrFrom4([4]byte(c))
			} else { // the same host, written as IPv4-in-IPv6
				a2 = netip.AddrFrom16(a1.As16())
			}
		default:
			a1 = netip.AddrFrom16([16]byte(r.Bytes(16)))
			a2 = a1
		}
		if !run.Want() {
			run.Skip()
			continue
		}
		var prfs []prfEntry
		var outs [2]*drkey.Key
		hosts := [2]string{a1.String(), a2.String()}
		var panicMsg string
		for j, hs := range hosts {
			var k drkey.Key
			var err error
			panicked, msg := vgen.Recover(func() {
				switch {
				case f == 1 && kt == drkey.AsHost:
					k, err = specific.Deriver{}.DeriveASHost(hs, parent)
				case f == 1:
					k, err = specific.Deriver{}.DeriveHostAS(hs, parent)
				case f == 2 && kt == drkey.AsHost:
					k, err = generic.Deriver{Proto: proto}.DeriveASHost(hs, parent)
				case f == 2:
					k, err = generic.Deriver{Proto: proto}.DeriveHostAS(hs, parent)
				case j == 0:
					k, err = specific.Deriver{}.DeriveHostHost(hs, parent)
				default:
					k, err = generic.Deriver{Proto: proto}.DeriveHostHost(hs, parent)
				}
			})
			if panicked {
				panicMsg = msg
				continue
			}
			outs[j] = keyPtr(k, err)
			h := addr.MustParseHost(hs)
			buf := make([]byte, 32)
			var n int
			switch f {
			case 1:
				n, err = specific.VerifSerializeLevel2Input(buf, kt, h)
			case 2:
				n, err = generic.VerifSerializeLevel2Input(buf, kt, proto, h)
			default:
				n, err = drkey.SerializeHostHostInput(buf, h)
			}
			if err == nil {
				in := append([]byte(nil), buf[:n]...)
				prfs = append(prfs, prfEntry{parent[:], in, refMAC(parent[:], in)})
			}
		}
		desc := map[string]any{"fmt": f, "kt": uint8(kt), "proto": uint16(proto),
			"parent": fmt.Sprintf("%x", parent[:]), "host1": hosts[0], "host2": hosts[1],
			"key1": plainKey(outs[0]), "key2": plainKey(outs[1])}
		run.Tally(fmt.Sprintf("pair:fmt%d-v6:%v-same:%v", f, a1.Is6() && !a1.Is4In6(), a1.Unmap() == a2.Unmap()))
		term := share(func() string {
			return vgen.App("DRKey.CPair", prfTerm(prfs), vgen.N(uint64(f)), vgen.N(uint64(kt)),
				vgen.N(uint64(proto)), packed(parent[:]), strHostTerm(hosts[0]), strHostTerm(hosts[1]),
				keyOpt(outs[0]), keyOpt(outs[1]))
		})
		id := run.Add("pair", term, fmt.Sprint(f, kt, proto, parent, hosts), true, desc)
		if panicMsg != "" {
			run.Violate(id, "panic: "+panicMsg, desc)
		}
	}

	// 4. acceptance window
	edChoices := []time.Duration{time.Second, 2 * time.Second, 10 * time.Second, time.Minute,
		6 * time.Minute, time.Hour, 1500 * time.Millisecond, 999 * time.Millisecond, 0}
	awChoices := []time.Duration{0, 1, 2, time.Second, 5 * time.Second, 5*time.Second + 1,
		10 * time.Second, 5 * time.Minute, 2999999999, time.Hour, -time.Second}
	nw := run.Count(700, 100000)
	for i := 0; i < nw; i++ {
		r := rng.Fork(uint64(300000 + i))
		ed := vgen.Pick(r, edChoices...)
		if r.Chance(4, 5) {
			ed = vgen.Pick(r, edChoices[:6]...)
		}
		aw := vgen.Pick(r, awChoices...)
		d := int64(ed / time.Second)
		dd := d
		if dd == 0 {
			dd = 1
		}
		// time of verification: inside an epoch, or near its borders
		base := (1600000000 + int64(r.Intn(300000000))) / dd * dd
		var tn int64
		half := int64(aw / 2)
		switch r.Intn(6) {
		case 0:
			tn = base*1e9 + int64(r.Intn(int(dd)))*1e9 + int64(r.Intn(1000000000))
		case 1:
			tn = base*1e9 + int64(r.Range(-2, 2))
		case 2:
			tn = base*1e9 + half + int64(r.Range(-2, 2))
		case 3:
			tn = base*1e9 - half + int64(r.Range(-2, 2))
		case 4:
			tn = base*1e9 + 5e9 + vgen.Pick(r, int64(0), half, -half) + int64(r.Range(-2, 2))
		default:
			tn = (base+dd)*1e9 - 1 - int64(r.Intn(3))
		}
		// timestamp: aim the absolute time, relative to one of the three epochs, at a boundary
		idx := (tn / 1e9) / dd
		k := int64(r.Range(-1, 1))
		nb := (idx + k) * dd * 1e9
		var target int64
		switch r.Intn(8) {
		case 0:
			target = tn
		case 1:
			target = tn - half + int64(r.Range(-1, 1))
		case 2:
			target = tn + half + int64(r.Range(-1, 1))
		case 3:
			target = nb + int64(r.Range(0, 1))
		case 4:
			target = nb + dd*1e9 + int64(r.Range(-1, 1))
		case 5:
			target = nb + dd*1e9 + 5e9 + int64(r.Range(-1, 1))
		case 6:
			target = tn + int64(r.Intn(2*int(half+1))) - half
		default:
			target = nb + int64(r.U64()%uint64(3*dd*1e9))
		}
		ts := uint64(target - nb)
		if r.Chance(1, 25) {
			ts = vgen.Pick(r, uint64(0), 1<<48-1, 1<<48, 1<<63-1, 1<<63, math.MaxUint64, r.U64())
		}
		if !run.Want() {
			run.Skip()
			continue
		}
		p := &drkeyutil.FakeProvider{EpochDuration: ed, AcceptanceWindow: aw}
		var key drkey.ASHostKey
		var err error
		panicked, _ := vgen.Recover(func() {
			key, err = p.GetKeyWithinAcceptanceWindow(time.Unix(0, tn), ts, A, addr.MustParseHost("10.1.2.3"))
		})
		impl := "DRKey.WNone"
		switch {
		case panicked:
			impl = "DRKey.WPanic"
		case err == nil:
			impl = vgen.App("DRKey.WKey", zt(key.Epoch.NotBefore.UnixNano()), zt(key.Epoch.NotAfter.UnixNano()))
		}
		sel := "none"
		if err == nil && !panicked {
			sel = fmt.Sprint((key.Epoch.NotBefore.Unix())/dd - idx)
		}
		run.Tally(fmt.Sprintf("window:selected:%s", sel))
		if panicked {
			run.Tally("window:panic")
		}
		run.Add("window", vgen.App("DRKey.CWindow", zt(int64(ed)), zt(int64(aw)), zt(tn), vgen.N(ts), impl),
			fmt.Sprint(ed, aw, tn, ts), !panicked,
			map[string]any{"epoch_dur": ed.String(), "aw": aw.String(), "t_ns": tn, "ts": ts, "impl": impl})
	}

	// 5. timestamps
	nt := run.Count(100, 20000)
	for i := 0; i < nt; i++ {
		r := rng.Fork(uint64(400000 + i))
		nb := int64(r.Intn(1<<31)) * 1e9
		ts := vgen.Pick(r, r.U64()%(1<<48), r.U64(), uint64(0), 1<<48-1, 1<<48, 1<<63-1, 1<<63, math.MaxUint64)
		tn := nb + vgen.Pick(r, int64(r.U64()%(1<<48)), int64(1<<48-1), int64(1<<48), int64(0), -1,
			-int64(r.Intn(1000000000)), int64(r.U64()%(1<<50)))
		if !run.Want() {
			run.Skip()
		} else {
			ep := drkey.Epoch{NotBefore: time.Unix(0, nb), NotAfter: time.Unix(0, nb).Add(time.Hour)}
			a := spao.AbsoluteTimestamp(ep, ts)
			run.Add("abs", vgen.App("DRKey.CAbs", zt(nb), vgen.N(ts), zt(a.Unix()), zt(int64(a.Nanosecond()))),
				fmt.Sprint(nb, ts), true, map[string]any{"nb": nb, "ts": ts, "abs": a.String()})
		}
		if !run.Want() {
			run.Skip()
		} else {
			ep := drkey.Epoch{NotBefore: time.Unix(0, nb), NotAfter: time.Unix(0, nb).Add(time.Hour)}
			rel, err := spao.RelativeTimestamp(ep, time.Unix(0, tn))
			impl := "None"
			if err == nil {
				impl = vgen.Opt(vgen.N(rel), true)
			}
			run.Add("rel", vgen.App("DRKey.CRel", zt(nb), zt(tn), impl), fmt.Sprint(nb, tn), true,
				map[string]any{"nb": nb, "t": tn, "rel": rel, "err": err != nil})
		}
	}
	run.Finish()
}

func boolIdx(b bool) int {
	if b {
		return 1
	}
	return 0
}
