// Runner for C20: the SCION upper-layer checksum written by slayers.UDP and
// slayers.SCMP (SerializeTo with ComputeChecksums), through the exported API only.
//
// One case = one address header + L4 header + payload, serialized by the real code
// (full SCION packet via gopacket.SerializeLayers where possible, otherwise the L4
// layer alone), plus a handful of single-bit flips of the sender's input (ISD-ASes,
// raw host addresses, L4 header bytes, payload), each re-serialized by the real code.
// The model recomputes the checksum; the oracle recomputes the verification sum over
// the implementation's bytes (must be 0xFFFF) and over the flipped bytes (must differ).
package main

import (
	"bytes"
	"encoding/binary"
	"fmt"

	"github.com/gopacket/gopacket"

	"github.com/scionproto/scion/pkg/addr"
	"github.com/scionproto/scion/pkg/slayers"
	"github.com/scionproto/scion/pkg/slayers/path/empty"
	"verifharness/internal/vgen"
)

type hdr struct {
	DstIA, SrcIA     uint64
	DstType, SrcType slayers.AddrType
	RawDst, RawSrc   []byte
}

type l4 struct {
	UDP          bool
	SPort, DPort uint16
	Fix          bool   // UDP: FixLengths
	Length       uint16 // UDP: Length field when !Fix
	Typ, Code    uint8  // SCMP
}

func (l l4) prelen() int {
	if l.UDP {
		return 6
	}
	return 2
}

func scionLayer(h hdr, l l4) *slayers.SCION {
	next := slayers.L4SCMP
	if l.UDP {
		next = slayers.L4UDP
	}
	return &slayers.SCION{
		Version: 0, TrafficClass: 0xb8, FlowID: 0xdead, NextHdr: next,
		PathType: empty.PathType, Path: empty.Path{},
		DstIA: addr.IA(h.DstIA), SrcIA: addr.IA(h.SrcIA),
		DstAddrType: h.DstType, SrcAddrType: h.SrcType,
		RawDstAddr: h.RawDst, RawSrcAddr: h.RawSrc,
	}
}

func l4Layer(l l4, scn *slayers.SCION) gopacket.SerializableLayer {
	if l.UDP {
		u := &slayers.UDP{SrcPort: l.SPort, DstPort: l.DPort, Length: l.Length}
		u.SetNetworkLayerForChecksum(scn)
		return u
	}
	s := &slayers.SCMP{TypeCode: slayers.CreateSCMPTypeCode(slayers.SCMPType(l.Typ), slayers.SCMPCode(l.Code))}
	s.SetNetworkLayerForChecksum(scn)
	return s
}

// shared, when not nil, is the one serialize buffer all packets of the current sequence go through
// (gopacket.SerializeLayers clears it; the memory handed out by PrependBytes is then the previous
// packet's). nil: a fresh buffer for every serialization.
var shared gopacket.SerializeBuffer

func getBuf() gopacket.SerializeBuffer {
	if shared != nil {
		return shared
	}
	return gopacket.NewSerializeBuffer()
}

// serL4 serializes the L4 layer and the payload alone. code: 0 ok, 1 error, 3 panic.
func serL4(h hdr, l l4, payload []byte) (out []byte, code int) {
	panicked, _ := vgen.Recover(func() {
		scn := scionLayer(h, l)
		buf := getBuf()
		err := gopacket.SerializeLayers(buf, gopacket.SerializeOptions{FixLengths: l.Fix, ComputeChecksums: true},
			l4Layer(l, scn), gopacket.Payload(payload))
		if err != nil {
			code = 1
			return
		}
		out = append([]byte(nil), buf.Bytes()...)
	})
	if panicked {
		return nil, 3
	}
	return out, code
}

// serFull serializes the whole SCION packet and returns the L4 part.
func serFull(h hdr, l l4, payload []byte) (out []byte, ok bool) {
	panicked, _ := vgen.Recover(func() {
		scn := scionLayer(h, l)
		buf := getBuf()
		err := gopacket.SerializeLayers(buf, gopacket.SerializeOptions{FixLengths: true, ComputeChecksums: true},
			scn, l4Layer(l, scn), gopacket.Payload(payload))
		if err != nil {
			return
		}
		b := buf.Bytes()
		hl := int(scn.HdrLen) * 4
		if hl > len(b) {
			return
		}
		// the receiver's view: decode the SCION header and take the addresses from the wire
		var dec slayers.SCION
		if err := dec.DecodeFromBytes(b, gopacket.NilDecodeFeedback); err != nil {
			return
		}
		if uint64(dec.DstIA) != h.DstIA || uint64(dec.SrcIA) != h.SrcIA ||
			!bytes.Equal(dec.RawDstAddr, h.RawDst) || !bytes.Equal(dec.RawSrcAddr, h.RawSrc) ||
			int(dec.PayloadLen) != len(b)-hl {
			return
		}
		out = append([]byte(nil), b[hl:]...)
		ok = true
	})
	if panicked {
		return nil, false
	}
	return out, ok
}

func flipByte(b []byte, idx int, bit uint) []byte {
	c := append([]byte(nil), b...)
	c[idx] ^= 1 << bit
	return c
}

type flip struct{ Region, Idx, Bit, Ck uint64 }

// applyFlip re-serializes with one bit of the sender's input flipped and returns the checksum written.
// base are the L4 bytes of the unflipped serialization (source of the UDP Length field).
func applyFlip(h hdr, l l4, payload, base []byte, region, idx int, bit uint) (ck uint64, ok bool) {
	h2, l2, p2 := h, l, payload
	if l.UDP {
		// keep the Length field as serialized (FixLengths would overwrite a flipped one)
		l2.Fix = false
		l2.Length = binary.BigEndian.Uint16(base[4:6])
	}
	switch region {
	case 0:
		h2.DstIA ^= 1 << uint(idx)
	case 1:
		h2.SrcIA ^= 1 << uint(idx)
	case 2:
		h2.RawDst = flipByte(h.RawDst, idx, bit)
	case 3:
		h2.RawSrc = flipByte(h.RawSrc, idx, bit)
	case 4:
		pre := flipByte(base[:l.prelen()], idx, bit)
		if l.UDP {
			l2.SPort = binary.BigEndian.Uint16(pre[0:2])
			l2.DPort = binary.BigEndian.Uint16(pre[2:4])
			l2.Length = binary.BigEndian.Uint16(pre[4:6])
		} else {
			l2.Typ, l2.Code = pre[0], pre[1]
		}
	case 5:
		p2 = flipByte(payload, idx, bit)
	}
	out, code := serL4(h2, l2, p2)
	if code != 0 || len(out) < l.prelen()+2 {
		return 0, false
	}
	return uint64(binary.BigEndian.Uint16(out[l.prelen():])), true
}

// sum32 is the exact 32-bit sum of the 16-bit words of pseudo header and upper layer. It is used only to
// STEER inputs to the folding boundaries (never to judge the implementation).
func sum32(h hdr, proto uint8, upper []byte) uint32 {
	var s uint32
	add := func(b []byte) {
		for i := 0; i+1 < len(b); i += 2 {
			s += uint32(b[i])<<8 | uint32(b[i+1])
		}
		if len(b)%2 == 1 {
			s += uint32(b[len(b)-1]) << 8
		}
	}
	var ia [16]byte
	binary.BigEndian.PutUint64(ia[:8], h.DstIA)
	binary.BigEndian.PutUint64(ia[8:], h.SrcIA)
	add(ia[:])
	add(h.RawDst)
	add(h.RawSrc)
	s += uint32(len(upper))>>16 + uint32(len(upper))&0xffff + uint32(proto)
	add(upper)
	return s
}

// steerTargets: what the first payload word is chosen for. hl = (S>>16)+(S&0xffff) after the first folding
// round, lo = S&0xffff.
var steerTargets = []struct {
	name string
	ok   func(hl, lo uint32) bool
}{
	{"hl=0x10000", func(hl, lo uint32) bool { return hl == 0x10000 }},
	{"hl=0xffff", func(hl, lo uint32) bool { return hl == 0xffff }},
	{"hl=0x10001", func(hl, lo uint32) bool { return hl == 0x10001 }},
	{"lo=0xffff", func(hl, lo uint32) bool { return lo == 0xffff }},
	{"lo=0xfffe", func(hl, lo uint32) bool { return lo == 0xfffe }},
	{"hl=0x1fffe", func(hl, lo uint32) bool { return hl == 0x1fffe }},
	{"lo=0x0000", func(hl, lo uint32) bool { return lo == 0 }},
}

// steer picks the value of the payload word at offset 0 so that the sum meets target t (or the next
// feasible one). upper0 is the upper layer with zeroed checksum field; payloadOff the offset of the payload.
func steer(h hdr, proto uint8, upper0 []byte, payloadOff int, t int) (w uint16, name string, ok bool) {
	old := uint32(upper0[payloadOff])<<8 | uint32(upper0[payloadOff+1])
	s0 := sum32(h, proto, upper0) - old
	for k := 0; k < len(steerTargets); k++ {
		tg := steerTargets[(t+k)%len(steerTargets)]
		for v := uint32(0); v < 0x10000; v++ {
			s := s0 + v
			if tg.ok(s>>16+s&0xffff, s&0xffff) {
				return uint16(v), tg.name, true
			}
		}
	}
	return 0, "", false
}

func bytesInts(b []byte) string {
	// a list of short lists: coqc parses long flat list literals slowly
	var chunks []string
	var ws []string
	for i := 0; i < len(b); i += 7 {
		var w uint64
		for k := 0; k < 7 && i+k < len(b); k++ {
			w |= uint64(b[i+k]) << (8 * k)
		}
		ws = append(ws, fmt.Sprintf("%d%%uint63", w))
		if len(ws) == 32 {
			chunks = append(chunks, vgen.List(ws))
			ws = nil
		}
	}
	if len(ws) > 0 {
		chunks = append(chunks, vgen.List(ws))
	}
	return vgen.List(chunks)
}

func hdrTerm(h hdr) string {
	return vgen.App("Checksum.Build_addr_hdr", vgen.N(h.DstIA), vgen.N(h.SrcIA), vgen.Bytes(h.RawDst), vgen.Bytes(h.RawSrc))
}

func l4Term(l l4) string {
	if l.UDP {
		lf := "None"
		if !l.Fix {
			lf = vgen.Opt(vgen.N(uint64(l.Length)), true)
		}
		return vgen.App("Checksum.UDP", vgen.N(uint64(l.SPort)), vgen.N(uint64(l.DPort)), lf)
	}
	return vgen.App("Checksum.SCMP", vgen.N(uint64(l.Typ)), vgen.N(uint64(l.Code)))
}

func genAddr(r *vgen.Rand) (slayers.AddrType, []byte) {
	var t slayers.AddrType
	switch r.Intn(8) {
	case 0, 1:
		t = slayers.T4Ip
	case 2, 3:
		t = slayers.T16Ip
	case 4:
		t = slayers.T4Svc
	default:
		t = slayers.AddrType(r.Intn(16)) // any type, any of the four lengths
	}
	raw := r.Bytes(t.Length())
	switch r.Intn(10) {
	case 0:
		for i := range raw {
			raw[i] = 0xff
		}
	case 1:
		for i := range raw {
			raw[i] = 0
		}
	}
	return t, raw
}

func genIA(r *vgen.Rand) uint64 {
	switch r.Intn(8) {
	case 0:
		return 0
	case 1:
		return ^uint64(0)
	case 2:
		return uint64(r.Range(1, 64))<<48 | 0xff0000000000 | uint64(r.Intn(0x1000))
	}
	return r.U64()
}

func genLen(r *vgen.Rand, thorough bool, i int) int {
	k := r.Intn(100)
	switch {
	case k < 55:
		return r.Intn(24)
	case k < 85:
		return r.Range(24, 160)
	case k < 97 || !thorough && i%40 != 0:
		return r.Range(161, 1500)
	default:
		return vgen.Pick(r, 8999, 9000, 8192, r.Range(1501, 9000), r.Range(1501, 9000))
	}
}

func main() {
	run := vgen.Flags("C20")
	run.Imports = []string{"Model.Checksum", "Model.ChecksumX"}
	run.CheckFn = "ChecksumX.check"
	run.DiagFn = "ChecksumX.diag"
	run.CaseType = "Checksum.case"
	run.Prelude = "From Coq Require Import PrimInt63."
	thorough := run.Tier == "thorough"
	run.Rule = "one case = SCION address header (random ISD-ASes incl. 0 and all-ones, every address type/length 4,8,12,16, " +
		"random / all-zero / all-ones host bytes) + UDP (FixLengths, or an explicit Length field) or SCMP header + payload " +
		"(lengths 0..9000, odd and even; quick tier mostly < 160 bytes, a few up to 9000) serialized by the real code with " +
		"ComputeChecksums, as a full SCION packet where possible; every 16th case is tuned so that the checksum comes out " +
		"0x0000 (one's complement corner); 4-24 single-bit flips per case over all regions, each re-serialized by the real " +
		"code; plus malformed headers (missing / odd-length raw addresses). Cases form sequences of 8; in 3 of 4 sequences every " +
		"serialization goes through one recycled gopacket.SerializeBuffer (Clear between packets, sizes and UDP/SCMP mixed), " +
		"in the others through fresh buffers. Every 8th case (UDP and SCMP, odd and even lengths) has its first payload word chosen " +
		"so that the 32-bit sum S sits on a folding boundary: (S>>16)+(S&0xffff) in {0xffff, 0x10000, 0x10001, 0x1fffe if reachable} " +
		"or S&0xffff in {0xffff, 0xfffe, 0}. On the implementation's bytes the oracle also flips every bit of the checksum field and " +
		"of the pseudo-header length word. non-trivial = serialization succeeded"
	rng := vgen.NewRand(run.Seed)

	// Cases come in sequences of seqLen consecutive ids. In three of four sequences all serializations
	// (base, full packet, corner pre-run, flips) of all its packets go through ONE SerializeBuffer, the way
	// router, dispatcher and snet recycle theirs: packets of different sizes, UDP and SCMP interleaved, so
	// that the checksum field of a packet lands on bytes the previous packets left behind. Every fourth
	// sequence uses a fresh buffer per serialization. A sequence is executed as a whole when any of its
	// ids is wanted (-only), so a replay sees the same buffer history.
	const seqLen = 8
	n := run.Count(320, 5000)
	for i := 0; i < n; i++ {
		r := rng.Fork(uint64(i))
		seq := i / seqLen
		if i%seqLen == 0 {
			shared = nil
			if seq%4 != 0 {
				shared = gopacket.NewSerializeBuffer()
			}
		}
		var h hdr
		h.DstIA, h.SrcIA = genIA(r), genIA(r)
		h.DstType, h.RawDst = genAddr(r)
		h.SrcType, h.RawSrc = genAddr(r)
		var l l4
		l.UDP = r.Chance(3, 5)
		l.Fix = true
		if l.UDP {
			l.SPort, l.DPort = uint16(r.U64()), uint16(r.U64())
			if r.Chance(1, 8) {
				l.Fix = false
				l.Length = uint16(r.U64())
			}
		} else {
			l.Typ, l.Code = uint8(r.U64()), uint8(r.U64())
			if r.Chance(1, 2) {
				l.Typ = vgen.Pick(r, uint8(1), 2, 4, 5, 6, 128, 129, 130, 131)
				l.Code = uint8(r.Intn(3))
			}
		}
		plen := genLen(r, thorough, i)
		payload := r.Bytes(plen)
		if r.Chance(1, 12) {
			for k := range payload {
				payload[k] = 0xff
			}
		}
		malformed := ""
		if i%29 == 7 {
			switch r.Intn(4) {
			case 0:
				h.RawDst, malformed = nil, "no-dst"
			case 1:
				h.RawSrc, malformed = nil, "no-src"
			case 2:
				h.RawDst, malformed = h.RawDst[:len(h.RawDst)-1], "odd-dst"
			default:
				h.RawSrc, malformed = h.RawSrc[:len(h.RawSrc)-3], "odd-src"
			}
		}
		corner := i%16 == 3 && malformed == "" && plen >= 2
		nflips := 4
		if i%10 == 0 {
			nflips = 24
		}
		fr := r.Fork(7)
		wantSeq := false
		for id := seq * seqLen; id < (seq+1)*seqLen; id++ {
			wantSeq = wantSeq || run.WantID(id)
		}
		if !wantSeq {
			run.Skip()
			continue
		}
		want := run.Want()
		if corner {
			// put the checksum of a first run into a zeroed, word-aligned payload word: the second run
			// then sums to 0xFFFF before complementing, i.e. writes 0x0000
			off := (plen - 2) &^ 1
			if l.prelen()%2 == 1 {
				off = 0
			}
			payload[off], payload[off+1] = 0, 0
			if out, code := serL4(h, l, payload); code == 0 {
				copy(payload[off:], out[l.prelen():l.prelen()+2])
			}
		}
		steered := ""
		if i%8 == 5 && malformed == "" && plen >= 2 {
			// steer the 32-bit sum to a folding boundary through the first payload word (word aligned:
			// the L4 header in front of it has 8 resp. 4 bytes)
			if out0, code0 := serL4(h, l, payload); code0 == 0 {
				upper0 := append([]byte(nil), out0...)
				upper0[l.prelen()], upper0[l.prelen()+1] = 0, 0
				proto := uint8(slayers.L4SCMP)
				if l.UDP {
					proto = uint8(slayers.L4UDP)
				}
				if w, name, ok := steer(h, proto, upper0, l.prelen()+2, i/8); ok {
					binary.BigEndian.PutUint16(payload, w)
					steered = name
				}
			}
		}
		out, code := serL4(h, l, payload)
		var goViol string
		if code == 0 && l.Fix && malformed == "" {
			full, ok := serFull(h, l, payload)
			if !ok {
				goViol = "full SCION packet could not be serialized/decoded although the L4 layer serializes"
			} else if !bytes.Equal(full, out) {
				goViol = "L4 bytes inside the full SCION packet differ from the L4 layer serialized alone"
			}
			if want {
				run.Tally("path:full-packet")
			}
		}
		var flips []flip
		if code == 0 {
			for k := 0; k < nflips; k++ {
				region := fr.Intn(6)
				if k < 6 {
					region = (k + i) % 6 // every region in turn
				}
				var idx int
				bit := uint(fr.Intn(8))
				switch region {
				case 0, 1:
					idx, bit = fr.Intn(64), 0
				case 2:
					idx = fr.Intn(len(h.RawDst))
				case 3:
					idx = fr.Intn(len(h.RawSrc))
				case 4:
					idx = fr.Intn(l.prelen())
				case 5:
					if plen == 0 {
						continue
					}
					idx = fr.Intn(plen)
					if fr.Chance(1, 3) {
						idx = plen - 1 // the last byte (the padded one when the length is odd)
					}
				}
				ck, ok := applyFlip(h, l, payload, out, region, idx, bit)
				if !ok {
					goViol = "re-serialization with a flipped input bit failed"
					continue
				}
				flips = append(flips, flip{uint64(region), uint64(idx), uint64(bit), ck})
				if want {
					run.Tally(fmt.Sprintf("flip:region%d", region))
				}
			}
		}
		if !want {
			run.Skip()
			continue
		}
		kind := "scmp"
		if l.UDP {
			kind = "udp"
		}
		run.Tally("l4:" + kind)
		if shared != nil {
			run.Tally("buffer:recycled")
		} else {
			run.Tally("buffer:fresh")
		}
		run.Tally(fmt.Sprintf("addr-len:%d/%d", len(h.RawDst), len(h.RawSrc)))
		run.Tally(fmt.Sprintf("payload-odd:%v", plen%2 == 1))
		switch {
		case plen == 0:
			run.Tally("payload:0")
		case plen < 160:
			run.Tally("payload:1-159")
		case plen <= 1500:
			run.Tally("payload:160-1500")
		default:
			run.Tally("payload:1501-9000")
		}
		run.Tally(fmt.Sprintf("result:%d", code))
		if steered != "" {
			run.Tally("steered:" + steered)
		}
		ck := uint64(0)
		if code == 0 {
			ck = uint64(binary.BigEndian.Uint16(out[l.prelen():]))
			if ck == 0 {
				run.Tally("checksum:0x0000")
			}
		}
		term := vgen.App("Checksum.CSer", hdrTerm(h), l4Term(l), vgen.N(uint64(plen)), bytesInts(payload),
			vgen.N(uint64(code)), vgen.N(uint64(len(out))), bytesInts(out),
			vgen.ListOf(flips, func(f flip) string {
				return fmt.Sprintf("(%d, %d, %d, %d)", f.Region, f.Idx, f.Bit, f.Ck)
			}))
		desc := map[string]any{"l4": kind, "dst_ia": h.DstIA, "src_ia": h.SrcIA,
			"dst_type": h.DstType, "src_type": h.SrcType, "raw_dst": fmt.Sprintf("%x", h.RawDst),
			"raw_src": fmt.Sprintf("%x", h.RawSrc), "payload_len": plen, "fix_lengths": l.Fix,
			"malformed": malformed, "corner": corner, "result": code, "checksum": ck, "flips": flips,
			"recycled_buffer": shared != nil, "sequence": seq, "steered": steered}
		if plen <= 64 {
			desc["payload"] = fmt.Sprintf("%x", payload)
		}
		id := run.Add("ser", term, fmt.Sprintf("%v|%v|%x", h, l, payload), code == 0, desc)
		if goViol != "" {
			run.Violate(id, goViol, desc)
		}
	}
	total := n
	run.ShardSize = (total + 7) / 8
	if thorough {
		run.ShardSize = (total + 63) / 64
	}
	if run.ShardSize < 20 {
		run.ShardSize = 20
	}
	run.Finish()
}
