// Runner for C09: the SCMP error messages of the real slow path
// (slowPathPacketProcessor.processPacket / packSCMP / prepareSCMP) on offending packets that
// the REAL fast path refused: every error cause rtgen's mutations and down links raise, x
// packet sizes up to the buffer size x HBH/E2E extension headers x every SCMP type (and
// truncated SCMP) as upper layer x SCION and EPIC paths x short and maximal paths x
// authentication on/off x external, sibling and internal ingress.
package main

import (
	"encoding/hex"
	"fmt"
	"net/netip"
	"strings"
	"time"

	"github.com/gopacket/gopacket"

	"github.com/scionproto/scion/pkg/addr"
	"github.com/scionproto/scion/pkg/drkey"
	"github.com/scionproto/scion/pkg/slayers"
	"github.com/scionproto/scion/pkg/spao"
	"github.com/scionproto/scion/private/drkey/drkeyutil"
	"github.com/scionproto/scion/router"

	"verifharness/internal/glit"
	"verifharness/internal/rtgen"
	"verifharness/internal/spgen"
	"verifharness/internal/vgen"
)

type conf struct {
	name string
	rt   *rtgen.Router
}

type ctx struct {
	run     *vgen.Run
	rng     *vgen.Rand
	now     int64
	prelude []string
	// validAuth: the packet of the next emit carries an authenticator that hasValidAuth must accept
	validAuth bool
}

func (x *ctx) addConfig(c *rtgen.Config) conf {
	name := fmt.Sprintf("cfg_%d", len(x.prelude))
	x.prelude = append(x.prelude, glit.Rewrite(fmt.Sprintf("Definition %s : Router.cfg := %s.", name, c.Gallina())))
	rt, err := c.Build()
	if err != nil {
		panic(err)
	}
	return conf{name, rt}
}

// down returns a copy of c with every own external interface and both sibling links down.
func down(c *rtgen.Config) *rtgen.Config {
	d := *c
	d.Ifaces = append([]rtgen.Iface(nil), c.Ifaces...)
	for i := range d.Ifaces {
		d.Ifaces[i].Up = false
	}
	d.SiblingDown = map[int]bool{1: true, 2: true}
	return &d
}

// errorMutations raise the SCMP causes of the fast path.
var errorMutations = []string{
	"expired", "mac", "consingress", "consegress", "ingress", "paylen", "srcia", "dstia", "srchost",
	"dsthost", "expired-next", "mac-next", "segid", "key", "timestamp", "exptime", "peerflag", "consdir",
	"currhf", "rsv", "remac-consegress", "remac-consingress", "svc-noroute", "metarsv+mac", "remac-consegress",
	"remac-next",
}

// mutate applies one of errorMutations: rtgen's, or one of the local ones (interface ids changed
// with the MAC recomputed, so that the link-type and egress checks are reached; a service
// destination without backend; reserved bits of the path meta header on a packet with a bad MAC).
func mutate(r *vgen.Rand, sc *rtgen.Scenario, c *rtgen.Config, now int64, what string) string {
	switch what {
	case "remac-consegress", "remac-consingress":
		rtgen.Mutate(r, sc, c, now, strings.TrimPrefix(what, "remac-"))
		sc.Remac(c)
	case "remac-next":
		d := sc.Desc
		if k := int(d.CurrHF) + 1; k < len(d.Hops) {
			id := c.Ifaces[r.Intn(len(c.Ifaces))].ID
			if r.Bool() {
				d.Hops[k].ConsEgress = id
			} else {
				d.Hops[k].ConsIngress = id
			}
		}
		sc.Remac(c)
	case "svc-noroute":
		sc.Desc.Dst = rtgen.HostSVC(vgen.Pick(r, addr.SvcDS, addr.SvcWildcard, addr.SVC(0x0003), addr.SVC(0x8003)))
		sc.Desc.DstIA = c.IA
	case "metarsv+mac":
		rtgen.Mutate(r, sc, c, now, vgen.Pick(r, "mac", "expired", "paylen"))
		sc.Desc.MetaRsv = uint8(1 + r.Intn(63))
	default:
		return rtgen.Mutate(r, sc, c, now, what)
	}
	sc.Mut = what
	return what
}

func consts() []uint64 {
	spi, _ := slayers.MakePacketAuthSPIDRKey(uint16(drkey.SCMP), slayers.PacketAuthASHost, slayers.PacketAuthSenderSide)
	return []uint64{
		slayers.MaxSCMPPacketLen, router.VerifE2EAuthHdrLen, uint64(slayers.L4SCMP), uint64(slayers.HopByHopClass),
		uint64(slayers.End2EndClass),
		uint64(slayers.ScmpHeaderSize(slayers.SCMPTypeDestinationUnreachable)),
		uint64(slayers.ScmpHeaderSize(slayers.SCMPTypeParameterProblem)),
		uint64(slayers.ScmpHeaderSize(slayers.SCMPTypeExternalInterfaceDown)),
		uint64(slayers.ScmpHeaderSize(slayers.SCMPTypeInternalConnectivityDown)),
		uint64(slayers.ScmpHeaderSize(slayers.SCMPTypeTracerouteReply)),
		uint64(slayers.SCMPTypeTracerouteRequest), uint64(slayers.SCMPTypeTracerouteReply),
		uint64(slayers.OptTypeAuthenticator), uint64(slayers.PacketAuthCMAC), uint64(spi), slayers.MaxHdrLen,
		router.VerifBufSize, router.VerifMinHeadroom, 16 /* epic.MetadataLen */, 1, /* scion.PathType */
	}
}

func (x *ctx) emit(stream string, cf conf, sc *rtgen.Scenario, epic bool, r *vgen.Rand, tallies ...string) {
	run := x.run
	var meta [16]byte
	copy(meta[:], r.Bytes(16))
	if !run.Want() {
		run.Skip()
		return
	}
	raw, err := sc.Desc.Serialize()
	if err != nil {
		run.Tally("skipped:unserializable")
		run.Skip()
		return
	}
	if epic {
		if e := spgen.Epicize(raw, meta); e != nil {
			raw = e
		} else {
			epic = false
		}
	}
	if len(raw) > spgen.MaxPacket {
		run.Tally("skipped:too-large")
		run.Skip()
		return
	}
	rt := cf.rt
	rt.DP.ClearRecords()
	res, err := rt.DP.VerifProcess(raw, sc.Ing.Link(), nil)
	if err != nil {
		run.Tally("skipped:unrunnable")
		run.Skip()
		return
	}
	if res.Disp == router.VerifPanic {
		id := run.Add(stream, "RouterScmp.CConst 0 1232", hex.EncodeToString(raw), false, map[string]any{"raw": hex.EncodeToString(raw)})
		run.Violate(id, "fast path panicked: "+res.PanicMsg, map[string]any{"raw": hex.EncodeToString(raw), "ingress": sc.Ing.String()})
		return
	}
	if res.Disp != router.VerifSlowPath {
		run.Tally(fmt.Sprintf("skipped:fast-path-disposition-%d", res.Disp))
		run.Skip()
		return
	}
	req, ok := spgen.ReqTerm(&res)
	if !ok {
		run.Tally("skipped:request")
		run.Skip()
		return
	}
	o := spgen.RunSlow(rt, res)
	if o.Left == nil {
		run.Tally("skipped:unparsable-input")
		run.Skip()
		return
	}
	cls := "alert"
	if res.Req.Type >= 0 {
		cls = fmt.Sprintf("scmp-%d-%d", res.Req.Type, res.Req.Code)
	}
	run.Tally("cause:" + cls + ":" + o.Kind)
	run.Tally("ingress:" + []string{"external", "sibling", "internal"}[sc.Ing.Kind] + ":" + o.Kind)
	run.Tally(fmt.Sprintf("auth=%v:%s", rt.Cfg.SCMPAuth, o.Kind))
	run.Tally(fmt.Sprintf("epic=%v:%s", epic, o.Kind))
	for _, t := range tallies {
		run.Tally(t + ":" + o.Kind)
	}
	ats := uint64(0)
	if o.Reply != nil {
		ats = o.Reply.TS
		run.Tally(fmt.Sprintf("reply-bytes:%04d-", len(o.Slow.Out)/100*100))
		run.Tally(fmt.Sprintf("quote-truncated=%v", len(raw) > len(o.Reply.L4)-8))
		run.Tally(fmt.Sprintf("reply-hops:%02d-", len(o.Reply.Rec.Hops)/8*8))
	}
	term := "(let l4v := " + o.Reply.L4Term() + " in " + vgen.App("RouterScmp.CSlow", cf.name, sc.Ing.Gallina(), req, vgen.N(uint64(res.Egress)),
		o.Left.Term(), vgen.B(x.validAuth), vgen.N(ats), o.Reply.MacTable(), o.ImplTerm()) + ")"
	var tags []string
	if o.Left.Rec.MetaRsv != 0 {
		tags = append(tags, "c09-quote-meta-rsv-cleared")
	}
	desc := map[string]any{
		"cfg": cf.name, "cfg_desc": rt.Cfg.Describe(), "auth": rt.Cfg.SCMPAuth, "ingress": sc.Ing.String(),
		"kind": sc.Kind, "mutation": sc.Mut, "raw": hex.EncodeToString(raw), "request": cls,
		"pointer": res.Req.Pointer, "egress": res.Egress, "impl": o.Kind, "epic": epic,
	}
	if o.Reply != nil || o.Kind == "unparsable" {
		desc["reply"] = hex.EncodeToString(o.Slow.Out)
	}
	nt := o.Kind == "reply" || (o.Kind == "drop" && strings.HasPrefix(fmt.Sprint(tallies), "[l4:scmp"))
	id := run.Add(stream, glit.Rewrite(term), cf.name+"|"+sc.Ing.String()+"|"+hex.EncodeToString(raw), nt, desc, tags...)
	switch {
	case o.Kind == "panic":
		desc["panic"] = o.Slow.PanicMsg
		run.Violate(id, "slow path panicked: "+o.Slow.PanicMsg, desc)
	case o.Kind == "unparsable":
		desc["error"] = o.Err.Error()
		run.Violate(id, "emitted bytes are not a SCION/SCMP packet: "+o.Err.Error(), desc)
	case o.Kind == "reply" && o.Err != nil:
		desc["error"] = o.Err.Error()
		run.Violate(id, "slayers cannot decode the emitted packet consistently: "+o.Err.Error(), desc)
	}
}

func main() {
	run := vgen.Flags("C09")
	run.Imports = []string{"Model.Router", "Model.RouterScmp"}
	run.CheckFn = "RouterScmp.check"
	run.DiagFn = "RouterScmp.diag"
	run.CaseType = "RouterScmp.case"
	run.ShardSize = 120
	run.Rule = "offending packets = rtgen valid-by-construction packets (all position kinds, both directions, " +
		"external / sibling / internal ingress) with one error-raising mutation (expiry, MAC, interfaces, ingress link, " +
		"PayloadLen, SrcIA/DstIA, hosts, SegID, pointers, flags, reserved bits) or run on a router whose links are down, " +
		"re-dressed with: upper layer = every SCMP type incl. undefined ones, truncated SCMP, SCMP errors quoting inner " +
		"packets, UDP/TCP/other; HBH / E2E / both (also ~1 KB headers, authenticator-shaped options); sizes small, medium, " +
		"at the quote limit +-3, large, buffer size; paths as generated, 30-45 hops, 62-64 hops; SCION and EPIC path type; " +
		"SCMP authentication on and off; local host IPv4 / IPv6 / v4-mapped. Every packet goes through the REAL fast path; " +
		"only packets it hands to the slow path become cases. non-trivial = the slow path emitted a reply, or refused one " +
		"because the offending packet is an SCMP message"
	x := &ctx{run: run, rng: vgen.NewRand(run.Seed), now: time.Now().Unix()}
	_ = spao.MACBufferSize

	for k, v := range consts() {
		if !run.Want() {
			run.Skip()
			continue
		}
		run.Add("const", vgen.App("RouterScmp.CConst", vgen.N(uint64(k)), vgen.N(v)), fmt.Sprintf("const%d", k), false,
			map[string]uint64{"const": uint64(k), "value": v})
	}

	nCfg := 6
	var cfgs, downs []conf
	for i := 0; i < nCfg; i++ {
		c := rtgen.GenConfig(x.rng.Fork(uint64(7000 + i)))
		c.SCMPAuth = i%2 == 1
		switch i {
		case 2:
			c.LocalHost = netip.MustParseAddr("fd00:1::7")
		case 3:
			c.LocalHost = netip.MustParseAddr("2001:db8::1:9")
		case 5:
			c.LocalHost = netip.MustParseAddr("::ffff:10.1.2.3")
		}
		cfgs = append(cfgs, x.addConfig(c))
		downs = append(downs, x.addConfig(down(c)))
	}

	nErr := run.Count(620, 12000)
	nDown := run.Count(100, 1600)
	nAlert := run.Count(70, 1200)
	kinds := append(append([]string{}, rtgen.Kinds...), rtgen.AttackKinds...)

	for i := 0; i < nErr; i++ {
		r := x.rng.Fork(uint64(i))
		cf := cfgs[i%nCfg]
		kind := kinds[(i/len(errorMutations))%len(kinds)]
		switch errorMutations[i%len(errorMutations)] {
		case "remac-next":
			kind = "xover"
		case "svc-noroute":
			kind = "inbound"
		}
		sc := rtgen.GenValid(r, cf.rt.Cfg, x.now, kind)
		m := mutate(r, sc, cf.rt.Cfg, x.now, errorMutations[i%len(errorMutations)])
		if i%7 == 6 {
			m += "+" + rtgen.Mutate(r, sc, cf.rt.Cfg, x.now, "")
			sc.Mut = m
		}
		o := spgen.Decorate(r, sc, sizeClass(i, run.Tier))
		x.emit("error", cf, sc, r.Chance(1, 5), r, "l4:"+o.L4, "ext:"+o.Ext, "size:"+o.Size,
			fmt.Sprintf("longpath=%v", o.LongPth))
	}
	for i := 0; i < nDown; i++ {
		r := x.rng.Fork(uint64(100000 + i))
		cf := downs[i%nCfg]
		sc := rtgen.GenValid(r, cf.rt.Cfg, x.now, vgen.Pick(r, "first-hop", "transit", "xover", "peer-out", "peer-in"))
		o := spgen.Decorate(r, sc, sizeClass(i, run.Tier))
		x.emit("link-down", cf, sc, r.Chance(1, 5), r, "l4:"+o.L4, "ext:"+o.Ext, "size:"+o.Size,
			fmt.Sprintf("longpath=%v", o.LongPth))
	}
	for i := 0; i < nAlert; i++ {
		r := x.rng.Fork(uint64(200000 + i))
		cf := cfgs[i%nCfg]
		sc := rtgen.GenValid(r, cf.rt.Cfg, x.now, kinds[i%len(rtgen.Kinds)])
		rtgen.Mutate(r, sc, cf.rt.Cfg, x.now, "alert")
		o := spgen.Opts{L4: "as-generated"}
		if i%3 != 0 {
			o = spgen.Decorate(r, sc, i%2)
			if i%3 == 1 {
				sc.Desc.L4 = rtgen.SCMPTraceroute(false, uint16(r.U64()), uint16(r.U64()), 0, 0)
				o.L4 = "traceroute-request"
			}
		}
		x.emit("alert", cf, sc, r.Chance(1, 6), r, "l4:"+o.L4, "ext:"+o.Ext)
	}
	// ---- traceroute requests carrying a packet authenticator option (SPAO) under the key of the router's
	// drkeyutil.FakeProvider (all-zero AS-host key of the current epoch): hasValidAuth must accept the valid
	// ones, so that (authentication on) the traceroute REPLY is authenticated too; a flipped tag, a timestamp
	// outside the acceptance window and routers without authentication answer without authenticator
	nAuthTr := run.Count(48, 1200)
	for i := 0; i < nAuthTr; i++ {
		r := x.rng.Fork(uint64(300000 + i))
		cf := cfgs[(2*i+1)%nCfg] // odd configurations authenticate
		if i%6 == 5 {
			cf = cfgs[(2*i)%nCfg]
		}
		sc := rtgen.GenValid(r, cf.rt.Cfg, x.now, kinds[i%len(rtgen.Kinds)])
		rtgen.Mutate(r, sc, cf.rt.Cfg, x.now, "alert")
		d := sc.Desc
		h := &d.Hops[min(int(d.CurrHF), len(d.Hops)-1)]
		h.IngressAlert, h.EgressAlert = true, true
		d.HBH = nil
		if i%5 == 4 {
			d.HBH = []rtgen.Opt{{Type: 9, Data: r.Bytes(3)}}
		}
		d.L4 = rtgen.SCMPTraceroute(false, uint16(r.U64()), uint16(r.U64()), 0, 0)
		variant := []string{"valid", "valid", "valid", "tag-flipped", "timestamp-outside-window", "valid"}[i%6]
		valid := authenticate(r, d, variant)
		x.validAuth = valid && variant != "tag-flipped" && variant != "timestamp-outside-window"
		x.emit("auth-traceroute", cf, sc, false, r, "l4:traceroute-request", "spao:"+variant)
		x.validAuth = false
	}
	run.Prelude = "From Coq Require Import PrimInt63.\n" + strings.Join(x.prelude, "\n")
	run.Finish()
}

// authenticate puts an E2E authenticator option into d: SPI = DRKey SCMP / AS-host / receiver side, CMAC,
// timestamp relative to the current epoch of the FakeProvider, tag = AES-CMAC under the all-zero key (independent
// implementation) of the authenticated data that the real pkg/spao serializer yields for the decoded packet.
func authenticate(r *vgen.Rand, d *rtgen.Desc, variant string) bool {
	now := time.Now()
	fp := &drkeyutil.FakeProvider{EpochDuration: drkeyutil.LoadEpochDuration()}
	key, err := fp.GetASHostKey(now, 0, addr.Host{})
	if err != nil {
		return false
	}
	at := now
	if variant == "timestamp-outside-window" {
		at = now.Add(-drkeyutil.LoadAcceptanceWindow() - time.Minute)
		if at.Before(key.Epoch.NotBefore) {
			at = now.Add(drkeyutil.LoadAcceptanceWindow() + time.Minute)
		}
	}
	ts, err := spao.RelativeTimestamp(key.Epoch, at)
	if err != nil {
		return false
	}
	spi, _ := slayers.MakePacketAuthSPIDRKey(uint16(drkey.SCMP), slayers.PacketAuthASHost, slayers.PacketAuthReceiverSide)
	data := make([]byte, 12+16)
	data[0], data[1], data[2], data[3] = byte(spi>>24), byte(spi>>16), byte(spi>>8), byte(spi)
	data[4] = byte(slayers.PacketAuthCMAC)
	for k := 0; k < 6; k++ {
		data[6+k] = byte(ts >> (8 * (5 - k)))
	}
	d.E2E = []rtgen.Opt{{Type: uint8(slayers.OptTypeAuthenticator), Data: data}}
	raw, err := d.Serialize()
	if err != nil {
		return false
	}
	var s slayers.SCION
	s.RecyclePaths()
	if err := s.DecodeFromBytes(raw, gopacket.NilDecodeFeedback); err != nil {
		return false
	}
	rest := s.Payload
	if s.NextHdr == slayers.HopByHopClass {
		var hbh slayers.HopByHopExtnSkipper
		if err := hbh.DecodeFromBytes(rest, gopacket.NilDecodeFeedback); err != nil {
			return false
		}
		rest = hbh.Payload
	}
	var e2e slayers.EndToEndExtn
	if err := e2e.DecodeFromBytes(rest, gopacket.NilDecodeFeedback); err != nil || len(e2e.Options) != 1 {
		return false
	}
	opt, err := slayers.ParsePacketAuthOption(e2e.Options[0])
	if err != nil {
		return false
	}
	ad, err := spao.VerifAuthenticatedData(spao.MACInput{Header: opt, ScionLayer: &s, PldType: slayers.L4SCMP, Pld: e2e.Payload})
	if err != nil {
		return false
	}
	tag := spgen.CMAC(make([]byte, 16), append(ad, e2e.Payload...))
	if variant == "tag-flipped" {
		tag[r.Intn(16)] ^= 1 << r.Intn(8)
	}
	copy(data[12:], tag)
	return true
}

// sizeClass spreads the size classes; the quick tier keeps most packets small.
func sizeClass(i int, tier string) int {
	if tier == "thorough" {
		return i % 5
	}
	switch i % 16 {
	case 0, 8:
		return 2
	case 4:
		return 3
	case 12:
		return 4
	case 2, 6, 10:
		return 1
	}
	return 0
}
