// Runner for C01: hop-field MAC and expiry checks of the real fast path on
// valid-by-construction packets at every position kind and on mutated ones.
package main

import (
	"strings"

	"verifharness/internal/rtgen"
)

func main() {
	rtgen.MainX("C01", "Router.check_c01",
		"valid-by-construction packets (1-3 segments; first hop from inside, transit, cross-over, peering "+
			"out/in, last hop inbound; both construction directions; external, sibling and internal ingress; "+
			"optional HBH/E2E headers; UDP/TCP/SCMP/other payloads) on random link-type configurations, and a "+
			"mutation stream (SegID, timestamp, ExpTime, ConsIngress, ConsEgress, MAC bytes of the current and "+
			"next hop, foreign key, expired / barely valid hop with a correct MAC, CurrINF/CurrHF, SrcIA/DstIA, "+
			"hosts, ingress link, flags, reserved bits, payload length); expiries >= 30 s from now; "+
			"`pair` cases: [valid; MAC-bit-flipped copy], [valid; valid; flipped], [flipped; valid] (bits 0..47) back to "+
			"back on ONE reused scionPacketProcessor, each packet compared with the model's single-packet verdict. "+
			"non-trivial = the packet reached verifyCurrentMAC or failed validateHopExpiry "+
			"(forwarded, delivered, or answered with InvalidHopFieldMAC / PathExpired / a later check)",
		func(x *rtgen.Ctx) {
			x.NonTrivial = func(sc *rtgen.Scenario, o *rtgen.Obs) bool {
				cls := o.Class()
				switch {
				case strings.HasPrefix(cls, "forward"), cls == "deliver", strings.HasPrefix(cls, "alert"):
					return true
				case cls == "scmp-4-51", cls == "scmp-4-52", cls == "scmp-4-48", cls == "scmp-4-53",
					cls == "scmp-5-0", cls == "scmp-6-0", cls == "scmp-1-0":
					return true
				}
				return false
			}
			nv := x.Run.Count(400, 20000)
			nm := x.Run.Count(1000, 60000)
			// back-to-back sequences on ONE reused processor: the verdict for a packet must not
			// depend on what the processor verified before (valid packet, then its MAC-tampered copy)
			x.Pairs("pair", 4, x.Run.Count(144, 12000), []string{"inbound", "transit", "first-hop", "peer-in",
				"peer-out", "inbound", "transit", "xover"})
			x.RandomStreams(8, nv, nm, nil, []string{
				"segid", "timestamp", "exptime", "consingress", "consegress", "mac", "mac-next", "key",
				"expired", "expired-next", "barely-valid", "mac", "expired", "currhf", "currinf", "srcia",
				"dstia", "ingress", "alert", "peerflag", "consdir", "rsv", "paylen", "srchost", "dsthost", "l4"})
		})
}
