// Runner for C38: signed control-plane messages (pkg/scrypto/signed) on the
// real Sign / Verify with ECDSA P-224/256/384/521 keys (and nil / Ed25519 / RSA
// keys for the key-type check).  A case carries what was signed, what was
// verified, the set of (key, digest, signature) triples among the case's
// candidates that crypto/ecdsa accepts (computed here by calling
// ecdsa.VerifyASN1 directly on header-and-body || associated data), and
// Verify's verdict with the returned header fields and body.
package main

import (
	"bytes"
	"crypto"
	"crypto/ecdsa"
	"crypto/ed25519"
	"crypto/elliptic"
	"crypto/rand"
	"crypto/rsa"
	"crypto/sha256"
	"crypto/sha512"
	"encoding/asn1"
	"encoding/hex"
	"fmt"
	"math/big"
	"strings"
	"time"

	"google.golang.org/protobuf/encoding/protowire"
	"google.golang.org/protobuf/proto"
	"google.golang.org/protobuf/types/known/timestamppb"

	cryptopb "github.com/scionproto/scion/pkg/proto/crypto"
	"github.com/scionproto/scion/pkg/scrypto/signed"
	"verifharness/internal/vgen"
)

// ---------------------------------------------------------------- keys

type key struct {
	kind   int // 0 nil, 1 ecdsa, 2 other type
	id     int
	name   string
	signer crypto.Signer
	pub    crypto.PublicKey
}

func ecKey(r *vgen.Rand, c elliptic.Curve, id int, name string) *key {
	n := (c.Params().BitSize + 7) / 8
	for {
		d := r.Bytes(n)
		d[0] = 0
		d[n-1] |= 1
		k, err := ecdsa.ParseRawPrivateKey(c, d)
		if err != nil {
			continue
		}
		return &key{kind: 1, id: id, name: name, signer: k, pub: k.Public()}
	}
}

func (k *key) term() string {
	if k == nil || k.kind == 0 {
		return "None"
	}
	return fmt.Sprintf("(Some (%d, %d))", k.kind, k.id)
}

// ---------------------------------------------------------------- headers

type hdrT struct {
	Algo  int
	KeyID []byte
	Sec   int64 // Unix()
	Nsec  int   // Nanosecond()
	Meta  []byte
	ADLen int
}

var zeroSec = time.Time{}.Unix()

func (h hdrT) goTime() time.Time {
	if h.Sec == zeroSec && h.Nsec == 0 {
		return time.Time{}
	}
	return time.Unix(h.Sec, int64(h.Nsec))
}

func (h hdrT) signedHeader() signed.Header {
	return signed.Header{SignatureAlgorithm: signed.SignatureAlgorithm(h.Algo), VerificationKeyID: h.KeyID,
		Timestamp: h.goTime(), Metadata: h.Meta, AssociatedDataLength: h.ADLen}
}

func zt(v int64) string { return fmt.Sprintf("(%d)%%Z", v) }

func (h hdrT) term() string {
	return fmt.Sprintf("(Signed.mkh %d %s (%s, %s) %s %s)", h.Algo, hx(h.KeyID), zt(h.Sec),
		zt(int64(h.Nsec)), hx(h.Meta), zt(int64(h.ADLen)))
}

func obsTerm(m *signed.Message) string {
	if m == nil {
		return "None"
	}
	h := hdrT{Algo: int(m.Header.SignatureAlgorithm), KeyID: m.Header.VerificationKeyID,
		Sec: m.Header.Timestamp.Unix(), Nsec: m.Header.Timestamp.Nanosecond(), Meta: m.Header.Metadata,
		ADLen: m.Header.AssociatedDataLength}
	return fmt.Sprintf("(Some (%s, %s))", h.term(), hx(m.Body))
}

func adTerm(ad [][]byte) string { return vgen.ListOf(ad, hx) }

// hx prints a byte string as the compact literal of Lib/HexLit.v.
func hx(b []byte) string {
	if len(b) == 0 {
		return "[]"
	}
	return fmt.Sprintf("(Hx %d 0x%s)", len(b), hex.EncodeToString(b))
}

func cat(ad [][]byte) []byte {
	var out []byte
	for _, d := range ad {
		out = append(out, d...)
	}
	return out
}

func clone(b []byte) []byte { return append([]byte{}, b...) }

func cloneAD(ad [][]byte) [][]byte {
	out := make([][]byte, len(ad))
	for i := range ad {
		out[i] = clone(ad[i])
	}
	return out
}

// ---------------------------------------------------------------- crypto verdict table

func digest(hid int, raw []byte) []byte {
	switch hid {
	case 1:
		s := sha256.Sum256(raw)
		return s[:]
	case 2:
		s := sha512.Sum384(raw)
		return s[:]
	default:
		s := sha512.Sum512(raw)
		return s[:]
	}
}

// table returns the accepted (key id, hash id :: raw input, signature) triples for
// verification key k over hb || cat(ad) and sg, for each of the three hashes.  The
// Gallina text of hb, ad and sg is passed in so that the entries reuse it.
func table(k *key, hb, sg []byte, ad [][]byte, hbE, sgE, adE string) (string, int) {
	if k == nil || k.kind != 1 {
		return "[]", 0
	}
	raw := append(clone(hb), cat(ad)...)
	var ents []string
	for hid := 1; hid <= 3; hid++ {
		if ecdsa.VerifyASN1(k.pub.(*ecdsa.PublicKey), digest(hid, raw), sg) {
			ents = append(ents, fmt.Sprintf("(%d, (%d :: (%s ++ concat %s)), %s)", k.id, hid, hbE, adE, sgE))
		}
	}
	return vgen.List(ents), len(ents)
}

// rel prints b relative to the named byte string orig (defined in the prelude).
func rel(name string, orig, b []byte) string {
	if name != "" && len(orig) > 3 {
		if bytes.Equal(orig, b) {
			return name
		}
		if len(orig) == len(b) {
			diff, pos := 0, 0
			for i := range b {
				if b[i] != orig[i] {
					diff++
					pos = i
				}
			}
			if diff == 1 {
				return fmt.Sprintf("(setb %s %d %d)", name, pos, b[pos])
			}
		}
		if len(b) < len(orig) && len(b) > 0 && bytes.Equal(orig[:len(b)], b) {
			return fmt.Sprintf("(firstn %d %s)", len(b), name)
		}
		if len(b) > len(orig) && bytes.Equal(b[:len(orig)], orig) {
			return fmt.Sprintf("(%s ++ %s)", name, hx(b[len(orig):]))
		}
	}
	return hx(b)
}

func realVerify(hb, sg []byte, k *key, ad [][]byte) (m *signed.Message, parsed bool, panicked bool, msg string) {
	sm := &cryptopb.SignedMessage{HeaderAndBody: hb, Signature: sg}
	_, perr := signed.ExtractUnverifiedHeader(sm)
	parsed = perr == nil
	var pk crypto.PublicKey
	if k != nil && k.kind != 0 {
		pk = k.pub
	}
	panicked, msg = vgen.Recover(func() {
		r, err := signed.Verify(sm, pk, ad...)
		if err == nil {
			m = r
		}
	})
	return
}

// malleate returns the DER signature (r, n-s).
func malleate(c elliptic.Curve, sg []byte) []byte {
	var rs struct{ R, S *big.Int }
	if _, err := asn1.Unmarshal(sg, &rs); err != nil {
		return nil
	}
	rs.S = new(big.Int).Sub(c.Params().N, rs.S)
	out, err := asn1.Marshal(rs)
	if err != nil {
		return nil
	}
	return out
}

// ---------------------------------------------------------------- generators

func genBytes(r *vgen.Rand, lo, hi int) []byte { return r.Bytes(r.Range(lo, hi)) }

func genAD(r *vgen.Rand) [][]byte {
	n := vgen.Pick(r, 0, 0, 1, 1, 2, 3, 4)
	ad := make([][]byte, n)
	for i := range ad {
		ad[i] = genBytes(r, 0, 10)
		if r.Chance(1, 8) {
			ad[i] = nil
		}
	}
	return ad
}

func genTime(r *vgen.Rand) (int64, int) {
	switch r.Intn(8) {
	case 0:
		return zeroSec, 0
	case 1:
		return 0, 0
	case 2:
		return int64(r.Intn(4)) - 2, vgen.Pick(r, 0, 1, 999999999)
	case 3:
		return vgen.Pick(r, int64(-62135596801), -62135596799, 1<<40, -(1 << 40), 253402300800), r.Intn(1000000000)
	default:
		return 1600000000 + int64(r.Intn(400000000)), vgen.Pick(r, 0, 0, r.Intn(1000000000))
	}
}

func genHdr(r *vgen.Rand, algo int, ad [][]byte) hdrT {
	h := hdrT{Algo: algo, ADLen: len(cat(ad))}
	if r.Chance(3, 4) {
		h.KeyID = genBytes(r, 1, 12)
	}
	h.Sec, h.Nsec = genTime(r)
	if r.Chance(1, 2) {
		h.Meta = genBytes(r, 1, 8)
	}
	return h
}

// rechunk splits the concatenation of ad differently.
func rechunk(r *vgen.Rand, ad [][]byte) [][]byte {
	c := cat(ad)
	var out [][]byte
	for len(c) > 0 {
		n := r.Range(0, len(c))
		if r.Chance(1, 3) {
			n = r.Range(0, 2)
		}
		if n > len(c) || len(out) > 6 {
			n = len(c)
		}
		out = append(out, clone(c[:n]))
		c = c[n:]
	}
	if r.Chance(1, 3) {
		out = append(out, nil)
	}
	return out
}

// marshalHB marshals a HeaderAndBody by hand; extra is appended to the header bytes,
// tail to the header-and-body bytes (unknown / duplicate fields).
func marshalHB(algo int64, h hdrT, hasTS bool, body, extra, tail []byte) []byte {
	ph := &cryptopb.Header{SignatureAlgorithm: cryptopb.SignatureAlgorithm(algo), VerificationKeyId: h.KeyID,
		Metadata: h.Meta, AssociatedDataLength: int32(h.ADLen)}
	if hasTS {
		ph.Timestamp = &timestamppb.Timestamp{Seconds: h.Sec, Nanos: int32(h.Nsec)}
	}
	rh, _ := proto.Marshal(ph)
	rh = append(rh, extra...)
	out, _ := proto.Marshal(&cryptopb.HeaderAndBody{Header: rh, Body: body})
	return append(out, tail...)
}

type base struct {
	k    *key
	h    hdrT
	body []byte
	ad   [][]byte
	hb   []byte
	sg   []byte
	name string // prefix of the prelude definitions of this base
}

// relAD prints an AD list, reusing the base's chunk definitions.
func (b *base) relAD(ad [][]byte) string {
	out := make([]string, len(ad))
	for i, c := range ad {
		out[i] = hx(c)
		for j, o := range b.ad {
			if e := rel(fmt.Sprintf("%s_ad%d", b.name, j), o, c); len(e) < len(out[i]) {
				out[i] = e
			}
		}
	}
	return vgen.List(out)
}

func shortKey(parts ...any) string {
	s := sha256.Sum256([]byte(fmt.Sprint(parts...)))
	return hex.EncodeToString(s[:10])
}

func main() {
	run := vgen.Flags("C38")
	run.Imports = []string{"Lib.HexLit", "Model.Signed"}
	run.CheckFn = "Signed.check"
	run.DiagFn = "Signed.diag"
	run.CaseType = "Signed.case"
	run.ShardSize = 250
	run.Rule = "sign: every algorithm 0..5 x signer kind (nil, P-224/256/384/521, Ed25519, RSA) x AD-length relation, " +
		"plus generated headers; verify: for each honestly signed message (generated header/body/AD/key) the untouched " +
		"message, AD re-chunkings and single mutations of every class (byte of header-and-body at every position, " +
		"truncation/extension, signature bytes, s -> n-s, AD chunk bytes / dropped / added / swapped chunks, key swap " +
		"same and other curve, nil and non-ECDSA keys, algorithm and other header fields re-marshalled, non-canonical " +
		"re-encodings, header-and-body/AD splice); raw: hand-marshalled messages (unknown algorithms, duplicate and " +
		"unknown fields, groups) signed directly with crypto/ecdsa; non-trivial = the case reached the checks behind " +
		"header extraction (parse succeeded) resp. Sign returned a verdict"
	rng := vgen.NewRand(run.Seed)

	kr := rng.Fork(7)
	curves := []struct {
		c    elliptic.Curve
		name string
	}{{elliptic.P256(), "P-256"}, {elliptic.P384(), "P-384"}, {elliptic.P521(), "P-521"}, {elliptic.P224(), "P-224"}}
	var ecKeys []*key
	id := 1
	for rep := 0; rep < 2; rep++ {
		for _, c := range curves {
			ecKeys = append(ecKeys, ecKey(kr, c.c, id, c.name))
			id++
		}
	}
	edPriv := ed25519.NewKeyFromSeed(kr.Bytes(32))
	edKey := &key{kind: 2, id: 100, name: "Ed25519", signer: edPriv, pub: edPriv.Public()}
	rsaPriv, err := rsa.GenerateKey(rand.Reader, 1024)
	if err != nil {
		panic(err)
	}
	rsaKey := &key{kind: 2, id: 101, name: "RSA", signer: rsaPriv, pub: rsaPriv.Public()}
	nilKey := &key{kind: 0, name: "nil"}

	// ------------------------------------------------------------ 1. Sign
	nextID := 0 // id the next Add / Skip will consume (for violations reported before Add)
	addSign := func(k *key, h hdrT, body []byte, ad [][]byte, what string) {
		if !run.Want() {
			run.Skip()
			nextID++
			return
		}
		var sm *cryptopb.SignedMessage
		var serr error
		var signer crypto.Signer
		if k.kind != 0 {
			signer = k.signer
		}
		p, msg := vgen.Recover(func() { sm, serr = signed.Sign(h.signedHeader(), body, signer, ad...) })
		desc := map[string]any{"what": what, "key": k.name, "hdr": h, "body": hex.EncodeToString(body),
			"ad": fmt.Sprintf("%x", ad)}
		if p {
			run.Violate(nextID, "Sign panicked: "+msg, desc)
			nextID++
			run.Skip()
			return
		}
		ok := serr == nil
		var hb []byte
		badSig := false
		if ok {
			hb = sm.HeaderAndBody
			// the produced signature must be a real one over header-and-body || AD
			if k.kind == 1 {
				raw := append(clone(hb), cat(ad)...)
				hid := h.Algo
				badSig = !ecdsa.VerifyASN1(k.pub.(*ecdsa.PublicKey), digest(hid, raw), sm.Signature)
			}
		}
		desc["impl_ok"] = ok
		run.Tally(fmt.Sprintf("sign:%v", ok))
		id := run.Add("sign", vgen.App("Signed.CSign", k.term(), h.term(), hx(body), adTerm(ad), vgen.B(ok),
			hx(hb)), shortKey(what, k.name, h, body, ad), true, desc)
		nextID = id + 1
		if badSig {
			run.Violate(id, "Sign produced a signature that crypto/ecdsa rejects over hb||ad", desc)
		}
	}
	signers := []*key{nilKey, ecKeys[3], ecKeys[0], ecKeys[1], ecKeys[2], edKey, rsaKey}
	sr := rng.Fork(11)
	for algo := 0; algo <= 5; algo++ {
		for _, k := range signers {
			for rel := 0; rel < 4; rel++ {
				ad := genAD(sr)
				h := genHdr(sr, algo, ad)
				switch rel {
				case 1:
					h.ADLen++
				case 2:
					h.ADLen--
				case 3:
					h.ADLen = -h.ADLen - 1
				}
				addSign(k, h, genBytes(sr, 0, 12), ad, fmt.Sprintf("table algo=%d rel=%d", algo, rel))
			}
		}
	}
	ns := run.Count(60, 3000)
	for i := 0; i < ns; i++ {
		r := rng.Fork(uint64(100000 + i))
		ad := genAD(r)
		k := vgen.Pick(r, ecKeys...)
		h := genHdr(r, r.Range(1, 3), ad)
		addSign(k, h, genBytes(r, 0, 24), ad, "generated")
	}

	// ------------------------------------------------------------ 2. Verify
	addVerify := func(b *base, class string, hb2, sg2 []byte, ad2 [][]byte, k2 *key, tags ...string) {
		if !run.Want() {
			run.Skip()
			nextID++
			return
		}
		m, parsed, p, msg := realVerify(hb2, sg2, k2, ad2)
		hbE, sgE, adE := rel(b.name+"_hb", b.hb, hb2), rel(b.name+"_sg", b.sg, sg2), b.relAD(ad2)
		tbl, nacc := table(k2, hb2, sg2, ad2, hbE, sgE, adE)
		cad := cat(b.ad)
		// known-finding classes, decided from the input
		if !bytes.Equal(hb2, b.hb) && bytes.Equal(append(clone(hb2), cat(ad2)...), append(clone(b.hb), cad...)) {
			tags = append(tags, "ad-splice")
		}
		desc := map[string]any{"class": class, "key": b.k.name, "verify_key": k2.name, "hdr": b.h,
			"body": hex.EncodeToString(b.body), "ad": fmt.Sprintf("%x", b.ad), "hb": hex.EncodeToString(b.hb),
			"sig": hex.EncodeToString(b.sg), "hb2": hex.EncodeToString(hb2), "sig2": hex.EncodeToString(sg2),
			"ad2": fmt.Sprintf("%x", ad2), "impl_ok": m != nil, "crypto_accepts": nacc}
		if p {
			run.Violate(nextID, "Verify panicked: "+msg, desc, tags...)
			nextID++
			run.Skip()
			return
		}
		run.Tally("verify:" + class)
		run.Tally(fmt.Sprintf("verify-accepted:%v", m != nil))
		n := b.name
		nextID++
		run.Add("verify", vgen.App("Signed.CVerify", n+"_h", n+"_body", n+"_cad",
			vgen.N(uint64(b.k.id)), n+"_hb", n+"_sg", hbE, sgE, adE, k2.term(), tbl, obsTerm(m)),
			shortKey(class, b.k.name, k2.name, b.h, b.body, b.ad, hb2, len(sg2), ad2), parsed, desc, tags...)
	}
	nbase := 0
	mkBase := func(r *vgen.Rand, k *key, h hdrT, body []byte, ad [][]byte) *base {
		sm, err := signed.Sign(h.signedHeader(), body, k.signer, ad...)
		if err != nil {
			panic(fmt.Sprint("base Sign failed: ", err))
		}
		b := &base{k: k, h: h, body: body, ad: ad, hb: sm.HeaderAndBody, sg: sm.Signature,
			name: fmt.Sprintf("b%d", nbase)}
		nbase++
		var sb strings.Builder
		fmt.Fprintf(&sb, "Definition %s_h := %s.\nDefinition %s_body : list N := %s.\nDefinition %s_cad : list N := %s.\n",
			b.name, h.term(), b.name, hx(body), b.name, hx(cat(ad)))
		fmt.Fprintf(&sb, "Definition %s_hb : list N := %s.\nDefinition %s_sg : list N := %s.\n", b.name, hx(b.hb), b.name, hx(b.sg))
		for j, c := range ad {
			fmt.Fprintf(&sb, "Definition %s_ad%d : list N := %s.\n", b.name, j, hx(c))
		}
		run.Prelude += sb.String()
		return b
	}
	otherKey := func(r *vgen.Rand, k *key, sameCurve bool) *key {
		for {
			c := vgen.Pick(r, ecKeys...)
			if c.id != k.id && (c.name == k.name) == sameCurve {
				return c
			}
		}
	}
	flip := func(r *vgen.Rand, b []byte, pos int) []byte {
		out := clone(b)
		out[pos] ^= byte(1 << r.Intn(8))
		if r.Chance(1, 3) {
			out[pos] = byte(r.Intn(256))
			if out[pos] == b[pos] {
				out[pos]++
			}
		}
		return out
	}
	nb := run.Count(10, 400)
	posPer := 14 // sampled positions per byte string (every position in the thorough tier)
	if run.Tier == "thorough" {
		posPer = 1 << 20
	}
	positions := func(r *vgen.Rand, n int) []int {
		if n <= posPer {
			out := make([]int, n)
			for i := range out {
				out[i] = i
			}
			return out
		}
		out := make([]int, posPer)
		for i := range out {
			out[i] = r.Intn(n)
		}
		return out
	}
	for i := 0; i < nb; i++ {
		r := rng.Fork(uint64(200000 + i))
		k := ecKeys[i%len(ecKeys)]
		ad := genAD(r)
		algo := r.Range(1, 3)
		h := genHdr(r, algo, ad)
		body := genBytes(r, 0, 16)
		// the number of cases of a base does not depend on signature bytes
		b := mkBase(r, k, h, body, ad)
		addVerify(b, "untouched", b.hb, b.sg, cloneAD(ad), k)
		for j := 0; j < 3; j++ {
			addVerify(b, "ad-rechunk", b.hb, b.sg, rechunk(r, ad), k)
		}
		// header-and-body: every byte position once in the quick tier for small messages
		hbPos := len(b.hb)
		if run.Tier != "thorough" && hbPos > 48 {
			hbPos = 48
		}
		for p := 0; p < hbPos; p++ {
			pos := p
			if hbPos < len(b.hb) {
				pos = r.Intn(len(b.hb))
			}
			addVerify(b, "hb-byte", flip(r, b.hb, pos), b.sg, cloneAD(ad), k)
		}
		addVerify(b, "hb-truncate", clone(b.hb[:len(b.hb)-1]), b.sg, cloneAD(ad), k)
		addVerify(b, "hb-extend", append(clone(b.hb), byte(r.Intn(256))), b.sg, cloneAD(ad), k)
		addVerify(b, "hb-empty", nil, b.sg, cloneAD(ad), k)
		// signature
		for range positions(r, 64) {
			addVerify(b, "sig-byte", b.hb, flip(r, b.sg, r.Intn(len(b.sg))), cloneAD(ad), k)
		}
		addVerify(b, "sig-truncate", b.hb, clone(b.sg[:len(b.sg)-1]), cloneAD(ad), k)
		addVerify(b, "sig-extend", b.hb, append(clone(b.sg), 0), cloneAD(ad), k)
		addVerify(b, "sig-empty", b.hb, nil, cloneAD(ad), k)
		if ms := malleate(k.pub.(*ecdsa.PublicKey).Curve, b.sg); ms != nil {
			addVerify(b, "sig-malleate", b.hb, ms, cloneAD(ad), k, "ecdsa-s-malleable")
		} else {
			panic("cannot re-encode signature")
		}
		// associated data
		for ci := 0; ci < 4; ci++ {
			if ci < len(ad) && len(ad[ci]) > 0 {
				ad2 := cloneAD(ad)
				ad2[ci] = flip(r, ad2[ci], r.Intn(len(ad2[ci])))
				addVerify(b, "ad-byte", b.hb, b.sg, ad2, k)
				ad3 := cloneAD(ad)
				ad3[ci] = ad3[ci][:len(ad3[ci])-1]
				addVerify(b, "ad-shorten", b.hb, b.sg, ad3, k)
				ad4 := append(cloneAD(ad[:ci]), cloneAD(ad[ci+1:])...)
				addVerify(b, "ad-drop-chunk", b.hb, b.sg, ad4, k)
			} else {
				// keep ids stable: three cases per chunk slot
				ad2 := append(cloneAD(ad), genBytes(r, 1, 4))
				addVerify(b, "ad-add-chunk", b.hb, b.sg, ad2, k)
				addVerify(b, "ad-add-empty-chunk", b.hb, b.sg, append(cloneAD(ad), nil), k)
				ad3 := append([][]byte{genBytes(r, 1, 3)}, cloneAD(ad)...)
				addVerify(b, "ad-prepend-chunk", b.hb, b.sg, ad3, k)
			}
		}
		{
			ad2 := cloneAD(ad)
			for l, rr := 0, len(ad2)-1; l < rr; l, rr = l+1, rr-1 {
				ad2[l], ad2[rr] = ad2[rr], ad2[l]
			}
			addVerify(b, "ad-reverse-chunks", b.hb, b.sg, ad2, k)
		}
		// keys
		addVerify(b, "key-same-curve", b.hb, b.sg, cloneAD(ad), otherKey(r, k, true))
		addVerify(b, "key-other-curve", b.hb, b.sg, cloneAD(ad), otherKey(r, k, false))
		addVerify(b, "key-nil", b.hb, b.sg, cloneAD(ad), nilKey)
		addVerify(b, "key-ed25519", b.hb, b.sg, cloneAD(ad), edKey)
		addVerify(b, "key-rsa", b.hb, b.sg, cloneAD(ad), rsaKey)
		// header fields re-marshalled (signature kept)
		hasTS := !(h.Sec == zeroSec && h.Nsec == 0)
		for a := 0; a <= 4; a++ {
			addVerify(b, "hdr-algo", marshalHB(int64(a), h, hasTS, body, nil, nil), b.sg, cloneAD(ad), k)
		}
		addVerify(b, "hdr-algo-wrap", marshalHB(int64(algo), h, hasTS, body,
			protowire.AppendVarint(protowire.AppendTag(nil, 1, protowire.VarintType), uint64(algo)+1<<32), nil),
			b.sg, cloneAD(ad), k)
		{
			h2 := h
			h2.KeyID = flipOrSet(r, h.KeyID)
			addVerify(b, "hdr-keyid", marshalHB(int64(algo), h2, hasTS, body, nil, nil), b.sg, cloneAD(ad), k)
			h2 = h
			h2.Meta = flipOrSet(r, h.Meta)
			addVerify(b, "hdr-metadata", marshalHB(int64(algo), h2, hasTS, body, nil, nil), b.sg, cloneAD(ad), k)
			h2 = h
			h2.Sec++
			addVerify(b, "hdr-timestamp", marshalHB(int64(algo), h2, true, body, nil, nil), b.sg, cloneAD(ad), k)
			h2 = h
			h2.ADLen += vgen.Pick(r, 1, -1, 256)
			addVerify(b, "hdr-adlen", marshalHB(int64(algo), h2, hasTS, body, nil, nil), b.sg, cloneAD(ad), k)
			addVerify(b, "body", marshalHB(int64(algo), h, hasTS, flipOrSet(r, body), nil, nil), b.sg, cloneAD(ad), k)
		}
		// same content, other encoding: unknown field appended / duplicated body field
		unk := protowire.AppendVarint(protowire.AppendTag(nil, 9, protowire.VarintType), uint64(r.Intn(1000)))
		addVerify(b, "reencode-unknown-field", append(clone(b.hb), unk...), b.sg, cloneAD(ad), k)
		dup := protowire.AppendBytes(protowire.AppendTag(nil, 2, protowire.BytesType), body)
		addVerify(b, "reencode-dup-body", append(clone(b.hb), dup...), b.sg, cloneAD(ad), k)
		// move the first AD bytes into header-and-body (fails: they are no protobuf field)
		if c := cat(ad); len(c) > 0 {
			n := r.Range(1, len(c))
			addVerify(b, "move-ad-into-hb", append(clone(b.hb), c[:n]...), b.sg, [][]byte{clone(c[n:])}, k)
		} else {
			addVerify(b, "move-hb-into-ad", clone(b.hb[:len(b.hb)-1]), b.sg, [][]byte{{b.hb[len(b.hb)-1]}}, k)
		}
	}

	// ------------------------------------------------------------ 2b. splice (known finding ad-splice)
	nsp := run.Count(6, 100)
	for i := 0; i < nsp; i++ {
		r := rng.Fork(uint64(300000 + i))
		k := ecKeys[i%len(ecKeys)]
		algo := r.Range(1, 3)
		y := genBytes(r, 0, 8)
		fh := genHdr(r, algo, [][]byte{y}) // forged header: AD length = len(y)
		good := r.Chance(3, 4)
		if !good {
			fh.ADLen++
		}
		x := marshalHB(int64(algo), fh, !(fh.Sec == zeroSec && fh.Nsec == 0), genBytes(r, 1, 10), nil, nil)
		var ad [][]byte
		if r.Bool() {
			ad = [][]byte{append(clone(x), y...)}
		} else {
			ad = [][]byte{x, y}
		}
		h := genHdr(r, algo, ad)
		b := mkBase(r, k, h, genBytes(r, 1, 10), ad)
		addVerify(b, "splice", append(clone(b.hb), x...), b.sg, [][]byte{clone(y)}, k)
	}

	// ------------------------------------------------------------ 3. raw messages
	addRaw := func(class string, hb, sg []byte, ad [][]byte, k *key) {
		if !run.Want() {
			run.Skip()
			nextID++
			return
		}
		m, parsed, p, msg := realVerify(hb, sg, k, ad)
		tbl, nacc := table(k, hb, sg, ad, hx(hb), hx(sg), adTerm(ad))
		desc := map[string]any{"class": class, "verify_key": k.name, "hb": hex.EncodeToString(hb),
			"sig": hex.EncodeToString(sg), "ad": fmt.Sprintf("%x", ad), "impl_ok": m != nil, "crypto_accepts": nacc}
		if p {
			run.Violate(nextID, "Verify panicked: "+msg, desc)
			nextID++
			run.Skip()
			return
		}
		run.Tally("raw:" + class)
		run.Tally(fmt.Sprintf("raw-accepted:%v", m != nil))
		nextID++
		run.Add("raw", vgen.App("Signed.CRaw", hx(hb), hx(sg), adTerm(ad), k.term(), tbl,
			obsTerm(m)), shortKey(class, k.name, hb, ad), parsed, desc)
	}
	nr := run.Count(120, 6000)
	for i := 0; i < nr; i++ {
		r := rng.Fork(uint64(400000 + i))
		k := vgen.Pick(r, ecKeys...)
		ad := genAD(r)
		class := vgen.Pick(r, "algo", "algo", "dup-fields", "unknown-fields", "group", "ts-merge", "ts-range",
			"adlen-range", "adlen-off", "adlen-off", "garbage")
		h := genHdr(r, r.Range(1, 3), ad)
		hasTS := !(h.Sec == zeroSec && h.Nsec == 0)
		body := genBytes(r, 0, 10)
		algo := int64(h.Algo)
		var extra, tail []byte
		switch class {
		case "algo":
			algo = vgen.Pick(r, int64(0), 4, 5, -1, 1<<31-1, int64(r.Range(1, 3)))
		case "dup-fields":
			extra = protowire.AppendVarint(protowire.AppendTag(nil, 1, protowire.VarintType), uint64(r.Intn(5)))
			if r.Bool() {
				extra = protowire.AppendBytes(protowire.AppendTag(extra, 4, protowire.BytesType), genBytes(r, 0, 4))
			}
			if r.Bool() {
				extra = protowire.AppendVarint(protowire.AppendTag(extra, 5, protowire.VarintType),
					uint64(len(cat(ad)))+uint64(r.Intn(2))<<32)
			}
			if r.Bool() {
				tail = protowire.AppendBytes(protowire.AppendTag(nil, 2, protowire.BytesType), genBytes(r, 0, 4))
			}
		case "unknown-fields":
			// known numbers with another wire type, unknown numbers, fixed-width values
			extra = protowire.AppendFixed32(protowire.AppendTag(nil, 5, protowire.Fixed32Type), uint32(r.U64()))
			extra = protowire.AppendBytes(protowire.AppendTag(extra, 1, protowire.BytesType), genBytes(r, 0, 3))
			extra = protowire.AppendFixed64(protowire.AppendTag(extra, protowire.Number(r.Range(6, 40)),
				protowire.Fixed64Type), r.U64())
			tail = protowire.AppendVarint(protowire.AppendTag(nil, 1, protowire.VarintType), r.U64())
		case "group":
			g := protowire.AppendTag(nil, 7, protowire.StartGroupType)
			g = protowire.AppendVarint(protowire.AppendTag(g, 1, protowire.VarintType), 3)
			if r.Bool() {
				g = protowire.AppendTag(g, 8, protowire.StartGroupType)
				g = protowire.AppendTag(g, 8, protowire.EndGroupType)
			}
			endNum := protowire.Number(7)
			if r.Chance(1, 4) {
				endNum = 6
			}
			g = protowire.AppendTag(g, endNum, protowire.EndGroupType)
			if r.Bool() {
				extra = g
			} else {
				tail = g
			}
		case "ts-merge":
			t2, _ := proto.Marshal(&timestamppb.Timestamp{Seconds: int64(r.Intn(3)), Nanos: int32(r.Intn(2)) * 5})
			extra = protowire.AppendBytes(protowire.AppendTag(nil, 3, protowire.BytesType), t2)
		case "ts-range":
			hasTS = true
			h.Sec = vgen.Pick(r, int64(1<<63-1), -(1 << 63), 1<<62, 0, -1)
			h.Nsec = vgen.Pick(r, -1, 1000000000, 2147483647, -2147483648, 1999999999, 0)
		case "adlen-off":
			// validly signed, but the header states another AD length than what is supplied
			h.ADLen += vgen.Pick(r, -1, 1, 2, -len(cat(ad)), 7)
		case "adlen-range":
			extra = protowire.AppendVarint(protowire.AppendTag(nil, 5, protowire.VarintType),
				vgen.Pick(r, uint64(1<<31), 1<<32, 1<<63, 1<<64-1, uint64(len(cat(ad)))+1<<32))
		}
		hb := marshalHB(algo, h, hasTS, body, extra, tail)
		if class == "garbage" {
			hb = genBytes(r, 0, 12)
		}
		// sign directly with crypto/ecdsa, using one of the three hashes
		hid := r.Range(1, 3)
		raw := append(clone(hb), cat(ad)...)
		sg, err := ecdsa.SignASN1(rand.Reader, k.signer.(*ecdsa.PrivateKey), digest(hid, raw))
		if err != nil {
			panic(err)
		}
		vk := k
		if r.Chance(1, 10) {
			vk = vgen.Pick(r, nilKey, edKey, rsaKey, otherKey(r, k, true))
		}
		addRaw(class, hb, sg, ad, vk)
	}
	run.Finish()
}

func flipOrSet(r *vgen.Rand, b []byte) []byte {
	if len(b) == 0 {
		return []byte{byte(r.Intn(256))}
	}
	out := clone(b)
	switch r.Intn(3) {
	case 0:
		out[r.Intn(len(out))] ^= byte(1 << r.Intn(8))
	case 1:
		out = out[:len(out)-1]
	default:
		out = append(out, byte(r.Intn(256)))
	}
	return out
}
