// Runner for C21: the SPAO authenticator covers exactly the immutable packet
// fields. Every case is a pair of packets (base, variant) under one SPI; the real
// pkg/spao code is run on both: the bytes serializeAuthenticatedData leaves in the
// MAC buffer (verif hook) and the ComputeAuthCMAC tags (same key). The Gallina side
// recomputes the MAC input of both packets and decides, from the packets alone and
// the specification's notion of "covered", whether the inputs / tags had to be equal.
package main

import (
	"bytes"
	"crypto/aes"
	"fmt"
	"strings"

	"github.com/gopacket/gopacket"

	"github.com/scionproto/scion/pkg/addr"
	"github.com/scionproto/scion/pkg/slayers"
	"github.com/scionproto/scion/pkg/slayers/path"
	"github.com/scionproto/scion/pkg/slayers/path/empty"
	"github.com/scionproto/scion/pkg/slayers/path/epic"
	"github.com/scionproto/scion/pkg/slayers/path/onehop"
	"github.com/scionproto/scion/pkg/slayers/path/scion"
	"github.com/scionproto/scion/pkg/spao"
	"verifharness/internal/vgen"
)

// ---------------------------------------------------------------- packet description

type info struct {
	Rsv           uint8 // six reserved bits of the flags byte (only scion.Raw keeps them)
	Peer, ConsDir bool
	Rsv1          uint8
	SegID         uint16
	TS            uint32
}

type hop struct {
	Rsv            uint8 // six reserved bits of the flags byte: never reach the MAC input
	IAlert, EAlert bool
	Exp            uint8
	In, Eg         uint16
	Mac            [6]byte
}

type meta struct {
	CurrINF, CurrHF uint8
	Rsv             uint8 // six reserved bits: re-serialized as zero by scion.Raw
	Seg             [3]uint8
}

const (
	kEmpty = iota
	kScion
	kOneHop
	kEpic
)

type pathD struct {
	Kind         int
	M            meta
	Infos        []info
	Hops         []hop
	OHInfo       info
	H1, H2       hop
	EpTS, EpCtr  uint32
	PHVF, LHVF   []byte
	ForceDecoded bool // struct mode: hand-built scion.Decoded even if long
}

type pkt struct {
	Version, TC      uint8
	Flow             uint32
	NextHdr, HdrLen  uint8
	PayLen           uint16
	PathType         uint8
	DT, ST           uint8
	DstIA, SrcIA     uint64
	DstHost, SrcHost []byte
	Path             pathD
	HBH              []byte // wire mode: complete hop-by-hop extension header (may be empty)
	E2EPre, E2EPost  []byte // wire mode: options before / after the authenticator option
	SpaoRsv          uint8
	Auth             []byte
	SPI              uint32
	Alg              uint8
	TS               uint64
	L4               uint8
	Pld              []byte
}

func (p *pkt) clone() *pkt {
	q := *p
	q.DstHost = append([]byte(nil), p.DstHost...)
	q.SrcHost = append([]byte(nil), p.SrcHost...)
	q.Path.Infos = append([]info(nil), p.Path.Infos...)
	q.Path.Hops = append([]hop(nil), p.Path.Hops...)
	q.Path.PHVF = append([]byte(nil), p.Path.PHVF...)
	q.Path.LHVF = append([]byte(nil), p.Path.LHVF...)
	q.HBH = append([]byte(nil), p.HBH...)
	q.E2EPre = append([]byte(nil), p.E2EPre...)
	q.E2EPost = append([]byte(nil), p.E2EPost...)
	q.Auth = append([]byte(nil), p.Auth...)
	q.Pld = append([]byte(nil), p.Pld...)
	return &q
}

// ---------------------------------------------------------------- wire bytes (written by hand)

func be16(v uint16) []byte { return []byte{byte(v >> 8), byte(v)} }
func be32(v uint32) []byte { return []byte{byte(v >> 24), byte(v >> 16), byte(v >> 8), byte(v)} }
func be64(v uint64) []byte { return append(be32(uint32(v>>32)), be32(uint32(v))...) }

func b2u(b bool) uint8 {
	if b {
		return 1
	}
	return 0
}

func (i info) bytes(withRsv bool) []byte {
	f := b2u(i.Peer)<<1 | b2u(i.ConsDir)
	r1 := uint8(0)
	if withRsv {
		f |= i.Rsv << 2
		r1 = i.Rsv1
	}
	out := []byte{f, r1}
	out = append(out, be16(i.SegID)...)
	return append(out, be32(i.TS)...)
}

func (h hop) bytes() []byte {
	out := []byte{h.Rsv<<2 | b2u(h.IAlert)<<1 | b2u(h.EAlert), h.Exp}
	out = append(out, be16(h.In)...)
	out = append(out, be16(h.Eg)...)
	return append(out, h.Mac[:]...)
}

func (m meta) bytes() []byte {
	line := uint32(m.CurrINF&3)<<30 | uint32(m.CurrHF&0x3f)<<24 | uint32(m.Rsv&0x3f)<<18 |
		uint32(m.Seg[0]&0x3f)<<12 | uint32(m.Seg[1]&0x3f)<<6 | uint32(m.Seg[2]&0x3f)
	return be32(line)
}

func (d *pathD) scionBytes() []byte {
	out := d.M.bytes()
	for _, i := range d.Infos {
		out = append(out, i.bytes(true)...)
	}
	for _, h := range d.Hops {
		out = append(out, h.bytes()...)
	}
	return out
}

func (d *pathD) bytes() []byte {
	switch d.Kind {
	case kScion:
		return d.scionBytes()
	case kOneHop:
		out := d.OHInfo.bytes(true)
		out = append(out, d.H1.bytes()...)
		return append(out, d.H2.bytes()...)
	case kEpic:
		out := append(be32(d.EpTS), be32(d.EpCtr)...)
		out = append(out, d.PHVF...)
		out = append(out, d.LHVF...)
		return append(out, d.scionBytes()...)
	}
	return nil
}

func addrLen(t uint8) int { return 4 * (1 + int(t&3)) }

// spaoOption is the TLV of the authenticator option.
func (p *pkt) spaoOption() []byte {
	out := []byte{2, byte(12 + len(p.Auth))}
	out = append(out, be32(p.SPI)...)
	out = append(out, p.Alg, p.SpaoRsv)
	ts := be64(p.TS)
	out = append(out, ts[2:]...)
	return append(out, p.Auth...)
}

// e2eBytes assembles the end-to-end extension header around the authenticator option.
func (p *pkt) e2eBytes() []byte {
	body := append([]byte(nil), p.E2EPre...)
	body = append(body, p.spaoOption()...)
	body = append(body, p.E2EPost...)
	for (len(body)+2)%4 != 0 {
		body = append(body, 0) // Pad1
	}
	out := []byte{p.L4, byte((len(body)+2)/4 - 1)}
	return append(out, body...)
}

// wire serializes the whole packet; NextHdr, HdrLen and PayloadLen follow from the content.
func (p *pkt) wire() []byte {
	pb := p.Path.bytes()
	hl := 12 + 16 + len(p.DstHost) + len(p.SrcHost) + len(pb)
	ext := append(append([]byte(nil), p.HBH...), p.e2eBytes()...)
	p.HdrLen = uint8(hl / 4)
	p.PayLen = uint16(len(ext) + len(p.Pld))
	if len(p.HBH) > 0 {
		p.NextHdr = 200
	} else {
		p.NextHdr = 201
	}
	first := uint32(p.Version&0xf)<<28 | uint32(p.TC)<<20 | p.Flow&0xfffff
	out := be32(first)
	out = append(out, p.NextHdr, p.HdrLen)
	out = append(out, be16(p.PayLen)...)
	out = append(out, p.PathType, p.DT<<4|p.ST&0xf, 0, 0)
	out = append(out, be64(p.DstIA)...)
	out = append(out, be64(p.SrcIA)...)
	out = append(out, p.DstHost...)
	out = append(out, p.SrcHost...)
	out = append(out, pb...)
	out = append(out, ext...)
	return append(out, p.Pld...)
}

// ---------------------------------------------------------------- driving the real code

// macInputWire decodes the hand-written wire bytes with slayers (as a receiver such as
// the router's hasValidAuth does) and hands the decoded layers to pkg/spao.
func macInputWire(p *pkt) (spao.MACInput, error) {
	raw := p.wire()
	s := &slayers.SCION{}
	s.RecyclePaths()
	if err := s.DecodeFromBytes(raw, gopacket.NilDecodeFeedback); err != nil {
		return spao.MACInput{}, fmt.Errorf("decode scion: %w", err)
	}
	rest := s.Payload
	if s.NextHdr == slayers.HopByHopClass {
		var hbh slayers.HopByHopExtnSkipper
		if err := hbh.DecodeFromBytes(rest, gopacket.NilDecodeFeedback); err != nil {
			return spao.MACInput{}, fmt.Errorf("decode hbh: %w", err)
		}
		rest = hbh.Payload
	}
	e2e := &slayers.EndToEndExtn{}
	if err := e2e.DecodeFromBytes(rest, gopacket.NilDecodeFeedback); err != nil {
		return spao.MACInput{}, fmt.Errorf("decode e2e: %w", err)
	}
	o, err := e2e.FindOption(slayers.OptTypeAuthenticator)
	if err != nil {
		return spao.MACInput{}, fmt.Errorf("find option: %w", err)
	}
	opt, err := slayers.ParsePacketAuthOption(o)
	if err != nil {
		return spao.MACInput{}, fmt.Errorf("parse option: %w", err)
	}
	return spao.MACInput{Header: opt, ScionLayer: s, PldType: e2e.NextHdr, Pld: e2e.Payload}, nil
}

func toInfoField(i info) path.InfoField {
	return path.InfoField{Peer: i.Peer, ConsDir: i.ConsDir, SegID: i.SegID, Timestamp: i.TS}
}

func toHopField(h hop) path.HopField {
	return path.HopField{IngressRouterAlert: h.IAlert, EgressRouterAlert: h.EAlert,
		ExpTime: h.Exp, ConsIngress: h.In, ConsEgress: h.Eg, Mac: h.Mac}
}

func (d *pathD) rsvZero() bool {
	for _, i := range d.Infos {
		if i.Rsv != 0 || i.Rsv1 != 0 {
			return false
		}
	}
	return true
}

func numINF(m meta) int {
	switch {
	case m.Seg[2] > 0:
		return 3
	case m.Seg[1] > 0:
		return 2
	case m.Seg[0] > 0:
		return 1
	}
	return 0
}

// macInputStruct builds the layers directly (as a sender such as the router's
// prepareSCMP does). decoded selects scion.Decoded over scion.Raw where possible.
func macInputStruct(p *pkt, decoded bool) (spao.MACInput, error) {
	s := &slayers.SCION{
		Version: p.Version, TrafficClass: p.TC, FlowID: p.Flow,
		NextHdr: slayers.L4ProtocolType(p.NextHdr), HdrLen: p.HdrLen, PayloadLen: p.PayLen,
		PathType: path.Type(p.PathType),
		DstAddrType: slayers.AddrType(p.DT), SrcAddrType: slayers.AddrType(p.ST),
		DstIA: addr.IA(p.DstIA), SrcIA: addr.IA(p.SrcIA),
		RawDstAddr: p.DstHost, RawSrcAddr: p.SrcHost,
	}
	d := &p.Path
	mkRaw := func() (*scion.Raw, error) {
		r := &scion.Raw{}
		if err := r.DecodeFromBytes(d.scionBytes()); err != nil {
			return nil, err
		}
		return r, nil
	}
	switch d.Kind {
	case kEmpty:
		s.Path = empty.Path{}
	case kScion:
		if d.ForceDecoded || (decoded && d.rsvZero()) {
			dp := &scion.Decoded{Base: scion.Base{
				PathMeta: scion.MetaHdr{CurrINF: d.M.CurrINF, CurrHF: d.M.CurrHF, SegLen: d.M.Seg},
				NumINF:   numINF(d.M), NumHops: int(d.M.Seg[0]) + int(d.M.Seg[1]) + int(d.M.Seg[2])}}
			for _, i := range d.Infos {
				dp.InfoFields = append(dp.InfoFields, toInfoField(i))
			}
			for _, h := range d.Hops {
				dp.HopFields = append(dp.HopFields, toHopField(h))
			}
			s.Path = dp
		} else {
			r, err := mkRaw()
			if err != nil {
				return spao.MACInput{}, err
			}
			s.Path = r
		}
	case kOneHop:
		s.Path = &onehop.Path{Info: toInfoField(d.OHInfo), FirstHop: toHopField(d.H1),
			SecondHop: toHopField(d.H2)}
	case kEpic:
		r, err := mkRaw()
		if err != nil {
			return spao.MACInput{}, err
		}
		s.Path = &epic.Path{PktID: epic.PktID{Timestamp: d.EpTS, Counter: d.EpCtr},
			PHVF: d.PHVF, LHVF: d.LHVF, ScionPath: r}
	}
	opt, err := slayers.NewPacketAuthOption(slayers.PacketAuthOptionParams{
		SPI: slayers.PacketAuthSPI(p.SPI), Algorithm: slayers.PacketAuthAlg(p.Alg),
		TimestampSN: p.TS, Auth: p.Auth})
	if err != nil {
		return spao.MACInput{}, err
	}
	opt.OptData[5] = p.SpaoRsv
	return spao.MACInput{Header: opt, ScionLayer: s, PldType: slayers.L4ProtocolType(p.L4),
		Pld: p.Pld}, nil
}

// cmac is AES-CMAC (RFC 4493) written against crypto/aes only, to recompute the tag
// independently of pkg/spao and its CMAC library.
func cmac(key, msg []byte) []byte {
	blk, err := aes.NewCipher(key)
	if err != nil {
		panic(err)
	}
	dbl := func(in []byte) []byte {
		out := make([]byte, 16)
		for i := 0; i < 16; i++ {
			out[i] = in[i] << 1
			if i < 15 {
				out[i] |= in[i+1] >> 7
			}
		}
		if in[0]&0x80 != 0 {
			out[15] ^= 0x87
		}
		return out
	}
	l := make([]byte, 16)
	blk.Encrypt(l, l)
	k1 := dbl(l)
	k2 := dbl(k1)
	n := (len(msg) + 15) / 16
	last := make([]byte, 16)
	if n == 0 {
		n = 1
	}
	tail := msg[(n-1)*16:]
	if len(tail) == 16 {
		for i := range last {
			last[i] = tail[i] ^ k1[i]
		}
	} else {
		copy(last, tail)
		last[len(tail)] = 0x80
		for i := range last {
			last[i] ^= k2[i]
		}
	}
	x := make([]byte, 16)
	for b := 0; b < n-1; b++ {
		for i := range x {
			x[i] ^= msg[b*16+i]
		}
		blk.Encrypt(x, x)
	}
	for i := range x {
		x[i] ^= last[i]
	}
	blk.Encrypt(x, x)
	return x
}

type obs struct {
	Hdr   []byte
	OK    bool
	Tag   []byte
	TagOK bool // tag = CMAC(key, hdr ++ pld) (or both computations failed alike)
	Err   string
}

// observe runs the implementation on one packet.
func observe(p *pkt, wire, decoded bool, key []byte) obs {
	var in spao.MACInput
	var err error
	if wire {
		in, err = macInputWire(p)
	} else {
		in, err = macInputStruct(p, decoded)
	}
	if err != nil {
		return obs{Err: "harness: " + err.Error()}
	}
	in.Key = key
	var o obs
	panicked, msg := vgen.Recover(func() {
		hdr, e1 := spao.VerifAuthenticatedData(in)
		tag, e2 := spao.ComputeAuthCMAC(in, make([]byte, spao.MACBufferSize), make([]byte, 16))
		o.OK = e1 == nil
		o.Hdr = hdr
		if (e1 == nil) != (e2 == nil) {
			o.TagOK = false
			return
		}
		if e2 != nil {
			o.TagOK = true
			return
		}
		o.Tag = append([]byte(nil), tag...)
		o.TagOK = bytes.Equal(tag, cmac(key, append(append([]byte(nil), hdr...), in.Pld...)))
	})
	if panicked {
		o.Err = "panic: " + msg
	}
	return o
}

// ---------------------------------------------------------------- Gallina printing

// gBytes prints a byte string with the constructors x00..xff of Coq.Init.Byte.byte
// (Spao.bs maps them to N): coqc elaborates these several times faster than numerals.
func gBytes(b []byte) string {
	if len(b) == 0 {
		return "[]"
	}
	var sb strings.Builder
	sb.WriteString("(Spao.bs [")
	for i, x := range b {
		if i > 0 {
			sb.WriteByte(';')
		}
		fmt.Fprintf(&sb, "x%02x", x)
	}
	sb.WriteString("])")
	return sb.String()
}

// gN prints a number; large ones as big-endian bytes (Spao.nb), because Coq's numeral
// interpretation is slow on long literals.
func gN(v uint64) string {
	if v < 1<<16 {
		return vgen.N(v)
	}
	b := be64(v)
	for b[0] == 0 {
		b = b[1:]
	}
	return "(Spao.nb " + strings.TrimPrefix(gBytes(b), "(Spao.bs ")
}

func gInfo(i info, onehop bool) string {
	r, r1 := i.Rsv, i.Rsv1
	if onehop {
		r, r1 = 0, 0
	}
	return vgen.App("Spao.mkInfo", gN(uint64(r)), vgen.B(i.Peer), vgen.B(i.ConsDir),
		gN(uint64(r1)), gN(uint64(i.SegID)), gN(uint64(i.TS)))
}

func gHop(h hop) string {
	return vgen.App("Spao.mkHop", vgen.B(h.IAlert), vgen.B(h.EAlert), gN(uint64(h.Exp)),
		gN(uint64(h.In)), gN(uint64(h.Eg)), gBytes(h.Mac[:]))
}

func gMeta(m meta) string {
	return vgen.App("Spao.mkMeta", gN(uint64(m.CurrINF)), gN(uint64(m.CurrHF)),
		gN(uint64(m.Seg[0])), gN(uint64(m.Seg[1])), gN(uint64(m.Seg[2])))
}

func gPath(d *pathD, rawInfoRsv bool) string {
	infos := func() string {
		return vgen.ListOf(d.Infos, func(i info) string { return gInfo(i, !rawInfoRsv) })
	}
	switch d.Kind {
	case kScion:
		return vgen.App("Spao.PScion", gMeta(d.M), infos(), vgen.ListOf(d.Hops, gHop))
	case kOneHop:
		return vgen.App("Spao.POneHop", gInfo(d.OHInfo, true), gHop(d.H1), gHop(d.H2))
	case kEpic:
		return vgen.App("Spao.PEpic", gN(uint64(d.EpTS)), gN(uint64(d.EpCtr)),
			gBytes(d.PHVF), gBytes(d.LHVF), gMeta(d.M), infos(), vgen.ListOf(d.Hops, gHop))
	}
	return "Spao.PEmpty"
}

// gPkt prints the packet. ext = everything of the extension headers that is not the
// SPI / algorithm / timestamp of the authenticator option.
func gPkt(p *pkt, rawInfoRsv bool) string {
	ext := append(append([]byte(nil), p.HBH...), p.E2EPre...)
	ext = append(ext, p.E2EPost...)
	ext = append(ext, p.SpaoRsv)
	ext = append(ext, p.Auth...)
	return vgen.App("Spao.mkPkt",
		gN(uint64(p.Version)), gN(uint64(p.TC)), gN(uint64(p.Flow)),
		gN(uint64(p.NextHdr)), gN(uint64(p.HdrLen)), gN(uint64(p.PayLen)),
		gN(uint64(p.PathType)), gN(uint64(p.DT)), gN(uint64(p.ST)),
		gN(p.DstIA), gN(p.SrcIA), gBytes(p.DstHost), gBytes(p.SrcHost),
		gPath(&p.Path, rawInfoRsv), gBytes(ext),
		gN(uint64(p.Alg)), gN(p.TS), gN(uint64(p.L4)), gBytes(p.Pld))
}

// ---------------------------------------------------------------- generators

func genInfo(r *vgen.Rand, rsv bool) info {
	i := info{Peer: r.Chance(1, 4), ConsDir: r.Bool(), SegID: uint16(r.U64()), TS: uint32(r.U64())}
	if rsv && r.Chance(1, 3) {
		i.Rsv = uint8(r.Intn(64))
		i.Rsv1 = uint8(r.Intn(256))
	}
	return i
}

func genHop(r *vgen.Rand) hop {
	h := hop{IAlert: r.Chance(1, 4), EAlert: r.Chance(1, 4), Exp: uint8(r.U64()),
		In: uint16(r.U64()), Eg: uint16(r.U64())}
	copy(h.Mac[:], r.Bytes(6))
	if r.Chance(1, 5) {
		h.Rsv = uint8(r.Intn(64))
	}
	return h
}

func genSegs(r *vgen.Rand, big bool) [3]uint8 {
	n := r.Range(1, 3)
	var s [3]uint8
	for i := 0; i < n; i++ {
		if big {
			s[i] = uint8(r.Range(1, 20))
		} else {
			s[i] = uint8(r.Range(1, 3))
		}
	}
	return s
}

func (d *pathD) fillScion(r *vgen.Rand, segs [3]uint8, rsv bool) {
	d.M = meta{Seg: segs}
	ni := numINF(d.M)
	nh := int(segs[0]) + int(segs[1]) + int(segs[2])
	d.M.CurrINF = uint8(r.Intn(ni))
	d.M.CurrHF = uint8(r.Intn(min(nh, 64)))
	if r.Chance(1, 6) {
		d.M.CurrINF = uint8(r.Intn(4))
		d.M.CurrHF = uint8(r.Intn(64))
	}
	if rsv && r.Chance(1, 5) {
		d.M.Rsv = uint8(r.Intn(64))
	}
	d.Infos, d.Hops = nil, nil
	for i := 0; i < ni; i++ {
		d.Infos = append(d.Infos, genInfo(r, rsv))
	}
	for i := 0; i < nh; i++ {
		d.Hops = append(d.Hops, genHop(r))
	}
}

func genPath(r *vgen.Rand, kind int, big bool) pathD {
	d := pathD{Kind: kind}
	switch kind {
	case kScion:
		d.fillScion(r, genSegs(r, big), true)
	case kEpic:
		d.EpTS, d.EpCtr = uint32(r.U64()), uint32(r.U64())
		d.PHVF, d.LHVF = r.Bytes(4), r.Bytes(4)
		d.fillScion(r, genSegs(r, big), true)
	case kOneHop:
		d.OHInfo = genInfo(r, false)
		d.H1, d.H2 = genHop(r), genHop(r)
		if r.Chance(1, 3) {
			d.H2 = hop{}
		}
	}
	return d
}

var spiKinds = []string{"non-drkey", "as-host/sender", "as-host/receiver", "host-host/sender",
	"host-host/receiver"}

// genSPI draws an SPI of the given kind (0 = non-DRKey, 1..4 = T/D combinations).
func genSPI(r *vgen.Rand, kind int) uint32 {
	if kind == 0 {
		switch r.Intn(4) {
		case 0:
			return 0
		case 1:
			return 1 << 21
		case 2:
			return 0xffffffff
		}
		return 1<<21 + uint32(r.U64())%(1<<32-1<<21)
	}
	t, d := uint32((kind-1)/2), uint32((kind-1)%2)
	spi := t<<17 | d<<16 | uint32(r.Range(1, 0xffff))
	if r.Chance(1, 4) {
		spi |= uint32(r.Intn(8)) << 18 // reserved bits below 1<<21
	}
	return spi
}

func genTLVs(r *vgen.Rand, maxN int) []byte {
	var out []byte
	for n := r.Intn(maxN + 1); n > 0; n-- {
		switch r.Intn(3) {
		case 0:
			out = append(out, 0) // Pad1
		case 1:
			l := r.Intn(5)
			out = append(out, 1, byte(l))
			out = append(out, make([]byte, l)...)
		default:
			l := r.Intn(7)
			out = append(out, byte(r.Range(3, 250)), byte(l))
			out = append(out, r.Bytes(l)...)
		}
	}
	return out
}

func genHBH(r *vgen.Rand) []byte {
	body := genTLVs(r, 3)
	for (len(body)+2)%4 != 0 {
		body = append(body, 0)
	}
	return append([]byte{201, byte((len(body)+2)/4 - 1)}, body...)
}

func genL4(r *vgen.Rand) uint8 {
	if r.Chance(3, 4) {
		return vgen.Pick[uint8](r, 6, 17, 202, 203)
	}
	for {
		v := uint8(r.U64())
		if v != 200 && v != 201 {
			return v
		}
	}
}

func genPkt(r *vgen.Rand, kind, spiKind int, wire, big bool) *pkt {
	p := &pkt{
		TC: uint8(r.U64()), Flow: uint32(r.U64()) & 0xfffff,
		PathType: uint8(kind),
		DstIA: r.U64(), SrcIA: r.U64(),
		Path: genPath(r, kind, big),
		SPI:  genSPI(r, spiKind), TS: r.U64() & (1<<48 - 1),
		Auth: make([]byte, 16), L4: genL4(r),
	}
	if r.Chance(1, 4) {
		p.Version = uint8(r.Intn(16))
	}
	if r.Chance(1, 8) {
		p.TC = vgen.Pick[uint8](r, 0, 0xff, 0x03, 0xfc, 0xc0, 0x3c)
	}
	p.DT = vgen.Pick[uint8](r, 0, 4, 3, uint8(r.Intn(16)))
	p.ST = vgen.Pick[uint8](r, 0, 4, 3, uint8(r.Intn(16)))
	p.DstHost = r.Bytes(addrLen(p.DT))
	p.SrcHost = r.Bytes(addrLen(p.ST))
	if r.Chance(1, 5) {
		p.Alg = uint8(r.U64())
	}
	switch r.Intn(8) {
	case 0:
		p.Pld = nil
	case 1:
		p.Pld = r.Bytes(r.Range(15, 17))
	default:
		p.Pld = r.Bytes(r.Range(1, 40))
	}
	if wire {
		if r.Chance(1, 2) {
			p.HBH = genHBH(r)
		}
		p.E2EPre = genTLVs(r, 2)
		p.E2EPost = genTLVs(r, 2)
		if r.Chance(1, 4) {
			p.Auth = r.Bytes(16)
		}
		p.wire() // sets NextHdr / HdrLen / PayLen
	} else {
		p.NextHdr = vgen.Pick[uint8](r, 201, 200, p.L4)
		p.HdrLen = uint8((12 + 16 + len(p.DstHost) + len(p.SrcHost) + len(p.Path.bytes())) / 4)
		p.PayLen = uint16(len(p.Pld) + 32)
		if r.Chance(1, 4) {
			p.NextHdr, p.HdrLen, p.PayLen = uint8(r.U64()), uint8(r.U64()), uint16(r.U64())
		}
	}
	return p
}

// ---------------------------------------------------------------- single-field variants

type variant struct {
	name    string
	mutable bool // the specification excludes the field / treats it as mutable
	q       *pkt
}

func other8(r *vgen.Rand, v uint8) uint8 {
	for {
		if w := uint8(r.U64()); w != v {
			return w
		}
	}
}

// variants returns single-field changes of p covering every field the property names.
func variants(r *vgen.Rand, p *pkt, spiKind int, wire bool) []variant {
	var out []variant
	add := func(name string, mutable bool, f func(q *pkt)) {
		q := p.clone()
		f(q)
		if wire {
			q.wire()
		}
		out = append(out, variant{name, mutable, q})
	}
	add("identity", true, func(q *pkt) {})

	// common header
	add("version", false, func(q *pkt) { q.Version = (q.Version + uint8(r.Range(1, 15))) & 0xf })
	for b := 0; b < 8; b++ {
		b := b
		add(fmt.Sprintf("tc-bit%d", b), b < 2, func(q *pkt) { q.TC ^= 1 << b })
	}
	add("tc-ecn", true, func(q *pkt) { q.TC ^= uint8(r.Range(1, 3)) })
	add("tc-dscp", false, func(q *pkt) { q.TC ^= uint8(r.Range(1, 63)) << 2 })
	add("flow-id", false, func(q *pkt) { q.Flow ^= 1 << r.Intn(20) })
	add("addr-type", false, func(q *pkt) {
		if r.Bool() {
			q.DT ^= uint8(r.Range(1, 3)) << 2
		} else {
			q.ST ^= uint8(r.Range(1, 3)) << 2
		}
	})
	add("addr-len", false, func(q *pkt) {
		if r.Bool() {
			q.DT = q.DT&0xc | (q.DT+uint8(r.Range(1, 3)))&3
			q.DstHost = append(q.DstHost, make([]byte, 16)...)[:addrLen(q.DT)]
		} else {
			q.ST = q.ST&0xc | (q.ST+uint8(r.Range(1, 3)))&3
			q.SrcHost = append(q.SrcHost, make([]byte, 16)...)[:addrLen(q.ST)]
		}
	})
	if !wire {
		// struct fields that exist independently of the rest only outside a wire packet
		add("path-type", false, func(q *pkt) { q.PathType = other8(r, q.PathType) })
		add("next-hdr", true, func(q *pkt) { q.NextHdr = other8(r, q.NextHdr) })
		add("hdr-len-field", true, func(q *pkt) { q.HdrLen = other8(r, q.HdrLen) })
		add("payload-len-field", true, func(q *pkt) { q.PayLen ^= 1 << r.Intn(16) })
	} else {
		// extension headers; NextHdr and PayloadLen change with them
		add("ext-hbh", true, func(q *pkt) {
			if len(q.HBH) > 0 && r.Bool() {
				q.HBH = nil
			} else {
				q.HBH = genHBH(r)
			}
		})
		add("ext-e2e-options", true, func(q *pkt) {
			if r.Bool() {
				q.E2EPre = append(genTLVs(r, 2), 5, 2, byte(r.U64()), 1)
			} else {
				q.E2EPost = append(genTLVs(r, 2), 7, 1, byte(r.U64()))
			}
		})
		add("spao-rsv", true, func(q *pkt) { q.SpaoRsv = other8(r, q.SpaoRsv) })
		add("spao-authenticator", true, func(q *pkt) { q.Auth[r.Intn(16)] ^= 1 << r.Intn(8) })
	}

	// address header: covered or not depending on the SPI kind
	inclIA := spiKind == 0
	inclDst := spiKind == 0 || spiKind == 2
	inclSrc := spiKind == 0 || spiKind == 1
	add("dst-ia", !inclIA, func(q *pkt) { q.DstIA ^= 1 << r.Intn(64) })
	add("src-ia", !inclIA, func(q *pkt) { q.SrcIA ^= 1 << r.Intn(64) })
	add("dst-host", !inclDst, func(q *pkt) { q.DstHost[r.Intn(len(q.DstHost))] ^= 1 << r.Intn(8) })
	add("src-host", !inclSrc, func(q *pkt) { q.SrcHost[r.Intn(len(q.SrcHost))] ^= 1 << r.Intn(8) })

	// authenticator option and upper layer
	add("spi-same-kind", true, func(q *pkt) {
		for {
			if s := genSPI(r, spiKind); s != q.SPI {
				q.SPI = s
				return
			}
		}
	})
	add("algorithm", false, func(q *pkt) { q.Alg = other8(r, q.Alg) })
	add("timestamp", false, func(q *pkt) { q.TS ^= 1 << r.Intn(48) })
	add("upper-layer-type", false, func(q *pkt) {
		for {
			if v := genL4(r); v != q.L4 {
				q.L4 = v
				return
			}
		}
	})
	if len(p.Pld) > 0 {
		add("payload-byte", false, func(q *pkt) { q.Pld[r.Intn(len(q.Pld))] ^= 1 << r.Intn(8) })
		add("payload-truncated", false, func(q *pkt) { q.Pld = q.Pld[:len(q.Pld)-1] })
	}
	add("payload-extended", false, func(q *pkt) { q.Pld = append(q.Pld, byte(r.U64())) })

	// path
	d := &p.Path
	scionLike := d.Kind == kScion || d.Kind == kEpic
	if scionLike {
		ni, nh := len(d.Infos), len(d.Hops)
		add("curr-inf", true, func(q *pkt) { q.Path.M.CurrINF = (q.Path.M.CurrINF + uint8(r.Range(1, 3))) & 3 })
		add("curr-hf", true, func(q *pkt) { q.Path.M.CurrHF = (q.Path.M.CurrHF + uint8(r.Range(1, 63))) & 63 })
		add("path-meta-rsv", true, func(q *pkt) { q.Path.M.Rsv = (q.Path.M.Rsv + uint8(r.Range(1, 63))) & 63 })
		add("seg-id", true, func(q *pkt) { q.Path.Infos[r.Intn(ni)].SegID ^= 1 << r.Intn(16) })
		add("router-alert", true, func(q *pkt) {
			h := &q.Path.Hops[r.Intn(nh)]
			if r.Bool() {
				h.IAlert = !h.IAlert
			} else {
				h.EAlert = !h.EAlert
			}
		})
		add("hop-flags-rsv", true, func(q *pkt) {
			h := &q.Path.Hops[r.Intn(nh)]
			h.Rsv = (h.Rsv + uint8(r.Range(1, 63))) & 63
		})
		add("info-timestamp", false, func(q *pkt) { q.Path.Infos[r.Intn(ni)].TS ^= 1 << r.Intn(32) })
		add("info-peer", false, func(q *pkt) { i := &q.Path.Infos[r.Intn(ni)]; i.Peer = !i.Peer })
		add("info-consdir", false, func(q *pkt) { i := &q.Path.Infos[r.Intn(ni)]; i.ConsDir = !i.ConsDir })
		add("info-rsv", false, func(q *pkt) {
			i := &q.Path.Infos[r.Intn(ni)]
			if r.Bool() {
				i.Rsv = (i.Rsv + uint8(r.Range(1, 63))) & 63
			} else {
				i.Rsv1 = other8(r, i.Rsv1)
			}
		})
		add("hop-exptime", false, func(q *pkt) { h := &q.Path.Hops[r.Intn(nh)]; h.Exp = other8(r, h.Exp) })
		add("hop-ingress", false, func(q *pkt) { q.Path.Hops[r.Intn(nh)].In ^= 1 << r.Intn(16) })
		add("hop-egress", false, func(q *pkt) { q.Path.Hops[r.Intn(nh)].Eg ^= 1 << r.Intn(16) })
		add("hop-mac", false, func(q *pkt) { q.Path.Hops[r.Intn(nh)].Mac[r.Intn(6)] ^= 1 << r.Intn(8) })
		if ni >= 2 && nh > ni {
			// move one hop field from one segment to a neighbouring one: only SegLen changes
			add("seg-len", false, func(q *pkt) {
				s := &q.Path.M.Seg
				for {
					a := r.Intn(ni)
					b := (a + 1) % ni
					if r.Bool() {
						a, b = b, a
					}
					if s[a] >= 2 && s[b] < 63 {
						s[a]--
						s[b]++
						return
					}
				}
			})
		}
		if nh < 60 {
			add("hop-appended", false, func(q *pkt) {
				q.Path.M.Seg[ni-1]++
				q.Path.Hops = append(q.Path.Hops, genHop(r))
			})
		}
		if d.Kind == kEpic {
			add("epic-pktid", false, func(q *pkt) {
				if r.Bool() {
					q.Path.EpTS ^= 1 << r.Intn(32)
				} else {
					q.Path.EpCtr ^= 1 << r.Intn(32)
				}
			})
			add("epic-phvf", false, func(q *pkt) { q.Path.PHVF[r.Intn(4)] ^= 1 << r.Intn(8) })
			add("epic-lhvf", false, func(q *pkt) { q.Path.LHVF[r.Intn(4)] ^= 1 << r.Intn(8) })
		}
	}
	if d.Kind == kOneHop {
		add("seg-id", true, func(q *pkt) { q.Path.OHInfo.SegID ^= 1 << r.Intn(16) })
		add("router-alert", true, func(q *pkt) {
			if r.Bool() {
				q.Path.H1.IAlert = !q.Path.H1.IAlert
			} else {
				q.Path.H1.EAlert = !q.Path.H1.EAlert
			}
		})
		add("onehop-second-hop", true, func(q *pkt) { q.Path.H2 = genHop(r) })
		add("info-timestamp", false, func(q *pkt) { q.Path.OHInfo.TS ^= 1 << r.Intn(32) })
		add("info-peer", false, func(q *pkt) { q.Path.OHInfo.Peer = !q.Path.OHInfo.Peer })
		add("info-consdir", false, func(q *pkt) { q.Path.OHInfo.ConsDir = !q.Path.OHInfo.ConsDir })
		add("hop-exptime", false, func(q *pkt) { q.Path.H1.Exp = other8(r, q.Path.H1.Exp) })
		add("hop-ingress", false, func(q *pkt) { q.Path.H1.In ^= 1 << r.Intn(16) })
		add("hop-egress", false, func(q *pkt) { q.Path.H1.Eg ^= 1 << r.Intn(16) })
		add("hop-mac", false, func(q *pkt) { q.Path.H1.Mac[r.Intn(6)] ^= 1 << r.Intn(8) })
	}

	return out
}

// ---------------------------------------------------------------- main

func hexs(b []byte) string { return fmt.Sprintf("%x", b) }

func main() {
	run := vgen.Flags("C21")
	run.Imports = []string{"Model.Spao"}
	run.CheckFn = "Spao.check"
	run.DiagFn = "Spao.diag"
	run.CaseType = "Spao.case"
	run.ShardSize = 110
	run.Rule = "case = (base packet, variant) under one SPI; bases: random packets of the 4 path types x 5 SPI " +
		"kinds, built as structs (scion.Decoded / scion.Raw, sender side) or as hand-written wire bytes with " +
		"HBH/E2E extension headers decoded by slayers (receiver side); variants: one change per field named by " +
		"the property (mutable/excluded and covered), plus combined changes, independent packets, boundary " +
		"header lengths and error cases. non-trivial = both packets were serialized and tagged by the " +
		"implementation, i.e. the equal/different decision was reached"
	rnd := vgen.NewRand(run.Seed)
	nBase := run.Count(20, 400)
	key := []byte{0, 1, 2, 3, 4, 5, 6, 7, 8, 9, 10, 11, 12, 13, 14, 15}

	// Base packets shared by many cases are defined once per shard (in the prelude) and
	// referred to by name: coqc spends most of its time elaborating the case terms.
	baseName := map[*pkt]string{}
	var prelude strings.Builder
	prelude.WriteString("From Coq Require Import Strings.Byte.\n")
	sharing := nBase <= 40 // every shard carries the whole prelude
	shareBase := sharing

	emit := func(kind, name string, p, q *pkt, wire, decoded bool, mutable bool) {
		// scion.Decoded cannot carry the reserved info bits; macInputStruct falls back to
		// scion.Raw when they are set, so the model always sees what the path object holds
		rawRsv := true
		o1 := observe(p, wire, decoded, key)
		o2 := observe(q, wire, decoded, key)
		desc := map[string]any{"field": name, "mode": kind, "spi": p.SPI, "spi2": q.SPI,
			"spec_says_unchanged": mutable, "tc": []uint8{p.TC, q.TC},
			"impl_input": []string{hexs(o1.Hdr), hexs(o2.Hdr)}, "impl_tag": []string{hexs(o1.Tag), hexs(o2.Tag)}}
		if wire {
			desc["wire"] = []string{hexs(p.wire()), hexs(q.wire())}
		}
		var tags []string
		if (p.TC^q.TC)&0xc3 != 0 {
			tags = append(tags, "tc-mask")
		}
		if o1.Err != "" || o2.Err != "" {
			id := run.Add(kind, "Spao.CPair 0 0 "+gPkt(p, rawRsv)+" "+gPkt(q, rawRsv)+" None None false false",
				name, false, desc, tags...)
			if strings.HasPrefix(o1.Err, "panic") || strings.HasPrefix(o2.Err, "panic") {
				run.Violate(id, "pkg/spao panicked: "+o1.Err+" "+o2.Err, desc)
			} else {
				run.Violate(id, "harness could not build the packet: "+o1.Err+" "+o2.Err, desc, "harness-error")
			}
			return
		}
		pTerm, rTerm := gPkt(p, rawRsv), vgen.Opt(gBytes(o1.Hdr), o1.OK)
		if shareBase {
			n, ok := baseName[p]
			if !ok {
				n = fmt.Sprintf("b%d", len(baseName))
				baseName[p] = n
				fmt.Fprintf(&prelude, "Definition %s : Spao.pkt := %s.\nDefinition r%s : option (list N) := %s.\n",
					n, pTerm, n, rTerm)
			}
			pTerm, rTerm = n, "r"+n
		}
		term := vgen.App("Spao.CPair", gN(uint64(p.SPI)), gN(uint64(q.SPI)), pTerm, gPkt(q, rawRsv),
			rTerm, vgen.Opt(gBytes(o2.Hdr), o2.OK),
			vgen.B(o1.TagOK && o2.TagOK), vgen.B(o1.Tag != nil && bytes.Equal(o1.Tag, o2.Tag)))
		nontrivial := o1.OK && o2.OK
		run.Add(kind, term, fmt.Sprint(p.SPI, q.SPI)+gPkt(p, rawRsv)+gPkt(q, rawRsv), nontrivial, desc, tags...)
		run.Tally("field:" + name)
		if !nontrivial {
			run.Tally("result:error")
		} else if bytes.Equal(o1.Tag, o2.Tag) {
			run.Tally("result:tags-equal")
		} else {
			run.Tally("result:tags-differ")
		}
	}

	for b := 0; b < nBase; b++ {
		r := rnd.Fork(uint64(b))
		kind := b % 4
		spiKind := (b / 4) % 5
		wire := r.Chance(1, 2)
		decoded := r.Bool()
		big := r.Chance(1, 12)
		p := genPkt(r, kind, spiKind, wire, big)
		mode := "struct"
		if wire {
			mode = "wire"
		}
		run.Tally("path:" + []string{"empty", "scion", "onehop", "epic"}[kind])
		run.Tally("spi:" + spiKinds[spiKind])
		run.Tally("mode:" + mode)
		run.Tally(fmt.Sprintf("hops:%d", len(p.Path.Hops)))
		vs := variants(r, p, spiKind, wire)
		for _, v := range vs {
			emit(mode, v.name, p, v.q, wire, decoded, v.mutable)
		}
		// combined changes: a few mutable ones together; the same plus one covered change
		pick := func(want bool, n int) []variant {
			var c []variant
			for _, v := range vs[1:] {
				if v.mutable == want && !strings.HasPrefix(v.name, "tc-") {
					c = append(c, v)
				}
			}
			vgen.Shuffle(r, c)
			if len(c) > n {
				c = c[:n]
			}
			return c
		}
		// re-apply the chosen variants' differences onto one clone field by field
		combine := func(vsel []variant) *pkt {
			q := p.clone()
			for _, v := range vsel {
				mergeDiff(p, v.q, q)
			}
			if wire {
				q.wire()
			}
			return q
		}
		mut := pick(true, 4)
		emit(mode, "combined-mutable", p, combine(mut), wire, decoded, true)
		cov := pick(false, 1)
		emit(mode, "combined-mutable+covered", p, combine(append(mut, cov...)), wire, decoded, false)
		// an independent packet of the same shape
		q := genPkt(r, kind, spiKind, wire, big)
		q.SPI = p.SPI
		emit(mode, "independent", p, q, wire, decoded, false)
	}

	// boundary and error cases (struct mode, hand-built scion.Decoded): header length
	// exactly 1020, just above, and a PHVF of the wrong length
	for i, c := range []struct {
		hops   [3]uint8
		dt, st uint8
	}{{[3]uint8{27, 26, 26}, 0, 2}, {[3]uint8{26, 26, 26}, 2, 3}, {[3]uint8{27, 27, 26}, 0, 0},
		{[3]uint8{63, 63, 63}, 3, 3}, {[3]uint8{63, 10, 0}, 1, 1}} {
		quick := run.Tier != "thorough"
		if quick && i != 0 && i != 2 {
			continue
		}
		shareBase = false // ~1000-byte paths: not worth carrying in every shard
		r := rnd.Fork(uint64(1000000 + i))
		p := genPkt(r, kScion, i%5, false, false)
		p.DT, p.ST = c.dt, c.st
		p.DstHost, p.SrcHost = r.Bytes(addrLen(c.dt)), r.Bytes(addrLen(c.st))
		p.Path.fillScion(r, c.hops, false)
		p.Path.ForceDecoded = true
		if !quick || i == 0 {
			q := p.clone()
			q.Path.Hops[len(q.Path.Hops)-1].Mac[5] ^= 1
			emit("boundary", "hop-mac", p, q, false, true, false)
		}
		if !quick || i == 2 {
			q := p.clone()
			q.Path.M.CurrHF = (q.Path.M.CurrHF + 1) & 63
			emit("boundary", "curr-hf", p, q, false, true, true)
		}
		shareBase = sharing
	}
	for i := 0; i < 4; i++ {
		r := rnd.Fork(uint64(2000000 + i))
		p := genPkt(r, kEpic, i%5, false, false)
		q := p.clone()
		if i%2 == 0 {
			q.Path.PHVF = r.Bytes(vgen.Pick(r, 0, 3, 5))
		} else {
			q.Path.LHVF = r.Bytes(vgen.Pick(r, 0, 3, 5))
		}
		emit("malformed", "epic-hvf-length", p, q, false, false, false)
	}
	// malformed: host address slices whose length disagrees with the address type
	for i := 0; i < run.Count(12, 120); i++ {
		r := rnd.Fork(uint64(3000000 + i))
		p := genPkt(r, i%4, (i/4)%5, false, false)
		q := p.clone()
		if r.Bool() {
			q.DstHost = r.Bytes(vgen.Pick(r, 0, 3, 5, 20))
		} else {
			q.SrcHost = r.Bytes(vgen.Pick(r, 0, 3, 5, 20))
		}
		emit("malformed", "host-length-mismatch", p, q, false, r.Bool(), false)
	}
	run.Prelude = prelude.String()
	run.Finish()
}

// mergeDiff copies onto dst every field in which v differs from base.
func mergeDiff(base, v, dst *pkt) {
	if v.Version != base.Version {
		dst.Version = v.Version
	}
	if v.Flow != base.Flow {
		dst.Flow = v.Flow
	}
	if v.NextHdr != base.NextHdr {
		dst.NextHdr = v.NextHdr
	}
	if v.HdrLen != base.HdrLen {
		dst.HdrLen = v.HdrLen
	}
	if v.PayLen != base.PayLen {
		dst.PayLen = v.PayLen
	}
	if v.PathType != base.PathType {
		dst.PathType = v.PathType
	}
	if v.DT != base.DT || v.ST != base.ST {
		dst.DT, dst.ST = v.DT, v.ST
		dst.DstHost = append([]byte(nil), v.DstHost...)
		dst.SrcHost = append([]byte(nil), v.SrcHost...)
	}
	if v.DstIA != base.DstIA {
		dst.DstIA = v.DstIA
	}
	if v.SrcIA != base.SrcIA {
		dst.SrcIA = v.SrcIA
	}
	if !bytes.Equal(v.DstHost, base.DstHost) && len(v.DstHost) == len(dst.DstHost) {
		dst.DstHost = append([]byte(nil), v.DstHost...)
	}
	if !bytes.Equal(v.SrcHost, base.SrcHost) && len(v.SrcHost) == len(dst.SrcHost) {
		dst.SrcHost = append([]byte(nil), v.SrcHost...)
	}
	if !bytes.Equal(v.HBH, base.HBH) {
		dst.HBH = append([]byte(nil), v.HBH...)
	}
	if !bytes.Equal(v.E2EPre, base.E2EPre) {
		dst.E2EPre = append([]byte(nil), v.E2EPre...)
	}
	if !bytes.Equal(v.E2EPost, base.E2EPost) {
		dst.E2EPost = append([]byte(nil), v.E2EPost...)
	}
	if v.SpaoRsv != base.SpaoRsv {
		dst.SpaoRsv = v.SpaoRsv
	}
	if !bytes.Equal(v.Auth, base.Auth) {
		dst.Auth = append([]byte(nil), v.Auth...)
	}
	if v.SPI != base.SPI {
		dst.SPI = v.SPI
	}
	if v.Alg != base.Alg {
		dst.Alg = v.Alg
	}
	if v.TS != base.TS {
		dst.TS = v.TS
	}
	if v.L4 != base.L4 {
		dst.L4 = v.L4
	}
	if !bytes.Equal(v.Pld, base.Pld) {
		dst.Pld = append([]byte(nil), v.Pld...)
	}
	// path: only same-shape changes are merged
	bp, vp, dp := &base.Path, &v.Path, &dst.Path
	if len(vp.Hops) != len(bp.Hops) || vp.M.Seg != bp.M.Seg || len(dp.Hops) != len(bp.Hops) {
		return
	}
	if vp.M.CurrINF != bp.M.CurrINF {
		dp.M.CurrINF = vp.M.CurrINF
	}
	if vp.M.CurrHF != bp.M.CurrHF {
		dp.M.CurrHF = vp.M.CurrHF
	}
	if vp.M.Rsv != bp.M.Rsv {
		dp.M.Rsv = vp.M.Rsv
	}
	for i := range vp.Infos {
		if vp.Infos[i] != bp.Infos[i] {
			dp.Infos[i] = vp.Infos[i]
		}
	}
	for i := range vp.Hops {
		if vp.Hops[i] != bp.Hops[i] {
			dp.Hops[i] = vp.Hops[i]
		}
	}
	if vp.OHInfo != bp.OHInfo {
		dp.OHInfo = vp.OHInfo
	}
	if vp.H1 != bp.H1 {
		dp.H1 = vp.H1
	}
	if vp.H2 != bp.H2 {
		dp.H2 = vp.H2
	}
	if vp.EpTS != bp.EpTS {
		dp.EpTS = vp.EpTS
	}
	if vp.EpCtr != bp.EpCtr {
		dp.EpCtr = vp.EpCtr
	}
	if !bytes.Equal(vp.PHVF, bp.PHVF) {
		dp.PHVF = append([]byte(nil), vp.PHVF...)
	}
	if !bytes.Equal(vp.LHVF, bp.LHVF) {
		dp.LHVF = append([]byte(nil), vp.LHVF...)
	}
}
