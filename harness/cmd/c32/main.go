// Runner for C32: SignedTRC.Verify / TRC.ValidateUpdate of the real
// pkg/scrypto/cppki code on predecessor/successor pairs compiled from abstract
// descriptions (real x509 certificates, real DER payloads, real CMS signer
// infos with ECDSA P-256 signatures) against Model/PKI.v.
package main

import (
	"bytes"
	"crypto/x509"
	"encoding/asn1"
	"errors"
	"fmt"
	"sort"
	"strings"

	"github.com/scionproto/scion/pkg/scrypto/cms/protocol"
	"github.com/scionproto/scion/pkg/scrypto/cppki"
	"verifharness/internal/trcgen"
	"verifharness/internal/vgen"
)

type (
	Cert = trcgen.Cert
	TRC  = trcgen.TRC
	SI   = trcgen.SI
)

var sentinels = []struct {
	err  error
	code int
}{
	{cppki.ErrInvalidTRCVersion, 1}, {cppki.ErrInvalidID, 2}, {cppki.ErrInvalidValidityPeriod, 3},
	{cppki.ErrGracePeriodNonZero, 4}, {cppki.ErrVotesOnBaseTRC, 5}, {cppki.ErrInvalidQuorumSize, 6},
	{cppki.ErrNoASes, 7}, {cppki.ErrWildcardAS, 8}, {cppki.ErrDuplicateAS, 9},
	{cppki.ErrUnclassifiedCertificate, 10}, {cppki.ErrInvalidCertType, 11},
	{cppki.ErrNotEnoughVoters, 12}, {cppki.ErrCertForOtherISD, 14},
	{cppki.ErrTRCValidityNotCovered, 15}, {cppki.ErrDuplicate, 16},
}

func validateCode(err error) int {
	for _, s := range sentinels {
		if errors.Is(err, s.err) {
			return s.code
		}
	}
	return 0
}

// message classes of ValidateUpdate (0 = not recognised: compared coarsely only)
var updateMsgs = []struct {
	sub  string
	code int
}{
	{"predecessor must not be nil", 1}, {"ISD mismatch", 2}, {"base number mismatch", 3},
	{"serial number not an increment", 4}, {"noTrustReset changed", 5},
	{"number of votes smaller than quorum", 6}, {"classifying certificates in predecessor", 7},
	{"vote by non-sensitive voter", 8},
	{"quorum changed", 21}, {"core ASes changed", 22}, {"authoritative ASes changed", 23},
	{"number of sensitive voting certificates changed", 24},
	{"modified sensitive voting certificate", 25}, {"new sensitive voting certificate", 25},
	{"number of root certificates changed", 26}, {"new root certificate", 27},
	{"number of regular voting certificates changed", 28}, {"new regular voting certificate", 29},
	{"vote by non-regular voter", 30}, {"missing votes by modified regular", 31},
}

func updateCode(err error) int {
	msg := err.Error()
	for _, m := range updateMsgs {
		if strings.Contains(msg, m.sub) {
			return m.code
		}
	}
	return 0
}

func sigCode(err error) int {
	msg := err.Error()
	stage := 0
	switch {
	case strings.Contains(msg, "new voters"):
		stage = 1
	case strings.Contains(msg, "root acknowledgments"):
		stage = 2
	case strings.Contains(msg, "verifying votes"):
		stage = 3
	}
	kind := 0
	switch {
	case errors.Is(err, protocol.ErrUnsupported):
		kind = 1
	case strings.Contains(msg, "message digest does not match"):
		kind = 2
	case strings.Contains(msg, "missing signatures"):
		kind = 4
	case strings.Contains(msg, "verification failure") || strings.Contains(msg, "x509:"):
		kind = 3
	}
	if stage == 0 || kind == 0 {
		return 0
	}
	return 10*stage + kind
}

// ---------------------------------------------------------------- scenarios

type scenario struct {
	pred  *TRC
	succ  TRC
	sis   []SI
	plan  string
	muts  []string
	ptags []string
}

func classOf(c Cert) int {
	if len(c.EKUs) > 0 {
		return c.EKUs[0]
	}
	return 0
}

func idxOf(t TRC, kind int) []int {
	var out []int
	for i, c := range t.Certs {
		if classOf(c) == kind {
			out = append(out, i)
		}
	}
	return out
}

func same(a, b Cert) bool {
	a.Raw, b.Raw = 0, 0
	return fmt.Sprintf("%+v", a) == fmt.Sprintf("%+v", b)
}

// rekey: same subject, new key and serial (a replaced certificate).
func rekey(c Cert) Cert {
	c.Key += 200
	c.Serial += 1
	c.SKID = c.Key
	if c.AKID != 0 {
		c.AKID = c.SKID
	}
	return c
}

func signerFor(c Cert) SI {
	return SI{Kind: 1, Issuer: c.Issuer, Serial: c.Serial, DigestOK: true, Key: c.Key}
}

func subset(r *vgen.Rand, xs []int, atLeast int) []int {
	ys := append([]int{}, xs...)
	vgen.Shuffle(r, ys)
	n := atLeast
	if n > len(ys) {
		n = len(ys)
	}
	if n < len(ys) {
		n += r.Intn(len(ys) - n + 1)
	}
	return ys[:n]
}

func contains(xs []int, x int) bool {
	for _, y := range xs {
		if x == y {
			return true
		}
	}
	return false
}

// requiredSigners computes, on the abstract level, who has to sign succ as an
// update of pred: voters, new voters, and (regular) replaced roots.
func requiredSigners(p, s TRC, regular bool) []SI {
	var out []SI
	for _, v := range s.Votes {
		if v >= 0 && int(v) < len(p.Certs) {
			out = append(out, signerFor(p.Certs[v]))
		}
	}
	for _, c := range s.Certs {
		k := classOf(c)
		if k != 1 && k != 2 {
			continue
		}
		unchanged := false
		for _, q := range p.Certs {
			if classOf(q) == k && q.Subject == c.Subject {
				unchanged = same(q, c)
				break
			}
		}
		if !unchanged {
			out = append(out, signerFor(c))
		}
	}
	if regular {
		for _, c := range s.Certs {
			if classOf(c) != 3 {
				continue
			}
			for _, q := range p.Certs {
				if classOf(q) == 3 && q.Subject == c.Subject {
					if !same(q, c) {
						out = append(out, signerFor(q))
					}
					break
				}
			}
		}
	}
	return out
}

func newVoter(kind int, isd uint64, id int, t TRC) Cert {
	n := trcgen.Name{ID: id, IA: trcgen.IA{Kind: 2, ISD: isd, AS: 0x100 + uint64(id%7)}}
	if kind == 3 {
		return trcgen.RootCert(n, int64(1000+id), id, t.NB-5, t.NA+5)
	}
	return trcgen.Voter(kind, n, int64(1000+id), id, t.NB-5, t.NA+5)
}

func removeAt(cs []Cert, i int) []Cert {
	out := append([]Cert{}, cs[:i]...)
	return append(out, cs[i+1:]...)
}

// genUpdate draws a predecessor and a well-formed, completely signed update.
func genUpdate(r *vgen.Rand) *scenario {
	isd := uint64(r.Range(1, 3))
	if r.Chance(1, 8) {
		isd = vgen.Pick(r, uint64(trcgen.MaxISD-1), trcgen.MaxISD) // upper boundary of the ISD range
	}
	sh := trcgen.Shape{Sens: r.Range(1, 3), Reg: r.Range(1, 3), Root: r.Range(1, 2)}
	p := trcgen.GenTRC(r, isd, r.Bool(), sh, 0)
	if r.Chance(1, 12) {
		// serial numbers at the upper end of what the payload encoding can carry
		d := p.Serial - p.Base
		p.Base = 1<<63 - 2 - d - uint64(r.Intn(2))
		p.Serial = p.Base + d
	}
	s := trcgen.CloneTRC(p)
	s.Serial = p.Serial + 1
	s.Grace = int64(r.Intn(3)) * 600
	s.Votes = nil
	sc := &scenario{pred: &p}
	sens, reg, root := idxOf(p, 1), idxOf(p, 2), idxOf(p, 3)
	regular := r.Bool()
	if regular {
		sc.plan = "regular"
		var must []int
		for _, i := range reg {
			if r.Chance(1, 3) {
				s.Certs[i] = rekey(p.Certs[i])
				must = append(must, i)
				sc.plan += "+rekey-regular"
			}
		}
		for _, i := range root {
			if r.Chance(1, 3) {
				s.Certs[i] = rekey(p.Certs[i])
				sc.plan += "+rekey-root"
			}
		}
		votes := append([]int{}, must...)
		for _, i := range subset(r, reg, int(p.Quorum)) {
			if !contains(votes, i) {
				votes = append(votes, i)
			}
		}
		vgen.Shuffle(r, votes)
		for _, v := range votes {
			s.Votes = append(s.Votes, int64(v))
		}
	} else {
		sc.plan = "sensitive"
		for _, v := range subset(r, sens, int(p.Quorum)) {
			s.Votes = append(s.Votes, int64(v))
		}
		n := r.Intn(4)
		for j := 0; j < n; j++ {
			switch r.Intn(9) {
			case 0:
				if s.Quorum > 1 {
					s.Quorum--
					sc.plan += "+quorum"
				}
			case 1:
				s.Core = append(s.Core, 0x150+uint64(j))
				sc.plan += "+core"
			case 2:
				s.Auth = append(s.Auth, 0x160+uint64(j))
				sc.plan += "+auth"
			case 3:
				i := sens[r.Intn(len(sens))]
				if i < len(s.Certs) && same(s.Certs[i], p.Certs[i]) {
					s.Certs[i] = rekey(p.Certs[i])
					sc.plan += "+rekey-sensitive"
				}
			case 4:
				s.Certs = append(s.Certs, newVoter(vgen.Pick(r, 1, 2, 3), isd, 30+j, s))
				sc.plan += "+add"
			case 5:
				i := reg[r.Intn(len(reg))]
				if i < len(s.Certs) && same(s.Certs[i], p.Certs[i]) {
					s.Certs[i] = rekey(p.Certs[i])
					sc.plan += "+rekey-regular"
				}
			case 6:
				if len(idxOf(s, 3)) > 1 {
					s.Certs = removeAt(s.Certs, idxOf(s, 3)[0])
					sc.plan += "+remove-root"
				}
			case 7:
				if k := idxOf(s, 2); int64(len(k)) > s.Quorum {
					s.Certs = removeAt(s.Certs, k[len(k)-1])
					sc.plan += "+remove-regular"
				}
			case 8:
				i := root[r.Intn(len(root))]
				if i < len(s.Certs) && same(s.Certs[i], p.Certs[i]) {
					s.Certs[i] = rekey(p.Certs[i])
					sc.plan += "+rekey-root"
				}
			}
		}
	}
	if r.Chance(1, 3) {
		vgen.Shuffle(r, s.Certs)
		sc.plan += "+reordered"
	}
	sc.succ = s
	sc.sis = requiredSigners(p, s, regular)
	vgen.Shuffle(r, sc.sis)
	return sc
}

func genBase(r *vgen.Rand) *scenario {
	t := trcgen.GenTRC(r, uint64(r.Range(1, 3)), true, trcgen.RandShape(r), 0)
	sc := &scenario{succ: t, plan: "base"}
	for _, c := range t.Certs {
		if k := classOf(c); k == 1 || k == 2 {
			sc.sis = append(sc.sis, signerFor(c))
		}
	}
	vgen.Shuffle(r, sc.sis)
	return sc
}

const numMutations = 40

func otherClassIndex(r *vgen.Rand, p TRC, notKind int) (int64, bool) {
	var idx []int
	for i, c := range p.Certs {
		if classOf(c) != notKind {
			idx = append(idx, i)
		}
	}
	if len(idx) == 0 {
		return 0, false
	}
	return int64(idx[r.Intn(len(idx))]), true
}

func voteKind(sc *scenario) int {
	if sc.pred == nil || len(sc.succ.Votes) == 0 {
		return 1
	}
	v := sc.succ.Votes[0]
	if v < 0 || int(v) >= len(sc.pred.Certs) {
		return 1
	}
	return classOf(sc.pred.Certs[v])
}

// mutate applies mutation k to the scenario (signer infos are not recomputed).
func mutate(r *vgen.Rand, sc *scenario, k int) string {
	s := &sc.succ
	p := sc.pred
	pickSI := func() int {
		if len(sc.sis) == 0 {
			return -1
		}
		return r.Intn(len(sc.sis))
	}
	switch k {
	case 0:
		if s.ISD >= trcgen.MaxISD {
			s.ISD--
		} else {
			s.ISD++
		}
		for i := range s.Certs {
			c := &s.Certs[i]
			self := c.Subject == c.Issuer
			if c.Subject.IA.Kind == 2 {
				c.Subject.IA.ISD = s.ISD
			}
			if self {
				c.Issuer = c.Subject
			} else if c.Issuer.IA.Kind == 2 {
				c.Issuer.IA.ISD = s.ISD
			}
		}
		return "isd"
	case 1:
		s.Base++
		return "base"
	case 2:
		s.Serial += uint64(r.Range(1, 2))
		return "serial-skips"
	case 3:
		if s.Serial > s.Base+uint64(r.Intn(2)) {
			s.Serial--
		}
		return "serial-not-incremented"
	case 4:
		s.NoTrustReset = !s.NoTrustReset
		return "no-trust-reset"
	case 5:
		if p != nil && int(p.Quorum) <= len(s.Votes) && p.Quorum >= 1 {
			s.Votes = s.Votes[:p.Quorum-1]
		}
		return "votes-below-quorum"
	case 6:
		if len(s.Votes) > 0 {
			s.Votes = append(s.Votes, s.Votes[r.Intn(len(s.Votes))])
			vgen.Shuffle(r, s.Votes)
		}
		return "vote-duplicated"
	case 7:
		if p != nil && len(s.Votes) > 0 {
			if v, ok := otherClassIndex(r, *p, voteKind(sc)); ok {
				s.Votes[r.Intn(len(s.Votes))] = v
			}
		}
		return "vote-of-other-class"
	case 8:
		if p != nil && len(s.Votes) > 0 {
			if v, ok := otherClassIndex(r, *p, voteKind(sc)); ok {
				s.Votes[0] = v
			}
		}
		return "first-vote-of-other-class"
	case 9:
		n := int64(0)
		if p != nil {
			n = int64(len(p.Certs))
		}
		v := vgen.Pick(r, n, -1, 1000, n+1)
		s.Votes = append(s.Votes, v)
		if r.Bool() && len(s.Votes) > 1 {
			s.Votes[0], s.Votes[len(s.Votes)-1] = s.Votes[len(s.Votes)-1], s.Votes[0]
		}
		return "vote-out-of-range"
	case 10:
		s.Votes = nil
		return "no-votes"
	case 11:
		if i := pickSI(); i >= 0 {
			sc.sis = append(append([]SI{}, sc.sis[:i]...), sc.sis[i+1:]...)
		}
		return "signature-dropped"
	case 12:
		sc.sis = nil
		return "no-signatures"
	case 13:
		if i := pickSI(); i >= 0 {
			sc.sis[i].Key = 0
		}
		return "signature-corrupted"
	case 14:
		if i := pickSI(); i >= 0 {
			sc.sis[i].Key += vgen.Pick(r, 1, 200, 333)
		}
		return "signed-with-other-key"
	case 15:
		if i := pickSI(); i >= 0 {
			sc.sis[i].DigestOK = false
		}
		return "digest-of-other-payload"
	case 16:
		bad := SI{Kind: vgen.Pick(r, 0, 2, 4), Issuer: trcgen.Name{ID: 700}, Serial: 1, DigestOK: true, Key: 700}
		if i := pickSI(); i >= 0 && r.Bool() {
			bad = sc.sis[i]
			bad.Kind = vgen.Pick(r, 0, 2, 4)
		}
		sc.sis = append(sc.sis, bad)
		vgen.Shuffle(r, sc.sis)
		return "signer-info-unsupported-version"
	case 17:
		sc.sis = append(sc.sis, SI{Kind: 1, Issuer: trcgen.Name{ID: 701 + r.Intn(3)}, Serial: 9,
			DigestOK: r.Bool(), Key: vgen.Pick(r, 0, 702)})
		vgen.Shuffle(r, sc.sis)
		return "ok-unrelated-signer"
	case 18:
		if i := pickSI(); i >= 0 {
			sc.sis[i].Kind = 3
			sc.sis[i].SKI = sc.sis[i].Key // generated certificates use the key id as subject key id
		}
		return "signer-by-key-id"
	case 19:
		if i := pickSI(); i >= 0 {
			sc.sis[i].Kind = 3
			sc.sis[i].SKI = 1000 + sc.sis[i].Key
		}
		return "signer-by-bare-key-id"
	case 20:
		if i := pickSI(); i >= 0 {
			sc.sis = append(sc.sis, sc.sis[i])
			vgen.Shuffle(r, sc.sis)
		}
		return "ok-signature-twice"
	case 21:
		if i := pickSI(); i >= 0 {
			x := sc.sis[i]
			x.Key = vgen.Pick(r, 0, x.Key+1)
			sc.sis = append(sc.sis, x)
			vgen.Shuffle(r, sc.sis)
		}
		return "second-invalid-signature"
	case 22:
		if s.Quorum > 1 && r.Bool() {
			s.Quorum--
		} else if int(s.Quorum) < len(idxOf(*s, 1)) && int(s.Quorum) < len(idxOf(*s, 2)) {
			s.Quorum++
		}
		return "quorum-changed"
	case 23:
		if len(s.Core) > 1 && r.Bool() {
			s.Core[0], s.Core[1] = s.Core[1], s.Core[0]
		} else {
			s.Core = append(s.Core, 0x170)
		}
		return "core-changed"
	case 24:
		if len(s.Auth) > 1 && r.Bool() {
			s.Auth = s.Auth[1:]
		} else {
			s.Auth = append(s.Auth, 0x171)
		}
		return "auth-changed"
	case 25:
		c := newVoter(1, s.ISD, 40, *s)
		s.Certs = append(s.Certs, c)
		sc.sis = append(sc.sis, signerFor(c))
		return "sensitive-added"
	case 26:
		if k := idxOf(*s, 1); len(k) > 0 {
			i := k[r.Intn(len(k))]
			s.Certs[i] = rekey(s.Certs[i])
			sc.sis = append(sc.sis, signerFor(s.Certs[i]))
		}
		return "sensitive-rekeyed"
	case 27:
		if k := idxOf(*s, 3); len(k) > 1 && r.Bool() {
			s.Certs = removeAt(s.Certs, k[0])
			return "root-removed"
		}
		s.Certs = append(s.Certs, newVoter(3, s.ISD, 41, *s))
		return "root-added"
	case 28:
		if k := idxOf(*s, 3); len(k) > 0 {
			i := k[r.Intn(len(k))]
			c := s.Certs[i]
			c.Subject.ID += 60
			c.Issuer = c.Subject
			s.Certs[i] = c
		}
		return "root-renamed"
	case 29:
		if k := idxOf(*s, 2); int64(len(k)) > s.Quorum && r.Bool() {
			s.Certs = removeAt(s.Certs, k[0])
			return "regular-removed"
		}
		c := newVoter(2, s.ISD, 42, *s)
		s.Certs = append(s.Certs, c)
		sc.sis = append(sc.sis, signerFor(c))
		return "regular-added"
	case 30:
		if k := idxOf(*s, 2); len(k) > 0 {
			i := k[r.Intn(len(k))]
			c := s.Certs[i]
			c.Subject.ID += 60
			c.Issuer = c.Subject
			s.Certs[i] = c
			sc.sis = append(sc.sis, signerFor(c))
		}
		return "regular-renamed"
	case 31:
		// a regular voter is replaced without its predecessor voting
		if k := idxOf(*s, 2); len(k) > 0 {
			i := k[r.Intn(len(k))]
			old := s.Certs[i]
			s.Certs[i] = rekey(old)
			sc.sis = append(sc.sis, signerFor(s.Certs[i]))
			if p != nil && r.Bool() {
				// ... and withdraw the vote of the replaced voter if others can fill in
				for j, q := range p.Certs {
					if !same(q, old) {
						continue
					}
					for x, v := range s.Votes {
						if int(v) == j && len(s.Votes) > int(p.Quorum) {
							s.Votes = append(append([]int64{}, s.Votes[:x]...), s.Votes[x+1:]...)
							break
						}
					}
				}
			}
		}
		return "regular-rekeyed"
	case 32:
		// replacement keeps issuer and serial number of the replaced certificate
		if k := append(idxOf(*s, 2), idxOf(*s, 1)...); len(k) > 0 {
			i := k[r.Intn(len(k))]
			old := s.Certs[i]
			c := rekey(old)
			c.Serial = old.Serial
			s.Certs[i] = c
			sc.sis = append(sc.sis, signerFor(c))
		}
		return "rekeyed-same-serial"
	case 33:
		sc.pred = nil
		return "no-predecessor"
	case 34:
		var w string
		sc.succ, w = trcgen.MutateTRC(r, sc.succ, r.Intn(23))
		return "payload-" + w
	case 35:
		// same ordinary name attributes, other ISD-AS: not a replacement but a new certificate
		if k := append(idxOf(*s, 2), idxOf(*s, 3)...); len(k) > 0 {
			i := k[r.Intn(len(k))]
			c := rekey(s.Certs[i])
			c.Subject.IA = trcgen.IA{Kind: 2, ISD: s.ISD, AS: 0x140 + uint64(r.Intn(2))}
			c.Issuer = c.Subject
			s.Certs[i] = c
			sc.sis = append(sc.sis, signerFor(c))
		}
		return "same-name-other-ia"
	case 36:
		// a voting certificate changes class (same subject, other usage)
		if k := append(idxOf(*s, 2), idxOf(*s, 1)...); len(k) > 0 {
			i := k[r.Intn(len(k))]
			c := rekey(s.Certs[i])
			c.EKUs = []int{3 - classOf(c)}
			s.Certs[i] = c
			sc.sis = append(sc.sis, signerFor(c))
		}
		return "class-changed"
	case 37:
		// the predecessor is not a valid TRC (quorum 0): outside the contract of Verify
		if p != nil {
			p.Quorum = 0
			if r.Bool() {
				s.Votes = nil
			}
		}
		return "predecessor-invalid"
	case 38:
		// one required signature is missing, another one is there twice
		if len(sc.sis) >= 2 {
			i := r.Intn(len(sc.sis))
			j := (i + 1 + r.Intn(len(sc.sis)-1)) % len(sc.sis)
			sc.sis[i] = sc.sis[j]
		}
		return "signature-replaced-by-copy-of-another"
	case 39:
		// a second certificate for the distinguished name of a voter / root, encoded with the
		// other ASN.1 string type (same name, other bytes). In a regular update it takes the
		// place of ANOTHER certificate of the class: one is removed, a second key for the same
		// name is added - and the original of the copy votes and the copy signs.
		kind := vgen.Pick(r, 2, 2, 3, 1)
		k := idxOf(*s, kind)
		if len(k) == 0 {
			return "same-name-other-encoding-noop"
		}
		i := k[r.Intn(len(k))]
		orig := s.Certs[i]
		dup := trcgen.OtherEncoding(orig)
		if len(k) >= 2 && r.Chance(3, 4) {
			j := k[(indexIn(k, i)+1+r.Intn(len(k)-1))%len(k)]
			s.Certs[j] = dup
		} else {
			s.Certs = append(s.Certs, dup)
		}
		if kind != 3 {
			sc.sis = append(sc.sis, signerFor(dup))
		}
		if p != nil && kind == 2 && voteKind(sc) == 2 {
			for x, q := range p.Certs {
				if same(q, orig) && !contains64(s.Votes, int64(x)) {
					s.Votes = append(s.Votes, int64(x))
					sc.sis = append(sc.sis, signerFor(q))
				}
			}
		}
		return fmt.Sprintf("same-name-other-encoding-class-%d", kind)
	}
	return "?"
}

// ---------------------------------------------------------------- execution

type obs struct {
	skip         bool // the payload the implementation accepts cannot be decoded from its own encoding
	coarse, fine int
	upd          string // Gallina option
	updDesc      any
	errText      string
}

func rawIDs(f *trcgen.Factory, cs []*x509.Certificate, sorted bool) []uint64 {
	out := make([]uint64, len(cs))
	for i, c := range cs {
		out[i] = uint64(f.RawID(c))
	}
	if sorted {
		sort.Slice(out, func(i, j int) bool { return out[i] < out[j] })
	}
	return out
}

func execute(f *trcgen.Factory, sc *scenario) (TRC, *TRC, []SI, obs) {
	var predReal *cppki.TRC
	var predAbs *TRC
	if sc.pred != nil {
		real, abs := f.BuildTRC(*sc.pred)
		predAbs = &abs
		predReal = &real
		// a stored predecessor has been decoded from its DER form
		if raw, err := real.Encode(); err == nil {
			if dec, err := cppki.DecodeTRC(raw); err == nil {
				predReal = &dec
			}
		}
	}
	real, abs := f.BuildTRC(sc.succ)
	payload := []byte("not encodable")
	valid := real.Validate() == nil
	if valid {
		raw, err := real.Encode()
		if err != nil {
			panic(err)
		}
		payload = raw
	}
	sis := sc.sis
	signed := cppki.SignedTRC{TRC: real}
	signed.TRC.Raw = payload
	for _, s := range sc.sis {
		signed.SignerInfos = append(signed.SignerInfos, f.BuildSI(s, payload))
	}
	if valid {
		// the realistic path: DER of the signed TRC, decoded again
		der, err := signed.Encode()
		if err != nil {
			panic(err)
		}
		dec, err := cppki.DecodeSignedTRC(der)
		if err != nil {
			// a payload TRC.Validate accepts whose own encoding is not decodable: serial numbers
			// >= 2^63 wrap to a negative ASN.1 INTEGER (C33 known finding serial-beyond-int63);
			// such a successor cannot exist in decoded form, the scenario is not a C32 case
			if strings.Contains(err.Error(), "base greater than serial") ||
				strings.Contains(err.Error(), "invalid serial") || strings.Contains(err.Error(), "invalid base") {
				return TRC{}, nil, nil, obs{skip: true}
			}
			panic(err)
		}
		// DER sorts the SET OF SignerInfo: hand the model the order the implementation sees
		var ordered []SI
		for _, d := range dec.SignerInfos {
			for j, b := range signed.SignerInfos {
				if bytes.Equal(d.Signature, b.Signature) {
					ordered = append(ordered, sc.sis[j])
					break
				}
			}
		}
		if len(ordered) != len(sc.sis) {
			panic("signer infos lost in DER round trip")
		}
		sis = ordered
		signed = dec
	}
	var o obs
	var verr error
	if p, msg := vgen.Recover(func() { verr = signed.Verify(predReal) }); p {
		o.coarse, o.errText = 4, "panic: "+msg
	} else if verr == nil {
		o.coarse = 0
	} else {
		o.errText = verr.Error()
		if signed.TRC.ID.IsBase() && predReal != nil {
			o.coarse = 5 // rejected before the payload is looked at
		} else if e := signed.TRC.Validate(); e != nil {
			o.coarse, o.fine = 1, validateCode(e)
		} else if signed.TRC.ID.IsBase() {
			o.coarse, o.fine = 3, sigCode(verr)
		} else if _, e := signed.TRC.ValidateUpdate(predReal); e != nil {
			o.coarse, o.fine = 2, updateCode(e)
		} else {
			o.coarse, o.fine = 3, sigCode(verr)
		}
	}
	o.upd = "None"
	if !signed.TRC.ID.IsBase() {
		var u cppki.Update
		var uerr error
		if p, _ := vgen.Recover(func() { u, uerr = signed.TRC.ValidateUpdate(predReal) }); !p && uerr == nil {
			ty := uint64(0)
			switch u.Type {
			case cppki.SensitiveUpdate:
				ty = 1
			case cppki.RegularUpdate:
				ty = 2
			}
			nv, vo, ak := rawIDs(f, u.NewVoters, true), rawIDs(f, u.Votes, false), rawIDs(f, u.RootAcknowledgments, true)
			o.upd = fmt.Sprintf("(Some (%d, %s, %s, %s))", ty, vgen.NList(nv), vgen.NList(vo), vgen.NList(ak))
			o.updDesc = map[string]any{"type": ty, "new_voters": nv, "votes": vo, "root_acks": ak}
		}
	}
	return abs, predAbs, sis, o
}

func main() {
	run := vgen.Flags("C32")
	run.Imports = []string{"Model.PKI"}
	run.CheckFn = "PKI.check"
	run.DiagFn = "PKI.diag"
	run.CaseType = "PKI.case"
	run.ShardSize = 60
	run.Rule = "updates: a valid predecessor (base or update, 1-3 sensitive, 1-3 regular, 1-2 root certificates) and a " +
		"well-formed completely signed regular or sensitive successor (re-keyed / added / removed certificates, changed " +
		"quorum and AS lists, reordered certificates), then 0-2 of 40 mutations (ISD/base/serial/noTrustReset, votes: too few, " +
		"duplicated, wrong class, out of range, none; signer infos: dropped, corrupted, other key, other payload, unsupported " +
		"version, by key id, doubled, replaced by a copy of another, unrelated; a same-name certificate with a differently DER-encoded subject " +
		"taking another certificate's place; every rule of a regular update; no predecessor; invalid payload; invalid " +
		"predecessor); base TRCs signed by all voters with signature mutations; real DER TRCs and CMS SignedData are " +
		"encoded and decoded before SignedTRC.Verify; verdict, rejecting stage, error class and the Update " +
		"(type, new voters, votes, root acknowledgements) compared; non-trivial = every case"
	rng := vgen.NewRand(run.Seed)
	f := trcgen.NewFactory()

	nu := run.Count(420, 20000)
	nb := run.Count(80, 3000)
	for i := 0; i < nu+nb; i++ {
		r := rng.Fork(uint64(i))
		var sc *scenario
		isBase := i >= nu
		if isBase {
			sc = genBase(r)
		} else {
			sc = genUpdate(r)
		}
		nm := 0
		switch {
		case i < 2*numMutations:
			nm = 1
		default:
			nm = vgen.Pick(r, 0, 1, 1, 1, 2, 2)
		}
		for j := 0; j < nm; j++ {
			k := r.Intn(numMutations)
			if i < 2*numMutations {
				k = i % numMutations // every mutation alone at least twice per run
			}
			if isBase {
				k = vgen.Pick(r, 11, 12, 13, 14, 15, 16, 17, 18, 19, 20, 21, 34, 6, 9, 39, 39)
				if j == 0 && r.Chance(1, 8) {
					// a predecessor handed in for a base TRC
					p := trcgen.GenTRC(r, sc.succ.ISD, true, trcgen.RandShape(r), 0)
					sc.pred = &p
					sc.muts = append(sc.muts, "predecessor-for-base")
					continue
				}
			}
			sc.muts = append(sc.muts, mutate(r, sc, k))
		}
		if !run.Want() {
			run.Skip()
			continue
		}
		abs, predAbs, sis, o := execute(f, sc)
		if o.skip {
			run.Tally("skipped:successor-not-decodable-from-its-own-encoding(serial>=2^63)")
			run.Skip()
			continue
		}
		predT := "None"
		if predAbs != nil {
			predT = "(Some " + predAbs.Gallina() + ")"
		}
		term := vgen.App("PKI.CVerify", predT, abs.Gallina(), vgen.ListOf(sis, SI.Gallina),
			vgen.Pair(vgen.Z(int64(o.coarse)), vgen.Z(int64(o.fine))), o.upd) + "%Z"
		run.Tally(fmt.Sprintf("verdict:coarse%d", o.coarse))
		run.Tally(fmt.Sprintf("verdict:%d/%d", o.coarse, o.fine))
		run.Tally("plan:" + strings.SplitN(sc.plan, "+", 2)[0])
		for _, m := range sc.muts {
			run.Tally("mutation:" + m)
		}
		if o.updDesc != nil {
			run.Tally(fmt.Sprintf("update-type:%v", o.updDesc.(map[string]any)["type"]))
		}
		id := run.Add("verify", term, term, true, map[string]any{"plan": sc.plan, "mutations": sc.muts,
			"impl": []int{o.coarse, o.fine}, "error": o.errText, "update": o.updDesc,
			"votes": sc.succ.Votes, "signers": len(sc.sis)})
		if o.coarse == 4 && !contains2(sc.muts, "predecessor-invalid") {
			run.Violate(id, "SignedTRC.Verify panicked: "+o.errText, sc.muts)
		}
	}
	run.Extra("distinct_certificates_built", f.NumCerts())
	run.Extra("side_probe_malformed_sid", probeMalformedSID(f))
	run.Finish()
}

// probeMalformedSID is informational (not part of C32, which is about what is
// accepted): a version-1 signer info whose SID is SEQUENCE { issuer of a voter,
// OCTET STRING } is accepted by DecodeSignedTRC; FindCertificate then compares
// a nil serial number. Reported in stats.json as "panics" / "rejected".
func probeMalformedSID(f *trcgen.Factory) string {
	t := trcgen.GenTRC(vgen.NewRand(7), 1, true, trcgen.Shape{Sens: 1, Reg: 1, Root: 1}, 0)
	real, abs := f.BuildTRC(t)
	raw, err := real.Encode()
	if err != nil {
		return "probe not built: " + err.Error()
	}
	var voter Cert
	for _, c := range abs.Certs {
		if classOf(c) == 1 {
			voter = c
		}
	}
	si := f.BuildSI(signerFor(voter), raw)
	var sid struct {
		Issuer asn1.RawValue
		Serial asn1.RawValue
	}
	if _, err := asn1.Unmarshal(si.SID.FullBytes, &sid); err != nil {
		return "probe not built: " + err.Error()
	}
	der, err := asn1.Marshal(struct {
		Issuer asn1.RawValue
		Serial []byte
	}{sid.Issuer, []byte{1}})
	if err != nil {
		return "probe not built: " + err.Error()
	}
	if _, err := asn1.Unmarshal(der, &si.SID); err != nil {
		return "probe not built: " + err.Error()
	}
	signed := cppki.SignedTRC{TRC: real, SignerInfos: []protocol.SignerInfo{si}}
	signed.TRC.Raw = raw
	if enc, err := signed.Encode(); err == nil {
		if dec, err := cppki.DecodeSignedTRC(enc); err == nil {
			signed = dec
		} else {
			return "rejected by DecodeSignedTRC"
		}
	}
	var verr error
	if p, msg := vgen.Recover(func() { verr = signed.Verify(nil) }); p {
		return "SignedTRC.Verify panics: " + msg
	}
	return fmt.Sprint("rejected: ", verr)
}

func indexIn(xs []int, x int) int {
	for i, y := range xs {
		if y == x {
			return i
		}
	}
	return 0
}

func contains64(xs []int64, x int64) bool {
	for _, y := range xs {
		if x == y {
			return true
		}
	}
	return false
}

func contains2(xs []string, x string) bool {
	for _, y := range xs {
		if x == y {
			return true
		}
	}
	return false
}
