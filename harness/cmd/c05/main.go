// Runner for C05: source / destination ISD-AS rules and the sibling-link
// binding of transit traffic on the real fast path.
package main

import (
	"strings"

	"verifharness/internal/rtgen"
)

func main() {
	rtgen.MainX("C05", "Router.check_c05",
		"valid-by-construction packets at every position kind on external, sibling and internal ingress "+
			"(single- and multi-router configurations), with SrcIA/DstIA replaced by {local, a neighbour, random}, "+
			"source/destination hosts of every kind (IPv4, IPv6, service, v4-mapped, unspecified, unsupported type), "+
			"ingress link replaced (other external link, right/wrong sibling link, internal network), CurrHF/CurrINF "+
			"moved; plus transit-spoofing packets from inside the AS (a segment-boundary hop field of the local AS "+
			"at a non-first position, foreign SrcIA). non-trivial = the packet reached validateSrcDstIA "+
			"(forwarded, delivered, or answered with a code of that check or a later one)",
		func(x *rtgen.Ctx) {
			x.NonTrivial = func(sc *rtgen.Scenario, o *rtgen.Obs) bool {
				cls := o.Class()
				if strings.HasPrefix(sc.Kind, "spoof") {
					return true // reached the transit-binding decision (validateTransitUnderlaySrc)
				}
				switch {
				case strings.HasPrefix(cls, "forward"), cls == "deliver", strings.HasPrefix(cls, "alert"), cls == "panic":
					return true
				case cls == "scmp-4-33", cls == "scmp-4-34", cls == "scmp-4-51", cls == "scmp-4-48",
					cls == "scmp-4-53", cls == "scmp-5-0", cls == "scmp-6-0", cls == "scmp-1-0":
					return true
				}
				return false
			}
			nv := x.Run.Count(350, 15000)
			nm := x.Run.Count(900, 50000)
			na := x.Run.Count(250, 10000)
			x.RandomStreams(8, nv, nm, nil, []string{
				"srcia", "dstia", "ingress", "srchost", "dsthost", "currhf", "srcia", "dstia", "ingress",
				"currinf", "consingress", "consegress", "l4", "peerflag", "consdir", "paylen", "mac", "expired"})
			x.RandomStreams(4, na, na/2, rtgen.AttackKinds, []string{"ingress", "srcia", "currhf", "dstia", "consdir"})
		})
}
