// C18 runner, part 2: (a) sequences of decodes into ONE reused object (decode -> serialize ->
// decode ... : longer-then-shorter, shorter-then-longer, valid-invalid-valid), each step compared
// with the stateless model applied to that step's bytes alone; (b) boundary values of ExtLen
// (0, 1, 254, 255 = the 1024-byte maximum) in both directions, incl. truncated inputs.
package main

import (
	"fmt"

	"github.com/gopacket/gopacket"

	"github.com/scionproto/scion/pkg/slayers"
	"github.com/scionproto/scion/pkg/slayers/path/epic"
	"github.com/scionproto/scion/pkg/slayers/path/onehop"
	"github.com/scionproto/scion/pkg/slayers/path/scion"
	"verifharness/internal/vgen"
)

type msgL interface {
	DecodeFromBytes([]byte, gopacket.DecodeFeedback) error
	SerializeTo(gopacket.SerializeBuffer, gopacket.SerializeOptions) error
	LayerPayload() []byte
}

func msgValsOf(l any) []uint64 {
	switch x := l.(type) {
	case *slayers.SCMPExternalInterfaceDown:
		return []uint64{uint64(x.IA), x.IfID}
	case *slayers.SCMPInternalConnectivityDown:
		return []uint64{uint64(x.IA), x.Ingress, x.Egress}
	case *slayers.SCMPEcho:
		return []uint64{uint64(x.Identifier), uint64(x.SeqNumber)}
	case *slayers.SCMPParameterProblem:
		return []uint64{uint64(x.Pointer)}
	case *slayers.SCMPTraceroute:
		return []uint64{uint64(x.Identifier), uint64(x.Sequence), uint64(x.IA), x.Interface}
	case *slayers.SCMPDestinationUnreachable:
		return []uint64{}
	case *slayers.SCMPPacketTooBig:
		return []uint64{uint64(x.MTU)}
	}
	panic(fmt.Sprintf("msgValsOf: %T", l))
}

type pathObj interface {
	DecodeFromBytes([]byte) error
	SerializeTo([]byte) error
	Len() int
}

func reusePath(lay string, p pathObj) *reusable {
	return &reusable{lay: lay,
		decode: func(bs []byte) (any, []byte, error) {
			if err := p.DecodeFromBytes(bs); err != nil {
				return nil, nil, err
			}
			return p, bs[p.Len():], nil
		},
		reser: func([]byte) ([]byte, error) { return serPath(p) }}
}

func reuseSCION(recycle bool) *reusable {
	s := &slayers.SCION{}
	if recycle {
		s.RecyclePaths()
	}
	lay := "Hdr.LScion"
	if recycle {
		lay = "Hdr.LScionR"
	}
	return &reusable{lay: lay,
		decode: func(bs []byte) (any, []byte, error) {
			if err := s.DecodeFromBytes(bs, nofb); err != nil {
				return nil, nil, err
			}
			return s, s.Payload, nil
		},
		reser: func(rest []byte) ([]byte, error) { return ser(s, false, rest) }}
}

func reuseExt(e2e bool) *reusable {
	hb, ee := &slayers.HopByHopExtn{}, &slayers.EndToEndExtn{}
	nofix := gopacket.SerializeOptions{}
	if e2e {
		return &reusable{lay: "Hdr.LExt HdrExt.E2E",
			decode: func(bs []byte) (any, []byte, error) {
				if err := ee.DecodeFromBytes(bs, nofb); err != nil {
					return nil, nil, err
				}
				out := &extV{E2E: true, NextHdr: uint8(ee.NextHdr), ExtLen: ee.ExtLen}
				for _, o := range ee.Options {
					out.Opts = append(out.Opts, fromTLV(uint8(o.OptType), o.OptDataLen, o.OptData, o.OptAlign))
				}
				return out, ee.Payload, nil
			},
			reser: func(rest []byte) ([]byte, error) {
				b := newBuf(rest)
				if err := ee.SerializeTo(b, nofix); err != nil {
					return nil, err
				}
				return hdrOf(b, rest), nil
			}}
	}
	return &reusable{lay: "Hdr.LExt HdrExt.HBH",
		decode: func(bs []byte) (any, []byte, error) {
			if err := hb.DecodeFromBytes(bs, nofb); err != nil {
				return nil, nil, err
			}
			out := &extV{NextHdr: uint8(hb.NextHdr), ExtLen: hb.ExtLen}
			for _, o := range hb.Options {
				out.Opts = append(out.Opts, fromTLV(uint8(o.OptType), o.OptDataLen, o.OptData, o.OptAlign))
			}
			return out, hb.Payload, nil
		},
		reser: func(rest []byte) ([]byte, error) {
			b := newBuf(rest)
			if err := hb.SerializeTo(b, nofix); err != nil {
				return nil, err
			}
			return hdrOf(b, rest), nil
		}}
}

func reuseSCMP() *reusable {
	base := &slayers.SCMP{}
	msgs := map[int]msgL{1: &slayers.SCMPExternalInterfaceDown{}, 2: &slayers.SCMPInternalConnectivityDown{},
		3: &slayers.SCMPEcho{}, 4: &slayers.SCMPParameterProblem{}, 5: &slayers.SCMPTraceroute{},
		6: &slayers.SCMPDestinationUnreachable{}, 7: &slayers.SCMPPacketTooBig{}}
	nofix := gopacket.SerializeOptions{}
	return &reusable{lay: "Hdr.LScmp",
		decode: func(bs []byte) (any, []byte, error) {
			if err := base.DecodeFromBytes(bs, nofb); err != nil {
				return nil, nil, err
			}
			out := &scmpV{Base: []uint64{uint64(base.TypeCode.Type()), uint64(base.TypeCode.Code()),
				uint64(base.Checksum)}, Msg: []uint64{}}
			id := nextID(base)
			if id < 0 {
				return out, base.Payload, nil
			}
			if err := msgs[id].DecodeFromBytes(base.Payload, nofb); err != nil {
				return nil, nil, err
			}
			out.Msg = msgValsOf(msgs[id])
			return out, msgs[id].LayerPayload(), nil
		},
		reser: func(rest []byte) ([]byte, error) {
			b := newBuf(rest)
			if id := nextID(base); id >= 0 {
				if err := msgs[id].SerializeTo(b, nofix); err != nil {
					return nil, err
				}
			}
			if err := base.SerializeTo(b, nofix); err != nil {
				return nil, err
			}
			return hdrOf(b, rest), nil
		}}
}

type seqKind struct {
	name    string
	mk      func() *reusable
	gen     int  // genValue kind producing the byte strings
	recycle bool // SCION.RecyclePaths: unknown path types are not rejected, keep PathType in 0..3
	e2e     int  // -1 n/a, 0 HBH, 1 E2E
}

var seqKinds = []seqKind{
	{"decoded", func() *reusable { return reusePath("Hdr.LDec", &scion.Decoded{}) }, 4, false, -1},
	{"raw", func() *reusable { return reusePath("Hdr.LRaw", &scion.Raw{}) }, 3, false, -1},
	{"epic", func() *reusable { return reusePath("Hdr.LEpic", &epic.Path{}) }, 6, false, -1},
	{"onehop", func() *reusable { return reusePath("Hdr.LOneHop", &onehop.Path{}) }, 5, false, -1},
	{"scion", func() *reusable { return reuseSCION(false) }, 8, false, -1},
	{"scion-recycle", func() *reusable { return reuseSCION(true) }, 8, true, -1},
	{"hbh", func() *reusable { return reuseExt(false) }, 15, false, 0},
	{"e2e", func() *reusable { return reuseExt(true) }, 15, false, 1},
	{"scmp", func() *reusable { return reuseSCMP() }, 12, false, -1},
}

// sequences: 4-6 decodes into one object per sequence; sizes alternate between large and small.
func (rn *runner) sequences(rng *vgen.Rand) {
	nSeq := rn.run.Count(6, 300)
	saved := rn.maxHops
	defer func() { rn.maxHops = saved }()
	for ki, sk := range seqKinds {
		for j := 0; j < nSeq; j++ {
			r := rng.Fork(uint64(4_000_000 + 10_000*ki + j))
			ru := sk.mk()
			steps := r.Range(4, 6)
			for st := 0; st < steps; st++ {
				rn.maxHops = 2
				if (st+j)%2 == 0 {
					rn.maxHops = saved
				}
				plen := vgen.Pick(r, 0, 2, 5)
				v := rn.genValue(r, sk.gen, false, plen)
				if e, ok := v.(*extV); ok {
					e.E2E = sk.e2e == 1
					if (st+j)%2 == 1 && len(e.Opts) > 1 { // the short one
						e.Opts = e.Opts[:1]
						if p := (4 - (2+optsLen(e.Opts))%4) % 4; p == 1 {
							e.Opts = append(e.Opts, tlv{Type: 0})
						} else if p > 1 {
							e.Opts = append(e.Opts, tlv{Type: 1, DataLen: uint8(p - 2), Data: make([]byte, p-2)})
						}
						e.ExtLen = uint8((2+optsLen(e.Opts))/4 - 1)
					}
				}
				payload := r.Bytes(plen)
				var hb []byte
				var err error
				if pan, _ := vgen.Recover(func() { hb, err = ser(v, false, payload) }); pan || err != nil {
					hb = r.Bytes(r.Intn(30))
				}
				bs := append(hb, payload...)
				how, isLen := "seq-valid", false
				switch m := r.Intn(10); {
				case m == 7 && len(bs) > 1:
					bs, how = bs[:r.Intn(len(bs))], "seq-truncated"
				case m == 8 && len(bs) > 0:
					offs := lenOffsets(ru.lay, bs)
					off := offs[r.Intn(len(offs))]
					if off >= len(bs) {
						off = len(bs) - 1
					}
					bs[off] = byte(r.Intn(256))
					how, isLen = "seq-mutated", true
				case m == 9:
					bs, how = r.Bytes(r.Intn(rn.maxBytes)), "seq-random"
				}
				if sk.recycle && len(bs) > 8 && r.Chance(1, 3) { // unregistered types are kept opaque
					bs[8] = vgen.Pick[byte](r, 4, 4, 5, 255, byte(r.Intn(256)))
				}
				rn.decCaseR(ru.lay, ru.id, bs, how+":"+sk.name, isLen, ru)
			}
		}
	}
}

// extBoundaries: extension headers of 4, 8, 1020 and 1024 bytes (ExtLen 0, 1, 254, 255).
func (rn *runner) extBoundaries(rng *vgen.Rand) {
	run := rn.run
	for j, total := range []int{4, 8, 1020, 1024} {
		for ei, e2e := range []bool{false, true} {
			r := rng.Fork(uint64(5_000_000 + 10*j + ei))
			mk := func(fix bool) *extV {
				e := &extV{E2E: e2e, NextHdr: 17, ExtLen: uint8(total/4 - 1)}
				if fix {
					e.ExtLen = uint8(r.Intn(256)) // recomputed by the serializer
				}
				for left := total - 2; left > 0; {
					if left == 1 {
						e.Opts = append(e.Opts, tlv{Type: 0})
						left--
						continue
					}
					dl := left - 2
					if dl > 255 {
						dl = vgen.Pick(r, 255, 250, 253)
					}
					e.Opts = append(e.Opts, tlv{Type: uint8(r.Range(2, 250)), DataLen: uint8(dl), Data: r.Bytes(dl)})
					left -= dl + 2
				}
				return e
			}
			for _, fix := range []bool{false, true} {
				v := mk(fix)
				if run.Want() {
					rn.encValue(v, fix, []byte{7, 8, 9})
				} else {
					run.Skip()
				}
			}
			hb, err := ser(mk(false), false, nil)
			if err != nil {
				panic(err)
			}
			lay, _ := layOf(&extV{E2E: e2e})
			rn.decCase(lay, 0, append(append([]byte(nil), hb...), 5, 6), "boundary-extlen", true)
			for _, cut := range []int{2, 3, 4, 7, 100, total - 1} {
				if cut < len(hb) {
					rn.decCase(lay, 0, hb[:cut], "boundary-extlen-truncated", true)
				}
			}
		}
	}
}

// pathTypeSweep: every value of the PathType byte, on fresh layers (strict: 4..255 rejected) and
// on ONE recycling layer reused for the whole sweep (4..255 kept as opaque paths).
func (rn *runner) pathTypeSweep(rng *vgen.Rand) {
	saved := rn.maxHops
	rn.maxHops = 2
	defer func() { rn.maxHops = saved }()
	ru := reuseSCION(true)
	step := 1
	if rn.run.Tier != "thorough" {
		step = 3 // 0,3,6,...; 1,2,4,5 are added below
	}
	var types []int
	for t := 0; t < 256; t += step {
		types = append(types, t)
	}
	if step != 1 {
		types = append(types, 1, 2, 4, 5, 7, 254)
	}
	for i, t := range types {
		r := rng.Fork(uint64(7_000_000 + i))
		var bs []byte
		for try := 0; try < 20 && bs == nil; try++ {
			v := genSCION(r, 2, false, 3)
			payload := r.Bytes(3)
			if hb, err := ser(v, false, payload); err == nil && len(hb) > 12 {
				bs = append(hb, payload...)
			}
		}
		if bs == nil {
			bs = make([]byte, 40)
		}
		bs[8] = byte(t)
		rn.decCaseR(ru.lay, 0, bs, "pathtype-recycled", true, ru)
		rn.decCase("Hdr.LScion", 0, bs, "pathtype-fresh", true)
	}
}

// spaoSequences: Reset sequences (long / short authenticators alternating) on ONE reused
// PacketAuthOption; after every Reset the option data must be what the last parameters alone give.
func (rn *runner) spaoSequences(rng *vgen.Rand) {
	run := rn.run
	nSeq := run.Count(6, 300)
	for j := 0; j < nSeq; j++ {
		r := rng.Fork(uint64(6_000_000 + j))
		var o slayers.PacketAuthOption
		steps := r.Range(4, 6)
		for st := 0; st < steps; st++ {
			p := genSPAO(r)
			if (st+j)%2 == 0 {
				p.Auth = r.Bytes(r.Range(12, 24))
			} else {
				p.Auth = r.Bytes(r.Range(0, 5))
			}
			params := slayers.PacketAuthOptionParams{SPI: slayers.PacketAuthSPI(p.SPI),
				Algorithm: slayers.PacketAuthAlg(p.Alg), TimestampSN: p.TS, Auth: p.Auth}
			var bs []byte
			var err error
			var pmsg string
			pan, msg := vgen.Recover(func() {
				if st == 0 {
					o, err = slayers.NewPacketAuthOption(params)
				} else {
					err = o.Reset(params)
				}
				if err == nil {
					bs = append([]byte(nil), o.OptData...)
				}
			})
			if pan {
				pmsg = msg
			}
			if !run.Want() {
				run.Skip()
				continue
			}
			if pan {
				desc := map[string]any{"dir": "enc", "layer": "Hdr.LSpao", "how": "reset-sequence", "value": term(p)}
				run.Violate(run.Add("enc-Hdr.LSpao", "Hdr.CEnc false Hdr.HEmpty [] None None", term(p), false, desc),
					"panic in PacketAuthOption.Reset: "+pmsg, desc)
				continue
			}
			rn.serOverride = func() ([]byte, error) { return bs, err }
			rn.encValue(p, false, nil)
			rn.serOverride = nil
		}
	}
}
