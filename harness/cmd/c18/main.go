// Runner for C18: SCION header codecs (pkg/slayers and pkg/slayers/path/...) against the
// Gallina model Model/Hdr*.v.  Two directions per layer:
//
//	CEnc: generated field values -> real SerializeTo -> bytes; the real decoder is run on the
//	      result again (round trip "same field values").
//	CDec: byte strings (valid serializations, single-byte mutations with emphasis on length
//	      fields, every truncation of short packets, random bytes) -> real DecodeFromBytes ->
//	      fields / rejection; the decoded value is serialized again (round trip on bytes).
//
// Every call into scion runs under vgen.Recover: a panic is reported as a violation.
package main

import (
	"encoding/binary"
	"fmt"
	"net/netip"

	"github.com/gopacket/gopacket"

	"github.com/scionproto/scion/pkg/addr"
	"github.com/scionproto/scion/pkg/slayers"
	"github.com/scionproto/scion/pkg/slayers/path"
	"github.com/scionproto/scion/pkg/slayers/path/empty"
	"github.com/scionproto/scion/pkg/slayers/path/epic"
	"github.com/scionproto/scion/pkg/slayers/path/onehop"
	"github.com/scionproto/scion/pkg/slayers/path/scion"
	"verifharness/internal/vgen"
)

// ---------------------------------------------------------------- Gallina printers

func n(v uint64) string { return vgen.N(v) }

// bytesT prints a byte string compactly: (Hdr.B len 0x...) instead of a list literal
// (coqc spends most of its time parsing long list literals).
func bytesT(b []byte) string {
	if len(b) <= 2 {
		return vgen.Bytes(b)
	}
	return fmt.Sprintf("(Hdr.B %d 0x%x)", len(b), b)
}

func hopT(h path.HopField) string {
	return vgen.App("HdrPath.mkHop", vgen.B(h.IngressRouterAlert), vgen.B(h.EgressRouterAlert),
		n(uint64(h.ExpTime)), n(uint64(h.ConsIngress)), n(uint64(h.ConsEgress)), bytesT(h.Mac[:]))
}

func infoT(i path.InfoField) string {
	return vgen.App("HdrPath.mkInfo", vgen.B(i.Peer), vgen.B(i.ConsDir), n(uint64(i.SegID)),
		n(uint64(i.Timestamp)))
}

func metaT(m scion.MetaHdr) string {
	return vgen.App("HdrPath.mkMeta", n(uint64(m.CurrINF)), n(uint64(m.CurrHF)),
		n(uint64(m.SegLen[0])), n(uint64(m.SegLen[1])), n(uint64(m.SegLen[2])))
}

func baseT(b scion.Base) string {
	return vgen.App("HdrPath.mkBase", metaT(b.PathMeta), n(uint64(b.NumINF)), n(uint64(b.NumHops)))
}

func rawT(r *scion.Raw) string { return vgen.App("HdrPath.mkRaw", baseT(r.Base), bytesT(r.Raw)) }

func decT(d *scion.Decoded) string {
	return vgen.App("HdrPath.mkDec", baseT(d.Base), vgen.ListOf(d.InfoFields, infoT),
		vgen.ListOf(d.HopFields, hopT))
}

func onehopT(o *onehop.Path) string {
	return vgen.App("HdrPath.mkOneHop", infoT(o.Info), hopT(o.FirstHop), hopT(o.SecondHop))
}

func epicT(e *epic.Path) string {
	return vgen.App("HdrPath.mkEpic", n(uint64(e.PktID.Timestamp)), n(uint64(e.PktID.Counter)),
		bytesT(e.PHVF), bytesT(e.LHVF), rawT(e.ScionPath))
}

func pathT(p path.Path) string {
	switch v := p.(type) {
	case empty.Path:
		return "HdrPath.PEmpty"
	case *scion.Raw:
		return vgen.App("HdrPath.PScion", rawT(v))
	case *scion.Decoded:
		return vgen.App("HdrPath.PDecoded", decT(v))
	case *onehop.Path:
		return vgen.App("HdrPath.POneHop", onehopT(v))
	case *epic.Path:
		return vgen.App("HdrPath.PEpic", epicT(v))
	}
	panic(fmt.Sprintf("unexpected path %T", p))
}

func scionT(s *slayers.SCION) string {
	return vgen.App("HdrScion.mkScion", n(uint64(s.Version)), n(uint64(s.TrafficClass)),
		n(uint64(s.FlowID)), n(uint64(s.NextHdr)), n(uint64(s.HdrLen)), n(uint64(s.PayloadLen)),
		n(uint64(s.PathType)), n(uint64(s.DstAddrType)), n(uint64(s.SrcAddrType)),
		n(uint64(s.DstIA)), n(uint64(s.SrcIA)), bytesT(s.RawDstAddr), bytesT(s.RawSrcAddr),
		pathTT(s.Path, uint8(s.PathType)))
}

// pathTT: like pathT; a path of an unregistered type (path.rawPath, only produced by a layer with
// RecyclePaths) is printed as the opaque bytes it serializes to.
func pathTT(p path.Path, pt uint8) string {
	switch p.(type) {
	case empty.Path, *scion.Raw, *scion.Decoded, *onehop.Path, *epic.Path:
		return pathT(p)
	}
	b := make([]byte, p.Len())
	_ = p.SerializeTo(b)
	return vgen.App("HdrPath.POpaque", n(uint64(pt)), bytesT(b))
}

type tlv struct {
	Type    uint8
	DataLen uint8
	Data    []byte
	Align   [2]uint8
}

func optT(o tlv) string {
	return vgen.App("HdrExt.mkOpt", n(uint64(o.Type)), n(uint64(o.DataLen)), bytesT(o.Data),
		n(uint64(o.Align[0])), n(uint64(o.Align[1])))
}

type extV struct {
	E2E     bool
	NextHdr uint8
	ExtLen  uint8
	Opts    []tlv
}

func kindT(e2e bool) string {
	if e2e {
		return "HdrExt.E2E"
	}
	return "HdrExt.HBH"
}

func extT(e *extV) string {
	return vgen.App("Hdr.HExt", kindT(e.E2E),
		vgen.App("HdrExt.mkExt", n(uint64(e.NextHdr)), n(uint64(e.ExtLen)), vgen.ListOf(e.Opts, optT)))
}

type scmpV struct {
	Base []uint64 // type, code, checksum
	Msg  []uint64
}

type fmtV struct {
	ID   int
	Vals []uint64
}

type spaoV struct {
	SPI  uint32
	Alg  uint8
	TS   uint64
	Auth []byte
}

func hostT(h addr.Host) string {
	switch h.Type() {
	case addr.HostTypeIP:
		ip := h.IP()
		if ip.Is4() {
			b := ip.As4()
			return vgen.App("HdrScion.HostIP4", bytesT(b[:]))
		}
		b := ip.As16()
		return vgen.App("HdrScion.HostIP6", bytesT(b[:]))
	case addr.HostTypeSVC:
		return vgen.App("HdrScion.HostSVC", n(uint64(h.SVC())))
	}
	return "HdrScion.HostSVC 99999999"
}

// term prints any header value as a Gallina Hdr.hdr.
func term(v any) string {
	switch x := v.(type) {
	case *path.HopField:
		return vgen.App("Hdr.HHop", hopT(*x))
	case *path.InfoField:
		return vgen.App("Hdr.HInfo", infoT(*x))
	case *scion.MetaHdr:
		return vgen.App("Hdr.HMeta", metaT(*x))
	case *scion.Raw:
		return vgen.App("Hdr.HRaw", rawT(x))
	case *scion.Decoded:
		return vgen.App("Hdr.HDec", decT(x))
	case *onehop.Path:
		return vgen.App("Hdr.HOneHop", onehopT(x))
	case *epic.Path:
		return vgen.App("Hdr.HEpic", epicT(x))
	case empty.Path:
		return "Hdr.HEmpty"
	case *slayers.SCION:
		return vgen.App("Hdr.HScion", scionT(x))
	case *slayers.UDP:
		return vgen.App("Hdr.HUdp", vgen.NList([]uint64{uint64(x.SrcPort), uint64(x.DstPort),
			uint64(x.Length), uint64(x.Checksum)}))
	case *scmpV:
		return vgen.App("Hdr.HScmp", vgen.NList(x.Base), vgen.NList(x.Msg))
	case *fmtV:
		return vgen.App("Hdr.HFmt", n(uint64(x.ID)), vgen.NList(x.Vals))
	case *extV:
		return extT(x)
	case *spaoV:
		return vgen.App("Hdr.HSpao", vgen.App("HdrExt.mkSpao", n(uint64(x.SPI)), n(uint64(x.Alg)),
			n(x.TS), bytesT(x.Auth)))
	case addr.Host:
		return vgen.App("Hdr.HAddr", hostT(x))
	}
	panic(fmt.Sprintf("term: unexpected %T", v))
}

// ---------------------------------------------------------------- generators

func genHop(r *vgen.Rand) path.HopField {
	h := path.HopField{IngressRouterAlert: r.Bool(), EgressRouterAlert: r.Bool(),
		ExpTime: uint8(r.Intn(256)), ConsIngress: uint16(r.Intn(65536)), ConsEgress: uint16(r.Intn(65536))}
	copy(h.Mac[:], r.Bytes(6))
	if r.Chance(1, 6) {
		h.ExpTime, h.ConsIngress, h.ConsEgress = vgen.Pick[uint8](r, 0, 255), vgen.Pick[uint16](r, 0, 65535), vgen.Pick[uint16](r, 0, 65535)
	}
	return h
}

func genInfo(r *vgen.Rand) path.InfoField {
	i := path.InfoField{Peer: r.Bool(), ConsDir: r.Bool(), SegID: uint16(r.Intn(65536)),
		Timestamp: uint32(r.U64())}
	if r.Chance(1, 6) {
		i.SegID, i.Timestamp = vgen.Pick[uint16](r, 0, 65535), vgen.Pick[uint32](r, 0, 0xffffffff)
	}
	return i
}

// genSegLens: 0..3 contiguous non-empty segments, at most maxHops hops in total.
func genSegLens(r *vgen.Rand, maxHops int) [3]uint8 {
	var s [3]uint8
	k := vgen.Pick(r, 1, 1, 2, 2, 3, 3, 0)
	left := maxHops
	for i := 0; i < k; i++ {
		m := left - (k - 1 - i)
		if m < 1 {
			m = 1
		}
		if m > 6 && !r.Chance(1, 10) {
			m = 6
		}
		s[i] = uint8(r.Range(1, m))
		left -= int(s[i])
	}
	return s
}

func genMeta(r *vgen.Rand, wf bool) scion.MetaHdr {
	m := scion.MetaHdr{CurrINF: uint8(r.Intn(4)), CurrHF: uint8(r.Intn(64)),
		SegLen: [3]uint8{uint8(r.Intn(64)), uint8(r.Intn(64)), uint8(r.Intn(64))}}
	if !wf {
		switch r.Intn(3) {
		case 0:
			m.CurrINF = uint8(r.Intn(256))
		case 1:
			m.CurrHF = uint8(r.Intn(256))
		case 2:
			m.SegLen[r.Intn(3)] = uint8(r.Intn(256))
		}
	}
	return m
}

func genDecoded(r *vgen.Rand, maxHops int) *scion.Decoded {
	sl := genSegLens(r, maxHops)
	d := &scion.Decoded{}
	d.PathMeta.SegLen = sl
	for i := 0; i < 3; i++ {
		if sl[i] > 0 {
			d.NumINF = i + 1
		}
		d.NumHops += int(sl[i])
	}
	if d.NumHops > 0 {
		d.PathMeta.CurrHF = uint8(r.Intn(d.NumHops))
		d.PathMeta.CurrINF = uint8(r.Intn(d.NumINF))
	}
	if r.Chance(1, 8) { // pointers are not validated by the codec
		d.PathMeta.CurrHF, d.PathMeta.CurrINF = uint8(r.Intn(64)), uint8(r.Intn(4))
	}
	d.InfoFields = make([]path.InfoField, d.NumINF)
	for i := range d.InfoFields {
		d.InfoFields[i] = genInfo(r)
	}
	d.HopFields = make([]path.HopField, d.NumHops)
	for i := range d.HopFields {
		d.HopFields[i] = genHop(r)
	}
	return d
}

// genRaw builds a consistent scion.Raw; reserved bits in the raw bytes are set at random.
func genRaw(r *vgen.Rand, maxHops int) *scion.Raw {
	d := genDecoded(r, maxHops)
	b := make([]byte, d.Len())
	if err := d.SerializeTo(b); err != nil {
		panic(err)
	}
	if r.Chance(1, 2) {
		for k := 0; k < 3; k++ {
			if off := r.Intn(len(b)); off >= 4 || off == 1 {
				b[off] |= byte(r.Intn(256)) & 0xfc
			}
		}
	}
	raw := &scion.Raw{Base: d.Base, Raw: b}
	if r.Chance(1, 10) { // the first four bytes of Raw are rewritten from PathMeta on serialization
		copy(raw.Raw[:4], r.Bytes(4))
	}
	return raw
}

func genOneHop(r *vgen.Rand) *onehop.Path {
	return &onehop.Path{Info: genInfo(r), FirstHop: genHop(r), SecondHop: genHop(r)}
}

func genEpic(r *vgen.Rand, maxHops int) *epic.Path {
	return &epic.Path{PktID: epic.PktID{Timestamp: uint32(r.U64()), Counter: uint32(r.U64())},
		PHVF: r.Bytes(4), LHVF: r.Bytes(4), ScionPath: genRaw(r, maxHops)}
}

func genPath(r *vgen.Rand, maxHops int) path.Path {
	switch r.Intn(10) {
	case 0, 1:
		return empty.Path{}
	case 2, 3, 4, 5:
		return genRaw(r, maxHops)
	case 6:
		return genOneHop(r)
	case 7, 8:
		return genEpic(r, maxHops)
	default:
		return genDecoded(r, maxHops)
	}
}

func genSCION(r *vgen.Rand, maxHops int, fix bool, payloadLen int) *slayers.SCION {
	s := &slayers.SCION{Version: uint8(r.Intn(16)), TrafficClass: uint8(r.Intn(256)),
		FlowID: uint32(r.Intn(1 << 20)), NextHdr: slayers.L4ProtocolType(r.Intn(256)),
		DstAddrType: slayers.AddrType(r.Intn(16)), SrcAddrType: slayers.AddrType(r.Intn(16)),
		DstIA: addr.IA(r.U64()), SrcIA: addr.IA(r.U64())}
	if r.Chance(1, 2) {
		s.DstAddrType = vgen.Pick(r, slayers.T4Ip, slayers.T4Svc, slayers.T16Ip)
		s.SrcAddrType = vgen.Pick(r, slayers.T4Ip, slayers.T4Svc, slayers.T16Ip)
	}
	s.RawDstAddr = r.Bytes(s.DstAddrType.Length())
	s.RawSrcAddr = r.Bytes(s.SrcAddrType.Length())
	s.Path = genPath(r, maxHops)
	s.PathType = s.Path.Type()
	scnLen := slayers.CmnHdrLen + s.AddrHdrLen() + s.Path.Len()
	if fix {
		s.HdrLen, s.PayloadLen = uint8(r.Intn(256)), uint16(r.Intn(65536)) // overwritten
	} else {
		s.HdrLen, s.PayloadLen = uint8(scnLen/4), uint16(payloadLen)
		if r.Chance(1, 4) {
			s.PayloadLen = uint16(r.Intn(65536)) // not checked by this layer
		}
	}
	if r.Chance(1, 8) { // values outside the wire format / inconsistent structs
		switch r.Intn(6) {
		case 0:
			s.Version = uint8(r.Intn(256))
		case 1:
			s.FlowID = uint32(r.U64())
		case 2:
			s.DstAddrType = slayers.AddrType(r.Intn(256))
			s.SrcAddrType = slayers.AddrType(r.Intn(256))
		case 3:
			s.RawDstAddr = r.Bytes(r.Intn(20))
		case 4:
			s.PathType = path.Type(r.Intn(6))
		case 5:
			if !fix {
				s.HdrLen = uint8(r.Intn(256))
			}
		}
	}
	return s
}

func genUDP(r *vgen.Rand, fix bool, payloadLen int) *slayers.UDP {
	u := &slayers.UDP{SrcPort: uint16(r.Intn(65536)), DstPort: uint16(r.Intn(65536)),
		Checksum: uint16(r.Intn(65536))}
	switch {
	case fix:
		u.Length = uint16(r.Intn(65536))
	case r.Chance(1, 4):
		u.Length = 0
	case r.Chance(1, 6):
		u.Length = uint16(r.Intn(40))
	default:
		u.Length = uint16(8 + payloadLen)
	}
	return u
}

var scmpTypes = []uint64{1, 2, 4, 5, 6, 128, 129, 130, 131}

// field widths (bytes) of the SCMP message structs, in the numbering of Hdr.fmt_of
var fmtWidths = [][]int{{1, 1, 2}, {8, 8}, {8, 8, 8}, {2, 2}, {2}, {2, 2, 8, 8}, {}, {2}}

func scmpFmtID(typ uint64) int {
	switch typ {
	case 1:
		return 6
	case 2:
		return 7
	case 4:
		return 4
	case 5:
		return 1
	case 6:
		return 2
	case 128, 129:
		return 3
	case 130, 131:
		return 5
	}
	return -1
}

func genVals(r *vgen.Rand, widths []int) []uint64 {
	out := make([]uint64, len(widths))
	for i, w := range widths {
		v := r.U64()
		if r.Chance(1, 5) {
			v = vgen.Pick[uint64](r, 0, 1, ^uint64(0))
		}
		if w < 8 {
			v &= (uint64(1) << (8 * w)) - 1
		}
		out[i] = v
	}
	return out
}

func genSCMP(r *vgen.Rand) *scmpV {
	typ := vgen.Pick(r, scmpTypes...)
	if r.Chance(1, 6) {
		typ = uint64(r.Intn(256))
	}
	v := &scmpV{Base: []uint64{typ, uint64(r.Intn(256)), uint64(r.Intn(65536))}, Msg: []uint64{}}
	if id := scmpFmtID(typ); id >= 0 {
		v.Msg = genVals(r, fmtWidths[id])
	}
	return v
}

func genTLV(r *vgen.Rand) tlv {
	o := tlv{Type: uint8(r.Intn(256))}
	switch r.Intn(6) {
	case 0:
		o.Type = 0
	case 1:
		o.Type = 1
	case 2:
		o.Type = 2
	}
	o.Data = r.Bytes(vgen.Pick(r, 0, 1, 2, 3, 4, 5, 6, 9, 12, 16))
	o.DataLen = uint8(len(o.Data))
	if o.Type == 0 && r.Chance(1, 2) {
		o.Data, o.DataLen = nil, 0
	}
	o.Align = vgen.Pick(r, [2]uint8{0, 0}, [2]uint8{0, 0}, [2]uint8{4, 2}, [2]uint8{8, 0}, [2]uint8{2, 1},
		[2]uint8{4, 0}, [2]uint8{8, 6}, [2]uint8{uint8(r.Intn(10)), uint8(r.Intn(10))})
	return o
}

func optsLen(opts []tlv) int {
	l := 0
	for _, o := range opts {
		if o.Type == 0 {
			l++
		} else {
			l += 2 + int(o.DataLen)
		}
	}
	return l
}

func genExt(r *vgen.Rand, fix bool) *extV {
	e := &extV{E2E: r.Bool(), NextHdr: vgen.Pick[uint8](r, 17, 202, 6, 203, 0, uint8(r.Intn(256)))}
	if !e.E2E && r.Chance(1, 4) {
		e.NextHdr = 201
	}
	if r.Chance(1, 12) {
		e.NextHdr = vgen.Pick[uint8](r, 200, 201)
	}
	k := vgen.Pick(r, 0, 1, 1, 2, 2, 3, 4)
	for i := 0; i < k; i++ {
		e.Opts = append(e.Opts, genTLV(r))
	}
	if fix {
		e.ExtLen = uint8(r.Intn(256))
		if r.Chance(1, 4) { // OptDataLen is recomputed from the data
			for i := range e.Opts {
				e.Opts[i].DataLen = uint8(r.Intn(256))
			}
		}
		return e
	}
	// without FixLengths the caller pads and sets ExtLen
	if !r.Chance(1, 8) {
		if p := (4 - (2+optsLen(e.Opts))%4) % 4; p == 1 {
			e.Opts = append(e.Opts, tlv{Type: 0})
		} else if p > 1 {
			e.Opts = append(e.Opts, tlv{Type: 1, DataLen: uint8(p - 2), Data: make([]byte, p-2)})
		}
	}
	e.ExtLen = uint8((2+optsLen(e.Opts))/4 - 1)
	if r.Chance(1, 8) {
		e.ExtLen = uint8(r.Intn(8))
	}
	if r.Chance(1, 8) && len(e.Opts) > 0 { // data shorter than announced: zero filled
		i := r.Intn(len(e.Opts))
		if len(e.Opts[i].Data) > 0 {
			e.Opts[i].Data = e.Opts[i].Data[:r.Intn(len(e.Opts[i].Data))]
		}
	}
	return e
}

func genSPAO(r *vgen.Rand) *spaoV {
	s := &spaoV{SPI: uint32(r.U64()), Alg: uint8(r.Intn(256)), TS: r.U64() & (1<<48 - 1),
		Auth: r.Bytes(vgen.Pick(r, 0, 1, 4, 12, 16, 20))}
	if r.Chance(1, 8) {
		s.TS = vgen.Pick[uint64](r, 1<<48, 1<<48-1, 0, r.U64())
	}
	return s
}

func genHost(r *vgen.Rand) addr.Host {
	switch r.Intn(7) {
	case 0, 1:
		return addr.HostIP(netip.AddrFrom4([4]byte(r.Bytes(4))))
	case 2, 3:
		return addr.HostIP(netip.AddrFrom16([16]byte(r.Bytes(16))))
	case 4:
		b := append([]byte{0, 0, 0, 0, 0, 0, 0, 0, 0, 0, 255, 255}, r.Bytes(4)...)
		return addr.HostIP(netip.AddrFrom16([16]byte(b)))
	default:
		return addr.HostSVC(addr.SVC(r.Intn(65536)))
	}
}

// ---------------------------------------------------------------- real serializers

var nofb = gopacket.NilDecodeFeedback

func newBuf(payload []byte) gopacket.SerializeBuffer {
	b := gopacket.NewSerializeBuffer()
	if len(payload) > 0 {
		p, _ := b.AppendBytes(len(payload))
		copy(p, payload)
	}
	return b
}

func hdrOf(b gopacket.SerializeBuffer, payload []byte) []byte {
	all := b.Bytes()
	return append([]byte(nil), all[:len(all)-len(payload)]...)
}

func toTLVOpts(opts []tlv) ([]*slayers.HopByHopOption, []*slayers.EndToEndOption) {
	var h []*slayers.HopByHopOption
	var e []*slayers.EndToEndOption
	for _, o := range opts {
		d := o.Data
		h = append(h, &slayers.HopByHopOption{OptType: slayers.OptionType(o.Type), OptDataLen: o.DataLen,
			OptData: d, OptAlign: o.Align})
		e = append(e, &slayers.EndToEndOption{OptType: slayers.OptionType(o.Type), OptDataLen: o.DataLen,
			OptData: d, OptAlign: o.Align})
	}
	return h, e
}

func put(vals []uint64, widths []int, reserved int) []byte {
	out := make([]byte, reserved)
	for i, w := range widths {
		var b [8]byte
		binary.BigEndian.PutUint64(b[:], vals[i])
		out = append(out, b[8-w:]...)
	}
	return out
}

// msgLayer builds the SCMP message struct number id with the given field values.
func msgLayer(id int, v []uint64) gopacket.SerializableLayer {
	switch id {
	case 1:
		return &slayers.SCMPExternalInterfaceDown{IA: addr.IA(v[0]), IfID: v[1]}
	case 2:
		return &slayers.SCMPInternalConnectivityDown{IA: addr.IA(v[0]), Ingress: v[1], Egress: v[2]}
	case 3:
		return &slayers.SCMPEcho{Identifier: uint16(v[0]), SeqNumber: uint16(v[1])}
	case 4:
		return &slayers.SCMPParameterProblem{Pointer: uint16(v[0])}
	case 5:
		return &slayers.SCMPTraceroute{Identifier: uint16(v[0]), Sequence: uint16(v[1]), IA: addr.IA(v[2]),
			Interface: v[3]}
	case 6:
		return &slayers.SCMPDestinationUnreachable{}
	case 7:
		return &slayers.SCMPPacketTooBig{MTU: uint16(v[0])}
	}
	return &slayers.SCMP{TypeCode: slayers.CreateSCMPTypeCode(slayers.SCMPType(v[0]), slayers.SCMPCode(v[1])),
		Checksum: uint16(v[2])}
}

// decodeMsg decodes SCMP message struct number id.
func decodeMsg(id int, bs []byte) ([]uint64, []byte, error) {
	switch id {
	case 1:
		l := &slayers.SCMPExternalInterfaceDown{}
		err := l.DecodeFromBytes(bs, nofb)
		return []uint64{uint64(l.IA), l.IfID}, l.Payload, err
	case 2:
		l := &slayers.SCMPInternalConnectivityDown{}
		err := l.DecodeFromBytes(bs, nofb)
		return []uint64{uint64(l.IA), l.Ingress, l.Egress}, l.Payload, err
	case 3:
		l := &slayers.SCMPEcho{}
		err := l.DecodeFromBytes(bs, nofb)
		return []uint64{uint64(l.Identifier), uint64(l.SeqNumber)}, l.Payload, err
	case 4:
		l := &slayers.SCMPParameterProblem{}
		err := l.DecodeFromBytes(bs, nofb)
		return []uint64{uint64(l.Pointer)}, l.Payload, err
	case 5:
		l := &slayers.SCMPTraceroute{}
		err := l.DecodeFromBytes(bs, nofb)
		return []uint64{uint64(l.Identifier), uint64(l.Sequence), uint64(l.IA), l.Interface}, l.Payload, err
	case 6:
		l := &slayers.SCMPDestinationUnreachable{}
		err := l.DecodeFromBytes(bs, nofb)
		return []uint64{}, l.Payload, err
	case 7:
		l := &slayers.SCMPPacketTooBig{}
		err := l.DecodeFromBytes(bs, nofb)
		return []uint64{uint64(l.MTU)}, l.Payload, err
	}
	l := &slayers.SCMP{}
	err := l.DecodeFromBytes(bs, nofb)
	return []uint64{uint64(l.TypeCode.Type()), uint64(l.TypeCode.Code()), uint64(l.Checksum)}, l.Payload, err
}

func nextID(s *slayers.SCMP) int {
	switch s.NextLayerType() {
	case slayers.LayerTypeSCMPExternalInterfaceDown:
		return 1
	case slayers.LayerTypeSCMPInternalConnectivityDown:
		return 2
	case slayers.LayerTypeSCMPEcho:
		return 3
	case slayers.LayerTypeSCMPParameterProblem:
		return 4
	case slayers.LayerTypeSCMPTraceroute:
		return 5
	case slayers.LayerTypeSCMPDestinationUnreachable:
		return 6
	case slayers.LayerTypeSCMPPacketTooBig:
		return 7
	}
	return -1
}

type pathSer interface {
	SerializeTo(b []byte) error
	Len() int
}

func serPath(p pathSer) ([]byte, error) {
	b := make([]byte, p.Len())
	err := p.SerializeTo(b)
	return b, err
}

// ser runs the real serializer of v and returns the header bytes.
func ser(v any, fix bool, payload []byte) ([]byte, error) {
	opts := gopacket.SerializeOptions{FixLengths: fix}
	switch x := v.(type) {
	case *path.HopField:
		b := make([]byte, path.HopLen)
		return b, x.SerializeTo(b)
	case *path.InfoField:
		b := make([]byte, path.InfoLen)
		return b, x.SerializeTo(b)
	case *scion.MetaHdr:
		b := make([]byte, scion.MetaLen)
		return b, x.SerializeTo(b)
	case *scion.Raw:
		return serPath(x)
	case *scion.Decoded:
		return serPath(x)
	case *onehop.Path:
		return serPath(x)
	case *epic.Path:
		return serPath(x)
	case empty.Path:
		return serPath(x)
	case *slayers.SCION:
		b := newBuf(payload)
		if err := x.SerializeTo(b, opts); err != nil {
			return nil, err
		}
		return hdrOf(b, payload), nil
	case *slayers.UDP:
		b := newBuf(payload)
		if err := x.SerializeTo(b, opts); err != nil {
			return nil, err
		}
		return hdrOf(b, payload), nil
	case *scmpV:
		b := newBuf(payload)
		base := msgLayer(0, x.Base).(*slayers.SCMP)
		if id := nextID(base); id >= 0 {
			if err := msgLayer(id, x.Msg).SerializeTo(b, opts); err != nil {
				return nil, err
			}
		}
		if err := base.SerializeTo(b, opts); err != nil {
			return nil, err
		}
		return hdrOf(b, payload), nil
	case *fmtV:
		b := newBuf(payload)
		if err := msgLayer(x.ID, x.Vals).SerializeTo(b, opts); err != nil {
			return nil, err
		}
		return hdrOf(b, payload), nil
	case *extV:
		b := newBuf(payload)
		h, e := toTLVOpts(x.Opts)
		var err error
		if x.E2E {
			l := &slayers.EndToEndExtn{Options: e}
			l.NextHdr, l.ExtLen = slayers.L4ProtocolType(x.NextHdr), x.ExtLen
			err = l.SerializeTo(b, opts)
		} else {
			l := &slayers.HopByHopExtn{Options: h}
			l.NextHdr, l.ExtLen = slayers.L4ProtocolType(x.NextHdr), x.ExtLen
			err = l.SerializeTo(b, opts)
		}
		if err != nil {
			return nil, err
		}
		return hdrOf(b, payload), nil
	case *spaoV:
		o, err := slayers.NewPacketAuthOption(slayers.PacketAuthOptionParams{SPI: slayers.PacketAuthSPI(x.SPI),
			Algorithm: slayers.PacketAuthAlg(x.Alg), TimestampSN: x.TS, Auth: x.Auth})
		if err != nil {
			return nil, err
		}
		return append([]byte(nil), o.OptData...), nil
	case addr.Host:
		t, raw, err := slayers.PackAddr(x)
		if err != nil {
			return nil, err
		}
		return append([]byte{byte(t)}, raw...), nil
	}
	panic(fmt.Sprintf("ser: unexpected %T", v))
}

func fromTLV(t uint8, l uint8, d []byte, a [2]uint8) tlv {
	return tlv{Type: t, DataLen: l, Data: append([]byte(nil), d...), Align: a}
}

// dec runs the real decoder of layer lay on (a private copy of) bs.
func dec(lay string, id int, bs []byte) (any, []byte, error) {
	bs = append([]byte(nil), bs...)
	switch lay {
	case "Hdr.LHop":
		h := &path.HopField{}
		if err := h.DecodeFromBytes(bs); err != nil {
			return nil, nil, err
		}
		return h, bs[path.HopLen:], nil
	case "Hdr.LInfo":
		h := &path.InfoField{}
		if err := h.DecodeFromBytes(bs); err != nil {
			return nil, nil, err
		}
		return h, bs[path.InfoLen:], nil
	case "Hdr.LMeta":
		h := &scion.MetaHdr{}
		if err := h.DecodeFromBytes(bs); err != nil {
			return nil, nil, err
		}
		return h, bs[scion.MetaLen:], nil
	case "Hdr.LRaw":
		h := &scion.Raw{}
		if err := h.DecodeFromBytes(bs); err != nil {
			return nil, nil, err
		}
		return h, bs[h.Len():], nil
	case "Hdr.LDec":
		h := &scion.Decoded{}
		if err := h.DecodeFromBytes(bs); err != nil {
			return nil, nil, err
		}
		return h, bs[h.Len():], nil
	case "Hdr.LOneHop":
		h := &onehop.Path{}
		if err := h.DecodeFromBytes(bs); err != nil {
			return nil, nil, err
		}
		return h, bs[h.Len():], nil
	case "Hdr.LEpic":
		h := &epic.Path{}
		if err := h.DecodeFromBytes(bs); err != nil {
			return nil, nil, err
		}
		return h, bs[h.Len():], nil
	case "Hdr.LEmpty":
		h := empty.Path{}
		if err := h.DecodeFromBytes(bs); err != nil {
			return nil, nil, err
		}
		return h, bs[:0], nil
	case "Hdr.LScion":
		h := &slayers.SCION{}
		if err := h.DecodeFromBytes(bs, nofb); err != nil {
			return nil, nil, err
		}
		return h, h.Payload, nil
	case "Hdr.LUdp":
		h := &slayers.UDP{}
		if err := h.DecodeFromBytes(bs, nofb); err != nil {
			return nil, nil, err
		}
		return h, h.Payload, nil
	case "Hdr.LScmp":
		h := &slayers.SCMP{}
		if err := h.DecodeFromBytes(bs, nofb); err != nil {
			return nil, nil, err
		}
		out := &scmpV{Base: []uint64{uint64(h.TypeCode.Type()), uint64(h.TypeCode.Code()),
			uint64(h.Checksum)}, Msg: []uint64{}}
		mid := nextID(h)
		if mid < 0 {
			return out, h.Payload, nil
		}
		vals, rest, err := decodeMsg(mid, h.Payload)
		if err != nil {
			return nil, nil, err
		}
		out.Msg = vals
		return out, rest, nil
	case "Hdr.LFmt":
		vals, rest, err := decodeMsg(id, bs)
		if err != nil {
			return nil, nil, err
		}
		return &fmtV{ID: id, Vals: vals}, rest, nil
	case "Hdr.LExt HdrExt.HBH":
		h := &slayers.HopByHopExtn{}
		if err := h.DecodeFromBytes(bs, nofb); err != nil {
			return nil, nil, err
		}
		out := &extV{NextHdr: uint8(h.NextHdr), ExtLen: h.ExtLen}
		for _, o := range h.Options {
			out.Opts = append(out.Opts, fromTLV(uint8(o.OptType), o.OptDataLen, o.OptData, o.OptAlign))
		}
		return out, h.Payload, nil
	case "Hdr.LExt HdrExt.E2E":
		h := &slayers.EndToEndExtn{}
		if err := h.DecodeFromBytes(bs, nofb); err != nil {
			return nil, nil, err
		}
		out := &extV{E2E: true, NextHdr: uint8(h.NextHdr), ExtLen: h.ExtLen}
		for _, o := range h.Options {
			out.Opts = append(out.Opts, fromTLV(uint8(o.OptType), o.OptDataLen, o.OptData, o.OptAlign))
		}
		return out, h.Payload, nil
	case "Hdr.LSpao":
		o, err := slayers.ParsePacketAuthOption(&slayers.EndToEndOption{OptType: slayers.OptTypeAuthenticator,
			OptDataLen: uint8(len(bs)), OptData: bs})
		if err != nil {
			return nil, nil, err
		}
		return &spaoV{SPI: uint32(o.SPI()), Alg: uint8(o.Algorithm()), TS: o.TimestampSN(),
			Auth: append([]byte(nil), o.Authenticator()...)}, bs[:0], nil
	case "Hdr.LAddr":
		if len(bs) == 0 {
			return nil, nil, fmt.Errorf("empty")
		}
		h, err := slayers.ParseAddr(slayers.AddrType(bs[0]), bs[1:])
		if err != nil {
			return nil, nil, err
		}
		return h, bs[:0], nil
	}
	panic("dec: unexpected layer " + lay)
}

func layOf(v any) (string, int) {
	switch x := v.(type) {
	case *path.HopField:
		return "Hdr.LHop", 0
	case *path.InfoField:
		return "Hdr.LInfo", 0
	case *scion.MetaHdr:
		return "Hdr.LMeta", 0
	case *scion.Raw:
		return "Hdr.LRaw", 0
	case *scion.Decoded:
		return "Hdr.LDec", 0
	case *onehop.Path:
		return "Hdr.LOneHop", 0
	case *epic.Path:
		return "Hdr.LEpic", 0
	case empty.Path:
		return "Hdr.LEmpty", 0
	case *slayers.SCION:
		return "Hdr.LScion", 0
	case *slayers.UDP:
		return "Hdr.LUdp", 0
	case *scmpV:
		return "Hdr.LScmp", 0
	case *fmtV:
		return "Hdr.LFmt", x.ID
	case *extV:
		if x.E2E {
			return "Hdr.LExt HdrExt.E2E", 0
		}
		return "Hdr.LExt HdrExt.HBH", 0
	case *spaoV:
		return "Hdr.LSpao", 0
	case addr.Host:
		return "Hdr.LAddr", 0
	}
	panic(fmt.Sprintf("layOf: unexpected %T", v))
}

func layTerm(lay string, id int) string {
	if lay == "Hdr.LFmt" {
		return vgen.App(lay, n(uint64(id)))
	}
	if len(lay) > 8 && lay[:8] == "Hdr.LExt" {
		return "(" + lay + ")"
	}
	return lay
}

// takesPayload: layers whose decoder tolerates (and returns) trailing bytes.
func takesPayload(v any) bool {
	switch v.(type) {
	case empty.Path, *spaoV, addr.Host:
		return false
	}
	return true
}

// ---------------------------------------------------------------- case construction

type runner struct {
	serOverride func() ([]byte, error) // encValue: bytes produced by a reused object instead of ser(v)
	run      *vgen.Run
	maxHops  int
	maxBytes int
}

func pairT(v any, rest []byte) string { return vgen.Pair(term(v), bytesT(rest)) }

// genValue draws a header value of layer kind k.
func (rn *runner) genValue(r *vgen.Rand, k int, fix bool, payloadLen int) any {
	switch k {
	case 0:
		h := genHop(r)
		return &h
	case 1:
		h := genInfo(r)
		return &h
	case 2:
		h := genMeta(r, !r.Chance(1, 4))
		return &h
	case 3:
		return genRaw(r, rn.maxHops)
	case 4:
		return genDecoded(r, rn.maxHops)
	case 5:
		return genOneHop(r)
	case 6:
		return genEpic(r, rn.maxHops)
	case 7:
		return empty.Path{}
	case 8, 9, 10:
		return genSCION(r, rn.maxHops, fix, payloadLen)
	case 11:
		return genUDP(r, fix, payloadLen)
	case 12, 13:
		return genSCMP(r)
	case 14:
		id := r.Intn(8)
		return &fmtV{ID: id, Vals: genVals(r, fmtWidths[id])}
	case 15, 16, 17:
		return genExt(r, fix)
	case 18:
		return genSPAO(r)
	default:
		return genHost(r)
	}
}

const nKinds = 20

func usesFix(k int) bool { return (k >= 8 && k <= 11) || (k >= 15 && k <= 17) }

// encCase: field values -> bytes -> decoded again.
func kindTakesPayload(k int) bool { return k != 7 && k < 18 }

func (rn *runner) encCase(r *vgen.Rand, k int) {
	run := rn.run
	fix := usesFix(k) && r.Bool()
	plen := vgen.Pick(r, 0, 0, 1, 3, 8, 11)
	if !kindTakesPayload(k) {
		plen = 0
	}
	payload := r.Fork(2).Bytes(plen)
	vr := r.Fork(1)
	if !run.Want() {
		run.Skip()
		return
	}
	rn.encValue(rn.genValue(vr, k, fix, plen), fix, payload)
}

// encValue: one encoder-direction case for the value v.
func (rn *runner) encValue(v any, fix bool, payload []byte) {
	run := rn.run
	lay, id := layOf(v)
	before := term(v)
	var hb []byte
	var err error
	var redec any
	var rest []byte
	var derr error
	pan, msg := vgen.Recover(func() {
		if rn.serOverride != nil {
			hb, err = rn.serOverride()
		} else {
			hb, err = ser(v, fix, payload)
		}
		if err == nil {
			redec, rest, derr = dec(lay, id, append(append([]byte(nil), hb...), payload...))
		}
	})
	desc := map[string]any{"dir": "enc", "layer": lay, "fix": fix, "value": before, "payload": payload}
	if pan {
		run.Violate(run.Add("enc-"+lay, "Hdr.CEnc false Hdr.HEmpty [] None None", before, false, desc),
			"panic in SerializeTo/DecodeFromBytes: "+msg, desc)
		return
	}
	implT, redecT := "None", "None"
	if err == nil {
		implT = vgen.Opt(bytesT(hb), true)
		if derr == nil {
			redecT = vgen.Opt(pairT(redec, rest), true)
		}
	}
	run.Tally(fmt.Sprintf("enc:%s:fix=%v:ok=%v:redec=%v", lay, fix, err == nil, err == nil && derr == nil))
	desc["impl"] = fmt.Sprintf("%x", hb)
	desc["err"] = fmt.Sprint(err)
	run.Add("enc-"+lay, vgen.App("Hdr.CEnc", vgen.B(fix), before, bytesT(payload), implT, redecT),
		before+fmt.Sprint(fix, payload), err == nil && derr == nil, desc)
}

// decCase: bytes -> decoded -> serialized again.
func (rn *runner) decCase(lay string, id int, bs []byte, how string, mutatedLen bool) {
	rn.decCaseR(lay, id, bs, how, mutatedLen, nil)
}

// reusable is one long-lived layer / path object that is decoded into repeatedly.
type reusable struct {
	lay    string
	id     int
	decode func(bs []byte) (view any, rest []byte, err error) // into the captured object
	reser  func(rest []byte) ([]byte, error)                  // serialize the captured object
}

// decCaseR: like decCase; with ru != nil the bytes are decoded into ru's reused object (whose
// state stems from the previous steps of the sequence) and re-serialized from that object, and
// compared with the (stateless) model applied to these bytes alone.
func (rn *runner) decCaseR(lay string, id int, bs []byte, how string, mutatedLen bool, ru *reusable) {
	run := rn.run
	if !run.Want() {
		if ru != nil { // keep the object's history identical under -only
			vgen.Recover(func() {
				if _, rest, err := ru.decode(append([]byte(nil), bs...)); err == nil {
					_, _ = ru.reser(append([]byte(nil), rest...))
				}
			})
		}
		run.Skip()
		return
	}
	if lay == "Hdr.LAddr" {
		// ParseAddr is only ever called with len(raw) == addrType.Length() (that is what
		// DecodeAddrHdr produces); with a shorter slice raw[:2] depends on the slice's capacity.
		if len(bs) == 0 {
			bs = []byte{0}
		}
		want := 1 + 4*(1+int(bs[0]&3))
		bs = append(append([]byte(nil), bs...), make([]byte, 16)...)[:want]
	}
	var v any
	var rest, rs []byte
	var err, rerr error
	slack := false
	pan, msg := vgen.Recover(func() {
		if ru != nil {
			v, rest, err = ru.decode(append([]byte(nil), bs...))
		} else {
			v, rest, err = dec(lay, id, bs)
		}
		if err == nil {
			if s, ok := v.(*slayers.SCION); ok {
				slack = int(s.HdrLen)*4 > slayers.CmnHdrLen+s.AddrHdrLen()+s.Path.Len()
			}
		}
	})
	desc := map[string]any{"dir": "dec", "layer": lay, "id": id, "how": how, "bytes": fmt.Sprintf("%x", bs)}
	lt := layTerm(lay, id)
	if pan {
		run.Violate(run.Add("dec-"+lay, vgen.App("Hdr.CDec", lt, bytesT(bs), "None", "None"),
			fmt.Sprintf("%s%x", lay, bs), false, desc), "panic in DecodeFromBytes: "+msg, desc)
		return
	}
	var tags []string
	if slack {
		tags = append(tags, "hdrlen-slack")
	}
	if lay == "Hdr.LUdp" && len(bs) >= 8 && int(binary.BigEndian.Uint16(bs[4:6])) > len(bs) {
		tags = append(tags, "udp-length-exceeds-data")
	}
	implT, reserT := "None", "None"
	if err == nil {
		implT = vgen.Opt(pairT(v, rest), true) // before re-serialization (which may touch the struct)
		restCopy := append([]byte(nil), rest...)
		pan, msg = vgen.Recover(func() {
			if ru != nil {
				rs, rerr = ru.reser(restCopy)
			} else {
				rs, rerr = ser(v, false, restCopy)
			}
		})
		if pan {
			run.Violate(run.Add("dec-"+lay, vgen.App("Hdr.CDec", lt, bytesT(bs), implT, "None"),
				fmt.Sprintf("%s%x", lay, bs), false, desc), "panic when serializing a decoded value: "+msg, desc)
			return
		}
		if rerr == nil {
			reserT = vgen.Opt(bytesT(rs), true)
		}
		desc["decoded"] = term(v)
		desc["reser"] = fmt.Sprintf("%x", rs)
	}
	run.Tally(fmt.Sprintf("dec:%s:%s:accept=%v", lay, how, err == nil))
	run.Add("dec-"+lay, vgen.App("Hdr.CDec", lt, bytesT(bs), implT, reserT),
		fmt.Sprintf("%s/%d/%x", lay, id, bs), err == nil || mutatedLen, desc, tags...)
}

// lenOffsets: byte offsets of length / type / pointer fields of a valid serialization.
func lenOffsets(lay string, bs []byte) []int {
	switch lay {
	case "Hdr.LScion", "Hdr.LScionR":
		o := []int{5, 8, 9, 6, 7}
		if len(bs) > 12 {
			tl := bs[9]
			p := 12 + 16 + 4*(1+int(tl>>4&3)) + 4*(1+int(tl&3))
			switch bs[8] {
			case 1:
				o = append(o, p, p+1, p+2, p+3)
			case 3:
				o = append(o, p+16, p+17, p+18, p+19)
			}
		}
		return o
	case "Hdr.LRaw", "Hdr.LDec", "Hdr.LMeta":
		return []int{0, 1, 2, 3}
	case "Hdr.LEpic":
		return []int{16, 17, 18, 19}
	case "Hdr.LUdp":
		return []int{4, 5}
	case "Hdr.LScmp", "Hdr.LFmt":
		return []int{0, 1}
	case "Hdr.LExt HdrExt.HBH", "Hdr.LExt HdrExt.E2E":
		return []int{0, 1, 2, 3, 4, 5}
	case "Hdr.LAddr":
		return []int{0}
	}
	return []int{0}
}

func main() {
	run := vgen.Flags("C18")
	run.Imports = []string{"Model.HdrPath", "Model.HdrScion", "Model.HdrL4", "Model.HdrExt", "Model.Hdr"}
	run.CheckFn = "Hdr.check"
	run.DiagFn = "Hdr.diag"
	run.CaseType = "Hdr.case"
	run.ShardSize = 160
	run.Rule = "per layer (hop, info, meta, scion.Raw, scion.Decoded, one-hop, EPIC, empty, SCION header with " +
		"every path and address type, UDP, SCMP + every message, HBH/E2E with TLV options, SPAO, ParseAddr/PackAddr): " +
		"enc = generated field values (mostly well-formed, some outside the wire format) through the real SerializeTo " +
		"(FixLengths on and off) and decoded again; dec = valid serializations, single-byte mutations (length/type/" +
		"pointer fields preferred), every truncation of short packets, random bytes, through the real DecodeFromBytes " +
		"and serialized again; sequences of 4-6 decodes (long/short alternating, valid/truncated/mutated/random) into ONE " +
		"reused scion.Decoded / scion.Raw / epic.Path / onehop.Path / slayers.SCION (RecyclePaths off and on) / HBH / E2E / " +
		"SCMP object, every step compared with the stateless model on that step's bytes; ExtLen boundaries 0,1,254,255 " +
		"(1024-byte extension) in both directions incl. truncations; non-trivial =accepted by the decoder (enc: serialized and decoded again) or a mutation " +
		"of a length field"
	rng := vgen.NewRand(run.Seed)
	rn := &runner{run: run, maxHops: 8, maxBytes: 40}
	if run.Tier == "thorough" {
		rn.maxHops = 64
	}

	// 1. encoder direction
	nEnc := run.Count(1000, 30000)
	for i := 0; i < nEnc; i++ {
		r := rng.Fork(uint64(i))
		rn.encCase(r, r.Intn(nKinds))
	}

	// 2. decoder direction: valid, mutated, truncated
	nDec := run.Count(600, 20000)
	for i := 0; i < nDec; i++ {
		r := rng.Fork(uint64(1_000_000 + i))
		k := r.Intn(nKinds)
		plen := vgen.Pick(r, 0, 0, 2, 5, 9)
		v := rn.genValue(r, k, false, plen)
		if !takesPayload(v) {
			plen = 0
		}
		payload := r.Bytes(plen)
		lay, id := layOf(v)
		var hb []byte
		var err error
		if pan, _ := vgen.Recover(func() { hb, err = ser(v, false, payload) }); pan || err != nil {
			hb = r.Bytes(r.Intn(30)) // not serializable: use random bytes instead
		}
		bs := append(hb, payload...)
		if _, ok := v.(*slayers.SCION); ok && err == nil && len(hb) >= 12 && r.Chance(1, 4) {
			// HdrLen announces k more lines than address header + path occupy
			if k := r.Range(1, 3); int(hb[5])+k <= 255 {
				nb := append([]byte(nil), hb...)
				nb[5] += byte(k)
				nb = append(append(nb, r.Bytes(4*k)...), payload...)
				rn.decCase(lay, id, nb, "slack", true)
				continue
			}
		}
		mode := r.Intn(10)
		switch {
		case mode < 3: // as serialized
			rn.decCase(lay, id, bs, "valid", false)
		case mode < 8 && len(bs) > 0: // one byte changed
			offs := lenOffsets(lay, bs)
			off := r.Intn(len(bs))
			isLen := false
			if r.Chance(2, 3) {
				off = offs[r.Intn(len(offs))]
				isLen = true
			}
			if off >= len(bs) {
				off, isLen = len(bs)-1, false
			}
			old := bs[off]
			nv := byte(r.Intn(256))
			switch r.Intn(5) {
			case 0:
				nv = old + 1
			case 1:
				nv = old - 1
			case 2:
				nv = vgen.Pick[byte](r, 0, 255, 1, 0x40, 0x80)
			}
			bs[off] = nv
			rn.decCase(lay, id, bs, "mutated", isLen && nv != old)
		default: // random bytes
			rn.decCase(lay, id, r.Bytes(r.Intn(rn.maxBytes)), "random", false)
		}
	}

	// 3. every truncation of a few short packets per layer
	nTr := run.Count(1, 12)
	for k := 0; k < nKinds; k++ {
		for j := 0; j < nTr; j++ {
			r := rng.Fork(uint64(2_000_000 + 100*k + j))
			v := rn.genValue(r, k, false, 2)
			lay, id := layOf(v)
			var payload []byte
			if takesPayload(v) {
				payload = r.Bytes(2)
			}
			var hb []byte
			var err error
			if pan, _ := vgen.Recover(func() { hb, err = ser(v, false, payload) }); pan || err != nil {
				continue
			}
			bs := append(hb, payload...)
			if len(bs) > 110 {
				bs = bs[:110]
			}
			for cut := 0; cut < len(bs); cut++ {
				rn.decCase(lay, id, bs[:cut], "truncated", false)
			}
		}
	}
	// 4. boundary path sizes: 63/64 hops are accepted, 65 and more are rejected
	for j, sl := range [][3]uint8{{63, 1, 0}, {21, 21, 22}, {62, 1, 0}, {63, 2, 0}, {63, 63, 63}, {64, 0, 0},
		{64, 1, 0}, {0, 0, 1}, {1, 0, 1}, {0, 0, 0}} {
		r := rng.Fork(uint64(3_000_000 + j))
		d := &scion.Decoded{}
		d.PathMeta.SegLen = sl
		for i := 0; i < 3; i++ {
			if sl[i] > 0 {
				d.NumINF = i + 1
			}
			d.NumHops += int(sl[i])
		}
		d.InfoFields = make([]path.InfoField, d.NumINF)
		for i := range d.InfoFields {
			d.InfoFields[i] = genInfo(r)
		}
		d.HopFields = make([]path.HopField, d.NumHops)
		for i := range d.HopFields {
			d.HopFields[i] = genHop(r)
		}
		bs := make([]byte, d.Len())
		if err := d.SerializeTo(bs); err != nil {
			panic(err)
		}
		bs = append(bs, r.Bytes(2)...)
		rn.decCase("Hdr.LRaw", 0, bs, "boundary", true)
		if j < 2 || d.NumHops > 64 || d.NumHops < 3 {
			rn.decCase("Hdr.LDec", 0, bs, "boundary", true)
		}
		if j < 3 { // the encoder direction at the maximum path size
			if run.Want() {
				rn.encValue(d, false, nil)
			} else {
				run.Skip()
			}
		}
	}
	// 5. decode sequences on reused objects; 6. ExtLen boundary values; 7. every PathType on a
	// fresh and on one reused recycling layer; 8. Reset sequences on one PacketAuthOption (seq.go)
	rn.sequences(rng)
	rn.extBoundaries(rng)
	rn.pathTypeSweep(rng)
	rn.spaoSequences(rng)
	run.Finish()
}
