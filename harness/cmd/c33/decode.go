package main

// Decoder direction: the rules must hold for what DecodeTRC accepts, not only
// for structs. Valid payloads are encoded, unmarshalled into a local mirror of
// the ASN.1 structure, edited in one field and marshalled again (TRC.Encode
// refuses to produce such bytes); DecodeTRC must reject every edit that
// violates a rule - with the class the model gives the edited payload - and
// accept the harmless ones, returning a payload that re-encodes to its input.

import (
	"bytes"
	"encoding/asn1"
	"errors"
	"fmt"
	"strings"
	"time"

	"github.com/scionproto/scion/pkg/scrypto/cppki"
	"verifharness/internal/trcgen"
	"verifharness/internal/vgen"
)

type mirrorID struct {
	ISD    int64
	Serial int64
	Base   int64
}

type mirrorValidity struct {
	NotBefore time.Time `asn1:"generalized"`
	NotAfter  time.Time `asn1:"generalized"`
}

type mirrorPayload struct {
	Version           int64
	ID                mirrorID
	Validity          mirrorValidity
	GracePeriod       int64
	NoTrustReset      bool
	Votes             []int64
	Quorum            int64
	CoreASes          []string
	AuthoritativeASes []string
	Description       string `asn1:"utf8"`
	Certificates      []asn1.RawValue
}

const decodeEdits = 24

// editBoth applies edit k to the DER mirror and to the abstract payload.
// wantBase says which kind of TRC the edit needs (0 any, 1 base, 2 update).
func editKind(k int) int {
	switch k {
	case 0, 1:
		return 1
	case 19, 20:
		return 2
	}
	return 0
}

func editBoth(r *vgen.Rand, k int, m *mirrorPayload, t *trcgen.TRC) string {
	switch k {
	case 0:
		m.Votes, t.Votes = []int64{0, 1}, []int64{0, 1}
		return "votes-on-base"
	case 1:
		m.GracePeriod, t.Grace = 3600, 3600
		return "grace-on-base"
	case 2:
		m.Quorum, t.Quorum = 0, 0
		return "quorum-0"
	case 3:
		m.Quorum, t.Quorum = 256, 256
		return "quorum-256"
	case 4:
		m.Quorum, t.Quorum = -1, -1
		return "quorum-negative"
	case 5:
		m.CoreASes, t.Core = []string{}, nil
		return "core-empty"
	case 6:
		m.AuthoritativeASes, t.Auth = []string{}, nil
		return "auth-empty"
	case 7:
		if t.Base < 2 {
			m.ID.Base, t.Base = m.ID.Base+5, t.Base+5
			m.ID.Serial, t.Serial = m.ID.Serial+5, t.Serial+5
		}
		m.ID.Serial, t.Serial = m.ID.Base-1, t.Base-1
		return "serial-below-base"
	case 8:
		m.ID.ISD, t.ISD = 0, 0
		return "isd-0"
	case 9:
		m.ID.Base, t.Base = 0, 0
		return "base-0"
	case 10:
		m.Version, t.Version = 1, 2
		return "version"
	case 11:
		m.Validity.NotAfter, t.NA = m.Validity.NotBefore, t.NB
		return "validity-empty"
	case 12:
		m.CoreASes = append(m.CoreASes, m.CoreASes[0])
		t.Core = append(t.Core, t.Core[0])
		return "core-duplicate"
	case 13:
		m.AuthoritativeASes = append(m.AuthoritativeASes, "0")
		t.Auth = append(t.Auth, 0)
		return "auth-wildcard"
	case 14:
		m.Quorum, t.Quorum = int64(len(t.Certs)), int64(len(t.Certs))
		return "quorum-above-voters"
	case 15:
		m.Certificates = append(m.Certificates, m.Certificates[0])
		t.Certs = append(t.Certs, t.Certs[0])
		return "certificate-twice"
	case 16:
		m.Validity.NotBefore = m.Validity.NotBefore.Add(-30 * 24 * time.Hour)
		t.NB -= 30 * 24 * 3600
		return "validity-starts-before-certificates"
	case 17:
		m.AuthoritativeASes = append(m.AuthoritativeASes, m.AuthoritativeASes[0])
		t.Auth = append(t.Auth, t.Auth[0])
		return "auth-duplicate"
	// harmless edits: must be accepted
	case 18:
		m.Description, t.Description = m.Description+" (edited)", t.Description+" (edited)"
		return "ok-description"
	case 19:
		m.GracePeriod, t.Grace = 7200, 7200
		return "ok-grace-on-update"
	case 20:
		m.Votes, t.Votes = []int64{2, 0, 1}, []int64{2, 0, 1}
		return "ok-votes-on-update"
	case 21:
		m.NoTrustReset, t.NoTrustReset = !m.NoTrustReset, !t.NoTrustReset
		return "ok-no-trust-reset"
	case 22:
		m.Quorum, t.Quorum = 1, 1
		return "ok-quorum-1"
	case 23:
		m.Votes, t.Votes = []int64{}, nil
		return "ok-no-votes"
	}
	return "?"
}

var decodeMsgs = []struct {
	sub  string
	code int
}{
	{"unsupported version", 1}, {"error decoding ID", 2}, {"invalid validity", 3}, {"wildcard AS", 8},
}

func decodeCode(err error) int {
	if err == nil {
		return 0
	}
	for _, s := range sentinels {
		if errors.Is(err, s.err) {
			return s.code
		}
	}
	for _, m := range decodeMsgs {
		if strings.Contains(err.Error(), m.sub) {
			return m.code
		}
	}
	return 99
}

func decodeStream(run *vgen.Run, rng *vgen.Rand, f *trcgen.Factory) {
	n := run.Count(3*decodeEdits, 40*decodeEdits)
	for i := 0; i < n; i++ {
		r := rng.Fork(uint64(5000000 + i))
		k := i % decodeEdits
		base := r.Bool()
		switch editKind(k) {
		case 1:
			base = true
		case 2:
			base = false
		}
		isd := uint64(r.Range(1, 3))
		if r.Chance(1, 8) {
			isd = trcgen.MaxISD
		}
		t := trcgen.GenTRC(r, isd, base, trcgen.RandShape(r), 10*r.Intn(5))
		if !run.Want() {
			run.Skip()
			continue
		}
		real, t := f.BuildTRC(t)
		raw, err := real.Encode()
		if err != nil {
			panic("decode stream: generated payload does not encode: " + err.Error())
		}
		var m mirrorPayload
		if rest, err := asn1.Unmarshal(raw, &m); err != nil || len(rest) != 0 {
			panic(fmt.Sprint("decode stream: mirror does not parse the payload: ", err))
		}
		if again, err := asn1.Marshal(m); err != nil || !bytes.Equal(again, raw) {
			panic("decode stream: mirror does not re-marshal bit-identically")
		}
		what := editBoth(r, k, &m, &t)
		der, err := asn1.Marshal(m)
		if err != nil {
			panic("decode stream: " + err.Error())
		}
		var dec cppki.TRC
		var derr error
		if p, msg := vgen.Recover(func() { dec, derr = cppki.DecodeTRC(der) }); p {
			id := run.Add("decode", vgen.App("PKI.CDecode", t.Gallina(), "98")+"%Z", t.Gallina(), true,
				map[string]any{"edit": what, "panic": msg})
			run.Violate(id, "DecodeTRC panicked: "+msg, what)
			continue
		}
		code := decodeCode(derr)
		run.Tally(fmt.Sprintf("decode:%s-code%d", what, code))
		id := run.Add("decode", vgen.App("PKI.CDecode", t.Gallina(), vgen.Z(int64(code)))+"%Z", t.Gallina(), true,
			map[string]any{"edit": what, "impl_code": code, "err": fmt.Sprint(derr)})
		if derr != nil {
			continue
		}
		// what DecodeTRC accepts must be the payload its input encodes
		if again, err := dec.Encode(); err != nil || !bytes.Equal(again, der) || !bytes.Equal(dec.Raw, der) {
			run.Violate(id, "payload accepted by DecodeTRC does not re-encode to its input bytes", what, "roundtrip")
			continue
		}
		run.Tally("decode:reencode-ok")
	}
}
