// Runner for C33: TRC payload validation (TRC.Validate, ValidateCert) on the
// real pkg/scrypto/cppki code against Model/PKI.v, plus the Go-side
// Encode -> DecodeTRC round trip of every valid payload.
package main

import (
	"bytes"
	"errors"
	"fmt"

	"github.com/scionproto/scion/pkg/scrypto/cppki"
	"verifharness/internal/trcgen"
	"verifharness/internal/vgen"
)

var sentinels = []struct {
	err  error
	code int
}{
	{cppki.ErrInvalidTRCVersion, 1}, {cppki.ErrInvalidID, 2}, {cppki.ErrInvalidValidityPeriod, 3},
	{cppki.ErrGracePeriodNonZero, 4}, {cppki.ErrVotesOnBaseTRC, 5}, {cppki.ErrInvalidQuorumSize, 6},
	{cppki.ErrNoASes, 7}, {cppki.ErrWildcardAS, 8}, {cppki.ErrDuplicateAS, 9},
	{cppki.ErrUnclassifiedCertificate, 10}, {cppki.ErrInvalidCertType, 11},
	{cppki.ErrNotEnoughVoters, 12}, {cppki.ErrCertForOtherISD, 14},
	{cppki.ErrTRCValidityNotCovered, 15}, {cppki.ErrDuplicate, 16},
}

// ValidateCode maps the error of TRC.Validate to the code of PKI.verr_code.
func validateCode(err error) int {
	if err == nil {
		return 0
	}
	for _, s := range sentinels {
		if errors.Is(err, s.err) {
			return s.code
		}
	}
	return 99
}

func sameTRC(a, b *cppki.TRC) string {
	switch {
	case a.Version != b.Version:
		return "version"
	case a.ID != b.ID:
		return "id"
	case !a.Validity.NotBefore.Equal(b.Validity.NotBefore) || !a.Validity.NotAfter.Equal(b.Validity.NotAfter):
		return "validity"
	case a.GracePeriod != b.GracePeriod:
		return "grace period"
	case a.NoTrustReset != b.NoTrustReset:
		return "noTrustReset"
	case fmt.Sprint(a.Votes) != fmt.Sprint(b.Votes) || len(a.Votes) != len(b.Votes):
		return "votes"
	case a.Quorum != b.Quorum:
		return "quorum"
	case fmt.Sprint(a.CoreASes) != fmt.Sprint(b.CoreASes) || len(a.CoreASes) != len(b.CoreASes):
		return "core ASes"
	case fmt.Sprint(a.AuthoritativeASes) != fmt.Sprint(b.AuthoritativeASes) ||
		len(a.AuthoritativeASes) != len(b.AuthoritativeASes):
		return "authoritative ASes"
	case a.Description != b.Description:
		return "description"
	case len(a.Certificates) != len(b.Certificates):
		return "number of certificates"
	}
	for i := range a.Certificates {
		if !bytes.Equal(a.Certificates[i].Raw, b.Certificates[i].Raw) {
			return fmt.Sprintf("certificate %d", i)
		}
	}
	return ""
}

func main() {
	run := vgen.Flags("C33")
	run.Imports = []string{"Model.PKI"}
	run.CheckFn = "PKI.check"
	run.DiagFn = "PKI.diag"
	run.CaseType = "PKI.case"
	run.ShardSize = 120
	run.Rule = "certificates: well-formed certificates of the five classes with 0-2 of 27 mutations " +
		"(usages, constraints, key ids, ISD-AS attributes), real x509 DER built per case, ValidateCert type compared; " +
		"payloads: valid base/update TRCs over 3-8 certificates with 0, 1 or 2 of 32 mutations (25 aimed at one " +
		"rule of TRC.Validate each, 7 at the accepting side of a boundary), plus 30 valid payloads on the boundaries of the " +
		"documented ranges (ISD 1/2/65534/65535, base/serial 1, 2^31, 2^63-1, quorum 1/max, grace 0/large, validity 1 s / " +
		"epoch..9999, AS 1/2^32-1/2^32/2^48-1, extreme vote indices, 1024-char description); verdict and sentinel error class compared; " +
		"decoder direction: valid payloads re-marshalled through a mirror of the ASN.1 structure with one of 24 single-field " +
		"edits (18 violating one rule each, 6 harmless), DecodeTRC verdict and error class compared, accepted input must re-encode to itself; " +
		"every accepted payload is encoded, decoded and compared field by field on the Go side (a failure is a violation); " +
		"non-trivial = every payload case, and certificate cases that classify or were mutated"
	rng := vgen.NewRand(run.Seed)
	f := trcgen.NewFactory()

	// 1. certificates
	nc := run.Count(250, 10000)
	for i := 0; i < nc; i++ {
		r := rng.Fork(uint64(i))
		id := 1 + r.Intn(40)
		isd := uint64(r.Range(1, 2))
		n := trcgen.Name{ID: id, IA: trcgen.IA{Kind: 2, ISD: isd, AS: 0x100 + uint64(r.Intn(5))}}
		iss := trcgen.Name{ID: 50 + r.Intn(5), IA: trcgen.IA{Kind: 2, ISD: isd, AS: 0x200}}
		var c trcgen.Cert
		cl := r.Intn(5)
		switch cl {
		case 0:
			c = trcgen.Voter(1, n, int64(id), id, 0, 3600)
		case 1:
			c = trcgen.Voter(2, n, int64(id), id, 0, 3600)
		case 2:
			c = trcgen.RootCert(n, int64(id), id, 0, 3600)
		case 3:
			c = trcgen.CACert(n, iss, int64(id), id, 0, 3600)
		default:
			c = trcgen.ASCert(n, iss, int64(id), id, 0, 3600)
		}
		nm := vgen.Pick(r, 0, 1, 1, 1, 2)
		var muts []string
		for j := 0; j < nm; j++ {
			var w string
			c, w = trcgen.MutateCert(r, c, r.Intn(trcgen.CertMutations))
			muts = append(muts, w)
		}
		if !run.Want() {
			run.Skip()
			continue
		}
		x, c := f.Build(c)
		ct, err := cppki.ValidateCert(x)
		code := int(ct)
		if err != nil {
			code = 0
		}
		run.Tally(fmt.Sprintf("cert:class%d-mut%d-type%d", cl, nm, code))
		run.Add("cert", vgen.App("PKI.CCert", c.Gallina(), vgen.Z(int64(code)))+"%Z", c.Gallina(),
			code != 0 || nm > 0, map[string]any{"class": cl, "mutations": muts, "impl_type": code})
	}

	// 2. payloads
	nt := run.Count(600, 30000)
	for i := 0; i < nt+trcgen.Boundaries; i++ {
		r := rng.Fork(uint64(1000000 + i))
		isd := uint64(r.Range(1, 3))
		if r.Chance(1, 8) {
			isd = vgen.Pick(r, uint64(trcgen.MaxISD-1), trcgen.MaxISD)
		}
		t := trcgen.GenTRC(r, isd, r.Chance(2, 5), trcgen.RandShape(r), 10*r.Intn(5))
		var muts []string
		nm := 0
		switch {
		case i >= nt:
			// valid payloads on the boundaries of the documented ranges, every run
			var w string
			t, w = trcgen.Boundary(r, i-nt)
			muts = append(muts, "boundary:"+w)
		case i < 2*trcgen.TRCMutations:
			nm = 1
		default:
			nm = vgen.Pick(r, 0, 1, 1, 2, 2)
		}
		for j := 0; j < nm; j++ {
			k := r.Intn(trcgen.TRCMutations)
			if i < 2*trcgen.TRCMutations {
				k = i % trcgen.TRCMutations // every single mutation at least twice in every run
			}
			var w string
			t, w = trcgen.MutateTRC(r, t, k)
			muts = append(muts, w)
		}
		if !run.Want() {
			run.Skip()
			continue
		}
		real, t := f.BuildTRC(t)
		var verr error
		id := -1
		if p, msg := vgen.Recover(func() { verr = real.Validate() }); p {
			id = run.Add("validate", vgen.App("PKI.CValidate", t.Gallina(), "98")+"%Z", t.Gallina(), true,
				map[string]any{"mutations": muts, "panic": msg})
			run.Violate(id, "TRC.Validate panicked: "+msg, muts)
			continue
		}
		code := validateCode(verr)
		run.Tally(fmt.Sprintf("validate:mut%d-code%d", nm, code))
		for _, m := range muts {
			run.Tally("mutation:" + m[:min(len(m), 24)])
		}
		id = run.Add("validate", vgen.App("PKI.CValidate", t.Gallina(), vgen.Z(int64(code)))+"%Z", t.Gallina(),
			true, map[string]any{"mutations": muts, "impl_code": code, "err": fmt.Sprint(verr),
				"id": fmt.Sprintf("ISD%d-B%d-S%d", t.ISD, t.Base, t.Serial)})
		if verr != nil {
			continue
		}
		// Encode -> DecodeTRC round trip (implementation only; ASN.1 is not modelled)
		raw, err := real.Encode()
		if err != nil {
			run.Violate(id, "valid TRC does not encode: "+err.Error(), muts, "roundtrip")
			continue
		}
		dec, err := cppki.DecodeTRC(raw)
		if err != nil {
			run.Violate(id, "encoded valid TRC does not decode: "+err.Error(), muts, "roundtrip")
			continue
		}
		if d := sameTRC(&real, &dec); d != "" {
			run.Violate(id, "round trip changes "+d, muts, "roundtrip")
			continue
		}
		raw2, err := dec.Encode()
		if err != nil || !bytes.Equal(raw, raw2) || !bytes.Equal(dec.Raw, raw) {
			run.Violate(id, "re-encoding the decoded TRC gives other bytes", muts, "roundtrip")
			continue
		}
		run.Tally("roundtrip:ok")
	}
	// 2b. serial / base numbers beyond what the ASN.1 INTEGER of the payload carries (int64): valid by
	// TRC.Validate (1 <= base <= serial as unsigned numbers), yet the encoding wraps to a negative number
	// that DecodeTRC rejects -- known finding serial-beyond-int63
	for k, ser := range []uint64{1 << 63, 1<<63 + 7, 1<<64 - 2} {
		r := rng.Fork(uint64(7000000 + k))
		t := trcgen.GenTRC(r, uint64(r.Range(1, 3)), false, trcgen.RandShape(r), 0)
		t.Serial = ser
		if k == 2 {
			t.Base = 1<<63 + 1
		}
		if !run.Want() {
			run.Skip()
			continue
		}
		real, t := f.BuildTRC(t)
		verr := real.Validate()
		code := validateCode(verr)
		id := run.Add("validate", vgen.App("PKI.CValidate", t.Gallina(), vgen.Z(int64(code)))+"%Z", t.Gallina(),
			true, map[string]any{"mutations": []string{"serial-beyond-int63"}, "impl_code": code, "err": fmt.Sprint(verr),
				"id": fmt.Sprintf("ISD%d-B%d-S%d", t.ISD, t.Base, t.Serial)})
		run.Tally(fmt.Sprintf("serial-beyond-int63:validate-code%d", code))
		if verr != nil {
			continue
		}
		raw, err := real.Encode()
		if err != nil {
			run.Violate(id, "valid TRC does not encode: "+err.Error(), t.Serial, "roundtrip", "serial-beyond-int63")
			continue
		}
		dec, err := cppki.DecodeTRC(raw)
		if err != nil {
			run.Violate(id, "encoded valid TRC does not decode: "+err.Error(), t.Serial, "roundtrip", "serial-beyond-int63")
			continue
		}
		if d := sameTRC(&real, &dec); d != "" {
			run.Violate(id, "round trip changes "+d, t.Serial, "roundtrip", "serial-beyond-int63")
			continue
		}
		run.Tally("roundtrip:ok-serial-beyond-int63")
	}
	// 3. decoder direction
	decodeStream(run, rng, f)

	// quorum at its upper boundary needs 255 sensitive and 255 regular voters: 511 certificates.
	// Quick tier: implementation only (accepted, round trip; 256 rejected as invalid quorum size);
	// thorough tier: also as model cases.
	for _, q := range []int64{255, 256} {
		r := rng.Fork(uint64(3000000 + q))
		t := trcgen.GenTRC(r, trcgen.MaxISD, true, trcgen.Shape{Sens: int(q), Reg: int(q), Root: 1}, 0)
		t.Quorum = q
		if run.Tier == "thorough" && !run.Want() {
			run.Skip()
			continue
		}
		real, t := f.BuildTRC(t)
		verr := real.Validate()
		code := validateCode(verr)
		id := -1
		if run.Tier == "thorough" {
			id = run.Add("validate", vgen.App("PKI.CValidate", t.Gallina(), vgen.Z(int64(code)))+"%Z",
				fmt.Sprint("quorum", q), true, map[string]any{"mutations": []string{fmt.Sprint("boundary:quorum-", q)}, "impl_code": code})
		}
		switch {
		case q == 255 && verr != nil:
			run.Violate(id, "quorum 255 with 255 sensitive and 255 regular voters rejected: "+verr.Error(), q)
		case q == 256 && code != 6:
			run.Violate(id, fmt.Sprint("quorum 256 not rejected as invalid quorum size: ", verr), q)
		case q == 255:
			raw, err := real.Encode()
			if err != nil {
				run.Violate(id, "valid TRC does not encode: "+err.Error(), q, "roundtrip")
				break
			}
			dec, err := cppki.DecodeTRC(raw)
			if err != nil {
				run.Violate(id, "encoded valid TRC does not decode: "+err.Error(), q, "roundtrip")
			} else if d := sameTRC(&real, &dec); d != "" {
				run.Violate(id, "round trip changes "+d, q, "roundtrip")
			} else {
				run.Tally("roundtrip:ok-quorum-255")
			}
		}
	}
	run.Extra("distinct_certificates_built", f.NumCerts())
	run.Finish()
}
