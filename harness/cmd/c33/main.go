package main

import (
	"encoding/asn1"
	"fmt"
	"math/big"

	"github.com/scionproto/scion/pkg/scrypto/cms/protocol"
	"github.com/scionproto/scion/pkg/scrypto/cppki"
	"verifharness/internal/trcgen"
	"verifharness/internal/vgen"
)

func voter(kind int, id int, ia trcgen.IA) trcgen.Cert {
	n := trcgen.Name{ID: id, IA: ia}
	return trcgen.Cert{EKUs: []int{kind}, TS: true, PathLen: -1, SigAlgOK: true, SKID: id, Subject: n, Issuer: n,
		Serial: int64(id), NB: 1000, NA: 900000, Key: id}
}
func root(id int, ia trcgen.IA) trcgen.Cert {
	n := trcgen.Name{ID: id, IA: ia}
	return trcgen.Cert{EKUs: []int{3}, CertSign: true, TS: true, BC: true, CA: true, PathLen: 1, SigAlgOK: true, SKID: id, Subject: n, Issuer: n,
		Serial: int64(id), NB: 1000, NA: 900000, Key: id}
}

func main() {
	f := trcgen.NewFactory()
	ia := trcgen.IA{Kind: 2, ISD: 1, AS: 0xff0000000110}
	ia2 := trcgen.IA{Kind: 2, ISD: 1, AS: 0xff0000000111}
	base := trcgen.TRC{Version: 1, ISD: 1, Base: 1, Serial: 1, NB: 2000, NA: 800000, Quorum: 1,
		Core: []uint64{0xff0000000110}, Auth: []uint64{0xff0000000110},
		Certs: []trcgen.Cert{voter(1, 1, ia), voter(2, 2, ia), root(3, ia)}}
	t, _ := f.BuildTRC(base)
	fmt.Println("validate base:", t.Validate())
	for i, c := range t.Certificates {
		ct, err := cppki.ValidateCert(c)
		fmt.Println(i, ct, err)
	}
	// negative quorum
	b2 := base
	b2.Quorum = -1
	t2, _ := f.BuildTRC(b2)
	fmt.Println("validate quorum -1:", t2.Validate())
	raw, err := t2.Encode()
	fmt.Println("encode:", len(raw), err)
	d, err := cppki.DecodeTRC(raw)
	fmt.Println("decode:", d.Quorum, err)
	// update with empty votes against quorum -1
	s := b2
	s.Serial = 2
	s.Quorum = 1
	st, _ := f.BuildTRC(s)
	p, msg := vgen.Recover(func() { _, err := st.ValidateUpdate(&t2); fmt.Println("update err", err) })
	fmt.Println("panic:", p, msg)
	// same CN different IA in the same class
	b3 := base
	b3.Certs = []trcgen.Cert{voter(1, 1, ia), voter(2, 2, ia), root(3, ia), voter(2, 2, ia2)}
	b3.Certs[3].Serial = 77
	t3, _ := f.BuildTRC(b3)
	fmt.Println("validate same-CN-other-IA:", t3.Validate())
	fmt.Println(t3.Certificates[1].Subject.String(), "|", t3.Certificates[3].Subject.String())
	fmt.Println(t3.Certificates[1].Subject.ToRDNSequence().String(), "|", t3.Certificates[3].Subject.ToRDNSequence().String())
	// crafted SID: issuer ok, serial not an integer
	rawb, _ := t.Encode()
	dt, _ := cppki.DecodeTRC(rawb)
	si := f.BuildSI(trcgen.SI{Kind: 1, Issuer: base.Certs[0].Issuer, Serial: 1, DigestOK: true, Key: 1}, rawb, base.Certs)
	var seq struct {
		Issuer asn1.RawValue
		Serial asn1.RawValue
	}
	_, err = asn1.Unmarshal(si.SID.FullBytes, &seq)
	fmt.Println("sid parse", err)
	bad := struct {
		Issuer asn1.RawValue
		Serial []byte
	}{seq.Issuer, []byte{1}}
	der, _ := asn1.Marshal(bad)
	var rv asn1.RawValue
	asn1.Unmarshal(der, &rv)
	si2 := si
	si2.SID = rv
	_ = big.NewInt
	signed := cppki.SignedTRC{TRC: dt, SignerInfos: []protocol.SignerInfo{si2}}
	p, msg = vgen.Recover(func() { fmt.Println("verify crafted:", signed.Verify(nil)) })
	fmt.Println("panic:", p, msg)
	si3 := f.BuildSI(trcgen.SI{Kind: 1, Issuer: base.Certs[1].Issuer, Serial: 2, DigestOK: true, Key: 2}, rawb, base.Certs)
	signed = cppki.SignedTRC{TRC: dt, SignerInfos: []protocol.SignerInfo{si, si3}}
	fmt.Println("verify base:", signed.Verify(nil))
}
