// Runner for C13: EPIC packets through the real router (processEPIC via
// router.VerifProcess) at all path positions, with fresh / stale / future packet
// timestamps and every EPIC MAC input tampered with; libepic.VerifyTimestamp at its
// exact boundaries with an explicit `now`; the layout of the EPIC MAC input.
package main

import (
	"encoding/hex"
	"fmt"
	"os"
	"strings"
	"time"

	"github.com/scionproto/scion/pkg/addr"
	libepic "github.com/scionproto/scion/pkg/experimental/epic"
	"github.com/scionproto/scion/pkg/slayers"
	"github.com/scionproto/scion/pkg/slayers/path/epic"
	"github.com/scionproto/scion/router"

	"verifharness/internal/rtgen"
	"verifharness/internal/rtgen2"
	"verifharness/internal/vgen"
)

type rcfg struct {
	name string
	cfg  *rtgen.Config
	rt   *rtgen.Router
}

var (
	run     *vgen.Run
	prelude []string
	nowSec  int64
)

func addConfig(c *rtgen.Config) *rcfg {
	name := fmt.Sprintf("cfg_%d", len(prelude))
	prelude = append(prelude, fmt.Sprintf("Definition %s : Router.cfg := %s.", name, c.Gallina()))
	rt, err := c.Build()
	if err != nil {
		fmt.Fprintln(os.Stderr, "c13: cannot build dataplane:", err)
		os.Exit(3)
	}
	return &rcfg{name, c, rt}
}

// cutAfter cuts the path so that exactly `keep` hop fields follow the current one.
// false: not possible without leaving a one-hop segment.
func cutAfter(d *rtgen.Desc, keep int) bool {
	n := len(d.Hops)
	want := int(d.CurrHF) + 1 + keep
	if want > n {
		return false
	}
	if want == n {
		return true
	}
	s := int(d.InfIndexForHF(uint8(want - 1)))
	start := 0
	for i := 0; i < s; i++ {
		start += int(d.SegLen[i])
	}
	if want-start < 2 {
		return false
	}
	d.SegLen[s] = uint8(want - start)
	for i := s + 1; i < 3; i++ {
		d.SegLen[i] = 0
	}
	d.Hops = d.Hops[:want]
	d.Infos = d.Infos[:s+1]
	return true
}

// crossesOver: the scenario is a packet on which this router performs the cross-over itself.
func crossesOver(sc *rtgen.Scenario) bool {
	return len(sc.Local) == 2 && sc.Ing.Kind == rtgen.IngExt
}

// position of the hop field the router verifies last.
func position(sc *rtgen.Scenario) string {
	d := sc.Desc
	switch len(d.Hops) - int(d.CurrHF) {
	case 1:
		return "last"
	case 2:
		return "penultimate"
	case 3:
		if crossesOver(sc) {
			return "xover-penultimate"
		}
	}
	return "other"
}

// authOf is the full MAC of the hop field the router verifies last for a valid scenario.
func authOf(c *rtgen.Config, sc *rtgen.Scenario) ([16]byte, bool) {
	if len(sc.Local) == 0 {
		return [16]byte{}, false
	}
	l := sc.Local[len(sc.Local)-1]
	d := sc.Desc
	if l.Idx >= len(d.Hops) {
		return [16]byte{}, false
	}
	k := int(d.InfIndexForHF(uint8(l.Idx)))
	if k >= len(d.Infos) {
		return [16]byte{}, false
	}
	h := d.Hops[l.Idx]
	return rtgen2.FullMAC(c.Key, l.Beta, d.Infos[k].Timestamp, h.ExpTime, h.ConsIngress, h.ConsEgress), true
}

const (
	nsPerSec = int64(1000000000)
	tsUnit   = int64(21000)
)

// pktTSFor returns the EPIC timestamp offset that makes tsSender = target (ns) for an info
// field timestamp infoTS; ok=false if that is not representable.
func pktTSFor(infoTS uint32, target int64) (uint32, bool) {
	v := (target-int64(infoTS)*nsPerSec)/tsUnit - 1
	if v < 0 {
		return 0, false
	}
	if v >= 1<<32 {
		return 1<<32 - 1, false
	}
	return uint32(v), true
}

func tsSender(infoTS, pktTS uint32) int64 {
	return int64(infoTS)*nsPerSec + (int64(pktTS)+1)*tsUnit
}

func fresh(infoTS, pktTS uint32, now int64) bool {
	s := tsSender(infoTS, pktTS)
	return s <= now+nsPerSec && now <= s+3*nsPerSec
}

type plan struct {
	offsetNs int64  // tsSender relative to `now` at send time
	counter  uint32 // PktID counter
	rnd      [8]byte
	tamper   string
	tamperV  uint64
}

var tampers = []string{"hvf", "srcia", "srchost", "srclen", "srctype", "paylen", "counter", "pktts", "infots",
	"stale", "future", "other-hvf", "swap-hvf"}

// emitEpic builds the EPIC packet for sc according to pl, runs it and registers the case.
func emitEpic(stream string, rc *rcfg, sc *rtgen.Scenario, pl plan) {
	emitEpicOn(nil, stream, rc, sc, pl)
}

// emitScionOn runs a packet with a SCION-type path through the (reused) processor and
// registers it as a CScion case.
func emitScionOn(proc *router.VerifProcessor, stream string, rc *rcfg, sc *rtgen.Scenario) {
	if !run.Want() {
		// -only selects other cases: the packet still goes through the reused processor, so
		// that a later, selected packet of the sequence sees the same history
		if proc != nil {
			if raw, err := sc.Desc.Serialize(); err == nil {
				rtgen2.RunOn(proc, rc.rt, raw, sc.Ing)
			}
		}
		run.Skip()
		return
	}
	raw, err := sc.Desc.Serialize()
	if err != nil {
		run.Tally("unserializable")
		run.Skip()
		return
	}
	o, err := rtgen2.RunOn(proc, rc.rt, raw, sc.Ing)
	if err != nil || o.In == nil {
		run.Tally("unrunnable")
		run.Skip()
		return
	}
	cls := o.Class()
	run.Tally("seq-scion:" + cls)
	l4 := sc.Desc.L4
	term := "(let p := " + rtgen2.RecTerm(o.In, l4) + " in " +
		vgen.App("RouterEpic.CScion", rc.name, vgen.N(uint64(o.NowNs)), sc.Ing.Gallina(), rtgen.MacTable(rc.cfg, o.In),
			"p", o.ResultTerm(o.OutTerm(l4))) + ")"
	desc := map[string]any{"cfg": rc.name, "ingress": sc.Ing.String(), "kind": sc.Kind, "mutation": sc.Mut,
		"raw": hex.EncodeToString(raw), "impl": cls, "path_type": "scion"}
	id := run.Add(stream, term, rc.name+"|"+sc.Ing.String()+"|"+hex.EncodeToString(raw), true, desc)
	if o.Res.Disp == router.VerifPanic {
		run.Violate(id, "process panicked: "+o.Res.PanicMsg, desc)
	}
}

// emitEpicOn is emitEpic on a reused packet processor (nil: a fresh one).
func emitEpicOn(proc *router.VerifProcessor, stream string, rc *rcfg, sc *rtgen.Scenario, pl plan) {
	if !run.Want() {
		if proc != nil { // keep the history of the reused processor (see emitScionOn)
			if raw0, err := sc.Desc.Serialize(); err == nil {
				e := rtgen2.Epic{Counter: pl.counter}
				if rec0, _, err := rtgen2.Parse(raw0); err == nil && len(rec0.Infos) > 0 {
					e.PktTS, _ = pktTSFor(rec0.Infos[0].Timestamp, time.Now().UnixNano()+pl.offsetNs)
				}
				rtgen2.RunOn(proc, rc.rt, rtgen2.ToEpic(raw0, e), sc.Ing)
			}
		}
		run.Skip()
		return
	}
	d := sc.Desc
	pos := position(sc)
	auth, haveAuth := authOf(rc.cfg, sc)
	var o rtgen2.Obs
	var e rtgen2.Epic
	var raw []byte
	okRun := false
	for try := 0; try < 6; try++ {
		raw0, err := d.Serialize()
		if err != nil {
			run.Tally("unserializable")
			run.Skip()
			return
		}
		rec0, _, err := rtgen2.Parse(raw0)
		if err != nil || len(rec0.Infos) == 0 {
			run.Tally("unparsable-input")
			run.Skip()
			return
		}
		infoTS := rec0.Infos[0].Timestamp
		t0 := time.Now().UnixNano()
		e = rtgen2.Epic{Counter: pl.counter}
		e.PktTS, _ = pktTSFor(infoTS, t0+pl.offsetNs)
		copy(e.PHVF[:], pl.rnd[:4])
		copy(e.LHVF[:], pl.rnd[4:])
		// the genuine hop validation field for this packet
		if haveAuth {
			m, err := rtgen2.CalcMacDecoded(auth[:], raw0, e, infoTS)
			if err == nil {
				switch pos {
				case "last":
					e.LHVF = m
				case "penultimate", "xover-penultimate":
					e.PHVF = m
				}
			}
		}
		// tampering after the sender computed the field
		td := d
		switch pl.tamper {
		case "hvf":
			e.PHVF[pl.tamperV%4] ^= byte(1 + pl.tamperV>>8%255)
			e.LHVF[pl.tamperV%4] ^= byte(1 + pl.tamperV>>8%255)
		case "other-hvf": // the field the router does not look at
			if pos == "last" {
				e.PHVF[0] ^= 0x55
			} else {
				e.LHVF[0] ^= 0x55
			}
		case "swap-hvf":
			e.PHVF, e.LHVF = e.LHVF, e.PHVF
		case "srcia":
			td = d.Clone()
			td.SrcIA = addr.MustIAFrom(addr.ISD(3+pl.tamperV%5), addr.AS(0x777+pl.tamperV%1000))
		case "srchost":
			td = d.Clone()
			td.Src.Raw[int(pl.tamperV%uint64(len(td.Src.Raw)))] ^= byte(1 + pl.tamperV>>8%255)
		case "srclen":
			td = d.Clone()
			if len(td.Src.Raw) == 4 {
				b := append([]byte{0xfd}, make([]byte, 15)...)
				copy(b[12:], td.Src.Raw)
				td.Src = rtgen.Host{Type: 3, Raw: b}
			} else {
				td.Src = rtgen.Host{Type: 0, Raw: td.Src.Raw[len(td.Src.Raw)-4:]}
			}
		case "srctype": // same bytes, other type code with the same length (service address)
			td = d.Clone()
			if len(td.Src.Raw) == 4 {
				td.Src.Type = 4
			} else {
				td.Src.Type = uint8(4 + len(td.Src.Raw)/4 - 1)
			}
		case "paylen":
			td = d.Clone()
			td.L4.Bytes = append(append([]byte(nil), td.L4.Bytes...), make([]byte, 1+pl.tamperV%8)...)
		case "counter":
			e.Counter ^= uint32(1 + pl.tamperV%0xffffff)
		case "pktts":
			if e.PktTS > 100 {
				e.PktTS -= uint32(1 + pl.tamperV%50) // ~1 ms: still fresh
			} else {
				e.PktTS++
			}
		case "infots":
			td = d.Clone()
			td.Infos[0].Timestamp++
			e.PktTS, _ = pktTSFor(td.Infos[0].Timestamp, t0+pl.offsetNs)
		}
		raw1 := raw0
		if td != d {
			raw1, err = td.Serialize()
			if err != nil {
				run.Tally("unserializable")
				run.Skip()
				return
			}
		}
		raw = rtgen2.ToEpic(raw1, e)
		o, err = rtgen2.RunOn(proc, rc.rt, raw, sc.Ing)
		if err != nil || o.In == nil {
			run.Tally("unrunnable")
			run.Skip()
			return
		}
		its := o.In.Infos[0].Timestamp
		if fresh(its, e.PktTS, o.NowNs) == fresh(its, e.PktTS, o.AfterNs) &&
			fresh(its, e.PktTS, o.NowNs) == fresh(its, e.PktTS, (o.NowNs+o.AfterNs)/2) {
			okRun = true
			break
		}
		run.Tally("clock-retry")
	}
	if !okRun {
		run.Tally("clock-ambiguous")
		run.Skip()
		return
	}
	cls := o.Class()
	run.Tally("outcome:" + cls)
	run.Tally("position:" + pos + ":" + cls)
	run.Tally("kind:" + strings.SplitN(sc.Kind, "/", 2)[0] + ":" + pos)
	if pl.tamper != "" {
		run.Tally("tamper:" + pl.tamper + ":" + pos + ":" + cls)
	}
	if sc.Mut != "" {
		run.Tally("mutation:" + sc.Mut + ":" + cls)
	}
	isFresh := fresh(o.In.Infos[0].Timestamp, e.PktTS, o.NowNs)
	run.Tally(fmt.Sprintf("fresh=%v:%s", isFresh, pos))

	cands := rtgen2.Candidates(rc.cfg, o.In)
	emacs, drift := rtgen2.EmacTable(cands, rtgen2.FieldsOf(o.In, e))
	l4 := sc.Desc.L4
	term := "(let p := " + rtgen2.RecTerm(o.In, l4) + " in " +
		vgen.App("RouterEpic.CEpic", rc.name, vgen.N(uint64(o.NowNs)), sc.Ing.Gallina(), rtgen2.FullTable(cands),
			emacs, e.Gallina(), "p", o.ResultTerm(o.OutTerm(l4)), o.ChangedTerm()) + ")"
	fwd := strings.HasPrefix(cls, "forward") || cls == "deliver"
	nt := pos != "other" && (sc.Mut == "" || fwd) || pos == "other" && fwd
	desc := map[string]any{"cfg": rc.name, "ingress": sc.Ing.String(), "kind": sc.Kind, "mutation": sc.Mut,
		"tamper": pl.tamper, "position": pos, "raw": hex.EncodeToString(raw), "impl": cls, "fresh": isFresh,
		"now_ns": o.NowNs, "egress": o.Res.Egress, "cfg_desc": rc.cfg.Describe()}
	id := run.Add(stream, term, rc.name+"|"+sc.Ing.String()+"|"+hex.EncodeToString(raw), nt, desc)
	if o.Res.Disp == router.VerifPanic {
		desc["panic"] = o.Res.PanicMsg
		run.Violate(id, "processEPIC panicked: "+o.Res.PanicMsg, desc)
	}
	for _, dr := range drift {
		run.Violate(id, "the EPIC MAC is not the AES-CBC-MAC of (flags, timestamp, packet id, SrcIA, source host, "+
			"payload length): "+dr, desc)
	}
}

// sequences: several packets through ONE reused packet processor (what a processing queue of
// the router sees). The per-packet model knows nothing of the packets before, so every case
// is also a check that the processor carries no state from one packet to the next.
func sequences(rng *vgen.Rand, rc *rcfg) {
	c := rc.cfg
	n := 0
	next := func() *vgen.Rand { n++; return rng.Fork(uint64(n)) }
	table := func(ilt, elt int, change string, cons bool) *rtgen.Scenario {
		return rtgen.TableCase(next(), c, nowSec, ilt, elt, change, "ext", "ext", cons)
	}
	// a packet that makes process() run doXover (legal segment change child -> core)
	xover := func() *rtgen.Scenario { return table(rtgen.LTChild, rtgen.LTCore, "xover", n%2 == 0) }
	ohpOut := func() []byte {
		r := next()
		d := &rtgen2.OHP{Info: rtgen.Info{ConsDir: true, SegID: uint16(r.U64()), Timestamp: uint32(nowSec - 100)},
			First: rtgen.Hop{ConsEgress: 201, ExpTime: 63}, SrcIA: c.IA, DstIA: c.Iface(201).Nbr,
			Src: rtgen.HostIP4(10, 1, 1, 1), Dst: rtgen.HostSVC(addr.SvcCS), L4: rtgen.UDP(1, 2, []byte{1, 2})}
		d.First.Mac = c.MAC(d.Info, d.First)
		raw, _ := d.Serialize()
		return raw
	}
	// 1. SCION segment change, then an EPIC packet WITHIN a segment for every link-type pair
	for ilt := 0; ilt <= 4; ilt++ {
		for elt := 0; elt <= 4; elt++ {
			for _, cons := range []bool{true, false} {
				proc := rc.rt.DP.VerifNewProcessor()
				emitScionOn(proc, "sequence", rc, xover())
				emitEpicOn(proc, "sequence", rc, table(ilt, elt, "none", cons), drawPlan(next()))
			}
		}
	}
	// 2. EPIC segment change, then SCION / EPIC within a segment; 3. no segment change, then a
	// segment change (EPIC and SCION); one processor for the whole series
	proc := rc.rt.DP.VerifNewProcessor()
	for ilt := 1; ilt <= 4; ilt++ {
		for elt := 1; elt <= 4; elt++ {
			emitEpicOn(proc, "sequence", rc, xover(), drawPlan(next()))
			emitScionOn(proc, "sequence", rc, table(ilt, elt, "none", (ilt+elt)%2 == 0))
			emitEpicOn(proc, "sequence", rc, xover(), drawPlan(next()))
			emitEpicOn(proc, "sequence", rc, table(ilt, elt, "none", (ilt+elt)%2 == 1), drawPlan(next()))
			emitEpicOn(proc, "sequence", rc, table(ilt, elt, "xover", true), drawPlan(next()))
			emitScionOn(proc, "sequence", rc, table(ilt, elt, "xover", false))
		}
	}
	// 4. peering hops, one-hop packets, refused packets and garbage in between
	proc = rc.rt.DP.VerifNewProcessor()
	for i := 0; i < 12; i++ {
		switch i % 4 {
		case 0: // one-hop packet (forwarded), not registered as a case
			rtgen2.RunOn(proc, rc.rt, ohpOut(), rtgen.Ingress{Kind: rtgen.IngInt})
		case 1: // SCION packet refused by the MAC check (slow path)
			sc := xover()
			rtgen.Mutate(next(), sc, c, nowSec, "mac-next")
			emitScionOn(proc, "sequence", rc, sc)
		case 2: // truncated garbage
			rtgen2.RunOn(proc, rc.rt, next().Bytes(20+i), rtgen.Ingress{Kind: rtgen.IngExt, ID: 103})
		case 3: // peering hop
			emitEpicOn(proc, "sequence", rc, table(rtgen.LTChild, rtgen.LTPeer, "peer-out", false), drawPlan(next()))
		}
		emitScionOn(proc, "sequence", rc, table(rtgen.LTChild, rtgen.LTChild, "none", i%2 == 0))
		emitEpicOn(proc, "sequence", rc, table(rtgen.LTCore, rtgen.LTChild, "none", i%2 == 1), drawPlan(next()))
		emitScionOn(proc, "sequence", rc, table(rtgen.LTChild, rtgen.LTParent, "none", true))
	}
}

// bufferSequences: valid EPIC packets at the penultimate / last hop field through ONE reused
// packet processor, with source hosts of 16, 4, 12 and 8 bytes and payloads of different
// sizes in changing order (the processor verifies every hop validation field in the same
// MAC input buffer: what a longer, earlier input left there must not matter).
func bufferSequences(rng *vgen.Rand, rc *rcfg, nPkts int) {
	proc := rc.rt.DP.VerifNewProcessor()
	lens := []int{16, 16, 4, 16, 12, 16, 8, 4, 16, 16, 12, 8, 16, 4, 12, 16}
	for i := 0; i < nPkts; i++ {
		r := rng.Fork(uint64(i))
		kind := "inbound"
		if i%2 == 1 {
			kind = "transit"
		}
		sc := rtgen.GenValid(r, rc.cfg, nowSec, kind)
		if !crossesOver(sc) {
			cutAfter(sc.Desc, 1)
		}
		l := lens[i%len(lens)]
		raw := r.Bytes(l)
		raw[0] = 0xfd
		sc.Desc.Src = rtgen.Host{Type: uint8(l/4 - 1), Raw: raw} // type code = length bits only (an IP for 4 / 16)
		sc.Desc.L4 = rtgen.UDP(uint16(r.Range(1025, 65000)), uint16(r.Range(1025, 65000)), r.Bytes(r.Intn(60)))
		sc.Kind = fmt.Sprintf("bufseq-src%d/", l) + sc.Kind
		run.Tally(fmt.Sprintf("buffer-sequence:src-host-bytes=%d", l))
		emitEpicOn(proc, "buffer-sequence", rc, sc, drawPlan(r))
	}
}

// reusedBufferCases calls the real libepic.CalcMac / VerifyHVF with ONE buffer for a series of
// inputs of changing length (source hosts of 16, 16, 12, 8, 4, 16 ... bytes) and compares every
// tag with the reference: AES-CBC over the documented input block (zero padding to the block
// size) laid out by the harness; the block itself is compared with the model (CMacIn).
func reusedBufferCases(r *vgen.Rand, n int) {
	buf := make([]byte, libepic.MACBufferSize)
	lens := []int{16, 16, 12, 8, 4, 16, 4, 12, 16, 8, 16, 16}
	for i := 0; i < n; i++ {
		l := lens[i%len(lens)]
		f := rtgen2.HVFields{SrcType: uint8(l/4 - 1), InfoTS: uint32(r.U64()), PktTS: uint32(r.U64()), Counter: uint32(r.U64()),
			SrcIA: r.U64(), PayLen: uint16(r.U64()), SrcRaw: r.Bytes(l)}
		auth := r.Bytes(16)
		if !run.Want() { // the buffer history must be the same in a replay
			s := &slayers.SCION{SrcIA: addr.IA(f.SrcIA), SrcAddrType: slayers.AddrType(f.SrcType), RawSrcAddr: f.SrcRaw, PayloadLen: f.PayLen}
			libepic.CalcMac(auth, epic.PktID{Timestamp: f.PktTS, Counter: f.Counter}, s, f.InfoTS, buf)
			run.Skip()
			continue
		}
		in := rtgen2.MacInput(f)
		ref, _ := rtgen2.CBCMac(auth, in)
		s := &slayers.SCION{SrcIA: addr.IA(f.SrcIA), SrcAddrType: slayers.AddrType(f.SrcType), RawSrcAddr: f.SrcRaw, PayloadLen: f.PayLen}
		pid := epic.PktID{Timestamp: f.PktTS, Counter: f.Counter}
		m, err := libepic.CalcMac(auth, pid, s, f.InfoTS, buf)
		var real [4]byte
		copy(real[:], m)
		verr := libepic.VerifyHVF(auth, pid, s, f.InfoTS, ref[:], buf)
		run.Tally(fmt.Sprintf("reused-buffer:src-host-bytes=%d", l))
		id := run.Add("reused-buffer", vgen.App("RouterEpic.CMacIn", vgen.N(uint64(f.SrcType)), vgen.N(uint64(f.InfoTS)),
			vgen.N(uint64(f.PktTS)), vgen.N(uint64(f.Counter)), vgen.N(f.SrcIA), rtgen2.BytesTerm(f.SrcRaw),
			vgen.N(uint64(f.PayLen)), rtgen2.BytesTerm(in)),
			fmt.Sprintf("reused|%d|%x|%x", i, auth, in), true,
			map[string]any{"step": i, "src_host_bytes": l, "input": hex.EncodeToString(in), "auth": hex.EncodeToString(auth),
				"calcmac": hex.EncodeToString(real[:]), "reference": hex.EncodeToString(ref[:])})
		if err != nil || real != ref {
			run.Violate(id, fmt.Sprintf("libepic.CalcMac with a reused buffer = %x, but the EPIC MAC of this packet's fields "+
				"(AES-CBC over the documented, zero-padded input block) is %x: the tag depends on an earlier computation", real, ref), nil)
		}
		if verr != nil {
			run.Violate(id, "libepic.VerifyHVF with a reused buffer rejects the correct hop validation field", nil)
		}
	}
}

func drawPlan(r *vgen.Rand) plan {
	pl := plan{counter: uint32(r.U64())}
	copy(pl.rnd[:], r.Bytes(8))
	pl.offsetNs = -nsPerSec + int64(r.Range(-300, 300))*1000000 // tsSender ~ now - 1 s
	pl.tamperV = r.U64()
	return pl
}

func tsCases(r *vgen.Rand, n int) {
	skew, life := int64(libepic.MaxClockSkew), int64(libepic.MaxPacketLifetime)
	for i := 0; i < n; i++ {
		infoTS := uint32(nowSec - int64(r.Range(0, 80000)))
		pktTS := uint32(r.U64())
		switch i % 5 {
		case 0:
			pktTS = 0
		case 1:
			pktTS = 1<<32 - 1
		case 2:
			pktTS = uint32(r.Intn(100000))
		}
		s := tsSender(infoTS, pktTS)
		var now int64
		switch i % 9 {
		case 0:
			now = s - skew - 1 // one ns before the packet stops being "from the future"
		case 1:
			now = s - skew
		case 2:
			now = s - skew + 1
		case 3:
			now = s + life + skew - 1
		case 4:
			now = s + life + skew // last accepted instant
		case 5:
			now = s + life + skew + 1
		case 6:
			now = s + int64(r.Range(-1000, 3000))*1000000
		case 7:
			now = s + int64(r.Range(-5000, 8000))*1000000
		default:
			now = s + life // without the skew
		}
		if !run.Want() {
			run.Skip()
			continue
		}
		err := libepic.VerifyTimestamp(time.Unix(int64(infoTS), 0), pktTS, time.Unix(0, now))
		acc := err == nil
		run.Tally(fmt.Sprintf("verify-timestamp:accepted=%v", acc))
		run.Add("timestamp", vgen.App("RouterEpic.CTs", vgen.N(uint64(infoTS)), vgen.N(uint64(pktTS)), vgen.N(uint64(now)), vgen.B(acc)),
			fmt.Sprintf("ts|%d|%d|%d", infoTS, pktTS, now), true,
			map[string]any{"info_ts": infoTS, "epic_ts": pktTS, "now_ns": now, "accepted": acc, "sender_minus_now_ns": s - now})
	}
}

func macInCases(r *vgen.Rand, n int) {
	for i := 0; i < n; i++ {
		f := rtgen2.HVFields{SrcType: uint8(i % 16), InfoTS: uint32(r.U64()), PktTS: uint32(r.U64()), Counter: uint32(r.U64()),
			SrcIA: r.U64(), PayLen: uint16(r.U64())}
		f.SrcRaw = r.Bytes(4 * (1 + int(f.SrcType&3)))
		if i%7 == 0 {
			f.InfoTS, f.PktTS, f.Counter, f.SrcIA, f.PayLen = 0, 0, 0, 0, 0
		}
		auth := r.Bytes(16)
		if !run.Want() {
			run.Skip()
			continue
		}
		in := rtgen2.MacInput(f)
		real, err1 := rtgen2.CalcMac(auth, f)
		own, err2 := rtgen2.CBCMac(auth, in)
		id := run.Add("mac-input", vgen.App("RouterEpic.CMacIn", vgen.N(uint64(f.SrcType)), vgen.N(uint64(f.InfoTS)),
			vgen.N(uint64(f.PktTS)), vgen.N(uint64(f.Counter)), vgen.N(f.SrcIA), rtgen2.BytesTerm(f.SrcRaw),
			vgen.N(uint64(f.PayLen)), rtgen2.BytesTerm(in)),
			fmt.Sprintf("macin|%x|%x", auth, in), true,
			map[string]any{"src_type": f.SrcType, "input": hex.EncodeToString(in), "auth": hex.EncodeToString(auth)})
		if err1 != nil || err2 != nil || real != own {
			run.Violate(id, fmt.Sprintf("libepic.CalcMac = %x but the AES-CBC-MAC of the documented input block is %x", real, own), nil)
		}
	}
}

func consts() {
	vals := []uint64{uint64(libepic.MaxPacketLifetime), uint64(libepic.MaxClockSkew), uint64(libepic.TimestampResolution),
		epic.MetadataLen, epic.PktIDLen, epic.HVFLen, libepic.AuthLen, uint64(epic.PathType), libepic.MACBufferSize}
	for k, v := range vals {
		if !run.Want() {
			run.Skip()
			continue
		}
		run.Add("const", vgen.App("RouterEpic.CConst", vgen.N(uint64(k)), vgen.N(v)), fmt.Sprintf("const%d", k), false,
			map[string]uint64{"const": uint64(k), "value": v})
	}
}

func main() {
	run = vgen.Flags("C13")
	run.Imports = []string{"Model.Router", "Model.RouterEpic"}
	run.CheckFn = "RouterEpic.check"
	run.DiagFn = "RouterEpic.diag"
	run.CaseType = "RouterEpic.case"
	run.ShardSize = 200
	run.Rule = "EPIC packets built from rtgen's valid-by-construction SCION paths (first hop, transit, cross-over at ingress " +
		"and egress router, peering out/in, inbound; both directions; external / sibling / internal ingress), two thirds " +
		"cut so that the hop field the router verifies last is the penultimate one (the current one, or the one it " +
		"crosses over to), inbound = last hop; packet timestamp ~1 s before now " +
		"(window [now-3s, now+1s]; a run whose clock samples before/after disagree about freshness is repeated), the " +
		"PHVF/LHVF computed with the real libepic.CalcMac over the really verified hop's real path.FullMAC; streams: " +
		"(1) valid, (2) embedded path mutated with rtgen's 24 mutations (EPIC fields valid for the mutated packet), " +
		"(3) tampered after the sender computed the field: HVF byte, SrcIA, source host byte / length / type code, " +
		"payload length, packet counter, packet timestamp (still fresh), info-field timestamp, stale (>= 5 s too old) " +
		"and future (>= 5 s ahead) timestamps, the other HVF, swapped HVFs; (4) libepic.VerifyTimestamp called with " +
		"explicit now at now = sender-skew-1ns/-0/+1, sender+lifetime+skew-1/0/+1 and random offsets; (5) the EPIC MAC " +
		"input block for all 16 source address type codes; (6) sequences through ONE reused packet processor (as " +
		"runProcessor does): SCION segment change then EPIC within a segment for all 25 link-type pairs and both " +
		"directions, EPIC segment change then SCION / EPIC within a segment, no change then change, with one-hop " +
		"packets, refused packets, garbage and peering hops in between - every packet compared with the stateless " +
		"per-packet model; (7) valid EPIC packets with 16/4/12/8-byte source hosts and varying payloads in changing order " +
		"through one reused processor (shared MAC input buffer), and the real CalcMac / VerifyHVF called with one reused " +
		"buffer over inputs of changing length against the AES-CBC reference over the documented zero-padded block. non-trivial = at the penultimate/last hop the embedded path " +
		"was accepted (EPIC checks reached), elsewhere the packet was forwarded; every timestamp / input-block case"
	rng := vgen.NewRand(run.Seed)
	nowSec = time.Now().Unix()
	consts()

	var cfgs []*rcfg
	for i := 0; i < 6; i++ {
		cfgs = append(cfgs, addConfig(rtgen.GenConfig(rng.Fork(uint64(1000+i)))))
	}
	kinds := []string{"inbound", "transit", "first-hop", "xover", "peer-in", "inbound", "peer-out", "transit", "xover"}
	gen := func(r *vgen.Rand, i int) (*rcfg, *rtgen.Scenario) {
		rc := cfgs[i%len(cfgs)]
		sc := rtgen.GenValid(r, rc.cfg, nowSec, kinds[i%len(kinds)])
		if i%3 != 2 {
			if crossesOver(sc) {
				cutAfter(sc.Desc, 2) // the cross-over leads to the penultimate hop field
			} else {
				cutAfter(sc.Desc, 1)
			}
		}
		return rc, sc
	}
	nValid := run.Count(300, 15000)
	for i := 0; i < nValid; i++ {
		r := rng.Fork(uint64(100000 + i))
		rc, sc := gen(r, i)
		emitEpic("valid", rc, sc, drawPlan(r))
	}
	nMut := run.Count(200, 15000)
	for i := 0; i < nMut; i++ {
		r := rng.Fork(uint64(200000 + i))
		rc, sc := gen(r, i)
		rtgen.Mutate(r, sc, rc.cfg, nowSec, rtgen.Mutations[i%len(rtgen.Mutations)])
		emitEpic("path-mutated", rc, sc, drawPlan(r))
	}
	nTamper := run.Count(330, 20000)
	for i := 0; i < nTamper; i++ {
		r := rng.Fork(uint64(300000 + i))
		rc, sc := gen(r, 3*i+i%2) // penultimate and last positions mostly
		pl := drawPlan(r)
		pl.tamper = tampers[i%len(tampers)]
		switch pl.tamper {
		case "stale":
			pl.offsetNs = -3*nsPerSec - int64(r.Range(5, 3600))*nsPerSec
		case "future":
			pl.offsetNs = nsPerSec + int64(r.Range(5, 3600))*nsPerSec
		}
		emitEpic("tampered", rc, sc, pl)
	}
	seqCfg := addConfig(rtgen.TableConfig(rng.Fork(77)))
	sequences(rng.Fork(78), seqCfg)
	if run.Tier == "thorough" {
		for i := 0; i < 10; i++ {
			sequences(rng.Fork(uint64(780+i)), seqCfg)
		}
	}
	for i := 0; i < run.Count(3, 6); i++ {
		bufferSequences(rng.Fork(uint64(880+i)), cfgs[i%len(cfgs)], run.Count(16, 400))
	}
	reusedBufferCases(rng.Fork(9), run.Count(36, 1200))
	tsCases(rng.Fork(5), run.Count(180, 5000))
	macInCases(rng.Fork(6), run.Count(48, 800))
	run.Prelude = strings.Join(prelude, "\n")
	run.Finish()
}
