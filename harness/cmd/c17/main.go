// Runner for C17: configured socket buffer sizes reach the matching socket option.
//
// Drives the REAL start-up code (router.NewConnector + control.ConfigDataplane on a generated
// topology, or the Connector calls directly) with a recording udpip.ConnOpener and observes the
// conn.Config of every Open call, for internal, sibling and external links, on the provider made
// at construction and on providers instantiated lazily by AddExternalInterface / AddNextHop.
// A second part opens real UDP sockets through conn.New and reads SO_RCVBUF / SO_SNDBUF back.
package main

import (
	"encoding/json"
	"fmt"
	"net/netip"
	"os"
	"runtime"
	"strconv"
	"strings"
	"syscall"

	"github.com/scionproto/scion/pkg/addr"
	"github.com/scionproto/scion/pkg/segment/iface"
	"github.com/scionproto/scion/private/env"
	"github.com/scionproto/scion/private/topology"
	"github.com/scionproto/scion/private/underlay/conn"
	"github.com/scionproto/scion/router"
	"github.com/scionproto/scion/router/config"
	"github.com/scionproto/scion/router/control"
	"github.com/scionproto/scion/router/underlayproviders/udpip"
	"verifharness/internal/vgen"
)

// ---------------------------------------------------------------- recording opener

type fakeConn struct{}

func (fakeConn) ReadBatch(conn.Messages) (int, error)       { select {} }
func (fakeConn) WriteBatch(conn.Messages, int) (int, error) { return 0, nil }
func (fakeConn) Close() error                               { return nil }

type openRec struct {
	Local, Remote netip.AddrPort
	Rcv, Snd      int
	Real          router.BatchConn
}

type recOpener struct {
	reuse bool
	real  bool // open real sockets through conn.New
	opens []openRec
}

func (o *recOpener) Open(l, r netip.AddrPort, c *conn.Config) (router.BatchConn, error) {
	rec := openRec{Local: l, Remote: r, Rcv: c.ReceiveBufferSize, Snd: c.SendBufferSize}
	var bc router.BatchConn = fakeConn{}
	if o.real {
		rc, err := conn.New(l, r, c)
		if err != nil {
			return nil, err
		}
		bc, rec.Real = rc, rc
	}
	o.opens = append(o.opens, rec)
	return bc, nil
}

func (o *recOpener) UDPCanReuseLocal() bool { return o.reuse }

// The lazily instantiated provider: the real udpip provider under another name, so that
// AddExternalInterface / AddNextHop go through their own call of the provider factory.
var lazyOpener *recOpener

const lazyName = "udpip-lazy-verif"

func init() {
	router.AddUnderlay(lazyName, func(b, r, s int) router.UnderlayProvider {
		p := udpip.VerifNewProvider(b, r, s)
		if !lazyDefault {
			p.SetConnOpener(lazyOpener)
		}
		return p
	})
}

// ---------------------------------------------------------------- case

type link struct {
	Kind   int // 0 internal, 1 sibling, 2 external
	Origin int // 0 provider made at construction ("udpip"), 1 lazily instantiated
	IfID   int
	Salt   int
	Remote string
}

type plumbCase struct {
	Rcv, Snd, Batch int
	Reuse           bool
	Driver          int  // 0 = control.ConfigDataplane on a topology, 1 = Connector calls
	V6              bool // all underlay addresses on the IPv6 loopback
	Links           []link
}

func sizes(r *vgen.Rand) (int, int) {
	pick := func() int {
		switch r.Intn(6) {
		case 0:
			return 0
		case 1:
			return 1
		case 2:
			return r.Range(2, 4096)
		case 3:
			return r.Range(4097, 1<<20)
		case 4:
			return 1 << uint(r.Range(10, 30))
		default:
			return r.Range(1<<20, 1<<31-1)
		}
	}
	a, b := pick(), pick()
	if r.Chance(1, 6) {
		b = a
	}
	return a, b
}

func genPlumb(r *vgen.Rand, i int) plumbCase {
	c := plumbCase{Batch: r.Range(1, 512), Reuse: r.Chance(2, 3), Driver: r.Intn(2), V6: r.Chance(1, 3)}
	c.Rcv, c.Snd = sizes(r)
	// boundary pairs first
	fixed := [][2]int{{0, 0}, {0, 1}, {1, 0}, {4096, 4096}, {65536, 131072}, {131072, 65536},
		{1, 2}, {1<<31 - 1, 0}, {0, 1<<31 - 1}, {212992, 212993}}
	if i < 2*len(fixed) {
		c.Rcv, c.Snd = fixed[i/2][0], fixed[i/2][1]
		c.Driver = i % 2
	}
	c.Links = []link{{Kind: 0, Origin: 0}}
	n := r.Range(1, 5)
	for k := 0; k < n; k++ {
		l := link{Kind: r.Range(1, 2), Origin: r.Intn(2), IfID: k + 1, Salt: r.Range(2, 250)}
		if c.Driver == 0 && l.Kind == 1 {
			l.Origin = 0 // ConfigDataplane always puts sibling links on "udpip"
		}
		if l.Kind == 1 && l.Origin == 1 && !c.Reuse {
			// a detached sibling link needs the internal connection of its own provider;
			// the lazy provider has none (the router would panic): not a configuration.
			l.Origin = 0
		}
		c.Links = append(c.Links, l)
	}
	// every case has at least one external and, in two thirds, one sibling link
	c.Links[1].Kind = 2
	c.setRemotes()
	return c
}

// setRemotes derives the remote underlay addresses from the address family of the case.
func (c *plumbCase) setRemotes() {
	for k := 1; k < len(c.Links); k++ {
		l := &c.Links[k]
		if c.V6 { // the IPv6 loopback has one address: remotes differ by port
			l.Remote = fmt.Sprintf("[::1]:%d", 32000+1000*k+l.Salt)
		} else {
			l.Remote = fmt.Sprintf("127.0.%d.%d:%d", k, l.Salt, 30000+l.Salt)
		}
	}
}

const (
	localIA  = "1-ff00:0:110"
	remoteIA = "1-ff00:0:120"
)

func (c plumbCase) intAddr() string {
	if c.V6 {
		return "[::1]:30042"
	}
	return "127.0.0.1:30042"
}

func (c plumbCase) localAddr(ifID int) string {
	if c.V6 {
		return "[::1]:" + strconv.Itoa(31000+ifID)
	}
	return "127.0.0.1:" + strconv.Itoa(31000+ifID)
}

func provName(o int) string {
	if o == 1 {
		return lazyName
	}
	return "udpip"
}

// topoJSON builds the topology for this router ("br1") and a sibling router ("br2") owning the
// sibling interfaces.
func topoJSON(c plumbCase) []byte {
	type m = map[string]any
	own, sib := m{}, m{}
	for _, l := range c.Links[1:] {
		ifc := m{"isd_as": remoteIA, "link_to": "CORE", "mtu": 1472,
			"underlay": m{"provider": provName(l.Origin), "local": c.localAddr(l.IfID),
				"remote": l.Remote}}
		if l.Kind == 2 {
			own[strconv.Itoa(l.IfID)] = ifc
		} else {
			sib[strconv.Itoa(l.IfID)] = ifc
		}
	}
	t := m{"isd_as": localIA, "mtu": 1472, "attributes": []string{"core"},
		"border_routers": m{
			"br1": m{"internal_addr": c.intAddr(), "interfaces": own},
			"br2": m{"internal_addr": sibAddr(c), "interfaces": sib},
		},
		"control_service": m{"cs1": m{"addr": "127.0.0.9:30252"}},
	}
	b, err := json.Marshal(t)
	if err != nil {
		panic(err)
	}
	return b
}

// all sibling interfaces of one case live on one sibling router in driver 0 (one link, deduplicated)
func sibAddr(c plumbCase) string {
	if c.V6 {
		return "[::1]:30077"
	}
	return "127.0.0.77:30042"
}

type result struct {
	obs  []*[2]int // per link: nil = no Open; conn.Config (receive, send)
	bufs []*[2]int // per link, real sockets only: getsockopt (SO_RCVBUF, SO_SNDBUF)
	err  string
}

// udpSock is a UDP socket of this process found by scanning its file descriptors.
type udpSock struct {
	Peer     netip.AddrPort // invalid: not connected
	Rcv, Snd int
}

// openSockets maps the descriptors of this process that are sockets to their inode ("socket:[n]");
// inodes, unlike descriptor numbers, are not reused while the scan's own descriptor comes and goes.
func openSockets() map[int]string {
	out := map[int]string{}
	ents, _ := os.ReadDir("/proc/self/fd")
	for _, e := range ents {
		n, err := strconv.Atoi(e.Name())
		if err != nil {
			continue
		}
		if l, err := os.Readlink("/proc/self/fd/" + e.Name()); err == nil && strings.HasPrefix(l, "socket:") {
			out[n] = l
		}
	}
	return out
}

// newUDPSockets returns the UDP sockets opened since before was taken, with the buffer sizes the
// kernel reports for them (read-only getsockopt on the raw descriptors).
func newUDPSockets(before map[int]string) ([]udpSock, error) {
	old := map[string]bool{}
	for _, ino := range before {
		old[ino] = true
	}
	var out []udpSock
	for fd, ino := range openSockets() {
		if old[ino] {
			continue
		}
		if t, err := syscall.GetsockoptInt(fd, syscall.SOL_SOCKET, syscall.SO_TYPE); err != nil ||
			t != syscall.SOCK_DGRAM {
			continue
		}
		sa, err := syscall.Getsockname(fd)
		if err != nil {
			continue
		}
		switch sa.(type) {
		case *syscall.SockaddrInet4, *syscall.SockaddrInet6:
		default:
			continue
		}
		var u udpSock
		if pa, err := syscall.Getpeername(fd); err == nil {
			switch a := pa.(type) {
			case *syscall.SockaddrInet4:
				u.Peer = netip.AddrPortFrom(netip.AddrFrom4(a.Addr), uint16(a.Port))
			case *syscall.SockaddrInet6:
				u.Peer = netip.AddrPortFrom(netip.AddrFrom16(a.Addr), uint16(a.Port))
			}
		}
		if u.Rcv, err = syscall.GetsockoptInt(fd, syscall.SOL_SOCKET, syscall.SO_RCVBUF); err != nil {
			return nil, err
		}
		if u.Snd, err = syscall.GetsockoptInt(fd, syscall.SOL_SOCKET, syscall.SO_SNDBUF); err != nil {
			return nil, err
		}
		out = append(out, u)
	}
	return out, nil
}

// lazyDefault: the lazily instantiated provider keeps the default opener too.
var lazyDefault bool

// runPlumb modes: mock opener; recording opener that opens real sockets through conn.New;
// DEFAULT opener of the udpip provider (uo.Open -> conn.New), sockets found by descriptor scan.
const (
	modeMock = iota
	modeReal
	modeDefault
)

func runPlumb(c plumbCase, mode int) (res result) {
	real := mode == modeReal
	main := &recOpener{reuse: c.Reuse, real: real}
	lazy := &recOpener{reuse: c.Reuse, real: real}
	lazyOpener = lazy
	lazyDefault = mode == modeDefault
	var before map[int]string
	if mode == modeDefault {
		runtime.GC() // let finalizers close the sockets of earlier cases
		before = openSockets()
	}
	defer func() {
		for _, o := range append(main.opens, lazy.opens...) {
			if o.Real != nil {
				o.Real.Close()
			}
		}
	}()
	rcfg := config.RouterConfig{ReceiveBufferSize: c.Rcv, SendBufferSize: c.Snd, BatchSize: c.Batch,
		NumProcessors: 1, NumSlowPathProcessors: 1, BFD: config.BFD{Disable: true}}
	cn := router.NewConnector(rcfg, env.Features{})
	if mode != modeDefault {
		cn.VerifCfgSetConnOpener(main)
	}
	defer runtime.KeepAlive(cn)
	remoteOf := map[netip.AddrPort]int{} // remote underlay address -> link index
	switch c.Driver {
	case 0:
		topo, err := topology.FromJSONBytes(topoJSON(c))
		if err != nil {
			return result{err: "topology: " + err.Error()}
		}
		br, _ := topo.BR("br1")
		cfg := &control.Config{Topo: topo, IA: topo.IA(), BR: &br}
		if err := control.ConfigDataplane(cn, cfg); err != nil {
			return result{err: "ConfigDataplane: " + err.Error()}
		}
		for i, l := range c.Links {
			if l.Kind == 2 {
				remoteOf[netip.MustParseAddrPort(l.Remote)] = i
			}
		}
		// all sibling interfaces share the one link to br2: attribute its Open to the first
		for i, l := range c.Links {
			if l.Kind == 1 {
				remoteOf[netip.MustParseAddrPort(sibAddr(c))] = i
				break
			}
		}
	default:
		ia := addr.MustParseIA(localIA)
		if err := cn.CreateIACtx(ia); err != nil {
			return result{err: err.Error()}
		}
		intAddr := c.intAddr()
		ih := addr.HostIP(netip.MustParseAddrPort(intAddr).Addr())
		if err := cn.AddInternalInterface(ia, ih, "udpip", intAddr); err != nil {
			return result{err: "AddInternalInterface: " + err.Error()}
		}
		for i, l := range c.Links[1:] {
			local := c.localAddr(l.IfID)
			if l.Kind == 1 {
				local = intAddr
			}
			li := control.LinkInfo{Provider: provName(l.Origin),
				Local:  control.LinkEnd{IA: ia, Addr: local, IfID: iface.ID(l.IfID)},
				Remote: control.LinkEnd{IA: addr.MustParseIA(remoteIA), Addr: l.Remote},
				LinkTo: topology.Core, MTU: 1472}
			lh := addr.HostIP(netip.MustParseAddrPort(local).Addr())
			rh := addr.HostIP(netip.MustParseAddrPort(l.Remote).Addr())
			if err := cn.AddExternalInterface(iface.ID(l.IfID), li, lh, rh, l.Kind == 2); err != nil {
				return result{err: "AddExternalInterface: " + err.Error()}
			}
			remoteOf[netip.MustParseAddrPort(l.Remote)] = i + 1
		}
	}
	res.obs = make([]*[2]int, len(c.Links))
	res.bufs = make([]*[2]int, len(c.Links))
	if mode == modeDefault {
		socks, err := newUDPSockets(before)
		if err != nil {
			return result{err: "getsockopt on scanned descriptor: " + err.Error()}
		}
		for _, u := range socks {
			idx := 0
			if u.Peer.IsValid() {
				var ok bool
				if idx, ok = remoteOf[netip.AddrPortFrom(u.Peer.Addr().Unmap(), u.Peer.Port())]; !ok {
					if idx, ok = remoteOf[u.Peer]; !ok {
						return result{err: "unexpected socket connected to " + u.Peer.String()}
					}
				}
			}
			if res.bufs[idx] != nil {
				return result{err: "two sockets for one link"}
			}
			res.bufs[idx] = &[2]int{u.Rcv, u.Snd}
		}
		return res
	}
	for _, o := range append(main.opens, lazy.opens...) {
		idx := 0
		if o.Remote.IsValid() {
			var ok bool
			if idx, ok = remoteOf[o.Remote]; !ok {
				return result{err: "unexpected Open for remote " + o.Remote.String()}
			}
		}
		if res.obs[idx] != nil {
			return result{err: "two Opens for one link"}
		}
		res.obs[idx] = &[2]int{o.Rcv, o.Snd}
		if real && o.Real != nil {
			rcv, snd, ok, err := conn.VerifSockBufs(o.Real)
			if !ok || err != nil {
				return result{err: fmt.Sprint("getsockopt: ", ok, err)}
			}
			res.bufs[idx] = &[2]int{rcv, snd}
		}
	}
	return res
}

// In driver 0 sibling interfaces beyond the first share the (deduplicated) link: no Open of their
// own is expected for them. The model works per link, so such interfaces are folded away.
func modelLinks(c plumbCase) []link {
	if c.Driver != 0 {
		return c.Links
	}
	var out []link
	seenSib := false
	for _, l := range c.Links {
		if l.Kind == 1 {
			if seenSib {
				continue
			}
			seenSib = true
		}
		out = append(out, l)
	}
	return out
}

// obsFlat appends the flat encoding of one observation: 0 (no socket) or 1, receive, send.
func obsFlat(acc []uint64, o *[2]int) []uint64 {
	if o == nil {
		return append(acc, 0)
	}
	return append(acc, 1, uint64(o[0]), uint64(o[1]))
}

// ---------------------------------------------------------------- real sockets

type sockObs struct{ Rcv, Snd int }

func openSock(rcv, snd int, connected, v6 bool) (sockObs, error) {
	l := netip.MustParseAddrPort("127.0.0.1:0")
	if v6 {
		l = netip.MustParseAddrPort("[::1]:0")
	}
	var r netip.AddrPort
	if connected {
		r = netip.AddrPortFrom(l.Addr(), 30041)
	}
	c, err := conn.New(l, r, &conn.Config{ReceiveBufferSize: rcv, SendBufferSize: snd})
	if err != nil {
		return sockObs{}, err
	}
	defer c.Close()
	gr, gs, ok, err := conn.VerifSockBufs(c)
	if err != nil || !ok {
		return sockObs{}, fmt.Errorf("getsockopt: %v %v", ok, err)
	}
	return sockObs{gr, gs}, nil
}

func readInt(path string, def int) int {
	b, err := os.ReadFile(path)
	if err != nil {
		return def
	}
	v, err := strconv.Atoi(strings.TrimSpace(string(b)))
	if err != nil {
		return def
	}
	return v
}

// alignWithModel folds away, for driver 0, the sibling interfaces that share the deduplicated link.
func alignWithModel(c plumbCase, xs []*[2]int) []*[2]int {
	var out []*[2]int
	seenSib := false
	for j, l := range c.Links {
		if c.Driver == 0 && l.Kind == 1 {
			if seenSib {
				continue
			}
			seenSib = true
		}
		out = append(out, xs[j])
	}
	return out
}

func main() {
	run := vgen.Flags("C17")
	run.Imports = []string{"Model.SockCfg"}
	run.CheckFn = "SockCfg.check"
	run.DiagFn = "SockCfg.diag"
	run.CaseType = "SockCfg.case"
	run.Rule = "plumb: router.NewConnector + control.ConfigDataplane on a generated topology (driver 0) or " +
		"the Connector calls (driver 1), recording ConnOpener, 1 internal + 1-5 sibling/external links on the " +
		"provider made at construction or on a lazily instantiated one, (receive,send) from boundary pairs " +
		"(0/0, equal, distinct, swapped) and random sizes; observable = conn.Config of every Open. " +
		"chain: the same with real IPv4 and IPv6 loopback sockets (conn.New), SO_RCVBUF/SO_SNDBUF of every socket " +
		"read back; sizes zero, inside and above net.core.rmem_max/wmem_max, each direction independently. " +
		"chain-default: the same through the provider's DEFAULT opener (uo.Open -> conn.New), sockets found by " +
		"scanning the process's descriptors. sock: conn.New alone (IPv4/IPv6, connected or not), same sizes. " +
		"non-trivial = a swap of the two sizes is visible in the observable (plumb: receive != send; real sockets: " +
		"the pair the kernel would report differs under the swapped assignment) and at least one socket observed"
	rng := vgen.NewRand(run.Seed)
	id := 0 // id of the case being generated (every generated case consumes exactly one id)

	linkTerms := func(c plumbCase) ([]link, string) {
		ml := modelLinks(c)
		lt := make([]uint64, len(ml))
		for j, l := range ml {
			lt[j] = uint64(l.Kind + 3*l.Origin)
		}
		return ml, vgen.NList(lt)
	}

	np := run.Count(240, 20000)
	for i := 0; i < np; i, id = i+1, id+1 {
		c := genPlumb(rng.Fork(uint64(i)), i)
		if !run.Want() {
			run.Skip()
			continue
		}
		var res result
		if p, msg := vgen.Recover(func() { res = runPlumb(c, modeMock) }); p {
			res.err = "panic: " + msg
		}
		if res.err != "" {
			run.Violate(id, "configuring the data plane failed: "+res.err, c)
			run.Skip()
			continue
		}
		ml, lt := linkTerms(c)
		obs := alignWithModel(c, res.obs)
		var ot []uint64
		opens := 0
		for j, l := range ml {
			ot = obsFlat(ot, obs[j])
			if obs[j] != nil {
				opens++
				run.Tally(fmt.Sprintf("open:kind%d-origin%d", l.Kind, l.Origin))
			} else {
				run.Tally(fmt.Sprintf("noopen:kind%d", l.Kind))
			}
		}
		run.Tally(fmt.Sprintf("driver:%d", c.Driver))
		run.Tally(fmt.Sprintf("sizes:eq=%v,zero=%v", c.Rcv == c.Snd, c.Rcv == 0 || c.Snd == 0))
		term := vgen.App("SockCfg.CPlumb", vgen.N(uint64(c.Rcv)), vgen.N(uint64(c.Snd)),
			vgen.N(uint64(c.Batch)), vgen.B(c.Reuse), lt, vgen.NList(ot))
		run.Add("plumb", term, fmt.Sprint(c), c.Rcv != c.Snd && opens > 0,
			map[string]any{"case": c, "impl": obs})
	}

	// real sockets
	rmax := readInt("/proc/sys/net/core/rmem_max", 212992)
	wmax := readInt("/proc/sys/net/core/wmem_max", 212992)
	def, derr := openSock(0, 0, false, false)
	if derr != nil {
		run.Extra("sockets_unavailable", derr.Error())
	}
	def6, derr6 := openSock(0, 0, false, true)
	if derr6 != nil {
		run.Extra("ipv6_loopback_unavailable", derr6.Error())
	} else if def6 != def {
		run.Extra("ipv6_defaults_differ", []sockObs{def, def6})
	}
	// sizes: zero (keep the default), inside the kernel limit, or above it (the kernel caps the
	// request at net.core.rmem_max / wmem_max; each direction independently)
	pick := func(r *vgen.Rand, max int) int {
		switch k := r.Intn(10); {
		case k < 2:
			return 0
		case k < 5:
			return max + r.Range(1, 1<<20)
		}
		hi := max
		if hi > 1<<22 {
			hi = 1 << 22
		}
		if hi < 8192 {
			hi = 8192
		}
		return r.Range(8192, hi)
	}
	// boundary pairs around the limits, used by the first chain and sock cases
	over := [][2]int{{rmax + 1<<20, 65536}, {rmax + 1<<20, 0}, {65536, wmax + 1<<20}, {0, wmax + 1},
		{rmax + 1, wmax + 1<<20}, {rmax, wmax}, {16384, 65536}, {65536, 16384}}
	defOf := func(v6 bool) sockObs {
		if v6 {
			return def6
		}
		return def
	}

	// what the kernel reports for a requested size, and whether a swap of the two sizes would
	// show in the reported pair (it does not when both exceed equal limits, for instance)
	rep := func(x, def, max int) int {
		if x == 0 {
			return def
		}
		if x > max {
			x = max
		}
		return 2 * x
	}
	swapVisible := func(rcv, snd int, d sockObs) bool {
		return rep(rcv, d.Rcv, rmax) != rep(snd, d.Rcv, rmax) || rep(snd, d.Snd, wmax) != rep(rcv, d.Snd, wmax)
	}

	// the whole chain with real sockets: through a recording opener that calls conn.New, and
	// (kind chain-default, generated last) through the DEFAULT opener of the udpip provider
	chain := func(kind string, nc int, fork uint64, mode int) {
		for i := 0; i < nc; i, id = i+1, id+1 {
			r := rng.Fork(fork + uint64(i))
			c := genPlumb(r, 1<<30)
			if mode == modeDefault {
				c.Reuse = true // conn.UDPCanReuseLocal() on Linux
			}
			c.Rcv, c.Snd = pick(r, rmax), pick(r, wmax)
			c.V6 = i%2 == 1
			if i < 2*len(over) {
				c.Rcv, c.Snd = over[i/2][0], over[i/2][1]
			}
			if c.V6 && derr6 != nil {
				c.V6 = false
				if run.Want() {
					run.Tally("chain:ipv6-unavailable-ran-ipv4")
				}
			}
			c.setRemotes()
			if !run.Want() {
				run.Skip()
				continue
			}
			if derr != nil {
				run.Tally("chain:unavailable")
				run.Skip()
				continue
			}
			var res result
			if p, msg := vgen.Recover(func() { res = runPlumb(c, mode) }); p {
				res.err = "panic: " + msg
			}
			if res.err != "" {
				run.Violate(id, "configuring the data plane (real sockets) failed: "+res.err, c)
				run.Skip()
				continue
			}
			ml, lt := linkTerms(c)
			bufs := alignWithModel(c, res.bufs)
			var ot []uint64
			n := 0
			for j := range ml {
				ot = obsFlat(ot, bufs[j])
				if bufs[j] != nil {
					n++
				}
			}
			run.Tally(fmt.Sprintf("%s:v6=%v", kind, c.V6))
			run.Tally(fmt.Sprintf("%s:over-limit rcv=%v snd=%v", kind, c.Rcv > rmax, c.Snd > wmax))
			run.Tally(fmt.Sprintf("%s:swap-visible=%v", kind, swapVisible(c.Rcv, c.Snd, defOf(c.V6))))
			term := vgen.App("SockCfg.CChain", vgen.N(uint64(c.Rcv)), vgen.N(uint64(c.Snd)),
				vgen.N(uint64(c.Batch)), vgen.B(c.Reuse), lt,
				vgen.N(uint64(defOf(c.V6).Rcv)), vgen.N(uint64(rmax)),
				vgen.N(uint64(defOf(c.V6).Snd)), vgen.N(uint64(wmax)), vgen.NList(ot))
			run.Add(kind, term, fmt.Sprint(c), swapVisible(c.Rcv, c.Snd, defOf(c.V6)) && n > 0,
				map[string]any{"case": c, "default": defOf(c.V6), "rmem_max": rmax, "wmem_max": wmax, "impl": bufs})
		}
	}
	chain("chain", run.Count(30, 1000), 2000000, modeReal)

	// conn.New alone
	ns := run.Count(40, 2000)
	for i := 0; i < ns; i, id = i+1, id+1 {
		r := rng.Fork(uint64(1000000 + i))
		rcv, snd := pick(r, rmax), pick(r, wmax)
		connected := r.Bool()
		v6 := i%2 == 1
		if i == 0 {
			rcv, snd = 0, 0
		} else if i-1 < 2*len(over) {
			rcv, snd = over[(i-1)/2][0], over[(i-1)/2][1]
		}
		if v6 && derr6 != nil {
			v6 = false
			if run.Want() {
				run.Tally("sock:ipv6-unavailable-ran-ipv4")
			}
		}
		if !run.Want() {
			run.Skip()
			continue
		}
		if derr != nil {
			run.Tally("sock:unavailable")
			run.Skip()
			continue
		}
		o, err := openSock(rcv, snd, connected, v6)
		if err != nil {
			run.Violate(id, "conn.New failed: "+err.Error(), map[string]int{"rcv": rcv, "snd": snd})
			run.Skip()
			continue
		}
		run.Tally(fmt.Sprintf("sock:connected=%v,v6=%v", connected, v6))
		run.Tally(fmt.Sprintf("sock:over-limit rcv=%v snd=%v", rcv > rmax, snd > wmax))
		term := vgen.App("SockCfg.CSock", vgen.N(uint64(rcv)), vgen.N(uint64(snd)),
			vgen.N(uint64(defOf(v6).Rcv)), vgen.N(uint64(rmax)), vgen.N(uint64(defOf(v6).Snd)),
			vgen.N(uint64(wmax)), vgen.N(uint64(o.Rcv)), vgen.N(uint64(o.Snd)))
		run.Tally(fmt.Sprintf("sock:swap-visible=%v", swapVisible(rcv, snd, defOf(v6))))
		run.Add("sock", term, fmt.Sprint(rcv, snd, connected, v6), swapVisible(rcv, snd, defOf(v6)),
			map[string]any{"rcv": rcv, "snd": snd, "connected": connected, "v6": v6, "default": defOf(v6),
				"rmem_max": rmax, "wmem_max": wmax, "impl": o})
	}
	chain("chain-default", run.Count(16, 200), 3000000, modeDefault)
	run.Finish()
}
