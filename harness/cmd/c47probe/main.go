package main

import (
	"fmt"

	"github.com/scionproto/scion/pkg/addr"
	"github.com/scionproto/scion/pkg/segment/iface"
	"github.com/scionproto/scion/pkg/snet"
	snetpath "github.com/scionproto/scion/pkg/snet/path"
	"github.com/scionproto/scion/private/path/pathpol"
)

func mk(hops ...string) snet.Path {
	// hops "ia" ; interfaces: src out 1; each mid in 1 out 2; dst in 1
	var ifs []snet.PathInterface
	for i, h := range hops {
		ia := addr.MustParseIA(h)
		if i > 0 {
			ifs = append(ifs, snet.PathInterface{IA: ia, ID: iface.ID(1)})
		}
		if i < len(hops)-1 {
			ifs = append(ifs, snet.PathInterface{IA: ia, ID: iface.ID(2)})
		}
	}
	return snetpath.Path{Src: ifs[0].IA, Dst: ifs[len(ifs)-1].IA, Meta: snet.PathMetadata{Interfaces: ifs}}
}

func try(seq string, p snet.Path) {
	s, err := pathpol.NewSequence(seq)
	if err != nil {
		fmt.Printf("%-28q parse error\n", seq)
		return
	}
	d, _ := pathpol.GetSequence(p)
	fmt.Printf("%-28q path %-40q kept=%v\n", seq, d, len(s.Eval([]snet.Path{p})) == 1)
}

func main() {
	try("1-FF00:0:110 0", mk("1-ff00:0:110", "1-2"))
	try("1-ff00:0:110 0", mk("1-ff00:0:110", "1-2"))
	try("1-0:0:1 0", mk("1-1", "1-2"))
	try("1-1 0", mk("1-1", "1-2"))
	try("1-1 1-2 | 1-3", mk("1-1", "1-3"))
	try("(1-1 1-2) | 1-3", mk("1-1", "1-3"))
	try("1-1 1-2 | 1-3", mk("1-3", "1-3"))
	try("1-4294967296 0", mk("1-1:0:0", "1-2"))
	try("1-fffff:0:0 0", mk("1-1:0:0", "1-2"))
	try("1 -1 0", mk("1-1", "1-2"))
	try("1-00", mk("1-1", "1-2"))
	try("1-0:0:01", mk("1-0:0:0", "1-2"))
	try(" ", mk("1-1", "1-2"))
	try("1-1#65537 0", mk("1-1", "1-2"))
}
