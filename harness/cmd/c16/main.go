// Runner for C16: BFD state machine, reception filter and session histories on
// the real router/bfd code (build tag verif for the accessors).
package main

import (
	"context"
	"fmt"
	"sync"
	"sync/atomic"
	"time"

	"github.com/gopacket/gopacket/layers"
	"github.com/prometheus/client_golang/prometheus"

	"github.com/scionproto/scion/router/bfd"
	"verifharness/internal/vgen"
)

type pktF struct {
	Version, Len    uint64
	Auth, AuthHdr   bool
	AuthType, Mult  uint64
	Multipoint      bool
	My, Your, State uint64
	Poll, Final     bool
	Echo            uint64
	Demand          bool
	DesTx, ReqRx    uint64
	pkt             *layers.BFD
}

func b2n(b bool) uint64 {
	if b {
		return 1
	}
	return 0
}

func (p *pktF) fields() []uint64 {
	return []uint64{p.Version, p.Len, b2n(p.Auth), b2n(p.AuthHdr), p.AuthType, p.Mult,
		b2n(p.Multipoint), p.My, p.Your, p.State, b2n(p.Poll), b2n(p.Final), p.Echo,
		b2n(p.Demand), p.DesTx, p.ReqRx}
}

// genPkt draws a control packet. valid = mostly acceptable packets.
func genPkt(r *vgen.Rand, valid bool) *pktF {
	p := &pktF{Version: 1, Mult: uint64(r.Range(1, 3)), My: uint64(r.Range(1, 5)),
		Your: uint64(r.Range(0, 3)), State: uint64(r.Intn(4)),
		DesTx: uint64(r.Range(1, 50000)), ReqRx: uint64(r.Range(1, 50000))}
	flip := func(num, den int) bool { return r.Chance(num, den) }
	if !valid || flip(1, 8) {
		// one or more irregularities
		k := r.Range(1, 3)
		for i := 0; i < k; i++ {
			switch r.Intn(11) {
			case 0:
				p.Version = uint64(r.Intn(8))
			case 1:
				p.Mult = 0
			case 2:
				p.Multipoint = true
			case 3:
				p.My = 0
			case 4:
				p.Your = 0
			case 5:
				p.Auth = true
				p.AuthHdr = r.Bool()
				p.AuthType = uint64(r.Intn(6))
			case 6:
				p.AuthHdr = true
				p.AuthType = uint64(r.Intn(6))
			case 7:
				p.Poll = true
			case 8:
				p.Final = true
			case 9:
				p.Echo = uint64(r.Intn(3))
			case 10:
				p.Demand = true
			}
		}
	}
	pkt := &layers.BFD{
		Version: layers.BFDVersion(p.Version), State: layers.BFDState(p.State),
		Poll: p.Poll, Final: p.Final, AuthPresent: p.Auth, Demand: p.Demand,
		Multipoint: p.Multipoint, DetectMultiplier: layers.BFDDetectMultiplier(p.Mult),
		MyDiscriminator:           layers.BFDDiscriminator(p.My),
		YourDiscriminator:         layers.BFDDiscriminator(p.Your),
		DesiredMinTxInterval:      layers.BFDTimeInterval(p.DesTx),
		RequiredMinRxInterval:     layers.BFDTimeInterval(p.ReqRx),
		RequiredMinEchoRxInterval: layers.BFDTimeInterval(p.Echo),
	}
	if p.AuthHdr {
		pkt.AuthHeader = &layers.BFDAuthHeader{AuthType: layers.BFDAuthType(p.AuthType),
			Data: r.Bytes(r.Intn(20))}
	}
	p.Len = uint64(pkt.Length())
	p.pkt = pkt
	return p
}

type nopSender struct{}

func (nopSender) Send(*layers.BFD) error { return nil }

// counter wraps a prometheus counter and counts Add calls (made by Session.Run
// for every accepted message, right after it was taken from the queue).
type counter struct {
	prometheus.Counter
	n atomic.Int64
}

func (c *counter) Add(v float64) {
	if v > 0 {
		c.n.Add(1)
	}
}

const detect = 1000 * time.Millisecond // RequiredMinRxInterval of the sessions under test (detection time = Mult * detect)
const localDisc = 77

type histOp struct {
	P       *pktF // nil = wait for the detection timer
	Discard bool
}

type obs struct{ State, RDisc uint64 }

// runHistory drives one real session.
func runHistory(rd0 uint32, ops []histOp) []obs {
	rx := &counter{Counter: prometheus.NewCounter(prometheus.CounterOpts{Name: "x"})}
	s := &bfd.Session{
		Sender: nopSender{}, DetectMult: 1,
		DesiredMinTxInterval: 50 * time.Millisecond, RequiredMinRxInterval: detect,
		LocalDiscriminator: localDisc, RemoteDiscriminator: layers.BFDDiscriminator(rd0),
		ReceiveQueueSize: 0,
		Metrics:          bfd.Metrics{PacketsReceived: rx},
	}
	ctx, cancel := context.WithCancel(context.Background())
	defer cancel()
	done := make(chan struct{})
	go func() { _ = s.Run(ctx); close(done) }()
	waitInit(s)
	var out []obs
	accepted := int64(0)
	read := func() obs {
		return obs{uint64(s.VerifLocalState()), uint64(s.VerifRemoteDiscriminator())}
	}
	for _, o := range ops {
		if o.P == nil {
			// timeouts are only generated after an accepted packet (remote discriminator learned):
			// the expiry resets it to 0, which is the signal that Run handled the timer
			time.Sleep(detect)
			for i := 0; i < 200000 && s.VerifRemoteDiscriminator() != 0; i++ {
				time.Sleep(100 * time.Microsecond)
			}
			settle()
			out = append(out, read())
			continue
		}
		s.ReceiveMessage(o.P.pkt) // unbuffered: returns once Run has taken it (or discarded)
		if !o.Discard {
			accepted++
			for rx.n.Load() < accepted {
				time.Sleep(50 * time.Microsecond)
			}
			settle() // let Run finish the transition
		}
		out = append(out, read())
	}
	_ = s.Close()
	<-done
	return out
}

func main() {
	run := vgen.Flags("C16")
	run.Imports = []string{"Model.BFD"}
	run.CheckFn = "BFD.check"
	run.DiagFn = "BFD.diag"
	run.CaseType = "BFD.case"
	run.Rule = "transition table: all 6x8 (state,event) codes incl. out-of-range ones (exhaustive); " +
		"shouldDiscard: generated control packets with 0-3 irregularities; histories: 6-14 ops " +
		"(accepted/discarded packets of every state, detection-timer expiries) on a real bfd.Session; " +
		"non-trivial = history contains a state change, a received AdminDown or a timeout / packet that is discarded"
	rng := vgen.NewRand(run.Seed)

	// 1. transition table, exhaustive (T1)
	for s := 0; s < 6; s++ {
		for e := 0; e < 8; e++ {
			if !run.Want() {
				run.Skip()
				continue
			}
			res := bfd.VerifTransition(s, e)
			run.Add("transition",
				vgen.App("BFD.CTrans", vgen.N(uint64(s)), vgen.N(uint64(e)), vgen.N(uint64(res))),
				fmt.Sprintf("%d/%d", s, e), s < 4 && e < 6,
				map[string]int{"state": s, "event": e, "impl": res})
		}
	}
	// 2. shouldDiscard
	nd := run.Count(400, 20000)
	for i := 0; i < nd; i++ {
		p := genPkt(rng.Fork(uint64(i)), i%3 != 0)
		if !run.Want() {
			run.Skip()
			continue
		}
		d := bfd.VerifShouldDiscard(p.pkt)
		run.Tally(fmt.Sprintf("discard:%v", d))
		run.Add("discard", vgen.App("BFD.CDiscard", vgen.NList(p.fields()), vgen.B(d)),
			fmt.Sprint(p.fields()), d, map[string]any{"fields": p.fields(), "impl": d})
	}
	// 3. session histories (run concurrently: they mostly sleep)
	nh := run.Count(60, 1500)
	type hist struct {
		rd0       uint32
		wrongYour bool
		ops       []histOp
		out       []obs
		want      bool
	}
	hs := make([]*hist, nh)
	for i := 0; i < nh; i++ {
		r := rng.Fork(uint64(1000000 + i))
		h := &hist{rd0: uint32(r.Intn(3)), wrongYour: i%6 == 5}
		n := r.Range(6, 14)
		for j := 0; j < n; j++ {
			p := genPkt(r, true)
			// an accepted packet arms the detection timer with Mult * detect: 255 * detect (far beyond
			// the duration of a history, also on a loaded machine) unless the next op is the expiry
			p.Mult, p.pkt.DetectMultiplier = 255, 255
			if p.Your != 0 && !h.wrongYour {
				// the session's own discriminator; other non-zero values only in 1 history of 6
				// (RFC 5880 6.8.6 session lookup, known finding your-discriminator-unchecked)
				p.Your, p.pkt.YourDiscriminator = localDisc, localDisc
			}
			d := bfd.VerifShouldDiscard(p.pkt)
			if !d && r.Chance(1, 4) {
				p.Mult, p.pkt.DetectMultiplier = 1, 1
				h.ops = append(h.ops, histOp{P: p}, histOp{})
				j++
				continue
			}
			h.ops = append(h.ops, histOp{P: p, Discard: d})
		}
		hs[i] = h
	}
	// decide which to execute (ids are consecutive from here)
	sem := make(chan struct{}, 64)
	var wg sync.WaitGroup
	base := 48 + nd
	for i, h := range hs {
		h.want = true
		if !wantID(run, base+i) {
			h.want = false
			continue
		}
		wg.Add(1)
		sem <- struct{}{}
		go func(h *hist) {
			defer wg.Done()
			defer func() { <-sem }()
			h.out = runHistory(h.rd0, h.ops)
		}(h)
	}
	wg.Wait()
	for _, h := range hs {
		if !h.want {
			run.Skip()
			continue
		}
		opsT := make([]string, len(h.ops))
		var desc []any
		nontriv := false
		var tags []string
		prev := uint64(1)
		for j, o := range h.ops {
			if o.P == nil {
				opsT[j] = "None"
				desc = append(desc, "timeout")
				nontriv = true
				run.Tally("op:timeout")
			} else {
				opsT[j] = vgen.Opt(vgen.NList(o.P.fields()), true)
				desc = append(desc, map[string]any{"state": o.P.State, "my": o.P.My, "your": o.P.Your,
					"discard": o.Discard})
				run.Tally(fmt.Sprintf("op:recv-state%d-discard:%v", o.P.State, o.Discard))
				if o.P.State == 0 && !o.Discard {
					tags = append(tags, "recv-admindown")
				}
				if o.P.Your != 0 && o.P.Your != localDisc && !o.Discard {
					tags = append(tags, "your-discriminator-unchecked")
					run.Tally("op:accepted-with-foreign-your-discriminator")
				}
			}
			if h.out[j].State != prev {
				nontriv = true
			}
			prev = h.out[j].State
		}
		obsT := make([]string, len(h.out))
		for j, o := range h.out {
			obsT[j] = vgen.Pair(vgen.N(o.State), vgen.N(o.RDisc))
		}
		run.Add("history",
			vgen.App("BFD.CHist", vgen.N(localDisc), vgen.N(uint64(h.rd0)), vgen.List(opsT), vgen.List(obsT)),
			fmt.Sprint(h.rd0, opsT), nontriv,
			map[string]any{"rdisc0": h.rd0, "ops": desc, "impl": h.out}, tags...)
	}
	// 4. detection time: one accepted packet that leaves the session in Init/Up, then silence; the
	// moment the session falls back to Down is bracketed by polling (wall clock, microseconds)
	ndt := run.Count(24, 240)
	type dcase struct {
		r      time.Duration
		p      *pktF
		hi, lo uint64
		want   bool
	}
	ds := make([]*dcase, ndt)
	baseD := base + nh
	for i := range ds {
		r := rng.Fork(uint64(2000000 + i))
		d := &dcase{r: time.Duration([]int{20, 40, 80}[r.Intn(3)]) * time.Millisecond}
		p := genPkt(r, true)
		for bfd.VerifShouldDiscard(p.pkt) || p.State == 0 || p.State == 3 {
			p = genPkt(r, true) // Down (-> Init) or Init with a discriminator (-> Up)
		}
		if p.State == 2 && p.Your == 0 {
			p.Your, p.pkt.YourDiscriminator = localDisc, localDisc
		}
		p.Mult = uint64(r.Range(1, 3))
		p.DesTx = uint64([]int{10000, 30000, 60000, 120000}[r.Intn(4)])
		p.pkt.DetectMultiplier = layers.BFDDetectMultiplier(p.Mult)
		p.pkt.DesiredMinTxInterval = layers.BFDTimeInterval(p.DesTx)
		d.p = p
		d.want = wantID(run, baseD+i)
		ds[i] = d
	}
	for _, d := range ds {
		if !d.want {
			continue
		}
		wg.Add(1)
		sem <- struct{}{}
		go func(d *dcase) {
			defer wg.Done()
			defer func() { <-sem }()
			d.hi, d.lo = runDetect(d.r, d.p)
		}(d)
	}
	wg.Wait()
	for _, d := range ds {
		if !d.want {
			run.Skip()
			continue
		}
		run.Tally(fmt.Sprintf("detect:reqrx=%dms,destx=%dms,mult=%d", d.r/time.Millisecond, d.p.DesTx/1000, d.p.Mult))
		run.Add("detect",
			vgen.App("BFD.CDetect", vgen.N(uint64(d.r/time.Microsecond)), vgen.NList(d.p.fields()),
				vgen.N(d.hi), vgen.N(d.lo)),
			fmt.Sprint(d.r, d.p.fields()), true,
			map[string]any{"required_min_rx_us": d.r / time.Microsecond, "fields": d.p.fields(),
				"down_first_seen_after_us": d.hi, "last_seen_not_down_after_us": d.lo})
	}
	run.Finish()
}

// runDetect hands one packet to a fresh real session and brackets the moment it falls back to Down.
func runDetect(reqRx time.Duration, p *pktF) (hi, lo uint64) {
	rx := &counter{Counter: prometheus.NewCounter(prometheus.CounterOpts{Name: "x"})}
	s := &bfd.Session{
		Sender: nopSender{}, DetectMult: 1,
		DesiredMinTxInterval: 50 * time.Millisecond, RequiredMinRxInterval: reqRx,
		LocalDiscriminator: localDisc, ReceiveQueueSize: 0,
		Metrics: bfd.Metrics{PacketsReceived: rx},
	}
	ctx, cancel := context.WithCancel(context.Background())
	defer cancel()
	done := make(chan struct{})
	go func() { _ = s.Run(ctx); close(done) }()
	waitInit(s)
	t0b := time.Now() // before the hand-over: the detection timer is armed after this instant
	s.ReceiveMessage(p.pkt)
	for rx.n.Load() < 1 {
		time.Sleep(20 * time.Microsecond)
	}
	t0a := time.Now() // after the acceptance was counted: the timer was armed before this instant
	time.Sleep(500 * time.Microsecond)
	deadline := t0a.Add(8 * time.Second)
	lo = 1 << 40 // "never seen not-Down": fails the lower bracket
	sawUp := false
	for time.Now().Before(deadline) {
		before := time.Now()
		st := s.VerifLocalState()
		if st != 1 {
			sawUp = true
			lo = uint64(before.Sub(t0a) / time.Microsecond)
		} else if sawUp {
			hi = uint64(time.Since(t0b) / time.Microsecond)
			break
		}
		time.Sleep(100 * time.Microsecond)
	}
	_ = s.Close()
	<-done
	return hi, lo
}

func wantID(run *vgen.Run, id int) bool { return run.WantID(id) }

// waitInit waits until Run initialised the session (state Down is set by Run; the zero value is
// AdminDown). On a loaded machine the goroutine may take a while to be scheduled.
func waitInit(s *bfd.Session) {
	for i := 0; i < 40000 && s.VerifLocalState() != 1; i++ {
		time.Sleep(50 * time.Microsecond)
	}
	time.Sleep(2 * time.Millisecond)
}

// settle sleeps 2 ms, and longer when the machine is so loaded that sleeps overshoot.
func settle() {
	t := time.Now()
	time.Sleep(3 * time.Millisecond)
	if over := time.Since(t) - 3*time.Millisecond; over > time.Millisecond {
		time.Sleep(min(40*over, 400*time.Millisecond))
	}
}
