// Runner for C19: path meta header and pointer arithmetic of
// pkg/slayers/path/scion (Base, Raw, Decoded), through the exported API only.
//
// Streams (ids in this order, the accept tables interleaved evenly):
//
//	word    MetaHdr.DecodeFromBytes + SerializeTo on 32-bit words
//	enc     MetaHdr.SerializeTo on arbitrary uint8 field values
//	accept  Base.DecodeFromBytes for one SegLen[0] and all 64x64 (SegLen[1], SegLen[2])
//	shape   all 4x64 (CurrINF, CurrHF) on one accepted shape: IsXover, IsFirstHopAfterXover,
//	        CurrINFMatchesCurrHF, IsLastHop, IncPath
//	walk    IncPath from hop 0 until it fails
//	path    serialized paths: Decoded/Raw DecodeFromBytes, Reverse (once, twice), ToRaw, ToDecoded
//	revu8   Decoded.Reverse with hand-set uint8 pointers
//	seq     operation sequences on one Raw and one Decoded object, observed after every step
package main

import (
	"bytes"
	"encoding/binary"
	"fmt"
	"runtime"
	"sync"

	"github.com/scionproto/scion/pkg/slayers/path"
	"github.com/scionproto/scion/pkg/slayers/path/scion"
	"verifharness/internal/vgen"
)

func word(ci, ch, rsv, s0, s1, s2 uint32) uint32 {
	return ci<<30 | ch<<24 | rsv<<18 | s0<<12 | s1<<6 | s2
}

func wbytes(w uint32) []byte {
	b := make([]byte, 4)
	binary.BigEndian.PutUint32(b, w)
	return b
}

func b2u(b bool) uint64 {
	if b {
		return 1
	}
	return 0
}

// ---------------------------------------------------------------- pointer observations

// obsAt runs the real code on the meta header (ci, ch, shape) and packs the observation:
// CurrHF' (8) | CurrINF' (8) | IncPath result (2) | last | match | first | xover.
// ok=false: Base.DecodeFromBytes rejected.
func obsAt(ci, ch, rsv, s0, s1, s2 uint32) (packed uint32, ninf, nhops int, ok bool) {
	var b scion.Base
	if err := b.DecodeFromBytes(wbytes(word(ci, ch, rsv, s0, s1, s2))); err != nil {
		return 0, 0, 0, false
	}
	r := scion.Raw{Base: b}
	xover := b.IsXover()
	first := b.IsFirstHopAfterXover()
	match := r.CurrINFMatchesCurrHF()
	last := r.IsLastHop()
	c := b // IncPath mutates
	err := c.IncPath()
	inc := uint32(0)
	if err != nil {
		if c.NumINF == 0 {
			inc = 1
		} else {
			inc = 2
		}
	}
	packed = uint32(c.PathMeta.CurrHF) | uint32(c.PathMeta.CurrINF)<<8 | inc<<16 |
		uint32(b2u(last))<<18 | uint32(b2u(match))<<19 | uint32(b2u(first))<<20 | uint32(b2u(xover))<<21
	return packed, b.NumINF, b.NumHops, true
}

type shape struct{ s0, s1, s2 uint32 }

func (s shape) ok() bool {
	if s.s1 == 0 && s.s2 != 0 {
		return false
	}
	if s.s0 == 0 && s.s1 != 0 {
		return false
	}
	return s.s0+s.s1+s.s2 <= 64
}

// shapeInts computes the pointer table of a shape: the packed observations in the order
// CurrINF major, CurrHF minor, two 30-bit entries per integer (first entry in the low bits).
func shapeInts(s shape, rsv uint32) (ws []uint64, ninf, nhops int, ok bool, inconsistent bool) {
	ok = true
	first := true
	var entries []uint32
	for ci := uint32(0); ci < 4; ci++ {
		for ch := uint32(0); ch < 64; ch++ {
			p, ni, nh, o := obsAt(ci, ch, rsv, s.s0, s.s1, s.s2)
			if first {
				ninf, nhops, ok, first = ni, nh, o, false
			} else if o != ok || (o && (ni != ninf || nh != nhops)) {
				inconsistent = true
			}
			entries = append(entries, p)
		}
	}
	for i := 0; i < len(entries); i += 2 {
		ws = append(ws, uint64(entries[i])|uint64(entries[i+1])<<30)
	}
	return
}

// intsTerm prints integers as a list of short lists (coqc parses long flat list literals slowly).
func intsTerm(ws []uint64) string {
	var chunks []string
	for i := 0; i < len(ws); i += 32 {
		chunks = append(chunks, flatInts(ws[i:min(i+32, len(ws))]))
	}
	return vgen.List(chunks)
}

func flatInts(ws []uint64) string {
	return vgen.ListOf(ws, func(w uint64) string { return fmt.Sprintf("%d%%uint63", w) })
}

// walkInts packs CurrINF values (saturated at 3) two bits each, thirty per integer.
func walkInts(vs []uint64) []uint64 {
	var ws []uint64
	for i := 0; i < len(vs); i += 30 {
		var w uint64
		for k := 0; k < 30 && i+k < len(vs); k++ {
			w |= min(vs[i+k], 3) << (2 * k)
		}
		ws = append(ws, w)
	}
	return ws
}

// walk starts at hop 0 and advances with IncPath until it fails.
func walk(s shape) []uint64 {
	var b scion.Base
	if err := b.DecodeFromBytes(wbytes(word(0, 0, 0, s.s0, s.s1, s.s2))); err != nil {
		return nil
	}
	var out []uint64
	for i := 0; i < 300; i++ {
		out = append(out, uint64(b.PathMeta.CurrINF))
		if err := b.IncPath(); err != nil {
			break
		}
	}
	return out
}

// ---------------------------------------------------------------- path views

type infoV struct {
	Peer, ConsDir bool
	SegID         uint16
	TS            uint32
}

type pathV struct {
	CI, CH, S0, S1, S2 uint64
	NumINF, NumHops    uint64
	Infos              []infoV
	Hops               []uint64 // index of the input hop field found at this position (9999: none of them)
}

// hopIndex maps the canonical 12 bytes of every input hop field of the current case to its
// position in the input. Hop fields are printed as these small numbers (big literals are slow
// to parse in coqc); a hop field that is none of the input ones prints as 9999.
type hopIndex map[string]uint64

func hopKey(h *path.HopField) string {
	b := make([]byte, path.HopLen)
	_ = h.SerializeTo(b)
	return string(b)
}

func (hi hopIndex) num(h *path.HopField) uint64 {
	if v, ok := hi[hopKey(h)]; ok {
		return v
	}
	return 9999
}

func viewDecoded(d *scion.Decoded, hi hopIndex) *pathV {
	v := &pathV{CI: uint64(d.PathMeta.CurrINF), CH: uint64(d.PathMeta.CurrHF),
		S0: uint64(d.PathMeta.SegLen[0]), S1: uint64(d.PathMeta.SegLen[1]), S2: uint64(d.PathMeta.SegLen[2]),
		NumINF: uint64(d.NumINF), NumHops: uint64(d.NumHops)}
	for i := range d.InfoFields {
		f := d.InfoFields[i]
		v.Infos = append(v.Infos, infoV{f.Peer, f.ConsDir, f.SegID, f.Timestamp})
	}
	for i := range d.HopFields {
		v.Hops = append(v.Hops, hi.num(&d.HopFields[i]))
	}
	return v
}

func viewRaw(r *scion.Raw, hi hopIndex) *pathV {
	v := &pathV{CI: uint64(r.PathMeta.CurrINF), CH: uint64(r.PathMeta.CurrHF),
		S0: uint64(r.PathMeta.SegLen[0]), S1: uint64(r.PathMeta.SegLen[1]), S2: uint64(r.PathMeta.SegLen[2]),
		NumINF: uint64(r.NumINF), NumHops: uint64(r.NumHops)}
	for i := 0; i < r.NumINF; i++ {
		f, err := r.GetInfoField(i)
		if err != nil {
			break
		}
		v.Infos = append(v.Infos, infoV{f.Peer, f.ConsDir, f.SegID, f.Timestamp})
	}
	for i := 0; i < r.NumHops; i++ {
		h, err := r.GetHopField(i)
		if err != nil {
			break
		}
		v.Hops = append(v.Hops, hi.num(&h))
	}
	return v
}

func infoTerm(f infoV) string {
	return vgen.App("Meta.mk_info", vgen.B(f.Peer), vgen.B(f.ConsDir), vgen.N(uint64(f.SegID)), vgen.N(uint64(f.TS)))
}

func hopsTerm(hs []uint64) string { return vgen.NList(hs) }

func (v *pathV) term() string {
	return vgen.App("Meta.mk_path", vgen.N(v.CI), vgen.N(v.CH), vgen.N(v.S0), vgen.N(v.S1), vgen.N(v.S2),
		vgen.N(v.NumINF), vgen.N(v.NumHops), vgen.ListOf(v.Infos, infoTerm), hopsTerm(v.Hops))
}

func optTerm(v *pathV) string {
	if v == nil {
		return "None"
	}
	return vgen.Opt(v.term(), true)
}

// res: 0 Ok, 1 Err, 2 Panic
type resV struct {
	Kind int
	P    *pathV
}

func (r resV) term() string {
	switch r.Kind {
	case 0:
		return vgen.App("Meta.Ok", r.P.term())
	case 1:
		return "Meta.Err"
	}
	return "Meta.Panic"
}

func (r resV) short() any {
	switch r.Kind {
	case 0:
		return map[string]any{"ok": []uint64{r.P.CI, r.P.CH, r.P.S0, r.P.S1, r.P.S2}}
	case 1:
		return "err"
	}
	return "panic"
}

// reverseDecoded applies Decoded.Reverse n times.
func reverseDecoded(d *scion.Decoded, n int, hi hopIndex) (res resV) {
	panicked, _ := vgen.Recover(func() {
		cur := d
		for i := 0; i < n; i++ {
			p, err := cur.Reverse()
			if err != nil {
				res = resV{Kind: 1}
				return
			}
			cur = p.(*scion.Decoded)
		}
		res = resV{Kind: 0, P: viewDecoded(cur, hi)}
	})
	if panicked {
		return resV{Kind: 2}
	}
	return res
}

func reverseRaw(r *scion.Raw, n int, hi hopIndex) (res resV, out *scion.Raw) {
	panicked, _ := vgen.Recover(func() {
		cur := r
		for i := 0; i < n; i++ {
			p, err := cur.Reverse()
			if err != nil {
				res = resV{Kind: 1}
				return
			}
			cur = p.(*scion.Raw)
		}
		res = resV{Kind: 0, P: viewRaw(cur, hi)}
		out = cur
	})
	if panicked {
		return resV{Kind: 2}, nil
	}
	return res, out
}

func decodeD(buf []byte) *scion.Decoded {
	d := &scion.Decoded{}
	if err := d.DecodeFromBytes(append([]byte(nil), buf...)); err != nil {
		return nil
	}
	return d
}

func decodeR(buf []byte) *scion.Raw {
	r := &scion.Raw{}
	if err := r.DecodeFromBytes(append([]byte(nil), buf...)); err != nil {
		return nil
	}
	return r
}

// ---------------------------------------------------------------- generators

func genShape(r *vgen.Rand) shape {
	switch r.Intn(10) {
	case 0: // one segment
		return shape{uint32(r.Range(1, 63)), 0, 0}
	case 1, 2, 3: // two segments
		a := r.Range(1, 63)
		b := r.Range(1, 64-a)
		if b > 63 {
			b = 63
		}
		return shape{uint32(a), uint32(b), 0}
	default: // three segments
		a := r.Range(1, 62)
		b := r.Range(1, 63-a)
		c := r.Range(1, 64-a-b)
		if c > 63 {
			c = 63
		}
		return shape{uint32(a), uint32(b), uint32(c)}
	}
}

func genSmallShape(r *vgen.Rand) shape {
	switch r.Intn(6) {
	case 0:
		return shape{uint32(r.Range(1, 6)), 0, 0}
	case 1, 2:
		return shape{uint32(r.Range(1, 5)), uint32(r.Range(1, 5)), 0}
	default:
		return shape{uint32(r.Range(1, 4)), uint32(r.Range(1, 4)), uint32(r.Range(1, 4))}
	}
}

// validPtr draws a hop position and the segment containing it.
func validPtr(r *vgen.Rand, s shape) (ci, ch uint32) {
	n := s.s0 + s.s1 + s.s2
	if n == 0 {
		return 0, 0
	}
	// favour segment boundaries
	cands := []uint32{0, n - 1}
	if s.s1 > 0 {
		cands = append(cands, s.s0-1, s.s0)
	}
	if s.s2 > 0 {
		cands = append(cands, s.s0+s.s1-1, s.s0+s.s1)
	}
	if r.Chance(1, 2) {
		ch = cands[r.Intn(len(cands))]
	} else {
		ch = uint32(r.Intn(int(n)))
	}
	switch {
	case ch < s.s0:
		ci = 0
	case ch < s.s0+s.s1:
		ci = 1
	default:
		ci = 2
	}
	return
}

func main() {
	run := vgen.Flags("C19")
	run.Imports = []string{"Model.Meta"}
	run.CheckFn = "Meta.check"
	run.DiagFn = "Meta.diag"
	run.CaseType = "Meta.case"
	run.Prelude = "From Coq Require Import PrimInt63."
	thorough := run.Tier == "thorough"
	run.Rule = "accept: every run all 2^18 segment-length triples through Base.DecodeFromBytes (quick: 3 seeded pointer/reserved-bit " +
		"variants each; thorough: all 256 pointer values each = all 2^26 meta values), compared entry by entry in Coq; " +
		"shape: the complete 4x64 pointer table of an accepted shape (quick: all boundary shapes with lengths in {0,1,2,62,63} " +
		"+ sampled shapes; thorough: all 43 744 accepted shapes = every accepted meta value); walk: IncPath from hop 0 to the end; " +
		"word/enc: meta header words incl. reserved bits / arbitrary uint8 fields; path: serialized paths with sampled contents " +
		"(valid, truncated, over-long, invalid shapes, pointers valid or arbitrary) through Decoded and Raw, Reverse once and twice, " +
		"ToRaw/ToDecoded; revu8: Decoded.Reverse with hand-set uint8 pointers; seq: operation sequences (4-12 steps: Raw.IncPath / " +
		"Base.IncPath incl. the failing one at the end, Reverse, Reverse again, ToDecoded/ToRaw, SetInfoField/SetHopField, pointers " +
		"assigned directly) on ONE Raw and ONE Decoded object decoded from the same buffer (pointers valid, arbitrary, or beyond the " +
		"last hop), both objects observed through the public API after every step. non-trivial = word/enc always; accept rows with at " +
		"least one accepted triple; shapes/walks with >= 2 segments; paths that decode and have >= 2 hops"
	rng := vgen.NewRand(run.Seed)

	type job func()
	var jobs []job

	// ---- 1. words
	boundaryWords := []uint32{0, 0xFFFFFFFF, 0x00FC0000, 0xFF03FFFF, 0x80000000, 0x40000000, 0x3F000000,
		0x0003F000, 0x00000FC0, 0x0000003F, 0x00001041, 0x01001041, 0xC1FFF000, 0x00040000, 0x00800000}
	nw := run.Count(200, 5000)
	for i := 0; i < nw; i++ {
		r := rng.Fork(uint64(i))
		var w uint32
		if i < len(boundaryWords) {
			w = boundaryWords[i]
		} else {
			w = uint32(r.U64())
		}
		jobs = append(jobs, func() {
			if !run.Want() {
				run.Skip()
				return
			}
			var m scion.MetaHdr
			_ = m.DecodeFromBytes(wbytes(w))
			out := make([]byte, 4)
			_ = m.SerializeTo(out)
			obs := []uint64{uint64(m.CurrINF), uint64(m.CurrHF), uint64(m.SegLen[0]), uint64(m.SegLen[1]),
				uint64(m.SegLen[2]), uint64(binary.BigEndian.Uint32(out))}
			run.Add("word", vgen.App("Meta.CWord", vgen.N(uint64(w)), vgen.NList(obs)),
				fmt.Sprint(w), true, map[string]any{"word": w, "impl": obs})
		})
	}
	// ---- 2. SerializeTo on arbitrary uint8 values
	ne := run.Count(150, 3000)
	for i := 0; i < ne; i++ {
		r := rng.Fork(uint64(100000 + i))
		f := r.Bytes(5)
		if i%5 == 0 {
			for k := range f {
				f[k] = vgen.Pick(r, byte(0), 1, 3, 4, 63, 64, 65, 127, 128, 255)
			}
		}
		jobs = append(jobs, func() {
			if !run.Want() {
				run.Skip()
				return
			}
			m := scion.MetaHdr{CurrINF: f[0], CurrHF: f[1], SegLen: [3]uint8{f[2], f[3], f[4]}}
			out := make([]byte, 4)
			_ = m.SerializeTo(out)
			e := binary.BigEndian.Uint32(out)
			run.Add("enc", vgen.App("Meta.CEnc", vgen.N(uint64(f[0])), vgen.N(uint64(f[1])), vgen.N(uint64(f[2])),
				vgen.N(uint64(f[3])), vgen.N(uint64(f[4])), vgen.N(uint64(e))),
				fmt.Sprint(f), true, map[string]any{"fields": f, "impl": e})
		})
	}
	// ---- 4./5. shapes and walks
	var shapes []shape
	if thorough {
		for a := uint32(0); a < 64; a++ {
			for b := uint32(0); b < 64; b++ {
				for c := uint32(0); c < 64; c++ {
					if s := (shape{a, b, c}); s.ok() {
						shapes = append(shapes, s)
					}
				}
			}
		}
	} else {
		bv := []uint32{0, 1, 2, 62, 63}
		seen := map[shape]bool{}
		for _, a := range bv {
			for _, b := range bv {
				for _, c := range bv {
					if s := (shape{a, b, c}); s.ok() {
						shapes = append(shapes, s)
						seen[s] = true
					}
				}
			}
		}
		for _, s := range []shape{{64 - 2, 1, 1}, {1, 62, 1}, {1, 1, 62}, {32, 32, 0}, {21, 21, 22}, {22, 21, 21},
			{31, 1, 32}, {33, 31, 0}, {63, 1, 0}, {1, 63, 0}, {3, 4, 5}} {
			if s.ok() && !seen[s] {
				shapes = append(shapes, s)
				seen[s] = true
			}
		}
		ns := run.Count(260, 0)
		r := rng.Fork(200000)
		for len(shapes) < ns {
			s := genShape(r)
			if r.Chance(1, 3) {
				s = genSmallShape(r)
			}
			if s.ok() && !seen[s] {
				shapes = append(shapes, s)
				seen[s] = true
			}
		}
	}
	// the real code is run for all shapes up front, in parallel (deterministic: no randomness inside)
	type shapeRes struct {
		rows        []uint64
		ninf, nhops int
		ok, incons  bool
		walk        []uint64
	}
	sres := make([]shapeRes, len(shapes))
	{
		var wg sync.WaitGroup
		nworkers := runtime.NumCPU()
		for wk := 0; wk < nworkers; wk++ {
			wg.Add(1)
			go func(wk int) {
				defer wg.Done()
				for i := wk; i < len(shapes); i += nworkers {
					// ids: see below, shape i -> 2 jobs; executing all is cheap, so -only just filters the output
					s := shapes[i]
					rsv := uint32((i * 7) % 64)
					rows, ni, nh, ok, inc := shapeInts(s, rsv)
					sres[i] = shapeRes{rows: rows, ninf: ni, nhops: nh, ok: ok, incons: inc, walk: walk(s)}
				}
			}(wk)
		}
		wg.Wait()
	}
	for i := range shapes {
		i := i
		s := shapes[i]
		jobs = append(jobs, func() {
			if !run.Want() {
				run.Skip()
				return
			}
			res := sres[i]
			desc := map[string]any{"seglen": []uint32{s.s0, s.s1, s.s2}, "num_inf": res.ninf, "num_hops": res.nhops}
			if !res.ok || res.incons {
				id := run.Add("shape", vgen.App("Meta.CShape", vgen.N(uint64(s.s0)), vgen.N(uint64(s.s1)),
					vgen.N(uint64(s.s2)), "0", "0", "[]"), fmt.Sprint(s), false, desc)
				run.Violate(id, "Base.DecodeFromBytes rejects a shape with contiguous non-empty segments of <= 64 hops, "+
					"or its result depends on the pointers", desc)
				return
			}
			run.Tally(fmt.Sprintf("shape:segments=%d", res.ninf))
			run.Add("shape", vgen.App("Meta.CShape", vgen.N(uint64(s.s0)), vgen.N(uint64(s.s1)), vgen.N(uint64(s.s2)),
				vgen.N(uint64(res.ninf)), vgen.N(uint64(res.nhops)), intsTerm(res.rows)),
				fmt.Sprint(s), res.ninf >= 2, desc)
		})
		jobs = append(jobs, func() {
			if !run.Want() {
				run.Skip()
				return
			}
			res := sres[i]
			run.Add("walk", vgen.App("Meta.CWalk", vgen.N(uint64(s.s0)), vgen.N(uint64(s.s1)), vgen.N(uint64(s.s2)),
				vgen.N(uint64(len(res.walk))), flatInts(walkInts(res.walk))), fmt.Sprint(s), res.ninf >= 2,
				map[string]any{"seglen": []uint32{s.s0, s.s1, s.s2}, "impl": res.walk})
		})
	}
	// ---- 6. paths
	np := run.Count(300, 8000)
	for i := 0; i < np; i++ {
		r := rng.Fork(uint64(300000 + i))
		jobs = append(jobs, func() { pathCase(run, r, i) })
	}
	// ---- 7. Decoded.Reverse with arbitrary uint8 pointers
	nr := run.Count(120, 2000)
	for i := 0; i < nr; i++ {
		r := rng.Fork(uint64(400000 + i))
		jobs = append(jobs, func() { revU8Case(run, r) })
	}

	// ---- 8. operation sequences on one Raw and one Decoded object
	nq := run.Count(200, 6000)
	for i := 0; i < nq; i++ {
		r := rng.Fork(uint64(600000 + i))
		jobs = append(jobs, func() { seqCase(run, r, i) })
	}

	// spread the kinds evenly over the shards: visit the jobs with a stride coprime to their number
	// (deterministic, so ids stay replayable for a given tier)
	if len(jobs) > 1 {
		gcd := func(a, b int) int {
			for b != 0 {
				a, b = b, a%b
			}
			return a
		}
		stride := 7919 % len(jobs)
		for stride < 2 || gcd(stride, len(jobs)) != 1 {
			stride++
		}
		perm := make([]job, len(jobs))
		for k := range jobs {
			perm[k] = jobs[(k*stride)%len(jobs)]
		}
		jobs = perm
	}

	// ---- 3. accept tables, interleaved evenly among the other jobs (so that the shards are balanced)
	type accRes struct {
		rows     []uint64
		accepted int
		incons   []string
	}
	ares := make([]accRes, 64)
	{
		var wg sync.WaitGroup
		for a := uint32(0); a < 64; a++ {
			wg.Add(1)
			r := rng.Fork(uint64(500000 + a))
			go func(a uint32, r *vgen.Rand) {
				defer wg.Done()
				res := accRes{}
				var entries []uint32
				for b := uint32(0); b < 64; b++ {
					for c := uint32(0); c < 64; c++ {
						var entry uint32
						firstObs := true
						try := func(ci, ch, rsv uint32) {
							var bs scion.Base
							e := uint32(0)
							if err := bs.DecodeFromBytes(wbytes(word(ci, ch, rsv, a, b, c))); err == nil {
								e = 1 | uint32(bs.NumINF)<<1 | uint32(bs.NumHops)<<3
								if bs.PathMeta.SegLen != [3]uint8{uint8(a), uint8(b), uint8(c)} {
									res.incons = append(res.incons, fmt.Sprintf("seglen changed %d/%d/%d", a, b, c))
								}
							}
							if firstObs {
								entry, firstObs = e, false
							} else if e != entry {
								res.incons = append(res.incons, fmt.Sprintf("%d/%d/%d ptr %d/%d", a, b, c, ci, ch))
							}
						}
						if thorough {
							for ci := uint32(0); ci < 4; ci++ {
								for ch := uint32(0); ch < 64; ch++ {
									try(ci, ch, uint32(r.Intn(64)))
								}
							}
						} else {
							try(0, 0, 0)
							try(uint32(r.Intn(4)), uint32(r.Intn(64)), uint32(r.Intn(64)))
							try(3, 63, 63)
						}
						if entry != 0 {
							res.accepted++
						}
						entries = append(entries, entry)
					}
				}
				// five 12-bit entries per integer
				for i := 0; i < len(entries); i += 5 {
					var w uint64
					for k := 0; k < 5 && i+k < len(entries); k++ {
						w |= uint64(entries[i+k]) << (12 * k)
					}
					res.rows = append(res.rows, w)
				}
				ares[a] = res
			}(a, r)
		}
		wg.Wait()
	}
	total := len(jobs) + 64
	next := 0
	for k := 0; k < total; k++ {
		// accept table number a sits at position a*total/64
		if next < 64 && k == next*total/64 {
			a := next
			next++
			if !run.Want() {
				run.Skip()
				continue
			}
			res := ares[a]
			desc := map[string]any{"seglen0": a, "accepted": res.accepted}
			id := run.Add("accept", vgen.App("Meta.CAccept", vgen.N(uint64(a)), intsTerm(res.rows)),
				fmt.Sprint(a), res.accepted > 0, desc)
			run.Tally("accept:tables")
			if len(res.incons) > 0 {
				run.Violate(id, "Base.DecodeFromBytes: acceptance/NumINF/NumHops depend on pointers or reserved bits",
					map[string]any{"seglen0": a, "where": res.incons[:min(5, len(res.incons))]})
			}
			continue
		}
		jobs[k-next]()
	}
	acc := 0
	for _, r := range ares {
		acc += r.accepted
	}
	run.Extra("accepted_shapes_of_262144", acc)
	if thorough {
		run.Extra("meta_values_executed", 1<<26)
		run.Exhaustive = false // shards also hold sampled streams; exhaustiveness is stated in spec/C19.json
	}
	run.ShardSize = (total + 7) / 8
	if thorough {
		run.ShardSize = (total + 127) / 128
	}
	if run.ShardSize < 50 {
		run.ShardSize = 50
	}
	run.Finish()
}

// pathCase builds a serialized path and drives Decoded and Raw over it.
func pathCase(run *vgen.Run, r *vgen.Rand, i int) {
	// layout
	s := genSmallShape(r)
	if r.Chance(1, 6) {
		s = genShape(r)
	}
	mode := r.Intn(20) // 0: invalid shape, 1: truncated, 2: over-long buffer, 3,4: arbitrary pointers, else valid
	if i == 0 {
		s = shape{0, 0, 0} // the empty path
		mode = 10
	}
	ci, ch := validPtr(r, s)
	if mode == 3 || mode == 4 {
		ci, ch = uint32(r.Intn(4)), uint32(r.Intn(64))
	}
	rsv := uint32(0)
	if r.Chance(1, 4) {
		rsv = uint32(r.Intn(64))
	}
	wshape := s
	if mode == 0 {
		switch r.Intn(4) {
		case 0:
			wshape = shape{0, s.s0, s.s1}
		case 1:
			wshape = shape{s.s0, 0, s.s0}
		case 2:
			wshape = shape{uint32(r.Range(22, 63)), uint32(r.Range(22, 63)), uint32(r.Range(21, 63))}
		default:
			wshape = shape{0, 0, uint32(r.Range(1, 63))}
		}
	}
	w := word(ci, ch, rsv, wshape.s0, wshape.s1, wshape.s2)
	ninf := 0
	for _, x := range []uint32{wshape.s0, wshape.s1, wshape.s2} {
		if x > 0 {
			ninf++
		}
	}
	nhops := int(wshape.s0 + wshape.s1 + wshape.s2)
	full := 4 + 8*ninf + 12*nhops
	buf := make([]byte, full)
	copy(buf, wbytes(w))
	// contents: info fields with random flags (reserved bits now and then), hop fields random with
	// recognisable interface ids
	for k := 0; k < ninf; k++ {
		o := 4 + 8*k
		copy(buf[o:], r.Bytes(8))
		if !r.Chance(1, 5) {
			buf[o] &= 0x3
			buf[o+1] = 0
		}
		// small SegID / timestamp values (short literals on the Coq side)
		binary.BigEndian.PutUint16(buf[o+2:], uint16(r.Intn(1000)))
		binary.BigEndian.PutUint32(buf[o+4:], uint32(r.Intn(100000)))
	}
	for k := 0; k < nhops; k++ {
		o := 4 + 8*ninf + 12*k
		copy(buf[o:], r.Bytes(12))
		if !r.Chance(1, 5) {
			buf[o] &= 0x3
		}
		binary.BigEndian.PutUint16(buf[o+2:], uint16(k+1))
	}
	hi := hopIndex{}
	for k := 0; k < nhops; k++ {
		var h path.HopField
		_ = h.DecodeFromBytes(buf[4+8*ninf+12*k:])
		hi[hopKey(&h)] = uint64(k)
	}
	switch mode {
	case 1:
		if full > 4 {
			buf = buf[:r.Range(4, full-1)]
		}
	case 2:
		buf = append(buf, r.Bytes(r.Range(1, 30))...)
	}
	if !run.Want() {
		run.Skip()
		return
	}
	// the contents as the model receives them: the fields that lie completely inside the buffer
	var is []infoV
	var hs []uint64
	if wshape.ok() {
		for k := 0; k < ninf && 4+8*(k+1) <= len(buf); k++ {
			var f path.InfoField
			_ = f.DecodeFromBytes(buf[4+8*k:])
			is = append(is, infoV{f.Peer, f.ConsDir, f.SegID, f.Timestamp})
		}
		for k := 0; k < nhops && 4+8*ninf+12*(k+1) <= len(buf); k++ {
			hs = append(hs, uint64(k))
		}
	}

	var decV, rawV, drevRawV, dRawDV *pathV
	drev, drev2, rrev, rrev2 := resV{Kind: 1}, resV{Kind: 1}, resV{Kind: 1}, resV{Kind: 1}
	d := decodeD(buf)
	rw := decodeR(buf)
	if d != nil {
		decV = viewDecoded(d, hi)
	}
	if rw != nil {
		rawV = viewRaw(rw, hi)
	}
	var goViol string
	if d != nil && rw != nil {
		drev = reverseDecoded(decodeD(buf), 1, hi)
		drev2 = reverseDecoded(decodeD(buf), 2, hi)
		var r1 *scion.Raw
		rrev, r1 = reverseRaw(decodeR(buf), 1, hi)
		rrev2, _ = reverseRaw(decodeR(buf), 2, hi)
		// Decoded.Reverse then ToRaw
		panicked, _ := vgen.Recover(func() {
			dd := decodeD(buf)
			p, err := dd.Reverse()
			if err != nil {
				return
			}
			tr, err := p.(*scion.Decoded).ToRaw()
			if err != nil {
				return
			}
			drevRawV = viewRaw(tr, hi)
			// byte-level agreement of the two reversals
			if r1 != nil && !bytes.Equal(tr.Raw, r1.Raw) {
				goViol = "Raw.Reverse and Decoded.Reverse+ToRaw produce different bytes"
			}
		})
		if panicked {
			goViol = "panic in Decoded.Reverse/ToRaw"
		}
		panicked, _ = vgen.Recover(func() {
			tr, err := decodeD(buf).ToRaw()
			if err != nil {
				return
			}
			td, err := tr.ToDecoded()
			if err != nil {
				return
			}
			dRawDV = viewDecoded(td, hi)
		})
		if panicked {
			goViol = "panic in ToRaw/ToDecoded"
		}
	}
	term := vgen.App("Meta.CPath", vgen.N(uint64(w)), vgen.N(uint64(len(buf))),
		vgen.ListOf(is, infoTerm), hopsTerm(hs),
		optTerm(decV), optTerm(rawV), drev.term(), drev2.term(), rrev.term(), rrev2.term(),
		optTerm(drevRawV), optTerm(dRawDV))
	modeName := map[int]string{0: "invalid-shape", 1: "truncated", 2: "over-long", 3: "arbitrary-ptrs", 4: "arbitrary-ptrs"}[mode]
	if modeName == "" {
		modeName = "valid"
	}
	run.Tally("path:" + modeName)
	run.Tally(fmt.Sprintf("path:decoded=%v", d != nil))
	desc := map[string]any{"mode": modeName, "word": w, "ptr": []uint32{ci, ch}, "seglen": []uint32{wshape.s0, wshape.s1, wshape.s2},
		"buflen": len(buf), "decoded": d != nil, "raw": rw != nil, "drev": drev.short(), "rrev": rrev.short()}
	id := run.Add("path", term, fmt.Sprintf("%d/%d/%x", w, len(buf), buf[4:min(len(buf), 40)]), d != nil && nhops >= 2, desc)
	if goViol != "" {
		run.Violate(id, goViol, desc)
	}
}

func revU8Case(run *vgen.Run, r *vgen.Rand) {
	s := genSmallShape(r)
	ninf := 0
	for _, x := range []uint32{s.s0, s.s1, s.s2} {
		if x > 0 {
			ninf++
		}
	}
	nhops := int(s.s0 + s.s1 + s.s2)
	buf := make([]byte, 4+8*ninf+12*nhops)
	copy(buf, wbytes(word(0, 0, 0, s.s0, s.s1, s.s2)))
	copy(buf[4:], r.Bytes(len(buf)-4))
	for k := 0; k < ninf; k++ {
		o := 4 + 8*k
		binary.BigEndian.PutUint16(buf[o+2:], uint16(r.Intn(1000)))
		binary.BigEndian.PutUint32(buf[o+4:], uint32(r.Intn(100000)))
	}
	hi := hopIndex{}
	for k := 0; k < nhops; k++ {
		o := 4 + 8*ninf + 12*k
		binary.BigEndian.PutUint16(buf[o+2:], uint16(k+1))
		var h path.HopField
		_ = h.DecodeFromBytes(buf[o:])
		hi[hopKey(&h)] = uint64(k)
	}
	ci := uint8(r.U64())
	ch := uint8(r.U64())
	switch r.Intn(4) {
	case 0:
		ci = vgen.Pick(r, uint8(0), 1, 2, 3, 4, 127, 128, 254, 255)
		ch = vgen.Pick(r, uint8(0), 1, 63, 64, 65, 127, 128, 254, 255)
	case 1:
		ci, ch = uint8(r.Intn(ninf)), uint8(r.Intn(nhops))
	}
	if !run.Want() {
		run.Skip()
		return
	}
	mk := func() *scion.Decoded {
		d := decodeD(buf)
		d.PathMeta.CurrINF, d.PathMeta.CurrHF = ci, ch
		return d
	}
	p := viewDecoded(mk(), hi)
	d1 := reverseDecoded(mk(), 1, hi)
	d2 := reverseDecoded(mk(), 2, hi)
	run.Tally(fmt.Sprintf("revu8:in-range=%v", int(ci) < ninf && int(ch) < nhops))
	run.Add("revu8", vgen.App("Meta.CRevU8", p.term(), d1.term(), d2.term()),
		fmt.Sprint(s, ci, ch, buf[4:]), true,
		map[string]any{"seglen": []uint32{s.s0, s.s1, s.s2}, "ptr": []uint8{ci, ch}, "rev": d1.short(), "rev2": d2.short()})
}

// ---------------------------------------------------------------- operation sequences

type seqOp struct {
	Kind    int // 0 inc, 1 rev, 2 setptr, 3 conv, 4 setinfo, 5 sethop, 6 serialize, 7 decode another path
	ViaBase bool
	CI, CH  uint8
	Idx     int
	Info    infoV
	HopID   uint64
	Hop     path.HopField
	Buf     *pathBuf
}

// pathBuf is a serialized path together with what the model is told about its contents.
type pathBuf struct {
	W           uint32
	Buf         []byte
	Is          []infoV
	Hs          []uint64
	S           shape
	NInf, NHops int
	PtrMode     string
}

func (o seqOp) term() string {
	switch o.Kind {
	case 0:
		return vgen.App("Meta.OInc", vgen.B(o.ViaBase))
	case 1:
		return "Meta.ORev"
	case 2:
		return vgen.App("Meta.OSetPtr", vgen.N(uint64(o.CI)), vgen.N(uint64(o.CH)))
	case 3:
		return "Meta.OConv"
	case 4:
		return vgen.App("Meta.OSetInfo", vgen.N(uint64(o.Idx)), infoTerm(o.Info))
	case 5:
		return vgen.App("Meta.OSetHop", vgen.N(uint64(o.Idx)), vgen.N(o.HopID))
	case 6:
		return "Meta.OSer"
	}
	return vgen.App("Meta.ODecode", vgen.N(uint64(o.Buf.W)), vgen.N(uint64(len(o.Buf.Buf))),
		vgen.ListOf(o.Buf.Is, infoTerm), hopsTerm(o.Buf.Hs))
}

func (o seqOp) name() string {
	return [...]string{"inc", "rev", "setptr", "conv", "setinfo", "sethop", "serialize", "decode"}[o.Kind]
}

type stepObs struct {
	Code uint64
	P    *pathV
	Conv *pathV
	Viol string // a violation seen directly (panic, write beyond Len())
}

func (s stepObs) term() string {
	return vgen.App("Meta.mk_sobs", vgen.N(s.Code), s.P.term(), optTerm(s.Conv))
}

func incCode(err error, numINF int) uint64 {
	switch {
	case err == nil:
		return 0
	case numINF == 0:
		return 1
	}
	return 2
}

func errCode(err error) uint64 {
	if err != nil {
		return 1
	}
	return 0
}

// serializeCheck calls SerializeTo on a buffer with 16 guard bytes behind Len() and decodes the result
// with a fresh Decoded.
func serializeCheck(p path.Path, hi hopIndex) (code uint64, conv *pathV, viol string) {
	n := p.Len()
	out := bytes.Repeat([]byte{0xAA}, n+16)
	if err := p.SerializeTo(out); err != nil {
		return 1, nil, ""
	}
	if !bytes.Equal(out[n:], bytes.Repeat([]byte{0xAA}, 16)) {
		viol = "SerializeTo wrote beyond Len()"
	}
	if d := decodeD(out[:n]); d != nil {
		conv = viewDecoded(d, hi)
	}
	return 0, conv, viol
}

// applyRaw performs one operation on the Raw object through the public API.
func applyRaw(rw *scion.Raw, o seqOp, hi hopIndex) stepObs {
	var code uint64
	var conv *pathV
	var viol string
	panicked, msg := vgen.Recover(func() {
		switch o.Kind {
		case 0:
			if o.ViaBase {
				code = incCode(rw.Base.IncPath(), rw.NumINF)
			} else {
				code = incCode(rw.IncPath(), rw.NumINF)
			}
		case 1:
			_, err := rw.Reverse()
			code = errCode(err)
		case 2:
			rw.PathMeta.CurrINF, rw.PathMeta.CurrHF = o.CI, o.CH
		case 3:
			d, err := rw.ToDecoded()
			code = errCode(err)
			if err == nil {
				conv = viewDecoded(d, hi)
			}
		case 4:
			code = errCode(rw.SetInfoField(path.InfoField{Peer: o.Info.Peer, ConsDir: o.Info.ConsDir,
				SegID: o.Info.SegID, Timestamp: o.Info.TS}, o.Idx))
		case 5:
			code = errCode(rw.SetHopField(o.Hop, o.Idx))
		case 6:
			code, conv, viol = serializeCheck(rw, hi)
		case 7:
			code = errCode(rw.DecodeFromBytes(append([]byte(nil), o.Buf.Buf...)))
		}
	})
	if panicked {
		code, viol = 3, "panic in Raw "+o.name()+": "+msg
	}
	return stepObs{Code: code, P: viewRaw(rw, hi), Conv: conv, Viol: viol}
}

// applyDec performs the same operation on the Decoded object.
func applyDec(d *scion.Decoded, o seqOp, hi hopIndex) stepObs {
	var code uint64
	var conv *pathV
	var viol string
	panicked, msg := vgen.Recover(func() {
		switch o.Kind {
		case 0:
			code = incCode(d.IncPath(), d.NumINF)
		case 1:
			_, err := d.Reverse()
			code = errCode(err)
		case 2:
			d.PathMeta.CurrINF, d.PathMeta.CurrHF = o.CI, o.CH
		case 3:
			r, err := d.ToRaw()
			code = errCode(err)
			if err == nil {
				conv = viewRaw(r, hi)
			}
		case 4:
			if o.Idx < len(d.InfoFields) {
				d.InfoFields[o.Idx] = path.InfoField{Peer: o.Info.Peer, ConsDir: o.Info.ConsDir,
					SegID: o.Info.SegID, Timestamp: o.Info.TS}
			} else {
				code = 1
			}
		case 5:
			if o.Idx < len(d.HopFields) {
				d.HopFields[o.Idx] = o.Hop
			} else {
				code = 1
			}
		case 6:
			code, conv, viol = serializeCheck(d, hi)
		case 7:
			code = errCode(d.DecodeFromBytes(append([]byte(nil), o.Buf.Buf...)))
		}
	})
	if panicked {
		code, viol = 3, "panic in Decoded "+o.name()+": "+msg
	}
	return stepObs{Code: code, P: viewDecoded(d, hi), Conv: conv, Viol: viol}
}

// genPathBuf builds a well-formed serialized path; its hop fields get the ids hopBase, hopBase+1, ...
func genPathBuf(r *vgen.Rand, hi hopIndex, hopBase int, s shape) *pathBuf {
	pb := &pathBuf{S: s, PtrMode: "valid"}
	for _, x := range []uint32{s.s0, s.s1, s.s2} {
		if x > 0 {
			pb.NInf++
		}
	}
	pb.NHops = int(s.s0 + s.s1 + s.s2)
	ci, ch := validPtr(r, s)
	switch r.Intn(10) {
	case 0, 1: // hop pointer beyond the last hop (decoding does not check)
		if pb.NHops < 63 {
			ch, pb.PtrMode = uint32(r.Range(pb.NHops, 63)), "beyond-last-hop"
		}
	case 2:
		ci, ch, pb.PtrMode = uint32(r.Intn(4)), uint32(r.Intn(64)), "arbitrary"
	}
	pb.W = word(ci, ch, uint32(r.Intn(64))*uint32(r.Intn(2)), s.s0, s.s1, s.s2)
	buf := make([]byte, 4+8*pb.NInf+12*pb.NHops)
	copy(buf, wbytes(pb.W))
	copy(buf[4:], r.Bytes(len(buf)-4))
	for k := 0; k < pb.NInf; k++ {
		o := 4 + 8*k
		if !r.Chance(1, 5) {
			buf[o] &= 0x3
			buf[o+1] = 0
		}
		binary.BigEndian.PutUint16(buf[o+2:], uint16(r.Intn(1000)))
		binary.BigEndian.PutUint32(buf[o+4:], uint32(r.Intn(100000)))
		var f path.InfoField
		_ = f.DecodeFromBytes(buf[o:])
		pb.Is = append(pb.Is, infoV{f.Peer, f.ConsDir, f.SegID, f.Timestamp})
	}
	for k := 0; k < pb.NHops; k++ {
		o := 4 + 8*pb.NInf + 12*k
		binary.BigEndian.PutUint16(buf[o+2:], uint16(hopBase+k+1))
		var h path.HopField
		_ = h.DecodeFromBytes(buf[o:])
		hi[hopKey(&h)] = uint64(hopBase + k)
		pb.Hs = append(pb.Hs, uint64(hopBase+k))
	}
	pb.Buf = buf
	return pb
}

func seqShape(r *vgen.Rand) shape {
	if r.Chance(1, 8) {
		return genShape(r)
	}
	return genSmallShape(r)
}

func seqCase(run *vgen.Run, r *vgen.Rand, i int) {
	hi := hopIndex{}
	s0 := seqShape(r)
	if i == 1 {
		s0 = shape{0, 0, 0}
	}
	first := genPathBuf(r, hi, 0, s0)
	cur := first
	var ops []seqOp
	newHop := func() seqOp {
		id := uint64(1000 + len(ops))
		h := path.HopField{IngressRouterAlert: r.Bool(), EgressRouterAlert: r.Bool(), ExpTime: uint8(r.U64()),
			ConsIngress: uint16(id), ConsEgress: uint16(r.U64())}
		copy(h.Mac[:], r.Bytes(6))
		hi[hopKey(&h)] = id
		return seqOp{Kind: 5, Idx: r.Intn(cur.NHops + 2), HopID: id, Hop: h}
	}
	ndec := 0
	redecode := func() {
		// another path into the same objects: larger, smaller, other segment count
		ndec++
		var s shape
		switch r.Intn(4) {
		case 0: // fewer segments / hops than before
			s = shape{uint32(r.Range(1, 3)), 0, 0}
		case 1:
			s = shape{uint32(r.Range(2, 6)), uint32(r.Range(2, 6)), uint32(r.Range(1, 6))}
		default:
			s = seqShape(r)
		}
		cur = genPathBuf(r, hi, 100*ndec, s)
		ops = append(ops, seqOp{Kind: 7, Buf: cur})
	}
	randomOps := func(n int) {
		for ; n > 0; n-- {
			switch k := r.Intn(22); {
			case k < 7:
				ops = append(ops, seqOp{Kind: 0, ViaBase: r.Chance(1, 3)})
			case k < 12:
				ops = append(ops, seqOp{Kind: 1})
			case k < 14:
				o := seqOp{Kind: 2, CI: uint8(r.Intn(4)), CH: uint8(r.Intn(64))}
				if r.Chance(2, 3) && cur.NHops > 0 {
					vi, vh := validPtr(r, cur.S)
					o.CI, o.CH = uint8(vi), uint8(vh)
				}
				ops = append(ops, o)
			case k < 16:
				ops = append(ops, seqOp{Kind: 3})
			case k < 18:
				ops = append(ops, seqOp{Kind: 4, Idx: r.Intn(cur.NInf + 2),
					Info: infoV{r.Bool(), r.Bool(), uint16(r.Intn(1000)), uint32(r.Intn(100000))}})
			case k < 20:
				ops = append(ops, newHop())
			default:
				ops = append(ops, seqOp{Kind: 6})
			}
		}
	}
	if r.Chance(1, 3) {
		// walk to the end (the last IncPath fails), then reverse twice and convert
		steps := cur.NHops - int((cur.W>>24)&0x3f)
		if steps < 1 || steps > 8 {
			steps = r.Range(1, 4)
		}
		for k := 0; k < steps; k++ {
			ops = append(ops, seqOp{Kind: 0, ViaBase: r.Chance(1, 3)})
		}
		ops = append(ops, seqOp{Kind: 1}, seqOp{Kind: 1}, seqOp{Kind: 3})
	}
	randomOps(r.Range(3, 6))
	if r.Chance(3, 5) {
		for k := r.Range(1, 2); k > 0; k-- {
			redecode()
			// what is usually done with a freshly decoded path
			ops = append(ops, seqOp{Kind: vgen.Pick(r, 3, 6, 1, 3)})
			randomOps(r.Range(1, 4))
		}
	}
	if !run.Want() {
		run.Skip()
		return
	}
	rw, d := decodeR(first.Buf), decodeD(first.Buf)
	if rw == nil || d == nil {
		id := run.Add("seq", vgen.App("Meta.CSeq", vgen.N(uint64(first.W)), vgen.N(uint64(len(first.Buf))), "[]", "[]",
			"(Meta.mk_path 0 0 0 0 0 0 0 [] [])", "(Meta.mk_path 0 0 0 0 0 0 0 [] [])", "[]", "[]"),
			fmt.Sprint(first.W), false, nil)
		run.Violate(id, "a well-formed path buffer is rejected by DecodeFromBytes", map[string]any{"word": first.W})
		return
	}
	raw0, dec0 := viewRaw(rw, hi), viewDecoded(d, hi)
	var obs []string
	var trace []any
	var viols []string
	for _, o := range ops {
		a, b := applyRaw(rw, o, hi), applyDec(d, o, hi)
		obs = append(obs, vgen.Pair(a.term(), b.term()))
		trace = append(trace, map[string]any{"op": o.name(), "raw": []uint64{a.Code, a.P.CI, a.P.CH, a.P.NumINF, a.P.NumHops},
			"decoded": []uint64{b.Code, b.P.CI, b.P.CH, b.P.NumINF, b.P.NumHops, uint64(len(b.P.Infos)), uint64(len(b.P.Hops))}})
		run.Tally("seq-op:" + o.name())
		for _, v := range []string{a.Viol, b.Viol} {
			if v != "" {
				viols = append(viols, v)
			}
		}
	}
	run.Tally("seq-ptr:" + first.PtrMode)
	run.Tally(fmt.Sprintf("seq-redecodes:%d", ndec))
	term := vgen.App("Meta.CSeq", vgen.N(uint64(first.W)), vgen.N(uint64(len(first.Buf))),
		vgen.ListOf(first.Is, infoTerm), hopsTerm(first.Hs),
		raw0.term(), dec0.term(), vgen.ListOf(ops, func(o seqOp) string { return o.term() }), vgen.List(obs))
	desc := map[string]any{"word": first.W, "ptr_mode": first.PtrMode,
		"seglen": []uint32{first.S.s0, first.S.s1, first.S.s2}, "steps": trace}
	id := run.Add("seq", term, fmt.Sprintf("%d/%x/%v", first.W, first.Buf[4:min(len(first.Buf), 40)], trace),
		first.NHops >= 2, desc)
	if len(viols) > 0 {
		run.Violate(id, viols[0], desc)
	}
}
