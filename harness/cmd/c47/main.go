// Runner for C47: path-policy sequences, hop predicates, ACLs and policies of
// private/path/pathpol on the real code (public API only), against the hop-list
// semantics of Model/PathPol.v.
package main

import (
	"fmt"
	"net"
	"strconv"
	"strings"

	"github.com/scionproto/scion/pkg/addr"
	"github.com/scionproto/scion/pkg/segment/iface"
	"github.com/scionproto/scion/pkg/snet"
	"github.com/scionproto/scion/private/path/pathpol"
	"verifharness/internal/vgen"
)

// ---------------------------------------------------------------- paths

type stub struct {
	id       int
	src, dst addr.IA
	meta     *snet.PathMetadata
}

func (s *stub) UnderlayNextHop() *net.UDPAddr { return nil }
func (s *stub) Dataplane() snet.DataplanePath { return nil }
func (s *stub) Source() addr.IA               { return s.src }
func (s *stub) Destination() addr.IA          { return s.dst }
func (s *stub) Metadata() *snet.PathMetadata  { return s.meta }

type ifc struct {
	ia uint64
	id uint64
}

type pathD struct {
	id       int
	src, dst uint64
	ifs      []ifc
}

func (p pathD) stub() *stub {
	m := &snet.PathMetadata{}
	for _, i := range p.ifs {
		m.Interfaces = append(m.Interfaces, snet.PathInterface{IA: addr.IA(i.ia), ID: iface.ID(i.id)})
	}
	return &stub{id: p.id, src: addr.IA(p.src), dst: addr.IA(p.dst), meta: m}
}

func (p pathD) gallina() string {
	ifs := vgen.ListOf(p.ifs, func(i ifc) string { return vgen.Pair(vgen.N(i.ia), vgen.N(i.id)) })
	return fmt.Sprintf("(%d, %d, %d, %s)", p.id, p.src, p.dst, ifs)
}

func (p pathD) String() string {
	var sb strings.Builder
	for i, x := range p.ifs {
		if i > 0 {
			sb.WriteByte(' ')
		}
		fmt.Fprintf(&sb, "%s#%d", addr.IA(x.ia), x.id)
	}
	return sb.String()
}

func stubs(ps []pathD) []snet.Path {
	out := make([]snet.Path, len(ps))
	for i, p := range ps {
		out[i] = p.stub()
	}
	return out
}

func keptIDs(ps []snet.Path) []uint64 {
	out := make([]uint64, 0, len(ps))
	for _, p := range ps {
		out = append(out, uint64(p.(*stub).id))
	}
	return out
}

func mkIA(isd, as uint64) uint64 { return isd<<48 | as }

const asHex = 0xff0000000110

var pathASes = []uint64{1, asHex, 1, asHex, 2, 0}
var pathISDs = []uint64{1, 2, 1, 2, 0}

type hopV struct{ isd, as, in, out uint64 }

func randHop(r *vgen.Rand) hopV {
	return hopV{vgen.Pick(r, pathISDs...), vgen.Pick(r, pathASes...), uint64(r.Intn(3)), uint64(r.Intn(3))}
}

// pathFromHops: hop k contributes its ingress (k>0) and egress (k<last) interface.
func pathFromHops(id int, hs []hopV) pathD {
	p := pathD{id: id}
	for k, h := range hs {
		ia := mkIA(h.isd, h.as)
		if k > 0 {
			p.ifs = append(p.ifs, ifc{ia, h.in})
		}
		if k < len(hs)-1 {
			p.ifs = append(p.ifs, ifc{ia, h.out})
		}
	}
	if len(p.ifs) > 0 {
		p.src, p.dst = p.ifs[0].ia, p.ifs[len(p.ifs)-1].ia
	}
	return p
}

// ---------------------------------------------------------------- expressions

var seqISD = []string{"0", "1", "2", "1", "2"}
var seqAS = []string{"0", "1", "0:0:1", "ff00:0:110", "FF00:0:110", "fF00:0:110", "1", "ff00:0:110"}
var seqASodd = []string{"2", "0:0:0", "4294967296", "fffff:0:0", "1:0:0", "0:0:2", "4294967295", "0:ffff:ffff"}
var seqIF = []string{"0", "1", "2"}

type hopP struct {
	isd, as, in, out string
	form             int
}

func (h hopP) text() string {
	switch h.form {
	case 0:
		return h.isd
	case 1:
		return h.isd + "-" + h.as
	case 2:
		return h.isd + "-" + h.as + "#" + h.in
	}
	return h.isd + "-" + h.as + "#" + h.in + "," + h.out
}

func asNum(s string) (uint64, bool) {
	a, err := addr.ParseAS(s)
	return uint64(a), err == nil
}

// sample a hop satisfying the predicate (under numeric comparison)
func (h hopP) sample(r *vgen.Rand) hopV {
	v := randHop(r)
	if h.isd != "0" {
		v.isd, _ = strconv.ParseUint(h.isd, 10, 64)
	}
	if h.form >= 1 {
		if a, ok := asNum(h.as); ok && a != 0 {
			v.as = a
		}
	}
	if h.form == 2 && h.in != "0" {
		x, _ := strconv.ParseUint(h.in, 10, 64)
		if r.Bool() {
			v.in = x
		} else {
			v.out = x
		}
	}
	if h.form == 3 {
		if h.in != "0" {
			v.in, _ = strconv.ParseUint(h.in, 10, 64)
		}
		if h.out != "0" {
			v.out, _ = strconv.ParseUint(h.out, 10, 64)
		}
	}
	return v
}

type item struct {
	hop  *hopP
	sub  *level
	post string
}

type level struct {
	items []item
	bars  []bool // joiner before item i+1 is '|'
}

func genHopP(r *vgen.Rand) *hopP {
	h := &hopP{isd: vgen.Pick(r, seqISD...), as: vgen.Pick(r, seqAS...), in: vgen.Pick(r, seqIF...),
		out: vgen.Pick(r, seqIF...), form: vgen.Pick(r, 0, 1, 1, 1, 2, 3, 3)}
	if r.Chance(1, 12) {
		h.as = vgen.Pick(r, seqASodd...)
	}
	return h
}

func genLevel(r *vgen.Rand, budget *int, depth int, noMixed bool) *level {
	l := &level{}
	n := r.Range(1, 3)
	allBar := r.Chance(1, 3)
	for i := 0; i < n && (*budget > 0 || i == 0); i++ {
		var it item
		if depth < 2 && *budget > 1 && r.Chance(1, 4) {
			it.sub = genLevel(r, budget, depth+1, noMixed)
		} else {
			*budget--
			it.hop = genHopP(r)
		}
		if r.Chance(1, 3) {
			it.post = vgen.Pick(r, "?", "+", "*")
			if r.Chance(1, 8) {
				it.post += vgen.Pick(r, "?", "+", "*")
			}
		}
		if i > 0 {
			if noMixed {
				l.bars = append(l.bars, allBar)
			} else {
				l.bars = append(l.bars, r.Chance(2, 5))
			}
		}
		l.items = append(l.items, it)
	}
	return l
}

func (l *level) text(r *vgen.Rand) string {
	var sb strings.Builder
	for i, it := range l.items {
		if i > 0 {
			if l.bars[i-1] {
				sb.WriteString(vgen.Pick(r, "|", " | ", "| ", " |"))
			} else {
				sb.WriteString(vgen.Pick(r, " ", " ", "  ", "\t"))
			}
		}
		if it.sub != nil {
			sb.WriteString("(" + it.sub.text(r) + ")")
		} else {
			sb.WriteString(it.hop.text())
		}
		if it.post != "" && r.Chance(1, 10) {
			sb.WriteByte(' ')
		}
		sb.WriteString(it.post)
	}
	return sb.String()
}

// sample a hop list from the expression (regular-expression reading)
func (l *level) sample(r *vgen.Rand) []hopV {
	// alternatives = maximal runs between bars
	var alts [][]item
	cur := []item{l.items[0]}
	for i := 1; i < len(l.items); i++ {
		if l.bars[i-1] {
			alts = append(alts, cur)
			cur = nil
		}
		cur = append(cur, l.items[i])
	}
	alts = append(alts, cur)
	var out []hopV
	for _, it := range alts[r.Intn(len(alts))] {
		reps := 1
		for _, c := range it.post {
			switch c {
			case '?':
				if reps > 0 {
					reps = r.Intn(2)
				}
			case '*':
				reps = vgen.Pick(r, 0, 1, 1, 2)
			case '+':
				if reps > 0 {
					reps = vgen.Pick(r, 1, 1, 2)
				}
			}
		}
		for k := 0; k < reps; k++ {
			if it.sub != nil {
				out = append(out, it.sub.sample(r)...)
			} else {
				out = append(out, it.hop.sample(r))
			}
		}
	}
	return out
}

// ---------------------------------------------------------------- the or-precedence tag
// A port of the Sequence.g4 lexer (maximal munch) and a scan of the nesting
// levels: an expression is in the known-finding class iff some level contains
// both a '|' and a juxtaposition.

const (
	tZero = iota
	tNum
	tAS // WILDCARDAS / LEGACYAS / AS
	tHash
	tComma
	tPost
	tBar
	tLPar
	tRPar
)

func isHex(c byte) bool {
	return c >= '0' && c <= '9' || c >= 'a' && c <= 'f' || c >= 'A' && c <= 'F'
}

func lexHexa(s string) (int, bool) {
	if s == "" {
		return 0, false
	}
	if s[0] == '0' {
		return 1, true
	}
	if !isHex(s[0]) {
		return 0, false
	}
	n := 1
	for n < len(s) && isHex(s[n]) {
		n++
	}
	return n, true
}

func lexNum(s string) int {
	if s == "" || s[0] < '1' || s[0] > '9' {
		return 0
	}
	n := 1
	for n < len(s) && s[n] >= '0' && s[n] <= '9' {
		n++
	}
	return n
}

func lexAS(s string) int { // after the dash
	n1, ok := lexHexa(s)
	if !ok || n1 >= len(s) || s[n1] != ':' {
		return 0
	}
	n2, ok := lexHexa(s[n1+1:])
	if !ok || n1+1+n2 >= len(s) || s[n1+1+n2] != ':' {
		return 0
	}
	n3, ok := lexHexa(s[n1+n2+2:])
	if !ok {
		return 0
	}
	return n1 + n2 + n3 + 2
}

func tokens(s string) ([]int, bool) {
	var out []int
	for i := 0; i < len(s); {
		c := s[i]
		switch {
		case c == ' ' || c == '\t' || c == '\r' || c == '\n':
			i++
		case c == '0':
			out = append(out, tZero)
			i++
		case c >= '1' && c <= '9':
			out = append(out, tNum)
			i += lexNum(s[i:])
		case c == '-':
			if n := lexAS(s[i+1:]); n > 0 {
				i += 1 + n
			} else if n := lexNum(s[i+1:]); n > 0 {
				i += 1 + n
			} else if i+1 < len(s) && s[i+1] == '0' {
				i += 2
			} else {
				return nil, false
			}
			out = append(out, tAS)
		case c == '#':
			out = append(out, tHash)
			i++
		case c == ',':
			out = append(out, tComma)
			i++
		case c == '?' || c == '+' || c == '*':
			out = append(out, tPost)
			i++
		case c == '|':
			out = append(out, tBar)
			i++
		case c == '(':
			out = append(out, tLPar)
			i++
		case c == ')':
			out = append(out, tRPar)
			i++
		default:
			return nil, false
		}
	}
	return out, true
}

func mixedLevels(s string) bool {
	ts, ok := tokens(s)
	if !ok {
		return false
	}
	type lv struct {
		items            int
		bar, juxt, after bool // after: the last joiner seen was a bar
	}
	stack := []*lv{{}}
	mixed := false
	newItem := func() {
		l := stack[len(stack)-1]
		if l.items > 0 && !l.after {
			l.juxt = true
		}
		l.items++
		l.after = false
	}
	isNum := func(i int) bool { return i < len(ts) && (ts[i] == tZero || ts[i] == tNum) }
	for i := 0; i < len(ts); i++ {
		switch ts[i] {
		case tLPar:
			newItem()
			stack = append(stack, &lv{})
		case tRPar:
			if len(stack) > 1 {
				l := stack[len(stack)-1]
				mixed = mixed || (l.bar && l.juxt)
				stack = stack[:len(stack)-1]
			}
		case tBar:
			l := stack[len(stack)-1]
			l.bar, l.after = true, true
		case tZero, tNum:
			newItem()
			if i+1 < len(ts) && ts[i+1] == tAS {
				i++
				if i+1 < len(ts) && ts[i+1] == tHash && isNum(i+2) {
					i += 2
					if i+1 < len(ts) && ts[i+1] == tComma && isNum(i+2) {
						i += 2
					}
				}
			}
		}
	}
	for _, l := range stack {
		mixed = mixed || (l.bar && l.juxt)
	}
	return mixed
}

// ---------------------------------------------------------------- text mutation

const seqAlphabet = "0012 -:#,?+*|()fF1"

func mutate(r *vgen.Rand, s string) string {
	b := []byte(s)
	for k := r.Range(1, 2); k > 0; k-- {
		switch r.Intn(4) {
		case 0:
			pos := r.Intn(len(b) + 1)
			b = append(b[:pos], append([]byte{seqAlphabet[r.Intn(len(seqAlphabet))]}, b[pos:]...)...)
		case 1:
			if len(b) > 0 {
				pos := r.Intn(len(b))
				b = append(b[:pos], b[pos+1:]...)
			}
		case 2:
			if len(b) > 0 {
				b[r.Intn(len(b))] = seqAlphabet[r.Intn(len(seqAlphabet))]
			}
		case 3:
			if len(b) > 1 {
				i := r.Intn(len(b) - 1)
				b[i], b[i+1] = b[i+1], b[i]
			}
		}
	}
	return string(b)
}

// ---------------------------------------------------------------- path sets

func genPaths(r *vgen.Rand, l *level, n int) []pathD {
	var ps []pathD
	for i := 0; i < n; i++ {
		var hs []hopV
		switch {
		case l != nil && r.Chance(4, 5):
			hs = l.sample(r)
			if r.Chance(1, 3) && len(hs) > 0 { // near miss
				k := r.Intn(len(hs))
				switch r.Intn(4) {
				case 0:
					hs[k].as = vgen.Pick(r, pathASes...)
				case 1:
					hs[k].isd = vgen.Pick(r, pathISDs...)
				case 2:
					hs[k].in = uint64(r.Intn(3))
				case 3:
					hs[k].out = uint64(r.Intn(3))
				}
			}
			if r.Chance(1, 8) {
				hs = append(hs, randHop(r))
			}
		default:
			for k := vgen.Pick(r, 0, 2, 2, 3, 3, 4); k > 0; k-- {
				hs = append(hs, randHop(r))
			}
		}
		if len(hs) == 1 { // a path has no or at least two hops
			hs = append(hs, randHop(r))
		}
		if len(hs) > 5 {
			hs = hs[:5]
		}
		p := pathFromHops(i, hs)
		if r.Chance(1, 25) && len(p.ifs) > 0 { // odd number of interfaces: GetSequence fails
			p.ifs = p.ifs[:len(p.ifs)-1]
		}
		ps = append(ps, p)
	}
	return ps
}

func pathsT(ps []pathD) string { return vgen.ListOf(ps, pathD.gallina) }
func pathsD(ps []pathD) []string {
	out := make([]string, len(ps))
	for i, p := range ps {
		out[i] = p.String()
	}
	return out
}

// ---------------------------------------------------------------- ACL / hop predicates

var hpTexts = []string{"0", "1", "2", "0-0", "1-0", "1-1", "1-0:0:1", "2-ff00:0:110", "1-FF00:0:110", "1-ff00:0:110#1",
	"1-1#1,2", "0-0#0", "1-1#0,2", "1-1#2,0", "2-1#1", "1-ff00:0:110#0,1", "0-1", "0-ff00:0:110#2", "2-0", "1-1#2",
	"1-1#2,1", "1-ff00:0:110#1,2", "1-ff00:0:110#3,1", "2-1#2,3", "2-1#1,3", "1-1#3,2"}

var hpBad = []string{"", "-", "1-", "-1", "1#2", "1-1-1", "1-1#1#2", "1-1#1,2,3", "65536-1", "1-0#1", "0-0#0,1", "0-0#0,0",
	"1-1#18446744073709551615", "1-1#18446744073709551616", "1-1#,", "1-1#", "1-1#1,", "1-1#,1", "1,2-3", "1-1,2#3",
	"1-4294967296", "1-1:0:0", "1-0:0:0#1", "01-01#01,02", "1-1#+1", " 1-1", "1-1 ", "1-a", "a", "1-1#-1", "1-1#a"}

func hpObs(h *pathpol.HopPredicate) string {
	ifs := make([]uint64, len(h.IfIDs))
	for i, x := range h.IfIDs {
		ifs[i] = uint64(x)
	}
	return fmt.Sprintf("(%d, %d, %s)", uint64(h.ISD), uint64(h.AS), vgen.NList(ifs))
}

type aclGen struct {
	entries []*pathpol.ACLEntry
	texts   []string
}

func genACL(r *vgen.Rand, wellFormed bool) aclGen {
	var g aclGen
	add := func(s string) {
		e := &pathpol.ACLEntry{}
		if err := e.LoadFromString(s); err != nil {
			panic("runner: bad ACL entry " + s)
		}
		g.entries = append(g.entries, e)
		g.texts = append(g.texts, s)
	}
	n := r.Range(0, 3)
	for i := 0; i < n; i++ {
		hp := vgen.Pick(r, hpTexts...)
		if hp == "0" || hp == "0-0" || hp == "0-0#0" { // these match everything: only as the default
			hp = "1-1#2"
		}
		add(vgen.Pick(r, "+", "-", "-", "+") + " " + hp)
	}
	def := vgen.Pick(r, "+", "-", "+ 0", "- 0-0", "+ 0-0#0", "- 0")
	if wellFormed {
		add(def)
	} else {
		switch r.Intn(3) {
		case 0: // no default
			if len(g.entries) == 0 {
				add("+ 1-1")
			}
		case 1: // default in the middle
			add(def)
			add("- 1-1")
		case 2: // no default, non-wildcard last
			add("+ 2")
		}
	}
	return g
}

func entriesT(es []*pathpol.ACLEntry) string {
	return vgen.ListOf(es, func(e *pathpol.ACLEntry) string {
		rule := "None"
		if e.Rule != nil {
			rule = "(Some " + hpObs(e.Rule) + ")"
		}
		return vgen.Pair(vgen.B(bool(e.Action)), rule)
	})
}

// ---------------------------------------------------------------- both directions over the same interfaces

var dirIAs = []uint64{mkIA(1, 1), mkIA(1, asHex), mkIA(2, 1)}
var otherIAs = []uint64{mkIA(1, 2), mkIA(2, asHex), mkIA(2, 2)}

// dirPaths: paths that enter / leave AS x through interface ids 1..3 in every
// combination (x as transit, as source and as destination AS), so that one
// (IA, interface id) is an ingress interface in one path and an egress
// interface in another path of the same list.
func dirPaths(r *vgen.Rand, x uint64, n int) []pathD {
	var ps []pathD
	id := func() uint64 { return uint64(r.Range(1, 3)) }
	for i := 0; i < n; i++ {
		a, b := vgen.Pick(r, otherIAs...), vgen.Pick(r, otherIAs...)
		p := pathD{id: i}
		switch r.Intn(6) {
		case 0: // x is the destination
			p.ifs = []ifc{{a, id()}, {x, id()}}
		case 1: // x is the source
			p.ifs = []ifc{{x, id()}, {b, id()}}
		case 2: // four hops, x twice
			p.ifs = []ifc{{a, id()}, {x, id()}, {x, id()}, {b, id()}, {b, id()}, {x, id()}}
		default:
			p.ifs = []ifc{{a, id()}, {x, id()}, {x, id()}, {b, id()}}
		}
		p.src, p.dst = p.ifs[0].ia, p.ifs[len(p.ifs)-1].ia
		ps = append(ps, p)
	}
	return ps
}

// genDirACL: entries with two different interface ids on AS x, so that the
// verdict of an interface depends on the direction it is used in.
func genDirACL(r *vgen.Rand, x uint64) aclGen {
	var g aclGen
	add := func(s string) {
		e := &pathpol.ACLEntry{}
		if err := e.LoadFromString(s); err != nil {
			panic("runner: bad ACL entry " + s)
		}
		g.entries = append(g.entries, e)
		g.texts = append(g.texts, s)
	}
	ia := addr.IA(x).String()
	a := r.Range(1, 3)
	b := a%3 + 1
	if r.Bool() {
		a, b = b, a
	}
	two := fmt.Sprintf("%s#%d,%d", ia, a, b)
	switch r.Intn(4) {
	case 0:
		add("- " + two)
		add("+")
	case 1:
		add("+ " + two)
		add("- " + ia)
		add("+")
	case 2:
		add(fmt.Sprintf("- %s#%d,0", ia, a))
		add(fmt.Sprintf("+ %s#0,%d", ia, a))
		add("- " + ia)
		add("+ 0")
	case 3:
		add("+ " + two)
		add(fmt.Sprintf("- %s#%d,%d", ia, b, a))
		add(vgen.Pick(r, "+", "-"))
	}
	return g
}

// ---------------------------------------------------------------- policies

type polGen struct {
	pol  *pathpol.Policy
	term string
	desc map[string]any
}

var polIAs = []uint64{mkIA(1, 1), mkIA(1, asHex), mkIA(2, 1), mkIA(2, asHex), mkIA(1, 2), mkIA(0, 0), mkIA(1, 0), mkIA(0, 1)}

func genPolicy(r *vgen.Rand, depth int) polGen {
	desc := map[string]any{}
	var acl *pathpol.ACL
	aclT := "None"
	if r.Chance(1, 2) {
		g := genACL(r, true)
		a, err := pathpol.NewACL(g.entries...)
		if err != nil {
			panic("runner: NewACL: " + err.Error())
		}
		acl = a
		aclT = "(Some (mk_entries " + entriesT(g.entries) + "))"
		desc["acl"] = g.texts
	}
	var sq *pathpol.Sequence
	sqT := "None"
	if r.Chance(1, 2) || depth > 0 {
		txt := ""
		if depth > 0 && r.Chance(2, 3) { // selective sub-policies, so that options differ
			txt = vgen.Pick(r, "0* 1-1 0*", "0* 2 0*", "0 0", "0 0 0", "0* 0-ff00:0:110#1 0*", "1 0*", "0* 2-0",
				"0* 0-0#2 0*", "0 0-FF00:0:110 0*", "(1 | 2-1) 0+", "0* 1-0:0:1#0,2 0*", "0 0 0 0?")
		} else if r.Chance(5, 6) {
			b := r.Range(1, 4)
			txt = genLevel(r, &b, 0, true).text(r)
		}
		s, err := pathpol.NewSequence(txt)
		if err != nil {
			panic("runner: NewSequence(" + txt + "): " + err.Error())
		}
		sq = s
		sqT = "(Some " + vgen.Str(txt) + ")"
		desc["sequence"] = txt
	}
	var opts []pathpol.Option
	var subs []polGen
	if depth < 2 && r.Chance(2, 3) {
		for k := r.Range(1, 4); k > 0; k-- {
			sub := genPolicy(r, depth+1+r.Intn(2))
			subs = append(subs, sub)
			opts = append(opts, pathpol.Option{Weight: vgen.Pick(r, 1, 1, 2, 2, 0), Policy: &pathpol.ExtPolicy{Policy: sub.pol}})
		}
	}
	p := pathpol.NewPolicy("p", acl, sq, opts)
	loT, reT := "None", "None"
	if r.Chance(1, 4) {
		l := &pathpol.LocalISDAS{}
		var ns []uint64
		for k := r.Range(0, 3); k > 0; k-- {
			ia := vgen.Pick(r, polIAs[:5]...)
			l.AllowedIAs = append(l.AllowedIAs, addr.IA(ia))
			ns = append(ns, ia)
		}
		p.LocalISDAS = l
		loT = "(Some " + vgen.NList(ns) + ")"
		desc["local"] = fmt.Sprint(l.AllowedIAs)
	}
	if r.Chance(1, 4) {
		re := &pathpol.RemoteISDAS{}
		var rs []string
		for k := r.Range(0, 3); k > 0; k-- {
			ia := vgen.Pick(r, polIAs...)
			rej := r.Chance(1, 3)
			re.Rules = append(re.Rules, pathpol.ISDASRule{IA: addr.IA(ia), Reject: rej})
			rs = append(rs, fmt.Sprintf("{| r_ia := %d; r_reject := %v |}", ia, rej))
		}
		p.RemoteISDAS = re
		reT = "(Some " + vgen.List(rs) + ")"
		desc["remote"] = fmt.Sprint(re.Rules)
	}
	// options in the order NewPolicy left them (sorted by weight, descending)
	var optT []string
	var optD []any
	for _, o := range p.Options {
		for _, s := range subs {
			if s.pol == o.Policy.Policy {
				optT = append(optT, fmt.Sprintf("(%d%%Z, %s)", o.Weight, s.term))
				optD = append(optD, map[string]any{"weight": o.Weight, "policy": s.desc})
			}
		}
	}
	if len(optD) > 0 {
		desc["options"] = optD
	}
	term := fmt.Sprintf("(Pol %s %s %s %s %s)", loT, reT, aclT, sqT, vgen.List(optT))
	return polGen{pol: p, term: term, desc: desc}
}

// ---------------------------------------------------------------- main

func main() {
	run := vgen.Flags("C47")
	run.Imports = []string{"Model.AddrFmt", "Model.PathPol"}
	run.Prelude = "Import PathPol."
	run.CheckFn = "check"
	run.DiagFn = "diag"
	run.CaseType = "case"
	run.ShardSize = 100
	run.Rule = "sequence cases: expressions of 1-5 hop predicates over ISDs {0,1,2}, ASes {0, 1, 0:0:1, ff00:0:110 in " +
		"lower/upper/mixed case, a few invalid or unusual spellings}, interfaces {0,1,2}, with ? + * |, juxtaposition " +
		"and parentheses (mixed '|'/juxtaposition levels tagged or-precedence), plus mutated text; 6-9 paths each, " +
		"sampled from the expression (with near misses) or random, 0-5 hops, some with an odd interface count; " +
		"hop-predicate strings (valid table, malformed table, mutations); ACLs from entry strings via NewACL " +
		"(well-formed, without/with misplaced default, unvalidated literals that may panic); policies with ACL, " +
		"sequence, local/remote ISD-AS filters and weighted options (nested).  non-trivial = valid input on which " +
		"at least one path is kept and one dropped (sequence/ACL/policy), or a hop predicate that parses"
	rng := vgen.NewRand(run.Seed)
	cur := 0 // id of the next case
	add := func(kind, term, key string, nontrivial bool, desc any, tags ...string) {
		run.Add(kind, term, key, nontrivial, desc, tags...)
		cur++
	}
	skip := func() {
		run.Skip()
		cur++
	}

	// 1. sequences
	ns := run.Count(550, 60000)
	fixed := []string{"", " ", "0", "0*", "0+", "0?", "1-1 1-2 | 1-3", "(1-1 1-2) | 1-3", "1-1 (1-2 | 1-3)", "1-1|1-2 1-3",
		"1-FF00:0:110 0", "1-0:0:1 0", "1 -1 0", "1-00", "1-0:0:01 0", "1#0", "0-0-0#0", "0#0#0", "1-0", "()", "(0", "0)",
		"0 | | 0", "| 0", "0 |", "0 ? ?", "0**", "1-1#1,", "1-1#", "1-1#1,2,3", "1-4294967296 0", "1-fffff:0:0 0",
		"0-0#0 0-0#0", "1-1#2 0*", "0* 1-1#1,0", "(0 0)?", "0 0 0 ?", "((0))", "((1-1|2) 0)+", "1-ff00:0:110#1,2*",
		"2-0#1 | 1-0#2 0", "0?|0 0", "65536 0", "1-1#3 0", "0-0:0:0 0-00:0:1"}
	for i := 0; i < ns+len(fixed); i++ {
		r := rng.Fork(uint64(i))
		var lvl *level
		var txt string
		kind := "seq"
		if i < len(fixed) {
			txt = fixed[i]
			kind = "seq-table"
		} else {
			b := r.Range(1, 5)
			lvl = genLevel(r, &b, 0, r.Chance(1, 3))
			txt = lvl.text(r)
			if r.Chance(1, 8) {
				txt = mutate(r, txt)
				kind = "seq-mutated"
			}
		}
		paths := genPaths(r, lvl, r.Range(6, 9))
		mixed := mixedLevels(txt)
		n := 1
		if mixed {
			n = 2
		}
		want := false
		for k := 0; k < n; k++ {
			want = want || run.WantID(cur+k)
		}
		if !want {
			for k := 0; k < n; k++ {
				skip()
			}
			continue
		}
		seq, err := pathpol.NewSequence(txt)
		implT := "None"
		var kept []uint64
		if err == nil {
			in := stubs(paths)
			kept = keptIDs(seq.Eval(in))
			implT = "(Some " + vgen.NList(kept) + ")"
			// the caller's slice is untouched and a second call on it gives the same answer
			same := true
			for k, p := range in {
				same = same && p.(*stub).id == paths[k].id
			}
			if again := keptIDs(seq.Eval(in)); !same || fmt.Sprint(again) != fmt.Sprint(kept) {
				run.Violate(cur, "Sequence.Eval modified the caller's slice / is not repeatable", txt)
			}
		}
		run.Tally(fmt.Sprintf("seq:parse=%v", err == nil))
		if err == nil {
			run.Tally(fmt.Sprintf("seq:kept=%d", min(len(kept), 4)))
		}
		nontriv := err == nil && len(kept) > 0 && len(kept) < len(paths)
		desc := map[string]any{"sequence": txt, "paths": pathsD(paths), "parse_ok": err == nil, "kept": kept}
		var tags []string
		if mixed {
			tags = []string{"or-precedence"}
			run.Tally("seq:or-precedence")
		}
		if run.Want() {
			add(kind, vgen.App("CSeq", vgen.Str(txt), vgen.B(mixed && err == nil), pathsT(paths), implT),
				txt+"|"+fmt.Sprint(pathsD(paths)), nontriv, desc, tags...)
		} else {
			skip()
		}
		if mixed {
			// the same observation checked against the faithful model only (never excused)
			if run.Want() {
				add(kind+"-faithful", vgen.App("CSeqFaithful", vgen.Str(txt), pathsT(paths), implT),
					"f|"+txt+"|"+fmt.Sprint(pathsD(paths)), nontriv, desc)
			} else {
				skip()
			}
		}
	}

	// 2. hop predicates
	nh := run.Count(150, 5000)
	for i := 0; i < len(hpTexts)+len(hpBad)+nh; i++ {
		r := rng.Fork(uint64(3000000 + i))
		var s string
		switch {
		case i < len(hpTexts):
			s = hpTexts[i]
		case i < len(hpTexts)+len(hpBad):
			s = hpBad[i-len(hpTexts)]
		default:
			s = vgen.Pick(r, hpTexts...)
			if r.Chance(1, 3) {
				s = vgen.Pick(r, seqISD...) + "-" + vgen.Pick(r, append(seqAS, seqASodd...)...) + "#" +
					vgen.Pick(r, seqIF...) + "," + vgen.Pick(r, seqIF...)
			}
			if r.Chance(2, 3) {
				s = mutate(r, s)
			}
		}
		if !run.Want() {
			skip()
			continue
		}
		hp, err := pathpol.HopPredicateFromString(s)
		run.Tally(fmt.Sprintf("hp:parse=%v", err == nil))
		obs := "None"
		if err == nil {
			obs = "(Some " + hpObs(hp) + ")"
		}
		add("hop-predicate", vgen.App("CHp", vgen.Str(s), obs), s, err == nil,
			map[string]any{"text": s, "ok": err == nil, "impl": obs})
	}

	// intact reports whether a filter call left the caller's slice as it was
	intact := func(in []snet.Path, ps []pathD) bool {
		for i, p := range in {
			if p.(*stub).id != ps[i].id {
				return false
			}
		}
		return true
	}
	// orders of one path set evaluated in separate calls: as generated, reversed, shuffled
	orders := func(r *vgen.Rand, ps []pathD, n int) [][]pathD {
		out := [][]pathD{ps}
		if n > 1 {
			rev := make([]pathD, len(ps))
			for i, p := range ps {
				rev[len(ps)-1-i] = p
			}
			out = append(out, rev)
		}
		for k := 2; k < n; k++ {
			sh := append([]pathD(nil), ps...)
			vgen.Shuffle(r, sh)
			out = append(out, sh)
		}
		return out
	}

	// 3. ACLs: every ACL is applied to whole lists of paths in one Eval call, in several orders;
	// half of the path sets cross one AS in both directions over the same interface ids
	na := run.Count(110, 6000)
	for i := 0; i < na; i++ {
		r := rng.Fork(uint64(6000000 + i))
		mode := vgen.Pick(r, 0, 0, 0, 0, 0, 0, 1, 2) // 0 well-formed, 1 malformed via NewACL, 2 unvalidated literal
		var g aclGen
		var paths []pathD
		kind := "acl"
		if mode == 0 && r.Chance(1, 2) {
			x := vgen.Pick(r, dirIAs...)
			g = genDirACL(r, x)
			paths = dirPaths(r, x, r.Range(5, 8))
			kind = "acl-direction"
		} else {
			g = genACL(r, mode == 0)
			paths = genPaths(r, nil, r.Range(5, 8))
		}
		nord := 1
		if mode == 0 {
			nord = 3
		}
		for oi, ps := range orders(r, paths, nord) {
			if !run.Want() {
				skip()
				continue
			}
			var acl *pathpol.ACL
			var err error
			if mode == 2 {
				acl = &pathpol.ACL{Entries: g.entries}
			} else {
				acl, err = pathpol.NewACL(g.entries...)
			}
			res := "AErr"
			nontriv := false
			var kept []uint64
			if err == nil {
				in := stubs(ps)
				panicked, _ := vgen.Recover(func() { kept = keptIDs(acl.Eval(in)) })
				if panicked {
					res = "APanic"
				} else {
					res = vgen.App("AKept", vgen.NList(kept))
					nontriv = len(kept) > 0 && len(kept) < len(ps)
					if !intact(in, ps) {
						run.Violate(cur, "ACL.Eval modified the caller's slice", g.texts)
					}
				}
			}
			run.Tally(fmt.Sprintf("%s:mode%d:%s", kind, mode, strings.SplitN(strings.Trim(res, "("), " ", 2)[0]))
			add(kind, vgen.App("CAcl", entriesT(g.entries), vgen.B(mode != 2), pathsT(ps), res),
				fmt.Sprint(g.texts, mode, pathsD(ps)), nontriv,
				map[string]any{"entries": g.texts, "validated": mode != 2, "order": oi, "paths": pathsD(ps), "impl": res})
		}
	}

	// 4. policies, each on the path list in two orders (separate Filter calls)
	np := run.Count(100, 6000)
	for i := 0; i < np; i++ {
		r := rng.Fork(uint64(9000000 + i))
		g := genPolicy(r, 0)
		var paths []pathD
		if r.Chance(1, 3) {
			paths = dirPaths(r, vgen.Pick(r, dirIAs...), r.Range(6, 9))
		} else {
			paths = genPaths(r, nil, r.Range(6, 9))
		}
		if r.Chance(1, 3) { // duplicate fingerprints with different endpoints
			d := paths[r.Intn(len(paths))]
			d.id = len(paths)
			d.src, d.dst = vgen.Pick(r, polIAs...), vgen.Pick(r, polIAs...)
			paths = append(paths, d)
		}
		for oi, ps := range orders(r, paths, 2) {
			if !run.Want() {
				skip()
				continue
			}
			in := stubs(ps)
			kept := keptIDs(g.pol.Filter(in))
			if !intact(in, ps) {
				run.Violate(cur, "Policy.Filter modified the caller's slice", g.desc)
			}
			nontriv := len(kept) > 0 && len(kept) < len(ps)
			run.Tally(fmt.Sprintf("policy:options=%d", len(g.pol.Options)))
			desc := map[string]any{"policy": g.desc, "order": oi, "paths": pathsD(ps), "kept": kept}
			add("policy", vgen.App("CPol", g.term, pathsT(ps), vgen.NList(kept)),
				g.term+fmt.Sprint(pathsD(ps)), nontriv, desc)
		}
	}
	run.Finish()
}
