// Runner c07x: drop-in replacement for cmd/c07 that emits
//
//  1. the record-level C07 cases, unchanged (same rtgen entry point, same streams, same seeds as
//     cmd/c07: rtgen.MainX + RandomStreams), and
//  2. byte-level cases (kind prefix "bytes-"): the raw datagram as received, and what the REAL
//     router (router.VerifProcess = processPkt + forwarding step) did with it: disposition, egress,
//     underlay destination, slow-path request and the raw OUTPUT bytes. The Coq side
//     (Model/RouterBytes.v) decodes the input with the C18 header codec, runs Router.process_scion
//     on the resulting record, writes the path header back into the input bytes
//     (RouterBytes.process_bytes) and compares; the oracle (RouterBytes.bytes_ok) judges the
//     implementation's output bytes: same length, differing offsets within the allowed set,
//     output decodes again to a frame-related, well-formed record with a consistent geometry, and
//     no panic.
//
// Case type: RouterBytes.case = CRec (Router.xcase) | CByte (bcase); the record-level terms are
// read through the coercion declared in Lib/RouterBytesCases.v.
package main

import (
	"encoding/binary"
	"encoding/hex"
	"fmt"
	"strings"

	"github.com/scionproto/scion/router"

	"verifharness/internal/rtgen"
	"verifharness/internal/vgen"
)

func main() {
	rtgen.MainX("C07", "Router.check_c07",
		"valid-by-construction packets at every position kind (first hop, transit, cross-over, peering out/in, "+
			"inbound; both construction directions; external, sibling, internal ingress; egress over own external "+
			"links and sibling links), random traffic class / flow id / hosts (IPv4, IPv6, service) / HBH and E2E "+
			"option headers / UDP, TCP, SCMP, other payloads of random length, plus a mutation stream (router alert "+
			"flags, reserved bits of meta header / info fields / hop fields, and the general mutations). The runner "+
			"reports the byte offsets at which the output of the real router differs from its input; the model "+
			"computes the allowed offsets from the header geometry. non-trivial = the packet was forwarded or delivered",
		func(x *rtgen.Ctx) {
			// ---- record-level C07 cases: exactly the body of cmd/c07
			x.NonTrivial = func(sc *rtgen.Scenario, o *rtgen.Obs) bool {
				cls := o.Class()
				return strings.HasPrefix(cls, "forward") || cls == "deliver"
			}
			x.Tagger = func(c *rtgen.Config, sc *rtgen.Scenario, in *rtgen.Rec) []string {
				return rsvTags(in)
			}
			nv := x.Run.Count(900, 40000)
			nm := x.Run.Count(500, 30000)
			x.RandomStreams(8, nv, nm, nil, []string{
				"alert", "rsv", "rsv", "barely-valid", "l4", "dsthost", "srchost", "ingress", "mac", "segid",
				"peerflag", "consdir", "currhf", "consegress"})

			// ---- byte-level cases
			run := x.Run
			run.Imports = append(run.Imports, "Model.RouterBytes", "Lib.RouterBytesCases")
			run.CaseType = "RouterBytes.case"
			run.CheckFn = "RouterBytes.check"
			run.DiagFn = "RouterBytes.diag"
			run.Rule += "; BYTE LEVEL (kinds bytes-*): the raw datagram (valid-by-construction at every position kind; field-" +
				"mutated incl. reserved bits, alert flags, hosts, L4; SCMP error messages with quoted packets delivered " +
				"locally; byte-mutated: HdrLen, HdrLen slack, PayloadLen, path type, address type nibbles, NextHdr, meta " +
				"header, info / hop flag bytes, extension header bytes, random flips, truncation, extension; every " +
				"truncation of one packet; random and SCION-shaped random bytes) through the real processPkt; the model " +
				"decodes the same bytes with the C18 codec, runs the record-level router and patches the input bytes; " +
				"agreement on disposition, egress, destination, slow-path request and OUTPUT BYTES; the oracle is " +
				"evaluated on the implementation's output bytes. non-trivial (bytes-*) = forwarded or delivered"
			byteCases(x)
		})
}

func rsvTags(in *rtgen.Rec) []string {
	if in == nil {
		return nil
	}
	var tags []string
	if in.MetaRsv != 0 {
		tags = append(tags, "c07-meta-rsv-cleared")
	}
	for _, i := range in.Infos {
		if i.Rsv != 0 {
			tags = append(tags, "c07-info-rsv-cleared")
			break
		}
	}
	return tags
}

type cfgRt struct {
	name string
	rt   *rtgen.Router
}

func byteCases(x *rtgen.Ctx) {
	run := x.Run
	const nCfg = 4
	var cfgs []cfgRt
	for i := 0; i < nCfg; i++ {
		c := rtgen.GenConfig(x.Rng.Fork(uint64(2000 + i)))
		name, rt := x.AddConfig(c)
		cfgs = append(cfgs, cfgRt{name, rt})
	}
	kinds := rtgen.Kinds
	// valid by construction
	n := run.Count(150, 10000)
	for i := 0; i < n; i++ {
		r := x.Rng.Fork(uint64(100000 + i))
		c := cfgs[i%nCfg]
		sc := rtgen.GenValid(r, c.rt.Cfg, x.Now, kinds[i%len(kinds)])
		emit(x, "bytes-valid", c, sc, r, "")
	}
	// field mutations (the rtgen mutations; reserved bits and alerts over-represented)
	muts := []string{"rsv", "alert", "rsv", "segid", "mac", "currhf", "currinf", "paylen", "l4", "dsthost",
		"srchost", "consdir", "peerflag", "expired", "barely-valid", "ingress", "srcia", "dstia", "consingress"}
	n = run.Count(110, 10000)
	for i := 0; i < n; i++ {
		r := x.Rng.Fork(uint64(200000 + i))
		c := cfgs[i%nCfg]
		sc := rtgen.GenValid(r, c.rt.Cfg, x.Now, kinds[(i/len(muts))%len(kinds)])
		sc.Mut = rtgen.Mutate(r, sc, c.rt.Cfg, x.Now, muts[i%len(muts)])
		emit(x, "bytes-fieldmut", c, sc, r, "")
	}
	// SCMP error messages (quote of a SCION/UDP or SCION/SCMP packet, possibly cut) delivered locally:
	// the only part of dstScionPort that the Coq model takes as data
	n = run.Count(24, 3000)
	for i := 0; i < n; i++ {
		r := x.Rng.Fork(uint64(300000 + i))
		c := cfgs[i%nCfg]
		sc := rtgen.GenValid(r, c.rt.Cfg, x.Now, "inbound")
		quoted := rtgen.GenValid(r, c.rt.Cfg, x.Now, "transit")
		sc.Desc.L4 = scmpError(r, quoted)
		emit(x, "bytes-scmperr", c, sc, r, "")
	}
	// byte mutations of valid packets
	n = run.Count(160, 20000)
	for i := 0; i < n; i++ {
		r := x.Rng.Fork(uint64(400000 + i))
		c := cfgs[i%nCfg]
		sc := rtgen.GenValid(r, c.rt.Cfg, x.Now, kinds[i%len(kinds)])
		emit(x, "bytes-bytemut", c, sc, r, byteMuts[i%len(byteMuts)])
	}
	// every truncation of one (short) packet per configuration rotation
	{
		r := x.Rng.Fork(500000)
		c := cfgs[0]
		var sc *rtgen.Scenario
		var raw []byte
		for k := 0; k < 50; k++ {
			sc = rtgen.GenValid(r.Fork(uint64(k)), c.rt.Cfg, x.Now, "transit")
			raw, _ = sc.Desc.Serialize()
			if raw != nil && len(raw) < 150 {
				break
			}
		}
		step := 1
		if run.Tier != "thorough" {
			step = 3 // quick: every third length (all lengths in the thorough tier)
		}
		for k := 0; raw != nil && k < len(raw); k += step {
			emitRaw(x, "bytes-trunc", c, sc.Ing, raw[:k], fmt.Sprintf("cut at %d", k), "")
		}
	}
	// random bytes: uniform, and SCION-shaped (plausible common header in front)
	n = run.Count(40, 10000)
	for i := 0; i < n; i++ {
		r := x.Rng.Fork(uint64(600000 + i))
		c := cfgs[i%nCfg]
		sc := rtgen.GenValid(r, c.rt.Cfg, x.Now, "transit")
		raw := r.Bytes(r.Intn(140))
		if i%2 == 1 && len(raw) >= 12 {
			raw[0] &= 0x0f
			raw[5] = byte(r.Range(9, 40))
			raw[8] = byte(vgen.Pick(r, 1, 1, 1, 0, 2, 3, 4))
			raw[9] = byte(vgen.Pick(r, 0x00, 0x03, 0x30, 0x33, 0x40, 0x04, 0x11))
		}
		emitRaw(x, "bytes-random", c, sc.Ing, raw, "random", "")
	}
}

var byteMuts = []string{"hdrlen", "slack", "paylen", "pathtype", "addrtype", "nexthdr", "meta", "infoflags",
	"hopflags", "ext", "flip", "flip", "truncate", "extend", "seglen", "currhf"}

// scmpError builds an SCMP error message of a known type quoting (a prefix of) another packet.
func scmpError(r *vgen.Rand, quoted *rtgen.Scenario) rtgen.L4 {
	q, _ := quoted.Desc.Serialize()
	if r.Chance(1, 3) && len(q) > 0 {
		q = q[:r.Intn(len(q))]
	}
	typ := vgen.Pick(r, 1, 2, 4, 5, 6, 4, 1, 100)
	var msg []byte
	switch typ {
	case 1:
		msg = make([]byte, 4)
	case 2, 4:
		msg = make([]byte, 4)
		binary.BigEndian.PutUint16(msg[2:], uint16(r.Intn(1500)))
	case 5:
		msg = r.Bytes(16)
	case 6:
		msg = r.Bytes(24)
	default:
		msg = r.Bytes(r.Intn(8))
	}
	if r.Chance(1, 8) && len(msg) > 0 {
		msg = msg[:r.Intn(len(msg))]
		q = nil
	}
	b := append([]byte{byte(typ), byte(r.Intn(60)), 0, 0}, msg...)
	b = append(b, q...)
	return rtgen.RawL4(202, b)
}

// mutateBytes applies one byte-level mutation to a serialized packet.
func mutateBytes(r *vgen.Rand, raw []byte, what string) []byte {
	b := append([]byte(nil), raw...)
	if len(b) < 40 {
		return b
	}
	hdr := int(b[5]) * 4
	dl, sl := 4*(1+int(b[9]>>4&3)), 4*(1+int(b[9]&3))
	mo := 12 + 16 + dl + sl
	if mo+4 > len(b) || hdr > len(b) || hdr < mo+4 {
		return b
	}
	line := binary.BigEndian.Uint32(b[mo:])
	seg := [3]int{int(line>>12) & 63, int(line>>6) & 63, int(line) & 63}
	nInf := 0
	for i, s := range seg {
		if s > 0 {
			nInf = i + 1
		}
	}
	switch what {
	case "hdrlen":
		b[5] = byte(int(b[5]) + vgen.Pick(r, -1, 1, -2, 2, 3, -int(b[5]), 255-int(b[5]), 8))
	case "slack":
		// announce k more lines and insert them after the path: accepted by the decoder (C18 hdrlen-slack)
		k := r.Range(1, 3)
		if int(b[5])+k <= 255 {
			b[5] += byte(k)
			ins := r.Bytes(4 * k)
			b = append(append(append([]byte(nil), b[:hdr]...), ins...), b[hdr:]...)
		}
	case "paylen":
		binary.BigEndian.PutUint16(b[6:], uint16(int(binary.BigEndian.Uint16(b[6:]))+vgen.Pick(r, -1, 1, 4, -4, 100)))
	case "pathtype":
		b[8] = byte(vgen.Pick(r, 0, 2, 3, 4, 255, 2, 3))
	case "addrtype":
		b[9] = byte(r.Intn(256))
	case "nexthdr":
		b[4] = byte(vgen.Pick(r, 200, 201, 17, 6, 202, 203, 0, 255))
	case "meta":
		b[mo+r.Intn(4)] = byte(r.Intn(256))
	case "currhf":
		b[mo] = byte(r.Intn(256))
	case "seglen":
		binary.BigEndian.PutUint32(b[mo:], line&0xfffc0000|uint32(r.Intn(1<<18)))
	case "infoflags":
		if nInf > 0 && mo+4+8*nInf <= len(b) {
			o := mo + 4 + 8*r.Intn(nInf)
			b[o+r.Intn(2)] = byte(r.Intn(256))
		}
	case "hopflags":
		nh := seg[0] + seg[1] + seg[2]
		if nh > 0 && mo+4+8*nInf+12*nh <= len(b) {
			o := mo + 4 + 8*nInf + 12*r.Intn(nh)
			b[o] = byte(r.Intn(256))
		}
	case "ext":
		if hdr+2 <= len(b) {
			b[hdr+r.Intn(2)] = byte(vgen.Pick(r, 0, 1, 2, 200, 201, 17, 255, r.Intn(256)))
		}
	case "flip":
		o := r.Intn(min(len(b), hdr+12))
		b[o] ^= 1 << uint(r.Intn(8))
	case "truncate":
		b = b[:r.Intn(len(b))]
	case "extend":
		b = append(b, r.Bytes(r.Range(1, 9))...)
	}
	return b
}

func emit(x *rtgen.Ctx, stream string, c cfgRt, sc *rtgen.Scenario, r *vgen.Rand, bmut string) {
	run := x.Run
	if !run.Want() {
		run.Skip()
		return
	}
	raw, err := sc.Desc.Serialize()
	if err != nil {
		run.Tally("bytes:unserializable")
		run.Skip()
		return
	}
	mut := sc.Mut
	if bmut != "" {
		raw = mutateBytes(r, raw, bmut)
		mut = bmut
	}
	emitRaw(x, stream, c, sc.Ing, raw, sc.Kind, mut)
}

// l4Of locates what decodeLayers leaves as last layer: protocol number and payload.
func l4Of(raw []byte) (proto uint8, l4 []byte, ok bool) {
	if len(raw) < 12 || int(raw[5])*4 > len(raw) || int(raw[5])*4 < 12 {
		return 0, nil, false
	}
	proto = raw[4]
	rest := raw[int(raw[5])*4:]
	skip := func() bool {
		if len(rest) < 2 || (int(rest[1])+1)*4 > len(rest) {
			return false
		}
		proto, rest = rest[0], rest[(int(rest[1])+1)*4:]
		return true
	}
	if proto == 200 && !skip() {
		return 0, nil, false
	}
	if proto == 201 && !skip() {
		return 0, nil, false
	}
	return proto, rest, true
}

func words(b []byte) string {
	var sb strings.Builder
	fmt.Fprintf(&sb, "(RouterBytes.unwords %d [", len(b))
	for i := 0; i < len(b); i += 8 {
		if i > 0 {
			sb.WriteString("; ")
		}
		var w uint64
		for _, c := range b[i:min(i+8, len(b))] {
			w = w<<8 | uint64(c)
		}
		fmt.Fprintf(&sb, "%d", w)
	}
	sb.WriteString("])")
	return sb.String()
}

// outTerm prints the output bytes relative to the input bound to `r`.
func outTerm(raw, out []byte) string {
	if len(raw) != len(out) {
		return words(out)
	}
	var ds []string
	for i := range raw {
		if raw[i] != out[i] {
			ds = append(ds, fmt.Sprintf("(pair %d %d)", i, out[i]))
		}
	}
	return "(RouterBytes.undiff r " + vgen.List(ds) + ")"
}

func emitRaw(x *rtgen.Ctx, stream string, c cfgRt, ing rtgen.Ingress, raw []byte, kind, mut string) {
	run := x.Run
	if !run.Want() {
		run.Skip()
		return
	}
	rt := c.rt
	o, err := rt.Run(raw, ing)
	if err != nil {
		run.Tally("bytes:unrunnable")
		run.Skip()
		return
	}
	cls := o.Class()
	run.Tally(stream + ":" + cls)
	if mut != "" {
		run.Tally("bytes-mutation:" + mut + ":" + cls)
	}
	// the port getDstPortSCMP finds in the quote of an SCMP error message (data for the model)
	qp, qok := uint16(0), false
	if proto, l4, ok := l4Of(raw); ok && proto == 202 && len(l4) >= 4 {
		switch l4[0] {
		case 1, 2, 4, 5, 6:
			panicked, msg := vgen.Recover(func() { qp, qok = router.VerifSCMPDstPort(l4) })
			if panicked {
				run.Violate(-1, "panic in getDstPortSCMP: "+msg, map[string]any{"raw": hex.EncodeToString(raw)})
			}
			run.Tally(fmt.Sprintf("bytes:scmp-error-quote:port-found=%v", qok))
		}
	}
	var impl string
	egress := vgen.N(uint64(o.Res.Egress))
	pt := -1
	if len(raw) > 8 {
		pt = int(raw[8])
	}
	switch {
	case o.Res.Disp == router.VerifPanic:
		impl = "RouterBytes.PanicB"
	case o.Res.Disp == router.VerifDiscard:
		impl = "RouterBytes.DiscardB"
	case pt != 1:
		// path types handled by other models: only "no panic" is judged here
		impl = fmt.Sprintf("(RouterBytes.NotScionPath %d)", pt)
	case o.Res.Disp == router.VerifDone:
		impl = "RouterBytes.DoneB"
	case o.Res.Disp == router.VerifForward:
		if !o.Res.Sent {
			impl = "RouterBytes.DiscardB" // runProcessor drops a packet whose egress has no link
			break
		}
		dst := "None"
		if o.Res.Dst != nil {
			ip := o.Res.Dst.IP
			if v4 := ip.To4(); v4 != nil && len(ip) == 4 {
				ip = v4
			}
			dst = "(Some (pair " + vgen.Bytes(ip) + " " + vgen.N(uint64(o.Res.Dst.Port)) + "))"
		}
		impl = vgen.App("RouterBytes.ForwardB", egress, outTerm(raw, o.Res.Out), dst)
	case o.Res.Disp == router.VerifSlowPath:
		var req string
		switch {
		case o.Res.Req.Type == router.VerifSPRouterAlertIngress:
			req = "Router.SpAlertIngress"
		case o.Res.Req.Type == router.VerifSPRouterAlertEgress:
			req = "Router.SpAlertEgress"
		case o.Res.Req.Type >= 0:
			req = vgen.App("Router.SpScmp", vgen.N(uint64(o.Res.Req.Type)), vgen.N(uint64(o.Res.Req.Code)),
				vgen.N(uint64(o.Res.Req.Pointer)))
		}
		if req == "" {
			impl = "RouterBytes.BadInputB"
		} else {
			impl = vgen.App("RouterBytes.SlowPathB", req, egress, outTerm(raw, o.Res.Out))
		}
	default:
		impl = "RouterBytes.BadInputB"
	}
	term := "(let r := " + words(raw) + " in RouterBytes.CByte (" +
		vgen.App("RouterBytes.CBytes", c.name, vgen.N(uint64(o.NowNs)), ing.Gallina(), rtgen.MacTable(rt.Cfg, o.In),
			vgen.Opt(vgen.N(uint64(qp)), qok), "r", impl) + "))"
	desc := map[string]any{
		"cfg": c.name, "ingress": ing.String(), "kind": kind, "mutation": mut, "raw": hex.EncodeToString(raw),
		"impl": cls, "egress": o.Res.Egress, "out": hex.EncodeToString(o.Res.Out), "changed": o.Changed,
		"cfg_desc": rt.Cfg.Describe(),
	}
	nt := strings.HasPrefix(cls, "forward") || cls == "deliver"
	id := run.Add(stream, term, rtgen.Key(c.name, ing, raw), nt, desc, rsvTags(o.In)...)
	if o.Res.Disp == router.VerifPanic {
		desc["panic"] = o.Res.PanicMsg
		run.Violate(id, "panic in processPkt: "+o.Res.PanicMsg, desc)
	}
}
