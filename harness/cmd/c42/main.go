// Runner for C42: gateway routing table (dataplane.RoutingTable), the IP
// forwarder's pre-checks (dataplane.IPForwarder) and routing policies
// (routing.Policy Match / AdvertiseList / MarshalText / UnmarshalText) of the
// real code on generated tables, packets, policies and texts.
package main

import (
	"bytes"
	"context"
	"encoding/binary"
	"fmt"
	"io"
	"math/big"
	"net"
	"net/netip"
	"sort"
	"strings"

	"github.com/gopacket/gopacket"
	"github.com/gopacket/gopacket/layers"

	"github.com/scionproto/scion/gateway/control"
	"github.com/scionproto/scion/gateway/dataplane"
	"github.com/scionproto/scion/gateway/pktcls"
	"github.com/scionproto/scion/gateway/routing"
	"github.com/scionproto/scion/pkg/addr"
	"verifharness/internal/vgen"
)

// ---------------------------------------------------------------- numbers, addresses

func bigOf(a netip.Addr) *big.Int {
	b := a.AsSlice()
	return new(big.Int).SetBytes(b)
}

func gAddr(a netip.Addr) string { // GwRoute.ipaddr
	return vgen.Pair(vgen.B(!a.Is4()), bigOf(a).String())
}

func gPfx(p netip.Prefix) string {
	return vgen.App("GwRoute.Pfx", vgen.B(!p.Addr().Is4()), bigOf(p.Addr()).String(), vgen.N(uint64(p.Bits())))
}

func gIA(ia addr.IA) string { return vgen.Pair(vgen.N(uint64(ia.ISD())), vgen.N(uint64(ia.AS()))) }

func addrFrom(v6 bool, v *big.Int) netip.Addr {
	if v6 {
		var b [16]byte
		v.FillBytes(b[:])
		return netip.AddrFrom16(b)
	}
	var b [4]byte
	v.FillBytes(b[:])
	return netip.AddrFrom4(b)
}

// boundary returns first-1, first, last, last+1 of the prefix (those that exist).
func boundary(p netip.Prefix) []netip.Addr {
	p = p.Masked()
	bits := 32
	if !p.Addr().Is4() {
		bits = 128
	}
	first := bigOf(p.Addr())
	size := new(big.Int).Lsh(big.NewInt(1), uint(bits-p.Bits()))
	last := new(big.Int).Sub(new(big.Int).Add(first, size), big.NewInt(1))
	max := new(big.Int).Sub(new(big.Int).Lsh(big.NewInt(1), uint(bits)), big.NewInt(1))
	out := []netip.Addr{addrFrom(bits == 128, first), addrFrom(bits == 128, last)}
	if first.Sign() > 0 {
		out = append(out, addrFrom(bits == 128, new(big.Int).Sub(first, big.NewInt(1))))
	}
	if last.Cmp(max) < 0 {
		out = append(out, addrFrom(bits == 128, new(big.Int).Add(last, big.NewInt(1))))
	}
	return out
}

func randAddr(r *vgen.Rand, v6 bool) netip.Addr {
	if v6 {
		var b [16]byte
		copy(b[:], r.Bytes(16))
		if r.Chance(1, 2) {
			copy(b[:], []byte{0x20, 0x01, 0x0d, 0xb8})
		}
		return netip.AddrFrom16(b)
	}
	var b [4]byte
	copy(b[:], r.Bytes(4))
	if r.Chance(1, 2) {
		b[0] = 10
	}
	return netip.AddrFrom4(b)
}

// genPrefix draws a prefix; with base != nil mostly a sub- or super-prefix of it.
func genPrefix(r *vgen.Rand, v6 bool, base *netip.Prefix, canonical bool) netip.Prefix {
	bits := 32
	if v6 {
		bits = 128
	}
	var a netip.Addr
	var l int
	if base != nil && base.Addr().Is4() == !v6 && r.Chance(3, 4) {
		a = base.Addr()
		l = base.Bits() + r.Range(-8, 8)
		if l < 0 {
			l = 0
		}
		if l > bits {
			l = bits
		}
		if l > base.Bits() { // a sub-prefix: choose the new bits
			v := bigOf(a)
			x := new(big.Int).SetBytes(r.Bytes(16))
			x.Rsh(x, uint(128-(bits-base.Bits())))
			mask := new(big.Int).Sub(new(big.Int).Lsh(big.NewInt(1), uint(bits-base.Bits())), big.NewInt(1))
			v.AndNot(v, mask)
			v.Or(v, x)
			a = addrFrom(v6, v)
		}
	} else {
		a = randAddr(r, v6)
		if v6 {
			l = vgen.Pick(r, 0, 1, 16, 32, 48, 63, 64, 65, 96, 104, 127, 128, r.Intn(129))
		} else {
			l = vgen.Pick(r, 0, 1, 7, 8, 9, 16, 23, 24, 25, 31, 32, r.Intn(33))
		}
	}
	p := netip.PrefixFrom(a, l)
	if canonical {
		p = p.Masked()
	}
	return p
}

// ---------------------------------------------------------------- traffic classes (small trees)

type cnode struct {
	kind string
	kids []*cnode
	b    bool
	ip   uint32
	plen int
	v    uint64
	lo   uint16
	hi   uint16
}

func genCond(r *vgen.Rand, depth int) *cnode {
	if depth > 1 && r.Chance(1, 3) {
		switch r.Intn(3) {
		case 0:
			return &cnode{kind: "not", kids: []*cnode{genCond(r, depth-1)}}
		case 1:
			return &cnode{kind: "all", kids: []*cnode{genCond(r, depth-1), genCond(r, depth-1)}}
		default:
			return &cnode{kind: "any", kids: []*cnode{genCond(r, depth-1), genCond(r, depth-1)}}
		}
	}
	switch r.Intn(8) {
	case 0, 1, 2:
		return &cnode{kind: "bool", b: r.Chance(3, 4)}
	case 3:
		return &cnode{kind: "proto", v: vgen.Pick[uint64](r, 6, 17)}
	case 4:
		return &cnode{kind: "dstport", lo: uint16(vgen.Pick(r, 0, 80, 1024)), hi: uint16(vgen.Pick(r, 80, 1023, 65535))}
	case 5:
		return &cnode{kind: "dscp", v: uint64(vgen.Pick(r, 0, 10, 46))}
	default:
		return &cnode{kind: vgen.Pick(r, "src", "dst"), ip: uint32(10)<<24 | uint32(r.Intn(4))<<16, plen: vgen.Pick(r, 8, 15, 16)}
	}
}

func ip4(a uint32) net.IP {
	b := make(net.IP, 4)
	binary.BigEndian.PutUint32(b, a)
	return b
}

func (n *cnode) cond() pktcls.Cond {
	switch n.kind {
	case "all":
		return pktcls.CondAllOf{n.kids[0].cond(), n.kids[1].cond()}
	case "any":
		return pktcls.CondAnyOf{n.kids[0].cond(), n.kids[1].cond()}
	case "not":
		return pktcls.NewCondNot(n.kids[0].cond())
	case "bool":
		return pktcls.CondBool(n.b)
	case "src":
		return pktcls.NewCondIPv4(&pktcls.IPv4MatchSource{Net: &net.IPNet{IP: ip4(n.ip), Mask: net.CIDRMask(n.plen, 32)}})
	case "dst":
		return pktcls.NewCondIPv4(&pktcls.IPv4MatchDestination{Net: &net.IPNet{IP: ip4(n.ip), Mask: net.CIDRMask(n.plen, 32)}})
	case "dscp":
		return pktcls.NewCondIPv4(&pktcls.IPv4MatchDSCP{DSCP: uint8(n.v)})
	case "proto":
		return pktcls.NewCondIPv4(&pktcls.IPv4MatchProtocol{Protocol: uint8(n.v)})
	case "dstport":
		return pktcls.NewCondPorts(&pktcls.PortMatchDestination{MinPort: n.lo, MaxPort: n.hi})
	}
	panic("kind")
}

func (n *cnode) gallina() string {
	switch n.kind {
	case "all":
		return vgen.App("PktCls.CAll", vgen.List([]string{n.kids[0].gallina(), n.kids[1].gallina()}))
	case "any":
		return vgen.App("PktCls.CAny", vgen.List([]string{n.kids[0].gallina(), n.kids[1].gallina()}))
	case "not":
		return vgen.App("PktCls.CNot", n.kids[0].gallina())
	case "bool":
		return vgen.App("PktCls.CBool", vgen.B(n.b))
	case "src":
		return vgen.App("PktCls.CSrc", vgen.N(uint64(n.ip)), vgen.N(uint64(n.plen)))
	case "dst":
		return vgen.App("PktCls.CDst", vgen.N(uint64(n.ip)), vgen.N(uint64(n.plen)))
	case "dscp":
		return vgen.App("PktCls.CDscp", vgen.N(n.v))
	case "proto":
		return vgen.App("PktCls.CProto", vgen.N(n.v))
	case "dstport":
		return vgen.App("PktCls.CDstPort", vgen.N(uint64(n.lo)), vgen.N(uint64(n.hi)))
	}
	panic("kind")
}

// ---------------------------------------------------------------- routing tables

type tmatch struct {
	id int
	c  *cnode
}
type chain struct {
	prefixes []netip.Prefix
	matchers []tmatch
}
type op struct {
	set  bool
	id   int
	sess int // 0 = nil session
}
type table struct {
	chains []chain
	ops    []op
}

type sess struct {
	id   int
	sink *[]int
}

func (s *sess) Write(gopacket.Packet) {
	if s.sink != nil {
		*s.sink = append(*s.sink, s.id)
	}
}

func genTable(r *vgen.Rand) *table {
	t := &table{}
	nch := r.Range(1, 4)
	var base netip.Prefix
	v4base := netip.PrefixFrom(netip.AddrFrom4([4]byte{10, byte(r.Intn(4)), 0, 0}), 16)
	v6base := netip.MustParsePrefix("2001:db8::/32")
	seen := map[netip.Prefix]bool{}
	dup := r.Chance(1, 8)
	nextID := 1
	for i := 0; i < nch; i++ {
		var c chain
		np := r.Range(1, 4)
		if r.Chance(1, 15) {
			np = 0
		}
		for j := 0; j < np; j++ {
			v6 := r.Chance(1, 4)
			base = v4base
			if v6 {
				base = v6base
			}
			p := genPrefix(r, v6, &base, r.Chance(5, 6))
			if seen[p.Masked()] && !dup {
				continue
			}
			seen[p.Masked()] = true
			c.prefixes = append(c.prefixes, p)
		}
		nm := r.Range(1, 3)
		for j := 0; j < nm; j++ {
			id := nextID
			if r.Chance(1, 6) && nextID > 1 {
				id = r.Range(1, nextID-1) // shared index
			} else {
				nextID++
			}
			c.matchers = append(c.matchers, tmatch{id: id, c: genCond(r, 2)})
		}
		t.chains = append(t.chains, c)
	}
	for id := 1; id < nextID; id++ {
		if r.Chance(5, 6) {
			t.ops = append(t.ops, op{set: true, id: id, sess: 100 + id})
		}
	}
	for k := r.Intn(3); k > 0; k-- {
		switch r.Intn(4) {
		case 0:
			t.ops = append(t.ops, op{set: false, id: r.Range(1, nextID)})
		case 1:
			t.ops = append(t.ops, op{set: true, id: r.Range(0, nextID+1), sess: 200 + r.Intn(5)})
		case 2:
			t.ops = append(t.ops, op{set: true, id: r.Range(1, nextID), sess: 0})
		case 3:
			t.ops = append(t.ops, op{set: false, id: nextID + r.Intn(3)})
		}
	}
	return t
}

func ipnet(p netip.Prefix) *net.IPNet {
	bits := 32
	if !p.Addr().Is4() {
		bits = 128
	}
	return &net.IPNet{IP: net.IP(p.Addr().AsSlice()), Mask: net.CIDRMask(p.Bits(), bits)}
}

// build creates the real routing table and applies the operations.
func (t *table) build(sink *[]int) (*dataplane.RoutingTable, []bool) {
	var chains []*control.RoutingChain
	for _, c := range t.chains {
		rc := &control.RoutingChain{}
		for _, p := range c.prefixes {
			rc.Prefixes = append(rc.Prefixes, ipnet(p))
		}
		for _, m := range c.matchers {
			rc.TrafficMatchers = append(rc.TrafficMatchers, control.TrafficMatcher{ID: m.id, Matcher: m.c.cond()})
		}
		chains = append(chains, rc)
	}
	rt := dataplane.NewRoutingTable(chains)
	var oks []bool
	for _, o := range t.ops {
		var err error
		switch {
		case o.set && o.sess == 0:
			err = rt.SetSession(o.id, nil)
		case o.set:
			err = rt.SetSession(o.id, &sess{id: o.sess, sink: sink})
		default:
			err = rt.ClearSession(o.id)
		}
		oks = append(oks, err == nil)
	}
	return rt, oks
}

func (t *table) gChains() string {
	return vgen.ListOf(t.chains, func(c chain) string {
		return vgen.App("GwRoute.Chain", vgen.ListOf(c.prefixes, gPfx),
			vgen.ListOf(c.matchers, func(m tmatch) string {
				return vgen.App("GwRoute.TM", vgen.N(uint64(m.id)), m.c.gallina())
			}))
	})
}

func (t *table) gOps() string {
	return vgen.ListOf(t.ops, func(o op) string {
		if !o.set {
			return vgen.App("GwRoute.OClear", vgen.N(uint64(o.id)))
		}
		return vgen.App("GwRoute.OSet", vgen.N(uint64(o.id)), vgen.Opt(vgen.N(uint64(o.sess)), o.sess != 0))
	})
}

func (t *table) distinct() bool {
	seen := map[netip.Prefix]bool{}
	for _, c := range t.chains {
		for _, p := range c.prefixes {
			if seen[p.Masked()] {
				return false
			}
			seen[p.Masked()] = true
		}
	}
	return true
}

func (t *table) allPrefixes() []netip.Prefix {
	var ps []netip.Prefix
	for _, c := range t.chains {
		ps = append(ps, c.prefixes...)
	}
	return ps
}

// ---------------------------------------------------------------- packets

type pkt struct {
	v6      bool
	dst     netip.Addr
	src     uint32
	tos     uint8
	proto   uint8
	frag    bool
	l4      *[2]uint16
	l4bytes []byte
	flags   layers.IPv4Flag
	off     uint16
	// forwarder view
	bytes     []byte
	hdrOK     bool
	payloadOK bool
	how       string
}

func genDst(r *vgen.Rand, t *table, v6 bool) netip.Addr {
	var cands []netip.Addr
	for _, p := range t.allPrefixes() {
		if p.Addr().Is4() == !v6 {
			cands = append(cands, boundary(p)...)
			cands = append(cands, p.Addr())
		}
	}
	if len(cands) > 0 && r.Chance(5, 6) {
		return cands[r.Intn(len(cands))]
	}
	return randAddr(r, v6)
}

// genPkt draws a packet for the table. forFwd adds the malformed kinds the forwarder has to reject.
func genPkt(r *vgen.Rand, t *table, forFwd bool) *pkt {
	p := &pkt{hdrOK: true, payloadOK: true, how: "ok"}
	p.v6 = r.Chance(1, 4)
	if p.v6 {
		if r.Chance(1, 5) { // IPv4-mapped destination
			d := genDst(r, t, false).As4()
			var b [16]byte
			b[10], b[11] = 0xff, 0xff
			copy(b[12:], d[:])
			p.dst = netip.AddrFrom16(b)
			p.how = "v6-mapped"
		} else {
			p.dst = genDst(r, t, true)
		}
	} else {
		p.dst = genDst(r, t, false)
	}
	p.src = uint32(10)<<24 | uint32(r.Intn(4))<<16 | uint32(r.Intn(65536))
	p.tos = uint8(vgen.Pick(r, 0, 40, 184, r.Intn(256)))
	p.proto = vgen.Pick[uint8](r, 6, 17, 17, 6, 17)
	// ports for which gopacket has no application-layer decoder (it picks one by port)
	port := func(cands ...int) uint16 {
		for {
			v := uint16(vgen.Pick(r, cands...))
			if r.Chance(1, 3) {
				v = uint16(r.U64())
			}
			if layers.UDPPort(v).LayerType() == gopacket.LayerTypePayload &&
				layers.TCPPort(v).LayerType() == gopacket.LayerTypePayload {
				return v
			}
		}
	}
	sp, dp := port(40000, 50000, 1025), port(80, 8080, 1024, 8443, 79, 81)
	if p.proto == 6 {
		p.l4bytes = make([]byte, 20+r.Intn(8))
		binary.BigEndian.PutUint16(p.l4bytes[0:], sp)
		binary.BigEndian.PutUint16(p.l4bytes[2:], dp)
		p.l4bytes[12] = 5 << 4
	} else {
		n := r.Intn(8)
		p.l4bytes = make([]byte, 8+n)
		binary.BigEndian.PutUint16(p.l4bytes[0:], sp)
		binary.BigEndian.PutUint16(p.l4bytes[2:], dp)
		binary.BigEndian.PutUint16(p.l4bytes[4:], uint16(8+n))
	}
	p.l4 = &[2]uint16{sp, dp}
	if !p.v6 {
		switch r.Intn(10) {
		case 0:
			p.flags, p.frag, p.how = layers.IPv4MoreFragments, true, "frag-mf"
		case 1:
			p.off, p.frag, p.how = uint16(r.Range(1, 8191)), true, "frag-offset"
		case 2:
			p.flags = layers.IPv4DontFragment
		}
	}
	if forFwd && !p.frag {
		switch r.Intn(9) {
		case 0: // an IP protocol gopacket has no decoder for
			p.proto, p.l4, p.payloadOK, p.how = vgen.Pick[uint8](r, 253, 103, 88, 115), nil, false, "proto-unknown"
		case 1: // truncated transport header
			if p.proto == 6 {
				p.l4bytes = p.l4bytes[:r.Intn(20)]
			} else {
				p.l4bytes = p.l4bytes[:r.Intn(8)]
			}
			p.l4, p.payloadOK, p.how = nil, false, "l4-truncated"
			if len(p.l4bytes) == 0 { // no payload at all: nothing left to decode
				p.payloadOK, p.how = true, "l4-absent"
				if p.v6 { // gopacket's IPv6 header decoder rejects payload length 0 without a hop-by-hop header
					p.hdrOK, p.how = false, "v6-length0"
				}
			}
		case 2: // UDP to a port for which gopacket has a decoder that rejects the payload
			dp = vgen.Pick[uint16](r, 53, 123, 4789)
			p.proto = 17
			p.l4bytes = make([]byte, 8+r.Intn(4))
			binary.BigEndian.PutUint16(p.l4bytes[0:], sp)
			binary.BigEndian.PutUint16(p.l4bytes[2:], dp)
			binary.BigEndian.PutUint16(p.l4bytes[4:], uint16(len(p.l4bytes)))
			for i := 8; i < len(p.l4bytes); i++ {
				p.l4bytes[i] = byte(i)
			}
			if len(p.l4bytes) > 8 { // with an empty payload nothing is decoded
				p.l4, p.payloadOK, p.how = &[2]uint16{sp, dp}, false, "app-undecodable"
			} else {
				p.l4 = &[2]uint16{sp, dp}
			}
		}
	}
	return p
}

func (p *pkt) v4layer() *layers.IPv4 {
	d := p.dst.As4()
	return &layers.IPv4{Version: 4, IHL: 5, TOS: p.tos, TTL: 64, Flags: p.flags, FragOffset: p.off,
		Protocol: layers.IPProtocol(p.proto), SrcIP: ip4(p.src), DstIP: net.IP(d[:]),
		BaseLayer: layers.BaseLayer{Payload: p.l4bytes}}
}

func (p *pkt) v6layer() *layers.IPv6 {
	d := p.dst.As16()
	return &layers.IPv6{Version: 6, TrafficClass: p.tos, HopLimit: 64, NextHeader: layers.IPProtocol(p.proto),
		SrcIP: net.ParseIP("2001:db8::1"), DstIP: net.IP(d[:]), BaseLayer: layers.BaseLayer{Payload: p.l4bytes}}
}

func (p *pkt) serialize() []byte {
	buf := gopacket.NewSerializeBuffer()
	var err error
	if p.v6 {
		err = gopacket.SerializeLayers(buf, gopacket.SerializeOptions{FixLengths: true}, p.v6layer(), gopacket.Payload(p.l4bytes))
	} else {
		err = gopacket.SerializeLayers(buf, gopacket.SerializeOptions{FixLengths: true, ComputeChecksums: true},
			p.v4layer(), gopacket.Payload(p.l4bytes))
	}
	if err != nil {
		panic(err)
	}
	return buf.Bytes()
}

func (p *pkt) gPkt4() string {
	l4 := "None"
	if p.l4 != nil {
		l4 = vgen.Opt(vgen.Pair(vgen.N(uint64(p.l4[0])), vgen.N(uint64(p.l4[1]))), true)
	}
	return vgen.App("PktCls.P", vgen.N(uint64(p.src)), bigOf(p.dst).String(), vgen.N(uint64(p.tos)),
		vgen.N(uint64(p.proto)), vgen.B(p.frag), l4)
}

func (p *pkt) gIPPkt() string {
	if p.v6 {
		return vgen.App("GwRoute.V6", bigOf(p.dst).String())
	}
	return vgen.App("GwRoute.V4", p.gPkt4())
}

func sessOf(w control.PktWriter) (uint64, bool) {
	if w == nil {
		return 0, false
	}
	return uint64(w.(*sess).id), true
}

func optN(v uint64, ok bool) string { return vgen.Opt(vgen.N(v), ok) }

// ---------------------------------------------------------------- forwarder

type feed struct {
	pkts [][]byte
	i    int
	cur  *int
}

func (f *feed) Read(b []byte) (int, error) {
	if f.i >= len(f.pkts) {
		return 0, io.EOF
	}
	*f.cur = f.i
	n := copy(b, f.pkts[f.i])
	f.i++
	return n, nil
}

type fsess struct {
	id   int
	cur  *int
	out  map[int]int
	data map[int][]byte // the bytes of the packet the session was handed, per read
}

func (s *fsess) Write(p gopacket.Packet) {
	s.out[*s.cur] = s.id
	s.data[*s.cur] = append([]byte{}, p.Data()...)
}

// ---------------------------------------------------------------- policies

var iaPool = []string{"1-ff00:0:110", "1-ff00:0:111", "2-ff00:0:210", "1-64512", "2-ff00:0:110"}

type grule struct {
	action  routing.Action
	fromNeg bool
	from    addr.IA
	toNeg   bool
	to      addr.IA
	nets    []netip.Prefix
	netNeg  bool
	nextHop netip.Addr // zero = none
	comment string
}

type gpolicy struct {
	rules []grule
	def   routing.Action
}

// genIAM draws an IA matcher; with hint != 0 it is mostly one that matches hint.
func genIAM(r *vgen.Rand, hint addr.IA) (bool, addr.IA) {
	ia := addr.MustParseIA(iaPool[r.Intn(len(iaPool))])
	if hint != 0 && r.Chance(2, 3) {
		ia = hint
	}
	switch r.Intn(6) {
	case 0, 1:
		ia = 0
	case 2:
		ia = addr.MustIAFrom(ia.ISD(), 0)
	case 3:
		ia = addr.MustIAFrom(0, ia.AS())
	}
	return r.Chance(1, 6), ia
}

var commentPool = []string{"", "", "", "site A", "x", " two  spaces", "a # b", "#", "tab\there", "ends with cr\r", "é", "1.2.3.0/24 accept", "!"}

func genPolicy(r *vgen.Rand, q *netip.Prefix, image bool, from, to addr.IA, adv bool) *gpolicy {
	p := &gpolicy{def: vgen.Pick(r, routing.Accept, routing.Reject, routing.Reject, routing.UnknownAction)}
	n := r.Range(0, 6)
	for i := 0; i < n; i++ {
		var g grule
		g.action = vgen.Pick(r, routing.Accept, routing.Accept, routing.Reject, routing.Reject, routing.Advertise, routing.RedistributeBGP)
		if !image && r.Chance(1, 12) {
			g.action = routing.UnknownAction
		}
		if adv && r.Chance(2, 3) {
			g.action = routing.Advertise
		}
		g.fromNeg, g.from = genIAM(r, from)
		g.toNeg, g.to = genIAM(r, to)
		k := r.Range(1, 3)
		for j := 0; j < k; j++ {
			v6 := r.Chance(1, 4)
			if q != nil && r.Chance(3, 4) {
				v6 = !q.Addr().Is4()
			}
			g.nets = append(g.nets, genPrefix(r, v6, q, r.Chance(4, 5)))
		}
		g.netNeg = r.Chance(1, 5)
		if adv {
			g.netNeg = r.Chance(1, 3)
		}
		if g.action == routing.Advertise && r.Chance(1, 2) {
			g.nextHop = randAddr(r, r.Chance(1, 3))
		}
		if !image && r.Chance(1, 10) { // next hop on a rule that cannot be written down
			g.nextHop = randAddr(r, false)
		}
		g.comment = commentPool[r.Intn(len(commentPool))]
		if image {
			g.comment = strings.TrimRight(strings.NewReplacer("\t", " ", "\r", "", "é", "e").Replace(g.comment), " ")
		}
		p.rules = append(p.rules, g)
	}
	return p
}

func (g *gpolicy) build() *routing.Policy {
	p := &routing.Policy{DefaultAction: g.def}
	for _, r := range g.rules {
		mk := func(neg bool, ia addr.IA) routing.IAMatcher {
			if neg {
				return routing.NegatedIAMatcher{IAMatcher: routing.SingleIAMatcher{IA: ia}}
			}
			return routing.SingleIAMatcher{IA: ia}
		}
		rule := routing.Rule{Action: r.action, From: mk(r.fromNeg, r.from), To: mk(r.toNeg, r.to),
			Network: routing.NetworkMatcher{Allowed: r.nets, Negated: r.netNeg}, Comment: r.comment}
		if r.nextHop.IsValid() {
			rule.NextHop = net.IP(r.nextHop.AsSlice())
		}
		p.Rules = append(p.Rules, rule)
	}
	return p
}

func gAction(a routing.Action) string {
	switch a {
	case routing.Accept:
		return "GwRoute.AAccept"
	case routing.Reject:
		return "GwRoute.AReject"
	case routing.Advertise:
		return "GwRoute.AAdvertise"
	case routing.RedistributeBGP:
		return "GwRoute.ARedistribute"
	}
	return "GwRoute.AUnknown"
}

func gRule(r grule) string {
	nh := "None"
	if r.nextHop.IsValid() {
		nh = vgen.Opt(gAddr(r.nextHop), true)
	}
	return vgen.App("GwRoute.Rule", gAction(r.action),
		vgen.App("GwRoute.IAM", vgen.B(r.fromNeg), vgen.N(uint64(r.from.ISD())), vgen.N(uint64(r.from.AS()))),
		vgen.App("GwRoute.IAM", vgen.B(r.toNeg), vgen.N(uint64(r.to.ISD())), vgen.N(uint64(r.to.AS()))),
		vgen.App("GwRoute.NetM", vgen.ListOf(r.nets, gPfx), vgen.B(r.netNeg)), nh, vgen.Str(r.comment))
}

func (g *gpolicy) gallina() string {
	return vgen.App("GwRoute.Policy", vgen.ListOf(g.rules, gRule), gAction(g.def))
}

// rulesOf converts a parsed policy back into the generator's form (nil, false if
// it holds a matcher type the model has no form for).
func rulesOf(p *routing.Policy) ([]grule, bool) {
	var out []grule
	for _, r := range p.Rules {
		var g grule
		g.action = r.Action
		conv := func(m routing.IAMatcher) (bool, addr.IA, bool) {
			switch x := m.(type) {
			case routing.SingleIAMatcher:
				return false, x.IA, true
			case routing.NegatedIAMatcher:
				if s, ok := x.IAMatcher.(routing.SingleIAMatcher); ok {
					return true, s.IA, true
				}
			}
			return false, 0, false
		}
		var ok1, ok2 bool
		g.fromNeg, g.from, ok1 = conv(r.From)
		g.toNeg, g.to, ok2 = conv(r.To)
		if !ok1 || !ok2 {
			return nil, false
		}
		g.nets, g.netNeg = r.Network.Allowed, r.Network.Negated
		if r.NextHop != nil {
			a, ok := netip.AddrFromSlice(r.NextHop)
			if !ok {
				return nil, false
			}
			g.nextHop = a.Unmap() // net.IP: an IPv4 address in either form is IPv4
		}
		g.comment = r.Comment
		out = append(out, g)
	}
	return out, true
}

func gRules(rs []grule, ok bool) string {
	if !ok {
		return "None"
	}
	return vgen.Opt(vgen.ListOf(rs, gRule), true)
}

// ---------------------------------------------------------------- atoms

type atomTable struct {
	seen map[string]bool
	out  []string
}

func (t *atomTable) add(s string, canon bool) {
	key := fmt.Sprintf("%v|%s", canon, s)
	if t.seen[key] {
		return
	}
	t.seen[key] = true
	ia, pfx, ip := "None", "None", "None"
	if v, err := addr.ParseIA(s); err == nil {
		ia = vgen.Opt(gIA(v), true)
	}
	if v, err := netip.ParsePrefix(s); err == nil {
		pfx = vgen.Opt(gPfx(v), true)
	}
	if v := net.ParseIP(s); v != nil {
		a, _ := netip.AddrFromSlice(v)
		ip = vgen.Opt(gAddr(a.Unmap()), true)
	}
	if ia == "None" && pfx == "None" && ip == "None" {
		return // no parser accepts it: absent from the table means rejected
	}
	t.out = append(t.out, vgen.App("GwRoute.Atom", vgen.Str(s), ia, pfx, ip, vgen.B(canon)))
}

// addText registers every substring of the text that the parser may hand to a library parser.
func (t *atomTable) addText(text string) {
	t.add("", false)
	for _, line := range strings.Split(text, "\n") {
		if i := strings.IndexByte(line, '#'); i >= 0 {
			line = line[:i]
		}
		for _, f := range strings.FieldsFunc(line, func(c rune) bool { return c == ' ' || (c >= 9 && c <= 13) }) {
			t.add(f, false)
			g := strings.TrimPrefix(f, "!")
			t.add(g, false)
			for _, part := range strings.Split(g, ",") {
				t.add(part, false)
			}
		}
	}
}

func (t *atomTable) addPolicy(rs []grule) {
	for _, r := range rs {
		t.add(r.from.String(), true)
		t.add(r.to.String(), true)
		for _, n := range r.nets {
			t.add(n.String(), true)
		}
		if r.nextHop.IsValid() {
			t.add(net.IP(r.nextHop.AsSlice()).String(), true)
		}
	}
}

func newAtoms() *atomTable { return &atomTable{seen: map[string]bool{}} }

func (t *atomTable) gallina() string {
	sort.Strings(t.out)
	return vgen.List(t.out)
}

// ---------------------------------------------------------------- policy texts

const palphabet = " \t#!,-/.:0123456789abcdefrptvjs\r\n"

var pfragments = []string{"accept", "reject", "advertise", "redistribute-bgp", "Accept", "0-0", "1-0", "0-ff00:0:110", "1-ff00:0:110",
	"!1-ff00:0:110", "!!0-0", "10.0.0.0/8", "!10.0.0.0/8", "10.0.0.0/8,10.1.0.0/16", "10.0.0.0/8,", ",10.0.0.0/8", "10.0.0.0/8,!10.1.0.0/16",
	"::/0", "2001:db8::/32", "::ffff:10.0.0.0/104", "10.1.2.3/8", "10.0.0.0/33", "10.0.0.0", "1.2.3.4", "::1", "zz", "#", " # c", "#c",
	"\n", "\r\n", "\n\n", " ", "\t", "  ", "!", ",", "65536-1", "1-4294967296"}

var pcorpus = []string{
	"", "\n", "# only a comment\n", "accept 0-0 0-0 1.2.3.0/24 1.2.3.4\n", "accept 0-0 0-0\n", "accept\t0-0\t0-0\t1.2.3.0/24\r\n",
	"Accept 0-0 0-0 1.2.3.0/24", "accept 0-0 0-0 1.2.3.0/24,", "accept 0-0 0-0 !", "accept !!0-0 0-0 1.2.3.0/24",
	"redistribute-bgp 0-0 0-0 1.2.3.0/24", "accept 0-0 0-0 1.2.3.0/24 # a # b", "advertise 0-0 0-0 1.2.3.0/24 zz",
	"advertise 0-0 0-0 1.2.3.0/24 ::1 x", "advertise 0-0 0-0 1.2.3.0/24 ::1", "accept 0-0 0-0 1.2.3.0/24#c",
	"accept 65536-0 0-0 1.2.3.0/24", "accept 0-0 0-0 1.2.3.0/33", "accept 0-0 0-0 ::ffff:1.2.3.0/120",
	"accept 1-ff00:0:110 0-0 !10.0.0.0/8,192.168.0.0/16 # c1\nreject !1-0 1-2 10.1.2.3/9\nadvertise 0-0 0-0 ::/0 1.2.3.4 #  x \n",
	"accept 0-0 0-0 10.0.0.0/8\n\nreject 0-0 0-0 10.0.0.0/8\n", "accept 0-0 0-0 10.0.0.0/8\r", "\raccept 0-0 0-0 10.0.0.0/8",
	"accept 0-0 0-0 10.0.0.0/8 #\n", "accept 0-0 0-0 10.0.0.0/8 #   \n", "  accept   0-0   0-0   10.0.0.0/8  ",
	"accept 0-0 0-0 10.0.0.0/8 # c\r\n", "accept 0-0 0-0 10.0.0.0/8\vx", "reject 0-0 !0-0 !::/0",
}

func mutateText(r *vgen.Rand, s string) string {
	b := []byte(s)
	k := 1
	if r.Chance(1, 4) {
		k = 2
	}
	for ; k > 0; k-- {
		pos := r.Intn(len(b) + 1)
		switch r.Intn(6) {
		case 0:
			if len(b) > 0 {
				if pos == len(b) {
					pos--
				}
				b = append(b[:pos:pos], b[pos+1:]...)
			}
		case 1:
			b = append(b[:pos:pos], append([]byte{palphabet[r.Intn(len(palphabet))]}, b[pos:]...)...)
		case 2:
			if len(b) > 0 {
				if pos == len(b) {
					pos--
				}
				b[pos] = palphabet[r.Intn(len(palphabet))]
			}
		case 3, 4:
			f := pfragments[r.Intn(len(pfragments))]
			b = append(b[:pos:pos], append([]byte(f), b[pos:]...)...)
		case 5:
			b = b[:pos]
		}
	}
	return string(b)
}

// respell rewrites the layout of a marshalled policy without changing its meaning.
func respell(r *vgen.Rand, s string) string {
	lines := strings.Split(strings.TrimSuffix(s, "\n"), "\n")
	for i, l := range lines {
		body, comment, has := strings.Cut(l, "#")
		fs := strings.Fields(body)
		sep := vgen.Pick(r, " ", "\t", "   ", " \t ")
		body = vgen.Pick(r, "", " ", "\t") + strings.Join(fs, sep) + vgen.Pick(r, "", " ", "\t")
		if has {
			body += "#" + vgen.Pick(r, "", " ", "  ") + strings.TrimSpace(comment) + vgen.Pick(r, "", " ", "  ")
		}
		lines[i] = body
	}
	eol := vgen.Pick(r, "\n", "\r\n")
	out := strings.Join(lines, eol)
	if r.Chance(2, 3) {
		out += eol
	}
	return out
}

func isASCII(s string) bool {
	for i := 0; i < len(s); i++ {
		if s[i] >= 0x80 {
			return false
		}
	}
	return true
}

// ---------------------------------------------------------------- main

func main() {
	run := vgen.Flags("C42")
	run.Imports = []string{"Model.PktCls", "Model.GwRoute"}
	run.CheckFn = "GwRoute.check"
	run.DiagFn = "GwRoute.diag"
	run.CaseType = "GwRoute.case"
	run.ShardSize = 180
	if run.Tier == "thorough" {
		run.ShardSize = 800
	}
	run.Rule = "route: real dataplane.NewRoutingTable from 1-4 chains (1-4 IPv4/IPv6 prefixes nested around a base, canonical or with host " +
		"bits, sometimes duplicated; 1-3 traffic matchers of pktcls conditions, indexes sometimes shared), SetSession/ClearSession incl. " +
		"unknown indexes and nil sessions, RouteIPv4/RouteIPv6 on 8 packets whose destinations sit on the boundaries of the prefixes " +
		"(first-1, first, last, last+1), IPv4-mapped IPv6 destinations; forwarder: real IPForwarder.Run over serialized packets (valid " +
		"TCP/UDP, fragments, DF, IP protocols gopacket cannot decode, truncated transport headers, truncated IP headers, other version " +
		"nibbles, empty reads; the bytes handed to each session are compared with the bytes read); policies: real Policy.Match probed with IPSet.Contains at first-1/first/last/last+1 of every prefix of " +
		"the policy and of the query plus random addresses (both families), AdvertiseList, UnmarshalText on corpus / marshalled / " +
		"respelled / mutated ASCII texts, MarshalText + UnmarshalText on policies from the image of UnmarshalText; " +
		"non-trivial = a packet was routed to a session or dropped below a containing prefix, a policy rule decided an address, " +
		"a text was accepted"
	rng := vgen.NewRand(run.Seed)

	// 1. routing tables
	nr := run.Count(180, 10000)
	for i := 0; i < nr; i++ {
		r := rng.Fork(uint64(i))
		t := genTable(r)
		ps := make([]*pkt, 8)
		for j := range ps {
			ps[j] = genPkt(r.Fork(uint64(j)), t, false)
		}
		if !run.Want() {
			run.Skip()
			continue
		}
		rt, oks := t.build(nil)
		impl := make([]string, len(ps))
		routed := false
		for j, p := range ps {
			var w control.PktWriter
			if p.v6 {
				w = rt.RouteIPv6(*p.v6layer())
			} else {
				w = rt.RouteIPv4(*p.v4layer())
			}
			id, ok := sessOf(w)
			impl[j] = optN(id, ok)
			routed = routed || ok
			run.Tally(fmt.Sprintf("route:session=%v", ok))
		}
		run.Tally(fmt.Sprintf("route:distinct=%v", t.distinct()))
		term := vgen.App("GwRoute.CRoute", t.gChains(), t.gOps(), vgen.ListOf(ps, (*pkt).gIPPkt), vgen.ListOf(oks, vgen.B), vgen.List(impl))
		run.Add("route", term, term, routed, map[string]any{"chains": len(t.chains), "ops": len(t.ops), "impl": impl, "ops_ok": oks})
	}

	// 2. forwarder
	nf := run.Count(100, 5000)
	for i := 0; i < nf; i++ {
		r := rng.Fork(uint64(1000000 + i))
		t := genTable(r)
		n := 8
		ps := make([]*pkt, n)
		raws := make([][]byte, n)
		terms := make([]string, n)
		var tags []string
		known := false
		for j := range ps {
			rj := r.Fork(uint64(j))
			p := genPkt(rj, t, true)
			b := p.serialize()
			dec := ""
			switch rj.Intn(14) {
			case 0:
				b, p.hdrOK, p.how = nil, false, "empty"
			case 1: // other version nibble
				b = append([]byte{}, b...)
				b[0] = byte(vgen.Pick(rj, 0, 1, 5, 7, 15)<<4) | b[0]&0xf
				p.hdrOK, p.how = false, "version"
			case 2: // truncated IP header
				b, p.hdrOK, p.how = b[:rj.Range(1, 19)], false, "ip-truncated"
			}
			ps[j], raws[j] = p, b
			switch {
			case !p.hdrOK:
				dec = "GwRoute.DBad"
			case p.v6:
				dec = vgen.App("GwRoute.D6", bigOf(p.dst).String(), vgen.B(p.payloadOK))
			default:
				dec = vgen.App("GwRoute.D4", p.gPkt4(), vgen.B(p.payloadOK))
			}
			b0 := uint64(0)
			if len(b) > 0 {
				b0 = uint64(b[0])
			}
			terms[j] = vgen.App("GwRoute.Raw", vgen.N(uint64(len(b))), vgen.N(b0), dec)
			run.Tally("fwd:" + p.how)
		}
		if !run.Want() {
			run.Skip()
			continue
		}
		cur := 0
		out := map[int]int{}
		data := map[int][]byte{}
		rt, _ := t.build(nil)
		// sessions that record which read they were handed
		for _, o := range t.ops {
			if o.set && o.sess != 0 {
				_ = rt.SetSession(o.id, &fsess{id: o.sess, cur: &cur, out: out, data: data})
			}
		}
		// replay the operations in order so that clears and overwrites end as in the model
		for _, o := range t.ops {
			switch {
			case o.set && o.sess == 0:
				_ = rt.SetSession(o.id, nil)
			case o.set:
				_ = rt.SetSession(o.id, &fsess{id: o.sess, cur: &cur, out: out, data: data})
			default:
				_ = rt.ClearSession(o.id)
			}
		}
		f := &dataplane.IPForwarder{Reader: &feed{pkts: raws, cur: &cur}, RoutingTable: rt}
		pn, msg := vgen.Recover(func() { _ = f.Run(context.Background()) })
		if pn {
			run.Violate(-1, "IPForwarder.Run panicked: "+msg, nil)
		}
		impl := make([]string, n)
		deliv := false
		for j := range ps {
			id, ok := out[j]
			impl[j] = optN(uint64(id), ok)
			deliv = deliv || ok
			run.Tally(fmt.Sprintf("fwd:delivered=%v", ok))
			if ps[j].hdrOK && !ps[j].payloadOK && !ps[j].frag && len(raws[j]) > 0 {
				known = true // the class of the repaired defect (see known_findings.d/C42.json)
			}
		}
		if known {
			tags = append(tags, "payload-undecodable")
		}
		term := vgen.App("GwRoute.CFwd", t.gChains(), t.gOps(), vgen.List(terms), vgen.List(impl))
		hows := make([]string, n)
		for j, p := range ps {
			hows[j] = p.how
		}
		cid := run.Add("forward", term, term, deliv, map[string]any{"packets": hows, "impl": impl}, tags...)
		// the session must be handed the packet that was read, byte for byte
		for j := range ps {
			if _, ok := out[j]; ok && !bytes.Equal(data[j], raws[j]) {
				run.Violate(cid, fmt.Sprintf("packet %d reached its session with other bytes than were read (%d bytes in, %d out)",
					j, len(raws[j]), len(data[j])), map[string]any{"in": fmt.Sprintf("%x", raws[j]), "out": fmt.Sprintf("%x", data[j])})
			}
		}
		run.Tally("fwd:bytes-compared")
	}

	// 3. Policy.Match
	nm := run.Count(170, 10000)
	for i := 0; i < nm; i++ {
		r := rng.Fork(uint64(2000000 + i))
		v6 := r.Chance(1, 4)
		q := genPrefix(r, v6, nil, r.Chance(4, 5))
		if r.Chance(1, 3) {
			q = netip.PrefixFrom(q.Addr(), vgen.Pick(r, 0, 4, 8)).Masked()
		}
		from := addr.MustParseIA(iaPool[r.Intn(len(iaPool))])
		to := addr.MustParseIA(iaPool[r.Intn(len(iaPool))])
		g := genPolicy(r, &q, false, from, to, false)
		var addrs []netip.Addr
		addrs = append(addrs, boundary(q)...)
		for _, rl := range g.rules {
			for _, n := range rl.nets {
				addrs = append(addrs, boundary(n)...)
			}
		}
		for k := 0; k < 4; k++ {
			addrs = append(addrs, randAddr(r, r.Chance(1, 4)))
			// inside the query prefix
			bits := 32
			if v6 {
				bits = 128
			}
			x := new(big.Int).SetBytes(r.Bytes(16))
			x.Rsh(x, uint(128-(bits-q.Bits())))
			addrs = append(addrs, addrFrom(v6, new(big.Int).Or(bigOf(q.Masked().Addr()), x)))
		}
		if len(addrs) > 16 {
			vgen.Shuffle(r, addrs)
			addrs = addrs[:16]
		}
		if !run.Want() {
			run.Skip()
			continue
		}
		pol := g.build()
		set, err := pol.Match(from, to, q)
		if err != nil {
			run.Violate(-1, "Policy.Match failed on a valid policy", err.Error())
			run.Skip()
			continue
		}
		impl := make([]bool, len(addrs))
		in := 0
		for k, a := range addrs {
			impl[k] = set.Contains(a)
			if impl[k] {
				in++
			}
			run.Tally(fmt.Sprintf("match:contains=%v", impl[k]))
		}
		term := vgen.App("GwRoute.CMatch", g.gallina(), gIA(from), gIA(to), gPfx(q), vgen.ListOf(addrs, gAddr), vgen.ListOf(impl, vgen.B))
		run.Add("match", term, term, in > 0 && in < len(addrs), map[string]any{"rules": len(g.rules), "prefix": q.String(), "in": in, "of": len(addrs)})
	}

	// 4. AdvertiseList
	na := run.Count(60, 3000)
	for i := 0; i < na; i++ {
		r := rng.Fork(uint64(3000000 + i))
		from := addr.MustParseIA(iaPool[r.Intn(len(iaPool))])
		to := addr.MustParseIA(iaPool[r.Intn(len(iaPool))])
		g := genPolicy(r, nil, false, from, to, true)
		if !run.Want() {
			run.Skip()
			continue
		}
		l, err := routing.AdvertiseList(g.build(), from, to)
		if err != nil {
			run.Violate(-1, "AdvertiseList failed", err.Error())
		}
		term := vgen.App("GwRoute.CAdv", g.gallina(), gIA(from), gIA(to), vgen.ListOf(l, gPfx))
		run.Tally(fmt.Sprintf("advertise:nonempty=%v", len(l) > 0))
		run.Add("advertise", term, term, len(l) > 0, map[string]any{"rules": len(g.rules), "list": len(l)})
	}

	// 5. texts: corpus, marshalled, respelled, mutated
	doText := func(kind, text string) {
		tb := newAtoms()
		tb.addText(text)
		var p routing.Policy
		err := p.UnmarshalText([]byte(text))
		var rs []grule
		ok := err == nil
		if ok {
			rs, ok = rulesOf(&p)
		}
		run.Tally(fmt.Sprintf("text:accepted=%v", err == nil))
		term := vgen.App("GwRoute.CUnm", tb.gallina(), vgen.Str(text), gRules(rs, ok))
		run.Add(kind, term, text, err == nil && len(rs) > 0, map[string]any{"text": text, "accepted": err == nil, "rules": len(rs)})
	}
	for i, s := range pcorpus {
		_ = i
		if !run.Want() {
			run.Skip()
			continue
		}
		doText("text-corpus", s)
	}
	nt := run.Count(260, 15000)
	for i := 0; i < nt; i++ {
		r := rng.Fork(uint64(4000000 + i))
		g := genPolicy(r, nil, true, 0, 0, r.Chance(1, 3))
		if len(g.rules) > 4 {
			g.rules = g.rules[:4]
		}
		raw, err := g.build().MarshalText()
		if err != nil {
			panic(err)
		}
		text := string(raw)
		kind := "text-marshalled"
		switch r.Intn(4) {
		case 1:
			text, kind = respell(r, text), "text-respelled"
		case 2:
			text, kind = mutateText(r, text), "text-mutated"
		case 3:
			text, kind = mutateText(r, respell(r, text)), "text-mutated"
		}
		if !run.Want() {
			run.Skip()
			continue
		}
		if !isASCII(text) {
			panic("non-ASCII text generated")
		}
		doText(kind, text)
	}

	// 6. MarshalText and back, on policies from the image of UnmarshalText
	nmar := run.Count(90, 5000)
	for i := 0; i < nmar; i++ {
		r := rng.Fork(uint64(5000000 + i))
		g := genPolicy(r, nil, true, 0, 0, r.Chance(1, 3))
		if len(g.rules) > 5 {
			g.rules = g.rules[:5]
		}
		if !run.Want() {
			run.Skip()
			continue
		}
		// take the image: marshal once, parse, and use what the parser produced
		raw0, err := g.build().MarshalText()
		if err != nil {
			panic(err)
		}
		var p0 routing.Policy
		if err := p0.UnmarshalText(raw0); err != nil {
			run.Violate(-1, "UnmarshalText rejects MarshalText of a generated policy", map[string]any{"text": string(raw0), "err": err.Error()})
			run.Skip()
			continue
		}
		rs0, ok0 := rulesOf(&p0)
		if !ok0 {
			panic("unexpected matcher type")
		}
		raw, err := p0.MarshalText()
		if err != nil {
			panic(err)
		}
		var p1 routing.Policy
		err = p1.UnmarshalText(raw)
		rs1, ok1 := rulesOf(&p1)
		ok1 = ok1 && err == nil
		tb := newAtoms()
		tb.addPolicy(rs0)
		tb.addText(string(raw))
		img := &gpolicy{rules: rs0, def: g.def}
		term := vgen.App("GwRoute.CMar", tb.gallina(), img.gallina(), vgen.Str(string(raw)), gRules(rs1, ok1))
		run.Tally(fmt.Sprintf("marshal:rules=%d", len(rs0)))
		run.Add("marshal", term, term, len(rs0) > 0, map[string]any{"text": string(raw), "reparsed": ok1})
	}
	run.Finish()
}
