// Runner for C46: text formats of pkg/addr (ISD, AS, ISD-AS, FormatIA options,
// SVC, host, full address) on the real code; every case carries the text the
// implementation produced / the value it parsed.
package main

import (
	"fmt"
	"net/netip"
	"strconv"
	"strings"

	"github.com/scionproto/scion/pkg/addr"
	"verifharness/internal/vgen"
)

// ---------------------------------------------------------------- options

type opt struct {
	prefix bool
	sep    string // meaningful when !prefix
}

func (o opt) gallina() string {
	if o.prefix {
		return "WithDefaultPrefix"
	}
	return vgen.App("WithSeparator", vgen.Str(o.sep))
}

func (o opt) String() string {
	if o.prefix {
		return "prefix"
	}
	return fmt.Sprintf("sep(%q)", o.sep)
}

func goOpts(os []opt) []addr.FormatOption {
	var out []addr.FormatOption
	for _, o := range os {
		if o.prefix {
			out = append(out, addr.WithDefaultPrefix())
		} else if o.sep == "_" {
			out = append(out, addr.WithFileSeparator())
		} else {
			out = append(out, addr.WithSeparator(o.sep))
		}
	}
	return out
}

func optsT(os []opt) string { return vgen.ListOf(os, opt.gallina) }
func optsD(os []opt) string {
	s := make([]string, len(os))
	for i, o := range os {
		s[i] = o.String()
	}
	return strings.Join(s, "+")
}

var goodSeps = []string{":", "_", ".", "", "::", "_.", "~", " ", "/x"}
var badSeps = []string{"-", "a", "0", "F", ":-", "1:", "AS"}

// every option combination over the given separators (prefix before / after / twice,
// a later WithSeparator overriding an earlier one)
func optCombos(seps []string) [][]opt {
	out := [][]opt{{}, {{prefix: true}}, {{prefix: true}, {prefix: true}}}
	for _, s := range seps {
		out = append(out, []opt{{sep: s}}, []opt{{prefix: true}, {sep: s}}, []opt{{sep: s}, {prefix: true}})
	}
	for _, s := range seps {
		for _, t := range []string{"", "_", ":"} {
			out = append(out, []opt{{sep: s}, {sep: t}}, []opt{{sep: s}, {prefix: true}, {sep: t}})
		}
	}
	return out
}

// ---------------------------------------------------------------- the codecs

const (
	kISD = iota
	kAS
	kIA
	kFISD
	kFAS
	kFIA
	kSVC
)

var kName = []string{"ISD", "AS", "IA", "FormatISD", "FormatAS", "FormatIA", "SVC"}

func format(k int, os []opt, v uint64) string {
	switch k {
	case kISD:
		return addr.ISD(v).String()
	case kAS:
		return addr.AS(v).String()
	case kIA:
		return addr.IA(v).String()
	case kFISD:
		return addr.FormatISD(addr.ISD(v), goOpts(os)...)
	case kFAS:
		return addr.FormatAS(addr.AS(v), goOpts(os)...)
	case kFIA:
		return addr.FormatIA(addr.IA(v), goOpts(os)...)
	default:
		return addr.SVC(v).String()
	}
}

func parse(k int, os []opt, s string) (uint64, bool) {
	switch k {
	case kISD:
		v, err := addr.ParseISD(s)
		return uint64(v), err == nil
	case kAS:
		v, err := addr.ParseAS(s)
		return uint64(v), err == nil
	case kIA:
		v, err := addr.ParseIA(s)
		return uint64(v), err == nil
	case kFISD:
		v, err := addr.ParseFormattedISD(s, goOpts(os)...)
		return uint64(v), err == nil
	case kFAS:
		v, err := addr.ParseFormattedAS(s, goOpts(os)...)
		return uint64(v), err == nil
	case kFIA:
		v, err := addr.ParseFormattedIA(s, goOpts(os)...)
		return uint64(v), err == nil
	default:
		v, err := addr.ParseSVC(s)
		return uint64(v), err == nil
	}
}

func hasOpts(k int) bool { return k == kFISD || k == kFAS || k == kFIA }

// ---------------------------------------------------------------- values

var bounds = []uint64{0, 1, 2, 9, 10, 255, 1<<16 - 1, 1 << 16, 1<<16 + 1, 1<<32 - 1, 1 << 32, 1<<32 + 1,
	0xff0000000110, 1<<48 - 1, 1 << 48, 1<<48 + 1, 1<<63 + 5, 1<<64 - 1,
	0x0001_ff00_0000_0110, 0xffff_ffff_ffff_ffff, 0x0000_0000_0001_0000, 0xffff_0000_0000_0000}

func randVal(r *vgen.Rand) uint64 {
	switch r.Intn(6) {
	case 0:
		return uint64(r.Intn(70000))
	case 1:
		return uint64(r.U64() % (1 << 32))
	case 2:
		return 1<<32 + r.U64()%(1<<48-1<<32)
	case 3:
		return r.U64() % (1 << 48)
	case 4:
		// hex groups with zeros / small values
		g := func() uint64 { return vgen.Pick(r, uint64(0), 1, 0xf, 0x10, 0xff00, 0xffff, uint64(r.Intn(65536))) }
		return g()<<32 | g()<<16 | g()
	default:
		return r.U64()
	}
}

func clampFor(k int, v uint64) uint64 {
	switch k {
	case kISD, kFISD, kSVC:
		return v & 0xffff
	}
	return v
}

var svcVals = []uint64{1, 2, 0x10, 0x8001, 0x8002, 0x8010, 0xffff, 0, 3, 0x8000, 0x4001, 0xc002, 0x11, 0x7fff}

// ---------------------------------------------------------------- hosts

type hostV struct {
	kind int // 0 none, 1 ip, 2 svc
	ip   string
	svc  uint64
}

func hostOf(h addr.Host) hostV {
	switch h.Type() {
	case addr.HostTypeIP:
		return hostV{kind: 1, ip: h.IP().String()}
	case addr.HostTypeSVC:
		return hostV{kind: 2, svc: uint64(h.SVC())}
	}
	return hostV{}
}

func (h hostV) gallina() string {
	switch h.kind {
	case 1:
		return vgen.App("HIP", vgen.Str(h.ip))
	case 2:
		return vgen.App("HSVC", vgen.N(h.svc))
	}
	return "HNone"
}

func (h hostV) String() string {
	switch h.kind {
	case 1:
		return "ip:" + h.ip
	case 2:
		return fmt.Sprintf("svc:%#x", h.svc)
	}
	return "none"
}

func randIP(r *vgen.Rand) netip.Addr {
	switch r.Intn(8) {
	case 0:
		return vgen.Pick(r, netip.MustParseAddr("0.0.0.0"), netip.MustParseAddr("255.255.255.255"),
			netip.MustParseAddr("::"), netip.MustParseAddr("::1"),
			netip.MustParseAddr("ffff:ffff:ffff:ffff:ffff:ffff:ffff:ffff"), netip.MustParseAddr("127.0.0.1"))
	case 1, 2:
		var b [4]byte
		copy(b[:], r.Bytes(4))
		return netip.AddrFrom4(b)
	case 3:
		var b [4]byte
		copy(b[:], r.Bytes(4))
		return netip.AddrFrom16(netip.AddrFrom4(b).As16()) // 4in6
	case 4:
		var b [16]byte
		copy(b[:], r.Bytes(16))
		return netip.AddrFrom16(b).WithZone(vgen.Pick(r, "eth0", "1", "CS_M", "a,b", "z-1"))
	case 5:
		// runs of zero groups
		var b [16]byte
		for i := 0; i < 8; i++ {
			if r.Chance(1, 2) {
				b[2*i], b[2*i+1] = byte(r.U64()), byte(r.U64())
			}
		}
		return netip.AddrFrom16(b)
	default:
		var b [16]byte
		copy(b[:], r.Bytes(16))
		return netip.AddrFrom16(b)
	}
}

func randHost(r *vgen.Rand) addr.Host {
	switch r.Intn(10) {
	case 0:
		return addr.Host{}
	case 1, 2, 3:
		return addr.HostSVC(addr.SVC(vgen.Pick(r, svcVals...)))
	default:
		return addr.HostIP(randIP(r))
	}
}

func ipRes(s string) (string, bool) {
	a, err := netip.ParseAddr(s)
	if err != nil {
		return "", false
	}
	return a.String(), true
}

// ---------------------------------------------------------------- text mutation

const alphabet = "0123456789abcdefABCDEFgx:-_.+ ,#ISDASCWM"

func mutate(r *vgen.Rand, s string) string {
	b := []byte(s)
	n := r.Range(1, 2)
	for i := 0; i < n; i++ {
		switch r.Intn(9) {
		case 0: // leading zero at a group start
			pos := groupStart(r, b)
			b = append(b[:pos], append([]byte{'0'}, b[pos:]...)...)
		case 1: // flip letter case
			for j := range b {
				if (b[j] >= 'a' && b[j] <= 'z' || b[j] >= 'A' && b[j] <= 'Z') && r.Chance(1, 2) {
					b[j] ^= 0x20
				}
			}
		case 2: // insert a character
			pos := r.Intn(len(b) + 1)
			c := alphabet[r.Intn(len(alphabet))]
			b = append(b[:pos], append([]byte{c}, b[pos:]...)...)
		case 3: // delete
			if len(b) > 0 {
				pos := r.Intn(len(b))
				b = append(b[:pos], b[pos+1:]...)
			}
		case 4: // replace
			if len(b) > 0 {
				b[r.Intn(len(b))] = alphabet[r.Intn(len(alphabet))]
			}
		case 5: // duplicate a separator-like character
			for j := range b {
				if strings.IndexByte(":-_.,", b[j]) >= 0 && r.Chance(1, 2) {
					b = append(b[:j], append([]byte{b[j]}, b[j:]...)...)
					break
				}
			}
		case 6: // sign
			pos := groupStart(r, b)
			b = append(b[:pos], append([]byte{vgen.Pick(r, byte('+'), '-')}, b[pos:]...)...)
		case 7: // grow a digit group
			pos := groupStart(r, b)
			ins := vgen.Pick(r, "1", "f", "9", "ffff", "65536", "4294967296", "1", "10")
			b = append(b[:pos], append([]byte(ins), b[pos:]...)...)
		case 8: // append
			b = append(b, vgen.Pick(r, "_A", "_M", ":", ":0", "-", " ", "0", ",")...)
		}
	}
	return string(b)
}

func groupStart(r *vgen.Rand, b []byte) int {
	var starts []int
	prevDigit := false
	for i, c := range b {
		d := c >= '0' && c <= '9' || c >= 'a' && c <= 'f' || c >= 'A' && c <= 'F'
		if d && !prevDigit {
			starts = append(starts, i)
		}
		prevDigit = d
	}
	if len(starts) == 0 {
		return 0
	}
	return starts[r.Intn(len(starts))]
}

func randString(r *vgen.Rand) string {
	n := r.Range(0, 12)
	b := make([]byte, n)
	for i := range b {
		if r.Chance(1, 30) {
			b[i] = byte(r.U64())
		} else {
			b[i] = alphabet[r.Intn(len(alphabet))]
		}
	}
	return string(b)
}

// hand-written rejection / liberty stream per codec
func fixedStrings(k int) []string {
	dec := []string{"", "0", "00", "1", "01", "007", "65535", "65536", "065535", "4294967295", "4294967296",
		"04294967295", "281474976710655", "281474976710656", "18446744073709551615", "18446744073709551616",
		"99999999999999999999999", "+1", "-1", " 1", "1 ", "1_0", "0x1", "1e3", "a", "ff", "١"}
	hex := []string{"0:0:0", "0:0:1", "0:0:ffff", "0:1:0", "1:0:0", "ffff:ffff:ffff", "FFFF:ffff:FfFf", "ff00:0:110",
		"FF00:0:110", "0ff00:0:110", "00000:0:1", "10000:0:0", "0:10000:0", "0:0:10000", "fffff:0:0", "0:0", "0:0:0:0",
		":0:0", "0::0", "0:0:", "::", ":", "g:0:0", "0:0:g", "-1:0:0", "+1:0:0", "1: 0:0", "0x1:0:0", "1:2:3", "65536:0:0"}
	switch k {
	case kISD, kFISD:
		return dec
	case kAS, kFAS:
		return append(dec, hex...)
	case kIA, kFIA:
		out := []string{"", "-", "1", "1-", "-1", "1-1", "0-0", "1--1", "1-1-1", "65535-1", "65536-1", "01-01",
			"1-4294967295", "1-4294967296", "+1-1", "1-+1", "1 -1", "1- 1", "a-1", "1-a", "1-0x1",
			"1-ff00:0:110,", "1-ff00:0:110 ", "1_ff00:0:110", "1-ff00_0_110", "1-ff00.0.110", "1-ff000110"}
		for _, h := range hex {
			out = append(out, "1-"+h, "65535-"+h)
		}
		return out
	default:
		return []string{"", "DS", "CS", "Wildcard", "DS_A", "CS_A", "Wildcard_A", "DS_M", "CS_M", "Wildcard_M",
			"ds", "cs", "Cs", "wildcard", "WILDCARD", "CS_", "CS_a", "CS_m", "CS_A_A", "CS_A_M", "CS_M_A", "CS_M_M",
			"_A", "_M", "_A_A", "A", "M", "CS A", "CS_AA", " CS", "CS ", "BS", "SB", "<SVC:0x0001>", "<SVC:0xffff>_M",
			"<SVC:0xffff>", "None", "<None>", "DSCS", "Wildcard_", "1", "0x0002"}
	}
}

func withPrefix(k int, os []opt, s string) string {
	pfx := false
	for _, o := range os {
		if o.prefix {
			pfx = true
		}
	}
	if !pfx {
		return s
	}
	switch k {
	case kFISD:
		return "ISD" + s
	case kFAS:
		return "AS" + s
	case kFIA:
		if i := strings.IndexByte(s, '-'); i >= 0 {
			return "ISD" + s[:i] + "-AS" + s[i+1:]
		}
		return "ISD" + s
	}
	return s
}

// sepGood mirrors AddrFmt.sep_good: first byte of the separator in effect is not a
// hex digit and, for ISD-AS text, the separator has no '-'.
func sepGood(k int, os []opt) bool {
	sep := effSep(os)
	c := sep[0]
	hex := c >= '0' && c <= '9' || c >= 'a' && c <= 'f' || c >= 'A' && c <= 'F'
	switch k {
	case kFAS:
		return !hex
	case kFIA:
		return !hex && !strings.Contains(sep, "-")
	}
	return true
}

func effSep(os []opt) string {
	sep := ":"
	for _, o := range os {
		if !o.prefix {
			sep = o.sep
			if sep == "" {
				sep = ":"
			}
		}
	}
	return sep
}

func main() {
	run := vgen.Flags("C46")
	run.Imports = []string{"Model.AddrFmt"}
	run.Prelude = "Import AddrFmt."
	run.CheckFn = "check"
	run.DiagFn = "diag"
	run.CaseType = "case"
	run.ShardSize = 250
	run.Rule = "format cases: every codec (ISD, AS, IA, FormatISD/AS/IA, SVC, host, addr) x boundary values " +
		"(0, 1, 2^16-1, 2^16, 2^32-1, 2^32, 2^48-1, 2^48, 2^64-1 ...) + random x all option combinations over " +
		"separators ':' '_' '.' '' '::' ... (and ambiguous ones '-', 'a', '0'); the implementation's text is parsed " +
		"back by the implementation.  parse cases: hand-written liberty/rejection tables per codec + mutations of " +
		"formatted text (leading zeros, letter case, inserted/deleted/duplicated characters, signs, overlong " +
		"groups, suffixes) + random strings.  non-trivial = format case whose value is in the round-trip domain, " +
		"or parse case built from a table entry / a mutation of valid text"
	rng := vgen.NewRand(run.Seed)

	addFmt := func(k int, os []opt, v uint64) {
		if !run.Want() {
			run.Skip()
			return
		}
		txt := format(k, os, v)
		back, ok := parse(k, os, txt)
		run.Tally(fmt.Sprintf("fmt:%s:back=%v", kName[k], ok && back == v))
		var tags []string
		if !sepGood(k, os) { // the class of the open finding: computed from the options alone
			tags = []string{"separator-hex-or-dash"}
			run.Tally("fmt:separator-hex-or-dash")
		}
		run.Add("fmt-"+kName[k],
			vgen.App("CFmt", vgen.N(uint64(k)), optsT(os), vgen.N(v), vgen.Str(txt), vgen.Opt(vgen.N(back), ok)),
			fmt.Sprint(k, optsD(os), v), true,
			map[string]any{"codec": kName[k], "opts": optsD(os), "value": v, "text": txt,
				"back": map[string]any{"ok": ok, "v": back}}, tags...)
	}
	addParse := func(k int, os []opt, s string, nontrivial bool) {
		if !run.Want() {
			run.Skip()
			return
		}
		v, ok := parse(k, os, s)
		run.Tally(fmt.Sprintf("parse:%s:accept=%v", kName[k], ok))
		run.Add("parse-"+kName[k],
			vgen.App("CParse", vgen.N(uint64(k)), optsT(os), vgen.Str(s), vgen.Opt(vgen.N(v), ok)),
			fmt.Sprint(k, optsD(os), strconv.Quote(s)), nontrivial,
			map[string]any{"codec": kName[k], "opts": optsD(os), "text": s, "impl": map[string]any{"ok": ok, "v": v}})
	}

	combos := optCombos(goodSeps)
	badCombos := optCombos(badSeps)

	// 1. boundary values: plain codecs, and every option combination for the Format* codecs
	for k := kISD; k <= kFIA; k++ {
		for vi, v := range bounds {
			v = clampFor(k, v)
			if !hasOpts(k) {
				addFmt(k, nil, v)
				continue
			}
			for ci, os := range combos {
				// quick tier: the basic combinations always, the others rotate over the boundary values
				if run.Tier != "thorough" && ci > 2 && (ci+vi)%6 != 0 {
					run.Tally("combo-left-to-thorough")
					continue
				}
				addFmt(k, os, v)
			}
		}
	}
	for _, v := range svcVals {
		addFmt(kSVC, nil, v)
	}
	// boundary values with separators that start with a hex digit or contain '-'
	for _, k := range []int{kFAS, kFIA} {
		for vi, v := range bounds {
			for ci, os := range badCombos {
				if run.Tier != "thorough" && (ci+vi)%9 != 0 {
					continue
				}
				addFmt(k, os, clampFor(k, v))
			}
		}
	}
	for _, v := range []uint64{10203, 102030, 0xa000b000c, 0x1000a000b} {
		addFmt(kFAS, []opt{{sep: "0"}}, v)
		addFmt(kFAS, []opt{{sep: "a"}}, v)
		addFmt(kFIA, []opt{{sep: "-"}}, v|1<<48)
	}
	// 2. random values x random option combinations
	n := run.Count(400, 40000)
	for i := 0; i < n; i++ {
		r := rng.Fork(uint64(i))
		k := vgen.Pick(r, kISD, kAS, kAS, kIA, kIA, kFISD, kFAS, kFAS, kFAS, kFIA, kFIA, kFIA)
		v := clampFor(k, randVal(r))
		var os []opt
		if hasOpts(k) {
			if r.Chance(1, 8) {
				os = badCombos[r.Intn(len(badCombos))]
			} else {
				os = combos[r.Intn(len(combos))]
			}
		}
		addFmt(k, os, v)
	}
	// 3. parse: tables
	for k := kISD; k <= kSVC; k++ {
		for _, s := range fixedStrings(k) {
			if !hasOpts(k) {
				addParse(k, nil, s, true)
				continue
			}
			tabOpts := [][]opt{{}, {{sep: ""}}, {{prefix: true}, {sep: "."}}}
			if run.Tier == "thorough" {
				tabOpts = append(tabOpts, []opt{{prefix: true}}, []opt{{sep: "_"}}, []opt{{sep: "::"}, {prefix: true}})
			}
			for _, os := range tabOpts {
				t := strings.ReplaceAll(s, ":", effSep(os))
				addParse(k, os, withPrefix(k, os, t), true)
				if len(os) > 0 && os[0].prefix {
					addParse(k, os, t, true) // prefix missing
				}
			}
		}
	}
	// 4. parse: mutations of valid text and random strings
	m := run.Count(600, 60000)
	for i := 0; i < m; i++ {
		r := rng.Fork(uint64(5000000 + i))
		k := vgen.Pick(r, kISD, kAS, kAS, kIA, kIA, kFISD, kFAS, kFAS, kFIA, kFIA, kFIA, kSVC)
		var os []opt
		if hasOpts(k) {
			if r.Chance(1, 10) {
				os = badCombos[r.Intn(len(badCombos))]
			} else {
				os = combos[r.Intn(len(combos))]
			}
		}
		var s string
		nontriv := true
		switch r.Intn(8) {
		case 0:
			s = randString(r)
			nontriv = false
		default:
			var v uint64
			if k == kSVC {
				v = vgen.Pick(r, svcVals...)
			} else {
				v = clampFor(k, randVal(r))
			}
			s = format(k, os, v)
			if r.Chance(5, 6) {
				s = mutate(r, s)
			}
		}
		addParse(k, os, s, nontriv)
	}
	// 5. hosts and full addresses
	nh := run.Count(150, 10000)
	for i := 0; i < nh; i++ {
		r := rng.Fork(uint64(9000000 + i))
		h := randHost(r)
		ia := vgen.Pick(r, bounds...)
		if r.Chance(1, 2) {
			ia = randVal(r)
		}
		if !run.Want() {
			run.Skip()
		} else {
			txt := h.String()
			b, err := addr.ParseHost(txt)
			hv := hostOf(h)
			run.Tally(fmt.Sprintf("fmt:host:%d:back=%v", hv.kind, err == nil))
			run.Add("fmt-host", vgen.App("CHostFmt", hv.gallina(), vgen.Str(txt), vgen.Opt(hostOf(b).gallina(), err == nil)),
				"h"+hv.String(), hv.kind != 0,
				map[string]any{"host": hv.String(), "text": txt, "back_ok": err == nil, "back": hostOf(b).String()})
		}
		if !run.Want() {
			run.Skip()
		} else {
			a := addr.Addr{IA: addr.IA(ia), Host: h}
			txt := a.String()
			b, err := addr.ParseAddr(txt)
			hv := hostOf(h)
			run.Tally(fmt.Sprintf("fmt:addr:%d:back=%v", hv.kind, err == nil))
			run.Add("fmt-addr", vgen.App("CAddrFmt", vgen.N(ia), hv.gallina(), vgen.Str(txt),
				vgen.Opt(vgen.Pair(vgen.N(uint64(b.IA)), hostOf(b.Host).gallina()), err == nil)),
				fmt.Sprint("a", ia, hv.String()), hv.kind != 0,
				map[string]any{"ia": ia, "host": hv.String(), "text": txt, "back_ok": err == nil,
					"back": fmt.Sprint(uint64(b.IA), hostOf(b.Host).String())})
		}
	}
	hostTexts := []string{"", "1.2.3.4", "1.2.3.04", "1.2.3", "256.1.1.1", "::", "::1", "2001:DB8::1", "2001:db8::1",
		"::ffff:1.2.3.4", "fe80::1%eth0", "fe80::1%", "[::1]", "::1 ", "1.2.3.4:80", "CS", "CS_A", "CS_M", "DS", "Wildcard_M",
		"cs", "CS_A_A", "<None>", "invalid IP", "localhost", "1.2.3.4,CS", "0:0:0:0:0:0:0:1", "00:0:0:0:0:0:0:1"}
	np := run.Count(150, 10000)
	for i := 0; i < np+len(hostTexts); i++ {
		r := rng.Fork(uint64(12000000 + i))
		var s string
		nontriv := true
		if i < len(hostTexts) {
			s = hostTexts[i]
		} else {
			switch r.Intn(6) {
			case 0:
				s = randString(r)
				nontriv = false
			case 1:
				s = vgen.Pick(r, hostTexts...)
				s = mutate(r, s)
			default:
				h := randHost(r)
				s = h.String()
				if r.Chance(2, 3) {
					s = mutate(r, s)
				}
			}
		}
		iaText := vgen.Pick(r, "1-ff00:0:110", "0-0", "65535-ffff:ffff:ffff", "1-1", "1-0:0:1", "1-FF00:0:110", "01-01",
			"65536-1", "1", "", "1-1-1", "1-ff00:0", "1-4294967296")
		if r.Chance(1, 4) {
			iaText = mutate(r, iaText)
		}
		full := iaText + "," + s
		if r.Chance(1, 8) {
			full = iaText + s // no comma (unless the host text has one)
		}
		if !run.Want() {
			run.Skip()
		} else {
			h, err := addr.ParseHost(s)
			ipt, ipok := ipRes(s)
			run.Tally(fmt.Sprintf("parse:host:accept=%v", err == nil))
			run.Add("parse-host", vgen.App("CHostParse", vgen.Str(s), vgen.Opt(vgen.Str(ipt), ipok),
				vgen.Opt(hostOf(h).gallina(), err == nil)),
				"ph"+strconv.Quote(s), nontriv,
				map[string]any{"text": s, "netip": map[string]any{"ok": ipok, "text": ipt},
					"impl_ok": err == nil, "impl": hostOf(h).String()})
		}
		if !run.Want() {
			run.Skip()
		} else {
			a, err := addr.ParseAddr(full)
			hp := ""
			if j := strings.IndexByte(full, ','); j >= 0 {
				hp = full[j+1:]
			}
			ipt, ipok := ipRes(hp)
			run.Tally(fmt.Sprintf("parse:addr:accept=%v", err == nil))
			run.Add("parse-addr", vgen.App("CAddrParse", vgen.Str(full), vgen.Opt(vgen.Str(ipt), ipok),
				vgen.Opt(vgen.Pair(vgen.N(uint64(a.IA)), hostOf(a.Host).gallina()), err == nil)),
				"pa"+strconv.Quote(full), nontriv,
				map[string]any{"text": full, "netip": map[string]any{"ok": ipok, "text": ipt},
					"impl_ok": err == nil, "impl": fmt.Sprint(uint64(a.IA), hostOf(a.Host).String())})
		}
	}
	run.Finish()
}
