package main

import (
	"fmt"
	"math/big"
	"sort"

	"github.com/scionproto/scion/pkg/addr"
	seg "github.com/scionproto/scion/pkg/segment"

	"verifharness/internal/netgen"
	"verifharness/internal/vgen"
)

// Segment cases (BeaconCase.CSeg): every selected segment was produced by the REAL
// control/beaconing.DefaultExtender (topogen's mini beaconing). The model gets the
// topology, the origination (origin AS, timestamp, SegID), the per-AS choices read
// off the run (egress interface, announced peering interfaces), the control-plane
// configuration of the ASes on the way (MTU, MaxExpTime, link MTUs) and a table of
// hop-field MACs computed with the reference MAC under the routers' keys for the
// SegID chain recomputed here; it re-runs Beaconing.run and must arrive at the
// decoded real segment; the oracle is BeaconCase.beaconed_b on the real segment.

func packBits(fields ...[2]uint64) string {
	x := new(big.Int)
	for _, f := range fields {
		x.Lsh(x, uint(f[1]))
		x.Or(x, new(big.Int).SetUint64(f[0]))
	}
	return x.String()
}

func mac48(m []byte) uint64 {
	var v uint64
	for _, b := range m {
		v = v<<8 | uint64(b)
	}
	return v
}

func hopTerm(h seg.HopField) string {
	return packBits([2]uint64{uint64(h.ExpTime), 8}, [2]uint64{uint64(h.ConsIngress), 16},
		[2]uint64{uint64(h.ConsEgress), 16}, [2]uint64{mac48(h.MAC[:]), 48})
}

type segItem struct {
	ps   *seg.PathSegment
	core bool
}

func segCases(x *netgen.Ctx, nWorlds, perWorld int) {
	run := x.Run
	for wi := 0; wi < nWorlds; wi++ {
		w := x.World(wi)
		r := x.Rng.Fork(uint64(3_000_000 + wi))
		var ias []addr.IA
		for ia := range w.Segs.Intra {
			ias = append(ias, ia)
		}
		sort.Slice(ias, func(i, j int) bool { return ias[i] < ias[j] })
		var all []segItem
		for _, ia := range ias {
			for _, s := range w.Segs.Intra[ia] {
				all = append(all, segItem{s, false})
			}
		}
		for _, s := range w.Segs.Core {
			all = append(all, segItem{s, true})
		}
		vgen.Shuffle(r, all)
		// segments announcing peering links and long segments first
		sort.SliceStable(all, func(i, j int) bool { return segRank(all[i].ps) < segRank(all[j].ps) })
		if len(all) > perWorld {
			all = all[:perWorld]
		}
		for _, it := range all {
			segCase(run, w, it)
		}
	}
}

func segRank(ps *seg.PathSegment) int {
	peers := 0
	for _, e := range ps.ASEntries {
		peers += len(e.PeerEntries)
	}
	switch {
	case peers > 0 && len(ps.ASEntries) >= 3:
		return 0
	case peers > 0:
		return 1
	case len(ps.ASEntries) >= 3:
		return 2
	}
	return 3
}

func segCase(run *vgen.Run, w *netgen.World, it segItem) {
	ps := it.ps
	ts := uint32(ps.Info.Timestamp.Unix())
	macs := &netgen.Walk{Macs: map[int]map[string]string{}}
	var chs, ctls, entries []string
	beta := ps.Info.SegmentID
	npeers := 0
	for _, e := range ps.ASEntries {
		a := w.Net.AS(e.Local)
		if a == nil {
			run.Violate(-1, "segment names an AS outside the topology", map[string]any{"ia": e.Local.String()})
			return
		}
		h := e.HopEntry.HopField
		next := beta ^ uint16(h.MAC[0])<<8 ^ uint16(h.MAC[1])
		macs.AddMac(a, beta, ts, h.ExpTime, h.ConsIngress, h.ConsEgress)
		var peers, pes []string
		for _, p := range e.PeerEntries {
			macs.AddMac(a, next, ts, p.HopField.ExpTime, p.HopField.ConsIngress, p.HopField.ConsEgress)
			peers = append(peers, vgen.N(uint64(p.HopField.ConsIngress)))
			pes = append(pes, vgen.App("BeaconCase.pe", netgen.IATerm(p.Peer), vgen.N(uint64(p.PeerInterface)),
				vgen.N(uint64(p.PeerMTU)), hopTerm(p.HopField)))
			npeers++
		}
		chs = append(chs, vgen.Pair(vgen.N(uint64(h.ConsEgress)), vgen.List(peers)))
		var ifm []string
		for _, l := range a.AS.Links {
			_, loc, _ := l.Other(a.AS)
			ifm = append(ifm, vgen.Pair(vgen.N(uint64(loc)), vgen.N(uint64(l.MTU))))
		}
		ctls = append(ctls, vgen.Pair(netgen.IATerm(e.Local),
			vgen.Pair(vgen.Pair(vgen.N(uint64(a.AS.MTU)), vgen.N(uint64(h.ExpTime))), vgen.List(ifm))))
		entries = append(entries, vgen.App("BeaconCase.ae", netgen.IATerm(e.Local), hopTerm(h),
			vgen.N(uint64(e.HopEntry.IngressMTU)), vgen.N(uint64(e.MTU)), vgen.List(pes)))
		beta = next
	}
	impl := vgen.App("Segment.mkSeg", vgen.N(uint64(ps.Info.Timestamp.Unix())), vgen.N(uint64(ps.Info.SegmentID)),
		vgen.List(entries))
	term := vgen.App("BeaconCase.XSeg", vgen.App("BeaconCase.CSeg", w.Net.Name, macs.MacsTerm(), vgen.List(ctls),
		vgen.B(it.core), netgen.IATerm(ps.ASEntries[0].Local), vgen.N(uint64(ps.Info.Timestamp.Unix())),
		vgen.N(uint64(ps.Info.SegmentID)), vgen.List(chs), impl))
	kind := "intra"
	if it.core {
		kind = "core"
	}
	run.Tally(fmt.Sprintf("segment:%s:%d-entries", kind, len(ps.ASEntries)))
	if npeers > 0 {
		run.Tally("segment:announces-peering")
	}
	var route []string
	for _, e := range ps.ASEntries {
		route = append(route, fmt.Sprintf("%s(%d,%d;%d peers)", e.Local, e.HopEntry.HopField.ConsIngress,
			e.HopEntry.HopField.ConsEgress, len(e.PeerEntries)))
	}
	run.Add("segment", term, fmt.Sprintf("seg|%s|%x", w.Net.Name, ps.ID()),
		len(ps.ASEntries) >= 3 || npeers > 0,
		map[string]any{"topology": w.Net.Name, "kind": kind, "route": route, "segid": ps.Info.SegmentID, "ts": ts})
}
