// Runner for C02: paths built by the REAL combinator from segments beaconed with
// the REAL extender are walked hop by hop through one REAL dataplane per border
// router and compared with Network.forward at every router and at the end.
package main

import (
	"fmt"

	"verifharness/internal/netgen"
	"verifharness/internal/rtgen"
	"verifharness/internal/vgen"
)

const rule = "topologies of 3-10 ASes (1-3 ISDs; core, parent-child, peering and parallel links; 1-3 border routers per AS " +
	"joined by sibling links, interfaces spread over them), mini beaconing with the real DefaultExtender, every path of the real " +
	"combinator.Combine for random (src,dst) pairs (up to 2 of each kind per pair), end hosts IPv4 / IPv6 / SVC with backend, " +
	"packet serialized with the real slayers and walked through router.VerifProcess (external hop => neighbour's router owning the " +
	"remote interface, sibling hop => sibling router); streams: valid | expired (hop fields whose beacon is older than their " +
	"expiry) | perturbed (one hop field value or the first router changed: must not be delivered). " +
	"non-trivial = the path has >= 2 segments or is a shortcut / peering path. " +
	"Stream segment: up to 4 (thorough 12) segments per topology as registered by the real extender, re-run by the model " +
	"(Beaconing.run over the same topology with the choices read off the run, MACs from a table of reference MACs under the " +
	"routers' keys) and compared entry by entry; oracle beaconed_b on the real segment; non-trivial = >= 3 AS entries or peer entries"

func main() {
	netgen.Main("C02", "Prov.check02", rule, func(x *netgen.Ctx) {
		run := x.Run
		// path cases (Prov.case) and segment cases (BeaconCase.case) share the shards
		run.Imports = append(run.Imports, "Model.Segment", "Model.BeaconCase")
		run.CheckFn, run.DiagFn, run.CaseType = "BeaconCase.check", "BeaconCase.diag", "BeaconCase.xcase"
		nWorlds := run.Count(16, 400)
		perWorld := 16
		if run.Tier == "thorough" {
			perWorld = 40
		}
		x.EachPath(nWorlds, perWorld, func(i int, w *netgen.World, p *netgen.Path, r *vgen.Rand) {
			var perturb func(d *rtgen.Desc) string
			stream := "valid"
			wrongRouter := false
			if i%7 == 6 {
				stream = "perturbed"
				what := r.Intn(5)
				perturb = func(d *rtgen.Desc) string {
					k := r.Intn(len(d.Hops))
					switch what {
					case 0:
						d.Hops[k].ConsIngress ^= 1 << r.Intn(4)
						return fmt.Sprintf("hop %d ConsIngress", k)
					case 1:
						d.Hops[k].ConsEgress ^= 1 << r.Intn(4)
						return fmt.Sprintf("hop %d ConsEgress", k)
					case 2:
						d.Hops[k].ExpTime ^= 1 << r.Intn(8)
						return fmt.Sprintf("hop %d ExpTime", k)
					case 3:
						d.Hops[k].Mac[r.Intn(6)] ^= 1 << r.Intn(8)
						return fmt.Sprintf("hop %d MAC", k)
					}
					wrongRouter = true
					return "first router"
				}
			}
			s, err := w.Send(p, perturb)
			if err != nil {
				run.Violate(-1, "cannot send: "+err.Error(), map[string]any{"topology": w.Net.Describe()})
				return
			}
			if wrongRouter {
				a := w.Net.AS(p.SrcIA)
				if a.NRtr < 2 {
					stream, s.Perturb = "valid", ""
				} else {
					// the host hands the packet to a router that does not own the first egress interface;
					// the model starts where the path says, so this stream only checks "not delivered"
					// through the real routers and is reported as its own kind
					s.Walk = w.Net.Walk(s.Raw, p.SrcIA, (s.StartRt+1)%a.NRtr, nil)
					run.Tally("wrong-first-router:" + s.Walk.Final.Kind + ":" + s.Walk.Final.StopDesc)
					if s.Walk.Delivered() {
						run.Violate(-1, "delivered although handed to a router that does not own the egress interface",
							s.Describe(w))
					}
					return
				}
			}
			_, expired, _ := p.ExpiryMargin(x.Now)
			if expired && stream == "valid" {
				stream = "expired"
			}
			valid := stream == "valid"
			s.Path.HopMacs(w.Net, s.Walk)
			topo, now, prov, pp := netgen.PathTerms(w, s)
			port, ok, _ := s.Desc.L4.DstPort()
			term := vgen.App("BeaconCase.XPath", vgen.App("Prov.CPath", topo, now, s.Walk.MacsTerm(), prov, pp, netgen.RecTerm(s.Rec, port, ok),
				vgen.N(uint64(s.StartRt)), p.MetaTerm(), vgen.B(valid), s.Walk.TraceTerm()))
			w.Tallies(run, p, s.Walk)
			run.Tally("stream:" + stream + ":" + s.Walk.Final.Kind)
			desc := s.Describe(w)
			desc["expect_valid"] = valid
			id := run.Add(stream, term, fmt.Sprintf("%s|%x|%d", topo, s.Raw, s.StartRt),
				len(p.Slices) >= 2 || p.Shortcut || p.Peering, desc)
			if s.Walk.Panic != "" {
				run.Violate(id, "router panicked: "+s.Walk.Panic, desc)
			}
			if valid && !s.Walk.Delivered() {
				run.Violate(id, "a path built from beaconed segments was not delivered: "+s.Walk.Final.Kind+" "+
					s.Walk.Final.StopDesc, desc)
			}
		})
		// segments of the real beaconing re-run by the model (after the path cases: their ids stay)
		segCases(x, nWorlds, run.Count(4, 12))
	})
}
