// Runner for C03: every path of the C02 generator is walked to the destination
// through the real routers, the delivered packet is answered with the REAL path
// reversal (snet.DefaultReplyPather / scion.Raw.Reverse / scion.Decoded.Reverse,
// in rotation), addresses and ports swapped, and the reply is walked back.
// A few requests are additionally sent on the EPIC path type (epic stream): the
// delivered EPIC packet is answered with the real snet.DefaultReplyPather and the
// reply - a plain SCION-type packet, C03_epic - is walked back the same way.
package main

import (
	"fmt"
	"os"

	"verifharness/internal/netgen"
	"verifharness/internal/vgen"
)

const rule = "the path space of C02 (real extender, real combinator, 3-10 ASes, 1-3 routers per AS, sibling and parallel links); " +
	"after delivery the destination host (for an SVC destination: the backend) reverses the path of the DELIVERED packet with the " +
	"real code (DefaultReplyPather / Raw.Reverse / Decoded.Reverse in rotation), swaps addresses and UDP ports and sends the reply " +
	"to the router owning its first interface; compared with Network.mk_reply and Network.forward at every router; " +
	"epic stream: the same with the request sent on the EPIC path type (real libepic HVFs, >= 3 hop fields, no peering) and " +
	"answered with DefaultReplyPather; non-trivial = the path has >= 2 segments or is a shortcut / peering path"

func main() {
	netgen.Main("C03", "Prov.check03", rule, func(x *netgen.Ctx) {
		run := x.Run
		nWorlds := run.Count(14, 300)
		perWorld := 14
		epicPerWorld := 1
		if run.Tier == "thorough" {
			perWorld = 40
			epicPerWorld = 4
		}
		epicIn := map[*netgen.World]int{}
		epicDone := 0
		x.EachPath(nWorlds, perWorld, func(i int, w *netgen.World, p *netgen.Path, r *vgen.Rand) {
			s, err := w.Send(p, nil)
			if err != nil {
				run.Violate(-1, "cannot send: "+err.Error(), map[string]any{"topology": w.Net.Describe()})
				return
			}
			if !s.Walk.Delivered() {
				run.Tally("request-not-delivered:" + s.Walk.Final.StopDesc)
				if _, expired, _ := p.ExpiryMargin(x.Now); !expired {
					run.Violate(-1, "the request along a valid path was not delivered (see C02): "+s.Walk.Final.StopDesc,
						s.Describe(w))
				}
				return
			}
			answer(run, w, p, r, s, i%len(netgen.ReplyHow), "reply")
			// the same request on the EPIC path type
			if p.NumHops() >= 3 && !p.Peering && epicIn[w] < epicPerWorld {
				es, _, err := w.SendEpic(p, uint32(r.U64()))
				if err != nil {
					run.Tally("epic:not-sent:" + err.Error())
					return
				}
				epicIn[w]++
				if !es.Walk.Delivered() {
					// the EPIC request is fresh for about 3.5 s only; a stalled machine can lose it
					run.Tally("epic:request-not-delivered:" + es.Walk.Final.StopDesc)
					return
				}
				run.Tally(fmt.Sprintf("epic:request-delivered:%02d-hops", p.NumHops()))
				epicDone++
				answer(run, w, p, r, es, 0, "epic-reply")
			}
		})
		if epicDone == 0 && run.N == 0 {
			fmt.Fprintln(os.Stderr, "c03: no EPIC request was delivered, the epic stream is empty")
			os.Exit(3)
		}
	})
}

// answer builds the reply to the delivered request s with the real reversal code and walks it back.
func answer(run *vgen.Run, w *netgen.World, p *netgen.Path, r *vgen.Rand, s *netgen.Sent, how int, kind string) {
	payload := r.Bytes(r.Range(0, 12))
	rraw, rport, err := netgen.Reply(s.Walk.Last, p.ReplyFrom, payload, how)
	desc := s.Describe(w)
	desc["reverse_with"] = netgen.ReplyHow[how]
	desc["stream"] = kind
	if err != nil {
		run.Violate(-1, "the delivered packet cannot be answered: "+err.Error(), desc)
		return
	}
	// the records the model works on: for an EPIC packet the embedded SCION path
	rrec, err := netgen.ParseEmbedded(rraw)
	drec, err2 := netgen.ParseEmbedded(s.Walk.Last)
	if err != nil || err2 != nil {
		run.Violate(-1, "reply or delivered packet does not parse", desc)
		return
	}
	if len(rraw) > 8 && rraw[8] != 1 {
		run.Tally(fmt.Sprintf("%s:reply-path-type-%d", kind, rraw[8]))
	}
	// the reply starts at the router of the destination AS that owns its first interface
	inf, h := rrec.Infos[rrec.CurrINF], rrec.Hops[rrec.CurrHF]
	eg := h.ConsIngress
	if inf.ConsDir {
		eg = h.ConsEgress
	}
	a := w.Net.AS(p.DstIA)
	f := a.If(eg)
	if f == nil {
		run.Violate(-1, fmt.Sprintf("first interface %d of the reply is not an interface of %s", eg, p.DstIA), desc)
		return
	}
	back := w.Net.Walk(rraw, p.DstIA, f.Owner, nil)
	p.HopMacs(w.Net, back)
	topo, _, prov, pp := netgen.PathTerms(w, s)
	port, ok, _ := s.Desc.L4.DstPort()
	term := vgen.App("Prov.CReply", topo, vgen.N(uint64(back.NowNs)), back.MacsTerm(), prov, pp,
		netgen.RecTerm(drec, port, ok),
		vgen.N(uint64(p.ReplyFrom.Type)), vgen.Bytes(p.ReplyFrom.Raw), vgen.N(uint64(rrec.PayLen)),
		vgen.Opt(vgen.N(uint64(rport)), true), netgen.RecTerm(rrec, rport, true), "true", back.TraceTerm())
	w.Tallies(run, p, back)
	run.Tally("reverse:" + netgen.ReplyHow[how])
	desc["reply_raw"] = fmt.Sprintf("%x", rraw)
	desc["reply_walk"] = back.Describe()
	desc["reply_crossed"] = back.Crossed()
	id := run.Add(kind, term, fmt.Sprintf("%s|%x", topo, rraw), len(p.Slices) >= 2 || p.Shortcut || p.Peering, desc)
	if back.Panic != "" {
		run.Violate(id, "router panicked: "+back.Panic, desc)
	}
	if !back.Delivered() {
		run.Violate(id, "the reply to a delivered packet was not delivered: "+back.Final.Kind+" "+
			back.Final.StopDesc, desc)
	}
}
