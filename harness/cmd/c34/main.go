package main

import (
	"crypto/x509"
	"fmt"
	"time"

	"github.com/scionproto/scion/pkg/scrypto/cppki"
	"verifharness/internal/pkigen"
)

func main() {
	g := pkigen.NewGen()
	t0 := time.Unix(1900000000, 0).UTC()
	d := 24 * time.Hour
	kr, kc, ka, kc2 := g.NewKey(), g.NewKey(), g.NewKey(), g.NewKey()
	ks, kg := g.NewKey(), g.NewKey()
	root := g.MustIssue(g.Tmpl(pkigen.Root, "1-ff00:0:110", "root", t0.Add(-3*d), t0.Add(3*d)), kr, nil, nil)
	sens := g.MustIssue(g.Tmpl(pkigen.Sensitive, "1-ff00:0:110", "sens", t0.Add(-3*d), t0.Add(3*d)), ks, nil, nil)
	reg := g.MustIssue(g.Tmpl(pkigen.Regular, "1-ff00:0:110", "reg", t0.Add(-3*d), t0.Add(3*d)), kg, nil, nil)
	ca := g.MustIssue(g.Tmpl(pkigen.CA, "1-ff00:0:110", "ca", t0.Add(-2*d), t0.Add(2*d)), kc, root, nil)
	as := g.MustIssue(g.Tmpl(pkigen.AS, "1-ff00:0:111", "as", t0.Add(-1*d), t0.Add(1*d)), ka, ca, nil)
	// AS certificate issued directly by the root; unrelated CA (self-made root2)
	kr2 := g.NewKey()
	root2 := g.MustIssue(g.Tmpl(pkigen.Root, "1-ff00:0:112", "root2", t0.Add(-3*d), t0.Add(3*d)), kr2, nil, nil)
	ca2 := g.MustIssue(g.Tmpl(pkigen.CA, "1-ff00:0:112", "ca2", t0.Add(-2*d), t0.Add(2*d)), kc2, root2, nil)
	asd := g.MustIssue(g.Tmpl(pkigen.AS, "1-ff00:0:111", "asd", t0.Add(-1*d), t0.Add(1*d)), ka, root, nil)
	trc, err := pkigen.MakeTRC(pkigen.TRCSpec{ISD: 1, Base: 1, Serial: 1, NB: t0.Add(-2 * d), NA: t0.Add(2 * d),
		Certs: []*pkigen.Cert{sens, reg, root}, Signers: []*pkigen.Cert{sens, reg}})
	fmt.Println("trc err", err)
	fmt.Println("verify base", trc.Verify(nil))
	v := func(name string, ch []*x509.Certificate) {
		err := cppki.VerifyChain(ch, cppki.VerifyOptions{TRC: []*cppki.TRC{&trc.TRC}, CurrentTime: t0})
		fmt.Println(name, err == nil, err)
	}
	v("good", []*x509.Certificate{as.X, ca.X})
	v("direct-root+unrelated-ca", []*x509.Certificate{asd.X, ca2.X})
	v("direct-root+ca", []*x509.Certificate{asd.X, ca.X})
	v("as+foreign ca", []*x509.Certificate{as.X, ca2.X})
	a := pkigen.NewAbs(g, t0)
	fmt.Println(a.Cert(as.X))
	fmt.Println(a.TRC(&trc.TRC, 0, 0))
	ct, err := cppki.ValidateCert(pkigen.Corrupt(as).X)
	fmt.Println(ct, err, a.Cert(pkigen.Corrupt(as).X))
}
