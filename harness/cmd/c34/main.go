// Runner for C34: certificate classification / chain validation / chain
// verification (pkg/scrypto/cppki) with explicit verification times, and
// FetchingProvider.GetChains over the real sqlite trust DB with a scripted
// fetcher. Real keys, certificates and TRCs are made in-process (pkigen); the
// abstract descriptions handed to the model are read back from the parsed
// objects.
package main

import (
	"context"
	"crypto/x509"
	"encoding/asn1"
	"encoding/pem"
	"errors"
	"fmt"
	"net"
	"os"
	"path/filepath"
	"sort"
	"strings"
	"time"

	"github.com/scionproto/scion/pkg/addr"
	"github.com/scionproto/scion/pkg/scrypto"
	"github.com/scionproto/scion/pkg/scrypto/cppki"
	"github.com/scionproto/scion/private/storage/db"
	"github.com/scionproto/scion/private/storage/trust/sqlite"
	"github.com/scionproto/scion/private/trust"
	"verifharness/internal/pkigen"
	"verifharness/internal/vgen"
)

const (
	iaCore = "1-ff00:0:110"
	iaAS   = "1-ff00:0:111"
	iaAS2  = "1-ff00:0:112"
	iaISD2 = "2-ff00:0:211"
)

// ------------------------------------------------------------------ scenario

// knobs describe one chain scenario; the zero value is the correct chain.
type knobs struct {
	unit                                       time.Duration
	asNB, asNA, caNB, caNA, rootNB, rootNA     int // offsets in units from the origin
	asMut, caMut, rootMut                      int
	asIssuer                                   int // 0 CA, 1 other CA (other name), 2 other CA (same name), 3 root, 4 foreign root
	caIssuer                                   int // 0 root, 1 foreign root, 2 second root of the TRC, 3 self
	corruptAS, corruptCA                       bool
	edCA                                       bool
	asIA                                       string
}

func defaultKnobs(unit time.Duration) knobs {
	return knobs{unit: unit, asNB: -2, asNA: 2, caNB: -3, caNA: 3, rootNB: -5, rootNA: 5, asIA: iaAS}
}

type scen struct {
	g                         *pkigen.Gen
	sens, reg                 *pkigen.Cert
	root, root2, foreign      *pkigen.Cert
	ca, ca2, as               *pkigen.Cert
}

const nASMut, nCAMut, nRootMut = 14, 9, 6

func mutAS(t *x509.Certificate, m int) (noSKID bool) {
	switch m {
	case 1:
		t.KeyUsage |= x509.KeyUsageCertSign
	case 2:
		t.KeyUsage = x509.KeyUsageKeyEncipherment
	case 3:
		t.ExtKeyUsage = []x509.ExtKeyUsage{x509.ExtKeyUsageServerAuth, x509.ExtKeyUsageClientAuth}
	case 4:
		t.ExtKeyUsage = []x509.ExtKeyUsage{x509.ExtKeyUsageTimeStamping}
	case 5:
		t.ExtKeyUsage = append(t.ExtKeyUsage, x509.ExtKeyUsageAny)
	case 6:
		t.BasicConstraintsValid, t.IsCA = true, true
	case 7:
		t.Subject = pkigen.Name("as", "")
	case 8:
		t.Subject = pkigen.Name("as", "1-0")
	case 9:
		t.Subject = pkigen.Name("as", "1-ff00:0:0111")
	case 10:
		return true
	case 11:
		t.UnknownExtKeyUsage = []asn1.ObjectIdentifier{cppki.OIDExtKeyUsageRoot}
	case 12:
		t.BasicConstraintsValid, t.IsCA = true, false
	case 13:
		t.UnknownExtKeyUsage = []asn1.ObjectIdentifier{{1, 2, 3, 4}}
	}
	return false
}

func mutCA(t *x509.Certificate, m int) {
	switch m {
	case 1:
		t.KeyUsage |= x509.KeyUsageDigitalSignature
	case 2:
		t.MaxPathLen, t.MaxPathLenZero = 1, false
	case 3:
		t.MaxPathLen, t.MaxPathLenZero = -1, false
	case 4:
		t.ExtKeyUsage = []x509.ExtKeyUsage{x509.ExtKeyUsageClientAuth, x509.ExtKeyUsageTimeStamping}
	case 5:
		t.ExtKeyUsage = []x509.ExtKeyUsage{x509.ExtKeyUsageOCSPSigning}
	case 6:
		t.ExtKeyUsage = []x509.ExtKeyUsage{x509.ExtKeyUsageTimeStamping}
	case 7:
		t.Subject = pkigen.Name("ca", "")
	case 8:
		t.ExtKeyUsage = []x509.ExtKeyUsage{x509.ExtKeyUsageServerAuth, x509.ExtKeyUsageTimeStamping}
	}
}

func mutRoot(t *x509.Certificate, m int) {
	switch m {
	case 1:
		t.ExtKeyUsage = nil
	case 2:
		t.MaxPathLen, t.MaxPathLenZero = 0, true
	case 3:
		t.MaxPathLen = 2
	case 4:
		t.KeyUsage |= x509.KeyUsageDigitalSignature
	case 5:
		t.ExtKeyUsage = []x509.ExtKeyUsage{x509.ExtKeyUsageServerAuth}
	}
}

func (k knobs) at(origin time.Time, off int) time.Time {
	return origin.Add(time.Duration(off) * k.unit)
}

// build creates the certificates of a scenario. It returns nil if the x509
// library refuses to create one of them (the case is then skipped).
func build(g *pkigen.Gen, k knobs, origin time.Time) *scen {
	s := &scen{g: g}
	wideNB, wideNA := origin.Add(-400*24*time.Hour), origin.Add(400*24*time.Hour)
	s.sens = g.MustIssue(g.Tmpl(pkigen.Sensitive, iaCore, "sens", wideNB, wideNA), g.NewKey(), nil, nil)
	s.reg = g.MustIssue(g.Tmpl(pkigen.Regular, iaCore, "reg", wideNB, wideNA), g.NewKey(), nil, nil)
	rt := g.Tmpl(pkigen.Root, iaCore, "root", k.at(origin, k.rootNB), k.at(origin, k.rootNA))
	mutRoot(rt, k.rootMut)
	var err error
	if s.root, err = g.Issue(rt, g.NewKey(), nil, nil, false); err != nil {
		return nil
	}
	s.root2 = g.MustIssue(g.Tmpl(pkigen.Root, iaCore, "root2", wideNB, wideNA), g.NewKey(), nil, nil)
	s.foreign = g.MustIssue(g.Tmpl(pkigen.Root, iaCore, "foreign", wideNB, wideNA), g.NewKey(), nil, nil)

	caKey := g.NewKey()
	if k.edCA {
		caKey = g.NewEdKey()
	}
	ct := g.Tmpl(pkigen.CA, iaCore, "ca", k.at(origin, k.caNB), k.at(origin, k.caNA))
	mutCA(ct, k.caMut)
	var caParent *pkigen.Cert
	switch k.caIssuer {
	case 0:
		caParent = s.root
	case 1:
		caParent = s.foreign
	case 2:
		caParent = s.root2
	}
	if s.ca, err = g.Issue(ct, caKey, caParent, nil, false); err != nil {
		return nil
	}
	name2 := "ca2"
	if k.asIssuer == 2 {
		name2 = "ca"
	}
	c2 := g.Tmpl(pkigen.CA, iaCore, name2, k.at(origin, k.caNB), k.at(origin, k.caNA))
	mutCA(c2, k.caMut)
	if s.ca2, err = g.Issue(c2, g.NewKey(), s.root, nil, false); err != nil {
		return nil
	}
	at := g.Tmpl(pkigen.AS, k.asIA, "as", k.at(origin, k.asNB), k.at(origin, k.asNA))
	noSKID := mutAS(at, k.asMut)
	var asParent *pkigen.Cert
	switch k.asIssuer {
	case 0:
		asParent = s.ca
	case 1, 2:
		asParent = s.ca2
	case 3:
		asParent = s.root
	case 4:
		asParent = s.foreign
	}
	if s.as, err = g.Issue(at, g.NewKey(), asParent, nil, noSKID); err != nil {
		return nil
	}
	if k.corruptAS {
		s.as = pkigen.Corrupt(s.as)
	}
	if k.corruptCA && !k.edCA {
		s.ca = pkigen.Corrupt(s.ca)
	}
	return s
}

// mutate applies n random irregularities to k.
func mutate(r *vgen.Rand, k *knobs, n int) []string {
	var what []string
	for i := 0; i < n; i++ {
		switch r.Intn(12) {
		case 0:
			k.asMut = r.Range(1, nASMut-1)
			what = append(what, fmt.Sprintf("asMut%d", k.asMut))
		case 1:
			k.caMut = r.Range(1, nCAMut-1)
			what = append(what, fmt.Sprintf("caMut%d", k.caMut))
		case 2:
			k.rootMut = r.Range(1, nRootMut-1)
			what = append(what, fmt.Sprintf("rootMut%d", k.rootMut))
		case 3:
			k.asIssuer = r.Range(1, 4)
			what = append(what, fmt.Sprintf("asIssuer%d", k.asIssuer))
		case 4:
			k.caIssuer = r.Range(1, 3)
			what = append(what, fmt.Sprintf("caIssuer%d", k.caIssuer))
		case 5:
			k.corruptAS = true
			what = append(what, "corruptAS")
		case 6:
			k.corruptCA = true
			what = append(what, "corruptCA")
		case 7:
			k.edCA = true
			what = append(what, "edCA")
		case 8: // AS window sticks out of the CA window
			if r.Bool() {
				k.asNB = k.caNB - 1
			} else {
				k.asNA = k.caNA + 1
			}
			what = append(what, "asNotCovered")
		case 9: // CA window sticks out of the root window (allowed by scion)
			if r.Bool() {
				k.caNB = k.rootNB - 1
			} else {
				k.caNA = k.rootNA + 1
			}
			what = append(what, "caBeyondRoot")
		case 10: // equal windows
			k.asNB, k.asNA = k.caNB, k.caNA
			what = append(what, "asEqualsCA")
		case 11:
			k.rootNB, k.rootNA = -1, 1
			what = append(what, "shortRoot")
		}
	}
	return what
}

// ------------------------------------------------------------------ printing

func optTRC(a *pkigen.Abs, t *cppki.TRC) string {
	if t == nil || t.IsZero() {
		return "None"
	}
	return "(Some " + a.TRC(t, 0, 0) + ")"
}

func chainTerm(a *pkigen.Abs, ch []*x509.Certificate) string { return a.Certs(ch) }

func idList(a *pkigen.Abs, ch []*x509.Certificate) []uint64 {
	out := make([]uint64, len(ch))
	for i, c := range ch {
		out[i] = a.CertID(c)
	}
	return out
}

func sortedChains(a *pkigen.Abs, chs [][]*x509.Certificate) string {
	var l []string
	for _, ch := range chs {
		l = append(l, vgen.NList(idList(a, ch)))
	}
	sort.Strings(l)
	return vgen.List(l)
}

func classCode(c *x509.Certificate) uint64 {
	ct, err := cppki.ValidateCert(c)
	if err != nil {
		return 0
	}
	switch ct {
	case cppki.Sensitive:
		return 1
	case cppki.Regular:
		return 2
	case cppki.Root:
		return 3
	case cppki.CA:
		return 4
	case cppki.AS:
		return 5
	}
	return 0
}

// ------------------------------------------------------------------ provider fakes

type recurser struct{ ok bool }

func (r recurser) AllowRecursion(net.Addr) error {
	if r.ok {
		return nil
	}
	return errors.New("recursion not allowed")
}

type router struct{}

func (router) ChooseServer(context.Context, addr.ISD) (net.Addr, error) {
	return &net.UDPAddr{IP: net.IPv4(127, 0, 0, 1), Port: 30252}, nil
}

type fetcher struct {
	chains [][]*x509.Certificate
	fail   bool
	calls  int
}

func (f *fetcher) Chains(context.Context, trust.ChainQuery, net.Addr) ([][]*x509.Certificate, error) {
	f.calls++
	if f.fail {
		return nil, errors.New("fetch failed")
	}
	return f.chains, nil
}

func (f *fetcher) TRC(context.Context, cppki.TRCID, net.Addr) (cppki.SignedTRC, error) {
	return cppki.SignedTRC{}, errors.New("not scripted")
}

var dbSeq int

func newDB() sqlite.DB {
	dbSeq++
	d, err := sqlite.New(fmt.Sprintf("verif_c34_%d_%d", time.Now().UnixNano(), dbSeq),
		&db.SqliteConfig{InMemory: true})
	if err != nil {
		panic(err)
	}
	return d
}

// ------------------------------------------------------------------ main

func main() {
	run := vgen.Flags("C34")
	run.Imports = []string{"Model.PKIChain"}
	run.CheckFn = "PKIChain.check"
	run.DiagFn = "PKIChain.diag"
	run.CaseType = "PKIChain.case"
	run.ShardSize = 150
	run.Rule = "cert/chain/verify: a correct root/CA/AS scenario (fresh real keys and certificates per case) with 0-3 " +
		"irregularities (template mutations of AS/CA/root, other issuer, foreign root, AS issued by a root, corrupted " +
		"signatures, ed25519 CA, windows not covering, TRC shapes nil/zero/no root/CA inside/two TRCs, chain shapes), verified " +
		"at explicit times on and around every validity boundary; time: Contains/InGracePeriod on boundaries; provider: " +
		"FetchingProvider.GetChains over the sqlite trust DB (1-3 TRCs with root rotation and grace periods, several " +
		"chains, scripted fetcher/recurser, AllowInactive); loadchains: trust.LoadChains on a temp dir (valid / expired / future / mis-issued / swapped / single / duplicate / other-ISD chains, garbage and empty files) over 1-3 TRCs in all latest-TRC states; non-trivial = verify cases that pass ValidateChain, provider " +
		"cases that reach activeTRCs"
	rng := vgen.NewRand(run.Seed)
	t0 := time.Unix(1900000000, 0).UTC()

	// 1. verify / validate cases with explicit time
	var sweep []func(*knobs) string
	for m := 1; m < nASMut; m++ {
		sweep = append(sweep, func(k *knobs) string { k.asMut = m; return fmt.Sprintf("asMut%d", m) })
	}
	for m := 1; m < nCAMut; m++ {
		sweep = append(sweep, func(k *knobs) string { k.caMut = m; return fmt.Sprintf("caMut%d", m) })
	}
	for m := 1; m < nRootMut; m++ {
		sweep = append(sweep, func(k *knobs) string { k.rootMut = m; return fmt.Sprintf("rootMut%d", m) })
	}
	for m := 1; m <= 4; m++ {
		sweep = append(sweep, func(k *knobs) string { k.asIssuer = m; return fmt.Sprintf("asIssuer%d", m) })
	}
	for m := 1; m <= 3; m++ {
		sweep = append(sweep, func(k *knobs) string { k.caIssuer = m; return fmt.Sprintf("caIssuer%d", m) })
	}
	sweep = append(sweep,
		func(k *knobs) string { k.corruptAS = true; return "corruptAS" },
		func(k *knobs) string { k.corruptCA = true; return "corruptCA" },
		func(k *knobs) string { k.edCA = true; return "edCA" },
		func(k *knobs) string { k.asNB = k.caNB - 1; return "asNotCovered" },
		func(k *knobs) string { k.asNA = k.caNA + 1; return "asNotCovered" },
		func(k *knobs) string { k.caNA = k.rootNA + 1; return "caBeyondRoot" },
		func(k *knobs) string { k.asNB, k.asNA = k.caNB, k.caNA; return "asEqualsCA" },
		func(k *knobs) string { k.asIssuer, k.caIssuer = 3, 1; return "asIssuer3+caIssuer1" },
		func(k *knobs) string { k.asIssuer, k.caMut = 3, 5; return "asIssuer3+caMut5" },
	)
	nv := run.Count(260, 6000)
	for i := 0; i < nv; i++ {
		r := rng.Fork(uint64(i))
		k := defaultKnobs(1000 * time.Second)
		nm := 0
		switch {
		case i%4 == 0:
			nm = 0
		case i%4 == 3:
			nm = r.Range(2, 3)
		default:
			nm = 1
		}
		what := mutate(r, &k, nm)
		trcShape := 0
		if r.Chance(1, 5) {
			trcShape = r.Range(1, 7)
		}
		chainShape := 0
		if r.Chance(1, 10) {
			chainShape = r.Range(1, 6)
		}
		timeSel := r.Intn(80)
		timeDelta := r.Intn(3) - 1
		if i < len(sweep) {
			// single-fault sweep: every irregularity once, everything else correct, centre time
			k = defaultKnobs(1000 * time.Second)
			what = []string{sweep[i](&k)}
			trcShape, chainShape, timeSel = i%2, 0, 99
		}
		want := run.Want()
		g := pkigen.NewGen()
		s := build(g, k, t0)
		if s == nil {
			run.Tally("verify:unbuildable")
			// keep ids stable: three ids are consumed per scenario
			run.Skip()
			run.Skip()
			run.Skip()
			continue
		}
		a := pkigen.NewAbs(g, t0)
		// the TRC(s)
		mk := func(certs ...*pkigen.Cert) *cppki.TRC {
			t := &cppki.TRC{Version: 1, ID: cppki.TRCID{ISD: 1, Base: 1, Serial: 1},
				Validity: cppki.Validity{NotBefore: t0.Add(-5000 * time.Second), NotAfter: t0.Add(5000 * time.Second)},
				Quorum:   1}
			for _, c := range certs {
				t.Certificates = append(t.Certificates, c.X)
			}
			return t
		}
		var trcs []*cppki.TRC
		switch trcShape {
		case 0:
			trcs = []*cppki.TRC{mk(s.sens, s.reg, s.root)}
		case 1:
			trcs = []*cppki.TRC{mk(s.sens, s.root2, s.reg, s.root)}
		case 2:
			// (a nil *TRC is not generated: verifyChain tolerates it but VerifyChain's error
			// wrapping dereferences it and panics - outside C34, see notes/C34.md)
			trcs = []*cppki.TRC{{}, mk(s.sens, s.reg, s.root)}
		case 3:
			trcs = []*cppki.TRC{{}}
		case 4:
			trcs = []*cppki.TRC{mk(s.sens, s.reg)}
		case 5:
			trcs = []*cppki.TRC{mk(s.sens, s.reg, s.root, s.ca2)}
		case 6:
			trcs = []*cppki.TRC{mk(s.sens, s.reg, s.foreign), mk(s.sens, s.reg, s.root)}
		case 7:
			trcs = []*cppki.TRC{mk(s.sens, s.reg, s.foreign)}
		}
		var ch []*x509.Certificate
		switch chainShape {
		case 0:
			ch = []*x509.Certificate{s.as.X, s.ca.X}
		case 1:
			ch = nil
		case 2:
			ch = []*x509.Certificate{s.as.X}
		case 3:
			ch = []*x509.Certificate{s.ca.X, s.as.X}
		case 4:
			ch = []*x509.Certificate{s.as.X, s.ca.X, s.root.X}
		case 5:
			ch = []*x509.Certificate{s.as.X, s.as.X}
		case 6:
			ch = []*x509.Certificate{s.ca.X, s.ca.X}
		}
		// verification time: a boundary of one of the certificates (+-1 s) or the centre
		bounds := []time.Time{t0, s.as.X.NotBefore, s.as.X.NotAfter, s.ca.X.NotBefore, s.ca.X.NotAfter,
			s.root.X.NotBefore, s.root.X.NotAfter, t0}
		now := t0
		if timeSel < 40 {
			now = bounds[timeSel%len(bounds)].Add(time.Duration(timeDelta) * time.Second)
		}
		desc := map[string]any{"mut": what, "trcShape": trcShape, "chainShape": chainShape,
			"now": now.Unix() - t0.Unix()}
		for _, w := range what {
			run.Tally("mut:" + strings.TrimRight(w, "0123456789"))
		}
		if !want {
			run.Skip()
			run.Skip()
			run.Skip()
			continue
		}
		// (a) ValidateCert on one certificate of the scenario
		var one *x509.Certificate
		switch r.Intn(5) {
		case 0:
			one = s.root.X
		case 1:
			one = s.ca.X
		case 2:
			one = s.sens.X
		default:
			one = s.as.X
		}
		cc := classCode(one)
		run.Tally(fmt.Sprintf("class:%d", cc))
		run.Add("cert", vgen.App("PKIChain.CCert", a.Cert(one), vgen.N(cc)),
			a.Cert(one), true, desc)
		// (b) ValidateChain
		vc := cppki.ValidateChain(ch) == nil
		run.Tally(fmt.Sprintf("validate:%v", vc))
		run.Add("chain", vgen.App("PKIChain.CChain", chainTerm(a, ch), vgen.B(vc)),
			chainTerm(a, ch), true, desc)
		// (c) VerifyChain at the explicit time
		var verr error
		if p, msg := vgen.Recover(func() {
			verr = cppki.VerifyChain(ch, cppki.VerifyOptions{TRC: trcs, CurrentTime: now})
		}); p {
			run.Violate(run.Add("verify", "(PKIChain.CVerify [] [] 0%Z false)", "panic", true, desc), "panic: "+msg, desc)
			continue
		}
		ok := verr == nil
		run.Tally(fmt.Sprintf("verify:%v", ok))
		var tt []string
		for _, t := range trcs {
			tt = append(tt, optTRC(a, t))
		}
		term := vgen.App("PKIChain.CVerify", chainTerm(a, ch), vgen.List(tt),
			fmt.Sprintf("(%d)%%Z", a.T(now)), vgen.B(ok))
		var tags []string
		if k.asIssuer == 3 {
			tags = append(tags, "as-issued-by-root")
		}
		run.Add("verify", term, term, vc, desc, tags...)
	}

	// 2. Contains / InGracePeriod on boundaries
	nt := run.Count(60, 1500)
	for i := 0; i < nt; i++ {
		r := rng.Fork(uint64(500000 + i))
		base := uint64(r.Range(1, 2))
		serial := base + uint64(r.Intn(3))
		nb := t0.Add(time.Duration(r.Range(-5, 5)) * 100 * time.Second)
		na := nb.Add(time.Duration(r.Range(1, 20)) * 100 * time.Second)
		grace := time.Duration(r.Range(0, 25)) * 100 * time.Second
		t := &cppki.TRC{Version: 1, ID: cppki.TRCID{ISD: 1, Base: 1, Serial: 1},
			Validity: cppki.Validity{NotBefore: nb, NotAfter: na}, GracePeriod: grace}
		t.ID.Base, t.ID.Serial = scryptoV(base), scryptoV(serial)
		cands := []time.Time{nb, na, nb.Add(grace), t0}
		now := cands[r.Intn(len(cands))].Add(time.Duration(r.Intn(3)-1) * time.Second)
		if !run.Want() {
			run.Skip()
			continue
		}
		a := pkigen.NewAbs(pkigen.NewGen(), t0)
		ic, ig := t.Validity.Contains(now), t.InGracePeriod(now)
		run.Tally(fmt.Sprintf("time:contains=%v,grace=%v", ic, ig))
		term := vgen.App("PKIChain.CTime", a.TRC(t, 0, 0), fmt.Sprintf("(%d)%%Z", a.T(now)), vgen.B(ic), vgen.B(ig))
		run.Add("time", term, term, true, map[string]any{"base": base, "serial": serial, "now": a.T(now)})
	}

	// 3. FetchingProvider.GetChains (wall clock; margins of at least one hour)
	np := run.Count(120, 3000)
	for i := 0; i < np; i++ {
		providerCase(run, rng.Fork(uint64(900000+i)))
	}
	// 4. trust.LoadChains on a temporary directory (wall clock; margins of at least two hours)
	nlc := run.Count(60, 1500)
	for i := 0; i < nlc; i++ {
		loadChainsCase(run, rng.Fork(uint64(1300000+i)))
	}
	run.Finish()
}

func pemChain(certs ...*x509.Certificate) []byte {
	var out []byte
	for _, c := range certs {
		out = append(out, pem.EncodeToMemory(&pem.Block{Type: "CERTIFICATE", Bytes: c.Raw})...)
	}
	return out
}

func loadChainsCase(run *vgen.Run, r *vgen.Rand) {
	nTRC := r.Range(1, 3)
	rotateAt := r.Range(2, 4)
	if nTRC >= 2 && r.Bool() {
		rotateAt = nTRC
	}
	latestState := []int{0, 1, 2, 3, 4, 5, 6}[r.Intn(7)] // 5 expired, 6 future
	graceState := r.Intn(4)
	dropPred := r.Chance(1, 8)
	type fspec struct {
		kind    int // 0 chain, 1 garbage, 2 CA first, 3 one certificate, 4 already in the DB, 5 ISD without TRC, 6 empty file
		rootIdx int
		state   int // 0 valid now, 1 expired, 2 future
		mut     int
	}
	nf := r.Range(1, 6)
	files := make([]fspec, nf)
	for j := range files {
		f := fspec{kind: []int{0, 0, 0, 0, 0, 1, 2, 3, 4, 5, 6}[r.Intn(11)], rootIdx: r.Intn(2)}
		switch r.Intn(6) {
		case 0:
			f.rootIdx = 2
		case 1, 2, 3:
			if nTRC >= rotateAt { // the root of the latest TRC
				f.rootIdx = 1
			} else {
				f.rootIdx = 0
			}
		}
		if r.Chance(1, 5) {
			f.state = r.Range(1, 2)
		}
		if r.Chance(1, 8) {
			f.mut = r.Range(1, 3)
		}
		files[j] = f
	}
	if !run.Want() {
		run.Skip()
		return
	}
	g := pkigen.NewGen()
	origin := time.Now().UTC().Truncate(time.Second)
	a := pkigen.NewAbs(g, origin)
	h := func(n int) time.Time { return origin.Add(time.Duration(n) * time.Hour) }
	wNB, wNA := h(-24*400), h(24*400)
	sens := g.MustIssue(g.Tmpl(pkigen.Sensitive, iaCore, "sens", wNB, wNA), g.NewKey(), nil, nil)
	reg := g.MustIssue(g.Tmpl(pkigen.Regular, iaCore, "reg", wNB, wNA), g.NewKey(), nil, nil)
	roots := make([]*pkigen.Cert, 3)
	cas := make([]*pkigen.Cert, 3)
	for j := range roots {
		roots[j] = g.MustIssue(g.Tmpl(pkigen.Root, iaCore, fmt.Sprintf("root%d", j), wNB, wNA), g.NewKey(), nil, nil)
		cas[j] = g.MustIssue(g.Tmpl(pkigen.CA, iaCore, fmt.Sprintf("ca%d", j), h(-24*300), h(24*300)),
			g.NewKey(), roots[j], nil)
	}
	store := newDB()
	defer store.Close()
	ctx := context.Background()
	var trcTerms []string
	for sidx := 1; sidx <= nTRC; sidx++ {
		latest := sidx == nTRC
		nb, na := h(-24*(30-sidx)), h(24*30)
		grace := time.Duration(0)
		if latest {
			switch {
			case latestState == 5:
				nb, na = h(-24*20), h(vgen.Pick(r, past...))
			case latestState == 6:
				nb, na = h(vgen.Pick(r, future...)), h(24*30)
			default:
				switch graceState {
				case 0:
					nb, grace = h(-3), 6*time.Hour
				case 1:
					nb, grace = h(-24), 48*time.Hour
				case 2:
					nb, grace = h(-24), 3*time.Hour
				}
			}
		}
		root := roots[0]
		if sidx >= rotateAt {
			root = roots[1]
		}
		spec := pkigen.TRCSpec{ISD: 1, Base: 1, Serial: uint64(sidx), NB: nb, NA: na,
			Certs: []*pkigen.Cert{sens, reg, root}, Signers: []*pkigen.Cert{sens, reg}}
		if sidx > 1 {
			spec.Grace = grace
			spec.Votes = []int{0}
		}
		t, err := pkigen.MakeTRC(spec)
		if err != nil {
			panic(err)
		}
		if dropPred && sidx == nTRC-1 {
			continue
		}
		if _, err := store.InsertTRC(ctx, t); err != nil {
			panic(err)
		}
		trcTerms = append(trcTerms, a.TRC(&t.TRC, 0, 0))
	}
	mk := func(f fspec, ia string) []*x509.Certificate {
		nb, na := h(-24*10), h(24*10)
		switch f.state {
		case 1:
			nb, na = h(-24*10), h(vgen.Pick(r, past...))
		case 2:
			nb, na = h(vgen.Pick(r, future...)), h(24*10)
		}
		t := g.Tmpl(pkigen.AS, ia, "as", nb, na)
		switch f.mut {
		case 1:
			t.ExtKeyUsage = []x509.ExtKeyUsage{x509.ExtKeyUsageServerAuth}
		case 2:
			t.BasicConstraintsValid, t.IsCA = true, true
		}
		c, err := g.Issue(t, g.NewKey(), cas[f.rootIdx], nil, false)
		if err != nil {
			panic(err)
		}
		if f.mut == 3 {
			c = pkigen.Corrupt(c)
		}
		return []*x509.Certificate{c.X, cas[f.rootIdx].X}
	}
	dir, err := os.MkdirTemp("", "verif-c34-")
	if err != nil {
		panic(err)
	}
	defer os.RemoveAll(dir)
	var dbTerms, fTerms []string
	names := map[string]int{}
	for j, f := range files {
		name := filepath.Join(dir, fmt.Sprintf("f%02d.pem", j))
		names[name] = j
		var raw []byte
		term := "PKIChain.CFBad"
		switch f.kind {
		case 0:
			ch := mk(f, iaAS)
			raw, term = pemChain(ch...), "(PKIChain.CFChain "+chainTerm(a, ch)+")"
		case 1:
			raw = []byte("-----BEGIN CERTIFICATE-----\nbm90IGEgY2VydA==\n-----END CERTIFICATE-----\n")
		case 2:
			ch := mk(f, iaAS)
			sw := []*x509.Certificate{ch[1], ch[0]}
			raw, term = pemChain(sw...), "(PKIChain.CFChain "+chainTerm(a, sw)+")"
		case 3:
			ch := mk(f, iaAS)[:1]
			raw, term = pemChain(ch...), "(PKIChain.CFChain "+chainTerm(a, ch)+")"
		case 4:
			ch := mk(fspec{rootIdx: f.rootIdx}, iaAS)
			if ins, err := store.InsertChain(ctx, ch); err == nil && ins {
				dbTerms = append(dbTerms, chainTerm(a, ch))
			}
			raw, term = pemChain(ch...), "(PKIChain.CFChain "+chainTerm(a, ch)+")"
		case 5:
			ch := mk(f, "3-ff00:0:311")
			raw, term = pemChain(ch...), "(PKIChain.CFChain "+chainTerm(a, ch)+")"
		case 6:
			raw = []byte("  \n")
		}
		if err := os.WriteFile(name, raw, 0o644); err != nil {
			panic(err)
		}
		fTerms = append(fTerms, fmt.Sprintf("(%d, %s)", j, term))
		run.Tally(fmt.Sprintf("loadchains:file%d", f.kind))
	}
	before := time.Now()
	var res trust.LoadResult
	var lerr error
	if pn, msg := vgen.Recover(func() { res, lerr = trust.LoadChains(ctx, dir, store) }); pn {
		run.Violate(run.Add("loadchains", "(PKIChain.CChain [] false)", "panic", true, msg), "panic: "+msg, nil)
		return
	}
	var loaded, ignored []uint64
	for _, n := range res.Loaded {
		loaded = append(loaded, uint64(names[n]))
	}
	for n := range res.Ignored {
		ignored = append(ignored, uint64(names[n]))
	}
	sort.Slice(loaded, func(i, j int) bool { return loaded[i] < loaded[j] })
	sort.Slice(ignored, func(i, j int) bool { return ignored[i] < ignored[j] })
	after, err := store.Chains(ctx, trust.ChainQuery{})
	if err != nil {
		panic(err)
	}
	term := vgen.App("PKIChain.CLoadChains", fmt.Sprintf("(%d)%%Z", a.T(before)),
		fmt.Sprintf("(PKIChain.mkdb %s %s)", vgen.List(trcTerms), vgen.List(dbTerms)), vgen.List(fTerms),
		vgen.B(lerr != nil), vgen.NList(loaded), vgen.NList(ignored), sortedChains(a, after))
	run.Tally(fmt.Sprintf("loadchains:err=%v,loaded=%d", lerr != nil, min(len(loaded), 3)))
	run.Add("loadchains", term, term, true, map[string]any{"nTRC": nTRC, "rotateAt": rotateAt, "latestState": latestState,
		"graceState": graceState, "dropPred": dropPred, "files": fmt.Sprint(files), "err": lerr != nil,
		"loaded": loaded, "ignored": ignored})
}

// window offsets (hours) that keep at least 2 h distance from "now"
var past = []int{-96, -72, -48, -24, -3}
var future = []int{3, 24, 48, 72, 96}

func providerCase(run *vgen.Run, r *vgen.Rand) {
	// ---- draw the description (no execution yet)
	nTRC := r.Range(1, 3)
	rotateAt := r.Range(2, 4)      // serial at which the root changes (4 = never)
	latestState := r.Intn(8)       // 0..4 valid, 5 expired, 6 future, 7 valid
	graceState := r.Intn(4)        // 0,1 in grace; 2 grace over; 3 zero grace
	dropPred := r.Chance(1, 8)     // predecessor missing from the DB
	otherBase := r.Chance(1, 10)   // an unrelated base-2 TRC that is the latest by ordering
	nChains := r.Range(0, 5)
	type chainSpec struct {
		rootIdx   int // 0 = old root, 1 = new root, 2 = foreign
		state     int // 0 valid now, 1 expired, 2 future
		ia        string
		sameKey   bool
		mut       int
	}
	drawChain := func() chainSpec {
		cs := chainSpec{rootIdx: r.Intn(2), ia: iaAS, sameKey: r.Chance(2, 3)}
		if r.Chance(1, 6) {
			cs.rootIdx = 2
		}
		if r.Chance(1, 5) {
			cs.state = r.Range(1, 2)
		}
		if r.Chance(1, 6) {
			cs.ia = vgen.Pick(r, iaAS2, iaISD2)
		}
		if r.Chance(1, 8) {
			cs.mut = r.Range(1, 3)
		}
		return cs
	}
	var dbChains, fetched []chainSpec
	for j := 0; j < nChains; j++ {
		dbChains = append(dbChains, drawChain())
	}
	fetchMode := r.Intn(4) // 0 error, else list
	nf := r.Range(0, 3)
	for j := 0; j < nf; j++ {
		fetched = append(fetched, drawChain())
	}
	recOK := !r.Chance(1, 6)
	allowInactive := r.Chance(1, 6)
	qIA := iaAS
	switch r.Intn(12) {
	case 0:
		qIA = iaAS2
	case 1:
		qIA = iaISD2
	case 2:
		qIA = "1-0"
	case 3:
		qIA = "0-ff00:0:111"
	}
	qSKID := []int{0, 0, 0, 1, 1, 2}[r.Intn(6)] // 0 none, 1 the shared key, 2 unknown key id
	qVal := []int{0, 0, 0, 1, 1, 3, 2}[r.Intn(7)]  // 0 zero, 1 around now, 2 far future, 3 wide
	if !run.Want() {
		run.Skip()
		return
	}

	// ---- build
	g := pkigen.NewGen()
	origin := time.Now().UTC().Truncate(time.Second)
	a := pkigen.NewAbs(g, origin)
	h := func(n int) time.Time { return origin.Add(time.Duration(n) * time.Hour) }
	wNB, wNA := h(-24*400), h(24*400)
	sens := g.MustIssue(g.Tmpl(pkigen.Sensitive, iaCore, "sens", wNB, wNA), g.NewKey(), nil, nil)
	reg := g.MustIssue(g.Tmpl(pkigen.Regular, iaCore, "reg", wNB, wNA), g.NewKey(), nil, nil)
	roots := []*pkigen.Cert{
		g.MustIssue(g.Tmpl(pkigen.Root, iaCore, "rootA", wNB, wNA), g.NewKey(), nil, nil),
		g.MustIssue(g.Tmpl(pkigen.Root, iaCore, "rootB", wNB, wNA), g.NewKey(), nil, nil),
		g.MustIssue(g.Tmpl(pkigen.Root, iaCore, "foreign", wNB, wNA), g.NewKey(), nil, nil),
	}
	cas := make([]*pkigen.Cert, 3)
	for j := range cas {
		cas[j] = g.MustIssue(g.Tmpl(pkigen.CA, iaCore, fmt.Sprintf("ca%d", j), h(-24*300), h(24*300)),
			g.NewKey(), roots[j], nil)
	}
	shared := g.NewKey()
	mkChain := func(cs chainSpec) []*x509.Certificate {
		nb, na := h(-24*10), h(24*10)
		switch cs.state {
		case 1:
			nb, na = h(-24*10), h(vgen.Pick(r, past...))
		case 2:
			nb, na = h(vgen.Pick(r, future...)), h(24*10)
		}
		t := g.Tmpl(pkigen.AS, cs.ia, "as", nb, na)
		key := shared
		if !cs.sameKey {
			key = g.NewKey()
		}
		switch cs.mut {
		case 1:
			t.ExtKeyUsage = []x509.ExtKeyUsage{x509.ExtKeyUsageServerAuth}
		case 2:
			t.BasicConstraintsValid, t.IsCA = true, true
		}
		c, err := g.Issue(t, key, cas[cs.rootIdx], nil, false)
		if err != nil {
			panic(err)
		}
		if cs.mut == 3 {
			c = pkigen.Corrupt(c)
		}
		return []*x509.Certificate{c.X, cas[cs.rootIdx].X}
	}
	// TRC succession
	store := newDB()
	defer store.Close()
	ctx := context.Background()
	var trcTerms []string
	insertTRC := func(t cppki.SignedTRC) {
		if _, err := store.InsertTRC(ctx, t); err != nil {
			panic(err)
		}
		trcTerms = append(trcTerms, a.TRC(&t.TRC, 0, 0))
	}
	for sidx := 1; sidx <= nTRC; sidx++ {
		latest := sidx == nTRC
		nb, na := h(-24*(30-sidx)), h(24*30)
		grace := time.Duration(0)
		if latest {
			switch {
			case latestState == 5:
				nb, na = h(-24*20), h(vgen.Pick(r, past...))
			case latestState == 6:
				nb, na = h(vgen.Pick(r, future...)), h(24*30)
			default:
				switch graceState {
				case 0:
					nb = h(-3)
					grace = 6 * time.Hour
				case 1:
					nb = h(-24)
					grace = 48 * time.Hour
				case 2:
					nb = h(-24)
					grace = 3 * time.Hour
				}
			}
		}
		root := roots[0]
		if sidx >= rotateAt {
			root = roots[1]
		}
		spec := pkigen.TRCSpec{ISD: 1, Base: 1, Serial: uint64(sidx), NB: nb, NA: na,
			Certs: []*pkigen.Cert{sens, reg, root}, Signers: []*pkigen.Cert{sens, reg}}
		if sidx > 1 {
			spec.Grace = grace
			spec.Votes = []int{0}
		}
		t, err := pkigen.MakeTRC(spec)
		if err != nil {
			panic(err)
		}
		if dropPred && sidx == nTRC-1 {
			continue
		}
		insertTRC(t)
	}
	if otherBase {
		t, err := pkigen.MakeTRC(pkigen.TRCSpec{ISD: 1, Base: 2, Serial: 2, NB: h(-24 * 5), NA: h(24 * 5),
			Certs: []*pkigen.Cert{sens, reg, roots[2]}, Signers: []*pkigen.Cert{sens, reg}})
		if err != nil {
			panic(err)
		}
		insertTRC(t)
	}
	{ // an ISD 2 TRC that must never matter for ISD 1 queries
		s2 := g.MustIssue(g.Tmpl(pkigen.Sensitive, "2-ff00:0:210", "sens2", wNB, wNA), g.NewKey(), nil, nil)
		r2 := g.MustIssue(g.Tmpl(pkigen.Regular, "2-ff00:0:210", "reg2", wNB, wNA), g.NewKey(), nil, nil)
		rt2 := g.MustIssue(g.Tmpl(pkigen.Root, "2-ff00:0:210", "root2", wNB, wNA), g.NewKey(), nil, nil)
		t, err := pkigen.MakeTRC(pkigen.TRCSpec{ISD: 2, Base: 1, Serial: 1, NB: h(-24 * 5), NA: h(24 * 5),
			Certs: []*pkigen.Cert{s2, r2, rt2}, Signers: []*pkigen.Cert{s2, r2}})
		if err != nil {
			panic(err)
		}
		insertTRC(t)
	}
	var dbTerms []string
	for _, cs := range dbChains {
		ch := mkChain(cs)
		ins, err := store.InsertChain(ctx, ch)
		if err != nil {
			continue // AS certificate without usable ISD-AS cannot be stored
		}
		if ins {
			dbTerms = append(dbTerms, chainTerm(a, ch))
		}
	}
	f := &fetcher{fail: fetchMode == 0}
	var fTerms []string
	for _, cs := range fetched {
		ch := mkChain(cs)
		f.chains = append(f.chains, ch)
		fTerms = append(fTerms, chainTerm(a, ch))
	}
	ia, err := addr.ParseIA(qIA)
	if err != nil {
		panic(err)
	}
	q := trust.ChainQuery{IA: ia}
	qsk := uint64(0)
	switch qSKID {
	case 1:
		q.SubjectKeyID = pkigen.SKID(shared.Pub)
		qsk = a.H('i', q.SubjectKeyID)
	case 2:
		q.SubjectKeyID = []byte{1, 2, 3, 4}
		qsk = a.H('i', q.SubjectKeyID)
	}
	switch qVal {
	case 1:
		q.Validity = cppki.Validity{NotBefore: h(-2), NotAfter: h(2)}
	case 2:
		q.Validity = cppki.Validity{NotBefore: h(24 * 9), NotAfter: h(24 * 12)}
	case 3:
		q.Validity = cppki.Validity{NotBefore: h(-24 * 9), NotAfter: h(24 * 9)}
	}
	qTerm := fmt.Sprintf("(PKIChain.mkq %d %d %d %s (%d)%%Z (%d)%%Z)", uint64(ia.ISD()), uint64(ia.AS()), qsk,
		vgen.B(qVal != 0), a.T(q.Validity.NotBefore)*b2i(qVal != 0), a.T(q.Validity.NotAfter)*b2i(qVal != 0))
	p := trust.FetchingProvider{DB: store, Recurser: recurser{recOK}, Fetcher: f, Router: router{}}
	var opts []trust.Option
	if allowInactive {
		opts = append(opts, trust.AllowInactive())
	}
	before := time.Now()
	var res [][]*x509.Certificate
	var gerr error
	if pn, msg := vgen.Recover(func() { res, gerr = p.GetChains(ctx, q, opts...) }); pn {
		run.Violate(run.Add("provider", "(PKIChain.CCert (PKIChain.mkc 0 0 0 0 0 0 false false 0 0 false false false false [] [] false false 0%Z false PKIChain.IANone PKIChain.IANone 0%Z 0%Z) 0)",
			"panic", true, msg), "panic: "+msg, nil)
		return
	}
	after, err := store.Chains(ctx, trust.ChainQuery{})
	if err != nil {
		panic(err)
	}
	now := a.T(before)
	implT := "None"
	if gerr == nil {
		implT = "(Some " + sortedChains(a, res) + ")"
	}
	fetchT := "None"
	if !f.fail {
		fetchT = "(Some " + vgen.List(fTerms) + ")"
	}
	dbT := fmt.Sprintf("(PKIChain.mkdb %s %s)", vgen.List(trcTerms), vgen.List(dbTerms))
	term := vgen.App("PKIChain.CProvider", dbT, qTerm, vgen.B(allowInactive), vgen.B(recOK), fetchT,
		fmt.Sprintf("(%d)%%Z", now), implT, sortedChains(a, after))
	bucket := "err"
	if gerr == nil {
		bucket = fmt.Sprintf("ok:%d", len(res))
		if len(res) > 2 {
			bucket = "ok:3+"
		}
	}
	run.Tally("provider:" + bucket)
	run.Tally(fmt.Sprintf("provider:fetchcalls=%d", f.calls))
	reached := !ia.IsWildcard() && !(allowInactive && len(res) > 0)
	run.Add("provider", term, term, reached, map[string]any{
		"nTRC": nTRC, "rotateAt": rotateAt, "latestState": latestState, "graceState": graceState,
		"dropPred": dropPred, "otherBase": otherBase, "dbChains": fmt.Sprint(dbChains), "fetched": fmt.Sprint(fetched),
		"fetchMode": fetchMode, "recOK": recOK, "allowInactive": allowInactive, "query": qIA, "qSKID": qSKID, "qVal": qVal,
		"impl_err": gerr != nil, "impl_n": len(res)})
}

func scryptoV(v uint64) scrypto.Version { return scrypto.Version(v) }

func b2i(b bool) int64 {
	if b {
		return 1
	}
	return 0
}
