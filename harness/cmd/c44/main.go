// Runner for C44: the shim dispatcher's per-datagram decision
// (dispatcher.Server.processMsgNextHop through the verif-tagged wrapper) on
// generated SCION datagrams. Every datagram is given to a fresh Server and to
// the long-lived Server of the run (one per feature-flag value); both
// observations go into the case next to the decoded-level description of the
// input that the Gallina model works on.
package main

import (
	"bytes"
	"encoding/binary"
	"fmt"
	"math/big"
	"net/netip"
	"os"
	"strings"

	"github.com/gopacket/gopacket"

	"github.com/scionproto/scion/dispatcher"
	"github.com/scionproto/scion/pkg/addr"
	"github.com/scionproto/scion/pkg/slayers"
	"github.com/scionproto/scion/pkg/slayers/path"
	"github.com/scionproto/scion/pkg/slayers/path/empty"
	"github.com/scionproto/scion/pkg/slayers/path/epic"
	"github.com/scionproto/scion/pkg/slayers/path/onehop"
	"github.com/scionproto/scion/pkg/slayers/path/scion"
	"verifharness/internal/vgen"
)

// ---------------------------------------------------------------- decoded-level description

type absInfo struct {
	Peer, Cons bool
	SegID      uint16
	TS         uint32
}
type absHop struct {
	IA, EA  bool
	Exp     uint8
	In, Eg  uint16
	Mac     [6]byte
}
type absSPath struct {
	CI, CHF, S0, S1, S2 uint8
	Infos               []absInfo
	Hops                []absHop
}
type absPath struct {
	Kind   int // 0 empty, 1 scion, 2 onehop, 3 epic, 4 raw
	Ty     uint8
	SP     absSPath
	Info   absInfo
	H1, H2 absHop
}
type absQuote struct {
	Kind  int // 0 bad, 1 udp, 2 scmp
	Sport uint16
	Ty    uint8
	HasID bool
	ID    uint16
}
type absL4 struct {
	Kind         int // 0 none, 1 udp, 2 scmp
	Sport, Dport uint16
	Ty, Code     uint8
	Payload      []byte
	Q            absQuote
}
type absPkt struct {
	OK           bool
	DstIA, SrcIA uint64
	DstT, SrcT   uint8
	DstRaw       []byte
	SrcRaw       []byte
	Path         absPath
	HBH          bool
	E2E          []byte // nil = absent
	L4           absL4
}

func cp(b []byte) []byte { return append([]byte{}, b...) }

func absInfoOf(i path.InfoField) absInfo {
	return absInfo{Peer: i.Peer, Cons: i.ConsDir, SegID: i.SegID, TS: i.Timestamp}
}
func absHopOf(h path.HopField) absHop {
	return absHop{IA: h.IngressRouterAlert, EA: h.EgressRouterAlert, Exp: h.ExpTime,
		In: h.ConsIngress, Eg: h.ConsEgress, Mac: h.Mac}
}

func absSPathOf(raw []byte) (absSPath, bool) {
	var d scion.Decoded
	if err := d.DecodeFromBytes(raw); err != nil {
		return absSPath{}, false
	}
	sp := absSPath{CI: d.PathMeta.CurrINF, CHF: d.PathMeta.CurrHF,
		S0: d.PathMeta.SegLen[0], S1: d.PathMeta.SegLen[1], S2: d.PathMeta.SegLen[2]}
	for _, i := range d.InfoFields {
		sp.Infos = append(sp.Infos, absInfoOf(i))
	}
	for _, h := range d.HopFields {
		sp.Hops = append(sp.Hops, absHopOf(h))
	}
	return sp, true
}

// absPathOf describes a decoded path object. ok=false: not describable.
func absPathOf(p path.Path, ty path.Type) (absPath, bool) {
	switch v := p.(type) {
	case empty.Path:
		return absPath{Kind: 0}, true
	case *scion.Raw:
		sp, ok := absSPathOf(cp(v.Raw))
		return absPath{Kind: 1, SP: sp}, ok
	case *onehop.Path:
		return absPath{Kind: 2, Info: absInfoOf(v.Info), H1: absHopOf(v.FirstHop),
			H2: absHopOf(v.SecondHop)}, true
	case *epic.Path:
		sp, ok := absSPathOf(cp(v.ScionPath.Raw))
		return absPath{Kind: 3, SP: sp}, ok
	default:
		return absPath{Kind: 4, Ty: uint8(ty)}, true
	}
}

var errHdrLen = map[uint8]int{1: 4, 2: 4, 4: 4, 5: 16, 6: 24}

func absQuoteOf(q []byte) absQuote {
	gp := gopacket.NewPacket(q, slayers.LayerTypeSCION, gopacket.DecodeOptions{NoCopy: true})
	if l := gp.Layer(slayers.LayerTypeSCIONUDP); l != nil {
		return absQuote{Kind: 1, Sport: l.(*slayers.UDP).SrcPort}
	}
	if l := gp.Layer(slayers.LayerTypeSCMP); l != nil {
		a := absQuote{Kind: 2, Ty: uint8(l.(*slayers.SCMP).TypeCode.Type())}
		if e := gp.Layer(slayers.LayerTypeSCMPEcho); e != nil {
			a.HasID, a.ID = true, e.(*slayers.SCMPEcho).Identifier
		} else if t := gp.Layer(slayers.LayerTypeSCMPTraceroute); t != nil {
			a.HasID, a.ID = true, t.(*slayers.SCMPTraceroute).Identifier
		}
		return a
	}
	return absQuote{}
}

// abstractOf decodes a datagram with fresh layer structs, layer by layer as the
// dispatcher's DecodingLayerParser does (SCION, HBH skipper, E2E, UDP | SCMP).
func abstractOf(b []byte) (res absPkt) {
	defer func() {
		if recover() != nil {
			res = absPkt{}
		}
	}()
	var scn slayers.SCION
	scn.RecyclePaths()
	if err := scn.DecodeFromBytes(b, gopacket.NilDecodeFeedback); err != nil {
		return absPkt{}
	}
	p := absPkt{OK: true, DstIA: uint64(scn.DstIA), SrcIA: uint64(scn.SrcIA),
		DstT: uint8(scn.DstAddrType), SrcT: uint8(scn.SrcAddrType),
		DstRaw: cp(scn.RawDstAddr), SrcRaw: cp(scn.RawSrcAddr)}
	var ok bool
	if p.Path, ok = absPathOf(scn.Path, scn.PathType); !ok {
		return absPkt{}
	}
	data, next := scn.Payload, scn.NextHdr
	if len(data) == 0 {
		return p
	}
	if next == slayers.HopByHopClass {
		var h slayers.HopByHopExtnSkipper
		if err := h.DecodeFromBytes(data, gopacket.NilDecodeFeedback); err != nil {
			return absPkt{}
		}
		p.HBH = true
		data, next = h.Payload, h.NextHdr
		if len(data) == 0 {
			return p
		}
	}
	if next == slayers.End2EndClass {
		var e slayers.EndToEndExtn
		if err := e.DecodeFromBytes(data, gopacket.NilDecodeFeedback); err != nil {
			return absPkt{}
		}
		p.E2E = cp(e.Contents)
		data, next = e.Payload, e.NextHdr
		if len(data) == 0 {
			return p
		}
	}
	switch next {
	case slayers.L4UDP:
		var u slayers.UDP
		if err := u.DecodeFromBytes(data, gopacket.NilDecodeFeedback); err != nil {
			return absPkt{}
		}
		p.L4 = absL4{Kind: 1, Sport: u.SrcPort, Dport: u.DstPort}
	case slayers.L4SCMP:
		var s slayers.SCMP
		if err := s.DecodeFromBytes(data, gopacket.NilDecodeFeedback); err != nil {
			return absPkt{}
		}
		l := absL4{Kind: 2, Ty: uint8(s.TypeCode.Type()), Code: uint8(s.TypeCode.Code()),
			Payload: cp(s.Payload)}
		if hl, ok := errHdrLen[l.Ty]; ok && len(l.Payload) > hl {
			l.Q = absQuoteOf(cp(l.Payload[hl:]))
		}
		p.L4 = l
	}
	return p
}

// ---------------------------------------------------------------- Gallina printers

// gPair prints a pair as an application: nested "(a, b)" notations are very slow to parse.
func gPair(a, b string) string { return "(pair " + a + " " + b + ")" }

func gIP(a netip.Addr) string {
	if a.Is4() {
		b := a.As4()
		return fmt.Sprintf("(Dispatcher.V4 %d)", binary.BigEndian.Uint32(b[:]))
	}
	b := a.As16()
	return "(Dispatcher.V6 " + new(big.Int).SetBytes(b[:]).String() + ")"
}
func gOptIP(a netip.Addr) string { return vgen.Opt(gIP(a), a.IsValid()) }
func gAP(a netip.AddrPort) string {
	return gPair(gIP(a.Addr()), vgen.N(uint64(a.Port())))
}
func gInfo(i absInfo) string {
	return vgen.App("Dispatcher.MkInfo", vgen.B(i.Peer), vgen.B(i.Cons), vgen.N(uint64(i.SegID)),
		vgen.N(uint64(i.TS)))
}
func gHop(h absHop) string {
	return vgen.App("Dispatcher.MkHop", vgen.B(h.IA), vgen.B(h.EA), vgen.N(uint64(h.Exp)),
		vgen.N(uint64(h.In)), vgen.N(uint64(h.Eg)), new(big.Int).SetBytes(h.Mac[:]).String())
}
func gSPath(s absSPath) string {
	return vgen.App("Dispatcher.MkSPath", vgen.N(uint64(s.CI)), vgen.N(uint64(s.CHF)),
		vgen.N(uint64(s.S0)), vgen.N(uint64(s.S1)), vgen.N(uint64(s.S2)),
		vgen.ListOf(s.Infos, gInfo), vgen.ListOf(s.Hops, gHop))
}
func gPath(p absPath) string {
	switch p.Kind {
	case 0:
		return "Dispatcher.PEmpty"
	case 1:
		return vgen.App("Dispatcher.PScion", gSPath(p.SP))
	case 2:
		return vgen.App("Dispatcher.POneHop", gInfo(p.Info), gHop(p.H1), gHop(p.H2))
	case 3:
		return vgen.App("Dispatcher.PEpic", gSPath(p.SP))
	}
	return vgen.App("Dispatcher.PRaw", vgen.N(uint64(p.Ty)))
}
func gQuote(q absQuote) string {
	switch q.Kind {
	case 1:
		return vgen.App("Dispatcher.QUdp", vgen.N(uint64(q.Sport)))
	case 2:
		return vgen.App("Dispatcher.QScmp", vgen.N(uint64(q.Ty)), vgen.Opt(vgen.N(uint64(q.ID)), q.HasID))
	}
	return "Dispatcher.QBad"
}
func gL4(l absL4) string {
	switch l.Kind {
	case 1:
		return vgen.App("Dispatcher.L4Udp", vgen.N(uint64(l.Sport)), vgen.N(uint64(l.Dport)))
	case 2:
		return vgen.App("Dispatcher.L4Scmp", vgen.N(uint64(l.Ty)), vgen.N(uint64(l.Code)),
			vgen.Bytes(l.Payload), gQuote(l.Q))
	}
	return "Dispatcher.L4None"
}
func gOptBytes(b []byte) string { return vgen.Opt(vgen.Bytes(b), b != nil) }
func gDgram(p absPkt) string {
	if !p.OK {
		return "Dispatcher.Undecodable"
	}
	return vgen.App("Dispatcher.Pkt", vgen.App("Dispatcher.MkPkt",
		vgen.N(p.DstIA), vgen.N(p.SrcIA),
		vgen.N(uint64(p.DstT)), vgen.Bytes(p.DstRaw), vgen.N(uint64(p.SrcT)), vgen.Bytes(p.SrcRaw),
		gPath(p.Path), vgen.B(p.HBH), gOptBytes(p.E2E), gL4(p.L4)))
}

// ---------------------------------------------------------------- observation

type obsT struct {
	Kind string // drop | forward | reply | bad
	Term string
}

// observe turns the result of processMsgNextHop into the printed observation.
// in = the buffer handed to the server, orig = an untouched copy of it.
func observe(out []byte, ap netip.AddrPort, in, orig []byte, req absPkt) obsT {
	if !ap.IsValid() {
		return obsT{"drop", "Dispatcher.ODrop"}
	}
	if len(out) > 0 && len(in) > 0 && &out[0] == &in[0] {
		// the incoming buffer is handed on
		same := bytes.Equal(out, orig)
		return obsT{"forward", vgen.App("Dispatcher.OForward", gIP(ap.Addr()),
			vgen.N(uint64(ap.Port())), vgen.B(same))}
	}
	bad := obsT{"bad", "Dispatcher.OBad"}
	out = cp(out)
	var scn slayers.SCION
	if err := scn.DecodeFromBytes(out, gopacket.NilDecodeFeedback); err != nil {
		return bad
	}
	rp, ok := absPathOf(scn.Path, scn.PathType)
	if !ok || req.L4.Kind != 2 {
		return bad
	}
	// Structural: the SCMP header sits 4 + len(request's SCMP payload) bytes before
	// the end; what is emitted between SCION header and SCMP header is reported as is.
	off := len(scn.Payload) - 4 - len(req.L4.Payload)
	if off < 0 {
		return bad
	}
	var ext []byte
	if off > 0 {
		ext = cp(scn.Payload[:off])
	}
	hostT := func(t slayers.AddrType, raw []byte) string {
		return gPair(vgen.N(uint64(t)), vgen.Bytes(raw))
	}
	return obsT{"reply", vgen.App("Dispatcher.OReply", vgen.App("Dispatcher.MkReply",
		gAP(ap), vgen.N(uint64(scn.DstIA)), vgen.N(uint64(scn.SrcIA)),
		hostT(scn.DstAddrType, scn.RawDstAddr), hostT(scn.SrcAddrType, scn.RawSrcAddr),
		vgen.N(uint64(scn.PathType)), gPath(rp), vgen.N(uint64(scn.NextHdr)), gOptBytes(ext),
		vgen.N(uint64(scn.Payload[off])), vgen.N(uint64(scn.Payload[off+1])),
		vgen.Bytes(scn.Payload[off+4:])))}
}

// ---------------------------------------------------------------- generators

var (
	v4Pool = []string{"10.0.0.1", "10.0.0.2", "192.168.1.7", "127.0.0.1"}
	v6Pool = []string{"fd00::1", "fd00::2", "::1", "::ffff:10.0.0.1", "::ffff:192.168.1.7"}
	iaPool = []uint64{1<<48 | 0xff0000000110, 1<<48 | 0xff0000000111, 2<<48 | 0xff0000000220}
	svcPool = []uint16{0x0001, 0x0002, 0x0010, 0x8002, 0xffff, 0x0a00, 0xc0a8}
)

func as16(s string) netip.Addr { return netip.AddrFrom16(netip.MustParseAddr(s).As16()) }

func poolAddr(r *vgen.Rand) netip.Addr {
	if r.Chance(3, 5) {
		return netip.MustParseAddr(vgen.Pick(r, v4Pool...))
	}
	return as16(vgen.Pick(r, v6Pool...))
}

type hostG struct {
	T   uint8
	Raw []byte
}

func genHost(r *vgen.Rand) hostG {
	switch k := r.Intn(20); {
	case k < 8:
		a := netip.MustParseAddr(vgen.Pick(r, v4Pool...)).As4()
		return hostG{0, a[:]}
	case k < 13:
		a := netip.MustParseAddr(vgen.Pick(r, v6Pool...)).As16()
		return hostG{3, a[:]}
	case k < 18:
		raw := make([]byte, 4)
		binary.BigEndian.PutUint16(raw, vgen.Pick(r, svcPool...))
		if r.Chance(1, 3) { // second half of an SVC address is not looked at
			copy(raw[2:], r.Bytes(2))
			if r.Chance(1, 2) {
				copy(raw[2:], []byte{0, 1})
			}
		}
		return hostG{4, raw}
	default: // type/length combinations that are no IP and no SVC
		t := vgen.Pick(r, uint8(1), 2, 5, 6, 7, 8, 11, 12, 15)
		n := 4 * (1 + int(t&3))
		raw := r.Bytes(n)
		if r.Chance(1, 2) { // carry a pool address in the raw bytes
			if n == 4 {
				a := netip.MustParseAddr(vgen.Pick(r, v4Pool...)).As4()
				raw = a[:]
			} else if n == 16 {
				a := netip.MustParseAddr(vgen.Pick(r, v6Pool...)).As16()
				raw = a[:]
			}
		}
		return hostG{t, raw}
	}
}

func genInfo(r *vgen.Rand) path.InfoField {
	return path.InfoField{Peer: r.Chance(1, 4), ConsDir: r.Bool(), SegID: uint16(r.U64()),
		Timestamp: uint32(r.U64())}
}
func genHop(r *vgen.Rand) path.HopField {
	h := path.HopField{IngressRouterAlert: r.Chance(1, 6), EgressRouterAlert: r.Chance(1, 6),
		ExpTime: uint8(r.U64()), ConsIngress: uint16(r.Intn(5)), ConsEgress: uint16(r.Intn(5))}
	copy(h.Mac[:], r.Bytes(6))
	return h
}

// otherPath is a path of an unregistered type.
type otherPath struct {
	ty  path.Type
	raw []byte
}

func (o *otherPath) SerializeTo(b []byte) error       { copy(b, o.raw); return nil }
func (o *otherPath) DecodeFromBytes(b []byte) error   { o.raw = b; return nil }
func (o *otherPath) Reverse() (path.Path, error)      { return o, nil }
func (o *otherPath) Len() int                         { return len(o.raw) }
func (o *otherPath) Type() path.Type                  { return o.ty }

func genDecoded(r *vgen.Rand, big bool) *scion.Decoded {
	nseg := r.Range(1, 3)
	d := &scion.Decoded{}
	total := 0
	for i := 0; i < nseg; i++ {
		n := r.Range(1, 3)
		if big && r.Chance(1, 3) {
			n = r.Range(4, 21)
		}
		d.PathMeta.SegLen[i] = uint8(n)
		total += n
		d.InfoFields = append(d.InfoFields, genInfo(r))
	}
	for i := 0; i < total; i++ {
		d.HopFields = append(d.HopFields, genHop(r))
	}
	d.NumINF, d.NumHops = nseg, total
	// mostly consistent pointers, sometimes arbitrary (the dispatcher does not validate them)
	hf := r.Intn(total)
	if r.Chance(1, 3) {
		hf = total - 1 // as delivered to the destination
	}
	inf, acc := 0, 0
	for i := 0; i < nseg; i++ {
		acc += int(d.PathMeta.SegLen[i])
		if hf < acc {
			inf = i
			break
		}
	}
	if r.Chance(1, 8) {
		hf = r.Intn(64)
	}
	if r.Chance(1, 8) {
		inf = r.Intn(4)
	}
	d.PathMeta.CurrHF, d.PathMeta.CurrINF = uint8(hf), uint8(inf)
	return d
}

func genPath(r *vgen.Rand, big bool) (path.Path, path.Type, string) {
	switch k := r.Intn(20); {
	case k < 4:
		return empty.Path{}, empty.PathType, "empty"
	case k < 11:
		return genDecoded(r, big), scion.PathType, "scion"
	case k < 15:
		p := &onehop.Path{Info: genInfo(r), FirstHop: genHop(r), SecondHop: genHop(r)}
		if r.Chance(2, 3) && p.SecondHop.ConsIngress == 0 {
			p.SecondHop.ConsIngress = uint16(r.Range(1, 9))
		}
		return p, onehop.PathType, "onehop"
	case k < 18:
		raw, err := genDecoded(r, big).ToRaw()
		if err != nil {
			panic(err)
		}
		return &epic.Path{PktID: epic.PktID{Timestamp: uint32(r.U64()), Counter: uint32(r.U64())},
			PHVF: r.Bytes(4), LHVF: r.Bytes(4), ScionPath: raw}, epic.PathType, "epic"
	case k < 19:
		// all-zero segment lengths: decodes, cannot be reversed
		return &otherPath{ty: scion.PathType, raw: []byte{0, 0, 0, 0}}, scion.PathType, "scion-nosegs"
	default:
		return &otherPath{ty: path.Type(r.Range(4, 255)), raw: r.Bytes(4 * r.Intn(4))},
			0, "unregistered"
	}
}

func genOpts(r *vgen.Rand) (types []uint8, data [][]byte) {
	n := r.Intn(3)
	for i := 0; i < n; i++ {
		types = append(types, uint8(r.Range(2, 250)))
		data = append(data, r.Bytes(r.Intn(7)))
	}
	return
}

type genOut struct {
	Bytes []byte
	Kind  string
	Coarse, PathK string // tally keys
	L4    int // expected abstract L4 kind (0 none, 1 udp, 2 scmp); -1 = no expectation
	DstIA uint64
	Dst   hostG
}

var serOpts = gopacket.SerializeOptions{FixLengths: true, ComputeChecksums: true}

// genPacket builds one SCION datagram with the slayers serializers.
// depth > 0: a packet to be quoted by an SCMP error.
func genPacket(r *vgen.Rand, depth int, big bool) genOut {
	scn := &slayers.SCION{FlowID: uint32(r.Intn(1 << 20)), TrafficClass: uint8(r.U64())}
	scn.DstIA, scn.SrcIA = addr.IA(vgen.Pick(r, iaPool...)), addr.IA(vgen.Pick(r, iaPool...))
	dst, src := genHost(r), genHost(r)
	scn.DstAddrType, scn.RawDstAddr = slayers.AddrType(dst.T), dst.Raw
	scn.SrcAddrType, scn.RawSrcAddr = slayers.AddrType(src.T), src.Raw
	var pk string
	scn.Path, scn.PathType, pk = genPath(r, big)
	if op, ok := scn.Path.(*otherPath); ok {
		scn.PathType = op.ty
	}

	var l4 []gopacket.SerializableLayer
	var proto slayers.L4ProtocolType
	kind, expect := "", -1
	coarse := ""
	scmp := func(ty slayers.SCMPType, code uint8) *slayers.SCMP {
		s := &slayers.SCMP{TypeCode: slayers.CreateSCMPTypeCode(ty, slayers.SCMPCode(code))}
		s.SetNetworkLayerForChecksum(scn)
		return s
	}
	port := func() uint16 {
		switch r.Intn(8) {
		case 0:
			return 0
		case 1:
			return 30041
		case 2:
			return 65535
		}
		return uint16(r.Range(1, 65535))
	}
	sel := r.Intn(100)
	if depth > 0 { // quoted packets: mostly what an error can be about
		sel = vgen.Pick(r, 0, 0, 0, 0, 30, 30, 45, 45, 38, 52, 60, 92)
	}
	switch {
	case sel < 30: // UDP
		u := &slayers.UDP{SrcPort: port(), DstPort: port()}
		u.SetNetworkLayerForChecksum(scn)
		l4 = []gopacket.SerializableLayer{u, gopacket.Payload(r.Bytes(r.Intn(6)))}
		proto, kind, expect = slayers.L4UDP, "udp", 1
	case sel < 60: // SCMP echo / traceroute, requests and replies
		ty := slayers.SCMPType(128 + r.Intn(4))
		proto, expect = slayers.L4SCMP, 2
		code := uint8(0)
		if r.Chance(1, 10) {
			code = uint8(r.U64())
		}
		kind = fmt.Sprintf("scmp-%d", ty)
		if r.Chance(1, 6) { // cut short
			l4 = []gopacket.SerializableLayer{scmp(ty, code),
				gopacket.Payload(r.Bytes(r.Intn(vgen.Pick(r, 4, 20))))}
			kind += "-short"
		} else if ty == 128 || ty == 129 {
			l4 = []gopacket.SerializableLayer{scmp(ty, code),
				&slayers.SCMPEcho{Identifier: port(), SeqNumber: uint16(r.U64())},
				gopacket.Payload(r.Bytes(r.Intn(9)))}
		} else {
			l4 = []gopacket.SerializableLayer{scmp(ty, code),
				&slayers.SCMPTraceroute{Identifier: port(), Sequence: uint16(r.U64()),
					IA: addr.IA(vgen.Pick(r, iaPool...)), Interface: uint64(r.Intn(9))}}
			if r.Chance(1, 4) {
				l4 = append(l4, gopacket.Payload(r.Bytes(r.Range(1, 4))))
			}
		}
	case sel < 90: // SCMP errors (and unknown types) with quotes
		ty := vgen.Pick(r, uint8(1), 1, 2, 4, 4, 5, 6, 3, 7, 100, 132, 200)
		proto, expect = slayers.L4SCMP, 2
		kind = fmt.Sprintf("scmp-%d", ty)
		l4 = []gopacket.SerializableLayer{scmp(slayers.SCMPType(ty), uint8(r.Intn(70)))}
		switch ty {
		case 1:
			l4 = append(l4, &slayers.SCMPDestinationUnreachable{})
		case 2:
			l4 = append(l4, &slayers.SCMPPacketTooBig{MTU: uint16(r.U64())})
		case 4:
			l4 = append(l4, &slayers.SCMPParameterProblem{Pointer: uint16(r.Intn(100))})
		case 5:
			l4 = append(l4, &slayers.SCMPExternalInterfaceDown{
				IA: addr.IA(vgen.Pick(r, iaPool...)), IfID: uint64(r.Intn(9))})
		case 6:
			l4 = append(l4, &slayers.SCMPInternalConnectivityDown{
				IA: addr.IA(vgen.Pick(r, iaPool...)), Ingress: uint64(r.Intn(9)), Egress: uint64(r.Intn(9))})
		}
		var quote []byte
		qk := "none"
		if depth == 0 {
			switch k := r.Intn(20); {
			case k < 13:
				q := genPacket(r, depth+1, false)
				quote, qk = q.Bytes, "q:"+q.Kind
			case k < 17:
				q := genPacket(r, depth+1, false)
				quote, qk = q.Bytes[:r.Intn(len(q.Bytes))], "q:cut:"+q.Kind
			case k < 19:
				quote, qk = r.Bytes(r.Range(1, 40)), "q:junk"
			}
		} else if r.Chance(1, 2) {
			quote = r.Bytes(r.Intn(12))
		}
		if r.Chance(1, 12) && len(l4) == 2 { // cut inside the type-specific header
			var b bytes.Buffer
			sb := gopacket.NewSerializeBuffer()
			_ = l4[1].SerializeTo(sb, serOpts)
			b.Write(sb.Bytes())
			l4 = []gopacket.SerializableLayer{l4[0], gopacket.Payload(b.Bytes()[:r.Intn(b.Len())])}
			quote, qk = nil, "hdr-cut"
		}
		if len(quote) > 0 {
			l4 = append(l4, gopacket.Payload(quote))
		}
		qc := qk
		for _, pre := range []string{"q:cut:", "q:junk", "q:udp", "q:scmp-128", "q:scmp-130", "q:scmp-", "q:"} {
			if strings.HasPrefix(qk, pre) {
				qc = pre
				break
			}
		}
		coarse = fmt.Sprintf("scmp-%d/%s", ty, qc)
		kind += "/" + qk
	case sel < 95: // other protocol
		proto = vgen.Pick(r, slayers.L4ProtocolType(6), slayers.L4BFD, 0, 255, 17+1)
		l4 = []gopacket.SerializableLayer{gopacket.Payload(r.Bytes(r.Range(1, 12)))}
		kind, expect = "other-proto", 0
	default: // nothing after the headers
		proto = vgen.Pick(r, slayers.L4UDP, slayers.L4SCMP, slayers.L4ProtocolType(6))
		kind, expect = "no-payload", 0
	}

	// extension headers
	var layers []gopacket.SerializableLayer
	ext := r.Intn(10)
	withH, withE := ext == 6 || ext == 9, ext >= 7
	first := proto
	var e2e *slayers.EndToEndExtn
	var hbh *slayers.HopByHopExtn
	if withE {
		e2e = &slayers.EndToEndExtn{}
		e2e.NextHdr = proto
		ts, ds := genOpts(r)
		for i := range ts {
			e2e.Options = append(e2e.Options, &slayers.EndToEndOption{OptType: slayers.OptionType(ts[i]),
				OptData: ds[i]})
		}
		first = slayers.End2EndClass
	}
	if withH {
		hbh = &slayers.HopByHopExtn{}
		hbh.NextHdr = first
		ts, ds := genOpts(r)
		for i := range ts {
			hbh.Options = append(hbh.Options, &slayers.HopByHopOption{OptType: slayers.OptionType(ts[i]),
				OptData: ds[i]})
		}
		first = slayers.HopByHopClass
	}
	if coarse == "" {
		coarse = kind
	}
	scn.NextHdr = first
	layers = append(layers, scn)
	if hbh != nil {
		layers = append(layers, hbh)
		kind += "+hbh"
	}
	if e2e != nil {
		layers = append(layers, e2e)
		kind += "+e2e"
	}
	layers = append(layers, l4...)
	buf := gopacket.NewSerializeBuffer()
	if err := gopacket.SerializeLayers(buf, serOpts, layers...); err != nil {
		fmt.Fprintln(os.Stderr, "generator: serialize:", err, kind, pk)
		os.Exit(3)
	}
	if hbh != nil || e2e != nil {
		coarse += "+ext"
	}
	return genOut{Bytes: cp(buf.Bytes()), Kind: kind + "|" + pk, Coarse: coarse, PathK: pk, L4: expect,
		DstIA: uint64(scn.DstIA), Dst: dst}
}

// mutate damages a valid datagram.
func mutate(r *vgen.Rand, b []byte) []byte {
	b = cp(b)
	n := r.Range(1, 3)
	for i := 0; i < n && len(b) > 0; i++ {
		switch r.Intn(9) {
		case 0:
			b = b[:r.Intn(len(b))]
		case 1:
			b = append(b, r.Bytes(r.Range(1, 8))...)
		case 2: // NextHdr
			if len(b) > 4 {
				b[4] = vgen.Pick(r, uint8(17), 202, 200, 201, 203, 6, 0)
			}
		case 3: // HdrLen
			if len(b) > 5 {
				b[5] = uint8(int(b[5]) + r.Range(-3, 3))
			}
		case 4: // PathType
			if len(b) > 8 {
				b[8] = uint8(r.Intn(6))
			}
		case 5: // address types
			if len(b) > 9 {
				b[9] = uint8(r.U64())
			}
		case 6: // a byte of the headers
			b[r.Intn(min(len(b), 80))] = uint8(r.U64())
		case 7: // any byte
			b[r.Intn(len(b))] ^= 1 << uint(r.Intn(8))
		case 8: // payload length field
			if len(b) > 7 {
				b[6], b[7] = uint8(r.U64()), uint8(r.U64())
			}
		}
	}
	return b
}

// ---------------------------------------------------------------- main

type server struct {
	s  *dispatcher.Server
	on bool
}

func main() {
	run := vgen.Flags("C44")
	run.Imports = []string{"Model.Dispatcher"}
	run.CheckFn = "Dispatcher.check"
	run.DiagFn = "Dispatcher.diag"
	run.CaseType = "Dispatcher.case"
	run.Rule = "datagrams built with the slayers serializers: SCION/UDP, SCMP echo/traceroute requests " +
		"and replies, SCMP errors quoting UDP/SCMP packets (whole, cut, junk, none), other protocols, " +
		"HBH/E2E extensions, IPv4/IPv6/mapped/SVC/other host types, empty/SCION/one-hop/EPIC/unregistered " +
		"paths; a mutated stream (1-3 damages) and raw junk; outer destination equal / other form " +
		"(IPv4-mapped) / different / unknown; flag on and off; service map with and without the entry. " +
		"Every datagram goes to a fresh Server and to the long-lived Server of its flag value. " +
		"non-trivial = the datagram decodes to at least two layers (it reaches the flag gate)"
	rng := vgen.NewRand(run.Seed)

	// service map of the run
	svc := map[addr.Addr]netip.AddrPort{}
	var svcTerms []string
	mr := rng.Fork(77)
	for _, ia := range iaPool[:2] {
		for _, s := range svcPool[:5] {
			if mr.Chance(1, 2) {
				continue
			}
			ap := netip.AddrPortFrom(poolAddr(mr), uint16(mr.Range(1, 65535)))
			svc[addr.Addr{IA: addr.IA(ia), Host: addr.HostSVC(addr.SVC(s))}] = ap
			svcTerms = append(svcTerms, gPair(gPair(vgen.N(ia), vgen.N(uint64(s))), gAP(ap)))
		}
	}
	run.Prelude = "Definition svc0 : list ((N * N) * (Dispatcher.ip * N)) := " + vgen.List(svcTerms) + "."
	cfgTerm := func(on bool) string { return vgen.App("Dispatcher.MkCfg", vgen.B(on), "svc0") }
	long := map[bool]*dispatcher.Server{
		true:  dispatcher.VerifNewServer(true, svc),
		false: dispatcher.VerifNewServer(false, svc),
	}

	selfMismatch := 0
	run.ShardSize = 300
	n := run.Count(2400, 60000)
	big := run.Tier == "thorough"
	for i := 0; i < n; i++ {
		r := rng.Fork(uint64(i))
		// --- the datagram
		var in []byte
		stream := "valid"
		var g genOut
		switch k := r.Intn(20); {
		case k < 14:
			g = genPacket(r, 0, big)
			in = g.Bytes
		case k < 19:
			g = genPacket(r, 0, big)
			in = mutate(r, g.Bytes)
			stream = "mutated"
		default:
			in = r.Bytes(r.Intn(60))
			stream = "junk"
			g = genOut{Kind: "junk", L4: -1}
		}
		abs := abstractOf(cp(in))
		if stream == "valid" && g.L4 >= 0 && (!abs.OK || abs.L4.Kind != g.L4) {
			selfMismatch++
			fmt.Fprintf(os.Stderr, "self-check: case %d kind %s: expected l4 %d, abstraction %+v\n",
				i, g.Kind, g.L4, abs.L4.Kind)
		}
		// --- configuration and underlay
		on := r.Chance(3, 4)
		// the address the datagram would be handed on to, if any
		var cand netip.Addr
		if abs.OK {
			if a, ok := netip.AddrFromSlice(abs.DstRaw); ok {
				cand = a
			}
			if abs.DstT == 4 && (abs.L4.Kind == 1 || r.Chance(1, 3)) {
				k := addr.Addr{IA: addr.IA(abs.DstIA),
					Host: addr.HostSVC(addr.SVC(binary.BigEndian.Uint16(abs.DstRaw)))}
				if ap, ok := svc[k]; ok {
					cand = ap.Addr()
				}
			}
		}
		var ul netip.Addr
		ulk := ""
		switch k := r.Intn(20); {
		case k < 10 && cand.IsValid():
			ul, ulk = cand, "equal"
		case k < 14 && cand.IsValid():
			if cand.Is4() {
				ul = netip.AddrFrom16(cand.As16())
			} else if cand.Is4In6() {
				ul = cand.Unmap()
			} else {
				ul = cand
			}
			ulk = "other-form"
		case k < 18:
			ul, ulk = poolAddr(r), "pool"
		default:
			ulk = "unknown"
		}
		prev := netip.AddrPortFrom(poolAddr(r), uint16(r.Range(1, 65535)))

		// --- the implementation, twice
		obs := make([]obsT, 2)
		panicked := false
		for j, srv := range []*dispatcher.Server{dispatcher.VerifNewServer(on, svc), long[on]} {
			buf := cp(in)
			var out []byte
			var ap netip.AddrPort
			var err error
			if p, msg := vgen.Recover(func() { out, ap, err = srv.VerifProcessMsgNextHop(buf, ul, prev) }); p {
				run.Violate(i, "panic in processMsgNextHop: "+msg,
					map[string]any{"datagram": fmt.Sprintf("%x", in), "server": []string{"fresh", "long-lived"}[j]})
				panicked = true
				if j == 1 {
					long[on] = dispatcher.VerifNewServer(on, svc)
				}
				continue
			}
			if err != nil {
				run.Violate(i, "processMsgNextHop returned a fatal error: "+err.Error(),
					map[string]any{"datagram": fmt.Sprintf("%x", in)})
			}
			obs[j] = observe(out, ap, buf, in, abs)
		}
		if panicked {
			run.Skip()
			continue
		}
		l4n := []string{"none", "udp", "scmp"}[abs.L4.Kind]
		if !abs.OK {
			l4n = "undecodable"
		}
		run.Tally("stream:" + stream)
		run.Tally(fmt.Sprintf("flag:%v/l4:%s/%s", on, l4n, obs[0].Kind))
		run.Tally("underlay:" + ulk + "/" + obs[0].Kind)
		if abs.OK && abs.L4.Kind != 0 {
			dk := "other"
			switch {
			case abs.DstT == 0:
				dk = "ipv4"
			case abs.DstT == 4:
				dk = "svc"
			case abs.DstT == 3:
				dk = "ipv6"
				if a, ok := netip.AddrFromSlice(abs.DstRaw); ok && a.Is4In6() {
					dk = "ipv6-mapped"
				}
			}
			run.Tally("dst:" + dk + "/" + l4n + "/" + obs[0].Kind)
			if abs.L4.Kind == 2 {
				if _, isErr := errHdrLen[abs.L4.Ty]; isErr {
					run.Tally(fmt.Sprintf("quote:%s/%s", []string{"none-or-bad", "udp", "scmp"}[abs.L4.Q.Kind], obs[0].Kind))
				}
			}
		}
		if obs[0].Term != obs[1].Term {
			run.Tally("fresh<>long-lived")
		}
		if stream == "valid" {
			run.Tally("gen:" + g.Coarse)
			run.Tally("path:" + g.PathK + "/" + obs[0].Kind)
		}
		nontrivial := abs.OK && (abs.HBH || abs.E2E != nil || abs.L4.Kind != 0)
		term := vgen.App("Dispatcher.MkCase", cfgTerm(on), gDgram(abs), gOptIP(ul), gAP(prev),
			obs[0].Term, obs[1].Term)
		// open finding scmp-dst-type-unchecked (class computed from the input): an SCMP message
		// other than an echo/traceroute request whose SCION destination is not of an IP type
		// but has the length of an IP address
		var tags []string
		if abs.OK && abs.L4.Kind == 2 && abs.L4.Ty != 128 && abs.L4.Ty != 130 &&
			abs.DstT != 0 && abs.DstT != 3 && (len(abs.DstRaw) == 4 || len(abs.DstRaw) == 16) {
			tags = append(tags, "scmp-dst-type-unchecked")
			run.Tally("class:scmp-dst-type-unchecked/" + obs[0].Kind)
		}
		run.Add(stream, term, fmt.Sprintf("%x|%v|%v|%v", in, on, ul, prev), nontrivial,
			map[string]any{"datagram": fmt.Sprintf("%x", in), "gen": g.Kind, "dispatcher": on,
				"outer_dst": ul.String(), "prev_hop": prev.String(),
				"fresh": obs[0].Kind, "long_lived": obs[1].Kind}, tags...)
	}
	run.Extra("abstraction_selfcheck_mismatches", selfMismatch)
	run.Finish()
}
