// Runner for C15: no traffic over links that BFD declares down.
//
// Every case is a history on one REAL dataplane (router hooks, build tag verif) whose external
// and sibling links are the real udpip link objects (connectedLink / detachedLink over a
// socket-less ConnOpener), created through AddExternalInterface / AddNextHop with BFD enabled
// or disabled per link, so that the sessions are attached by newExternalInterfaceBFD /
// newNextHopBFD and Link.IsUp() is the provider's own code. The real bfd.Session objects run
// with short timers (technique and margins of the C16 runner) and are driven by generated
// control packets (handed to the session directly or as SCION/BFD packets through the fast
// path, processBFD) and by detection-time expiries, interleaved with data packets from rtgen.
package main

import (
	"context"
	"fmt"
	"os"
	"sort"
	"strings"
	"sync"
	"sync/atomic"
	"time"

	"github.com/gopacket/gopacket"
	"github.com/gopacket/gopacket/layers"
	"github.com/prometheus/client_golang/prometheus"

	"net/netip"

	"github.com/scionproto/scion/pkg/addr"
	"github.com/scionproto/scion/pkg/private/ptr"
	"github.com/scionproto/scion/pkg/slayers"
	"github.com/scionproto/scion/pkg/slayers/path"
	"github.com/scionproto/scion/pkg/slayers/path/empty"
	"github.com/scionproto/scion/pkg/slayers/path/onehop"
	"github.com/scionproto/scion/private/topology"
	"github.com/scionproto/scion/private/underlay/conn"
	"github.com/scionproto/scion/router"
	"github.com/scionproto/scion/router/bfd"
	"github.com/scionproto/scion/router/control"
	"github.com/scionproto/scion/router/underlayproviders/udpip"

	"verifharness/internal/rtgen"
	"verifharness/internal/rtgen2"
	"verifharness/internal/vgen"
)

// ---------------------------------------------------------------- socket-less underlay

type fakeConn struct{}

func (fakeConn) ReadBatch(conn.Messages) (int, error)       { select {} }
func (fakeConn) WriteBatch(conn.Messages, int) (int, error) { return 0, nil }
func (fakeConn) Close() error                               { return nil }

// opener: reuse = true gives connectedLink sibling links, false detachedLink ones.
type opener struct{ reuse bool }

func (opener) Open(l, r netip.AddrPort, c *conn.Config) (router.BatchConn, error) {
	return fakeConn{}, nil
}
func (o opener) UDPCanReuseLocal() bool { return o.reuse }

// ---------------------------------------------------------------- BFD control packets (as in cmd/c16)

type pktF struct {
	Version, Len    uint64
	Auth, AuthHdr   bool
	AuthType, Mult  uint64
	Multipoint      bool
	My, Your, State uint64
	Poll, Final     bool
	Echo            uint64
	Demand          bool
	DesTx, ReqRx    uint64
	pkt             *layers.BFD
}

func b2n(b bool) uint64 {
	if b {
		return 1
	}
	return 0
}

func (p *pktF) fields() []uint64 {
	return []uint64{p.Version, p.Len, b2n(p.Auth), b2n(p.AuthHdr), p.AuthType, p.Mult,
		b2n(p.Multipoint), p.My, p.Your, p.State, b2n(p.Poll), b2n(p.Final), p.Echo,
		b2n(p.Demand), p.DesTx, p.ReqRx}
}

func fieldsOf(b *layers.BFD) []uint64 {
	p := pktF{Version: uint64(b.Version), Len: uint64(b.Length()), Auth: b.AuthPresent,
		AuthHdr: b.AuthHeader != nil, Mult: uint64(b.DetectMultiplier), Multipoint: b.Multipoint,
		My: uint64(b.MyDiscriminator), Your: uint64(b.YourDiscriminator), State: uint64(b.State),
		Poll: b.Poll, Final: b.Final, Echo: uint64(b.RequiredMinEchoRxInterval), Demand: b.Demand,
		DesTx: uint64(b.DesiredMinTxInterval), ReqRx: uint64(b.RequiredMinRxInterval)}
	if b.AuthHeader != nil {
		p.AuthType = uint64(b.AuthHeader.AuthType)
	}
	return p.fields()
}

// genPkt draws a control packet; state < 0 = random state; valid = mostly acceptable packets.
func genPkt(r *vgen.Rand, valid bool, state int) *pktF {
	p := &pktF{Version: 1, Mult: 1, My: uint64(r.Range(1, 5)),
		Your: uint64(r.Range(0, 3)), State: uint64(vgen.Pick(r, 0, 1, 1, 1, 2, 2, 2, 3, 3, 3)),
		DesTx: uint64(r.Range(1, 50000)), ReqRx: uint64(r.Range(1, 50000))}
	if state >= 0 {
		p.State = uint64(state)
		if state >= 2 {
			p.Your = uint64(r.Range(1, 3))
		}
	}
	if !valid || r.Chance(1, 8) {
		for i := r.Range(1, 2); i > 0; i-- {
			switch r.Intn(11) {
			case 0:
				p.Version = uint64(r.Intn(8))
			case 1:
				p.Mult = 0
			case 2:
				p.Multipoint = true
			case 3:
				p.My = 0
			case 4:
				p.Your = 0
			case 5:
				p.Auth = true
				p.AuthHdr = r.Bool()
				p.AuthType = uint64(r.Intn(6))
			case 6:
				p.AuthHdr = true
				p.AuthType = uint64(r.Intn(6))
			case 7:
				p.Poll = true
			case 8:
				p.Final = true
			case 9:
				p.Echo = uint64(r.Intn(3))
			case 10:
				p.Demand = true
			}
		}
	}
	var authData []byte
	if p.AuthHdr {
		authData = r.Bytes(r.Intn(20))
	}
	p.build(authData)
	return p
}

func (p *pktF) build(authData []byte) {
	pkt := &layers.BFD{
		Version: layers.BFDVersion(p.Version), State: layers.BFDState(p.State),
		Poll: p.Poll, Final: p.Final, AuthPresent: p.Auth, Demand: p.Demand,
		Multipoint: p.Multipoint, DetectMultiplier: layers.BFDDetectMultiplier(p.Mult),
		MyDiscriminator:           layers.BFDDiscriminator(p.My),
		YourDiscriminator:         layers.BFDDiscriminator(p.Your),
		DesiredMinTxInterval:      layers.BFDTimeInterval(p.DesTx),
		RequiredMinRxInterval:     layers.BFDTimeInterval(p.ReqRx),
		RequiredMinEchoRxInterval: layers.BFDTimeInterval(p.Echo),
	}
	if p.AuthHdr {
		pkt.AuthHeader = &layers.BFDAuthHeader{AuthType: layers.BFDAuthType(p.AuthType), Data: authData}
	}
	p.Len = uint64(pkt.Length())
	p.pkt = pkt
}

// setTiming makes the detection time armed by this packet short (detect) or so long that it
// never expires during the run.
func (p *pktF) setTiming(r *vgen.Rand, short bool) {
	if short {
		p.DesTx = uint64(r.Range(1, 50000))
		if p.Mult != 0 {
			p.Mult = 1
		}
	} else {
		p.DesTx = uint64(600_000_000 + r.Intn(1_000_000))
	}
	p.pkt.DesiredMinTxInterval = layers.BFDTimeInterval(p.DesTx)
	p.pkt.DetectMultiplier = layers.BFDDetectMultiplier(p.Mult)
}

// wire serializes the control packet as the SCION packet a neighbor / sibling router would send
// (one-hop path on an external link, empty path on a sibling link). ok = false when the packet
// does not survive the wire unchanged (then it is handed to the session directly).
func (p *pktF) wire(local, remote addr.IA, sibling bool, ifID uint16) (raw []byte, ok bool) {
	scn := &slayers.SCION{TrafficClass: 0xb8, FlowID: 0xdead, NextHdr: slayers.L4BFD,
		SrcIA: remote, DstIA: local}
	if sibling {
		scn.SrcIA = local
		scn.PathType = empty.PathType
		scn.Path = &empty.Path{}
	} else {
		scn.PathType = onehop.PathType
		scn.Path = &onehop.Path{
			Info:     path.InfoField{ConsDir: true, Timestamp: uint32(time.Now().Unix() - 10)},
			FirstHop: path.HopField{ConsEgress: ifID, ExpTime: 63},
		}
	}
	if scn.SetSrcAddr(addr.HostIP(netip.AddrFrom4([4]byte{10, 9, 9, 2}))) != nil ||
		scn.SetDstAddr(addr.HostIP(netip.AddrFrom4([4]byte{10, 9, 9, 1}))) != nil {
		return nil, false
	}
	buf := gopacket.NewSerializeBuffer()
	var err error
	if panicked, _ := vgen.Recover(func() {
		err = gopacket.SerializeLayers(buf, gopacket.SerializeOptions{FixLengths: true}, scn, p.pkt)
	}); panicked || err != nil {
		return nil, false
	}
	raw = append([]byte(nil), buf.Bytes()...)
	// what the router will decode must be the packet we describe to the model
	var s2 slayers.SCION
	if s2.DecodeFromBytes(raw, gopacket.NilDecodeFeedback) != nil {
		return nil, false
	}
	var b2 layers.BFD
	if panicked, _ := vgen.Recover(func() {
		err = b2.DecodeFromBytes(s2.Payload, gopacket.NilDecodeFeedback)
	}); panicked || err != nil {
		return nil, false
	}
	if fmt.Sprint(fieldsOf(&b2)) != fmt.Sprint(p.fields()) {
		return nil, false
	}
	return raw, true
}

type nopSender struct{}

func (nopSender) Send(*layers.BFD) error { return nil }

// counter counts the Add calls Session.Run makes for every accepted message.
type counter struct {
	prometheus.Counter
	n atomic.Int64
}

func (c *counter) Add(v float64) {
	if v > 0 {
		c.n.Add(1)
	}
}

const (
	detect = 300 * time.Millisecond        // detection time armed by a "short" packet (mult 1)
	wait   = detect + 150*time.Millisecond // a detection-timeout event sleeps this long, then polls (settle)
)

// ---------------------------------------------------------------- histories

type dataPkt struct {
	sc     *rtgen.Scenario // nil for one-hop packets
	ohp    bool            // one-hop path (processOHP): no up check exists there
	follow bool            // rejected by the fast path: the slow-path reply is followed (HPktR)
	ing    rtgen.Ingress
	l4     rtgen.L4
	kind   string
	mut    string
	macs   string // MAC table term
	raw    []byte
	rec    *rtgen.Rec
	egress int // link id the packet leaves through when everything is up (-1: not forwarded to a router)
	class  string
}

type event struct {
	// BFD event
	link    int
	bfd     *pktF // nil with timeout = detection time passes
	timeout bool
	first   bool // first timeout of a group: this one waits
	arm     bool // accepted packet that arms the short detection time right before a timeout group: link not observed
	exp     int  // state the real transition table gives after this event (only used to wait for the session goroutine)
	discard bool
	raw     []byte // non-nil: delivered through the fast path
	// data packet
	data int // index into pool; -1 for BFD events
	stAt int // tracked session state of the packet's egress link when it is sent (generation only; 0 without session)
	// observations
	up    bool
	obs   rtgen.Obs
	obs2  rtgen2.Obs // one-hop packets
	rl    int        // link the slow-path reply was handed to; -1 none
	rlUp  bool       // IsUp() of that link just before
	fwd   int        // link id the packet was handed to; -1 none
	reply []uint64
	disp  int
	took  time.Duration
}

type hist struct {
	cfgName string
	cfg     *rtgen.Config
	reuse   bool
	sess    []int          // link ids with a session (sorted)
	rd0     map[int]uint32 // configured remote discriminator
	nosess  []int          // some links without session (targets of BFD packets that must be ignored)
	pool    []*dataPkt
	evs     []*event
	viol    []string
	err     string
	ohp     bool     // history of the one-hop stream
	tags    []string // known-finding tags, from the input
}

func linkIfaces(c *rtgen.Config) map[int][]*rtgen.Iface {
	m := map[int][]*rtgen.Iface{}
	for i := range c.Ifaces {
		f := &c.Ifaces[i]
		id := int(f.ID)
		if f.Sibling != 0 {
			id = rtgen.LinkSibling(f.Sibling)
		}
		m[id] = append(m[id], f)
	}
	return m
}

var dataKinds = []string{"transit", "xover", "first-hop", "peer-out", "peer-in", "transit", "xover", "inbound"}

// genHist draws one history. scratch is a dataplane with fake links that are all up (to learn
// where a packet goes when nothing is down).
// genOHP draws a one-hop packet: "out" leaves the AS through an own external interface (valid
// MAC, right neighbour), "badmac" the same with a wrong MAC, "in" enters the AS from a neighbour.
func genOHP(r *vgen.Rand, cfg *rtgen.Config, nowSec int64, variant string) *dataPkt {
	var own []*rtgen.Iface
	for i := range cfg.Ifaces {
		if f := &cfg.Ifaces[i]; f.Sibling == 0 && !f.Nbr.IsZero() {
			own = append(own, f)
		}
	}
	f := own[r.Intn(len(own))]
	segid, ts := uint16(r.U64()), uint32(nowSec-10)
	d := &rtgen2.OHP{
		Info:  rtgen.Info{ConsDir: true, SegID: segid, Timestamp: ts},
		First: rtgen.Hop{ConsEgress: f.ID, ExpTime: 63, Mac: rtgen.MAC(cfg.Key, segid, ts, 63, 0, f.ID)},
		SrcIA: cfg.IA, DstIA: f.Nbr,
		Src: rtgen.HostIP4(10, 0, byte(r.Intn(200)), byte(r.Range(1, 200))), Dst: rtgen.HostIP4(10, 7, byte(r.Intn(200)), byte(r.Range(1, 200))),
		TC: uint8(r.U64()), FlowID: uint32(r.U64()) & 0xfffff,
		L4: rtgen.UDP(uint16(r.Range(1024, 60000)), uint16(r.Range(1024, 60000)), r.Bytes(r.Intn(20))),
	}
	ing := rtgen.Ingress{Kind: rtgen.IngInt}
	switch variant {
	case "badmac":
		d.First.Mac[r.Intn(6)] ^= byte(1 + r.Intn(255))
	case "in":
		d.SrcIA, d.DstIA = f.Nbr, cfg.IA
		d.First.ConsEgress = uint16(r.Range(1, 500))
		copy(d.First.Mac[:], r.Bytes(6))
		ing = rtgen.Ingress{Kind: rtgen.IngExt, ID: int(f.ID)}
	}
	raw, err := d.Serialize()
	if err != nil {
		panic(err)
	}
	rec, _, err := rtgen2.Parse(raw)
	if err != nil || rec == nil {
		panic("c15: one-hop packet does not parse")
	}
	return &dataPkt{ohp: true, ing: ing, l4: d.L4, kind: "one-hop/" + variant, raw: raw, rec: rec, egress: -1,
		macs: rtgen2.OHPMacTable(cfg, rec, uint16(ing.ID))}
}

func genHist(r *vgen.Rand, cfgName string, cfg *rtgen.Config, scratch *rtgen.Router, nowSec int64, ohpHist bool) *hist {
	h := &hist{cfgName: cfgName, cfg: cfg, reuse: r.Bool(), rd0: map[int]uint32{}, ohp: ohpHist}
	links := linkIfaces(cfg)
	var allLinks []int
	for id := range links {
		allLinks = append(allLinks, id)
	}
	sort.Ints(allLinks)
	// packets
	np := r.Range(2, 3)
	if ohpHist { // one or two one-hop packets leaving the AS, sometimes a refused / an entering one, one SCION-path packet
		np = 1
		h.pool = append(h.pool, genOHP(r, cfg, nowSec, "out"))
		if r.Bool() {
			h.pool = append(h.pool, genOHP(r, cfg, nowSec, "out"))
		}
		if r.Bool() {
			h.pool = append(h.pool, genOHP(r, cfg, nowSec, vgen.Pick(r, "badmac", "in")))
		}
		for _, d := range h.pool {
			if o, err := scratch.Run(d.raw, d.ing); err == nil {
				d.class = o.Class()
				if o.Res.Disp == router.VerifForward && o.Res.EgressLink > 0 {
					d.egress = o.Res.EgressLink
				}
			}
		}
	}
	for i := 0; i < np; i++ {
		sc := rtgen.GenValid(r, cfg, nowSec, dataKinds[r.Intn(len(dataKinds))])
		if r.Chance(1, 4) {
			rtgen.Mutate(r, sc, cfg, nowSec, vgen.Pick(r, "alert", "alert", "expired", "mac", "consegress",
				"consingress", "ingress", "dstia", "srcia", "currhf", "paylen", "expired-next", "segid"))
		}
		raw, err := sc.Desc.Serialize()
		if err != nil {
			i--
			continue
		}
		rec, err := rtgen.Parse(raw)
		if err != nil || rec == nil {
			i--
			continue
		}
		d := &dataPkt{sc: sc, raw: raw, rec: rec, egress: -1, ing: sc.Ing, l4: sc.Desc.L4, kind: sc.Kind, mut: sc.Mut,
			macs: rtgen.MacTable(cfg, rec)}
		if o, err := scratch.Run(raw, sc.Ing); err == nil {
			d.class = o.Class()
			d.follow = strings.HasPrefix(d.class, "scmp-4-")
			if o.Res.Disp == router.VerifForward && o.Res.EgressLink > 0 {
				d.egress = o.Res.EgressLink
			}
		}
		h.pool = append(h.pool, d)
	}
	// sessions: on most egress links of the packets, on a few others
	has := map[int]bool{}
	for _, d := range h.pool {
		if d.egress > 0 && (d.ohp || r.Chance(4, 5)) {
			has[d.egress] = true
		}
		if r.Chance(1, 3) || (d.follow && r.Chance(3, 4)) { // the link a packet arrives on may have BFD as well (no influence)
			has[d.ing.Link()] = true
		}
	}
	for i := r.Intn(3); i > 0; i-- {
		has[allLinks[r.Intn(len(allLinks))]] = true
	}
	delete(has, 0)
	for id := range has {
		if _, ok := links[id]; ok {
			h.sess = append(h.sess, id)
		}
	}
	sort.Ints(h.sess)
	for _, id := range h.sess {
		h.rd0[id] = uint32(r.Intn(3))
	}
	for _, id := range allLinks {
		if !has[id] && len(h.nosess) < 2 && r.Chance(1, 3) {
			h.nosess = append(h.nosess, id)
		}
	}
	// events
	state := map[int]int{} // model-free tracking for generation bias only (real transition table)
	for _, id := range h.sess {
		state[id] = 1
	}
	upOnly := ohpHist && r.Chance(1, 3) // one-hop packets only while their egress session is up: nothing to report
	targeted := func() int {
		if upOnly {
			var ok []int
			for i, d := range h.pool {
				if !d.ohp || d.egress <= 0 || !has[d.egress] || state[d.egress] == 3 {
					ok = append(ok, i)
				}
			}
			return ok[r.Intn(len(ok))]
		}
		var c, up []int
		for i, d := range h.pool {
			if d.egress > 0 && has[d.egress] {
				c = append(c, i)
				if state[d.egress] == 3 {
					up = append(up, i)
				}
			}
		}
		if len(up) > 0 && r.Chance(1, 2) { // a packet whose egress link should be up right now
			return up[r.Intn(len(up))]
		}
		if len(c) == 0 || r.Chance(1, 4) {
			return r.Intn(len(h.pool))
		}
		return c[r.Intn(len(c))]
	}
	data := func(k int) {
		ev := &event{data: k, fwd: -1, rl: -1}
		if d := h.pool[k]; d.egress > 0 && has[d.egress] {
			ev.stAt = state[d.egress]
			if d.ohp && ev.stAt != 3 && len(h.tags) == 0 {
				// one-hop packet sent while the session of its egress link is not up: processOHP has no
				// validateEgressUp (open known finding)
				h.tags = []string{"ohp-ignores-link-state"}
			}
		}
		h.evs = append(h.evs, ev)
	}
	data(targeted())
	nPhases := r.Range(2, 3)
	for ph := 0; ph < nPhases; ph++ {
		start := len(h.evs)
		for n := r.Range(3, 6); n > 0; n-- {
			if len(h.sess)+len(h.nosess) == 0 || r.Chance(1, 3) {
				data(targeted())
				continue
			}
			var l int
			if len(h.sess) == 0 || (len(h.nosess) > 0 && r.Chance(1, 8)) {
				l = h.nosess[r.Intn(len(h.nosess))]
			} else {
				l = h.sess[r.Intn(len(h.sess))]
			}
			st := -1
			if s, ok := state[l]; ok && r.Chance(3, 4) { // a packet that makes progress towards Up
				switch s {
				case 1:
					st = vgen.Pick(r, 1, 2, 2)
				case 2:
					st = vgen.Pick(r, 2, 3)
				case 3:
					st = vgen.Pick(r, 3, 3, 3, 1)
				}
			}
			p := genPkt(r, true, st)
			ev := &event{link: l, bfd: p, data: -1}
			f := links[l][0]
			if r.Chance(1, 2) || !has[l] {
				if raw, ok := p.wire(cfg.IA, f.Nbr, f.Sibling != 0, f.ID); ok {
					ev.raw = raw
				} else if !has[l] {
					continue // nothing to hand the packet to
				}
			}
			ev.discard = bfd.VerifShouldDiscard(p.pkt)
			if !ev.discard && has[l] {
				state[l] = bfd.VerifTransition(state[l], int(p.State))
				ev.exp = state[l]
			}
			h.evs = append(h.evs, ev)
		}
		data(targeted())
		// Detection-time expiry. Every packet above arms a detection time that cannot expire
		// during the run. For the sessions chosen to expire, one more accepted packet arms a short
		// detection time immediately before the wait; the link is not looked at between that
		// packet and the expiry, so a slow machine cannot reorder what is observed.
		for _, ev := range h.evs[start:] {
			if ev.data >= 0 || ev.bfd == nil {
				continue
			}
			ev.bfd.setTiming(r, false)
			if ev.raw != nil { // re-serialize with the final timing
				f := links[ev.link][0]
				raw, ok := ev.bfd.wire(cfg.IA, f.Nbr, f.Sibling != 0, f.ID)
				if !ok {
					raw = nil
				}
				ev.raw = raw
			}
		}
		if r.Chance(2, 3) {
			var exp []int
			for _, l := range h.sess {
				if !r.Chance(2, 5) {
					continue
				}
				var p *pktF
				for {
					st := -1
					if r.Chance(2, 3) { // mostly a packet that keeps / brings the session up
						st = vgen.Pick(r, 2, 3, 3)
					}
					p = genPkt(r, true, st)
					if !bfd.VerifShouldDiscard(p.pkt) {
						break
					}
				}
				p.setTiming(r, true)
				ev := &event{link: l, bfd: p, data: -1, arm: true}
				f := links[l][0]
				if r.Bool() {
					if raw, ok := p.wire(cfg.IA, f.Nbr, f.Sibling != 0, f.ID); ok {
						ev.raw = raw
					}
				}
				state[l] = bfd.VerifTransition(state[l], int(p.State))
				ev.exp = state[l]
				h.evs = append(h.evs, ev)
				exp = append(exp, l)
			}
			for i, l := range exp {
				h.evs = append(h.evs, &event{link: l, timeout: true, first: i == 0, data: -1})
				state[l] = bfd.VerifTransition(state[l], 4)
				h.evs[len(h.evs)-1].exp = state[l]
			}
			if len(exp) > 0 {
				data(targeted())
				if r.Bool() {
					data(targeted())
				}
			}
		}
	}
	return h
}

func verifConfig(c *rtgen.Config) router.VerifConfig {
	vc := router.VerifConfig{LocalIA: c.IA}
	for _, i := range c.Ifaces {
		vc.Ifaces = append(vc.Ifaces, router.VerifIface{IfID: i.ID, LinkTo: topology.LinkType(i.LT),
			Neighbor: i.Nbr, Sibling: i.Sibling, Up: i.Up})
	}
	return vc
}

// decodeReply extracts [type, code, IA, ingress, ifid/egress, SrcIA] from the slow path's reply.
func decodeReply(raw []byte) []uint64 {
	out := []uint64{0, 0, 0, 0, 0, 0}
	pk := gopacket.NewPacket(raw, slayers.LayerTypeSCION, gopacket.Default)
	if l, ok := pk.Layer(slayers.LayerTypeSCION).(*slayers.SCION); ok && l != nil {
		out[5] = uint64(l.SrcIA)
	}
	if l, ok := pk.Layer(slayers.LayerTypeSCMP).(*slayers.SCMP); ok && l != nil {
		out[0], out[1] = uint64(l.TypeCode.Type()), uint64(l.TypeCode.Code())
	}
	if l, ok := pk.Layer(slayers.LayerTypeSCMPExternalInterfaceDown).(*slayers.SCMPExternalInterfaceDown); ok && l != nil {
		out[2], out[4] = uint64(l.IA), l.IfID
	}
	if l, ok := pk.Layer(slayers.LayerTypeSCMPInternalConnectivityDown).(*slayers.SCMPInternalConnectivityDown); ok && l != nil {
		out[2], out[3], out[4] = uint64(l.IA), l.Ingress, l.Egress
	}
	return out
}

// execHist runs the history on a fresh real dataplane.
func execHist(h *hist) {
	prov := router.VerifNewUnderlay("udpip", 8, 0, 0)
	if prov == nil {
		h.err = "no udpip underlay"
		return
	}
	prov.SetConnOpener(opener{reuse: h.reuse})
	rt, err := h.cfg.Build()
	if err != nil {
		h.err = err.Error()
		return
	}
	bcfg := map[int]control.BFD{}
	for _, l := range h.sess {
		bcfg[l] = control.BFD{Disable: ptr.To(false), DetectMult: 1,
			DesiredMinTxInterval: 50 * time.Millisecond, RequiredMinRxInterval: detect}
	}
	if err := rt.DP.VerifUseRealLinks(verifConfig(h.cfg), prov, bcfg); err != nil {
		h.err = err.Error()
		return
	}
	ctx, cancel := context.WithCancel(context.Background())
	defer cancel()
	isSess := map[int]bool{}
	rx := map[int]*counter{}
	accepted := map[int]int64{}
	var dones []chan struct{}
	for _, l := range h.sess {
		isSess[l] = true
		s := rt.DP.Links[l].BFDSession()
		if s == nil {
			h.err = fmt.Sprintf("link %d: BFD enabled but no session attached", l)
			return
		}
		c := &counter{Counter: prometheus.NewCounter(prometheus.CounterOpts{Name: "x"})}
		rx[l] = c
		s.Sender = nopSender{} // the real sender needs the running dataplane's packet pool
		s.Metrics = bfd.Metrics{PacketsReceived: c}
		s.ReceiveQueueSize = 0
		s.RemoteDiscriminator = layers.BFDDiscriminator(h.rd0[l])
		done := make(chan struct{})
		dones = append(dones, done)
		go func() { _ = s.Run(ctx); close(done) }()
	}
	defer func() {
		for _, l := range h.sess {
			_ = rt.DP.Links[l].BFDSession().Close()
		}
		for _, d := range dones {
			<-d
		}
	}()
	for _, l := range h.sess { // Run sets the state to Down when it has initialised the session
		s := rt.DP.Links[l].BFDSession()
		for i := 0; s.VerifLocalState() != 1 && i < 4000; i++ {
			time.Sleep(50 * time.Microsecond)
		}
	}
	for id, l := range rt.DP.Links {
		if id != 0 && !isSess[id] && l.BFDSession() != nil {
			h.viol = append(h.viol, fmt.Sprintf("link %d: BFD disabled but a session is attached", id))
		}
	}
	drain := func() { udpip.VerifPoolDrain(prov) }
	for _, ev := range h.evs {
		t0 := time.Now()
		switch {
		case ev.data >= 0:
			d := h.pool[ev.data]
			before := true
			if d.egress > 0 {
				before = rt.DP.Links[d.egress].IsUp()
			}
			if d.ohp {
				o2, err := rtgen2.Run(rt, d.raw, d.ing)
				if err != nil {
					h.err = err.Error()
					return
				}
				ev.obs2 = o2
				ev.disp = o2.Res.Disp
				if o2.Res.Disp == router.VerifForward && o2.Res.Sent {
					ev.fwd = o2.Res.EgressLink
				}
				if o2.Res.Disp == router.VerifPanic {
					h.viol = append(h.viol, "fast path panics: "+o2.Res.PanicMsg)
				}
				drain()
				break
			}
			o, err := rt.Run(d.raw, d.ing)
			if err != nil {
				h.err = err.Error()
				return
			}
			ev.obs = o
			ev.disp = o.Res.Disp
			if o.Res.Disp == router.VerifForward && o.Res.Sent {
				ev.fwd = o.Res.EgressLink
				if l := o.Res.EgressLink; l > 0 && !before && !rt.DP.Links[l].IsUp() && l == d.egress {
					h.viol = append(h.viol, fmt.Sprintf("packet %d forwarded over link %d whose BFD session is not up", ev.data, l))
				}
			}
			if o.Res.Disp == router.VerifPanic {
				h.viol = append(h.viol, "fast path panics: "+o.Res.PanicMsg)
			}
			drain()
			if o.Res.Disp == router.VerifSlowPath && (o.Res.Req.Type == int(slayers.SCMPTypeExternalInterfaceDown) ||
				o.Res.Req.Type == int(slayers.SCMPTypeInternalConnectivityDown)) {
				sr := rt.DP.VerifSlowPath(o.Res)
				if sr.PanicMsg != "" {
					h.viol = append(h.viol, "slow path panics: "+sr.PanicMsg)
				} else if !sr.Dropped {
					ev.reply = append(decodeReply(sr.Out), uint64(sr.Link))
				}
				drain()
			} else if d.follow && o.Res.Disp == router.VerifSlowPath && o.Res.Req.Type >= 0 {
				// the reply of the slow path goes back over the link the packet came from
				ev.rlUp = rt.DP.Links[d.ing.Link()].IsUp()
				sr := rt.DP.VerifSlowPath(o.Res)
				if sr.PanicMsg != "" {
					h.viol = append(h.viol, "slow path panics: "+sr.PanicMsg)
				} else if !sr.Dropped && sr.Sent {
					ev.rl = sr.Link
				}
				drain()
			}
		case ev.timeout:
			if ev.first {
				time.Sleep(wait)
			}
			settleFor(rt.DP.Links[ev.link].BFDSession(), ev.exp, 8*time.Second)
			ev.up = rt.DP.Links[ev.link].IsUp()
		default:
			l := rt.DP.Links[ev.link]
			if ev.raw != nil {
				res, err := rt.DP.VerifProcess(ev.raw, ev.link, nil)
				if err != nil {
					h.err = err.Error()
					return
				}
				ev.disp = res.Disp
				drain()
			} else if s := l.BFDSession(); s != nil {
				s.ReceiveMessage(ev.bfd.pkt)
			}
			if ev.arm { // handed to the session; nothing is looked at until the expiry
				accepted[ev.link]++
				break
			}
			if isSess[ev.link] && !ev.discard {
				accepted[ev.link]++
				for t0 := time.Now(); rx[ev.link].n.Load() < accepted[ev.link] && time.Since(t0) < 20*time.Second; {
					time.Sleep(50 * time.Microsecond)
				}
				settle(l.BFDSession(), ev.exp)
			}
			ev.up = l.IsUp()
		}
		ev.took = time.Since(t0)
	}
}

// ---------------------------------------------------------------- terms

func optN(v int) string {
	if v < 0 {
		return "None"
	}
	return vgen.Opt(vgen.N(uint64(v)), true)
}

func (h *hist) term() string {
	var sb strings.Builder
	sb.WriteString("(")
	var macs, names []string
	for i, d := range h.pool {
		port, ok, _ := d.l4.DstPort()
		fmt.Fprintf(&sb, "let pk%d := %s in ", i, d.rec.Gallina(port, ok))
		macs = append(macs, d.macs)
		names = append(names, fmt.Sprintf("pk%d", i))
	}
	var ss []string
	for _, l := range h.sess {
		ss = append(ss, fmt.Sprintf("(pair %d %d)", l, h.rd0[l]))
	}
	var evs []string
	for _, ev := range h.evs {
		switch {
		case ev.data >= 0:
			d := h.pool[ev.data]
			if d.ohp {
				evs = append(evs, fmt.Sprintf("(RouterBfd.HOhp %s %d %s %s)", d.ing.Gallina(), ev.data,
					ev.obs2.ResultTerm(rtgen2.RecTerm(ev.obs2.Out, d.l4)), optN(ev.fwd)))
				continue
			}
			if d.follow {
				evs = append(evs, fmt.Sprintf("(let p := pk%d in RouterBfd.HPktR %d %s %d %s %s %s)", ev.data,
					ev.obs.NowNs, d.ing.Gallina(), ev.data, ev.obs.ResultTerm(d.l4), optN(ev.rl), vgen.B(ev.rlUp)))
				continue
			}
			reply := "None"
			if ev.reply != nil {
				reply = vgen.Opt(vgen.NList(ev.reply), true)
			}
			evs = append(evs, fmt.Sprintf("(let p := pk%d in RouterBfd.HPkt %d %s %d %s %s %s)", ev.data,
				ev.obs.NowNs, d.ing.Gallina(), ev.data, ev.obs.ResultTerm(d.l4), optN(ev.fwd), reply))
		case ev.timeout:
			evs = append(evs, fmt.Sprintf("(RouterBfd.HBfd %d None (Some %s))", ev.link, vgen.B(ev.up)))
		default:
			up := "None"
			if !ev.arm {
				up = vgen.Opt(vgen.B(ev.up), true)
			}
			evs = append(evs, fmt.Sprintf("(RouterBfd.HBfd %d %s %s)", ev.link,
				vgen.Opt(vgen.NList(ev.bfd.fields()), true), up))
		}
	}
	fmt.Fprintf(&sb, "RouterBfd.CHist %s %s (%s) %s %s)", h.cfgName, vgen.List(ss),
		strings.Join(macs, " ++ "), vgen.List(names), vgen.List(evs))
	return sb.String()
}

func linkKind(l int) string {
	if l >= router.VerifSiblingBase {
		return "sibling"
	}
	return "external"
}

func main() {
	run := vgen.Flags("C15")
	run.Imports = []string{"Model.Router", "Model.RouterBfd"}
	run.CheckFn = "RouterBfd.check"
	run.DiagFn = "RouterBfd.diag"
	run.CaseType = "RouterBfd.case"
	run.ShardSize = 24
	run.Rule = "one case = one history on a real dataplane whose external/sibling links are real udpip links " +
		"(connectedLink / detachedLink) created by AddExternalInterface / AddNextHop with BFD on or off per link: " +
		"2-3 data packets (rtgen: transit, cross-over, first hop, peering, inbound; a quarter mutated: router alert, " +
		"expiry, MAC, interface ids, ...) sent repeatedly while real bfd.Session objects are driven by generated " +
		"control packets (all states, irregular ones; direct or as SCION/BFD packets through processBFD; also to " +
		"links without BFD) and detection-time expiries; non-trivial = the history contains a data packet whose " +
		"egress link has a BFD session. Stream ohp-history (audit follow-up): one-hop packets (processOHP, no BFD upper " +
		"layer) leaving through an own interface whose link has a session, sent in every session state (tag " +
		"ohp-ignores-link-state when sent while the session is not up), plus refused / entering one-hop packets. " +
		"Packets the fast path rejects with a parameter problem are followed through the slow path: the link the reply " +
		"is handed to and its IsUp() are recorded"
	rng := vgen.NewRand(run.Seed)

	nCfg := run.Count(6, 40)
	if run.N > 0 {
		nCfg = 6
	}
	type cf struct {
		name    string
		cfg     *rtgen.Config
		scratch *rtgen.Router
	}
	var cfgs []cf
	var prelude []string
	for i := 0; i < nCfg; i++ {
		c := rtgen.GenConfig(rng.Fork(uint64(1000 + i)))
		for k := range c.Ifaces { // link state comes from the sessions, not from the configuration
			c.Ifaces[k].Up = true
		}
		c.SiblingDown = map[int]bool{}
		name := fmt.Sprintf("cfg_%d", i)
		prelude = append(prelude, fmt.Sprintf("Definition %s : Router.cfg := %s.", name, c.Gallina()))
		sc, err := c.Build()
		if err != nil {
			fmt.Fprintln(os.Stderr, "cannot build dataplane:", err)
			os.Exit(3)
		}
		cfgs = append(cfgs, cf{name, c, sc})
	}
	run.Prelude = strings.Join(prelude, "\n")

	nh := run.Count(96, 2400)
	nOhp := run.Count(24, 400) // histories of the one-hop stream come after the nh ordinary ones
	if run.N > 0 {
		nOhp = run.N / 4
	}
	nData, nDataBfd, nBfd, nReplyDown := 0, 0, 0, 0
	const batch = 96
	for lo := 0; lo < nh+nOhp; lo += batch {
		hi := min(lo+batch, nh+nOhp)
		nowSec := time.Now().Unix()
		hs := make([]*hist, hi-lo)
		for i := lo; i < hi; i++ {
			c := cfgs[i%nCfg]
			hs[i-lo] = genHist(rng.Fork(uint64(i)), c.name, c.cfg, c.scratch, nowSec, i >= nh)
		}
		var wg sync.WaitGroup
		sem := make(chan struct{}, 96)
		for i, h := range hs {
			if !run.WantID(lo + i) {
				continue
			}
			wg.Add(1)
			sem <- struct{}{}
			go func(h *hist) {
				defer wg.Done()
				defer func() { <-sem }()
				if panicked, msg := vgen.Recover(func() { execHist(h) }); panicked {
					h.err = "harness panic: " + msg
				}
			}(h)
		}
		wg.Wait()
		for i, h := range hs {
			if !run.WantID(lo + i) {
				run.Skip()
				continue
			}
			if h.err != "" {
				run.Tally("unrunnable")
				run.Violate(lo+i, "history could not be executed: "+h.err, map[string]any{"cfg": h.cfgName})
				run.Skip()
				continue
			}
			isSess := map[int]bool{}
			for _, l := range h.sess {
				isSess[l] = true
			}
			nontriv := false
			var desc []any
			var key strings.Builder
			fmt.Fprintf(&key, "%s|%v|%v", h.cfgName, h.sess, h.reuse)
			for _, ev := range h.evs {
				if ev.took > 100*time.Millisecond && !(ev.timeout && ev.first) {
					run.Tally("slow-event(>100ms)")
				}
				switch {
				case ev.data >= 0:
					d := h.pool[ev.data]
					cls := ev.obs.Class()
					if d.ohp {
						cls = ev.obs2.Class()
					}
					where := "no-router-egress"
					if d.egress > 0 {
						where = linkKind(d.egress) + "-egress"
						if isSess[d.egress] {
							where += "-bfd"
							nontriv = true
						} else {
							where += "-nobfd"
						}
					}
					nData++
					if strings.HasSuffix(where, "-bfd") {
						nDataBfd++
					}
					switch {
					case d.ohp:
						st := "no-session"
						if d.egress > 0 && isSess[d.egress] {
							st = fmt.Sprintf("session-state%d", ev.stAt)
						}
						run.Tally("ohp:" + d.kind + ":" + st + ":" + cls)
					default:
						run.Tally("pkt:" + where + ":" + cls)
					}
					if d.follow && ev.rl >= 0 {
						ses := "nobfd"
						if isSess[ev.rl] {
							ses = "bfd"
						}
						run.Tally(fmt.Sprintf("reply-over-ingress-link:%s:up=%v", ses, ev.rlUp))
						if !ev.rlUp {
							nReplyDown++
						}
					}
					if ev.reply != nil {
						run.Tally("reply-decoded")
					}
					desc = append(desc, map[string]any{"pkt": ev.data, "kind": d.kind, "mut": d.mut, "reply_link": ev.rl, "reply_link_up": ev.rlUp,
						"ingress": d.ing.String(), "egress_link": d.egress, "impl": cls, "reply": ev.reply, "ms": ev.took.Milliseconds()})
					fmt.Fprintf(&key, "|p%x", d.raw)
				case ev.timeout:
					nBfd++
					run.Tally("bfd:timeout:up=" + vgen.B(ev.up))
					desc = append(desc, map[string]any{"timeout": ev.link, "up": ev.up, "ms": ev.took.Milliseconds()})
					fmt.Fprintf(&key, "|t%d", ev.link)
				default:
					nBfd++
					how := "direct"
					if ev.raw != nil {
						how = "wire"
					}
					ses := "session"
					if !isSess[ev.link] {
						ses = "nosession"
					}
					if ev.arm {
						run.Tally(fmt.Sprintf("bfd:arm-short-detection-%s:state%d", how, ev.bfd.State))
					} else {
						run.Tally(fmt.Sprintf("bfd:recv-%s-%s:state%d:discard=%v:up=%v", how, ses, ev.bfd.State, ev.discard, ev.up))
					}
					desc = append(desc, map[string]any{"bfd": ev.link, "state": ev.bfd.State, "my": ev.bfd.My,
						"your": ev.bfd.Your, "discard": ev.discard, "wire": ev.raw != nil, "disp": ev.disp, "up": ev.up, "arm": ev.arm, "ms": ev.took.Milliseconds()})
					fmt.Fprintf(&key, "|b%d:%v", ev.link, ev.bfd.fields())
				}
			}
			sib := "connected"
			if !h.reuse {
				sib = "detached"
			}
			run.Tally("sibling-links:" + sib)
			kind := "history"
			if h.ohp {
				kind = "ohp-history"
			}
			id := run.Add(kind, h.term(), key.String(), nontriv, map[string]any{
				"cfg": h.cfgName, "cfg_desc": h.cfg.Describe(), "sessions": h.sess, "rdisc0": h.rd0,
				"sibling_links": sib, "events": desc}, h.tags...)
			for _, v := range h.viol {
				run.Violate(id, v, map[string]any{"cfg": h.cfgName, "events": desc})
			}
		}
	}
	run.Extra("replies_sent_over_a_link_that_is_down", nReplyDown)
	run.Extra("data_packets_processed", nData)
	run.Extra("data_packets_with_bfd_egress", nDataBfd)
	run.Extra("bfd_events", nBfd)
	run.Finish()
}

// settle gives the session goroutine time to finish the transition it is in: it waits (at most
// 2 s) until the local state is the one the real transition table yields. Whatever the state is
// afterwards is what gets recorded, so a wrong state is not masked, only a slow one awaited.
func settle(s *bfd.Session, exp int) { settleFor(s, exp, 2*time.Second) }

func settleFor(s *bfd.Session, exp int, bound time.Duration) {
	t0 := time.Now()
	for s != nil && s.VerifLocalState() != exp && time.Since(t0) < bound {
		time.Sleep(200 * time.Microsecond)
	}
}
