package main

import (
	"errors"
	"fmt"
	"net"
	"net/netip"
	"runtime"
	"sync"
	"sync/atomic"
	"time"

	"github.com/scionproto/scion/private/underlay/conn"
	"github.com/scionproto/scion/router"
	"verifharness/internal/vgen"
)

// dgram is one datagram offered to a fake socket.
type dgram struct {
	data []byte
	src  *net.UDPAddr
}

var errFault = errors.New("injected fault")

// fakeConn is an in-memory router.BatchConn with fault injection. ReadBatch is only called by
// the connection's receive goroutine and WriteBatch only by its send goroutine, so each side has
// its own PRNG (forked from the case seed).
type fakeConn struct {
	name   string
	remote netip.AddrPort
	tr     *router.VerifPoolTracker

	in        chan dgram
	closed    chan struct{}
	closeOnce sync.Once

	rrng       *vgen.Rand
	readErrPct int
	maxRead    int
	reads      atomic.Int64

	wrng         *vgen.Rand
	pPartial     atomic.Int32
	pErr         atomic.Int32
	slowUs       int
	goschedPct   int
	gated        atomic.Bool
	permits      chan struct{}
	waiting      atomic.Int32
	closePartial atomic.Bool
	closeMode    atomic.Int32 // what WriteBatch returns at / after Close, see closeResult

	writes, partials, werrs, written atomic.Int64
	maxBatch                         atomic.Int64
	bfdDisc                          atomic.Uint32
}

func newFakeConn(name string, remote netip.AddrPort, tr *router.VerifPoolTracker,
	r *vgen.Rand) *fakeConn {
	return &fakeConn{
		name: name, remote: remote, tr: tr,
		in:      make(chan dgram, 4096),
		closed:  make(chan struct{}),
		permits: make(chan struct{}, 64),
		rrng:    r.Fork(1), wrng: r.Fork(2),
	}
}

func bufsOf(msgs conn.Messages) [][]byte {
	out := make([][]byte, len(msgs))
	for i := range msgs {
		out[i] = msgs[i].Buffers[0]
	}
	return out
}

func (c *fakeConn) ReadBatch(msgs conn.Messages) (int, error) {
	c.tr.Use(bufsOf(msgs))
	c.reads.Add(1)
	if c.rrng.Chance(c.readErrPct, 100) {
		return 0, errFault
	}
	var first dgram
	select {
	case <-c.closed:
		return 0, net.ErrClosed
	default:
	}
	select {
	case first = <-c.in:
	case <-c.closed:
		return 0, net.ErrClosed
	}
	limit := len(msgs)
	if c.maxRead > 0 && c.maxRead < limit {
		limit = c.maxRead
	}
	if limit > 1 && c.rrng.Chance(1, 4) {
		limit = c.rrng.Range(1, limit)
	}
	n := 0
	put := func(d dgram) {
		k := copy(msgs[n].Buffers[0], d.data)
		msgs[n].N = k
		msgs[n].Addr = d.src
		n++
	}
	put(first)
	for n < limit {
		select {
		case d := <-c.in:
			put(d)
			continue
		default:
		}
		break
	}
	if c.rrng.Chance(c.goschedPct, 100) {
		runtime.Gosched()
	}
	return n, nil
}

func (c *fakeConn) WriteBatch(msgs conn.Messages, _ int) (int, error) {
	c.tr.Use(bufsOf(msgs))
	n := len(msgs)
	c.writes.Add(1)
	if int64(n) > c.maxBatch.Load() {
		c.maxBatch.Store(int64(n))
	}
	byClose := false
	select {
	case <-c.closed:
		byClose = true // called after the socket was closed
	default:
	}
	if !byClose && c.gated.Load() {
		c.waiting.Add(1)
		select {
		case <-c.permits:
		case <-c.closed:
			byClose = true
		}
		c.waiting.Add(-1)
	}
	for i := range msgs {
		b := msgs[i].Buffers[0]
		// outgoing BFD control packet: learn the router's discriminator
		if len(b) >= 36 && b[4] == 203 {
			t := b[len(b)-24:]
			c.bfdDisc.Store(uint32(t[4])<<24 | uint32(t[5])<<16 | uint32(t[6])<<8 | uint32(t[7]))
		}
	}
	if c.slowUs > 0 && !byClose {
		time.Sleep(time.Duration(c.wrng.Intn(c.slowUs)+1) * time.Microsecond)
	}
	if c.wrng.Chance(c.goschedPct, 100) {
		runtime.Gosched()
	}
	if n == 0 {
		return 0, nil
	}
	if byClose {
		if k, err, ok := c.closeResult(n); ok {
			return k, err
		}
	}
	r := c.wrng.Intn(100)
	switch {
	case r < int(c.pErr.Load()):
		c.werrs.Add(1)
		return -1, errFault
	case r < int(c.pErr.Load()+c.pPartial.Load()) && n >= 2:
		c.partials.Add(1)
		k := c.wrng.Intn(n)
		c.written.Add(int64(k))
		return k, errFault
	}
	c.written.Add(int64(n))
	return n, nil
}

// closeResult is what a write on a socket that is (being) closed returns, by closeMode:
// 0 nothing special, 1 a partial count (needs closePartial and n >= 2), 2 (-1, net.ErrClosed),
// 3 (-1, *net.OpError wrapping net.ErrClosed), 4 (-1, fmt-wrapped net.ErrClosed),
// 5 (-1, some other error).
func (c *fakeConn) closeResult(n int) (int, error, bool) {
	switch c.closeMode.Load() {
	case 1:
		if c.closePartial.Load() && n >= 2 {
			c.partials.Add(1)
			k := c.wrng.Intn(n - 1) // leaves at least one packet after the dropped one
			c.written.Add(int64(k))
			return k, nil, true
		}
	case 2:
		c.werrs.Add(1)
		return -1, net.ErrClosed, true
	case 3:
		c.werrs.Add(1)
		return -1, &net.OpError{Op: "write", Net: "udp", Err: net.ErrClosed}, true
	case 4:
		c.werrs.Add(1)
		return -1, fmt.Errorf("sendmmsg: %w", net.ErrClosed), true
	case 5:
		c.werrs.Add(1)
		return -1, errFault, true
	}
	return 0, nil, false
}

func (c *fakeConn) Close() error {
	c.closeOnce.Do(func() { close(c.closed) })
	return nil
}

// opener hands out the fake connections (udpip.ConnOpener).
type opener struct {
	reuse bool
	tr    *router.VerifPoolTracker
	rng   *vgen.Rand
	mu    sync.Mutex
	conns []*fakeConn
}

func (o *opener) Open(l, r netip.AddrPort, _ *conn.Config) (router.BatchConn, error) {
	o.mu.Lock()
	defer o.mu.Unlock()
	name := "internal"
	if r.IsValid() {
		name = r.String()
	}
	c := newFakeConn(name, r, o.tr, o.rng.Fork(uint64(len(o.conns)+10)))
	o.conns = append(o.conns, c)
	return c, nil
}

func (o *opener) UDPCanReuseLocal() bool { return o.reuse }

func (o *opener) byRemote(s string) *fakeConn {
	for _, c := range o.conns {
		if c.name == s {
			return c
		}
	}
	return nil
}
