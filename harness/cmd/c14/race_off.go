//go:build !race

package main

const raceEnabled = false
