package main

import (
	"net"
	"net/netip"
	"time"

	"github.com/gopacket/gopacket"
	"github.com/gopacket/gopacket/layers"

	"github.com/scionproto/scion/pkg/addr"
	"github.com/scionproto/scion/pkg/scrypto"
	"github.com/scionproto/scion/pkg/slayers"
	"github.com/scionproto/scion/pkg/slayers/path"
	"github.com/scionproto/scion/pkg/slayers/path/empty"
	"github.com/scionproto/scion/pkg/slayers/path/onehop"
	"github.com/scionproto/scion/pkg/slayers/path/scion"
	"github.com/scionproto/scion/pkg/stun"
	"github.com/scionproto/scion/router"
	"verifharness/internal/vgen"
)

// Connections of the dataplane built by router.VerifPoolNewDP.
const (
	cInt = iota // internal (and, without address reuse, the sibling link)
	cExt1
	cExt2
	cSib
)

var (
	key     = []byte("testkey_xxxxxxxx")
	localIA = addr.MustParseIA(router.VerifPoolLocalIA)
	ia111   = addr.MustParseIA(router.VerifPoolExt1IA)
	ia112   = addr.MustParseIA(router.VerifPoolExt2IA)
	ia113   = addr.MustParseIA(router.VerifPoolSibIA)
	hostA   = addr.MustParseHost("10.0.0.100")
	hostB   = addr.MustParseHost("172.16.5.5")
	udpOf   = func(s string) *net.UDPAddr { return net.UDPAddrFromAddrPort(netip.MustParseAddrPort(s)) }
	srcInt  = udpOf("10.0.0.100:40000")
	srcSib  = udpOf(router.VerifPoolSiblingAddr)
	srcExt1 = udpOf(router.VerifPoolExt1Remote)
	srcExt2 = udpOf(router.VerifPoolExt2Remote)
)

func mac(info path.InfoField, hf path.HopField) [path.MacLen]byte {
	h, err := scrypto.InitMac(key)
	if err != nil {
		panic(err)
	}
	return path.MAC(h, info, hf, nil)
}

type pktSpec struct {
	srcIA, dstIA     addr.IA
	src, dst         addr.Host
	consDir          bool
	in, eg           uint16 // ConsIngress / ConsEgress of this router's hop field
	pos              int    // index of this router's hop field (0..2)
	badMAC           bool
	expired          bool
	inAlert, egAlert bool
	traceroute       bool
	scmpErr          bool // L4 is an SCMP error message: the slow path refuses to answer it
	fromInside       bool // arrives over the internal / sibling link: SegID already updated
	payload          int
}

// scionPkt serializes a one-segment, three-hop SCION packet whose current hop field is this
// router's.
func scionPkt(s pktSpec) []byte {
	now := time.Now()
	ts := uint32(now.Unix()) - 5
	exp := uint8(63)
	if s.expired {
		ts = uint32(now.Add(-48 * time.Hour).Unix())
		exp = 0
	}
	info := path.InfoField{SegID: 0x4711, ConsDir: s.consDir, Timestamp: ts}
	hops := []path.HopField{
		{ConsIngress: 0, ConsEgress: 41, ExpTime: 63},
		{ConsIngress: 31, ConsEgress: 30, ExpTime: 63},
		{ConsIngress: 51, ConsEgress: 0, ExpTime: 63},
	}
	hf := path.HopField{ConsIngress: s.in, ConsEgress: s.eg, ExpTime: exp,
		IngressRouterAlert: s.inAlert, EgressRouterAlert: s.egAlert}
	hf.Mac = mac(info, hf)
	if s.badMAC {
		hf.Mac[2] ^= 0x5a
	}
	hops[s.pos] = hf
	if !s.consDir && !s.fromInside {
		// against construction direction the packet carries the SegID after this hop
		info.UpdateSegID(hf.Mac)
	}
	dp := &scion.Decoded{
		Base: scion.Base{
			PathMeta: scion.MetaHdr{CurrHF: uint8(s.pos), SegLen: [3]uint8{3, 0, 0}},
			NumINF:   1, NumHops: 3,
		},
		InfoFields: []path.InfoField{info},
		HopFields:  hops,
	}
	spkt := &slayers.SCION{
		Version: 0, TrafficClass: 0xb8, FlowID: 0xdead,
		PathType: scion.PathType, Path: dp,
		SrcIA: s.srcIA, DstIA: s.dstIA,
	}
	must(spkt.SetSrcAddr(s.src))
	must(spkt.SetDstAddr(s.dst))
	buf := gopacket.NewSerializeBuffer()
	opts := gopacket.SerializeOptions{FixLengths: true, ComputeChecksums: true}
	if s.traceroute {
		spkt.NextHdr = slayers.L4SCMP
		scmp := &slayers.SCMP{
			TypeCode: slayers.CreateSCMPTypeCode(slayers.SCMPTypeTracerouteRequest, 0)}
		scmp.SetNetworkLayerForChecksum(spkt)
		must(gopacket.SerializeLayers(buf, opts, spkt, scmp,
			&slayers.SCMPTraceroute{Identifier: 7, Sequence: 9}))
		return buf.Bytes()
	}
	if s.scmpErr {
		spkt.NextHdr = slayers.L4SCMP
		scmp := &slayers.SCMP{
			TypeCode: slayers.CreateSCMPTypeCode(slayers.SCMPTypeDestinationUnreachable, 0)}
		scmp.SetNetworkLayerForChecksum(spkt)
		must(gopacket.SerializeLayers(buf, opts, spkt, scmp,
			&slayers.SCMPDestinationUnreachable{}, gopacket.Payload(make([]byte, 16))))
		return buf.Bytes()
	}
	spkt.NextHdr = slayers.L4UDP
	udp := &slayers.UDP{SrcPort: 40000, DstPort: 40001}
	udp.SetNetworkLayerForChecksum(spkt)
	must(gopacket.SerializeLayers(buf, opts, spkt, udp, gopacket.Payload(make([]byte, s.payload))))
	return buf.Bytes()
}

// bfdPkt is a BFD control packet as the neighbour on interface 2 (one-hop path) or the sibling
// router (empty path) would send it.
func bfdPkt(sibling bool, state layers.BFDState, my, your uint32) []byte {
	spkt := &slayers.SCION{
		Version: 0, TrafficClass: 0xb8, FlowID: 0xdead, NextHdr: slayers.L4BFD,
	}
	if sibling {
		spkt.PathType = empty.PathType
		spkt.Path = &empty.Path{}
		spkt.SrcIA, spkt.DstIA = localIA, localIA
		must(spkt.SetSrcAddr(addr.MustParseHost("10.0.0.2")))
		must(spkt.SetDstAddr(addr.MustParseHost("10.0.0.1")))
	} else {
		ohp := &onehop.Path{
			Info:     path.InfoField{ConsDir: true, Timestamp: uint32(time.Now().Unix()) - 5},
			FirstHop: path.HopField{ConsEgress: 7, ExpTime: 63},
		}
		spkt.PathType = onehop.PathType
		spkt.Path = ohp
		spkt.SrcIA, spkt.DstIA = ia112, localIA
		must(spkt.SetSrcAddr(addr.MustParseHost("10.2.0.2")))
		must(spkt.SetDstAddr(addr.MustParseHost("10.2.0.1")))
	}
	b := &layers.BFD{
		Version: 1, State: state, DetectMultiplier: 3,
		MyDiscriminator:       layers.BFDDiscriminator(my),
		YourDiscriminator:     layers.BFDDiscriminator(your),
		DesiredMinTxInterval:  1000,
		RequiredMinRxInterval: 1000,
	}
	buf := gopacket.NewSerializeBuffer()
	must(gopacket.SerializeLayers(buf, gopacket.SerializeOptions{FixLengths: true}, spkt, b))
	return buf.Bytes()
}

func must(err error) {
	if err != nil {
		panic(err)
	}
}

// Packet kinds of the traffic generator.
const (
	kTransit12  = iota // if 1 -> if 2
	kTransit21         // if 2 -> if 1 (against construction direction)
	kTransit13         // if 1 -> if 3 (owned by the sibling router)
	kFromSib           // from the sibling router -> if 2
	kInbound           // if 1 -> local host
	kOutbound1         // local host -> if 1
	kOutbound2         // local host -> if 2
	kBadMAC            // slow path: parameter problem
	kExpired           // slow path: expired hop
	kUnknownEgr        // slow path: unknown egress interface
	kTraceroute        // slow path: traceroute request (router alert)
	kShort             // too short for a SCION header (no processor id)
	kBadNextHdr        // unknown next-header (no processor id)
	kTruncated         // common header fine, path truncated: discarded by the processor
	kGarbage           // random bytes behind a plausible common header
	kSTUN              // STUN binding request on the internal socket
	kSTUNBad           // STUN magic, not a binding request
	kIntGarbage        // garbage on the internal socket (internal link's own processing)
	kBFDExt            // BFD control packet on if 2
	kBFDSib            // BFD control packet from the sibling router
	kInboundSVC        // if 1 -> local service address without backend (slow path)
	numKinds
)

var kindNames = [...]string{"transit12", "transit21", "transit13", "fromsib", "inbound",
	"outbound1", "outbound2", "badmac", "expired", "unknownegr", "traceroute", "short",
	"badnexthdr", "truncated", "garbage", "stun", "stunbad", "intgarbage", "bfdext", "bfdsib",
	"inboundsvc"}

// gen builds one datagram of the given kind: (connection, datagram). reuse tells whether the
// sibling link has its own connection.
func gen(kind int, r *vgen.Rand, reuse bool, disc2, discS uint32) (int, dgram) {
	pl := vgen.Pick(r, 8, 60, 300)
	sibConn, sibSrc := cInt, srcSib
	if reuse {
		sibConn = cSib
	}
	switch kind {
	case kTransit12:
		return cExt1, dgram{scionPkt(pktSpec{srcIA: ia111, dstIA: ia112, src: hostB, dst: hostB,
			consDir: true, in: 1, eg: 2, pos: 1, payload: pl}), srcExt1}
	case kTransit21:
		return cExt2, dgram{scionPkt(pktSpec{srcIA: ia112, dstIA: ia111, src: hostB, dst: hostB,
			consDir: false, in: 1, eg: 2, pos: 1, payload: pl}), srcExt2}
	case kTransit13:
		return cExt1, dgram{scionPkt(pktSpec{srcIA: ia111, dstIA: ia113, src: hostB, dst: hostB,
			consDir: true, in: 1, eg: 3, pos: 1, payload: pl}), srcExt1}
	case kFromSib:
		return sibConn, dgram{scionPkt(pktSpec{srcIA: ia113, dstIA: ia111, src: hostB, dst: hostB,
			consDir: false, in: 1, eg: 3, pos: 1, fromInside: true, payload: pl}), sibSrc}
	case kInbound:
		return cExt1, dgram{scionPkt(pktSpec{srcIA: ia111, dstIA: localIA, src: hostB, dst: hostA,
			consDir: true, in: 1, eg: 0, pos: 2, payload: pl}), srcExt1}
	case kInboundSVC:
		return cExt1, dgram{scionPkt(pktSpec{srcIA: ia111, dstIA: localIA, src: hostB,
			dst: addr.HostSVC(addr.SvcCS), consDir: true, in: 1, eg: 0, pos: 2, payload: pl}), srcExt1}
	case kOutbound1:
		return cInt, dgram{scionPkt(pktSpec{srcIA: localIA, dstIA: ia111, src: hostA, dst: hostB,
			consDir: false, in: 1, eg: 0, pos: 0, fromInside: true, payload: pl}), srcInt}
	case kOutbound2:
		return cInt, dgram{scionPkt(pktSpec{srcIA: localIA, dstIA: ia112, src: hostA, dst: hostB,
			consDir: true, in: 0, eg: 2, pos: 0, payload: pl}), srcInt}
	case kBadMAC:
		return cExt1, dgram{scionPkt(pktSpec{srcIA: ia111, dstIA: ia112, src: hostB, dst: hostB,
			consDir: true, in: 1, eg: 2, pos: 1, badMAC: true, payload: pl}), srcExt1}
	case kExpired:
		return cExt2, dgram{scionPkt(pktSpec{srcIA: ia112, dstIA: ia111, src: hostB, dst: hostB,
			consDir: false, in: 1, eg: 2, pos: 1, expired: true, payload: pl}), srcExt2}
	case kUnknownEgr:
		return cExt1, dgram{scionPkt(pktSpec{srcIA: ia111, dstIA: ia112, src: hostB, dst: hostB,
			consDir: true, in: 1, eg: 9, pos: 1, payload: pl}), srcExt1}
	case kTraceroute:
		return cExt1, dgram{scionPkt(pktSpec{srcIA: ia111, dstIA: ia112, src: hostB, dst: hostB,
			consDir: true, in: 1, eg: 2, pos: 1, inAlert: true, traceroute: true}), srcExt1}
	case kShort:
		c, s := pickExt(r, reuse)
		return c, dgram{r.Bytes(r.Range(0, 11)), s}
	case kBadNextHdr:
		c, s := pickExt(r, reuse)
		b := scionPkt(pktSpec{srcIA: ia111, dstIA: ia112, src: hostB, dst: hostB,
			consDir: true, in: 1, eg: 2, pos: 1, payload: 8})
		b[4] = 0x21
		return c, dgram{b, s}
	case kTruncated:
		c, s := pickExt(r, reuse)
		b := scionPkt(pktSpec{srcIA: ia111, dstIA: ia112, src: hostB, dst: hostB,
			consDir: true, in: 1, eg: 2, pos: 1, payload: 8})
		return c, dgram{b[:r.Range(36, len(b)-20)], s}
	case kGarbage:
		c, s := pickExt(r, reuse)
		b := scionPkt(pktSpec{srcIA: ia111, dstIA: ia112, src: hostB, dst: hostB,
			consDir: true, in: 1, eg: 2, pos: 1, payload: 8})
		copy(b[36:], r.Bytes(len(b)-36))
		return c, dgram{b, s}
	case kSTUN:
		var tx stun.TxID
		copy(tx[:], r.Bytes(12))
		return cInt, dgram{stun.Request(tx), srcInt}
	case kSTUNBad:
		var tx stun.TxID
		copy(tx[:], r.Bytes(12))
		b := stun.Request(tx)
		b[1] = 0x11
		return cInt, dgram{b, srcInt}
	case kIntGarbage:
		return cInt, dgram{r.Bytes(r.Range(0, 30)), srcInt}
	case kBFDExt:
		st, your := layers.BFDStateDown, uint32(0)
		if disc2 != 0 && r.Chance(3, 4) {
			st, your = pickState(r), disc2
		}
		return cExt2, dgram{bfdPkt(false, st, 99, your), srcExt2}
	case kBFDSib:
		st, your := layers.BFDStateDown, uint32(0)
		if discS != 0 && r.Chance(3, 4) {
			st, your = pickState(r), discS
		}
		return sibConn, dgram{bfdPkt(true, st, 98, your), sibSrc}
	}
	panic("kind")
}

// slowDropPkt arrives on if 1 with a bad hop field MAC (-> slow path) and carries an SCMP error
// message, which the slow path never answers: it returns the buffer.
func slowDropPkt() []byte {
	return scionPkt(pktSpec{srcIA: ia111, dstIA: ia112, src: hostB, dst: hostB,
		consDir: true, in: 1, eg: 2, pos: 1, badMAC: true, scmpErr: true})
}

// discardPkt arrives on if 1 and is cut in the middle of its path: the processor discards it.
func discardPkt(r *vgen.Rand) []byte {
	b := scionPkt(pktSpec{srcIA: ia111, dstIA: ia112, src: hostB, dst: hostB,
		consDir: true, in: 1, eg: 2, pos: 1, payload: 8})
	return b[:r.Range(36, len(b)-20)]
}

func pickExt(r *vgen.Rand, reuse bool) (int, *net.UDPAddr) {
	switch r.Intn(3) {
	case 0:
		return cExt1, srcExt1
	case 1:
		return cExt2, srcExt2
	}
	if reuse {
		return cSib, srcSib
	}
	return cInt, srcSib
}

func pickState(r *vgen.Rand) layers.BFDState {
	// No AdminDown: a session that received it stays in AdminDown and keeps transmitting at the
	// fast rate (C16), which makes stopping the router unsafe (see runCase).
	return vgen.Pick(r, layers.BFDStateDown, layers.BFDStateInit, layers.BFDStateUp,
		layers.BFDStateUp)
}
