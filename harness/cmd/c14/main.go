// Runner for C14: every packet buffer has exactly one owner at a time.
//
// Each case builds the REAL router dataplane (router.dataPlane.Run) over the real udpip underlay
// provider with in-memory BatchConns (internal + 2 external + 1 sibling link), drives it with a
// seeded mix of valid, slow-path and malformed datagrams and BFD traffic while the fake sockets
// inject faults (partial / failed WriteBatch, read errors, slow and blocked senders that fill the
// tiny queues, runtime.Gosched, GOMAXPROCS variations), then shuts it down. The tracker hook in
// PacketPool.Get/Put (build tag verif) logs every Get/Put with the buffer's index and the
// goroutine's stage, the sockets log every buffer presented to ReadBatch/WriteBatch. The recorded
// trace plus the final location of every buffer (pool / some queue / nowhere) is checked inside
// Coq by Pool.check (Pool.accepts on the completed trace). Double Put, Get of a held buffer and
// leaks are also reported directly (run.Violate).
package main

import (
	"context"
	"encoding/json"
	"flag"
	"fmt"
	"os"
	"os/exec"
	"path/filepath"
	"runtime"
	"sort"
	"strconv"
	"strings"
	"sync"
	"sync/atomic"
	"time"

	"github.com/gopacket/gopacket/layers"
	"go.uber.org/zap"
	"go.uber.org/zap/zapcore"

	"github.com/scionproto/scion/router"
	"github.com/scionproto/scion/router/underlayproviders/udpip"
	"verifharness/internal/vgen"
)

type caseCfg struct {
	Batch, Procs, Slow, MaxProcs int
	Reuse, BFD                   bool
	Profile                      string
	Packets                      int
	PPartial, PErr, ReadErr      int
	SlowUs, Gosched              int
	DirectBFD                    int // goroutines calling bfdSend.Send directly
	Retained                     bool
	HotStop                      bool // Shutdown while the processor queues are full
	CloseMode                    int  // result of a write on a closed socket (fakeConn.closeResult)
	GateConn                     int  // connection whose sender is blocked for a while (-1: none)
}

type caseOut struct {
	N        int
	Threads  []router.VerifPoolThread
	Events   []router.VerifPoolEvent
	Final    []int // per token: 0 pool, 1 queue, 2 nowhere, 3 found twice
	Direct   []string
	Dropped  int
	Stats    map[string]int64
	Leaked   []int
	LeakedBy []int // stage of the last holder of each leaked token (per the trace)
	Hung     bool
}

var profiles = []string{"mixed", "forward", "slowpath", "malformed", "internal", "bfd", "oneegress"}

func weights(profile string, bfd bool) []int {
	w := make([]int, numKinds)
	set := func(v int, ks ...int) {
		for _, k := range ks {
			w[k] = v
		}
	}
	fwd := []int{kTransit12, kTransit21, kTransit13, kFromSib, kInbound, kOutbound1, kOutbound2}
	slow := []int{kBadMAC, kExpired, kUnknownEgr, kTraceroute, kInboundSVC}
	bad := []int{kShort, kBadNextHdr, kTruncated, kGarbage}
	internal := []int{kSTUN, kSTUNBad, kIntGarbage}
	set(4, fwd...)
	set(2, slow...)
	set(2, bad...)
	set(2, internal...)
	switch profile {
	case "forward":
		set(12, fwd...)
	case "slowpath":
		set(10, slow...)
	case "malformed":
		set(10, bad...)
	case "internal":
		set(10, internal...)
		set(8, kOutbound1, kOutbound2, kInbound)
	case "oneegress":
		set(0, fwd...)
		set(30, kTransit12, kOutbound2)
	}
	if bfd {
		set(3, kBFDExt, kBFDSib)
		if profile == "bfd" {
			set(14, kBFDExt, kBFDSib)
		}
	}
	return w
}

func pickKind(r *vgen.Rand, w []int) int {
	tot := 0
	for _, v := range w {
		tot += v
	}
	x := r.Intn(tot)
	for k, v := range w {
		if x < v {
			return k
		}
		x -= v
	}
	return 0
}

func genCfg(r *vgen.Rand, i int) caseCfg {
	c := caseCfg{
		Batch:    vgen.Pick(r, 1, 2, 3, 4, 4, 8),
		Procs:    vgen.Pick(r, 1, 2, 3),
		Slow:     vgen.Pick(r, 1, 1, 2),
		MaxProcs: vgen.Pick(r, 1, 2, 4, 8),
		Reuse:    r.Bool(),
		BFD:      r.Chance(1, 2),
		Profile:  profiles[i%len(profiles)],
		Packets:  r.Range(40, 120),
		PPartial: vgen.Pick(r, 0, 10, 30, 60),
		PErr:     vgen.Pick(r, 0, 5, 20),
		ReadErr:  vgen.Pick(r, 0, 0, 3),
		SlowUs:   vgen.Pick(r, 0, 0, 50, 300),
		Gosched:  vgen.Pick(r, 0, 20, 60),
		GateConn: vgen.Pick(r, -1, -1, cInt, cExt1, cExt2),
	}
	if c.Slow > c.Procs {
		c.Slow = c.Procs
	}
	c.DirectBFD = vgen.Pick(r, 0, 0, 1, 2)
	c.Retained = r.Chance(1, 2)
	c.CloseMode = vgen.Pick(r, 0, 2, 3, 4, 5)
	if c.Retained {
		c.CloseMode = vgen.Pick(r, 2, 3, 4, 5)
		if c.Batch >= 3 {
			c.CloseMode = vgen.Pick(r, 1, 1, 2, 3, 4, 5)
		}
	}
	c.HotStop = !c.Retained && r.Chance(1, 2)
	if c.Profile == "bfd" {
		c.BFD = true
	}
	return c
}

var stackBuf = make([]byte, 1<<19)

var routerFuncs = []string{
	"router.(*dataPlane).runProcessor", "router.(*dataPlane).runSlowPathProcessor",
	"udpip.(*udpConnection).receive", "udpip.(*udpConnection).send",
	"udpip.(*internalLink).runProcessor", "bfd.(*Session).Run",
}

// routerIdle reports whether every goroutine of the router is blocked on a channel (a processor
// waiting for its queue, a receive loop inside the fake ReadBatch, a send loop waiting for its
// queue or held at the fake WriteBatch gate, a BFD session between two transmissions). The
// snapshot of all goroutines is taken with the world stopped.
func routerIdle() bool {
	k := runtime.Stack(stackBuf, true)
	for k == len(stackBuf) {
		stackBuf = make([]byte, 2*len(stackBuf))
		k = runtime.Stack(stackBuf, true)
	}
	buf := stackBuf[:k]
	for _, g := range strings.Split(string(buf), "\n\n") {
		isRouter := false
		for _, f := range routerFuncs {
			if strings.Contains(g, f) {
				isRouter = true
				break
			}
		}
		if !isRouter {
			continue
		}
		i, j := strings.IndexByte(g, '['), strings.IndexByte(g, ']')
		if i < 0 || j < i {
			return false
		}
		st := g[i+1 : j]
		if !strings.HasPrefix(st, "chan receive") && !strings.HasPrefix(st, "select") {
			return false
		}
	}
	return true
}

func waitFor(d time.Duration, f func() bool) bool {
	end := time.Now().Add(d)
	for !f() {
		if time.Now().After(end) {
			return false
		}
		time.Sleep(100 * time.Microsecond)
	}
	return true
}

// runCase executes one case on the real dataplane.
func runCase(cfg caseCfg, r *vgen.Rand) (out caseOut) {
	old := runtime.GOMAXPROCS(cfg.MaxProcs)
	defer runtime.GOMAXPROCS(old)
	out.Stats = map[string]int64{}

	tr := router.VerifPoolNewTracker(6000)
	if vp := os.Getenv("C14_VIOL"); vp != "" {
		if f, err := os.OpenFile(vp, os.O_CREATE|os.O_WRONLY|os.O_APPEND, 0o644); err == nil {
			defer f.Close()
			tr.OnViolation = func(msg string) { _, _ = f.WriteString(msg + "\n") }
		}
	}
	router.VerifPoolInstall(tr)
	defer router.VerifPoolInstall(nil)
	op := &opener{reuse: cfg.Reuse, tr: tr, rng: r.Fork(7)}
	dp, err := router.VerifPoolNewDP(router.VerifPoolConfig{
		NumProcessors: cfg.Procs, NumSlowPathProcessors: cfg.Slow, BatchSize: cfg.Batch,
		ConnOpener: op, Key: key, BFD: cfg.BFD,
		BFDTx: 2 * time.Millisecond, BFDRx: 5 * time.Millisecond,
	})
	if err != nil {
		panic(err)
	}
	conns := make([]*fakeConn, 4)
	conns[cInt] = op.byRemote("internal")
	conns[cExt1] = op.byRemote(router.VerifPoolExt1Remote)
	conns[cExt2] = op.byRemote(router.VerifPoolExt2Remote)
	conns[cSib] = op.byRemote(router.VerifPoolSiblingAddr) // nil without address reuse
	var live []*fakeConn
	for _, c := range conns {
		if c != nil {
			c.pPartial.Store(int32(cfg.PPartial))
			c.pErr.Store(int32(cfg.PErr))
			c.readErrPct = cfg.ReadErr
			c.slowUs, c.goschedPct = cfg.SlowUs, cfg.Gosched
			c.closeMode.Store(int32(cfg.CloseMode))
			live = append(live, c)
		}
	}
	ctx, cancel := context.WithCancel(context.Background())
	defer cancel()
	t0 := time.Now()
	go func() { _ = dp.Run(ctx) }()
	if !waitFor(60*time.Second, func() bool {
		if !dp.Running() {
			return false
		}
		for _, c := range live {
			if c.reads.Load() == 0 {
				return false
			}
		}
		return true
	}) {
		panic("dataplane did not start")
	}
	n := dp.PoolCap()
	out.N = n
	held := cfg.Batch * len(live) // buffers held by the receive loops blocked in ReadBatch

	// direct BFD senders (the real bfdSend.Send, one object per goroutine)
	var wg sync.WaitGroup
	var stopBFD atomic.Bool
	var bfdDirect atomic.Int64
	var directMu sync.Mutex
	directIDs := map[uint64]bool{}
	for i := 0; i < cfg.DirectBFD; i++ {
		ifID := uint16(2)
		if i == 1 {
			ifID = router.VerifPoolSibIfID
		}
		send, err := dp.VerifPoolBFDSender(ifID)
		if err != nil {
			panic(err)
		}
		rr := r.Fork(uint64(100 + i))
		wg.Add(1)
		go func() {
			defer wg.Done()
			directMu.Lock()
			directIDs[router.VerifPoolGoID()] = true
			directMu.Unlock()
			msg := &layers.BFD{Version: 1, State: layers.BFDStateDown, DetectMultiplier: 3,
				MyDiscriminator: 5, DesiredMinTxInterval: 1000, RequiredMinRxInterval: 1000}
			for k := 0; k < 40 && !stopBFD.Load(); k++ {
				_ = send(msg)
				bfdDirect.Add(1)
				if rr.Chance(1, 3) {
					time.Sleep(time.Duration(rr.Intn(200)) * time.Microsecond)
				} else {
					runtime.Gosched()
				}
			}
		}()
	}

	// traffic
	w := weights(cfg.Profile, cfg.BFD)
	gate := (*fakeConn)(nil)
	if cfg.GateConn >= 0 {
		gate = conns[cfg.GateConn]
	}
	gateFrom, gateTo := cfg.Packets/4, cfg.Packets/4+cfg.Packets/3
	sent := 0
	for sent < cfg.Packets {
		burst := r.Range(1, 3*cfg.Batch+2)
		for b := 0; b < burst && sent < cfg.Packets; b++ {
			if gate != nil && sent == gateFrom {
				gate.gated.Store(true)
			}
			if gate != nil && sent == gateTo {
				gate.gated.Store(false)
				for i := 0; i < 8; i++ {
					select {
					case gate.permits <- struct{}{}:
					default:
					}
				}
			}
			k := pickKind(r, w)
			ci, d := gen(k, r, cfg.Reuse, conns[cExt2].bfdDisc.Load(), sibDisc(conns))
			out.Stats["kind_"+kindNames[k]]++
			conns[ci].in <- d
			sent++
		}
		switch r.Intn(4) {
		case 0:
			time.Sleep(time.Duration(r.Intn(300)) * time.Microsecond)
		case 1:
			runtime.Gosched()
		}
	}
	if gate != nil {
		gate.gated.Store(false)
		for len(gate.permits) > 0 {
			<-gate.permits
		}
		for gate.waiting.Load() > 0 {
			select {
			case gate.permits <- struct{}{}:
			default:
			}
			time.Sleep(50 * time.Microsecond)
		}
	}
	stopBFD.Store(true)
	wg.Wait()
	out.Stats["bfd_direct"] = bfdDirect.Load()

	// last Get/Put of every BFD session goroutine (not the direct callers)
	sessions := func() []time.Time {
		_, ths, at := tr.Activity()
		var out []time.Time
		for i, th := range ths {
			if th.Stage == router.VerifPoolStageBFD && !directIDs[th.GoID] {
				out = append(out, at[i])
			}
		}
		return out
	}
	if cfg.BFD {
		// no more BFD packets arrive: the sessions time out (Down: one packet per second)
		waitFor(time.Second, func() bool {
			for _, c := range live {
				if len(c.in) > 0 {
					return false
				}
			}
			for _, l := range sessions() {
				if time.Since(l) < 60*time.Millisecond {
					return false
				}
			}
			return true
		})
	}
	inputsEmpty := func() bool {
		for _, c := range live {
			if len(c.in) > 0 {
				return false
			}
		}
		return true
	}
	// Quiescent: no input left and every router goroutine blocked (see routerIdle). The
	// processors emit no event between taking a packet from their queue and returning it, so
	// silence in the log alone proves nothing.
	quiet := func(expect int) bool {
		return waitFor(20*time.Second, func() bool {
			if !inputsEmpty() {
				return false
			}
			if expect < 0 || dp.PoolLen() != expect {
				// buffers are still on their way (or lost): look at the goroutines less often
				time.Sleep(time.Millisecond)
			}
			return routerIdle() && inputsEmpty()
		})
	}
	if !quiet(n - held) {
		out.Stats["not_quiescent"] = 1
	}
	if dp.PoolLen() != n-held {
		out.Stats["pool_short_at_quiescence"] = int64(n - held - dp.PoolLen())
	}

	if cfg.Retained {
		// A sender that holds a batch when the router stops: block the sender of if 2 in
		// WriteBatch with one packet, let the queue fill behind it, let that write through,
		// block the next (full) batch, and stop the router: Close releases the write with a
		// partial count, -1 and net.ErrClosed (plain or wrapped), or -1 and another error
		// (cfg.CloseMode).
		c := conns[cExt2]
		if cfg.BFD && !dp.InterfaceUp(2) {
			c = conns[cExt1]
		}
		feed := func() {
			if c == conns[cExt2] {
				_, d := gen(kTransit12, r, cfg.Reuse, 0, 0)
				conns[cExt1].in <- d
			} else {
				_, d := gen(kTransit21, r, cfg.Reuse, 0, 0)
				conns[cExt2].in <- d
			}
		}
		c.pPartial.Store(0)
		c.pErr.Store(0)
		c.gated.Store(true)
		feed()
		if waitFor(time.Second, func() bool { return c.waiting.Load() > 0 }) {
			for i := 0; i < cfg.Batch; i++ {
				feed()
				time.Sleep(300 * time.Microsecond)
			}
			time.Sleep(time.Millisecond)
			c.closePartial.Store(true)
			c.permits <- struct{}{}
			if waitFor(time.Second, func() bool { return c.waiting.Load() > 0 && (cfg.CloseMode != 1 || c.maxBatch.Load() >= 2) }) {
				out.Stats["retained_armed"] = 1
			}
		}
		if !quiet(-1) {
			out.Stats["not_quiescent"] = 1
		}
	}

	if cfg.BFD {
		// udpConnection.stop closes the send queues before the BFD sessions are stopped; a BFD
		// packet sent in between panics (send on closed channel) and log.HandlePanic exits the
		// process. Stop the router only while every session is well inside its 0.75-1 s pause.
		// (A session bootstrapped by the last BFD packet sends within 2 ms: give it time to show.)
		time.Sleep(5 * time.Millisecond)
		waitFor(5*time.Second, func() bool {
			ls := sessions()
			for _, l := range ls {
				if d := time.Since(l); d < 60*time.Millisecond || d > 400*time.Millisecond {
					return false
				}
			}
			// a session that has not sent yet sends first 1 s after it was started
			return len(ls) == 2 || time.Since(t0) < 800*time.Millisecond
		})
	}
	if cfg.HotStop {
		// Stop the router while it is busy: a burst that overflows the processor queues, then
		// Shutdown at once. Only packets that the processors discard: anything that is forwarded
		// or answered after udpConnection.stop closed the send queues panics (send on closed
		// channel). What is still queued when the processors see the cleared flag stays queued
		// (owner: the queue) and is found by the final inspection.
		burst := 4 * cfg.Procs * max(len(live)*cfg.Batch/cfg.Procs, cfg.Batch)
		for k := 0; k < burst; k++ {
			ci, src := pickExt(r, cfg.Reuse)
			conns[ci].in <- dgram{discardPkt(r), src}
		}
		switch r.Intn(3) {
		case 0:
			runtime.Gosched()
		case 1:
			time.Sleep(time.Duration(r.Intn(300)) * time.Microsecond)
		}
		out.Stats["hot_stop"] = 1
	}
	done := make(chan struct{})
	go func() { dp.Shutdown(); close(done) }()
	select {
	case <-done:
	case <-time.After(5 * time.Second):
		out.Hung = true
	}

	// After the stop: a processor that passed its loop check before the flag was cleared still
	// sits on its queue and takes whatever arrives there; a slow-path processor likewise takes
	// what a processor hands over after the stop. Whatever is dequeued must still be returned.
	// One packet per processor queue, in the role of a receive loop that delivered late: the
	// first NumSlowPathProcessors get a packet that goes to the slow path and is dropped there,
	// the others one that the processor discards. (A processor that already left keeps it queued.)
	if !out.Hung {
		for i := 0; i < cfg.Procs; i++ {
			raw := discardPkt(r)
			if i < cfg.Slow {
				raw = slowDropPkt()
			}
			pkt := dp.VerifPoolInject(raw, 1)
			if udpip.VerifPoolEnqueueProc(dp.Underlay(), i, pkt) {
				out.Stats["injected_after_stop"]++
			} else {
				dp.VerifPoolReturn(pkt)
			}
		}
		if !waitFor(20*time.Second, func() bool {
			time.Sleep(300 * time.Microsecond)
			return routerIdle()
		}) {
			out.Stats["not_quiescent"] = 1
		}
	}
	cancel()

	// final location of every buffer
	out.Final = make([]int, n)
	for i := range out.Final {
		out.Final[i] = 2
	}
	see := func(p *router.Packet, where int) {
		t := tr.Tok(p)
		if t < 0 {
			out.Direct = append(out.Direct, "a packet that is not a pool buffer was found in a queue")
			return
		}
		if out.Final[t] != 2 {
			out.Final[t] = 3
			return
		}
		out.Final[t] = where
	}
	for _, p := range dp.DrainPool() {
		see(p, 0)
	}
	for _, ps := range udpip.VerifPoolDrain(dp.Underlay()) {
		for _, p := range ps {
			see(p, 1)
		}
	}
	udpip.VerifPoolReleaseProcessors(dp.Underlay())
	var direct []string
	out.Events, out.Threads, direct, out.Dropped = tr.Snapshot()
	out.Direct = append(out.Direct, direct...)
	lastHolder := make([]int, n)
	for i := range lastHolder {
		lastHolder[i] = -1
	}
	for _, e := range out.Events {
		if e.Tok >= 0 {
			if e.Kind == router.VerifPoolPut {
				lastHolder[e.Tok] = -1
			} else {
				lastHolder[e.Tok] = e.G
			}
		}
	}
	for t, f := range out.Final {
		switch f {
		case 2:
			out.Leaked = append(out.Leaked, t)
			st := -1
			if lastHolder[t] >= 0 {
				st = out.Threads[lastHolder[t]].Stage
			}
			out.LeakedBy = append(out.LeakedBy, st)
		case 3:
			out.Direct = append(out.Direct, fmt.Sprintf("buffer %d found twice at the end", t))
		}
	}
	for _, c := range live {
		out.Stats["writes"] += c.writes.Load()
		out.Stats["partial_writes"] += c.partials.Load()
		out.Stats["write_errors"] += c.werrs.Load()
		out.Stats["written"] += c.written.Load()
		out.Stats["reads"] += c.reads.Load()
		out.Stats["written_"+c.name] = c.written.Load()
	}
	return out
}

func sibDisc(conns []*fakeConn) uint32 {
	if conns[cSib] != nil {
		return conns[cSib].bfdDisc.Load()
	}
	return conns[cInt].bfdDisc.Load()
}

// term prints the case as Pool.CTrace n kinds events notpool; all numbers are below 256 and
// written as the identifiers of Lib/SmallNat.v (see there).
func term(o *caseOut) string {
	b := func(v int) string { return "b" + strconv.Itoa(v) }
	kinds := make([]string, len(o.Threads))
	for i, t := range o.Threads {
		kinds[i] = b(t.Stage)
	}
	// The buffers a receive loop presents to ReadBatch are left out of the Coq trace (they are
	// checked by the tracker itself): elaborating the terms dominates the cost of the check.
	evs := make([]string, 0, len(o.Events))
	for _, e := range o.Events {
		if e.Kind == router.VerifPoolUse && o.Threads[e.G].Stage == router.VerifPoolStageRecv {
			continue
		}
		tok := e.Tok
		if tok < 0 {
			tok = o.N // not a pool buffer
		}
		evs = append(evs, [...]string{"G ", "P ", "U "}[e.Kind]+b(e.G)+" "+b(tok))
	}
	var np []string
	for t, f := range o.Final {
		if f != 0 {
			np = append(np, vgen.Pair(b(t), b(f)))
		}
	}
	return vgen.App("CTrace", b(o.N), vgen.List(kinds), vgen.List(evs), vgen.List(np))
}

type isoResult struct {
	Out    *caseOut
	Crash  string   // last lines of the child's stderr if it did not finish
	Viols  []string // ownership violations the tracker reported before the crash
	Reruns int
	Races  []string // race detector reports other than the router's known shutdown race
	Known  int      // reports of the known shutdown race
}

// raceReports splits a race detector log into reports and drops the one race that scion has by
// design: udpConnection.stop closes the send queue (runtime.closechan) while a processor, the
// internal link or a BFD sender may be in Link.Send on it (documented in notes/C14.md).
func raceReports(log string) []string {
	var out []string
	for _, rep := range strings.Split(log, "==================") {
		if !strings.Contains(rep, "DATA RACE") {
			continue
		}
		if strings.Contains(rep, "runtime.closechan") &&
			strings.Contains(rep, "udpip.(*udpConnection).stop") {
			knownRaces.Add(1)
			continue
		}
		if len(rep) > 2500 {
			rep = rep[:2500]
		}
		out = append(out, strings.TrimSpace(rep))
	}
	return out
}

var knownRaces atomic.Int64

// buildRace builds this command with the race detector (thorough tier).
func buildRace(out string) (string, string) {
	if raceEnabled {
		exe, _ := os.Executable()
		return exe, ""
	}
	_ = os.MkdirAll(out, 0o755)
	bin := filepath.Join(out, "c14.race")
	args := []string{"build", "-race", "-tags", "verif"}
	if repo := os.Getenv("VERIF_REPO"); repo != "" && repo != "/repo" {
		alt := filepath.Join(filepath.Dir(out), "alt.mod")
		if _, err := os.Stat(alt); err == nil {
			args = append(args, "-modfile="+alt)
		}
	}
	args = append(args, "-o", bin, "./cmd/c14")
	ctx, cancel := context.WithTimeout(context.Background(), 20*time.Minute)
	defer cancel()
	cmd := exec.CommandContext(ctx, "go", args...)
	if b, err := cmd.CombinedOutput(); err != nil {
		return "", "race build failed: " + err.Error() + ": " + tail(string(b), 400)
	}
	return bin, ""
}

// runIsolated runs case i in a child process (this binary with C14_CHILD set). A crash without
// any ownership violation reported by the tracker is retried (up to 3 times): stopping a router whose BFD
// sessions transmit is inherently racy (udpConnection.stop closes the send queue before the
// sessions are stopped) although the runner waits for a quiet moment.
func runIsolated(i int, exe string, race bool) *isoResult {
	r := &isoResult{}
	for attempt := 0; attempt < 4; attempt++ {
		dir, err := os.MkdirTemp("", "c14-")
		if err != nil {
			r.Crash = err.Error()
			return r
		}
		resPath, violPath := filepath.Join(dir, "result.json"), filepath.Join(dir, "viol.txt")
		limit := 90 * time.Second
		if race {
			limit = 6 * time.Minute
		}
		ctx, cancel := context.WithTimeout(context.Background(), limit)
		cmd := exec.CommandContext(ctx, exe, os.Args[1:]...)
		cmd.Env = append(os.Environ(), "C14_CHILD="+strconv.Itoa(i), "C14_RESULT="+resPath,
			"C14_VIOL="+violPath)
		if race {
			cmd.Env = append(cmd.Env,
				"GORACE=log_path="+filepath.Join(dir, "race")+" exitcode=0 halt_on_error=0")
		}
		var stderr strings.Builder
		cmd.Stderr = &stderr
		runErr := cmd.Run()
		cancel()
		b, rerr := os.ReadFile(resPath)
		vb, _ := os.ReadFile(violPath)
		r.Races = nil
		if race {
			logs, _ := filepath.Glob(filepath.Join(dir, "race.*"))
			for _, l := range logs {
				rb, _ := os.ReadFile(l)
				r.Races = append(r.Races, raceReports(string(rb))...)
			}
		}
		os.RemoveAll(dir)
		if runErr == nil && rerr == nil {
			var out caseOut
			if json.Unmarshal(b, &out) == nil {
				r.Out = &out
				return r
			}
		}
		r.Crash = fmt.Sprint(runErr) + ": " + tail(stderr.String(), 1500)
		r.Viols = nil
		for _, l := range strings.Split(string(vb), "\n") {
			if l != "" {
				r.Viols = append(r.Viols, l)
			}
		}
		if len(r.Viols) > 0 {
			return r
		}
		r.Reruns++
	}
	return r
}

func tail(s string, n int) string {
	if i := strings.Index(s, `"msg":"Panic"`); i >= 0 {
		s = s[i:]
		if len(s) > n {
			return s[:n]
		}
		return s
	}
	if len(s) > n {
		return s[len(s)-n:]
	}
	return s
}

// panicOnly lets through what log.HandlePanic writes and nothing else.
type panicOnly struct{ zapcore.Core }

func (p panicOnly) Check(e zapcore.Entry, ce *zapcore.CheckedEntry) *zapcore.CheckedEntry {
	if e.Message == "Panic" {
		return ce.AddCore(e, p.Core)
	}
	return ce
}

func main() {
	dump := flag.Bool("dump", false, "print per-case statistics to stderr")
	// A panic in a router goroutine ends in log.HandlePanic -> os.Exit(255); make it visible.
	zcfg := zap.NewProductionConfig()
	zcfg.Level = zap.NewAtomicLevelAt(zap.ErrorLevel)
	zcfg.OutputPaths = []string{"stderr"}
	if lg, err := zcfg.Build(zap.WrapCore(func(c zapcore.Core) zapcore.Core {
		return panicOnly{c}
	})); err == nil {
		zap.ReplaceGlobals(lg)
	}
	run := vgen.Flags("C14")
	run.Imports = []string{"Model.Pool", "Lib.SmallNat"}
	run.Prelude = "Import SmallNat. Import Pool."
	run.CheckFn = "Pool.check"
	run.DiagFn = "Pool.diag"
	run.CaseType = "Pool.case"
	run.ShardSize = 4
	run.Rule = "each case = one run of the real dataplane (Run .. Shutdown) over the udpip provider " +
		"with fake sockets: seeded configuration (batch 1-8, 1-3 processors, 1-2 slow-path " +
		"processors, GOMAXPROCS 1-8, shared or own sibling socket, BFD on/off), 40-120 datagrams of " +
		"21 kinds under 7 traffic profiles, partial/failed WriteBatch, read errors, slow and blocked " +
		"senders, direct bfdSend.Send callers, optional sender holding a batch at shutdown (the write " +
		"then returns a partial count, -1 with net.ErrClosed plain/wrapped, or -1 with another error), optional " +
		"Shutdown with overflowing processor queues, one packet per processor queue delivered after " +
		"the stop (discarded by the processor / dropped by the slow path); " +
		"non-trivial = buffers were returned by at least 3 different stages and at least one fault " +
		"path (partial or failed write, or a queue-full/invalid drop) was taken"
	rng := vgen.NewRand(run.Seed)
	nc := run.Count(48, 96)

	// Child mode: execute one case in this process and write the result (see runIsolated).
	if ci := os.Getenv("C14_CHILD"); ci != "" {
		want, _ := strconv.Atoi(ci)
		for i := 0; i <= want; i++ {
			r := rng.Fork(uint64(i))
			cfg := genCfg(r, i)
			if i == want {
				out := runCase(cfg, r)
				b, err := json.Marshal(&out)
				if err == nil {
					err = os.WriteFile(os.Getenv("C14_RESULT"), b, 0o644)
				}
				if err != nil {
					fmt.Fprintln(os.Stderr, "child:", err)
					os.Exit(4)
				}
			}
		}
		return
	}

	// Every case runs in a process of its own: a buffer that is owned twice usually makes the
	// router panic (log.HandlePanic exits the process), and so does a BFD packet sent while the
	// router is being stopped. The parent survives and reports.
	cfgs := make([]caseCfg, nc)
	res := make([]*isoResult, nc)
	for i := 0; i < nc; i++ {
		cfgs[i] = genCfg(rng.Fork(uint64(i)), i)
	}
	exe, _ := os.Executable()
	race := false
	if run.Tier == "thorough" || os.Getenv("C14_RACE") != "" {
		// thorough tier: the same traffic under the Go race detector; any report other than the
		// router's known shutdown race fails the check
		if bin, note := buildRace(run.Out); note == "" {
			exe, race = bin, true
			run.Extra("race_detector", "on")
		} else {
			run.Extra("race_detector", "off: "+note)
			run.Violate(-1, "thorough tier: the race-enabled runner could not be built: "+note, nil)
		}
	} else {
		run.Extra("race_detector", "off (quick tier)")
	}
	sem := make(chan struct{}, 4)
	var wg sync.WaitGroup
	for i := 0; i < nc; i++ {
		if !run.WantID(i) {
			continue
		}
		wg.Add(1)
		sem <- struct{}{}
		go func(i int) {
			defer wg.Done()
			defer func() { <-sem }()
			res[i] = runIsolated(i, exe, race)
		}(i)
	}
	wg.Wait()
	for i := 0; i < nc; i++ {
		cfg := cfgs[i]
		if !run.Want() {
			run.Skip()
			continue
		}
		for _, rep := range res[i].Races {
			run.Tally("race-report")
			run.Violate(i, "data race reported by the Go race detector", rep, "data-race")
		}
		if res[i].Reruns > 0 {
			run.Tally("case-rerun-after-crash-without-ownership-violation")
		}
		if res[i].Out == nil {
			// the router crashed: no trace; the tracker's findings (written as they happened)
			desc := map[string]any{"cfg": cfg, "crash": res[i].Crash, "tracker": res[i].Viols}
			id := run.Add("crash", "(CTrace b0 [] [] [])", fmt.Sprintf("%d/%+v", i, cfg), false, desc)
			for _, v := range res[i].Viols {
				run.Violate(id, v+" (the router crashed afterwards)", desc)
			}
			if len(res[i].Viols) == 0 {
				run.Violate(id, "the router crashed: "+res[i].Crash, desc)
			}
			continue
		}
		out := *res[i].Out
		stagesPut := map[int]int{}
		for _, e := range out.Events {
			if e.Kind == router.VerifPoolPut && e.G < len(out.Threads) {
				stagesPut[out.Threads[e.G].Stage]++
			}
		}
		faults := out.Stats["partial_writes"] + out.Stats["write_errors"] +
			int64(stagesPut[router.VerifPoolStageRecv])
		nontriv := len(stagesPut) >= 3 && faults > 0
		run.Tally("profile:" + cfg.Profile)
		run.Tally(fmt.Sprintf("batch:%d", cfg.Batch))
		run.Tally(fmt.Sprintf("gomaxprocs:%d", cfg.MaxProcs))
		run.Tally(fmt.Sprintf("bfd:%v", cfg.BFD))
		run.Tally(fmt.Sprintf("shared-sibling-socket:%v", !cfg.Reuse))
		for st, c := range stagesPut {
			for k := 0; k < c; k++ {
				run.Tally(fmt.Sprintf("put-by-stage:%d", st))
			}
		}
		if out.Stats["partial_writes"] > 0 {
			run.Tally("case-with-partial-write")
		}
		if out.Stats["write_errors"] > 0 {
			run.Tally("case-with-write-error")
		}
		run.Tally(fmt.Sprintf("write-on-closed-socket-mode:%d", cfg.CloseMode))
		if out.Stats["hot_stop"] > 0 {
			run.Tally("case-stopped-with-full-processor-queues")
		}
		for k := int64(0); k < out.Stats["injected_after_stop"]; k++ {
			run.Tally("packet-delivered-to-a-processor-queue-after-stop")
		}
		if out.Stats["retained_armed"] > 0 {
			run.Tally("case-with-sender-holding-batch-at-shutdown")
		}
		if out.Stats["not_quiescent"] != 0 {
			run.Tally("case-not-quiescent-before-shutdown")
		}
		inQ := 0
		for _, f := range out.Final {
			if f == 1 {
				inQ++
			}
		}
		if inQ > 0 {
			run.Tally("case-with-buffers-left-in-queues")
		}
		var tags []string
		desc := map[string]any{"cfg": cfg, "pool": out.N, "events": len(out.Events),
			"threads": len(out.Threads), "stats": out.Stats, "in_queues_at_end": inQ}
		if len(out.Leaked) > 0 {
			desc["leaked"] = out.Leaked
			desc["leaked_by_stage"] = out.LeakedBy
		}
		id := run.Add("trace", term(&out), fmt.Sprintf("%d/%+v", i, cfg), nontriv, desc, tags...)
		if out.Dropped > 0 {
			run.Violate(id, "event log overflow (harness limit)", desc)
		}
		if out.Hung {
			run.Violate(id, "Shutdown did not return within 5 s", desc)
		}
		for _, v := range out.Direct {
			run.Violate(id, v, desc)
		}
		if len(out.Leaked) > 0 {
			run.Violate(id, fmt.Sprintf("leak: %d buffer(s) %v neither in the pool nor in a queue "+
				"after Shutdown (last holder stages %v)", len(out.Leaked), out.Leaked, out.LeakedBy),
				desc)
		}
		if *dump {
			ks := make([]string, 0, len(out.Stats))
			for k := range out.Stats {
				ks = append(ks, k)
			}
			sort.Strings(ks)
			var sb strings.Builder
			for _, k := range ks {
				fmt.Fprintf(&sb, " %s=%d", k, out.Stats[k])
			}
			fmt.Fprintf(os.Stderr, "case %d %+v pool=%d ev=%d thr=%d putstages=%v leaked=%v by=%v direct=%v\n   %s\n",
				id, cfg, out.N, len(out.Events), len(out.Threads), stagesPut, out.Leaked,
				out.LeakedBy, out.Direct, sb.String())
		}
	}
	if race {
		run.Extra("race_reports_known_shutdown_race", knownRaces.Load())
		_ = os.Remove(exe)
	}
	run.Finish()
}
