package main

// D. concurrent pktRing histories: the ring is filled sequentially, then several
// writer goroutines (the first one with a blocking Write that parks on the full
// ring, the others calling Write while it is parked), one reader goroutine (the
// pktRing has a single consumer by design) and possibly a Close run concurrently;
// finally the runner closes and drains. Every call is stamped; the history is
// checked in Coq (PktLin) for a linearization against the pktRing FIFO
// specification and for "every accepted packet delivered exactly once, nothing
// else delivered".

import (
	"encoding/binary"
	"fmt"
	"runtime"
	"sort"
	"strings"
	"sync"
	"sync/atomic"
	"time"

	"github.com/scionproto/scion/gateway/dataplane"
	"verifharness/internal/vgen"
)

type pkRec struct {
	O        pop
	K        int
	Cell     string // Gallina option N
	Drain    []uint64
	IsDrain  bool
	Inv, Ret uint64
}

type pkHist struct {
	fill    int
	writers [][]pop
	reader  []pop
	closer  int // 0 nobody (watchdog/drain), 1 the reader after its reads, 2 a separate goroutine
	delayUS int
	procs   int
}

func genPktHist(r *vgen.Rand) pkHist {
	_, size := dataplane.VerifPktRingSizes()
	h := pkHist{fill: size, closer: r.Intn(3), delayUS: r.Range(200, 900), procs: vgen.Pick(r, 1, 2, 4, 0)}
	if r.Chance(1, 4) {
		h.fill = r.Range(size-6, size-1)
	}
	next := uint64(1000)
	w := r.Range(2, 5)
	for i := 0; i < w; i++ {
		n := r.Range(1, 3)
		var ops []pop
		for j := 0; j < n; j++ {
			ops = append(ops, pop{Kind: kWrite, V: next, Block: r.Bool()})
			next++
		}
		if i == 0 {
			ops[0].Block = true // parks on the full ring
		}
		h.writers = append(h.writers, ops)
	}
	nr := r.Range(1, 6)
	for j := 0; j < nr; j++ {
		h.reader = append(h.reader, pop{Kind: kRead, Block: r.Chance(2, 3)})
	}
	return h
}

func pktBytes(v uint64) []byte {
	b := make([]byte, 8)
	binary.BigEndian.PutUint64(b, v)
	return b
}

func pktCell(p []byte) (string, uint64) {
	if len(p) == 8 {
		v := binary.BigEndian.Uint64(p)
		return "(Some " + vgen.N(v) + ")", v
	}
	if p != nil {
		return "(Some 4294967295)", 4294967295
	}
	return "None", 0
}

func runPktHist(h pkHist) (recs []pkRec, fill []uint64, lateClose bool, viol *violation) {
	pr := dataplane.VerifNewPktRing()
	for i := 0; i < h.fill; i++ {
		v := uint64(i + 1)
		if k := pr.Write(pktBytes(v), false); k != 1 {
			return nil, nil, false, &violation{fmt.Sprintf("sequential fill: Write #%d returned %d", i, k), nil, "pkt-fill"}
		}
		fill = append(fill, v)
	}
	var ctr atomic.Uint64
	var panics atomic.Pointer[string]
	var firstInvoked atomic.Int32 // writers that have entered their first call
	var w0Invoked atomic.Bool
	nw := len(h.writers)
	g := nw + 1
	if h.closer == 2 {
		g++
	}
	state := make([]atomic.Int32, g) // 0 between calls, 1 in a call, 2 finished
	curOp := make([]atomic.Pointer[pop], g)
	out := make([][]pkRec, g)
	var wg sync.WaitGroup
	call := func(t int, o pop) bool {
		curOp[t].Store(&o)
		state[t].Store(1)
		inv := ctr.Add(1)
		rec := pkRec{O: o, Cell: "None", Inv: inv}
		p, msg := vgen.Recover(func() {
			switch o.Kind {
			case kWrite:
				rec.K = pr.Write(pktBytes(o.V), o.Block)
			case kRead:
				pkt, k := pr.Read(o.Block)
				rec.K = k
				if k == 1 {
					rec.Cell, _ = pktCell(pkt)
				}
			default:
				pr.Close()
			}
		})
		if p {
			panics.Store(&msg)
			state[t].Store(2)
			return false
		}
		rec.Ret = ctr.Add(1)
		state[t].Store(0)
		out[t] = append(out[t], rec)
		return true
	}
	spinUntil := func(cond func() bool) {
		for i := 0; !cond() && i < 200000; i++ {
			runtime.Gosched()
		}
	}
	for t := 0; t < nw; t++ {
		wg.Add(1)
		go func(t int) {
			defer wg.Done()
			defer state[t].Store(2)
			if t > 0 {
				// let writer 0 get parked first
				spinUntil(w0Invoked.Load)
				time.Sleep(250 * time.Microsecond)
			}
			for i, o := range h.writers[t] {
				if i == 0 {
					if t == 0 {
						w0Invoked.Store(true)
					}
					firstInvoked.Add(1)
				}
				if !call(t, o) {
					return
				}
			}
		}(t)
	}
	wg.Add(1)
	go func() { // the single consumer
		t := nw
		defer wg.Done()
		defer state[t].Store(2)
		spinUntil(func() bool { return int(firstInvoked.Load()) == nw })
		time.Sleep(time.Duration(h.delayUS) * time.Microsecond)
		for i, o := range h.reader {
			if !call(t, o) {
				return
			}
			if i == 0 {
				// give the writers released by the first (refilling) read time to run
				time.Sleep(300 * time.Microsecond)
			}
		}
		if h.closer == 1 {
			time.Sleep(200 * time.Microsecond)
			call(t, pop{Kind: kClose})
		}
	}()
	if h.closer == 2 {
		wg.Add(1)
		go func() {
			t := nw + 1
			defer wg.Done()
			defer state[t].Store(2)
			spinUntil(func() bool { return int(firstInvoked.Load()) == nw })
			time.Sleep(time.Duration(2*h.delayUS+600) * time.Microsecond)
			call(t, pop{Kind: kClose})
		}()
	}
	finished := make(chan struct{})
	go func() { wg.Wait(); close(finished) }()
	snapshot := func() (uint64, int) {
		fin := 0
		for t := range state {
			if state[t].Load() == 2 {
				fin++
			}
		}
		return ctr.Load(), fin
	}
	pendingStuck := func() []string {
		rd, wr, cl := pr.State()
		var s []string
		for t := range state {
			if state[t].Load() != 1 {
				continue
			}
			o := curOp[t].Load()
			can := true
			switch o.Kind {
			case kWrite:
				can = wr > 0 || cl
			case kRead:
				can = rd > 0 || cl
			}
			if can {
				s = append(s, fmt.Sprintf("goroutine %d in pktRing op %+v with readable=%d writable=%d closed=%v",
					t, *o, rd, wr, cl))
			}
		}
		return s
	}
	var extra []pkRec
	closed := false
loop:
	for {
		c0, f0 := snapshot()
		select {
		case <-finished:
			break loop
		case <-time.After(quiet):
		}
		c1, f1 := snapshot()
		if c0 != c1 || f0 != f1 {
			continue
		}
		if s := pendingStuck(); len(s) > 0 {
			select {
			case <-finished:
				break loop
			case <-time.After(confirm):
			}
			c2, f2 := snapshot()
			if s2 := pendingStuck(); c2 == c1 && f2 == f1 && len(s2) > 0 {
				viol = &violation{"lost wake-up in pktRing: a call stays blocked although the ring lets it proceed",
					map[string]any{"stuck": s2}, "lost-wakeup"}
				pr.Close()
				select {
				case <-finished:
				case <-time.After(time.Second):
				}
				break loop
			}
			continue
		}
		if !closed {
			inv := ctr.Add(1)
			pr.Close()
			ret := ctr.Add(1)
			extra = append(extra, pkRec{O: pop{Kind: kClose}, Cell: "None", Inv: inv, Ret: ret})
			closed, lateClose = true, true
		}
	}
	if msg := panics.Load(); msg != nil && viol == nil {
		viol = &violation{"panic in pktRing: " + *msg, nil, "panic"}
		pr.Close()
	}
	if viol != nil {
		return nil, fill, lateClose, viol
	}
	// drain: close, read until the ring reports closure
	d := pkRec{IsDrain: true, Inv: ctr.Add(1)}
	p, msg := vgen.Recover(func() {
		pr.Close()
		for i := 0; i < 400; i++ {
			pkt, k := pr.Read(true)
			if k != 1 {
				return
			}
			_, v := pktCell(pkt)
			d.Drain = append(d.Drain, v)
		}
	})
	if p {
		return nil, fill, lateClose, &violation{"panic in pktRing while draining: " + msg, nil, "panic"}
	}
	d.Ret = ctr.Add(1)
	for t := range out {
		recs = append(recs, out[t]...)
	}
	recs = append(recs, extra...)
	recs = append(recs, d)
	sort.Slice(recs, func(i, j int) bool { return recs[i].Ret < recs[j].Ret })
	return recs, fill, lateClose, nil
}

func emitPktHist(run *vgen.Run, h pkHist, recs []pkRec, fill []uint64, lateClose bool) {
	terms := make([]string, len(recs))
	var desc []string
	overlaps, parkedReleased := 0, 0
	for i, x := range recs {
		if x.IsDrain {
			terms[i] = vgen.App("PktLin.D", vgen.NList(x.Drain), vgen.N(x.Inv), vgen.N(x.Ret))
			desc = append(desc, fmt.Sprintf("[%d,%d] drain=%v", x.Inv, x.Ret, x.Drain))
		} else {
			var o string
			switch x.O.Kind {
			case kWrite:
				o = vgen.App("Ring.PWrite", vgen.N(x.O.V), vgen.B(x.O.Block))
				desc = append(desc, fmt.Sprintf("[%d,%d] W%d/%v=%d", x.Inv, x.Ret, x.O.V, x.O.Block, x.K))
				if x.O.Block && x.K == 1 && h.fill == len(fill) && x.Ret-x.Inv > 1 {
					parkedReleased++
				}
			case kRead:
				o = vgen.App("Ring.PRead", vgen.B(x.O.Block))
				desc = append(desc, fmt.Sprintf("[%d,%d] R/%v=%d%s", x.Inv, x.Ret, x.O.Block, x.K, x.Cell))
			default:
				o = "Ring.PClose"
				desc = append(desc, fmt.Sprintf("[%d,%d] C", x.Inv, x.Ret))
			}
			terms[i] = vgen.App("PktLin.P", o, zlit(x.K), x.Cell, vgen.N(x.Inv), vgen.N(x.Ret))
		}
		for j := 0; j < i; j++ {
			if x.Inv < recs[j].Ret && recs[j].Inv < x.Ret {
				overlaps++
			}
		}
	}
	_, size := dataplane.VerifPktRingSizes()
	run.Tally(fmt.Sprintf("pkthist:prefilled-full:%v", h.fill == size))
	run.Tally(fmt.Sprintf("pkthist:writers:%d", len(h.writers)))
	run.Tally(fmt.Sprintf("pkthist:overlapping-pairs:%s", bucket(overlaps)))
	run.Tally(fmt.Sprintf("pkthist:overlapped-writes-accepted:%s", bucket(parkedReleased)))
	run.Tally(fmt.Sprintf("pkthist:closed-by-watchdog:%v", lateClose))
	run.Add("pkt-history", vgen.App("RingLin.CPktHist", vgen.NList(fill), vgen.List(terms)),
		strings.Join(desc, ";"), overlaps > 0 && parkedReleased > 0,
		map[string]any{"fill": h.fill, "gomaxprocs": h.procs, "history": desc, "closed_by_watchdog": lateClose})
}
