package main

import (
	"fmt"

	"github.com/scionproto/scion/private/ringbuf"
)

func main() {
	r := ringbuf.New(3, nil, "x")
	n, b := r.Write(ringbuf.EntryList{1, 2, 3, 4}, false)
	fmt.Println(n, b)
}
