// Runner for C48: the real private/ringbuf.Ring (and the gateway's pktRing)
// against the Gallina model Ring / the in-Coq linearizability checker RingLin.
//
//	A. sequential op lists on one ring (exact results, drained content)
//	B. concurrent histories (<= 8 goroutines, blocking and non-blocking batch
//	   reads/writes and one Close) with invocation/response stamps; a watchdog
//	   reports goroutines that stay blocked although the ring would let them go
//	C. sequential op lists on a pktRing
//
// Unless C48_NORACE is set the runner first tries to rebuild itself with the
// race detector and runs that binary instead (falls back to the plain run when
// the race build is not available in time).
package main

import (
	"encoding/binary"
	"encoding/json"
	"fmt"
	"os"
	"os/exec"
	"path/filepath"
	"runtime"
	"sort"
	"strings"
	"sync"
	"sync/atomic"
	"time"

	"github.com/scionproto/scion/gateway/dataplane"
	"github.com/scionproto/scion/private/ringbuf"
	"verifharness/internal/vgen"
)

// ---------------------------------------------------------------- ops

const (
	kWrite = iota
	kRead
	kClose
)

type op struct {
	Kind  int
	Vals  []uint64 // write: the entries
	N     int      // read: len of the destination
	Block bool
	Spin  int // scheduling noise before the call (concurrent part)
}

type result struct {
	K       int
	Blocked bool
	Got     []any // read: the destination prefix [:K] as returned
	Spill   int   // read: destination slots past the returned count that were overwritten
}

func (o op) gallina() string {
	switch o.Kind {
	case kWrite:
		return vgen.App("Ring.Write", vgen.NList(o.Vals), vgen.B(o.Block))
	case kRead:
		return vgen.App("Ring.Read", fmt.Sprintf("%d%%nat", o.N), vgen.B(o.Block))
	}
	return "Ring.Close"
}

func (o op) String() string {
	switch o.Kind {
	case kWrite:
		return fmt.Sprintf("W%v/%v", o.Vals, o.Block)
	case kRead:
		return fmt.Sprintf("R%d/%v", o.N, o.Block)
	}
	return "C"
}

func cellList(got []any) string {
	out := make([]string, len(got))
	for i, g := range got {
		switch v := g.(type) {
		case uint64:
			out[i] = "(Some " + vgen.N(v) + ")"
		case nil:
			out[i] = "None"
		default:
			out[i] = "(Some 4294967295)" // foreign value: never written by the runner
		}
	}
	return vgen.List(out)
}

func zlit(k int) string { return vgen.Z(int64(k)) + "%Z" }

// apply executes one op on the real ring.
func apply(r *ringbuf.Ring, o op) result {
	switch o.Kind {
	case kWrite:
		es := make(ringbuf.EntryList, len(o.Vals))
		for i, v := range o.Vals {
			es[i] = v
		}
		n, b := r.Write(es, o.Block)
		return result{K: n, Blocked: b}
	case kRead:
		dst := make(ringbuf.EntryList, o.N)
		for i := range dst {
			dst[i] = "sentinel"
		}
		n, b := r.Read(dst, o.Block)
		res := result{K: n, Blocked: b}
		if n > 0 {
			for _, e := range dst[:min(n, len(dst))] {
				res.Got = append(res.Got, e)
			}
		}
		// nothing may be transferred past the returned count
		for _, e := range dst[min(max(n, 0), len(dst)):] {
			if e != "sentinel" {
				res.Spill++
			}
		}
		return res
	}
	r.Close()
	return result{}
}

func newRing(c int, full bool, id string) (*ringbuf.Ring, []uint64) {
	if !full {
		return ringbuf.New(c, nil, id), nil
	}
	next := uint64(1000)
	var init []uint64
	r := ringbuf.New(c, func() any { v := next; next++; init = append(init, v); return v }, id)
	return r, init
}

func initTerm(full bool, init []uint64) string {
	if !full {
		return "None"
	}
	return "(Some " + vgen.NList(init) + ")"
}

// ---------------------------------------------------------------- A. sequential

type seqCase struct {
	c    int
	full bool
	// draws: kind, size, wish to block; the block flag is granted only where the
	// call cannot block
	draws []op
}

func genSize(r *vgen.Rand, c int) int {
	switch r.Intn(10) {
	case 0:
		return 0
	case 1, 2:
		return r.Range(0, 20)
	case 3:
		return c
	case 4:
		return c + 1
	case 5:
		if c > 0 {
			return c - 1
		}
		return 0
	default:
		return r.Range(1, max(1, min(20, c)))
	}
}

func genSeq(r *vgen.Rand) seqCase {
	s := seqCase{c: r.Range(1, 16), full: r.Chance(1, 4)}
	if r.Chance(1, 40) {
		s.c = 0
	}
	n := r.Range(3, 24)
	closeAt := -1
	if r.Chance(2, 5) {
		closeAt = r.Range(n/2, n)
	}
	for i := 0; i < n; i++ {
		if i == closeAt {
			s.draws = append(s.draws, op{Kind: kClose})
			continue
		}
		o := op{Block: r.Bool()}
		if r.Bool() {
			o.Kind = kWrite
			o.N = genSize(r, s.c)
		} else {
			o.Kind = kRead
			o.N = genSize(r, s.c)
		}
		s.draws = append(s.draws, o)
	}
	return s
}

// boundary families, one per capacity: exact fill, exact drain, wrap at the end
// of the slice, one past the capacity, zero-length calls, use after close.
func boundarySeqs() []seqCase {
	var out []seqCase
	W := func(n int, b bool) op { return op{Kind: kWrite, N: n, Block: b} }
	R := func(n int, b bool) op { return op{Kind: kRead, N: n, Block: b} }
	for c := 0; c <= 16; c++ {
		for _, a := range []int{0, 1, c / 2, c - 1, c} {
			if a < 0 || a > c {
				continue
			}
			out = append(out, seqCase{c: c, draws: []op{
				W(a, true), R(a, true), W(c, true), W(1, false), R(c+1, true), R(1, false),
				W(c+1, true), R(c-a, true), W(20, true), R(20, true), W(0, true), R(0, true),
				{Kind: kClose}, W(0, true), R(0, true)}})
			out = append(out, seqCase{c: c, full: true, draws: []op{
				W(1, false), R(a, true), W(a+1, true), R(c, true), R(1, false), W(c, true),
				{Kind: kClose}, R(a, false), W(1, true)}})
		}
	}
	return out
}

func runSeq(run *vgen.Run, s seqCase, id int, kind string) {
	r, init := newRing(s.c, s.full, "seq")
	stored := len(init)
	closed := false
	next := uint64(1)
	var ops []op
	var res []result
	hung := false
	do := func(o op) bool {
		done := make(chan result, 1)
		pan := make(chan string, 1)
		go func() {
			var x result
			if p, msg := vgen.Recover(func() { x = apply(r, o) }); p {
				pan <- msg
				return
			}
			done <- x
		}()
		select {
		case msg := <-pan:
			run.Violate(id, "panic in the ring buffer: "+msg,
				map[string]any{"cap": s.c, "full": s.full, "ops": fmt.Sprint(ops), "op": o.String()}, "panic")
			hung = true
			return false
		case x := <-done:
			ops = append(ops, o)
			res = append(res, x)
			if x.Spill > 0 {
				run.Violate(id, fmt.Sprintf("Read returned %d but overwrote %d destination slots past that count", x.K, x.Spill),
					map[string]any{"cap": s.c, "full": s.full, "ops": fmt.Sprint(ops)}, "read-spill")
			}
			switch o.Kind {
			case kWrite:
				if x.K > 0 {
					stored += x.K
				}
			case kRead:
				if x.K > 0 {
					stored -= x.K
				}
			case kClose:
				closed = true
			}
			return true
		case <-time.After(5 * time.Second):
			run.Violate(id, "sequential call blocked although the ring state lets it return",
				map[string]any{"cap": s.c, "full": s.full, "ops": fmt.Sprint(ops), "blocked_op": o.String()},
				"seq-hang")
			hung = true
			r.Close()
			return false
		}
	}
	for _, d := range s.draws {
		o := op{Kind: d.Kind}
		switch d.Kind {
		case kWrite:
			for i := 0; i < d.N; i++ {
				o.Vals = append(o.Vals, next)
				next++
			}
			o.Block = d.Block && (closed || len(o.Vals) == 0 || stored < s.c)
		case kRead:
			o.N = d.N
			o.Block = d.Block && (closed || o.N == 0 || stored > 0)
		}
		if !do(o) {
			break
		}
	}
	if !hung {
		// drain: close, read everything, then both calls must report closure
		tail := []op{{Kind: kClose}, {Kind: kRead, N: s.c + 5, Block: true},
			{Kind: kRead, N: 1, Block: true}, {Kind: kWrite, Vals: []uint64{next}, Block: true}}
		for _, o := range tail {
			if !do(o) {
				break
			}
		}
	}
	opsT := make([]string, len(ops))
	obsT := make([]string, len(res))
	wraps, transfers := 0, 0
	var desc []string
	for i := range ops {
		opsT[i] = ops[i].gallina()
		obsT[i] = "(" + zlit(res[i].K) + ", " + vgen.B(res[i].Blocked) + ", " + cellList(res[i].Got) + ")"
		desc = append(desc, fmt.Sprintf("%s=%d%s", ops[i], res[i].K, gotStr(res[i].Got)))
		if res[i].K > 0 {
			transfers++
		}
	}
	// non-trivial: enough entries moved to wrap around the slice at least once
	moved := 0
	for i := range ops {
		if ops[i].Kind == kWrite && res[i].K > 0 {
			moved += res[i].K
		}
	}
	if s.c > 0 && moved > s.c {
		wraps = 1
	}
	run.Tally(fmt.Sprintf("seq:cap%02d", s.c))
	run.Tally(fmt.Sprintf("seq:wrapped:%v", wraps == 1))
	run.Add(kind, vgen.App("RingLin.CSeq", fmt.Sprintf("%d%%nat", s.c), initTerm(s.full, init),
		vgen.List(opsT), vgen.List(obsT)),
		fmt.Sprint(s.c, s.full, desc), wraps == 1 && transfers >= 2,
		map[string]any{"cap": s.c, "full": s.full, "ops=result": desc})
}

// ---------------------------------------------------------------- B. concurrent histories

type hrec struct {
	O        op
	R        result
	Inv, Ret uint64
}

type histCase struct {
	c        int
	full     bool
	threads  [][]op
	procs    int
	hasClose bool
	herd     bool
}

// genHerd: several callers wait on the same condition (readers on an empty
// ring / writers on a full one), then one call of the other kind moves enough
// entries for all of them: every waiter must be released (Broadcast, not Signal).
func genHerd(r *vgen.Rand) histCase {
	k := r.Range(2, 5)
	h := histCase{c: r.Range(k, 8), full: r.Bool(), procs: vgen.Pick(r, 1, 2, 4, 0), herd: true}
	next := uint64(1)
	vals := func(n int) []uint64 {
		var v []uint64
		for j := 0; j < n; j++ {
			v = append(v, next)
			next++
		}
		return v
	}
	for i := 0; i < k; i++ {
		o := op{Block: true, Spin: r.Intn(3)}
		if h.full {
			o.Kind = kWrite
			o.Vals = vals(1)
		} else {
			o.Kind = kRead
			o.N = 1
		}
		h.threads = append(h.threads, []op{o})
	}
	big := op{Block: r.Bool(), Spin: 100 + r.Intn(400)}
	n := r.Range(k, h.c)
	if h.full {
		big.Kind = kRead
		big.N = n
	} else {
		big.Kind = kWrite
		big.Vals = vals(n)
	}
	last := []op{big}
	if r.Bool() {
		// something harmless afterwards
		last = append(last, op{Kind: kRead, N: 0, Spin: r.Intn(3)})
	}
	h.threads = append(h.threads, last)
	return h
}

func genHist(r *vgen.Rand) histCase {
	if r.Chance(1, 4) {
		return genHerd(r)
	}
	h := histCase{c: r.Range(1, 4), full: r.Chance(1, 5)}
	if r.Chance(1, 4) {
		h.c = r.Range(5, 16)
	}
	g := r.Range(2, 8)
	total := r.Range(g, 14)
	h.procs = vgen.Pick(r, 1, 2, 4, 0)
	h.threads = make([][]op, g)
	next := uint64(1)
	for i := 0; i < total; i++ {
		t := i
		if i >= g {
			t = r.Intn(g)
		}
		o := op{Block: r.Chance(3, 5), Spin: r.Intn(4)}
		sz := r.Range(1, 3)
		switch r.Intn(8) {
		case 0:
			sz = 0
		case 1:
			sz = r.Range(0, 20)
		case 2:
			sz = h.c
		}
		if r.Bool() {
			o.Kind = kWrite
			for j := 0; j < sz; j++ {
				o.Vals = append(o.Vals, next)
				next++
			}
		} else {
			o.Kind = kRead
			o.N = sz
		}
		h.threads[t] = append(h.threads[t], o)
	}
	if r.Chance(7, 10) {
		// one Close, by a random goroutine at a random place
		t := r.Intn(g)
		at := r.Intn(len(h.threads[t]) + 1)
		ops := append([]op{}, h.threads[t][:at]...)
		ops = append(ops, op{Kind: kClose, Spin: r.Intn(4)})
		h.threads[t] = append(ops, h.threads[t][at:]...)
		h.hasClose = true
	}
	return h
}

const (
	quiet   = 25 * time.Millisecond
	confirm = 1500 * time.Millisecond
)

func canProceed(o op, rd, wr int, cl bool) bool {
	switch o.Kind {
	case kWrite:
		return !(len(o.Vals) > 0 && wr == 0 && !cl)
	case kRead:
		return !(o.N > 0 && rd == 0 && !cl)
	}
	return true
}

type violation struct {
	what string
	desc any
	tag  string
}

// runHist executes one history on a real ring. viol != nil: the history did not
// complete.
func runHist(h histCase) (recs []hrec, init []uint64, lateClose bool, viol *violation) {
	r, init := newRing(h.c, h.full, "hist")
	var ctr atomic.Uint64
	var panics atomic.Pointer[string]
	g := len(h.threads)
	state := make([]atomic.Int32, g) // 0 between calls, 1 in a call, 2 finished
	cur := make([]atomic.Int32, g)
	out := make([][]hrec, g)
	start := make(chan struct{})
	var wg sync.WaitGroup
	for t := 0; t < g; t++ {
		wg.Add(1)
		go func(t int) {
			defer wg.Done()
			<-start
			for i, o := range h.threads[t] {
				if o.Spin >= 100 {
					time.Sleep(time.Duration(o.Spin) * time.Microsecond)
				} else {
					for s := 0; s < o.Spin; s++ {
						runtime.Gosched()
					}
				}
				cur[t].Store(int32(i))
				state[t].Store(1)
				inv := ctr.Add(1)
				var x result
				if p, msg := vgen.Recover(func() { x = apply(r, o) }); p {
					panics.Store(&msg)
					state[t].Store(2)
					return
				}
				ret := ctr.Add(1)
				state[t].Store(0)
				out[t] = append(out[t], hrec{O: o, R: x, Inv: inv, Ret: ret})
			}
			state[t].Store(2)
		}(t)
	}
	finished := make(chan struct{})
	go func() { wg.Wait(); close(finished) }()
	close(start)
	var extra []hrec
	closed := false
	snapshot := func() (uint64, int) {
		fin := 0
		for t := range state {
			if state[t].Load() == 2 {
				fin++
			}
		}
		return ctr.Load(), fin
	}
	pendingStuck := func() []string {
		rd, wr, cl := r.VerifState()
		var s []string
		for t := range state {
			if state[t].Load() == 1 {
				o := h.threads[t][cur[t].Load()]
				if canProceed(o, rd, wr, cl) {
					s = append(s, fmt.Sprintf("goroutine %d in %s with readable=%d writable=%d closed=%v",
						t, o, rd, wr, cl))
				}
			}
		}
		return s
	}
loop:
	for {
		c0, f0 := snapshot()
		select {
		case <-finished:
			break loop
		case <-time.After(quiet):
		}
		c1, f1 := snapshot()
		if c0 != c1 || f0 != f1 {
			continue
		}
		// no progress: everybody left is blocked in a call (or the machine is slow)
		if s := pendingStuck(); len(s) > 0 {
			select {
			case <-finished:
				break loop
			case <-time.After(confirm):
			}
			c2, f2 := snapshot()
			if s2 := pendingStuck(); c2 == c1 && f2 == f1 && len(s2) > 0 {
				viol = &violation{"lost wake-up: a call stays blocked although the ring lets it proceed",
					map[string]any{"cap": h.c, "stuck": s2, "threads": fmt.Sprint(h.threads)}, "lost-wakeup"}
				r.Close() // best effort to release the goroutines
				select {
				case <-finished:
				case <-time.After(time.Second):
				}
				break loop
			}
			continue
		}
		if !closed {
			// legitimately blocked for ever: the runner closes the ring
			inv := ctr.Add(1)
			r.Close()
			ret := ctr.Add(1)
			extra = append(extra, hrec{O: op{Kind: kClose}, Inv: inv, Ret: ret})
			closed = true
			lateClose = true
		}
	}
	if msg := panics.Load(); msg != nil && viol == nil {
		viol = &violation{"panic in the ring buffer: " + *msg,
			map[string]any{"cap": h.c, "threads": fmt.Sprint(h.threads)}, "panic"}
		r.Close()
	}
	if viol != nil {
		return nil, init, lateClose, viol
	}
	// drain: a recorded Close and Reads until the ring reports closure, so that
	// the entries of the last writes are observed too (none may be lost)
	drain := []op{{Kind: kClose}}
	for i := 0; i < 4; i++ {
		drain = append(drain, op{Kind: kRead, N: h.c + 5, Block: true})
	}
	for i, o := range drain {
		inv := ctr.Add(1)
		var x result
		if p, msg := vgen.Recover(func() { x = apply(r, o) }); p {
			return nil, init, lateClose, &violation{"panic in the ring buffer while draining: " + msg,
				map[string]any{"cap": h.c, "threads": fmt.Sprint(h.threads)}, "panic"}
		}
		ret := ctr.Add(1)
		extra = append(extra, hrec{O: o, R: x, Inv: inv, Ret: ret})
		if o.Kind == kRead && x.K < 0 {
			break
		}
		if i == len(drain)-1 {
			return nil, init, lateClose, &violation{"a closed ring never reported closure to the draining reads",
				map[string]any{"cap": h.c, "threads": fmt.Sprint(h.threads)}, "drain"}
		}
	}
	for t := range out {
		recs = append(recs, out[t]...)
	}
	recs = append(recs, extra...)
	for _, x := range recs {
		if x.R.Spill > 0 {
			return nil, init, lateClose, &violation{
				fmt.Sprintf("Read returned %d but overwrote %d destination slots past that count", x.R.K, x.R.Spill),
				map[string]any{"cap": h.c, "op": x.O.String(), "threads": fmt.Sprint(h.threads)}, "read-spill"}
		}
	}
	sort.Slice(recs, func(i, j int) bool { return recs[i].Ret < recs[j].Ret })
	return recs, init, lateClose, nil
}

func emitHist(run *vgen.Run, h histCase, recs []hrec, init []uint64, lateClose bool) {
	terms := make([]string, len(recs))
	var desc []string
	overlaps, transfers, blocked := 0, 0, 0
	for i, x := range recs {
		terms[i] = vgen.App("RingLin.H", x.O.gallina(), zlit(x.R.K), cellList(x.R.Got), vgen.N(x.Inv), vgen.N(x.Ret))
		desc = append(desc, fmt.Sprintf("[%d,%d] %s=%d%v", x.Inv, x.Ret, x.O, x.R.K, gotStr(x.R.Got)))
		if x.R.K > 0 {
			transfers++
		}
		if x.R.Blocked {
			blocked++
		}
		for j := 0; j < i; j++ {
			y := recs[j]
			if x.Inv < y.Ret && y.Inv < x.Ret {
				overlaps++
			}
		}
	}
	run.Tally(fmt.Sprintf("hist:goroutines:%d", len(h.threads)))
	run.Tally(fmt.Sprintf("hist:ops:%02d", len(recs)))
	drained := 0
	for _, x := range recs {
		if x.O.Kind == kRead && x.O.N == h.c+5 && x.R.K > 0 {
			drained += x.R.K
		}
	}
	run.Tally(fmt.Sprintf("hist:entries-found-by-final-drain:%s", bucket(drained)))
	run.Tally(fmt.Sprintf("hist:overlapping-pairs:%s", bucket(overlaps)))
	run.Tally(fmt.Sprintf("hist:calls-that-waited:%s", bucket(blocked)))
	run.Tally(fmt.Sprintf("hist:closed-by-watchdog:%v", lateClose))
	run.Tally(fmt.Sprintf("hist:herd-scenario:%v", h.herd))
	run.Add("history", vgen.App("RingLin.CHist", fmt.Sprintf("%d%%nat", h.c), initTerm(h.full, init), vgen.List(terms)),
		strings.Join(desc, ";"), overlaps > 0 && transfers > 0,
		map[string]any{"cap": h.c, "full": h.full, "gomaxprocs": h.procs, "history": desc,
			"waited": blocked, "closed_by_watchdog": lateClose})
}

func gotStr(got []any) string {
	if len(got) == 0 {
		return ""
	}
	return fmt.Sprint(got)
}

func bucket(n int) string {
	switch {
	case n == 0:
		return "0"
	case n <= 2:
		return "1-2"
	case n <= 5:
		return "3-5"
	case n <= 10:
		return "6-10"
	}
	return ">10"
}

// ---------------------------------------------------------------- C. pktRing

type pop struct {
	Kind  int
	V     uint64
	Block bool
}

func runPkt(run *vgen.Run, r *vgen.Rand, id int) {
	batch, size := dataplane.VerifPktRingSizes()
	pr := dataplane.VerifNewPktRing()
	n := r.Range(10, 160)
	writeBias := r.Range(3, 8) // of 10
	closeAt := -1
	if r.Chance(2, 3) {
		closeAt = r.Range(n/2, n)
	}
	inRing, inBuf := 0, 0
	closed := false
	next := uint64(1)
	var opsT, obsT []string
	var desc []string
	handed := 0
	refills := 0
	hung := false
	for i := 0; i < n+3 && !hung; i++ {
		var o pop
		switch {
		case i == closeAt || i == n:
			o.Kind = kClose
		case i > n:
			o.Kind = kRead
			o.Block = true
		case r.Intn(10) < writeBias:
			o = pop{Kind: kWrite, V: next, Block: r.Bool()}
			next++
			o.Block = o.Block && (closed || inRing < size)
		default:
			o = pop{Kind: kRead, Block: r.Bool()}
			o.Block = o.Block && (closed || inBuf > 0 || inRing > 0)
		}
		type pres struct {
			k   int
			pkt []byte
		}
		done := make(chan pres, 1)
		pan := make(chan string, 1)
		go func() {
			var x pres
			p, msg := vgen.Recover(func() {
				switch o.Kind {
				case kWrite:
					b := make([]byte, 8)
					binary.BigEndian.PutUint64(b, o.V)
					x = pres{k: pr.Write(b, o.Block)}
				case kRead:
					p, k := pr.Read(o.Block)
					x = pres{k: k, pkt: p}
				default:
					pr.Close()
				}
			})
			if p {
				pan <- msg
				return
			}
			done <- x
		}()
		var x pres
		select {
		case msg := <-pan:
			run.Violate(id, "panic in pktRing: "+msg, map[string]any{"ops": desc}, "panic")
			hung = true
			continue
		case x = <-done:
		case <-time.After(5 * time.Second):
			run.Violate(id, "pktRing call blocked although it cannot block", map[string]any{"ops": desc}, "pkt-hang")
			pr.Close()
			hung = true
			continue
		}
		cell := "None"
		switch o.Kind {
		case kWrite:
			opsT = append(opsT, vgen.App("Ring.PWrite", vgen.N(o.V), vgen.B(o.Block)))
			if x.k == 1 {
				inRing++
			}
			desc = append(desc, fmt.Sprintf("W%d=%d", o.V, x.k))
		case kRead:
			opsT = append(opsT, vgen.App("Ring.PRead", vgen.B(o.Block)))
			if x.k == 1 {
				handed++
				if inBuf == 0 {
					m := min(inRing, batch)
					inRing -= m
					inBuf = m
					refills++
				}
				inBuf--
				if len(x.pkt) == 8 {
					cell = "(Some " + vgen.N(binary.BigEndian.Uint64(x.pkt)) + ")"
				} else if x.pkt != nil {
					cell = "(Some 4294967295)"
				}
			}
			desc = append(desc, fmt.Sprintf("R=%d%s", x.k, cell))
		default:
			opsT = append(opsT, "Ring.PClose")
			closed = true
			desc = append(desc, "C")
		}
		obsT = append(obsT, "("+zlit(x.k)+", "+cell+")")
	}
	run.Tally(fmt.Sprintf("pkt:refills:%s", bucket(refills)))
	run.Add("pktring", vgen.App("RingLin.CPkt", vgen.List(opsT), vgen.List(obsT)),
		strings.Join(desc, ","), handed >= 2 && refills >= 1,
		map[string]any{"ops=result": desc})
}

// ---------------------------------------------------------------- race re-exec

// tryRace rebuilds this command with -race and runs it with the same arguments.
// Returns true when the race-enabled child produced the output.
func tryRace(out string, tier string) (bool, string) {
	if raceEnabled || os.Getenv("C48_NORACE") != "" {
		return false, ""
	}
	must := func(err error) {
		if err != nil {
			fmt.Fprintln(os.Stderr, "c48:", err)
		}
	}
	must(os.MkdirAll(out, 0o755))
	bin := filepath.Join(out, "c48.race")
	args := []string{"build", "-race", "-tags", "verif"}
	if repo := os.Getenv("VERIF_REPO"); repo != "" && repo != "/repo" {
		alt := filepath.Join(filepath.Dir(out), "alt.mod")
		if _, err := os.Stat(alt); err == nil {
			args = append(args, "-modfile="+alt)
		}
	}
	args = append(args, "-o", bin, "./cmd/c48")
	limit := 75 * time.Second
	if tier == "thorough" {
		limit = 15 * time.Minute
	}
	cmd := exec.Command("go", args...)
	cmd.Stderr = os.Stderr
	if err := cmd.Start(); err != nil {
		return false, "race build could not start: " + err.Error()
	}
	done := make(chan error, 1)
	go func() { done <- cmd.Wait() }()
	select {
	case err := <-done:
		if err != nil {
			return false, "race build failed: " + err.Error()
		}
	case <-time.After(limit):
		_ = cmd.Process.Kill()
		return false, "race build not finished in time (cold build cache); plain run used"
	}
	logp := filepath.Join(out, "race.log")
	child := exec.Command(bin, os.Args[1:]...)
	child.Env = append(os.Environ(), "GORACE=log_path="+logp+" exitcode=0 halt_on_error=0", "C48_NORACE=1",
		"C48_RACE_CHILD=1")
	child.Stdout, child.Stderr = os.Stdout, os.Stderr
	if err := child.Run(); err != nil {
		return false, "race-enabled run failed: " + err.Error()
	}
	_ = os.Remove(bin)
	// fold the race reports into stats.json
	logs, _ := filepath.Glob(logp + ".*")
	var reports []string
	for _, l := range logs {
		b, _ := os.ReadFile(l)
		if len(b) > 0 {
			s := string(b)
			if len(s) > 3000 {
				s = s[:3000]
			}
			reports = append(reports, s)
		}
		_ = os.Remove(l)
	}
	sp := filepath.Join(out, "stats.json")
	b, err := os.ReadFile(sp)
	if err != nil {
		return false, "race-enabled run left no stats.json"
	}
	var st map[string]any
	if json.Unmarshal(b, &st) != nil {
		return false, "stats.json unreadable"
	}
	st["race_detector"] = "on"
	st["race_reports"] = len(reports)
	if len(reports) > 0 {
		v, _ := st["violations"].([]any)
		v = append(v, map[string]any{"case": -1, "what": "data race reported by the Go race detector",
			"tags": []string{"data-race"}, "desc": reports[0]})
		st["violations"] = v
	}
	nb, _ := json.MarshalIndent(st, "", " ")
	must(os.WriteFile(sp, nb, 0o644))
	return true, ""
}

// ---------------------------------------------------------------- main

func main() {
	run := vgen.Flags("C48")
	raceNote := "on"
	if !raceEnabled {
		okRace, note := tryRace(run.Out, run.Tier)
		if okRace {
			return
		}
		raceNote = "off"
		if note != "" {
			raceNote = "off: " + note
		}
	}
	run.Imports = []string{"Model.Ring", "Model.PktLin", "Model.RingLin"}
	run.CheckFn = "RingLin.check"
	run.DiagFn = "RingLin.diag"
	run.CaseType = "RingLin.case"
	run.ShardSize = 140
	run.Rule = "A: sequential op lists on a real ringbuf.Ring (cap 0..16, batch sizes 0..21, empty or pre-filled, " +
		"blocking flag only where the call cannot block, Close, then drained), exact (count, blocked, entries) per call; " +
		"non-trivial = more entries written than the capacity (the indices wrapped) and >= 2 transfers. " +
		"B: concurrent histories (2..8 goroutines, <= 15 calls + a recorded final Close and Reads until -1, blocking and non-blocking, one Close by a goroutine or " +
		"by the watchdog), checked inside Coq for the existence of a linearization w.r.t. the bounded FIFO; " +
		"non-trivial = overlapping calls and >= 1 transfer. C: sequential op lists on a pktRing; non-trivial = a " +
		"batch refill and >= 2 packets handed out. D: concurrent pktRing histories (ring pre-filled to 64 (3/4) or 58..63, " +
		"writer 0 parks in a blocking Write, 1..4 further writers call Write while it is parked, one reader starts " +
		"afterwards, optional Close, final drain), linearizability against the pktRing FIFO spec + content oracle " +
		"(accepted = delivered, each once) decided in Coq; non-trivial = a blocking Write on the full ring overlapped " +
		"other calls and was accepted"
	run.Extra("race_detector", raceNote)
	rng := vgen.NewRand(run.Seed)

	// A. boundary families, then generated lists
	id := 0
	for _, s := range boundarySeqs() {
		id++
		if !run.Want() {
			run.Skip()
			continue
		}
		runSeq(run, s, id-1, "seq-boundary")
	}
	ns := run.Count(600, 60000)
	for i := 0; i < ns; i++ {
		r := rng.Fork(uint64(i))
		id++
		if !run.Want() {
			run.Skip()
			continue
		}
		runSeq(run, genSeq(r), id-1, "seq")
	}

	// C. pktRing
	np := run.Count(40, 3000)
	for i := 0; i < np; i++ {
		r := rng.Fork(uint64(5000000 + i))
		id++
		if !run.Want() {
			run.Skip()
			continue
		}
		runPkt(run, r, id-1)
	}

	// B. concurrent histories, several at a time
	nh := run.Count(300, 20000)
	type slot struct {
		h         histCase
		recs      []hrec
		init      []uint64
		lateClose bool
		viol      *violation
		want      bool
		id        int
	}
	base := id
	slots := make([]*slot, nh)
	for i := range slots {
		slots[i] = &slot{h: genHist(rng.Fork(uint64(9000000 + i))), id: base + i, want: run.WantID(base + i)}
	}
	defProcs := runtime.GOMAXPROCS(0)
	// group by GOMAXPROCS setting (a process-wide knob)
	for _, procs := range []int{0, 1, 2, 4} {
		p := procs
		if p == 0 {
			p = defProcs
		}
		runtime.GOMAXPROCS(p)
		sem := make(chan struct{}, 6)
		var wg sync.WaitGroup
		for _, s := range slots {
			if s.h.procs != procs || !s.want {
				continue
			}
			wg.Add(1)
			sem <- struct{}{}
			go func(s *slot) {
				defer wg.Done()
				defer func() { <-sem }()
				s.recs, s.init, s.lateClose, s.viol = runHist(s.h)
			}(s)
		}
		wg.Wait()
	}
	runtime.GOMAXPROCS(defProcs)
	for _, s := range slots {
		if !s.want {
			run.Skip()
			continue
		}
		if s.viol != nil {
			run.Violate(s.id, s.viol.what, s.viol.desc, s.viol.tag)
			run.Add("history-incomplete", vgen.App("RingLin.CHist", "0%nat", "None", "[]"), fmt.Sprint(s.id), false,
				map[string]any{"note": "history did not complete, see violations"})
			continue
		}
		emitHist(run, s.h, s.recs, s.init, s.lateClose)
	}

	// D. concurrent pktRing histories
	nd := run.Count(40, 3000)
	type pslot struct {
		h         pkHist
		recs      []pkRec
		fill      []uint64
		lateClose bool
		viol      *violation
		want      bool
		id        int
	}
	pbase := base + nh
	pslots := make([]*pslot, nd)
	for i := range pslots {
		pslots[i] = &pslot{h: genPktHist(rng.Fork(uint64(13000000 + i))), id: pbase + i, want: run.WantID(pbase + i)}
	}
	for _, procs := range []int{0, 1, 2, 4} {
		p := procs
		if p == 0 {
			p = defProcs
		}
		runtime.GOMAXPROCS(p)
		sem := make(chan struct{}, 4)
		var wg sync.WaitGroup
		for _, s := range pslots {
			if s.h.procs != procs || !s.want {
				continue
			}
			wg.Add(1)
			sem <- struct{}{}
			go func(s *pslot) {
				defer wg.Done()
				defer func() { <-sem }()
				s.recs, s.fill, s.lateClose, s.viol = runPktHist(s.h)
			}(s)
		}
		wg.Wait()
	}
	runtime.GOMAXPROCS(defProcs)
	for _, s := range pslots {
		if !s.want {
			run.Skip()
			continue
		}
		if s.viol != nil {
			run.Violate(s.id, s.viol.what, s.viol.desc, s.viol.tag)
			run.Add("history-incomplete", vgen.App("RingLin.CHist", "0%nat", "None", "[]"), fmt.Sprint(s.id), false,
				map[string]any{"note": "pktRing history did not complete, see violations"})
			continue
		}
		emitPktHist(run, s.h, s.recs, s.fill, s.lateClose)
	}
	run.Finish()
}
