// Runner for C45: histories of hidden-segment registrations and requests on the
// real RegistryServer / AuthoritativeServer / Storer over the real sqlite path DB
// (in memory), with a fake segment verifier whose verdict is generated.
package main

import (
	"context"
	"errors"
	"fmt"
	"net"
	"sort"
	"strings"
	"time"

	"github.com/scionproto/scion/pkg/addr"
	"github.com/scionproto/scion/pkg/experimental/hiddenpath"
	seg "github.com/scionproto/scion/pkg/segment"
	"github.com/scionproto/scion/pkg/snet"
	"github.com/scionproto/scion/private/storage/db"
	"github.com/scionproto/scion/private/storage/path/sqlite"
	"github.com/scionproto/scion/private/storage/utils"
	"verifharness/internal/hpseg"
	"verifharness/internal/vgen"
)

var t0 = time.Unix(1_700_000_000, 0)

// universe: the same AS numbers occur under both ISDs (AS numbers are only unique
// per ISD), so that roles must be compared by full ISD-AS.
var universe = []addr.IA{
	addr.MustParseIA("1-ff00:0:110"), addr.MustParseIA("1-ff00:0:111"),
	addr.MustParseIA("1-ff00:0:112"), addr.MustParseIA("2-ff00:0:110"),
	addr.MustParseIA("2-ff00:0:111"), addr.MustParseIA("2-ff00:0:112"),
}

// strangers: further ISD-ASes with the same AS numbers (ISD 0 and an ISD without
// any member); they never hold a role.
var strangers = []addr.IA{
	addr.MustParseIA("0-ff00:0:110"), addr.MustParseIA("0-ff00:0:111"),
	addr.MustParseIA("3-ff00:0:110"), addr.MustParseIA("3-ff00:0:112"),
}

// twin returns an ISD-AS with the AS number of x under another ISD.
func twin(r *vgen.Rand, x addr.IA) addr.IA {
	for {
		isd := addr.ISD(r.Intn(4))
		if isd != x.ISD() {
			return addr.MustIAFrom(isd, x.AS())
		}
	}
}

// outsider draws a peer without regard to roles: any member AS, a stranger, or
// the twin of a role holder of g (same AS number, other ISD).
func outsider(r *vgen.Rand, g *grp) addr.IA {
	switch x := r.Intn(4); {
	case x == 0:
		return vgen.Pick(r, strangers...)
	case x <= 2 && g != nil:
		roles := append([]addr.IA{g.owner, addr.MustIAFrom(g.owner.ISD(), g.id.OwnerAS)}, g.writers...)
		roles = append(roles, g.readers...)
		roles = append(roles, g.registries...)
		return twin(r, vgen.Pick(r, roles...))
	default:
		return vgen.Pick(r, universe...)
	}
}

// iaT prints an ISD-AS as the pair (ISD, low 16 bits of the AS number): an
// injective renaming on the universe (AS 0 stays 0) that keeps the Gallina
// literals short; the model only compares ASes and tests the AS for zero.
func iaT(ia addr.IA) string {
	return vgen.Pair(vgen.N(uint64(ia.ISD())), vgen.N(uint64(ia.AS())&0xffff))
}
func iaL(l []addr.IA) string { return vgen.ListOf(l, iaT) }

type shape struct {
	hops []hpseg.Hop
	end  addr.IA
	key  string
}

type fakeVerifier struct{ ok bool }

func (v fakeVerifier) Verify(context.Context, []*seg.Meta, net.Addr) error {
	if v.ok {
		return nil
	}
	return errors.New("fake verification failure")
}

type grp struct {
	id                          hiddenpath.GroupID
	owner                       addr.IA
	writers, readers, registries []addr.IA
}

type segRef struct {
	shape, ver int
	typ        seg.Type
	// peers selects the peer entries of the last AS entry (0 = none): same hops,
	// hence the same segment id, but a different FullID (hash incl. peerings).
	peers int
}

type opT struct {
	isReg bool
	// isPub (with isReg): not a hidden registration but a public down segment
	// (segs[0]) inserted into the shared path DB by the control service
	// (pathdb Insert, group id 0)
	isPub bool
	// registration
	peer    addr.IA
	gid     hiddenpath.GroupID
	segs    []segRef
	verdict bool
	// request
	gids []hiddenpath.GroupID
	dst  addr.IA
}

type obsT struct {
	isReg bool
	ok    bool
	res   [][2]int // (shape, version), sorted
}

func subset(r *vgen.Rand, lo, hi int) []addr.IA {
	n := r.Range(lo, hi)
	perm := append([]addr.IA(nil), universe...)
	vgen.Shuffle(r, perm)
	out := append([]addr.IA(nil), perm[:n]...)
	sort.Slice(out, func(i, j int) bool { return out[i] < out[j] })
	return out
}

func has(l []addr.IA, x addr.IA) bool {
	for _, y := range l {
		if x == y {
			return true
		}
	}
	return false
}

func toSet(l []addr.IA) map[addr.IA]struct{} {
	m := map[addr.IA]struct{}{}
	for _, x := range l {
		m[x] = struct{}{}
	}
	return m
}

type history struct {
	local   addr.IA
	groups  []grp
	shapes  []shape
	ops     []opT
	mutated bool
}

func genShapes(r *vgen.Rand) []shape {
	n := r.Range(3, 6)
	var out []shape
	seen := map[string]bool{}
	for len(out) < n {
		nh := r.Range(2, 3)
		hops := make([]hpseg.Hop, nh)
		for i := range hops {
			hops[i].IA = vgen.Pick(r, universe...)
			hops[i].Exp = 63
			if i > 0 {
				hops[i].In = uint16(r.Range(1, 6))
			}
			if i < nh-1 {
				hops[i].Eg = uint16(r.Range(1, 6))
			}
		}
		ps, err := hpseg.Build(hops, t0, t0, 1)
		if err != nil {
			panic(err)
		}
		k := hpseg.Key(ps)
		if seen[k] {
			continue
		}
		seen[k] = true
		out = append(out, shape{hops: hops, end: hops[nh-1].IA, key: k})
	}
	return out
}

func genHistory(r *vgen.Rand, mutated bool) *history {
	h := &history{mutated: mutated, local: vgen.Pick(r, universe...)}
	flaw := func() bool {
		if mutated {
			return r.Chance(1, 4)
		}
		return r.Chance(1, 14)
	}
	ng := r.Range(2, 4)
	for i := 0; i < ng; i++ {
		owner := vgen.Pick(r, universe...)
		g := grp{id: hiddenpath.GroupID{OwnerAS: owner.AS(), Suffix: uint16(i + 1)}, owner: owner,
			writers: subset(r, 1, 3), readers: subset(r, 0, 2), registries: subset(r, 1, 2)}
		if r.Chance(1, 4) {
			// the AS number in the group id is that of some other AS (the servers
			// look at Owner, never at ID.OwnerAS)
			g.id.OwnerAS = vgen.Pick(r, universe...).AS() + addr.AS(r.Intn(2))*0x100
		}
		if !has(g.registries, h.local) {
			switch x := r.Intn(12); {
			case x == 0: // local AS is no registry
			case x == 1: // only its twin in the other ISD is
				if t := addr.MustIAFrom(3-h.local.ISD(), h.local.AS()); !has(g.registries, t) {
					g.registries = append(g.registries, t)
				}
			default:
				g.registries = append(g.registries, h.local)
			}
		}
		h.groups = append(h.groups, g)
	}
	h.shapes = genShapes(r)
	unknown := hiddenpath.GroupID{OwnerAS: 0xff00_0000_0999, Suffix: 0x63}
	pickGroup := func() (hiddenpath.GroupID, *grp) {
		if flaw() {
			if r.Bool() {
				return unknown, nil
			}
			return hiddenpath.GroupID{}, nil
		}
		g := &h.groups[r.Intn(len(h.groups))]
		return g.id, g
	}
	increasing := r.Chance(3, 5) // versions grow along the history (else random: re-registrations of old versions)
	clock := 1
	nops := r.Range(8, 18)
	for i := 0; i < nops; i++ {
		if r.Chance(1, 7) || i == 0 && r.Chance(1, 3) {
			// the same segments are also around as public ones, in older, equal or
			// newer versions than the hidden registrations
			s := segRef{shape: r.Intn(len(h.shapes)), ver: r.Range(1, 4), typ: seg.TypeDown}
			if increasing {
				s.ver = clock + r.Range(-1, 1)
				if s.ver < 1 {
					s.ver = 1
				}
			}
			if r.Bool() {
				s.peers = r.Range(1, 2)
			}
			h.ops = append(h.ops, opT{isReg: true, isPub: true, segs: []segRef{s}})
			continue
		}
		if r.Chance(11, 20) {
			o := opT{isReg: true, verdict: !flaw()}
			var g *grp
			o.gid, g = pickGroup()
			if g != nil && !flaw() {
				o.peer = vgen.Pick(r, g.writers...)
			} else {
				o.peer = outsider(r, g)
			}
			ns := r.Range(1, 3)
			if r.Chance(1, 20) {
				ns = 0
			}
			for j := 0; j < ns; j++ {
				s := segRef{shape: r.Intn(len(h.shapes)), ver: r.Range(1, 4), typ: seg.TypeDown}
				if r.Bool() {
					s.peers = r.Range(1, 2)
				}
				if increasing {
					s.ver = clock
					if r.Chance(2, 3) {
						clock++
					}
				}
				if flaw() && r.Bool() {
					s.typ = vgen.Pick(r, seg.TypeUp, seg.TypeCore, seg.Type(0))
				}
				o.segs = append(o.segs, s)
			}
			h.ops = append(h.ops, o)
			continue
		}
		o := opT{}
		var first *grp
		n := r.Range(1, 3)
		if flaw() && r.Chance(1, 3) {
			n = 0
		}
		for j := 0; j < n; j++ {
			id, g := pickGroup()
			if first == nil {
				first = g
			}
			o.gids = append(o.gids, id)
		}
		if n > 0 && r.Chance(1, 8) {
			o.gids = append(o.gids, o.gids[0])
		}
		switch {
		case r.Chance(3, 4):
			o.dst = h.shapes[r.Intn(len(h.shapes))].end
			if r.Chance(1, 8) {
				o.dst = twin(r, o.dst) // same AS number, other ISD
			}
		case r.Chance(1, 2):
			o.dst = addr.MustIAFrom(addr.ISD(r.Range(0, 2)), 0)
		case r.Chance(1, 3):
			o.dst = addr.MustIAFrom(0, vgen.Pick(r, universe...).AS())
		default:
			o.dst = vgen.Pick(r, universe...)
		}
		if first != nil && !flaw() {
			members := append([]addr.IA{first.owner}, first.writers...)
			members = append(members, first.readers...)
			members = append(members, first.registries...)
			o.peer = vgen.Pick(r, members...)
		} else {
			o.peer = outsider(r, first)
		}
		h.ops = append(h.ops, o)
	}
	return h
}

// execute runs the history on the real servers.
func execute(h *history, name string) ([]obsT, string) {
	backend, err := sqlite.New(name, &db.SqliteConfig{InMemory: true})
	if err != nil {
		return nil, "sqlite.New: " + err.Error()
	}
	defer backend.Close()
	store := &hiddenpath.Storer{DB: backend}
	groups := map[hiddenpath.GroupID]*hiddenpath.Group{}
	for _, g := range h.groups {
		groups[g.id] = &hiddenpath.Group{ID: g.id, Owner: g.owner, Writers: toSet(g.writers),
			Readers: toSet(g.readers), Registries: toSet(g.registries)}
	}
	keyToShape := map[string]int{}
	for i, s := range h.shapes {
		keyToShape[s.key] = i
	}
	ctx := context.Background()
	auth := hiddenpath.AuthoritativeServer{Groups: groups, DB: store, LocalIA: h.local}
	var out []obsT
	for _, o := range h.ops {
		if o.isReg {
			var metas []*seg.Meta
			for _, s := range o.segs {
				hops := append([]hpseg.Hop(nil), h.shapes[s.shape].hops...)
				for k := 0; k < s.peers; k++ {
					last := &hops[len(hops)-1]
					last.Peers = append(last.Peers, hpseg.Peer{IA: universe[(s.shape+k)%len(universe)],
						Local: uint16(20 + 10*s.peers + k), Remote: uint16(7 + k), Exp: 63})
				}
				ps, err := hpseg.Build(hops, t0,
					t0.Add(time.Duration(s.ver)*time.Second), uint16(s.ver))
				if err != nil {
					return nil, "build: " + err.Error()
				}
				metas = append(metas, &seg.Meta{Segment: ps, Type: s.typ})
			}
			if o.isPub {
				_, err := backend.Insert(ctx, metas[0])
				out = append(out, obsT{isReg: true, ok: err == nil})
				continue
			}
			reg := hiddenpath.RegistryServer{Groups: groups, DB: store,
				Verifier: fakeVerifier{ok: o.verdict}, LocalIA: h.local}
			err := reg.Register(ctx, hiddenpath.Registration{Segments: metas, GroupID: o.gid,
				Peer: &snet.SVCAddr{IA: o.peer, SVC: addr.SvcCS}})
			out = append(out, obsT{isReg: true, ok: err == nil})
			continue
		}
		res, err := auth.Segments(ctx, hiddenpath.SegmentRequest{GroupIDs: o.gids, DstIA: o.dst,
			Peer: o.peer})
		ob := obsT{ok: err == nil}
		if err == nil {
			for _, m := range res {
				idx, ok := keyToShape[hpseg.Key(m.Segment)]
				if !ok {
					return nil, "returned segment was never generated"
				}
				if m.Type != seg.TypeDown {
					return nil, "returned segment is not a down segment"
				}
				nanos, err := utils.ExtractLastHopVersion(m.Segment)
				if err != nil {
					return nil, "version: " + err.Error()
				}
				ob.res = append(ob.res, [2]int{idx, int((nanos - t0.UnixNano()) / 1e9)})
			}
			sort.Slice(ob.res, func(i, j int) bool {
				if ob.res[i][0] != ob.res[j][0] {
					return ob.res[i][0] < ob.res[j][0]
				}
				return ob.res[i][1] < ob.res[j][1]
			})
		}
		out = append(out, ob)
	}
	return out, ""
}

// simulate evaluates the history on a Go transcription of the abstract store
// (strict = the path DB ignores a not-newer segment completely; !strict = it
// still records the group) and returns the answers of the requests the property
// lets the server answer, plus the number of admitted registrations. Only used
// to classify the input (tagging); the model recomputes the class in Coq and
// the two must agree (part of `agree`).
func simulate(h *history, strict bool) (answers []string, admitted int) {
	type ent struct {
		shape, ver int
		groups     map[uint64]bool
	}
	var st []*ent
	find := func(shape int) *ent {
		for _, e := range st {
			if e.shape == shape {
				return e
			}
		}
		return nil
	}
	group := func(id hiddenpath.GroupID) *grp {
		for i := range h.groups {
			if h.groups[i].id == id {
				return &h.groups[i]
			}
		}
		return nil
	}
	for _, o := range h.ops {
		if o.isReg {
			gid := uint64(0)
			if !o.isPub {
				g := group(o.gid)
				if g == nil || !has(g.writers, o.peer) || !has(g.registries, h.local) || !o.verdict {
					continue
				}
				down := true
				for _, s := range o.segs {
					down = down && s.typ == seg.TypeDown
				}
				if !down {
					continue
				}
				admitted++
				gid = o.gid.ToUint64()
			}
			for _, s := range o.segs {
				e := find(s.shape)
				switch {
				case e == nil:
					st = append(st, &ent{shape: s.shape, ver: s.ver, groups: map[uint64]bool{gid: true}})
				case s.ver <= e.ver:
					if !strict {
						e.groups[gid] = true
					}
				default:
					e.ver = s.ver
					e.groups[gid] = true
				}
			}
			continue
		}
		ok := len(o.gids) > 0
		for _, id := range o.gids {
			g := group(id)
			ok = ok && g != nil && (g.owner == o.peer || has(g.writers, o.peer) ||
				has(g.readers, o.peer) || has(g.registries, o.peer)) && has(g.registries, h.local)
		}
		if !ok {
			answers = append(answers, "-")
			continue
		}
		var res []string
		for _, e := range st {
			end := h.shapes[e.shape].end
			match := o.dst == end
			if o.dst.AS() == 0 {
				match = o.dst.ISD() == end.ISD()
			}
			in := false
			for _, id := range o.gids {
				in = in || e.groups[id.ToUint64()]
			}
			if match && in {
				res = append(res, fmt.Sprint(e.shape, "@", e.ver))
			}
		}
		answers = append(answers, strings.Join(res, ","))
	}
	return
}

// classify tells, from the input alone, whether the history is in the known
// defect class: an admitted registration of a segment already stored in an
// equal or newer version under other groups only is ignored by the path DB, and
// this shows in some answer of the history.
func classify(h *history) (known bool, admitted int) {
	a1, admitted := simulate(h, true)
	a2, _ := simulate(h, false)
	return strings.Join(a1, ";") != strings.Join(a2, ";"), admitted
}

// gidT prints a group id injectively renamed to a small number (the model only
// compares group ids): suffix for configured groups (1..4), 99 for the unknown
// group, 0 for the zero id.
func gidT(id hiddenpath.GroupID) string { return vgen.N(uint64(id.Suffix)) }

func caseTerm(h *history, obs []obsT, known bool) string {
	ends := make([]string, len(h.shapes))
	for i, s := range h.shapes {
		ends[i] = vgen.Pair(vgen.N(uint64(i)), iaT(s.end))
	}
	gs := make([]string, len(h.groups))
	for i, g := range h.groups {
		gs[i] = vgen.Pair(gidT(g.id), vgen.App("mkgroup", iaT(g.owner), iaL(g.writers),
			iaL(g.readers), iaL(g.registries)))
	}
	cfg := vgen.App("mkcfg", vgen.List(gs), iaT(h.local))
	ops := make([]string, len(h.ops))
	for i, o := range h.ops {
		if o.isPub {
			ops[i] = vgen.App("OPub", vgen.App("mkseg", vgen.N(uint64(o.segs[0].shape)),
				fmt.Sprintf("%d%%Z", o.segs[0].ver), vgen.N(uint64(o.segs[0].typ))))
		} else if o.isReg {
			segs := vgen.ListOf(o.segs, func(s segRef) string {
				return vgen.App("mkseg", vgen.N(uint64(s.shape)),
					fmt.Sprintf("%d%%Z", s.ver), vgen.N(uint64(s.typ)))
			})
			ops[i] = vgen.App("OReg", vgen.App("mkreg", iaT(o.peer), gidT(o.gid),
				segs, vgen.B(o.verdict)))
		} else {
			ops[i] = vgen.App("OReq", vgen.App("mkreq",
				vgen.ListOf(o.gids, gidT), iaT(o.dst), iaT(o.peer)))
		}
	}
	ob := make([]string, len(obs))
	for i, o := range obs {
		if o.isReg {
			c := uint64(1)
			if o.ok {
				c = 0
			}
			ob[i] = vgen.App("ObsReg", vgen.N(c))
		} else {
			ob[i] = vgen.App("ObsReq", vgen.B(o.ok), vgen.ListOf(o.res, func(p [2]int) string {
				return vgen.Pair(vgen.N(uint64(p[0])), fmt.Sprintf("%d%%Z", p[1]))
			}))
		}
	}
	return vgen.App("CHist", vgen.List(ends), cfg, vgen.List(ops), vgen.List(ob), vgen.B(known))
}

func describe(h *history, obs []obsT) any {
	var ops []any
	for i, o := range h.ops {
		if o.isPub {
			ops = append(ops, map[string]any{"op": "public-insert", "seg": fmt.Sprint(o.segs[0]),
				"impl_ok": obs[i].ok})
		} else if o.isReg {
			ops = append(ops, map[string]any{"op": "register", "peer": o.peer.String(),
				"group": o.gid.String(), "segs": fmt.Sprint(o.segs), "verifies": o.verdict,
				"impl_ok": obs[i].ok})
		} else {
			var ids []string
			for _, g := range o.gids {
				ids = append(ids, g.String())
			}
			ops = append(ops, map[string]any{"op": "segments", "peer": o.peer.String(),
				"groups": strings.Join(ids, ","), "dst": o.dst.String(), "impl_ok": obs[i].ok,
				"impl_result(shape,version)": fmt.Sprint(obs[i].res)})
		}
	}
	var gs []any
	for _, g := range h.groups {
		gs = append(gs, map[string]any{"id": g.id.String(), "owner": g.owner.String(),
			"writers": fmt.Sprint(g.writers), "readers": fmt.Sprint(g.readers),
			"registries": fmt.Sprint(g.registries)})
	}
	var sh []string
	for i, s := range h.shapes {
		sh = append(sh, fmt.Sprintf("%d:ends %s", i, s.end))
	}
	return map[string]any{"local": h.local.String(), "groups": gs, "shapes": sh, "ops": ops}
}

func main() {
	run := vgen.Flags("C45")
	run.Imports = []string{"Model.HiddenPath"}
	run.CheckFn = "HiddenPath.check"
	run.DiagFn = "HiddenPath.diag"
	run.CaseType = "HiddenPath.case"
	run.ShardSize = 150
	run.Prelude = "Import HiddenPath."
	run.Rule = "histories of 8-18 registrations/requests against real RegistryServer + AuthoritativeServer + " +
		"Storer over an in-memory sqlite path DB; 2-4 random groups over 6 ASes in 2 ISDs with the same AS numbers in both (plus role-less twins in ISD 0/3 and group ids naming another AS), 3-6 segment shapes " +
		"(real signed-format segments) in versions 1..; mostly admissible ops, each ingredient flawed with " +
		"p=1/14 (every 4th history: p=1/4): unknown/zero group, non-writer, non-member, local AS not a registry, " +
		"non-down segment, failing verification, no/duplicate group ids, wildcard/zero-ISD destinations, empty " +
		"registrations, stale versions, refreshed versions with changed peer entries (other FullID), public inserts of the same segments (group id 0) into the shared DB in older/equal/newer versions; non-trivial = at least one admitted registration and one answered request " +
		"returning segments"
	rng := vgen.NewRand(run.Seed)
	n := run.Count(1000, 20000)
	for i := 0; i < n; i++ {
		h := genHistory(rng.Fork(uint64(i)), i%4 == 3)
		if !run.Want() {
			run.Skip()
			continue
		}
		var obs []obsT
		var fail string
		panicked, msg := vgen.Recover(func() {
			obs, fail = execute(h, fmt.Sprintf("c45-%d-%d", run.Seed, i))
		})
		known, admitted := classify(h)
		var tags []string
		if known {
			tags = append(tags, "regroup-not-newer")
			run.Tally("class:regroup-not-newer")
		}
		if panicked || fail != "" {
			// keep id numbering: register a placeholder case that cannot agree
			id := run.Add("history", caseTerm(h, nil, known), fmt.Sprint(i), false, describe0(h), tags...)
			run.Violate(id, "hidden path servers: "+msg+fail, describe0(h), tags...)
			continue
		}
		answered, served := 0, 0
		for j, o := range obs {
			switch {
			case h.ops[j].isPub:
				run.Tally(fmt.Sprintf("public-insert:ok=%v", o.ok))
			case h.ops[j].isReg:
				run.Tally(fmt.Sprintf("register:ok=%v", o.ok))
			default:
				run.Tally(fmt.Sprintf("segments:ok=%v", o.ok))
				if o.ok {
					answered++
					served += len(o.res)
				}
			}
		}
		if h.mutated {
			run.Tally("stream:mutated")
		} else {
			run.Tally("stream:valid")
		}
		run.Add("history", caseTerm(h, obs, known), fmt.Sprint(i, h.local, h.ops), admitted > 0 && served > 0,
			describe(h, obs), tags...)
	}
	run.Finish()
}

func describe0(h *history) any {
	obs := make([]obsT, len(h.ops))
	return describe(h, obs)
}
