package main

import (
	"context"
	"fmt"
	"time"

	"github.com/scionproto/scion/pkg/addr"
	"github.com/scionproto/scion/pkg/experimental/hiddenpath"
	seg "github.com/scionproto/scion/pkg/segment"
	"github.com/scionproto/scion/pkg/snet"
	"github.com/scionproto/scion/private/storage/db"
	"github.com/scionproto/scion/private/storage/path/sqlite"
	"verifharness/internal/hpseg"
)

type ver struct{ ok bool }

func (v ver) Verify(context.Context, []*seg.Meta, interface{ Network() string; String() string }) error { return nil }

func main() {
	b, err := sqlite.New("probe", &db.SqliteConfig{InMemory: true})
	if err != nil {
		panic(err)
	}
	st := &hiddenpath.Storer{DB: b}
	ia := func(s string) addr.IA { return addr.MustParseIA(s) }
	hops := []hpseg.Hop{{IA: ia("1-ff00:0:110"), Eg: 1, Exp: 63}, {IA: ia("1-ff00:0:111"), In: 2, Exp: 63}}
	t0 := time.Unix(1700000000, 0)
	s1, _ := hpseg.Build(hops, t0, t0, 1)
	gA := hiddenpath.GroupID{OwnerAS: 0xff0000000110, Suffix: 1}
	gB := hiddenpath.GroupID{OwnerAS: 0xff0000000110, Suffix: 2}
	ctx := context.Background()
	fmt.Println(st.Put(ctx, []*seg.Meta{{Segment: s1, Type: seg.TypeDown}}, gA))
	fmt.Println(st.Put(ctx, []*seg.Meta{{Segment: s1, Type: seg.TypeDown}}, gB))
	r, err := st.Get(ctx, ia("1-ff00:0:111"), []hiddenpath.GroupID{gA})
	fmt.Println("A:", len(r), err)
	r, err = st.Get(ctx, ia("1-ff00:0:111"), []hiddenpath.GroupID{gB})
	fmt.Println("B:", len(r), err)
	_ = snet.SVCAddr{}
}
